#!/bin/sh
# usage: verify_seed.sh <Cxx> [check-props...]   verifies a seeded change and runs our checks against it
# 1. demo passes on the clean tree, fails with the patch (in the scratch worktree /tmp/seed-<id> at /repo's HEAD)
# 2. ./check <prop> with VERIF_REPO=<worktree with patch> must exit 1 with a VIOLATION line
id=$1; shift; props=${*:-$id}
T=${SEEDTAG:-}; wt=/tmp/seed$T-$id; out=/tmp/seedout$T-$id; log=/tmp/seedverify$T-$id.log
export GOFLAGS=-mod=mod GOPROXY=off GOSUMDB=off GOTOOLCHAIN=local
{
cd $wt && git checkout -q -- . && git clean -fdq && git checkout -q --detach $(git -C /repo rev-parse HEAD) || exit 9
demo=$(find $out -name "*_test.go" | head -1); rel=$(grep -o '[a-z]*/seed_demo_test.go' $out/README.md | head -1); rel=${rel:-swap/seed_demo_test.go}
pkg=$(dirname $rel)
cp $demo $wt/$rel
echo "== demo on clean tree"; go test -count=1 -run 'Seed' ./$pkg/ 2>&1 | tail -3
git apply $out/patch.diff || { echo "PATCH DOES NOT APPLY"; exit 8; }
echo "== build with patch"; go build ./... && echo build ok
echo "== demo with patch"; go test -count=1 -run 'Seed' ./$pkg/ 2>&1 | grep -v "^\s*$" | tail -6
rm -f $wt/$rel
# the checks run from a snapshot of /verif: edits made meanwhile do not disturb the run, and the evidence / replays of the
# patched tree do not overwrite those of the unchanged tree
snap=/tmp/vsnap$T-$id; rm -rf $snap; mkdir -p $snap; rsync -a --exclude .work --exclude .git --exclude replays /verif/ $snap/
for p in $props; do
  echo "== our check $p against the patched tree"
  (cd $snap && VERIF_CACHE_DIR=/verif/.work/cache-swapfsm VERIF_REPO=$wt ./check $p 2>&1 | grep "VIOLATION\|signature\|KNOWN\|ERROR\|drift\|Traceback\|rror" | cut -c1-300 | sort | uniq -c | head -20; )
done
git checkout -q -- .
rm -rf $snap
} > $log 2>&1
echo "done $id" >> $log
