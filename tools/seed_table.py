#!/usr/bin/env python3
"""Fills section 9 of DESIGN.md from /verif/seeded/*/meta.json."""
import glob, json, os, re
rows = []
for p in sorted(glob.glob("/verif/seeded/*/meta.json")):
    m = json.load(open(p))
    sig = (m.get("signatures") or ["-"])
    cl = lambda t: " ".join(str(t).split()).replace("|", "\\|")
    rows.append("| %s | %s | %s | %s | %s |" % (os.path.basename(os.path.dirname(p)), cl(m.get("summary", "")), cl(m.get("needs_to_manifest", "")),
                "yes" if m.get("caught_by_our_check") else "**no**", "<br>".join("`" + cl(s[:110]) + "`" for s in sig[:2])))
tbl = ("\n\n| seed | change | needs to manifest | caught | by (signature) |\n|---|---|---|---|---|\n" + "\n".join(rows) + "\n") if rows else " (none kept yet)\n"
d = open("/verif/DESIGN.md").read()
d = re.sub(r"SEEDED-TABLE.*?(?=\n## 10\.)", lambda m: "SEEDED-TABLE" + tbl, d, flags=re.S)
open("/verif/DESIGN.md", "w").write(d)
print(len(rows), "rows")
