#!/usr/bin/env python3
"""Writes /verif/MANIFEST.json from the table below (single source of truth)."""
import json
import os

HERE = os.path.dirname(os.path.dirname(os.path.abspath(__file__)))

BASELINE_OFF = ("cd /repo && export GOFLAGS=-mod=mod GOPROXY=off GOSUMDB=off GOTOOLCHAIN=local && "
                "go build ./... && go test -vet=off -count=1 -timeout 25m ./...")

# property -> (engine, category, level text, level note, technique, design_ref)
CLAIMED = {
    "C30": ("feeversion", "model_checking",
            "TLC checks the order/floor lemmas on spec/FeeVersion.tla and enumerates its whole finite case space; every case is "
            "evaluated on the real GetFee / DetermineFeeFloor / CompareVersionStrings and the recorded answers are validated "
            "by TLC against the specification (plus totality/transitivity over the real answers). Exhaustive over the case "
            "space; that is the right level for three pure functions.",
            "Case space is finite and chosen (rates <= 25000 sat/kw, sizes <= 10000 vB because TLC integers are 32-bit); "
            "float64 slack of one unit only where the exact product is integral.",
            "TLA+ functional spec + TLC case enumeration + TLC trace validation of real answers", "7/C30"),
}

FSM_TEXT = "TLC explores spec/PeerSwap.tla (node + environment; state tables extracted from the code under test; every Action as a sequence of failable/crashable service calls) over role x chain x fault x crash x adversary configurations and exports the shortest schedule per coverage key, including every distinct set of violations the model predicts. Each schedule is executed on the REAL swap.SwapService (real FSM, actions, bbolt store, policy file, premium store, retransmitter, Bitcoin validator) inside a simulated chain/Lightning/wallet/peer; TLC replays the recorded events through the observer spec/PeerSwapObs.tla and evaluates the property checks at every event. The model's predicted final states and violations are compared with the real run (drift is reported, never a violation)."
DUO_TEXT = ' Two-node part (engine duo): TLC explores Duo.tla, the two-party protocol as a composition (two nodes over the state tables extracted from the code, FIFO network with loss / delay and duplication of the one message peerswap retransmits, chain, Lightning channel with held HTLCs, scheduler with one failing call / one crash) for both swap types x both chains x who initiates, checks P_D1 atomicity, P_D2 termination after the fair closure, P_D3 agreement of the two records, P_D4 no secret before its time, P_D5 message conformance on every reachable state; the shortest schedule per coverage key, its heal / dead closures and VERIF_SEED random walks run on TWO REAL swap.SwapService instances wired together; TLC re-executes every recorded step on the model (joint snapshot must agree) and folds the real events through the same definitions (violations mapped to Cxx|duo|...).'
FSM_NOTE = 'Bounded: 1-2 swaps, <= 4-6 environment steps, <= 1 service failure or crash per behaviour in the quick tier; Lightning node, chain, wallets and the peer are simulated (harness/l1); Liquid transactions are abstract records at this level (the real Liquid validator/builders are checked by engine tx).'
CLAIMED.update({
    "C06": ("combo(swapfsm+duo)", "model_checking", FSM_TEXT + " For this property: coop_close is judged at every send against the ground-truth status of the swap's claim payment (HTLC created / pending / settled / failed as decided by the schedule)." + DUO_TEXT, FSM_NOTE,
            "TLA+ design model + TLC schedule export + real-code execution + TLC trace validation (observer)", "7/C06"),
    "C07": ("combo(swapfsm+duo)", "model_checking", FSM_TEXT + " For this property: after every successful wallet broadcast the persisted record must name the opening tx at every quiescent point, and a maker swap may only be terminal when paid or spent back." + DUO_TEXT, FSM_NOTE,
            "TLA+ design model + TLC schedule export + real-code execution + TLC trace validation (observer)", "7/C07"),
    "C09": ("swapfsm", "model_checking", FSM_TEXT + " For this property: registry and store snapshots before/after every delivery; messages from third parties, requests reusing ids, and messages unacceptable in the current state must change nothing.", FSM_NOTE,
            "TLA+ design model + TLC schedule export + real-code execution + TLC trace validation (observer)", "7/C09"),
    "C10": ("swapfsm", "model_checking", FSM_TEXT + " For this property: at every quiescent point the registry and the unfinished records hold at most one swap per normalised channel; requests/initiations on a busy channel are refused with cancel.", FSM_NOTE,
            "TLA+ design model + TLC schedule export + real-code execution + TLC trace validation (observer)", "7/C10"),
    "C11": ("swapfsm", "model_checking", FSM_TEXT + " For this property: Admit(config, request classes) <=> agreement sent; refusals must send a cancel carrying the swap id.", FSM_NOTE,
            "TLA+ design model + TLC schedule export + real-code execution + TLC trace validation (observer)", "7/C11"),
    "C12": ("swapfsm", "model_checking", FSM_TEXT + " For this property: amounts passed to the Lightning node and the wallet (fee payment, claim HTLC, opening tx, invoices, responder premium) against request/agreement fields.", FSM_NOTE,
            "TLA+ design model + TLC schedule export + real-code execution + TLC trace validation (observer)", "7/C12"),
    "C13": ("swapfsm", "model_checking", FSM_TEXT + " For this property: anchor persisted before the pubkey leaves; never changes; no claim HTLC without it (Liquid configurations).", FSM_NOTE,
            "TLA+ design model + TLC schedule export + real-code execution + TLC trace validation (observer)", "7/C13"),
    "C14": ("combo(swapfsm+record)", "model_checking", FSM_TEXT + " For this property (reachable records): every record reloaded at restart equals (digest of the full JSON of the state machine) the last record written; the continuation is compared with the model's prediction. "
            "Arbitrary field values (engine record): Record.tla models the persisted swap record as 70 fields x boundary value classes and the bbolt store as a state machine; TLC checks the codec lemma on a covering set (all classes of all fields; cross products heights x anchor flag, "
            "error x cancel fields, message presence, state x type x role) and P_C14_roundtrip / P_C14_response on all operation sequences over 2 ids; every exported record and sequence plus VERIF_SEED random ones is executed on the real bbolt store with real SwapStateMachine values, the "
            "database reopened, every returned record compared field by field, and RecordTrace judges every line with the same operators.",
            FSM_NOTE + " Record part: value classes, not all values; exceptions E1-E4 (LastErr persisted as string, invalid UTF-8, process state, nil = empty byte slice) are stated in the spec header.",
            "TLA+ design model + Record.tla store/codec model; TLC export; real-code execution (real bbolt store); TLC trace validation", "7/C14"),
    "C15": ("swapfsm", "model_checking", FSM_TEXT + " For this property: at most one successful opening broadcast per swap, no payment after a persisted cancel, re-sent requests/agreements byte-identical.", FSM_NOTE,
            "TLA+ design model + TLC schedule export + real-code execution + TLC trace validation (observer)", "7/C15"),
    "C17": ("swapfsm", "model_checking", FSM_TEXT + " For this property: after the clock passed the negotiation timeout and all due timers fired, requester / swap-out responder must be cancelled and the peer told - also after restarts.", FSM_NOTE,
            "TLA+ design model + TLC schedule export + real-code execution + TLC trace validation (observer)", "7/C17"),
    "C21": ("swapfsm", "model_checking", FSM_TEXT + " For this property: type number and re-encoding of every sent message; junk type strings / payloads (null, {}, arrays, bad ids, > 100 KiB) must change nothing and must not panic.", FSM_NOTE,
            "TLA+ design model + TLC schedule export + real-code execution + TLC trace validation (observer)", "7/C21"),
    "C23": ("swapfsm", "model_checking", FSM_TEXT + " For this property: every sent payload is scanned (hex / raw / base64) for every swap key and preimage the node holds; only the taker key inside that swap's coop_close is allowed.", FSM_NOTE,
            "TLA+ design model + TLC schedule export + real-code execution + TLC trace validation (observer)", "7/C23"),
})

CLAIMED.update({
    "C01": ("combo(swapfsm+tx)", "model_checking",
            FSM_TEXT + " For this property (FSM clause): at every claim HTLC the announced opening tx must be known to the chain at depth >= 3/2, contain a good swap output, "
            "lock the paid invoice's hash, and the invoice amount/payee must be the negotiated ones. Validator clause (engine tx): TLC enumerates all 18,026 abstract opening "
            "transactions of TxShape.tla (amount x asset x blinding x script classes, duplicates, change = amount, ordering); each is built as a real Bitcoin MsgTx / real blinded "
            "Elements transaction and judged by the real BitcoinOnChain.ValidateTx / LiquidOnChain.ValidateTx; TxTrace checks accept => SpecValid on every line.",
            FSM_NOTE + " Validator clause is soundness only (conservative rejections are recorded, not violations); go-elements / secp256k1-zkp primitives are trusted.",
            "TLA+ design model + TxShape case enumeration; real-code execution; TLC trace validation", "7/C01"),
    "C02": ("script", "model_checking",
            "Script.tla is a TLA+ interpreter (state machine + closure) of the protocol's opening-script template under Bitcoin P2WSH rules (BIP141/66/112, CHECKSIG/NOTIF/SIZE/SHA256, "
            "clean stack) over abstract witness items; TLC checks P_C02 (accept => taker sig + 32-byte preimage, or taker + maker sigs, or maker sig + sequence satisfying CSV N; the three "
            "wallet witnesses accepted; exact characterisation) on every state of every case (quick 3.3M states), exports every case, and every case is executed on the REAL script "
            "(SwapData.GetOpeningParams, ParamsToTxScript, Bitcoin/LiquidOnChain.GetOutputScript/CreateOpeningAddress, Get*Witness) by btcd's engine with real signatures; ScriptTrace "
            "requires engine verdict = interpreter verdict for every case.",
            "Exhaustive up to witness length 3-4 over 10 item classes, 9 sequence classes around N per chain (1008/10080/60), tx versions 1/2, three flag sets, 31/32/33-byte hash preimages, "
            "plus seeded random longer stacks. Liquid is judged through its script bytes in a Bitcoin transaction; btcd's engine is the trusted reference for script semantics.",
            "TLA+ script interpreter + TLC exhaustive cases + btcd engine on the real script + TLC trace validation", "7/C02"),
    "C03": ("tx", "model_checking",
            "For accepted opening shapes (taker, preimage) and honest funding results (maker, csv/coop) x back-end (CLN, LND, Liquid) x 5 fee-estimator answers, the real adapters and builders "
            "run over simulated node RPCs. The broadcast transaction is checked against SpendTx.tla by TLC trace validation: single input = a good swap outpoint, sequence 0/CSV, one wallet "
            "output (+ explicit fee on Liquid), value = amount - fee, canonical witness, valid iff kind != csv or depth >= CSV (btcd engine, Elements sighash + ECDSA, unblinding, proofs, BIP68 in TLA).",
            "LWK wallet is not run; the Liquid script evaluation is a three-path evaluator (no Elements script engine offline); quick samples the Liquid taker spends.",
            "TLA+ SpendTx spec + TLC case enumeration + real builders over fake node RPCs + TLC trace validation", "7/C03"),
    "C04": ("combo(swapfsm+route)", "model_checking",
            FSM_TEXT + " For this property (FSM clause): every claim HTLC of a Liquid swap is judged against the persisted anchor, the Liquid tip, invoice CLTV and route limit; legacy swaps must "
            "create none. Arithmetic / builder clause (engine route): Timelock.tla specifies the policy table, window, invoice and route-builder operators; TLC checks P_C04_* on a design model and "
            "exports boundary cases (2^32 wraps through a scaled modulus); the real functions, both real Lightning clients over fake nodes and the real Await/Pay Actions must answer as the spec; "
            "thorough: Apalache proves the margin for all heights.",
            FSM_NOTE + " The 10021-minute bound is taken from the statement.", "TLA+ design model + Timelock.tla; TLC; real-code execution; trace validation; Apalache lemma", "7/C04"),
    "C05": ("combo(swapfsm+route)", "model_checking",
            FSM_TEXT + " For this property (FSM clause): every Bitcoin claim HTLC is judged as payTip + route delay < confirmation height + 1008 with ground-truth heights. Arithmetic clause "
            "(engine route): the inline Bitcoin checks incl. uint32 wrap and RoutePermits (CLN final+1, LND final+4) are specified in Timelock.tla; the real Actions and clients conform on all "
            "boundary and random cases; P_C05_margin is evaluated on the real payments x confirmation offsets; the 104 violating boundary tuples are an exact known finding equal to the set TLC "
            "derives from the spec, so any other tuple is a new violation.",
            FSM_NOTE + " 'permits' is read as the request's limit (LND CltvLimit).", "TLA+ design model + Timelock.tla; TLC; real-code execution; trace validation; Apalache lemma", "7/C05"),
    "C08": ("combo(swapfsm+tx)", "model_checking",
            FSM_TEXT + " For this property (message clause): every opening_tx_broadcasted sent is compared with the wallet broadcast of that swap (txid, vout, invoice hash/amount/expiry/CLTV, blinding "
            "key presence). Transaction clause (engine tx): the real opening paths (CLN adapter for two lightningd versions, LND adapter, LiquidOnChain over the real ElementsRpcWallet) run against "
            "simulated wallets over all honest funding layouts; TxTrace checks returned txid = broadcast tx id, returned vout = swap-script output index, announced key unblinds the swap output.",
            FSM_NOTE + " LWK is not run.", "TLA+ design model + TxShape; TLC; real opening paths over fake node RPCs; trace validation", "7/C08"),
    "C24": ("route", "model_checking",
            "Timelock.tla defines Route(backend, invoice, scid, limit) and P_C24_single/channel/peer/amount. TLC proves them on the whole case space (payee, amount, CLTV, channel, spelling, limit, fee/claim). "
            "Every case runs on the real builders, on the real CLN and LND clients over fake nodes, and on the real claim-payment Action; the sendpay request / SendPaymentRequest that reaches the node is "
            "validated by TimelockTrace: one call, one hop, MaxParts 1, OutgoingChanIds = [normalised channel], destination = payee = channel peer (LND refuses otherwise), exact invoice amount, hash and secret.",
            "Nodes are fakes at the RPC boundary; the fee Action at FSM level is covered by the swapfsm engine.", "TLA+ Timelock spec + TLC case export + real clients over fake nodes + TLC trace validation", "7/C24"),
})

CLAIMED.update({
    "C25": ("policy", "model_checking",
            "Policy.tla (policy file as abstract lines, the operations as the line edits of policy.go, ini parse) is model-checked by TLC for all operation sequences <= 4 (quick) / <= 6 (thorough) from 24 "
            "pre-existing file classes, with P_C25_Effect / P_C25_Reject / P_C25_Persist as invariants on files the node writes itself and per-step predictions for hand-edited files. Every distinct (state, "
            "incoming operation, verdict) is exported as a schedule, executed together with VERIF_SEED random schedules on the real policy.Policy on real files, and every recorded step (Get, IsPeerAllowed / "
            "IsPeerSuspicious / NewSwapsAllowed, fresh CreateFromFile, file bytes) is judged by the same Judge operator in PolicyTrace.",
            "Bounded: sequence length, 2-3 valid + 9 malformed pubkeys, 24 file classes. No I/O faults or concurrency. Known findings for 'key = value' / quoted entries and section headers in hand-edited files.",
            "TLA+ state machine of the policy file + TLC schedule export + real policy.Policy + TLC trace validation", "7/C25"),
    "C27": ("premium", "model_checking",
            "Premium.tla (persistent map (peer|default, asset, direction) -> rate; resolution peer-specific -> stored global -> built-in; premium = amount*rate/10^6 truncated toward zero, computed symbolically on "
            "base-1000 limbs) is model-checked by TLC over all operation sequences (set, set global, delete, restart), wide and deep, with resolution / map lemmas and arithmetic lemmas on a rate-amount grid. Every "
            "distinct (map, incoming operation), the grid, and VERIF_SEED random schedules are executed on the real premium.Setting (bbolt file, reopened for restart) and the real peersync capability path; every "
            "GetRate, GetDefaultRate, advertised rate and Compute answer is validated against the map by PremiumTrace.",
            "Amounts <= 21e14 sat and rates within +/-10^6 ppm; advertised rates are checked on the payload handed to the Lightning adapter; the premium inside agreements is checked by engine swapfsm (C12).",
            "TLA+ persistent-map spec + TLC schedule export + real premium.Setting / peersync + TLC trace validation", "7/C27"),
    "C28": ("peersync", "model_checking",
            "PeerSync.tla specifies peer-sync as a state machine (stored capability, status, timestamps, connected and suspicious sets, request-time map, logical clock). TLC checks merge, reload / fixpoint, cleanup, "
            "rate-limit upper and lower bound and compatibility on every step of all operation sequences (length <= 4 quick, <= 6 thorough). One schedule per distinct state, plus deeper sub-alphabet, extended and seeded "
            "random schedules, runs on the real PeerSync, Store (bbolt), poller and policy.Policy; PeerSyncTrace evaluates the same properties on every real step and demands step-wise conformance to the design.",
            "Bounded: 2-3 peers, versions around own, logical time in 5 s units; the Lightning node is simulated and sends never fail; the rate limit is read per connection session and process; legacy records and "
            "concurrent goroutines are not covered.",
            "TLA+ state machine + TLC schedule export + real PeerSync/Store/poller + TLC trace validation", "7/C28"),
})

CLAIMED.update({
    "C20": ("watcher", "model_checking",
            "Watcher.tla specifies chain, node view (stale / failing answers) and the registrations of the RPC and Electrum watchers at RPC-answer granularity. TLC checks P_C20a-d (Confirmed / CsvMature only when "
            "justified by a chain state between the watcher's trigger observation and the callback; Failed once the deadline height is consumed; at most one delivered report) on every interleaving within the budgets "
            "(quick 0.88M, thorough 27M states). One schedule per coverage key plus VERIF_SEED random schedules is executed on the real BlockchainRpcTxWatcher and the real lwk/electrum watcher over a simulated chain, "
            "and WatcherTrace.tla replays the chain and judges every callback.",
            "Exhaustive only within the model's budgets (<= 4 new blocks, <= 2 reorgs of <= 2 blocks, <= 2 faults, scaled window/csv). The RPC watcher's poller/dispatcher are bypassed by a synchronous delivery hook. "
            "The LND watcher is not covered. Reorgs keep the height.",
            "TLA+ chain/watcher spec + TLC schedule export + real watchers on a simulated chain + TLC trace validation", "7/C20"),
})

CLAIMED.update({
    "C16": ("combo(swapfsm+duo)", "model_checking",
            FSM_TEXT + " For this property (bounded liveness on the code): every maximal exported schedule - i.e. every reachable (role, state, sub-step, crash point) class - is also run with the FAIR "
            "CLOSURE appended (peer silent, ten minutes pass, pending HTLCs resolve, the chain advances past confirmation depth, payment window and CSV, services succeed, two restarts); at the end every "
            "swap must be terminal and its channel released; a taker whose payment succeeded must have claimed with the preimage; a maker must have been paid or spent back." + DUO_TEXT,
            FSM_NOTE + " Liveness is bounded (one fixed closure of 15 steps), not a temporal proof; known findings: the two broadcast-then-persist crash windows and the record-without-state zombie.",
            "TLA+ design model + TLC schedule export + fair-closure runs on the real code + TLC trace validation", "7/C16"),
    "C22": ("swapfsm", "model_checking",
            FSM_TEXT + " For this property: the maker schedules are executed once more with REAL-TIME retransmission (interval 25 ms, 80 ms between environment steps) on the real messages.Manager / "
            "RedundantMessenger; every retransmitted copy is judged against the persisted state at that moment (allowed while waiting for the taker; at most one already-due copy afterwards) and a second live "
            "retransmitter for a swap is a violation.",
            FSM_NOTE + " This is the only check with wall-clock timing; its rule is timing-independent but a scheduling delay above the interval could in principle produce a second late copy.",
            "TLA+ design model + TLC schedule export + real-time retransmission run + TLC trace validation", "7/C22"),
    "C26": ("combo(swapfsm+peersync)", "model_checking",
            FSM_TEXT + " For this property (FSM clause): configurations with two swaps let a maker's swap end in a CSV refund and then deliver every request kind from that peer / start local swaps to it: "
            "the policy FILE must list the peer, requests must be refused with cancel, local initiations must fail. Peer-sync clause (engine peersync): P_C26_peersync - a poll or request_poll from a peer on the real "
            "policy file's suspicious list sends nothing to that peer and leaves its record unchanged, also after a restart - checked on PeerSync.tla by TLC and on every real step by PeerSyncTrace.",
            FSM_NOTE, "TLA+ design model + PeerSync.tla; TLC; real-code execution; trace validation", "7/C26"),
    "C29": ("swapfsm", "model_checking",
            FSM_TEXT + " For this property: upgrade configurations start the node on a database whose stored version is old or absent, drive a swap of every role into every reachable state (within the step bound) "
            "and restart: the real VersionService.SafeUpgrade must write the current version iff no stored swap is unfinished, otherwise refuse and leave version and records unchanged (stored version before/after and "
            "record digests are logged).",
            FSM_NOTE, "TLA+ design model + TLC schedule export + real SafeUpgrade on real bbolt + TLC trace validation", "7/C29"),
})

CLAIMED.update({
    "C18": ("locks", "model_checking",
            "Locks.tla transcribes every concurrent entry point (message handler, block loop, observation loops, Electrum subscriber, payment and timeout callbacks, RPC/policy commands, recovery) as lock / gate / "
            "callback programs over an interpreter with Mutex, RWMutex (writer preference), channels, spawn/join. TLC explores all interleavings of pairs and triples x swap state x chain depth {not, edge, just, long} x "
            "watcher {RPC, Electrum}, collects the deadlock classes, checks the design repaired by three fixes deadlock-free (thorough: every handler returns under weak fairness) and exports one schedule per class "
            "(configuration, outcome, first mover). Each schedule runs on the REAL SwapService with the real RPC and LWK/Electrum watchers under gate control with a watchdog (goroutine dump: handlers still in "
            "Mutex.Lock / RWMutex / channel send after the grace period); LocksTrace.tla validates start/return matching and replays every run on the specification (observed position of every process must be allowed).",
            "One swap plus one new swap; Lightning node, wallet, peer and chain servers are simulated; the four deadlock classes found were repaired (fixed entries in known_findings.json; their schedules stay as regression schedules); the LND watcher is covered by reading only.",
            "TLA+ lock/program interpreter + TLC interleaving exploration + gate-scheduled real-code runs + TLC trace validation", "7/C18"),
    "C19": ("locks", "exploration",
            "The schedule space and the predicted racing pairs are model-checked: TLC computes on Locks.tla all simultaneously enabled conflicting accesses with disjoint locksets. The verdict comes from the Go race "
            "detector: VERIF_SEED-seeded pairwise (sometimes triple) stress of all entry points on the real code built with -race; every report is mapped to the pair of lock-discipline sites the specification names; "
            "In stress mode the simulated chain servers answer with seeded latency, and block notifications are stressed repeatedly against handlers that reach the watcher registries while a CSV watch is registered. "
            "A detected race is a violation whether or not the specification predicts it; an unpredicted one is additionally reported as model drift.",
            "Absence of a report is evidence only for the schedules that were run; the simulated services add happens-before edges; three signatures (OnTxConfirmed outside the swap mutex; lockSwap reading other swaps' data) are known findings, the other root causes were repaired. Reports whose both sides are harness code are machinery errors.",
            "TLA+ lockset model (TLC) + seeded stress of the real code under the Go race detector, reports matched against the model", "7/C19"),
})

NOT_YET = {}


def main():
    props = [json.loads(l) for l in open(os.path.join(HERE, "properties.jsonl"))]
    checks = []
    na = []
    extra_na = json.load(open(os.path.join(HERE, "tools", "not_applicable.json"))) if os.path.exists(
        os.path.join(HERE, "tools", "not_applicable.json")) else {}
    for p in props:
        pid = p["id"]
        if pid in CLAIMED:
            eng, cat, text, note, tech, ref = CLAIMED[pid]
            checks.append(dict(
                property_id=pid,
                quick_cmd="./check %s --tier quick" % pid,
                thorough_cmd="./check %s --tier thorough" % pid,
                evidence_file="/verif/evidence/%s.json" % pid,
                replay_cmd_template="./check %s --replay {path}" % pid,
                engine=eng,
                level_claimed=dict(category=cat, text=text, design_ref=ref),
                level_note=note,
                technique=tech))
        else:
            na.append(dict(property_id=pid, reason=extra_na.get(
                pid, "check not built yet in this round; planned with the TLA+ engine named in DESIGN.md section 7/%s" % pid)))
    hooks_commits = os.popen("git -C /repo log --format=%H --grep='^verif:'").read().split()
    man = dict(
        version=1,
        setup_cmd="./setup.sh",
        hooks=dict(guard="verif (Go build tag)", enable="go build -tags verif (harness module /verif/harness with replace => /repo)",
                   baseline_off_cmd=BASELINE_OFF, source_commits=hooks_commits, add_only=True),
        engines=[
            dict(name="feeversion", path="engines/feeversion.py", serves_properties=["C30"],
                 kind_free_text="TLA+ functional spec, TLC case enumeration, trace validation of real answers"),
            dict(name="route", path="engines/route.py", serves_properties=["C24", "C04", "C05"], kind_free_text="Timelock.tla; real route builders, clients and checks"),
            dict(name="tx", path="engines/tx.py", serves_properties=["C01", "C03", "C08"], kind_free_text="TxShape.tla / SpendTx.tla; real validators and transaction builders"),
            dict(name="script", path="engines/script.py", serves_properties=["C02"], kind_free_text="Script.tla interpreter; btcd engine on the real script"),
            dict(name="combo", path="engines/combo.py", serves_properties=["C01", "C04", "C05", "C06", "C07", "C08", "C14", "C16", "C26"], kind_free_text="joins the FSM-level part with the arithmetic / transaction part"),
            dict(name="watcher", path="engines/watcher.py", serves_properties=["C20"], kind_free_text="Watcher.tla; real RPC and Electrum watchers on a simulated chain"),
            dict(name="policy", path="engines/policy.py", serves_properties=["C25"], kind_free_text="Policy.tla; real policy.Policy on files"),
            dict(name="premium", path="engines/premium.py", serves_properties=["C27"], kind_free_text="Premium.tla; real premium.Setting on bbolt"),
            dict(name="peersync", path="engines/peersync.py", serves_properties=["C28", "C26"], kind_free_text="PeerSync.tla; real PeerSync/Store/poller"),
            dict(name="duo", path="engines/duo.py", serves_properties=["C06", "C07", "C16"], kind_free_text="Duo.tla (two-party composition); two real swap services wired together; step-wise conformance + D1-D5"),
            dict(name="record", path="engines/record.py", serves_properties=["C14"], kind_free_text="Record.tla (record codec + store state machine); real bbolt store round trips"),
            dict(name="locks", path="engines/locks.py", serves_properties=["C18", "C19"], kind_free_text="Locks.tla lock/program interpreter; real SwapService + real watchers under gate control; race detector"),
            dict(name="swapfsm", path="engines/swapfsm.py", serves_properties=sorted(k for k, v in CLAIMED.items() if v[0] == "swapfsm"),
                 kind_free_text="TLA+ design model of the swap FSMs (PeerSwap.tla) + observer (PeerSwapObs.tla); TLC export; harness/l1; trace validation"),
        ],
        checks=checks,
        not_applicable=na,
        notes="Every check: TLA+ spec checked by TLC; schedules/cases exported from TLC run on the real code via the Go harness "
              "(build tag verif); recorded traces validated by TLC trace specs; only violations seen on real-code traces are reported.",
    )
    json.dump(man, open(os.path.join(HERE, "MANIFEST.json"), "w"), indent=1)
    print("claimed:", [c["property_id"] for c in checks])


if __name__ == "__main__":
    main()
