#!/usr/bin/env python3
"""Writes /verif/MANIFEST.json from the table below (single source of truth)."""
import json
import os

HERE = os.path.dirname(os.path.dirname(os.path.abspath(__file__)))

BASELINE_OFF = ("cd /repo && export GOFLAGS=-mod=mod GOPROXY=off GOSUMDB=off GOTOOLCHAIN=local && "
                "go build ./... && go test -vet=off -count=1 -timeout 25m ./...")

# property -> (engine, category, level text, level note, technique, design_ref)
CLAIMED = {
    "C30": ("feeversion", "model_checking",
            "TLC checks the order/floor lemmas on spec/FeeVersion.tla and enumerates its whole finite case space; every case is "
            "evaluated on the real GetFee / DetermineFeeFloor / CompareVersionStrings and the recorded answers are validated "
            "by TLC against the specification (plus totality/transitivity over the real answers). Exhaustive over the case "
            "space; that is the right level for three pure functions.",
            "Case space is finite and chosen (rates <= 25000 sat/kw, sizes <= 10000 vB because TLC integers are 32-bit); "
            "float64 slack of one unit only where the exact product is integral.",
            "TLA+ functional spec + TLC case enumeration + TLC trace validation of real answers", "7/C30"),
}

NOT_YET = {}


def main():
    props = [json.loads(l) for l in open(os.path.join(HERE, "properties.jsonl"))]
    checks = []
    na = []
    extra_na = json.load(open(os.path.join(HERE, "tools", "not_applicable.json"))) if os.path.exists(
        os.path.join(HERE, "tools", "not_applicable.json")) else {}
    for p in props:
        pid = p["id"]
        if pid in CLAIMED:
            eng, cat, text, note, tech, ref = CLAIMED[pid]
            checks.append(dict(
                property_id=pid,
                quick_cmd="./check %s --tier quick" % pid,
                thorough_cmd="./check %s --tier thorough" % pid,
                evidence_file="/verif/evidence/%s.json" % pid,
                replay_cmd_template="./check %s --replay {path}" % pid,
                engine=eng,
                level_claimed=dict(category=cat, text=text, design_ref=ref),
                level_note=note,
                technique=tech))
        else:
            na.append(dict(property_id=pid, reason=extra_na.get(
                pid, "check not built yet in this round; planned with the TLA+ engine named in DESIGN.md section 7/%s" % pid)))
    hooks_commits = os.popen("git -C /repo log --format=%H --grep='^verif:'").read().split()
    man = dict(
        version=1,
        setup_cmd="./setup.sh",
        hooks=dict(guard="verif (Go build tag)", enable="go build -tags verif (harness module /verif/harness with replace => /repo)",
                   baseline_off_cmd=BASELINE_OFF, source_commits=hooks_commits, add_only=True),
        engines=[
            dict(name="feeversion", path="engines/feeversion.py", serves_properties=["C30"],
                 kind_free_text="TLA+ functional spec, TLC case enumeration, trace validation of real answers"),
        ],
        checks=checks,
        not_applicable=na,
        notes="Every check: TLA+ spec checked by TLC; schedules/cases exported from TLC run on the real code via the Go harness "
              "(build tag verif); recorded traces validated by TLC trace specs; only violations seen on real-code traces are reported.",
    )
    json.dump(man, open(os.path.join(HERE, "MANIFEST.json"), "w"), indent=1)
    print("claimed:", [c["property_id"] for c in checks])


if __name__ == "__main__":
    main()
