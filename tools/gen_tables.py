#!/usr/bin/env python3
"""FSM tables of the tree under test (JSON from `psim -tables`) -> spec/FsmTables.tla (Leg A: code -> spec constants)."""
import json
import sys


def q(s):
    return '"%s"' % s


def gen(tables, out):
    trans, acts, fail, states = [], [], [], []
    for role in sorted(tables):
        for st in sorted(tables[role]):
            row = tables[role][st]
            states.append("<<%s, %s>>" % (q(role), q(st)))
            for ev in sorted(row["events"]):
                trans.append("<<%s, %s, %s>> :> %s" % (q(role), q(st), q(ev), q(row["events"][ev])))
            chain = [a for a in row["action"].split(">") if a]
            acts.append("<<%s, %s>> :> <<%s>>" % (q(role), q(st), ", ".join(q(a) for a in chain)))
            if row["fail_on_recover"]:
                fail.append("<<%s, %s>>" % (q(role), q(st)))
    with open(out, "w") as f:
        f.write("------------------------------ MODULE FsmTables ------------------------------\n")
        f.write("(* GENERATED from the state tables of the code under test (swap.VerifTables). Do not edit. *)\n")
        f.write("EXTENDS TLC\n")
        f.write("TransTable ==\n  " + "\n  @@ ".join(trans) + "\n")
        f.write("ActionTable ==\n  " + "\n  @@ ".join(acts) + "\n")
        f.write("FailOnRecover == {" + ", ".join(fail) + "}\n")
        f.write("TableStates == {" + ", ".join(states) + "}\n")
        f.write("===============================================================================\n")


if __name__ == "__main__":
    gen(json.load(open(sys.argv[1])), sys.argv[2])
