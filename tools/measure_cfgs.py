#!/usr/bin/env python3
"""measure_cfgs.py <tier> [parallel] : explores every configuration of the design model on its own (TLC, one worker) and records
generated / distinct states, wall time and exported schedules in engines/swapfsm_weights.json (used to balance the shards)."""
import json, os, re, shutil, sys, time
from concurrent.futures import ThreadPoolExecutor
HERE = os.path.dirname(os.path.dirname(os.path.abspath(__file__)))
sys.path[:0] = [os.path.join(HERE, "lib"), os.path.join(HERE, "engines"), os.path.join(HERE, "tools")]
import vp, swapfsm_cfgs, gen_tables
tier = sys.argv[1] if len(sys.argv) > 1 else "quick"
par = int(sys.argv[2]) if len(sys.argv) > 2 else 8
wd = vp.workdir("measure")
binp = vp.build_harness("./cmd/psim")
sd0 = vp.spec_copy(wd)
tj = os.path.join(wd, "tables.json")
vp.run([binp, "-tables", tj])
gen_tables.gen(json.load(open(tj)), os.path.join(sd0, "FsmTables.tla"))
cfgs = swapfsm_cfgs.configs(tier)
names = [re.search(r'name \|-> "([^"]+)"', c).group(1) for c in cfgs]
def one(i):
    sd = os.path.join(wd, "m%d" % i)
    shutil.copytree(sd0, sd)
    os.makedirs(os.path.join(sd, "out"))
    with open(os.path.join(sd, "PeerSwapCfgs.tla"), "w") as f:
        f.write("----------------------------- MODULE PeerSwapCfgs -----------------------------\nEXTENDS Integers\nCONFIGS == {\n  " + cfgs[i] + "}\n===============================================================================\n")
    t0 = time.time()
    try:
        r = vp.tlc("PeerSwapExport", "PeerSwapExport.cfg", sd, workers=1, timeout=int(os.environ.get("MEASURE_TIMEOUT", "3600")), heap="6g", quiet=True)
        res = dict(generated=r["generated"], distinct=r["distinct"], depth=r["depth"], wall=round(time.time() - t0, 1), schedules=len(os.listdir(os.path.join(sd, "out"))))
    except vp.Fatal as e:
        res = dict(error=str(e)[:200], wall=round(time.time() - t0, 1))
    shutil.rmtree(sd, ignore_errors=True)
    print(names[i], res, flush=True)
    return names[i], res
with ThreadPoolExecutor(par) as ex:
    out = dict(ex.map(one, range(len(cfgs))))
p = os.path.join(HERE, "engines", "swapfsm_weights.json")
allw = json.load(open(p)) if os.path.exists(p) else {}
allw[tier] = out
json.dump(allw, open(p, "w"), indent=1, sort_keys=True)
vp.cleanup(wd)
