#!/bin/sh
# usage: regress_seeds.sh [ids...]   re-checks every kept seeded change (/verif/seeded/<id>/patch.diff) against the current checks:
# scratch worktree of /repo HEAD + patch, ./check <property> from a snapshot of /verif with VERIF_REPO=<worktree>; prints one line per seed.
export GOFLAGS=-mod=mod GOPROXY=off GOSUMDB=off GOTOOLCHAIN=local
wt=/tmp/regress-wt; snap=/tmp/regress-snap
git -C /repo worktree remove --force $wt 2>/dev/null; rm -rf $wt $snap
git -C /repo worktree add --detach $wt $(git -C /repo rev-parse HEAD) >/dev/null 2>&1 || exit 9
mkdir -p $snap; rsync -a --exclude .work --exclude .git --exclude replays /verif/ $snap/
ids=${*:-$(ls /verif/seeded)}
for id in $ids; do
  prop=$(python3 -c "import json;print(json.load(open('/verif/seeded/$id/meta.json'))['property'])")
  (cd $wt && git checkout -q -- . && git clean -fdq && git apply /verif/seeded/$id/patch.diff) || { echo "$id patch does not apply"; continue; }
  # the checks that were found to catch it (meta.checks_run), the seed's own property first
  props=$(python3 -c "import json;m=json.load(open('/verif/seeded/$id/meta.json'));print(' '.join(dict.fromkeys([m['property']]+m.get('checks_run','').split())))")
  caught=no
  for prop in $props; do
    s=$(date +%s)
    out=$(cd $snap && VERIF_CACHE_DIR=/verif/.work/cache-swapfsm VERIF_REPO=$wt ./check $prop 2>&1); rc=$?
    e=$(date +%s)
    echo "$id check=$prop rc=$rc violations=$(echo "$out" | grep -c '^VIOLATION') wall=$((e-s))s $(echo "$out" | grep -m1 'signature:' | cut -c1-140)"
    [ $rc -eq 2 ] && echo "$out" | tail -3 | cut -c1-300
    [ $rc -eq 1 ] && { caught=yes; break; }
  done
  echo "$id caught=$caught"
done
(cd $wt && git checkout -q -- .); git -C /repo worktree remove --force $wt; rm -rf $snap
