#!/usr/bin/env python3
"""keep_seed.py <Cxx> <needs...>  : copies a verified seeded change from /tmp/seedout-<id> to /verif/seeded/<id>/ with meta.json
(reads /tmp/seedverify-<id>.log for what our checks reported)."""
import glob, json, os, re, shutil, sys
pid = sys.argv[1]
summary = sys.argv[2]
needs = sys.argv[3]
caught_props = sys.argv[4] if len(sys.argv) > 4 else pid
T = os.environ.get("SEEDTAG", "")
src = "/tmp/seedout%s-%s" % (T, pid)
dst = "/verif/seeded/%s%s" % (pid, T)
os.makedirs(dst, exist_ok=True)
shutil.copy(os.path.join(src, "patch.diff"), dst)
for p in glob.glob(src + "/**/*_test.go", recursive=True):
    shutil.copy(p, os.path.join(dst, os.path.basename(p) + ".txt"))   # .txt: not compiled by accident
shutil.copy(os.path.join(src, "README.md"), os.path.join(dst, "README.md"))
log = open("/tmp/seedverify%s-%s.log" % (T, pid)).read() if os.path.exists("/tmp/seedverify%s-%s.log" % (T, pid)) else ""
sigs = sorted(set(re.findall(r"signature: (\S+)", log)))
viol = ("VIOLATION property=" in log) or bool(sigs)
demo_fail = "FAIL" in log.split("== demo with patch")[-1].split("== our check")[0] if "== demo with patch" in log else None
demo_ok = "ok" in log.split("== demo on clean tree")[-1].split("== build")[0] if "== demo on clean tree" in log else None
meta = dict(property=pid, breaks=pid, summary=summary, needs_to_manifest=needs, checks_run=caught_props,
            ran=["tools/verify_seed.sh %s  (scratch worktree at /repo HEAD: demo on clean tree, apply patch, build, demo with patch, ./check with VERIF_REPO=<worktree>)" % pid],
            demo_passes_on_clean_tree=demo_ok, demo_fails_with_patch=demo_fail, caught_by_our_check=viol, n_signatures=len(sigs), signatures=[x[:200] for x in sigs[:12]])
json.dump(meta, open(os.path.join(dst, "meta.json"), "w"), indent=1)
print(json.dumps(meta)[:400])
