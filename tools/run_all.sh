#!/bin/sh
# runs every registered quick check once, prints rc and wall time per property, validates evidence
cd "$(dirname "$0")/.."
for p in $(python3 -c "import json; print(' '.join(c['property_id'] for c in json.load(open('MANIFEST.json'))['checks']))"); do
  s=$(date +%s); out=$(./check $p --tier ${1:-quick} 2>&1); rc=$?; e=$(date +%s)
  nv=$(echo "$out" | grep -c "^VIOLATION"); nk=$(echo "$out" | grep -c "^KNOWN-FINDING")
  echo "$p rc=$rc wall=$((e-s))s violations=$nv known=$nk"
  [ $rc -ne 0 ] && echo "$out" | tail -5
done
python3-vt - <<'PY'
import json, jsonschema, os
sch = json.load(open('/root/.vp/EVIDENCE.schema.json'))
for c in json.load(open('MANIFEST.json'))['checks']:
    p = c['evidence_file']
    try:
        jsonschema.validate(json.load(open(p)), sch)
    except Exception as e:
        print("EVIDENCE INVALID", p, str(e)[:200])
print("evidence validated")
PY
