"""Shared pipeline for the peerswap model-based verification checks.

Every check is:  spec (TLA+)  --TLC-->  design-level result + schedules
                 schedules    --Go harness on the real code-->  NDJSON traces
                 traces       --TLC trace spec (observer)-->  property verdicts
Only a verdict obtained from a trace of the real code becomes a VIOLATION.
"""
import hashlib
import json
import os
import re
import shutil
import subprocess
import sys
import time

VERIF = os.path.dirname(os.path.dirname(os.path.abspath(__file__)))
REPO = os.environ.get("VERIF_REPO", "/repo")
SPEC = os.path.join(VERIF, "spec")
HARNESS_SRC = os.path.join(VERIF, "harness")
WORKROOT_ = os.path.join(VERIF, ".work")
# checks run against /repo; VERIF_REPO=<scratch worktree> (mutant testing) builds in a private copy of the harness
HARNESS = HARNESS_SRC if REPO == "/repo" else os.path.join(
    WORKROOT_, "harness-" + hashlib.sha256(REPO.encode()).hexdigest()[:10])
EVID = os.path.join(VERIF, "evidence")
WORKROOT = os.path.join(VERIF, ".work")
GOENV = dict(GOFLAGS="-mod=mod", GOPROXY="off", GOSUMDB="off", GOTOOLCHAIN="local")
NCPU = os.cpu_count() or 4


class Fatal(Exception):
    """Machinery error: exit 2, never a violation."""


def log(*a):
    print("[verif]", *a, file=sys.stderr, flush=True)


def seed():
    try:
        return int(os.environ.get("VERIF_SEED", "1"))
    except ValueError:
        return 1


def tier(argv_tier=None):
    t = argv_tier or os.environ.get("VERIF_TIER") or "quick"
    return "thorough" if t.startswith("t") else "quick"


def workdir(name):
    d = os.path.join(WORKROOT, "%s-%d" % (name, os.getpid()))
    shutil.rmtree(d, ignore_errors=True)
    os.makedirs(d)
    return d


def cleanup(d):
    if os.environ.get("VERIF_KEEP"):
        log("kept work dir", d)
        return
    shutil.rmtree(d, ignore_errors=True)


def run(cmd, cwd=None, env=None, timeout=None, check=True, capture=True):
    e = dict(os.environ)
    e.update(GOENV)
    if env:
        e.update(env)
    p = subprocess.run(cmd, cwd=cwd, env=e, timeout=timeout, shell=isinstance(cmd, str),
                       stdout=subprocess.PIPE if capture else None,
                       stderr=subprocess.STDOUT if capture else None, text=True)
    if check and p.returncode != 0:
        raise Fatal("command failed (%d): %s\n%s" % (p.returncode, cmd, (p.stdout or "")[-4000:]))
    return p


# ---------------------------------------------------------------- Go harness

def gen_gomod():
    """Harness go.mod is generated from /repo/go.mod (same require/replace),
    plus a replace of the peerswap module by /repo itself."""
    if HARNESS != HARNESS_SRC:
        os.makedirs(HARNESS, exist_ok=True)
        run(["rsync", "-a", "--delete", "--exclude", "bin", "--exclude", "go.mod", "--exclude", "go.sum",
             HARNESS_SRC + "/", HARNESS + "/"])
    src = open(os.path.join(REPO, "go.mod")).read()
    lines = src.splitlines()
    out = []
    for ln in lines:
        if ln.startswith("module "):
            out.append("module verif/harness")
        else:
            out.append(ln)
    out.append("")
    out.append("require github.com/elementsproject/peerswap v0.0.0")
    out.append("replace github.com/elementsproject/peerswap => %s" % REPO)
    # extra cached modules used by the harness only
    txt = "\n".join(out) + "\n"
    p = os.path.join(HARNESS, "go.mod")
    if not os.path.exists(p) or open(p).read() != txt:
        open(p, "w").write(txt)
    shutil.copyfile(os.path.join(REPO, "go.sum"), os.path.join(HARNESS, "go.sum"))


_built = {}


def build_harness(pkg="./cmd/psim", race=False, out=None):
    """Rebuild the harness binary from /repo's current working tree."""
    gen_gomod()
    key = (pkg, race)
    if key in _built:
        return _built[key]
    bindir = os.path.join(HARNESS, "bin")
    os.makedirs(bindir, exist_ok=True)
    name = out or (os.path.basename(pkg) + ("-race" if race else ""))
    binp = os.path.join(bindir, name)
    cmd = ["go", "build", "-tags", "verif", "-o", binp]
    if race:
        cmd.append("-race")
    cmd.append(pkg)
    t0 = time.time()
    p = run(cmd, cwd=HARNESS, check=False, timeout=1800)
    if p.returncode != 0:
        raise Fatal("harness build failed (is /repo compiling?):\n" + p.stdout[-6000:])
    log("built %s in %.1fs" % (name, time.time() - t0))
    _built[key] = binp
    return binp


# ---------------------------------------------------------------------- TLC

TLC_JAR = "/opt/veriftools/tla/tla2tools.jar:/opt/veriftools/tla/CommunityModules-deps.jar"


def tlc(module, cfg, wd, workers=None, extra=None, timeout=3600, heap="8g", deque=False, quiet=False):
    """Run TLC in wd (a scratch copy of the spec dir). Returns dict with
    ok, states, distinct, generated, violated (list of invariant/property names), out."""
    meta = os.path.join(wd, "meta-%s-%d" % (os.path.basename(cfg), int(time.time() * 1000) % 100000))
    java = ["java", "-XX:+UseParallelGC", "-Xmx" + heap, "-Xss512m"]
    if workers == 1:
        java += ["-XX:ParallelGCThreads=2", "-XX:CICompilerCount=2", "-XX:+UseNUMA"]
    if deque:
        java.append("-Dtlc2.tool.queue.IStateQueue=StateDeque")
    cmd = java + ["-cp", TLC_JAR, "tlc2.TLC", "-metadir", meta, "-config", cfg,
                  "-workers", str(workers or "auto"), "-noGenerateSpecTE"]
    if extra:
        cmd += extra
    cmd.append(module)
    t0 = time.time()
    try:
        p = subprocess.run(cmd, cwd=wd, stdout=subprocess.PIPE, stderr=subprocess.STDOUT, text=True, timeout=timeout)
    except subprocess.TimeoutExpired as e:
        raise Fatal("TLC timeout on %s/%s" % (module, cfg))
    out = p.stdout
    shutil.rmtree(meta, ignore_errors=True)
    res = dict(rc=p.returncode, out=out, wall=time.time() - t0, violated=[], generated=0, distinct=0, depth=0)
    m = re.findall(r"(\d+) states generated, (\d+) distinct states found", out)
    if m:
        res["generated"], res["distinct"] = int(m[-1][0]), int(m[-1][1])
    m = re.search(r"The depth of the complete state graph search is (\d+)", out)
    if m:
        res["depth"] = int(m.group(1))
    for m in re.finditer(r"Invariant (\S+) is violated", out):
        res["violated"].append(m.group(1))
    for m in re.finditer(r"Action property (\S+) is violated", out):
        res["violated"].append(m.group(1))
    for m in re.finditer(r"Temporal properties were violated", out):
        res["violated"].append("<temporal>")
    if "Deadlock reached" in out:
        res["violated"].append("<deadlock>")
    res["ok"] = (p.returncode == 0 and not res["violated"])
    if p.returncode != 0 and not res["violated"]:
        # parse / semantic / runtime error
        raise Fatal("TLC error on %s/%s (rc=%d):\n%s" % (module, cfg, p.returncode, out[-5000:]))
    if not quiet:
        log("TLC %s/%s: %d generated, %d distinct, depth %d, %.1fs%s" % (
            module, cfg, res["generated"], res["distinct"], res["depth"], res["wall"],
            (" VIOLATED " + ",".join(res["violated"])) if res["violated"] else ""))
    return res


def spec_copy(wd, extra_files=()):
    """Scratch copy of the spec directory (TLC litters its cwd)."""
    d = os.path.join(wd, "spec")
    shutil.copytree(SPEC, d)
    for f in extra_files:
        shutil.copy(f, d)
    return d


# ---------------------------------------------------------- known findings

def load_findings():
    out = []
    import glob
    for p in [os.path.join(VERIF, "known_findings.json")] + sorted(glob.glob(os.path.join(VERIF, "findings", "*.json"))):
        if os.path.exists(p):
            out += json.load(open(p)).get("findings", [])
    return out


def match_finding(prop, sig, findings=None):
    """A violation is known only if an entry with status 'known' for the same
    property lists exactly this signature string (or a signature prefix
    ending in '*' that was written by hand for a closed family)."""
    for f in (findings if findings is not None else load_findings()):
        if f.get("property") != prop or f.get("status") != "known":
            continue
        for s in f.get("signatures", []):
            if s == sig or (s.endswith("*") and sig.startswith(s[:-1])):
                return f
    return None


class Verdicts:
    """Collects violations (from real-code traces), splits known / new."""

    def __init__(self, prop):
        self.prop = prop
        self.new = {}     # sig -> replay path
        self.known = {}   # sig -> finding text
        self.findings = load_findings()

    def add(self, sig, replay):
        f = match_finding(self.prop, sig, self.findings)
        if f:
            self.known.setdefault(sig, f.get("text", ""))
        else:
            self.new.setdefault(sig, replay)

    def report(self):
        for sig, txt in sorted(self.known.items()):
            print("KNOWN-FINDING: property=%s %s" % (self.prop, sig))
        for sig, rp in sorted(self.new.items()):
            print("VIOLATION property=%s replay=%s" % (self.prop, rp))
            print("  signature: %s" % sig)
        sys.stdout.flush()
        return 1 if self.new else 0


# ------------------------------------------------------------------ evidence

def write_evidence(prop, tier_, level, coverage, wall, violations, assumptions=()):
    os.makedirs(EVID, exist_ok=True)
    ev = dict(property_id=prop, tier=tier_, seed=seed(), level=level, coverage=coverage,
              assumptions=list(assumptions), wall_s=round(wall, 2), violations=int(violations))
    tmp = os.path.join(EVID, prop + ".json.tmp")
    json.dump(ev, open(tmp, "w"), indent=1, sort_keys=True, default=str)
    os.replace(tmp, os.path.join(EVID, prop + ".json"))


def save_replay(prop, name, payload):
    d = os.path.join(VERIF, "replays", prop)
    os.makedirs(d, exist_ok=True)
    p = os.path.join(d, name)
    if isinstance(payload, (dict, list)):
        json.dump(payload, open(p, "w"), indent=1, default=str)
    else:
        open(p, "w").write(payload)
    return p


def repo_tree_hash():
    h = hashlib.sha256()
    p = run("git -C %s ls-files -s; git -C %s diff" % (REPO, REPO), check=False)
    h.update((p.stdout or "").encode())
    return h.hexdigest()[:16]


# ------------------------------------------------------- trace validation

def count_lines(path):
    n = 0
    with open(path, "rb") as f:
        for ln in f:
            if ln.strip():
                n += 1
    return n


def validate_trace(module, cfg, specdir, trace_path, trace_name="trace.ndjson", verdict_name="verdict.json",
                   timeout=3600, heap="8g", deque=False):
    """Run a trace specification (observer style) over an NDJSON trace produced
    by the real code. The trace spec consumes every line, accumulates the set
    of violated property signatures in a variable and serialises it at the end
    (verdict.json: {n: lines consumed, viol: [signature...]}).
    A verdict that did not consume every line is a machinery error."""
    dst = os.path.join(specdir, trace_name)
    if os.path.abspath(trace_path) != os.path.abspath(dst):
        shutil.copyfile(trace_path, dst)
    vp_ = os.path.join(specdir, verdict_name)
    if os.path.exists(vp_):
        os.remove(vp_)
    res = tlc(module, cfg, specdir, workers=1, timeout=timeout, heap=heap, deque=deque)
    if not os.path.exists(vp_):
        raise Fatal("trace spec %s wrote no verdict (trace not consumed to the end)\n%s" % (module, res["out"][-3000:]))
    v = json.load(open(vp_))
    n = count_lines(dst)
    if int(v.get("n", -1)) != n:
        raise Fatal("trace spec %s consumed %s of %d lines" % (module, v.get("n"), n))
    v["tlc"] = res
    return v


def sig_id(sig):
    return hashlib.sha256(sig.encode()).hexdigest()[:12]
