CONSTANTS
  Peers = {"P1", "P2"}
INIT Init
NEXT Next
CHECK_DEADLOCK FALSE
