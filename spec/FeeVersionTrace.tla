---------------------------- MODULE FeeVersionTrace ----------------------------
(* Code -> specification: every line is one evaluation of the real function;  *)
(* the recorded answer must be the specification's answer.                    *)
EXTENDS FeeVersion, Json
Trace == ndJsonDeserialize("trace.ndjson")
VARIABLES l, viol, ge
vars == <<l, viol, ge>>
Init == l = 1 /\ viol = {} /\ ge = {}
Bad(e) ==
    CASE e.kind = "fee" ->
            IF ~FeeOK(e.got, SpecRate(e.err, e.est, e.fallback, e.floor), e.size)
            THEN {"C30|fee|err=" \o ToString(e.err) \o "|est=" \o ToString(e.est) \o "|fallback=" \o ToString(e.fallback)
                    \o "|floor=" \o ToString(e.floor) \o "|size=" \o ToString(e.size) \o "|got=" \o ToString(e.got)}
            ELSE IF e.got < SpecFee(e.floor, e.size) - 1
            THEN {"C30|fee-below-floor|floor=" \o ToString(e.floor) \o "|size=" \o ToString(e.size)}
            ELSE {}
      [] e.kind = "floor" ->
            IF e.got # SpecFloor(e.has, e.major, e.minor)
            THEN {"C30|floor|version=" \o e.s \o "|got=" \o ToString(e.got)} ELSE {}
      [] e.kind = "cmp" ->
            IF e.goterr \/ e.got # SpecGE(e.ta, e.tb)
            THEN {"C30|cmp|a=" \o e.a \o "|b=" \o e.b \o "|got=" \o ToString(e.got)} ELSE {}
      [] OTHER -> {"C30|unknown-kind"}
Step == /\ l <= Len(Trace)
        /\ LET e == Trace[l] IN
             /\ viol' = viol \cup Bad(e)
             /\ ge' = IF e.kind = "cmp" /\ ~e.goterr /\ e.got THEN ge \cup {<<e.a, e.b>>} ELSE ge
        /\ l' = l + 1
\* order laws on the answers of the real function (not only on the spec)
Strs == {Trace[i].a : i \in {j \in 1..Len(Trace) : Trace[j].kind = "cmp"}}
OrderViol ==
    {"C30|order|not-total|" \o p[1] \o "|" \o p[2] : p \in {q \in Strs \X Strs : <<q[1], q[2]>> \notin ge /\ <<q[2], q[1]>> \notin ge}}
    \cup {"C30|order|not-transitive|" \o pq[1][1] \o "|" \o pq[2][2] :
            pq \in {r \in ge \X ge : r[1][2] = r[2][1] /\ <<r[1][1], r[2][2]>> \notin ge}}
Finish == /\ l = Len(Trace) + 1
          /\ JsonSerialize("verdict.json", [n |-> Len(Trace), viol |-> SetToSeq(viol \cup OrderViol)])
          /\ l' = l + 1 /\ UNCHANGED <<viol, ge>>
Next == Step \/ Finish
===============================================================================
