INIT InitT
NEXT NextT
CHECK_DEADLOCK FALSE
