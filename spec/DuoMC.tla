------------------------------- MODULE DuoMC -------------------------------
(* Design-level model checking of Duo.tla and schedule export.                                  *)
(* TLC explores every schedule of the configurations of DuoCfgs (both swap types x both chains  *)
(* x who initiates; network loss / duplication / delay, timeouts, retransmission, restarts, one *)
(* failing service call, one crash) breadth-first and checks the named invariants P_D1..P_D5:   *)
(* the design violates Dn only in the ways recorded as known deviations of the code.            *)
(* Specification -> code: the first - hence shortest - behaviour reaching each coverage key     *)
(* (configuration, joint (stored state A, stored state B), up / down, last step kind with its   *)
(* plan, closed or not, set of predicted violations) is written out as a schedule for           *)
(* harness/duo, together with the joint snapshot and the violations the model predicts.         *)
EXTENDS Duo, Json
ASSUME TLCSet(1, {})
Sigs(vs) == {x.sig : x \in vs}
Only(p) == \A x \in w.v : x.p = p => x.known
P_D1_Atomicity       == Only("D1")
P_D2_Termination     == Only("D2")
P_D3_Agreement       == Only("D3")
P_D4_NoEarlySecret   == Only("D4")
P_D5_Conformance     == Only("D5")
\* action property: a coop_close enters a queue only while the taker's claim payment is neither in flight nor settled,
\* unless its outcome is unknown to the node after a crash or a failing service call (known deviation)
P_D4_CoopCloseEntersQueue ==
  [][\A d \in {"AB", "BA"} :
       (Len(w'.net[d]) > Len(w.net[d]) /\ w'.net[d][Len(w'.net[d])].k = "coop_close" /\ ClaimTruth(w) \in {"inflight", "succeeded"})
       => (w'.crashes \/ w'.faults)]_vars

\* The named invariants are evaluated by TLC on every reachable state. A violated one does not stop the exploration (the export
\* below must stay complete: every predicted violation is exported with its shortest schedule and must then show on the real
\* code); its name is collected in a register and written out at the end (out/violated.json).
ASSUME TLCSet(2, {})
Report(name, ok) == IF ok THEN TRUE ELSE TLCSet(2, TLCGet(2) \cup {name})
CheckAll == /\ Report("P_D1_Atomicity", P_D1_Atomicity) /\ Report("P_D2_Termination", P_D2_Termination) /\ Report("P_D3_Agreement", P_D3_Agreement)
            /\ Report("P_D4_NoEarlySecret", P_D4_NoEarlySecret) /\ Report("P_D5_Conformance", P_D5_Conformance)
PostWrite == JsonSerialize("out/violated.json", [violated |-> SetToSeq(TLCGet(2))])

LastStep == IF sched = <<>> THEN <<>> ELSE
            LET s == sched[Len(sched)] IN
            <<s.a, s.k, s.d, IF s.f = None THEN <<>> ELSE <<s.f.n, s.f.g, s.f.o, s.f.all>>, IF s.c = None THEN <<>> ELSE <<s.c.n, s.c.g, s.c.w>>>>
Key == <<cf.name, w.nd.A.disk.cur, w.nd.B.disk.cur, w.nd.A.up, w.nd.B.up, LastStep, Sigs(w.v), w.closed>>
Cover ==
  IF sched # <<>> /\ Key \notin TLCGet(1)
  THEN /\ TLCSet(1, TLCGet(1) \cup {Key})
       /\ JsonSerialize("out/s_" \o ToString(Cardinality(TLCGet(1))) \o ".json",
                        [name |-> cf.name \o ":tlc-" \o ToString(Cardinality(TLCGet(1))), chain |-> cf.chain, steps |-> sched,
                         expect |-> SetToSeq(Sigs(w.v)), known |-> SetToSeq(Sigs({x \in w.v : x.known})), snap |-> Snapshot(w)])
  ELSE TRUE
===============================================================================
