------------------------------ MODULE PremiumMC ------------------------------
(* Design-level exploration of Premium.tla and schedule export.               *)
(* Operations: set peer rate, set global rate, delete peer rate, restart,     *)
(* over Peers x Slots x SMRates.  Slots do not interact in the specification, *)
(* so two explorations are run in one model:                                  *)
(*   "wide": every sequence of <= WideLen operations over all four slots      *)
(*           (an operation on one slot must leave the others alone);          *)
(*   "deep": every sequence of <= DeepLen operations over DeepSlots (the      *)
(*           complete state space of a slot: specific / global / built-in).   *)
(* The resolution lemmas are invariants / checked on every transition; one    *)
(* schedule (the first, shortest operation sequence) is exported per distinct *)
(* (map, incoming operation).  The arithmetic lemmas and the pure-function    *)
(* grid (GridRates x GridAmounts) are checked / exported once.                *)
EXTENDS Premium, Json, SequencesExt

CONSTANTS WideLen, DeepLen, DeepSlots
SMRates == {-1, 0, 1000000}     \* rates used by the state machine part (negative, zero = absent-looking, maximal)

VARIABLES db, hist, mode
vars == <<db, hist, mode>>

P_C27_ComputeLemmas == LemmaBound /\ LemmaSign /\ LemmaOdd /\ LemmaIdentity /\ LemmaSmall /\ LemmaOverflow /\ LemmaSaturate
ASSUME P_C27_ComputeLemmas
ASSUME TLCSet(1, <<>>) /\ TLCSet(2, 0)
ASSUME ndJsonSerialize("grid.ndjson", <<[rates |-> SetToSeq(GridRates), amounts |-> SetToSeq(GridAmounts)]>>)

OpRec(op, o, s, r) == [op |-> op, p |-> o, s |-> s, r |-> r]
Steps == {OpRec("set", p, s, r) : p \in Peers, s \in Slots, r \in SMRates}
         \cup {OpRec("setdef", Default, s, r) : s \in Slots, r \in SMRates}
         \cup {OpRec("del", p, s, 0) : p \in Peers, s \in Slots}
         \cup {OpRec("restart", Default, "btc_in", 0)}

Init == db = EmptyDB /\ hist = <<>> /\ mode \in {"wide", "deep"}
Next == /\ \E o \in Steps :
             /\ IF mode = "wide" THEN Len(hist) < WideLen
                ELSE Len(hist) < DeepLen /\ (o.op = "restart" \/ o.s \in DeepSlots)
             /\ db' = Apply(db, o.op, o.p, o.s, o.r) /\ hist' = Append(hist, o)
        /\ UNCHANGED mode

LastOp == IF hist = <<>> THEN <<>> ELSE hist[Len(hist)]
View == <<mode, db, LastOp>>

AllPeers == Peers \cup {"P3"}     \* P3: a peer that never has an entry
(* ---- what the statement says about resolution, as invariants of the map ---- *)
\* a peer-specific rate wins, else the stored global rate, else the built-in default
P_C27_Resolution ==
    \A p \in AllPeers, s \in Slots :
        /\ (p \in Peers /\ db[<<p, s>>] # None) => Rate(db, p, s) = db[<<p, s>>]
        /\ (p \notin Peers \/ db[<<p, s>>] = None) => Rate(db, p, s) = DefaultRate(db, s)
        /\ db[<<Default, s>>] = None => DefaultRate(db, s) = BuiltIn(s)
\* a peer without an own entry is charged like a stranger
P_C27_Fallback == \A p \in Peers, s \in Slots : db[<<p, s>>] = None => Rate(db, p, s) = Rate(db, "P3", s)
(* ---- persistent-map behaviour, as a property of every transition ---- *)
P_C27_Map ==
    [][LET o == hist'[Len(hist')] IN
        /\ o.op = "set" => Rate(db', o.p, o.s) = o.r /\ \A k \in DOMAIN db : k # <<o.p, o.s>> => db'[k] = db[k]
        /\ o.op = "setdef" => DefaultRate(db', o.s) = o.r /\ \A k \in DOMAIN db : k # <<Default, o.s>> => db'[k] = db[k]
        /\ o.op = "setdef" => \A p \in Peers : db[<<p, o.s>>] # None => Rate(db', p, o.s) = Rate(db, p, o.s)
        /\ o.op = "del" => Rate(db', o.p, o.s) = DefaultRate(db, o.s) /\ \A k \in DOMAIN db : k # <<o.p, o.s>> => db'[k] = db[k]
        /\ o.op = "restart" => db' = db]_vars

Sched == [mode |-> mode, ops |-> hist]
Flush == /\ ndJsonSerialize("sched_" \o ToString(TLCGet(2)) \o ".ndjson", TLCGet(1))
         /\ TLCSet(2, TLCGet(2) + 1)
         /\ TLCSet(1, <<>>)
Export == /\ TLCSet(1, Append(TLCGet(1), Sched))
          /\ (Len(TLCGet(1)) >= 2000 => Flush)
Post == Flush
===============================================================================
