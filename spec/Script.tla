-------------------------------- MODULE Script --------------------------------
(* C02 - the opening output can be spent only by (a) taker signature + 32-byte *)
(* preimage of the payment hash, (b) taker + maker signatures, (c) maker       *)
(* signature in a transaction whose input sequence commits to >= CSV blocks.   *)
(*                                                                             *)
(* This module is an interpreter, as a state machine (Step) and as its closure *)
(* (Run), for the opening-script TEMPLATE required by the peerswap protocol    *)
(*                                                                             *)
(*   <M> CHECKSIG NOTIF                                                        *)
(*       <M> CHECKSIG NOTIF SIZE 32 EQUALVERIFY SHA256 <H> EQUALVERIFY ENDIF   *)
(*       <T> CHECKSIG                                                          *)
(*   ELSE <N> CHECKSEQUENCEVERIFY ENDIF                                        *)
(*                                                                             *)
(* executed as a P2WSH witness script under the Bitcoin rules (BIP141 witness  *)
(* program check and clean stack, BIP66 DER signatures, BIP112 CSV, CHECKSIG   *)
(* pushing false on a well-formed but wrong or empty signature unless NULLFAIL *)
(* is active) over ABSTRACT witness items.  The template parameters (which key *)
(* stands where, the hash, N per chain and protocol version) are taken from    *)
(* the property statement, NOT from the code: the code's script is executed by *)
(* btcd's engine in the harness and ScriptTrace compares the verdicts.         *)
EXTENDS Integers, Sequences, FiniteSets, TLC

(* ------------------------------------------------------------------ items *)
\* abstract witness items (concrete bytes are chosen by the harness)
Items == {"sigTaker",      \* DER ECDSA signature of the taker key over the real BIP143 sighash, SIGHASH_ALL
          "sigMaker",      \* same, maker key
          "sigOther",      \* same, a third key (well-formed, verifies under neither script key)
          "malformedSig",  \* non-DER garbage
          "preimage",      \* 32 bytes
          "wrong32",       \* 32 other bytes
          "short31",       \* 31 bytes
          "long33",        \* 33 bytes
          "empty",         \* zero-length item (= script FALSE, = script number 0)
          "one"}           \* the byte 0x01 (= script TRUE, = script number 1)

\* everything that can appear on the data stack: items, the template's pushes and
\* the results of SIZE / SHA256.  CHECKSIG results are the byte strings "one" / "empty".
\* "nOther" / "hOther" stand for any length / digest different from the ones named.
Elems == Items \cup {"keyM", "keyT", "n31", "n32", "n33", "nOther", "H", "hOther", "csvN"}

IsDER(x) == x \in {"sigTaker", "sigMaker", "sigOther"}
Truthy(x) == x # "empty"
SizeOf(x) == CASE x \in {"preimage", "wrong32"} -> "n32"
               [] x = "short31" -> "n31"
               [] x = "long33" -> "n33"
               [] x = "empty" -> "empty"        \* script number 0 is the empty string
               [] x = "one" -> "one"            \* script number 1 is the byte 0x01
               [] OTHER -> "nOther"
\* hpre: the item whose SHA256 is the payment hash H of the case
Sha(x, hpre) == IF x = hpre THEN "H" ELSE "hOther"

(* ----------------------------------------------------------- parameters *)
\* CSV per chain / protocol version, from the property statement
ChainCSV == [btc |-> 1008, btc6 |-> 1008, lbtc7 |-> 10080, lbtc6 |-> 60]
Chains == {"btc", "lbtc7", "lbtc6"}           \* full grid; "btc6" (legacy protocol on Bitcoin) in the small grid
FlagSets == {"min",         \* P2SH | WITNESS | CSV | CLTV
             "consensus",   \* min + BIP66 DERSIG (+ NULLDUMMY, TAPROOT): the rules of a current block
             "standard"}    \* relay policy: + NULLFAIL, MINIMALIF, STRICTENC, LOW_S, ...

\* a 32-bit input sequence, symbolically: bit 31 (disable), bit 22 (time type),
\* low 16 bits (value), rest = all remaining bits set or clear
SeqOf(name, dis, typ, val, rest) == [name |-> name, dis |-> dis, typ |-> typ, val |-> val, rest |-> rest]
SeqsFor(N) == << SeqOf("0", FALSE, FALSE, 0, FALSE),
                 SeqOf("N-1", FALSE, FALSE, N - 1, FALSE),
                 SeqOf("N", FALSE, FALSE, N, FALSE),
                 SeqOf("N+1", FALSE, FALSE, N + 1, FALSE),
                 SeqOf("N|disable", TRUE, FALSE, N, FALSE),
                 SeqOf("N|type", FALSE, TRUE, N, FALSE),
                 SeqOf("0xffffffff", TRUE, TRUE, 65535, TRUE),
                 SeqOf("N-1|rest", FALSE, FALSE, N - 1, TRUE),
                 SeqOf("N|rest", FALSE, FALSE, N, TRUE) >>

\* BIP112 for an operand N without disable/type bit, 0 <= N < 2^16
CsvSatisfied(seq, ver, N) == ver >= 2 /\ ~seq.dis /\ ~seq.typ /\ seq.val >= N

(* ------------------------------------------------------------- template *)
Op(o, v) == [op |-> o, v |-> v]
Template == << Op("PUSH", "keyM"), Op("CHECKSIG", ""), Op("NOTIF", ""),
               Op("PUSH", "keyM"), Op("CHECKSIG", ""), Op("NOTIF", ""),
               Op("SIZE", ""), Op("PUSH", "n32"), Op("EQUALVERIFY", ""),
               Op("SHA256", ""), Op("PUSH", "H"), Op("EQUALVERIFY", ""),
               Op("ENDIF", ""),
               Op("PUSH", "keyT"), Op("CHECKSIG", ""),
               Op("ELSE", ""),
               Op("PUSH", "csvN"), Op("CSV", ""),
               Op("ENDIF", "") >>

(* ---------------------------------------------------------------- cases *)
\* c = [w: witness stack below the witness script (w[Len(w)] is the top), ws: "script" | "other" (witness script
\*      matching the program or not), hpre: item that hashes to H, flags, chain, seq, ver]
CaseN(c) == ChainCSV[c.chain]

\* CHECKSIG of signature item sig against the template key: "one", "empty" or "FAIL" (script aborts)
CheckSig(sig, key, fl) ==
    IF sig = "empty" THEN "empty"
    ELSE IF ~IsDER(sig) THEN (IF fl = "min" THEN "empty" ELSE "FAIL")                  \* BIP66
    ELSE IF (sig = "sigTaker" /\ key = "keyT") \/ (sig = "sigMaker" /\ key = "keyM") THEN "one"
    ELSE IF fl = "standard" THEN "FAIL"                                                \* NULLFAIL
    ELSE "empty"

(* ---------------------------------------------------------- interpreter *)
InitState == [status |-> "init", pc |-> 0, stk |-> <<>>, cond |-> <<>>]
Terminal(s) == s.status \in {"accept", "reject"}
Reject(s) == [s EXCEPT !.status = "reject"]
Executing(s) == \A i \in 1..Len(s.cond) : s.cond[i]
Top(s) == s.stk[Len(s.stk)]
Pop(s, n) == SubSeq(s.stk, 1, Len(s.stk) - n)
Adv(s, stk) == [s EXCEPT !.pc = s.pc + 1, !.stk = stk]

\* conditionals are processed in executing and non-executing branches alike (Bitcoin Core's vfExec: a nested
\* conditional inside a non-executing branch pushes FALSE, ELSE toggles the innermost entry, executing = no FALSE)
CondOp(c, s, o) ==
    CASE o.op = "NOTIF" ->
            IF ~Executing(s) THEN [s EXCEPT !.pc = s.pc + 1, !.cond = Append(s.cond, FALSE)]
            ELSE IF Len(s.stk) < 1 THEN Reject(s)
            ELSE IF c.flags = "standard" /\ Top(s) \notin {"empty", "one"} THEN Reject(s)      \* MINIMALIF
            ELSE [s EXCEPT !.pc = s.pc + 1, !.stk = Pop(s, 1), !.cond = Append(s.cond, ~Truthy(Top(s)))]
      [] o.op = "ELSE" ->
            IF s.cond = <<>> THEN Reject(s)
            ELSE [s EXCEPT !.pc = s.pc + 1, !.cond[Len(s.cond)] = ~s.cond[Len(s.cond)]]
      [] o.op = "ENDIF" ->
            IF s.cond = <<>> THEN Reject(s)
            ELSE [s EXCEPT !.pc = s.pc + 1, !.cond = SubSeq(s.cond, 1, Len(s.cond) - 1)]
      [] OTHER -> Reject(s)

ExecOp(c, s, o) ==
    CASE o.op = "PUSH" -> Adv(s, Append(s.stk, o.v))
      [] o.op = "CHECKSIG" ->
            IF Len(s.stk) < 2 THEN Reject(s)
            ELSE LET r == CheckSig(s.stk[Len(s.stk) - 1], Top(s), c.flags)
                 IN IF r = "FAIL" THEN Reject(s) ELSE Adv(s, Append(Pop(s, 2), r))
      [] o.op = "SIZE" ->
            IF Len(s.stk) < 1 THEN Reject(s) ELSE Adv(s, Append(s.stk, SizeOf(Top(s))))
      [] o.op = "SHA256" ->
            IF Len(s.stk) < 1 THEN Reject(s) ELSE Adv(s, Append(Pop(s, 1), Sha(Top(s), c.hpre)))
      [] o.op = "EQUALVERIFY" ->
            IF Len(s.stk) < 2 THEN Reject(s)
            ELSE IF s.stk[Len(s.stk) - 1] = Top(s) THEN Adv(s, Pop(s, 2)) ELSE Reject(s)
      [] o.op = "CSV" ->
            \* operand is peeked, not popped; the template's operand carries neither disable nor type bit
            IF Len(s.stk) < 1 \/ Top(s) # "csvN" THEN Reject(s)
            ELSE IF CsvSatisfied(c.seq, c.ver, CaseN(c)) THEN Adv(s, s.stk) ELSE Reject(s)
      [] OTHER -> Reject(s)

StepOp(c, s, o) ==
    IF o.op \in {"NOTIF", "ELSE", "ENDIF"} THEN CondOp(c, s, o)
    ELSE IF ~Executing(s) THEN [s EXCEPT !.pc = s.pc + 1]
    ELSE ExecOp(c, s, o)

Step(c, s) ==
    IF s.status = "init" THEN
        \* BIP141: SHA256(witness script) must equal the 32-byte program; the rest of the witness is the initial stack
        IF c.ws # "script" THEN Reject(s) ELSE [s EXCEPT !.status = "run", !.pc = 1, !.stk = c.w]
    ELSE IF s.pc > Len(Template) THEN
        \* end of script: balanced conditionals, clean stack (exactly one element), and it is true
        IF s.cond = <<>> /\ Len(s.stk) = 1 /\ Truthy(s.stk[1]) THEN [s EXCEPT !.status = "accept"] ELSE Reject(s)
    ELSE StepOp(c, s, Template[s.pc])

RECURSIVE RunFrom(_, _)
RunFrom(c, s) == IF Terminal(s) THEN s ELSE RunFrom(c, Step(c, s))
Run(c) == RunFrom(c, InitState)
Accept(c) == Run(c).status = "accept"

(* ------------------------------------------------------------- property *)
Has(c, x) == \E i \in 1..Len(c.w) : c.w[i] = x
GoodPreimage(c) == \E i \in 1..Len(c.w) : Sha(c.w[i], c.hpre) = "H" /\ SizeOf(c.w[i]) = "n32"
PathPreimage(c) == Has(c, "sigTaker") /\ GoodPreimage(c)
PathCoop(c)     == Has(c, "sigTaker") /\ Has(c, "sigMaker")
PathCsv(c)      == Has(c, "sigMaker") /\ CsvSatisfied(c.seq, c.ver, CaseN(c))
\* Reading: "satisfied only by (a)/(b)/(c)" is a statement about what the spender must possess (the signatures, a
\* 32-byte preimage, a sequence committing to >= N blocks); extra or non-canonical dummy elements that consensus
\* tolerates (e.g. a wrong but well-formed signature where the canonical witness has an empty one) do not add a path.
Allowed(c) == c.ws = "script" /\ (PathPreimage(c) \/ PathCoop(c) \/ PathCsv(c))

\* the witnesses the wallets build (onchain.GetPreimageWitness / GetCooperativeWitness / GetCsvWitness)
CanonPreimage == <<"sigTaker", "preimage", "empty", "empty">>
CanonCoop     == <<"sigTaker", "sigMaker", "empty">>
CanonCsv      == <<"sigMaker">>
IsCanonical(c) == /\ c.ws = "script"
                  /\ \/ c.w = CanonPreimage /\ c.hpre = "preimage"
                     \/ c.w = CanonCoop
                     \/ c.w = CanonCsv /\ CsvSatisfied(c.seq, c.ver, CaseN(c))

\* exact characterisation of the accepted witnesses of the template
Dummy(x, fl) == CheckSig(x, "keyM", fl) = "empty"
Exact(c) == /\ c.ws = "script"
            /\ \/ c.w = <<"sigMaker">> /\ CsvSatisfied(c.seq, c.ver, CaseN(c))
               \/ Len(c.w) = 3 /\ c.w[1] = "sigTaker" /\ c.w[2] = "sigMaker" /\ Dummy(c.w[3], c.flags)
               \/ /\ Len(c.w) = 4 /\ c.w[1] = "sigTaker"
                  /\ Sha(c.w[2], c.hpre) = "H" /\ SizeOf(c.w[2]) = "n32"
                  /\ Dummy(c.w[3], c.flags) /\ Dummy(c.w[4], c.flags)

\* the property on a terminal interpreter state st of case c
P_C02_OnlyAllowedPaths(c, st)   == st.status = "accept" => Allowed(c)
P_C02_CanonicalAccepted(c, st)  == st.status = "reject" => ~IsCanonical(c)
P_C02_Exact(c, st)              == /\ st.status = "accept" => Exact(c)
                                   /\ st.status = "reject" => ~Exact(c)

(* ------------------------------------------------------------ case space *)
RECURSIVE StacksOver(_, _)
StacksOver(S, n) == IF n = 0 THEN {<<>>} ELSE LET P == StacksOver(S, n - 1) IN P \cup {Append(p, x) : p \in P, x \in S}

\* neighbours of a canonical witness: one substitution, insertion, deletion or adjacent transposition
Subst(w)  == {[w EXCEPT ![i] = x] : i \in 1..Len(w), x \in Items}
Insert(w) == {SubSeq(w, 1, i) \o <<x>> \o SubSeq(w, i + 1, Len(w)) : i \in 0..Len(w), x \in Items}
Delete(w) == {SubSeq(w, 1, i - 1) \o SubSeq(w, i + 1, Len(w)) : i \in 1..Len(w)}
Swap(w)   == {[w EXCEPT ![i] = w[i + 1], ![i + 1] = w[i]] : i \in 1..(Len(w) - 1)}
Near(w)   == {w} \cup Subst(w) \cup Insert(w) \cup Delete(w) \cup Swap(w)
NearMiss  == Near(CanonPreimage) \cup Near(CanonCoop) \cup Near(CanonCsv)

\* grids of (chain, sequence, tx version), as sequences with a fixed order (referenced by name from the exported lines)
Point(ch, sq, v) == [chain |-> ch, seq |-> sq, ver |-> v]
ChainOrder == <<"btc", "lbtc7", "lbtc6">>
FullGrid == LET per(ch) == LET sq == SeqsFor(ChainCSV[ch]) IN
                           [k \in 1..(2 * Len(sq)) |-> Point(ch, sq[((k - 1) \div 2) + 1], ((k - 1) % 2) + 1)]
            IN per(ChainOrder[1]) \o per(ChainOrder[2]) \o per(ChainOrder[3])
SmallGrid == LET per(ch) == LET sq == SeqsFor(ChainCSV[ch]) IN <<Point(ch, sq[2], 2), Point(ch, sq[3], 2), Point(ch, sq[1], 2)>>
             IN per("btc") \o per("btc6") \o per("lbtc7") \o per("lbtc6")
Grid(name) == IF name = "full" THEN FullGrid ELSE SmallGrid

\* an exported line: one witness stack with its fixed dimensions; the line stands for one case per grid point.
\* kind "stack": the harness maps the abstract items to bytes; kind "canon": the harness calls the wallet's witness
\* builder named by path and w is what that builder is expected to produce.
\* src: which swap type's messages carry the keys ("out": request = taker, agreement = maker; "in": the reverse).
Line(kind, w, ws, hpre, flags, grid, src, path) ==
    [kind |-> kind, w |-> w, ws |-> ws, hpre |-> hpre, flags |-> flags, grid |-> grid, src |-> src, path |-> path]
CaseOf(ln, p) == [w |-> ln.w, ws |-> ln.ws, hpre |-> ln.hpre, flags |-> ln.flags, chain |-> p.chain, seq |-> p.seq, ver |-> p.ver]

HashItems == {"sigTaker", "sigMaker", "preimage", "wrong32", "short31", "long33", "empty"}
CoreItems == {"sigTaker", "sigMaker", "sigOther", "preimage", "wrong32", "empty", "one"}
Lines(maxLen, coreLen, coreFlags) ==
    \* every stack up to maxLen over the whole alphabet, under both consensus flag sets, every chain/sequence/version
    {Line("stack", w, "script", "preimage", fl, "full", "out", "") : w \in StacksOver(Items, maxLen), fl \in {"min", "consensus"}}
    \* one element deeper over the items that can play a role in some path
    \cup {Line("stack", w, "script", "preimage", fl, "full", "out", "") : w \in StacksOver(CoreItems, coreLen), fl \in coreFlags}
    \* neighbours of the canonical witnesses (length up to 5), all flag sets, both key sources
    \cup {Line("stack", w, "script", "preimage", fl, "full", src, "") : w \in NearMiss, fl \in FlagSets, src \in {"out", "in"}}
    \* short stacks under relay policy
    \cup {Line("stack", w, "script", "preimage", "standard", "full", "out", "") : w \in StacksOver(Items, 2)}
    \* payment hash that is the hash of a 31- or 33-byte string: the SIZE check must keep that string out
    \cup {Line("stack", w, "script", hp, "consensus", "small", "out", "") : w \in StacksOver(HashItems, 4), hp \in {"short31", "long33"}}
    \* witness script not matching the program
    \cup {Line("stack", w, "other", "preimage", "consensus", "small", "out", "") : w \in {CanonPreimage, CanonCoop, CanonCsv}}
    \* the wallet's own witness builders
    \cup {Line("canon", CanonPreimage, "script", "preimage", fl, "full", src, "preimage") : fl \in FlagSets, src \in {"out", "in"}}
    \cup {Line("canon", CanonCoop, "script", "preimage", fl, "full", src, "coop") : fl \in FlagSets, src \in {"out", "in"}}
    \cup {Line("canon", CanonCsv, "script", "preimage", fl, "full", src, "csv") : fl \in FlagSets, src \in {"out", "in"}}

\* the cases of a set of lines (kind / src / path do not matter to the interpreter)
GridSet(name) == {Grid(name)[i] : i \in 1..Len(Grid(name))}
CasesOf(L) == UNION {{CaseOf(ln, p) : p \in GridSet(ln.grid)} : ln \in L}
===============================================================================
