------------------------------ MODULE FsmTables ------------------------------
(* GENERATED from the state tables of the code under test (swap.VerifTables). Do not edit. *)
EXTENDS TLC
TransTable ==
  <<"in_receiver", "", "Event_Invalid_Message">> :> "State_SendCancel"
  @@ <<"in_receiver", "", "Event_SwapInReceiver_OnRequestReceived">> :> "State_SwapInReceiver_CreateSwap"
  @@ <<"in_receiver", "State_SendCancel", "Event_ActionFailed">> :> "State_SwapCanceled"
  @@ <<"in_receiver", "State_SendCancel", "Event_ActionSucceeded">> :> "State_SwapCanceled"
  @@ <<"in_receiver", "State_SwapInReceiver_AwaitTxBroadcastedMessage", "Event_ActionFailed">> :> "State_SwapInReceiver_SendPrivkey"
  @@ <<"in_receiver", "State_SwapInReceiver_AwaitTxBroadcastedMessage", "Event_Invalid_Message">> :> "State_SendCancel"
  @@ <<"in_receiver", "State_SwapInReceiver_AwaitTxBroadcastedMessage", "Event_OnCancelReceived">> :> "State_SwapCanceled"
  @@ <<"in_receiver", "State_SwapInReceiver_AwaitTxBroadcastedMessage", "Event_OnTimeout">> :> "State_SwapInReceiver_SendPrivkey"
  @@ <<"in_receiver", "State_SwapInReceiver_AwaitTxBroadcastedMessage", "Event_OnTxOpenedMessage">> :> "State_SwapInReceiver_AwaitTxConfirmation"
  @@ <<"in_receiver", "State_SwapInReceiver_AwaitTxConfirmation", "Event_ActionFailed">> :> "State_SwapInReceiver_SendPrivkey"
  @@ <<"in_receiver", "State_SwapInReceiver_AwaitTxConfirmation", "Event_OnCancelReceived">> :> "State_SwapInReceiver_SendPrivkey"
  @@ <<"in_receiver", "State_SwapInReceiver_AwaitTxConfirmation", "Event_OnTxConfirmed">> :> "State_SwapInReceiver_ValidateTxAndPayClaimInvoice"
  @@ <<"in_receiver", "State_SwapInReceiver_ClaimSwap", "Event_ActionSucceeded">> :> "State_ClaimedPreimage"
  @@ <<"in_receiver", "State_SwapInReceiver_ClaimSwap", "Event_OnRetry">> :> "State_SwapInReceiver_ClaimSwap"
  @@ <<"in_receiver", "State_SwapInReceiver_CreateSwap", "Event_ActionFailed">> :> "State_SendCancel"
  @@ <<"in_receiver", "State_SwapInReceiver_CreateSwap", "Event_ActionSucceeded">> :> "State_SwapInReceiver_SendAgreement"
  @@ <<"in_receiver", "State_SwapInReceiver_SendAgreement", "Event_ActionFailed">> :> "State_SendCancel"
  @@ <<"in_receiver", "State_SwapInReceiver_SendAgreement", "Event_ActionSucceeded">> :> "State_SwapInReceiver_AwaitTxBroadcastedMessage"
  @@ <<"in_receiver", "State_SwapInReceiver_SendCoopClose", "Event_ActionFailed">> :> "State_SendCancel"
  @@ <<"in_receiver", "State_SwapInReceiver_SendCoopClose", "Event_ActionSucceeded">> :> "State_ClaimedCoop"
  @@ <<"in_receiver", "State_SwapInReceiver_SendPrivkey", "Event_ActionFailed">> :> "State_SendCancel"
  @@ <<"in_receiver", "State_SwapInReceiver_SendPrivkey", "Event_ActionSucceeded">> :> "State_SwapInReceiver_SendCoopClose"
  @@ <<"in_receiver", "State_SwapInReceiver_ValidateTxAndPayClaimInvoice", "Event_ActionFailed">> :> "State_SwapInReceiver_SendPrivkey"
  @@ <<"in_receiver", "State_SwapInReceiver_ValidateTxAndPayClaimInvoice", "Event_ActionSucceeded">> :> "State_SwapInReceiver_ClaimSwap"
  @@ <<"in_sender", "", "Event_SwapInSender_OnSwapInRequested">> :> "State_SwapInSender_CreateSwap"
  @@ <<"in_sender", "State_SendCancel", "Event_ActionFailed">> :> "State_SwapCanceled"
  @@ <<"in_sender", "State_SendCancel", "Event_ActionSucceeded">> :> "State_SwapCanceled"
  @@ <<"in_sender", "State_SwapInSender_AwaitAgreement", "Event_ActionFailed">> :> "State_SendCancel"
  @@ <<"in_sender", "State_SwapInSender_AwaitAgreement", "Event_Invalid_Message">> :> "State_SendCancel"
  @@ <<"in_sender", "State_SwapInSender_AwaitAgreement", "Event_OnCancelReceived">> :> "State_SwapCanceled"
  @@ <<"in_sender", "State_SwapInSender_AwaitAgreement", "Event_OnTimeout">> :> "State_SendCancel"
  @@ <<"in_sender", "State_SwapInSender_AwaitAgreement", "Event_SwapInSender_OnAgreementReceived">> :> "State_SwapInSender_BroadcastOpeningTx"
  @@ <<"in_sender", "State_SwapInSender_AwaitClaimPayment", "Event_Invalid_Message">> :> "State_WaitCsv"
  @@ <<"in_sender", "State_SwapInSender_AwaitClaimPayment", "Event_OnCancelReceived">> :> "State_WaitCsv"
  @@ <<"in_sender", "State_SwapInSender_AwaitClaimPayment", "Event_OnClaimInvoicePaid">> :> "State_ClaimedPreimage"
  @@ <<"in_sender", "State_SwapInSender_AwaitClaimPayment", "Event_OnCoopCloseReceived">> :> "State_SwapInSender_ClaimSwapCoop"
  @@ <<"in_sender", "State_SwapInSender_AwaitClaimPayment", "Event_OnCsvPassed">> :> "State_SwapInSender_ClaimSwapCsv"
  @@ <<"in_sender", "State_SwapInSender_BroadcastOpeningTx", "Event_ActionFailed">> :> "State_SendCancel"
  @@ <<"in_sender", "State_SwapInSender_BroadcastOpeningTx", "Event_ActionSucceeded">> :> "State_SwapInSender_SendTxBroadcastedMessage"
  @@ <<"in_sender", "State_SwapInSender_ClaimSwapCoop", "Event_ActionFailed">> :> "State_WaitCsv"
  @@ <<"in_sender", "State_SwapInSender_ClaimSwapCoop", "Event_ActionSucceeded">> :> "State_ClaimedCoop"
  @@ <<"in_sender", "State_SwapInSender_ClaimSwapCsv", "Event_ActionSucceeded">> :> "State_ClaimedCsv"
  @@ <<"in_sender", "State_SwapInSender_ClaimSwapCsv", "Event_OnRetry">> :> "State_SwapInSender_ClaimSwapCsv"
  @@ <<"in_sender", "State_SwapInSender_CreateSwap", "Event_ActionFailed">> :> "State_SendCancel"
  @@ <<"in_sender", "State_SwapInSender_CreateSwap", "Event_ActionSucceeded">> :> "State_SwapInSender_SendRequest"
  @@ <<"in_sender", "State_SwapInSender_SendRequest", "Event_ActionFailed">> :> "State_SendCancel"
  @@ <<"in_sender", "State_SwapInSender_SendRequest", "Event_ActionSucceeded">> :> "State_SwapInSender_AwaitAgreement"
  @@ <<"in_sender", "State_SwapInSender_SendTxBroadcastedMessage", "Event_ActionFailed">> :> "State_WaitCsv"
  @@ <<"in_sender", "State_SwapInSender_SendTxBroadcastedMessage", "Event_ActionSucceeded">> :> "State_SwapInSender_AwaitClaimPayment"
  @@ <<"in_sender", "State_WaitCsv", "Event_OnCoopCloseReceived">> :> "State_SwapInSender_ClaimSwapCoop"
  @@ <<"in_sender", "State_WaitCsv", "Event_OnCsvPassed">> :> "State_SwapInSender_ClaimSwapCsv"
  @@ <<"out_receiver", "", "Event_Invalid_Message">> :> "State_SendCancel"
  @@ <<"out_receiver", "", "Event_OnSwapOutRequestReceived">> :> "State_SwapOutReceiver_CreateSwap"
  @@ <<"out_receiver", "State_SendCancel", "Event_ActionFailed">> :> "State_SwapCanceled"
  @@ <<"out_receiver", "State_SendCancel", "Event_ActionSucceeded">> :> "State_SwapCanceled"
  @@ <<"out_receiver", "State_SwapOutReceiver_AwaitClaimInvoicePayment", "Event_Invalid_Message">> :> "State_WaitCsv"
  @@ <<"out_receiver", "State_SwapOutReceiver_AwaitClaimInvoicePayment", "Event_OnCancelReceived">> :> "State_WaitCsv"
  @@ <<"out_receiver", "State_SwapOutReceiver_AwaitClaimInvoicePayment", "Event_OnClaimInvoicePaid">> :> "State_ClaimedPreimage"
  @@ <<"out_receiver", "State_SwapOutReceiver_AwaitClaimInvoicePayment", "Event_OnCoopCloseReceived">> :> "State_SwapOutReceiver_ClaimSwapCoop"
  @@ <<"out_receiver", "State_SwapOutReceiver_AwaitClaimInvoicePayment", "Event_OnCsvPassed">> :> "State_SwapOutReceiver_ClaimSwapCsv"
  @@ <<"out_receiver", "State_SwapOutReceiver_AwaitFeeInvoicePayment", "Event_ActionFailed">> :> "State_SendCancel"
  @@ <<"out_receiver", "State_SwapOutReceiver_AwaitFeeInvoicePayment", "Event_OnCancelReceived">> :> "State_SwapCanceled"
  @@ <<"out_receiver", "State_SwapOutReceiver_AwaitFeeInvoicePayment", "Event_OnFeeInvoicePaid">> :> "State_SwapOutReceiver_BroadcastOpeningTx"
  @@ <<"out_receiver", "State_SwapOutReceiver_AwaitFeeInvoicePayment", "Event_OnTimeout">> :> "State_SendCancel"
  @@ <<"out_receiver", "State_SwapOutReceiver_BroadcastOpeningTx", "Event_ActionFailed">> :> "State_SendCancel"
  @@ <<"out_receiver", "State_SwapOutReceiver_BroadcastOpeningTx", "Event_ActionSucceeded">> :> "State_SwapOutReceiver_SendTxBroadcastedMessage"
  @@ <<"out_receiver", "State_SwapOutReceiver_ClaimSwapCoop", "Event_ActionFailed">> :> "State_WaitCsv"
  @@ <<"out_receiver", "State_SwapOutReceiver_ClaimSwapCoop", "Event_ActionSucceeded">> :> "State_ClaimedCoop"
  @@ <<"out_receiver", "State_SwapOutReceiver_ClaimSwapCsv", "Event_ActionSucceeded">> :> "State_ClaimedCsv"
  @@ <<"out_receiver", "State_SwapOutReceiver_ClaimSwapCsv", "Event_OnRetry">> :> "State_SwapOutReceiver_ClaimSwapCsv"
  @@ <<"out_receiver", "State_SwapOutReceiver_CreateSwap", "Event_ActionFailed">> :> "State_SendCancel"
  @@ <<"out_receiver", "State_SwapOutReceiver_CreateSwap", "Event_ActionSucceeded">> :> "State_SwapOutReceiver_SendFeeInvoice"
  @@ <<"out_receiver", "State_SwapOutReceiver_SendFeeInvoice", "Event_ActionFailed">> :> "State_SendCancel"
  @@ <<"out_receiver", "State_SwapOutReceiver_SendFeeInvoice", "Event_ActionSucceeded">> :> "State_SwapOutReceiver_AwaitFeeInvoicePayment"
  @@ <<"out_receiver", "State_SwapOutReceiver_SendTxBroadcastedMessage", "Event_ActionFailed">> :> "State_WaitCsv"
  @@ <<"out_receiver", "State_SwapOutReceiver_SendTxBroadcastedMessage", "Event_ActionSucceeded">> :> "State_SwapOutReceiver_AwaitClaimInvoicePayment"
  @@ <<"out_receiver", "State_WaitCsv", "Event_OnCoopCloseReceived">> :> "State_SwapOutReceiver_ClaimSwapCoop"
  @@ <<"out_receiver", "State_WaitCsv", "Event_OnCsvPassed">> :> "State_SwapOutReceiver_ClaimSwapCsv"
  @@ <<"out_sender", "", "Event_OnSwapOutStarted">> :> "State_SwapOutSender_CreateSwap"
  @@ <<"out_sender", "State_SendCancel", "Event_ActionFailed">> :> "State_SwapCanceled"
  @@ <<"out_sender", "State_SendCancel", "Event_ActionSucceeded">> :> "State_SwapCanceled"
  @@ <<"out_sender", "State_SwapOutSender_AwaitAgreement", "Event_ActionFailed">> :> "State_SendCancel"
  @@ <<"out_sender", "State_SwapOutSender_AwaitAgreement", "Event_Invalid_Message">> :> "State_SendCancel"
  @@ <<"out_sender", "State_SwapOutSender_AwaitAgreement", "Event_OnCancelReceived">> :> "State_SwapCanceled"
  @@ <<"out_sender", "State_SwapOutSender_AwaitAgreement", "Event_OnFeeInvoiceReceived">> :> "State_SwapOutSender_PayFeeInvoice"
  @@ <<"out_sender", "State_SwapOutSender_AwaitAgreement", "Event_OnTimeout">> :> "State_SendCancel"
  @@ <<"out_sender", "State_SwapOutSender_AwaitTxBroadcastedMessage", "Event_ActionFailed">> :> "State_SwapOutSender_SendPrivkey"
  @@ <<"out_sender", "State_SwapOutSender_AwaitTxBroadcastedMessage", "Event_Invalid_Message">> :> "State_SendCancel"
  @@ <<"out_sender", "State_SwapOutSender_AwaitTxBroadcastedMessage", "Event_OnCancelReceived">> :> "State_SwapCanceled"
  @@ <<"out_sender", "State_SwapOutSender_AwaitTxBroadcastedMessage", "Event_OnTxOpenedMessage">> :> "State_SwapOutSender_AwaitTxConfirmation"
  @@ <<"out_sender", "State_SwapOutSender_AwaitTxConfirmation", "Event_ActionFailed">> :> "State_SwapOutSender_SendPrivkey"
  @@ <<"out_sender", "State_SwapOutSender_AwaitTxConfirmation", "Event_OnTxConfirmed">> :> "State_SwapOutSender_ValidateTxAndPayClaimInvoice"
  @@ <<"out_sender", "State_SwapOutSender_ClaimSwap", "Event_ActionSucceeded">> :> "State_ClaimedPreimage"
  @@ <<"out_sender", "State_SwapOutSender_ClaimSwap", "Event_OnRetry">> :> "State_SwapOutSender_ClaimSwap"
  @@ <<"out_sender", "State_SwapOutSender_CreateSwap", "Event_ActionFailed">> :> "State_SendCancel"
  @@ <<"out_sender", "State_SwapOutSender_CreateSwap", "Event_ActionSucceeded">> :> "State_SwapOutSender_SendRequest"
  @@ <<"out_sender", "State_SwapOutSender_PayFeeInvoice", "Event_ActionFailed">> :> "State_SendCancel"
  @@ <<"out_sender", "State_SwapOutSender_PayFeeInvoice", "Event_ActionSucceeded">> :> "State_SwapOutSender_AwaitTxBroadcastedMessage"
  @@ <<"out_sender", "State_SwapOutSender_SendCoopClose", "Event_ActionFailed">> :> "State_SendCancel"
  @@ <<"out_sender", "State_SwapOutSender_SendCoopClose", "Event_ActionSucceeded">> :> "State_ClaimedCoop"
  @@ <<"out_sender", "State_SwapOutSender_SendPrivkey", "Event_ActionFailed">> :> "State_SendCancel"
  @@ <<"out_sender", "State_SwapOutSender_SendPrivkey", "Event_ActionSucceeded">> :> "State_SwapOutSender_SendCoopClose"
  @@ <<"out_sender", "State_SwapOutSender_SendRequest", "Event_ActionFailed">> :> "State_SendCancel"
  @@ <<"out_sender", "State_SwapOutSender_SendRequest", "Event_ActionSucceeded">> :> "State_SwapOutSender_AwaitAgreement"
  @@ <<"out_sender", "State_SwapOutSender_ValidateTxAndPayClaimInvoice", "Event_ActionFailed">> :> "State_SwapOutSender_SendPrivkey"
  @@ <<"out_sender", "State_SwapOutSender_ValidateTxAndPayClaimInvoice", "Event_ActionSucceeded">> :> "State_SwapOutSender_ClaimSwap"
ActionTable ==
  <<"in_receiver", "">> :> <<>>
  @@ <<"in_receiver", "State_ClaimedCoop">> :> <<"NoOpDoneAction">>
  @@ <<"in_receiver", "State_ClaimedPreimage">> :> <<"NoOpDoneAction">>
  @@ <<"in_receiver", "State_SendCancel">> :> <<"SendCancelAction">>
  @@ <<"in_receiver", "State_SwapCanceled">> :> <<"CancelAction">>
  @@ <<"in_receiver", "State_SwapInReceiver_AwaitTxBroadcastedMessage">> :> <<"SetStartingBlockHeightAction">>
  @@ <<"in_receiver", "State_SwapInReceiver_AwaitTxConfirmation">> :> <<"StopSendMessageWithRetryWrapperAction", "AwaitTxConfirmationAction">>
  @@ <<"in_receiver", "State_SwapInReceiver_ClaimSwap">> :> <<"ClaimSwapTransactionWithPreimageAction">>
  @@ <<"in_receiver", "State_SwapInReceiver_CreateSwap">> :> <<"CheckRequestWrapperAction", "SwapInReceiverInitAction">>
  @@ <<"in_receiver", "State_SwapInReceiver_SendAgreement">> :> <<"SendMessageAction">>
  @@ <<"in_receiver", "State_SwapInReceiver_SendCoopClose">> :> <<"SendMessageAction">>
  @@ <<"in_receiver", "State_SwapInReceiver_SendPrivkey">> :> <<"TakerSendPrivkeyAction">>
  @@ <<"in_receiver", "State_SwapInReceiver_ValidateTxAndPayClaimInvoice">> :> <<"ValidateTxAndPayClaimInvoiceAction">>
  @@ <<"in_sender", "">> :> <<>>
  @@ <<"in_sender", "State_ClaimedCoop">> :> <<"NoOpDoneAction">>
  @@ <<"in_sender", "State_ClaimedCsv">> :> <<"AddSuspiciousPeerAction", "NoOpDoneAction">>
  @@ <<"in_sender", "State_ClaimedPreimage">> :> <<"NoOpDoneAction">>
  @@ <<"in_sender", "State_SendCancel">> :> <<"SendCancelAction">>
  @@ <<"in_sender", "State_SwapCanceled">> :> <<"CancelAction">>
  @@ <<"in_sender", "State_SwapInSender_AwaitAgreement">> :> <<"NoOpAction">>
  @@ <<"in_sender", "State_SwapInSender_AwaitClaimPayment">> :> <<"AwaitPaymentOrCsvAction">>
  @@ <<"in_sender", "State_SwapInSender_BroadcastOpeningTx">> :> <<"CheckPremiumAmount", "CreateAndBroadcastOpeningTransaction">>
  @@ <<"in_sender", "State_SwapInSender_ClaimSwapCoop">> :> <<"StopSendMessageWithRetryWrapperAction", "ClaimSwapTransactionCoop">>
  @@ <<"in_sender", "State_SwapInSender_ClaimSwapCsv">> :> <<"StopSendMessageWithRetryWrapperAction", "ClaimSwapTransactionWithCsv">>
  @@ <<"in_sender", "State_SwapInSender_CreateSwap">> :> <<"SetBlindingKeyActionWrapper", "CreateSwapRequestAction">>
  @@ <<"in_sender", "State_SwapInSender_SendRequest">> :> <<"SendMessageAction">>
  @@ <<"in_sender", "State_SwapInSender_SendTxBroadcastedMessage">> :> <<"SendMessageWithRetryAction">>
  @@ <<"in_sender", "State_WaitCsv">> :> <<"StopSendMessageWithRetryWrapperAction", "AwaitCsvAction">>
  @@ <<"out_receiver", "">> :> <<>>
  @@ <<"out_receiver", "State_ClaimedCoop">> :> <<"NoOpDoneAction">>
  @@ <<"out_receiver", "State_ClaimedCsv">> :> <<"AddSuspiciousPeerAction", "NoOpDoneAction">>
  @@ <<"out_receiver", "State_ClaimedPreimage">> :> <<"NoOpDoneAction">>
  @@ <<"out_receiver", "State_SendCancel">> :> <<"SendCancelAction">>
  @@ <<"out_receiver", "State_SwapCanceled">> :> <<"CancelAction">>
  @@ <<"out_receiver", "State_SwapOutReceiver_AwaitClaimInvoicePayment">> :> <<"AwaitPaymentOrCsvAction">>
  @@ <<"out_receiver", "State_SwapOutReceiver_AwaitFeeInvoicePayment">> :> <<"AwaitFeeInvoicePayment">>
  @@ <<"out_receiver", "State_SwapOutReceiver_BroadcastOpeningTx">> :> <<"CreateAndBroadcastOpeningTransaction">>
  @@ <<"out_receiver", "State_SwapOutReceiver_ClaimSwapCoop">> :> <<"StopSendMessageWithRetryWrapperAction", "ClaimSwapTransactionCoop">>
  @@ <<"out_receiver", "State_SwapOutReceiver_ClaimSwapCsv">> :> <<"StopSendMessageWithRetryWrapperAction", "ClaimSwapTransactionWithCsv">>
  @@ <<"out_receiver", "State_SwapOutReceiver_CreateSwap">> :> <<"CheckRequestWrapperAction", "SetBlindingKeyActionWrapper", "CreateSwapOutFromRequestAction">>
  @@ <<"out_receiver", "State_SwapOutReceiver_SendFeeInvoice">> :> <<"SendMessageAction">>
  @@ <<"out_receiver", "State_SwapOutReceiver_SendTxBroadcastedMessage">> :> <<"SendMessageWithRetryAction">>
  @@ <<"out_receiver", "State_WaitCsv">> :> <<"StopSendMessageWithRetryWrapperAction", "AwaitCsvAction">>
  @@ <<"out_sender", "">> :> <<>>
  @@ <<"out_sender", "State_ClaimedCoop">> :> <<"NoOpDoneAction">>
  @@ <<"out_sender", "State_ClaimedPreimage">> :> <<"NoOpDoneAction">>
  @@ <<"out_sender", "State_SendCancel">> :> <<"SendCancelAction">>
  @@ <<"out_sender", "State_SwapCanceled">> :> <<"CancelAction">>
  @@ <<"out_sender", "State_SwapOutSender_AwaitAgreement">> :> <<"NoOpAction">>
  @@ <<"out_sender", "State_SwapOutSender_AwaitTxBroadcastedMessage">> :> <<"SetStartingBlockHeightAction">>
  @@ <<"out_sender", "State_SwapOutSender_AwaitTxConfirmation">> :> <<"AwaitTxConfirmationAction">>
  @@ <<"out_sender", "State_SwapOutSender_ClaimSwap">> :> <<"ClaimSwapTransactionWithPreimageAction">>
  @@ <<"out_sender", "State_SwapOutSender_CreateSwap">> :> <<"CreateSwapRequestAction">>
  @@ <<"out_sender", "State_SwapOutSender_PayFeeInvoice">> :> <<"CheckPremiumAmount", "PayFeeInvoiceAction">>
  @@ <<"out_sender", "State_SwapOutSender_SendCoopClose">> :> <<"SendMessageAction">>
  @@ <<"out_sender", "State_SwapOutSender_SendPrivkey">> :> <<"TakerSendPrivkeyAction">>
  @@ <<"out_sender", "State_SwapOutSender_SendRequest">> :> <<"SendMessageAction">>
  @@ <<"out_sender", "State_SwapOutSender_ValidateTxAndPayClaimInvoice">> :> <<"ValidateTxAndPayClaimInvoiceAction">>
FailOnRecover == {<<"in_receiver", "State_SwapInReceiver_CreateSwap">>, <<"in_receiver", "State_SwapInReceiver_SendAgreement">>, <<"in_sender", "State_SwapInSender_AwaitAgreement">>, <<"in_sender", "State_SwapInSender_CreateSwap">>, <<"in_sender", "State_SwapInSender_SendRequest">>, <<"out_receiver", "State_SwapOutReceiver_AwaitFeeInvoicePayment">>, <<"out_receiver", "State_SwapOutReceiver_CreateSwap">>, <<"out_receiver", "State_SwapOutReceiver_SendFeeInvoice">>, <<"out_sender", "State_SwapOutSender_AwaitAgreement">>, <<"out_sender", "State_SwapOutSender_CreateSwap">>, <<"out_sender", "State_SwapOutSender_PayFeeInvoice">>, <<"out_sender", "State_SwapOutSender_SendRequest">>}
TableStates == {<<"in_receiver", "">>, <<"in_receiver", "State_ClaimedCoop">>, <<"in_receiver", "State_ClaimedPreimage">>, <<"in_receiver", "State_SendCancel">>, <<"in_receiver", "State_SwapCanceled">>, <<"in_receiver", "State_SwapInReceiver_AwaitTxBroadcastedMessage">>, <<"in_receiver", "State_SwapInReceiver_AwaitTxConfirmation">>, <<"in_receiver", "State_SwapInReceiver_ClaimSwap">>, <<"in_receiver", "State_SwapInReceiver_CreateSwap">>, <<"in_receiver", "State_SwapInReceiver_SendAgreement">>, <<"in_receiver", "State_SwapInReceiver_SendCoopClose">>, <<"in_receiver", "State_SwapInReceiver_SendPrivkey">>, <<"in_receiver", "State_SwapInReceiver_ValidateTxAndPayClaimInvoice">>, <<"in_sender", "">>, <<"in_sender", "State_ClaimedCoop">>, <<"in_sender", "State_ClaimedCsv">>, <<"in_sender", "State_ClaimedPreimage">>, <<"in_sender", "State_SendCancel">>, <<"in_sender", "State_SwapCanceled">>, <<"in_sender", "State_SwapInSender_AwaitAgreement">>, <<"in_sender", "State_SwapInSender_AwaitClaimPayment">>, <<"in_sender", "State_SwapInSender_BroadcastOpeningTx">>, <<"in_sender", "State_SwapInSender_ClaimSwapCoop">>, <<"in_sender", "State_SwapInSender_ClaimSwapCsv">>, <<"in_sender", "State_SwapInSender_CreateSwap">>, <<"in_sender", "State_SwapInSender_SendRequest">>, <<"in_sender", "State_SwapInSender_SendTxBroadcastedMessage">>, <<"in_sender", "State_WaitCsv">>, <<"out_receiver", "">>, <<"out_receiver", "State_ClaimedCoop">>, <<"out_receiver", "State_ClaimedCsv">>, <<"out_receiver", "State_ClaimedPreimage">>, <<"out_receiver", "State_SendCancel">>, <<"out_receiver", "State_SwapCanceled">>, <<"out_receiver", "State_SwapOutReceiver_AwaitClaimInvoicePayment">>, <<"out_receiver", "State_SwapOutReceiver_AwaitFeeInvoicePayment">>, <<"out_receiver", "State_SwapOutReceiver_BroadcastOpeningTx">>, <<"out_receiver", "State_SwapOutReceiver_ClaimSwapCoop">>, <<"out_receiver", "State_SwapOutReceiver_ClaimSwapCsv">>, <<"out_receiver", "State_SwapOutReceiver_CreateSwap">>, <<"out_receiver", "State_SwapOutReceiver_SendFeeInvoice">>, <<"out_receiver", "State_SwapOutReceiver_SendTxBroadcastedMessage">>, <<"out_receiver", "State_WaitCsv">>, <<"out_sender", "">>, <<"out_sender", "State_ClaimedCoop">>, <<"out_sender", "State_ClaimedPreimage">>, <<"out_sender", "State_SendCancel">>, <<"out_sender", "State_SwapCanceled">>, <<"out_sender", "State_SwapOutSender_AwaitAgreement">>, <<"out_sender", "State_SwapOutSender_AwaitTxBroadcastedMessage">>, <<"out_sender", "State_SwapOutSender_AwaitTxConfirmation">>, <<"out_sender", "State_SwapOutSender_ClaimSwap">>, <<"out_sender", "State_SwapOutSender_CreateSwap">>, <<"out_sender", "State_SwapOutSender_PayFeeInvoice">>, <<"out_sender", "State_SwapOutSender_SendCoopClose">>, <<"out_sender", "State_SwapOutSender_SendPrivkey">>, <<"out_sender", "State_SwapOutSender_SendRequest">>, <<"out_sender", "State_SwapOutSender_ValidateTxAndPayClaimInvoice">>}
===============================================================================
