CONSTANTS
  Peers = {"P1", "P2"}
  WideLen = 2
  DeepLen = 6
  DeepSlots = {"btc_out"}
INIT Init
NEXT Next
VIEW View
INVARIANT P_C27_Resolution
INVARIANT P_C27_Fallback
PROPERTY P_C27_Map
INVARIANT Export
POSTCONDITION Post
CHECK_DEADLOCK FALSE
