---------------------------- MODULE PeerSwapTrace ----------------------------
(* Code -> specification. Replays the events recorded from the REAL swap      *)
(* service (harness/l1) through the observer of PeerSwapObs: every event      *)
(* first is judged by the property checks against the current abstract state  *)
(* and then updates that state. Violations are accumulated per trace (the run *)
(* does not stop at the first one) and written out at the end of each trace;  *)
(* the number of consumed lines is written at the very end.                   *)
EXTENDS PeerSwapObs, Json, SequencesExt
Trace == ndJsonDeserialize("trace.ndjson")
VARIABLES l, o, viol
Init == l = 1 /\ o = ObsInit /\ viol = {}
Flush(t) == viol = {} \/ JsonSerialize("v/v_" \o ToString(t) \o ".json", [t |-> t, viol |-> SetToSeq(viol)])
Step == /\ l <= Len(Trace)
        /\ LET e == Trace[l]
               new == {[seq |-> e.seq, sig |-> x] : x \in CheckEv(o, e)}
           IN /\ o' = ApplyEv(o, e)
              /\ IF e.ev = "end" THEN Flush(e.t) /\ (new = {} \/ JsonSerialize("v/e_" \o ToString(e.t) \o ".json", [t |-> e.t, viol |-> SetToSeq(new)])) /\ viol' = {}
                 ELSE viol' = IF new = {} THEN viol ELSE viol \cup new
        /\ l' = l + 1
Finish == /\ l = Len(Trace) + 1
          /\ JsonSerialize("verdict.json", [n |-> Len(Trace)])
          /\ l' = l + 1 /\ UNCHANGED <<o, viol>>
Next == Step \/ Finish
===============================================================================
