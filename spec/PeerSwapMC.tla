------------------------------ MODULE PeerSwapMC ------------------------------
EXTENDS PeerSwap
\* property id of a violation signature: its first three characters
Pid(sig) == SubSeq(sig, 1, 3)
NoViol(p) == \A v \in viol : Pid(v) # p
Inv_All == viol = {}
===============================================================================
