------------------------------- MODULE Watcher -------------------------------
(* C20 - chain watchers report confirmation and CSV maturity only when true.   *)
(*                                                                            *)
(* A chain (sequence of blocks, at most one of which contains the watched     *)
(* transaction), its environment actions (broadcast, new block, reorganisation*)
(* of the top 1-2 blocks by as many new blocks, spend of the watched output), *)
(* an RPC/Electrum view of it (answers may come from the chain without its tip*)
(* block - "one block stale" - or fail transiently) and ONE confirmation      *)
(* registration c and ONE csv registration v of a watcher.  The watcher's     *)
(* steps are its linearization points: registration, block notification being *)
(* taken from the node (Poll), notification consumed by the registration      *)
(* (Deliver), every RPC answer (RpcXX), callback (part of the step deciding *)
(* it).  Environment actions interleave with all of them.                     *)
(*                                                                            *)
(* Kind = "rpc":      txwatcher.BlockchainRpcTxWatcher (bitcoind / elementsd) *)
(* Kind = "electrum": lwk.electrumTxWatcher + electrum.liquidBlockHeader-     *)
(*                    Subscriber + observeOpeningTX / observeCSVTX            *)
(* The RPC watcher's depth test does not wrap around (Decide): the uint32     *)
(* subtraction of observationLoop is guarded by current+1 >= firstSeen since  *)
(* the repair that followed this check's first run.                           *)
(* The two kinds differ legitimately (documented at the actions): the RPC     *)
(* watcher evaluates a registration when it is added and polls the CSV list on*)
(* every tick; the Electrum watcher evaluates only on a header with a higher  *)
(* height, fails a registration when tip < start, and ignores the watched     *)
(* output being spent (it reads the script history).                          *)
(*                                                                            *)
(* Reading of the property (written next to the invariants below): a report is*)
(* judged against the chain states that existed between the watcher's trigger *)
(* observation (the instant the block notification it consumed was taken from *)
(* the node; for evaluations at registration time, the registration call) and *)
(* the callback, as seen through the view (if an answer of that evaluation was*)
(* one block stale, also those states without their tip block).  Blocks that  *)
(* arrive after the callback started are not held against the report.         *)
EXTENDS Integers, Sequences, FiniteSets, TLC

CONSTANTS Kind,       \* "rpc" | "electrum"
          Confs,      \* required confirmations (3 bitcoin, 2 liquid; electrum: 2 fixed in the code)
          Window,     \* payment window (blocks after start)
          Csv,        \* csv of the watched output
          L0,         \* length of the initial chain
          MaxNew,     \* blocks created after Init (NewBlock + Reorg)
          MaxReorg, MaxFault, MaxPoll, MaxTick,  \* every action is bounded by a budget: the state graph is finite
          CbErr       \* BOOLEAN: callbacks may return an error

VARIABLES chain,   \* Seq([id, tx]): best chain, height i = index
          nid,     \* next block id
          bcast,   \* tx is known to the node (mempool or chain)
          spent,   \* watched output spent
          txb,     \* ids of all blocks (also reorganised-out ones) containing the tx
          bud,     \* [new, reorg, fault, poll, tick]: budgets used
          polls,   \* pending notifications: set of [id, h, seen, st]; seen = chain snapshots [tip, txh] since it was taken
          wh,      \* electrum: height accepted by acceptBlockHeight
          c,       \* confirmation registration
          v,       \* csv registration
          rep,     \* Seq of reports [reg, res, h (height consumed), ok (callback returned nil), just (justified, see above)]
          sched    \* history variable: the schedule, replayed on the real code
vars == <<chain, nid, bcast, spent, txb, bud, polls, wh, c, v, rep, sched>>

-----------------------------------------------------------------------------
(* chain, snapshots, views *)
TxH(ch)   == IF \E i \in 1..Len(ch) : ch[i].tx THEN CHOOSE i \in 1..Len(ch) : ch[i].tx ELSE 0
Depth(ch) == IF TxH(ch) = 0 THEN 0 ELSE Len(ch) - TxH(ch) + 1
Snap(ch)  == [tip |-> Len(ch), txh |-> TxH(ch)]
Prefix(ch) == SubSeq(ch, 1, Len(ch) - 1)
SDepth(s) == IF s.txh = 0 THEN 0 ELSE s.tip - s.txh + 1
StaleSnap(s) == [tip |-> s.tip - 1, txh |-> IF s.txh = s.tip THEN 0 ELSE s.txh]
\* (the P versions take the registration's parameters as arguments: WatcherTrace reads them from the trace)
CondConfP(s, start, confs, window) == s.txh # 0 /\ SDepth(s) >= confs /\ s.tip < start + window
CondCsvP(s, csv)                   == s.txh # 0 /\ SDepth(s) >= csv
CondConf(s, start) == CondConfP(s, start, Confs, Window)
CondCsv(s)         == CondCsvP(s, Csv)
\* states a report may be justified by: the snapshots S seen since the trigger, and their one-block-stale views if stale
Cands(S, stale) == IF stale THEN S \cup {StaleSnap(s) : s \in S} ELSE S
JustConf(S, stale, start) == \E s \in Cands(S, stale) : CondConf(s, start)
JustCsv(S, stale)         == \E s \in Cands(S, stale) : CondCsv(s)
JustConfP(S, stale, start, confs, window) == \E s \in Cands(S, stale) : CondConfP(s, start, confs, window)
JustCsvP(S, stale, csv)                   == \E s \in Cands(S, stale) : CondCsvP(s, csv)
\* the same over a recorded history h (Seq of snapshots) from index since on: used by WatcherTrace
Since(h, since) == {h[i] : i \in since..Len(h)}

\* chain operations (shared with WatcherTrace)
OpBlock(ch, id, tx)  == Append(ch, [id |-> id, tx |-> tx])
\* replace the top k blocks by k new ones; txat \in 0..k says which new block contains the tx
OpReorg(ch, id, k, txat) ==
    SubSeq(ch, 1, Len(ch) - k) \o [j \in 1..k |-> [id |-> id + j - 1, tx |-> (j = txat)]]

View(f)     == IF f = "stale" THEN Prefix(chain) ELSE chain
HashAt(vw, h) == IF h \in 1..Len(vw) THEN vw[h].id ELSE 0
Now         == {Snap(chain)}

-----------------------------------------------------------------------------
Idle == c.pc = "idle" /\ v.pc = "idle"
C0 == [st |-> "none", start |-> 0, last |-> 0, pc |-> "idle", hn |-> 0, hr |-> 0, bh |-> 0, fs |-> 0, th |-> 0,
       seen |-> {}, stale |-> FALSE, ord |-> 0]
V0 == [st |-> "none", pc |-> "idle", hn |-> 0, seen |-> {}, stale |-> FALSE]

Init == /\ \E t0 \in 0..L0, b0 \in BOOLEAN :
              /\ chain = [i \in 1..L0 |-> [id |-> i, tx |-> (i = t0)]]
              /\ bcast = (b0 \/ t0 # 0)
              /\ txb = IF t0 = 0 THEN {} ELSE {t0}
              /\ sched = <<[a |-> "init", len |-> L0, txat |-> t0, bcast |-> (b0 \/ t0 # 0)]>>
        /\ nid = L0 + 1 /\ spent = FALSE
        /\ bud = [new |-> 0, reorg |-> 0, fault |-> 0, poll |-> 0, tick |-> 0]
        /\ polls = {} /\ wh = 0 /\ c = C0 /\ v = V0 /\ rep = <<>>

Tok(t) == sched' = Append(sched, t)

-----------------------------------------------------------------------------
(* environment *)
\* every evaluation in progress and every pending notification sees the new chain state
ChainStep(ch) == /\ chain' = ch
                 /\ polls' = {[p EXCEPT !.seen = @ \cup {Snap(ch)}] : p \in polls}
                 /\ c' = IF c.pc # "idle" THEN [c EXCEPT !.seen = @ \cup {Snap(ch)}] ELSE c
                 /\ v' = IF v.pc # "idle" THEN [v EXCEPT !.seen = @ \cup {Snap(ch)}] ELSE v
EnvFrame == UNCHANGED <<wh, rep>>
NoChain == UNCHANGED <<chain, polls, c, v>>

Bcast == /\ ~bcast /\ bcast' = TRUE
         /\ Tok([a |-> "bcast", mid |-> ~Idle])
         /\ UNCHANGED <<nid, spent, txb, bud>> /\ NoChain /\ EnvFrame

NewBlock(tx) ==
    /\ bud.new < MaxNew
    /\ tx => (bcast /\ TxH(chain) = 0)
    /\ ChainStep(OpBlock(chain, nid, tx))
    /\ nid' = nid + 1
    /\ txb' = IF tx THEN txb \cup {nid} ELSE txb
    /\ bud' = [bud EXCEPT !.new = @ + 1]
    /\ Tok([a |-> "block", tx |-> tx, mid |-> ~Idle])
    /\ UNCHANGED <<bcast, spent>> /\ EnvFrame

Reorg(k, txat) ==
    /\ bud.reorg < MaxReorg /\ bud.new + k <= MaxNew
    /\ k < Len(chain)
    /\ txat # 0 => (bcast /\ TxH(SubSeq(chain, 1, Len(chain) - k)) = 0)
    /\ ChainStep(OpReorg(chain, nid, k, txat))
    /\ nid' = nid + k
    /\ txb' = IF txat # 0 THEN txb \cup {nid + txat - 1} ELSE txb
    /\ bud' = [bud EXCEPT !.new = @ + k, !.reorg = @ + 1]
    /\ Tok([a |-> "reorg", k |-> k, txat |-> txat, mid |-> ~Idle])
    /\ UNCHANGED <<bcast, spent>> /\ EnvFrame

Spend == /\ Kind = "rpc"      \* invisible to the electrum watcher (script history)
         /\ TxH(chain) # 0 /\ ~spent /\ spent' = TRUE
         /\ Tok([a |-> "spend", mid |-> ~Idle])
         /\ UNCHANGED <<nid, bcast, txb, bud>> /\ NoChain /\ EnvFrame

Env == Bcast \/ (\E tx \in BOOLEAN : NewBlock(tx)) \/ (\E k \in 1..2, txat \in 0..2 : txat <= k /\ Reorg(k, txat)) \/ Spend

-----------------------------------------------------------------------------
(* reports *)
CbRes == IF CbErr THEN {"ok", "err"} ELSE {"ok"}
\* faults of one answer; stale needs a block to hide
Faults == {"ok"} \cup (IF bud.fault < MaxFault THEN {"err"} \cup (IF Len(chain) >= 2 THEN {"stale"} ELSE {}) ELSE {})
UseFault(f) == bud' = [bud EXCEPT !.fault = IF f = "ok" THEN @ ELSE @ + 1]

RepConf(res, cb, stale) ==
    rep' = Append(rep, [reg |-> "c", res |-> res, h |-> c.hn, ok |-> (cb = "ok"),
                        just |-> JustConf(c.seen, stale, c.start)])
RepCsv(cb, stale) ==
    rep' = Append(rep, [reg |-> "v", res |-> "csv", h |-> 0, ok |-> (cb = "ok"), just |-> JustCsv(v.seen, stale)])

EnvKeep == UNCHANGED <<chain, nid, bcast, spent, txb>>
CIdle(r) == [r EXCEPT !.pc = "idle", !.hn = 0, !.hr = 0, !.bh = 0, !.fs = 0, !.th = 0, !.stale = FALSE, !.seen = {}]
CDone(r) == [CIdle(r) EXCEPT !.st = "done"]
VIdle(r) == [r EXCEPT !.pc = "idle", !.hn = 0, !.stale = FALSE, !.seen = {}]
VDone(r) == [VIdle(r) EXCEPT !.st = "done"]

-----------------------------------------------------------------------------
(* RPC watcher: txwatcher.BlockchainRpcTxWatcher *)
\* one answer of the node ends the evaluation of c with a failure report
\* (observationLoop: any error that is not NotFound/Unconfirmed/OutOfSync cancels)
RpcFail(f, cb) == /\ RepConf("failed", cb, c.stale \/ f = "stale")
                  /\ c' = CDone(c)
                  /\ Tok([a |-> "rpc", f |-> f, cb |-> cb])

\* observationLoop took height hn from its channel
Consume(r, hn, f, tok) ==
    IF hn <= r.last THEN /\ c' = CIdle(r) /\ Tok(tok) /\ UNCHANGED rep
    ELSE IF hn >= r.start + Window
    THEN \E cb \in CbRes :
            /\ rep' = Append(rep, [reg |-> "c", res |-> "failed", h |-> hn, ok |-> (cb = "ok"),
                                   just |-> JustConf(r.seen, r.stale, r.start)])
            /\ c' = CDone(r)
            /\ Tok([tok EXCEPT !.cb = cb])
    ELSE /\ c' = [r EXCEPT !.last = hn, !.hn = hn, !.pc = "c1"] /\ Tok(tok) /\ UNCHANGED rep

\* decision once the block of first confirmation fs is known (intended arithmetic: no wrap-around)
Decide(r, fs, f) ==
    IF fs > r.start + Window THEN \E cb \in CbRes : RpcFail(f, cb)
    ELSE IF r.hn >= fs - 1 /\ r.hn - (fs - 1) >= Confs
    THEN \E cb \in CbRes :
            /\ RepConf("confirmed", cb, r.stale)
            /\ c' = CDone(r)
            /\ Tok([a |-> "rpc", f |-> f, cb |-> cb])
    ELSE /\ c' = CIdle(r) /\ UNCHANGED rep /\ Tok([a |-> "rpc", f |-> f, cb |-> ""])

AddC_Rpc(s) ==
    /\ Kind = "rpc" /\ Idle /\ c.st = "none"
    /\ c' = [C0 EXCEPT !.st = "live", !.start = s, !.pc = "k0", !.seen = Now]
    /\ Tok([a |-> "addc", start |-> s])
    /\ EnvKeep /\ UNCHANGED <<bud, polls, wh, v, rep>>

\* the kick-off GetBlockHeight inside AddWaitForConfirmationTx (error: height 0, ignored by the loop)
RpcK0(f) ==
    /\ c.pc = "k0" /\ UseFault(f)
    /\ LET r == [c EXCEPT !.stale = (f = "stale")]
           hn == IF f = "err" THEN 0 ELSE Len(View(f)) IN
       Consume(r, hn, f, [a |-> "rpc", f |-> f, cb |-> ""])
    /\ EnvKeep /\ UNCHANGED <<polls, wh, v>>

Poll(f) ==
    /\ Idle /\ bud.poll < MaxPoll /\ f # "err"
    /\ polls' = polls \cup {[id |-> bud.poll + 1, h |-> Len(View(f)), seen |-> Now, st |-> (f = "stale")]}
    /\ bud' = [bud EXCEPT !.poll = @ + 1, !.fault = IF f = "ok" THEN @ ELSE @ + 1]
    /\ Tok([a |-> "poll", f |-> f])
    /\ EnvKeep /\ UNCHANGED <<wh, c, v, rep>>

Deliver_Rpc(p) ==
    /\ Kind = "rpc" /\ Idle /\ c.st = "live"
    /\ polls' = polls \ {p}
    /\ LET r == IF p.h > c.last THEN [c EXCEPT !.seen = p.seen, !.stale = p.st] ELSE c IN
       Consume(r, p.h, "ok", [a |-> "deliver", p |-> p.id, cb |-> ""])
    /\ EnvKeep /\ UNCHANGED <<bud, wh, v>>

RpcC1(f) == \* IsTxInMempoolOrRange: GetBlockHeight
    /\ c.pc = "c1" /\ UseFault(f)
    /\ IF f = "err" THEN \E cb \in CbRes : RpcFail(f, cb)
       ELSE /\ c' = [c EXCEPT !.hr = Len(View(f)), !.pc = "c2", !.stale = @ \/ f = "stale"]
            /\ Tok([a |-> "rpc", f |-> f, cb |-> ""]) /\ UNCHANGED rep
    /\ EnvKeep /\ UNCHANGED <<polls, wh, v>>

RpcC2(f) == \* GetBlockHash(hr)
    /\ c.pc = "c2" /\ UseFault(f)
    /\ IF f = "err" \/ HashAt(View(f), c.hr) = 0 THEN \E cb \in CbRes : RpcFail(f, cb)
       ELSE /\ c' = [c EXCEPT !.bh = HashAt(View(f), c.hr), !.pc = "c3", !.stale = @ \/ f = "stale"]
            /\ Tok([a |-> "rpc", f |-> f, cb |-> ""]) /\ UNCHANGED rep
    /\ EnvKeep /\ UNCHANGED <<polls, wh, v>>

RpcC3(f) == \* GetTxOut
    /\ c.pc = "c3" /\ UseFault(f)
    /\ LET vw == View(f)
           r == [c EXCEPT !.stale = @ \/ f = "stale"]
           k == Depth(vw) IN
       IF f = "err" THEN \E cb \in CbRes : RpcFail(f, cb)
       ELSE /\ UNCHANGED rep /\ Tok([a |-> "rpc", f |-> f, cb |-> ""])
            /\ IF spent \/ ~bcast THEN c' = [r EXCEPT !.pc = "c6"]                \* nil answer: scan the range
               ELSE IF vw[Len(vw)].id # c.bh \/ k = 0 THEN c' = CIdle(r)            \* out of sync / mempool
               ELSE IF k = 1 THEN c' = [r EXCEPT !.fs = c.hr, !.th = c.bh, !.pc = "c5"]
               ELSE c' = [r EXCEPT !.fs = c.hr + 1 - k, !.pc = "c4"]
    /\ EnvKeep /\ UNCHANGED <<polls, wh, v>>

RpcC4(f) == \* GetBlockHash(fs)
    /\ c.pc = "c4" /\ UseFault(f)
    /\ IF f = "err" \/ HashAt(View(f), c.fs) = 0 THEN \E cb \in CbRes : RpcFail(f, cb)
       ELSE /\ c' = [c EXCEPT !.th = HashAt(View(f), c.fs), !.pc = "c5", !.stale = @ \/ f = "stale"]
            /\ Tok([a |-> "rpc", f |-> f, cb |-> ""]) /\ UNCHANGED rep
    /\ EnvKeep /\ UNCHANGED <<polls, wh, v>>

RpcC5(f) == \* GetRawtransactionWithBlockHash(tx, th): any known block answers, also a reorganised-out one
    /\ c.pc = "c5" /\ f # "stale" /\ UseFault(f)
    /\ IF f = "err" \/ c.th \notin txb THEN \E cb \in CbRes : RpcFail(f, cb)
       ELSE Decide(c, c.fs, f)
    /\ EnvKeep /\ UNCHANGED <<polls, wh, v>>

RpcC6(f) == \* IsTxInRange(start, hr): 2 calls per block, modelled as one answer (fresh, or failing at its first call)
    /\ c.pc = "c6" /\ f # "stale" /\ UseFault(f)
    /\ LET vw == View(f)
           r == [c EXCEPT !.stale = @ \/ f = "stale"]
           hit == {i \in c.start..c.hr : i >= 1 /\ i <= Len(vw) /\ vw[i].tx} IN
       IF f = "err" \/ c.hr < c.start \/ c.start < 1 THEN \E cb \in CbRes : RpcFail(f, cb)
       ELSE IF hit # {} THEN Decide(r, CHOOSE i \in hit : TRUE, f)
       ELSE IF c.hr > Len(vw) THEN \E cb \in CbRes : RpcFail(f, cb)
       ELSE /\ c' = CIdle(r) /\ UNCHANGED rep /\ Tok([a |-> "rpc", f |-> f, cb |-> ""])
    /\ EnvKeep /\ UNCHANGED <<polls, wh, v>>

\* csv: AddWaitForCsvTx checks at once (checkTxAboveCsvHight), HandleCsvTx on every tick
AddV_Rpc ==
    /\ Kind = "rpc" /\ Idle /\ v.st = "none"
    /\ v' = [V0 EXCEPT !.st = "live", !.pc = "v1", !.seen = Now]
    /\ Tok([a |-> "addv"])
    /\ EnvKeep /\ UNCHANGED <<bud, polls, wh, c, rep>>

CsvTick ==
    /\ Kind = "rpc" /\ Idle /\ v.st = "live" /\ bud.tick < MaxTick
    /\ v' = [v EXCEPT !.pc = "v1", !.seen = Now]
    /\ bud' = [bud EXCEPT !.tick = @ + 1]
    /\ Tok([a |-> "csvtick"])
    /\ EnvKeep /\ UNCHANGED <<polls, wh, c, rep>>

RpcV1(f) == \* GetTxOut: the observation; the callback is a later step of its own
    /\ v.pc = "v1" /\ UseFault(f)
    /\ LET vw == View(f) IN
       /\ v' = IF f # "err" /\ ~spent /\ bcast /\ Depth(vw) >= Csv
               THEN [v EXCEPT !.pc = "v2", !.stale = (f = "stale")]
               ELSE VIdle(v)
       /\ UNCHANGED rep /\ Tok([a |-> "rpc", f |-> f, cb |-> ""])
    /\ EnvKeep /\ UNCHANGED <<polls, wh, c>>

\* csvPassedCallback. AddWaitForCsvTx hands it to a goroutine of its own (the caller holds the swap's mutex) and
\* registers the output only if it fails; HandleCsvTx calls it after releasing the watcher's lock and removes the
\* entry if it succeeds. Either way the chain may move between the observation and the callback (v.seen grows).
CbV == /\ v.pc = "v2"
       /\ \E cb \in CbRes :
             /\ RepCsv(cb, v.stale)
             /\ v' = IF cb = "ok" THEN VDone(v) ELSE VIdle(v)
             /\ Tok([a |-> "cbv", cb |-> cb])
       /\ EnvKeep /\ UNCHANGED <<bud, polls, wh, c>>

-----------------------------------------------------------------------------
(* Electrum watcher: header -> acceptBlockHeight -> subscriber.Update -> observers *)
(* Update evaluates the registered observers one after the other in the order *)
(* of registration (pc "q": waiting for its turn in the current Update).       *)
AddC_El(s) ==
    /\ Kind = "electrum" /\ Idle /\ c.st = "none"
    /\ c' = [C0 EXCEPT !.st = "live", !.start = s, !.ord = IF v.st = "none" THEN 1 ELSE 2]
    /\ Tok([a |-> "addc", start |-> s])
    /\ EnvKeep /\ UNCHANGED <<bud, polls, wh, v, rep>>
AddV_El ==
    /\ Kind = "electrum" /\ Idle /\ v.st = "none"
    /\ v' = [V0 EXCEPT !.st = "live"]
    /\ Tok([a |-> "addv"])
    /\ EnvKeep /\ UNCHANGED <<bud, polls, wh, c, rep>>

CPrep(p) == [c EXCEPT !.hn = p.h, !.last = p.h, !.seen = p.seen, !.stale = p.st]
VPrep(p) == [v EXCEPT !.hn = p.h, !.seen = p.seen, !.stale = p.st]
\* observeOpeningTX.Callback fails the registration before asking the server: tip below start is a failure, too
CFailNow(r) == r.hn < r.start \/ r.hn >= r.start + Window
FailRep(r, cb) == [reg |-> "c", res |-> "failed", h |-> r.hn, ok |-> (cb = "ok"),
                   just |-> JustConf(r.seen, r.stale, r.start)]
\* a callback that returns an error keeps the observer registered
CAfterFail(r, cb) == IF cb = "ok" THEN CDone(r) ELSE CIdle(r)
AfterC(vv) == IF vv.pc = "q" THEN [vv EXCEPT !.pc = "e3"] ELSE vv

Deliver_El(p) ==
    /\ Kind = "electrum" /\ Idle
    /\ polls' = polls \ {p}
    /\ LET cl == c.st = "live"
           vl == v.st = "live"
           old == wh > 0 /\ p.h <= wh          \* acceptBlockHeight: not a higher height, ignored
           tok == [a |-> "deliver", p |-> p.id, cb |-> ""] IN
       IF old \/ (~cl /\ ~vl)
       THEN /\ wh' = IF old THEN wh ELSE p.h
            /\ UNCHANGED <<c, v, rep>> /\ Tok(tok)
       ELSE /\ wh' = p.h
            /\ IF cl /\ (~vl \/ c.ord = 1)
               THEN LET r == CPrep(p)
                        vq == IF vl THEN [VPrep(p) EXCEPT !.pc = "q"] ELSE v IN
                    IF CFailNow(r)
                    THEN \E cb \in CbRes :
                            /\ rep' = Append(rep, FailRep(r, cb))
                            /\ c' = CAfterFail(r, cb) /\ v' = AfterC(vq)
                            /\ Tok([tok EXCEPT !.cb = cb])
                    ELSE /\ c' = [r EXCEPT !.pc = "e1"] /\ v' = vq /\ UNCHANGED rep /\ Tok(tok)
               ELSE /\ v' = [VPrep(p) EXCEPT !.pc = "e3"]
                    /\ c' = IF cl THEN [CPrep(p) EXCEPT !.pc = "q"] ELSE c
                    /\ UNCHANGED rep /\ Tok(tok)
    /\ EnvKeep /\ UNCHANGED bud

RpcE1(f) == \* GetHistory for c
    /\ c.pc = "e1" /\ UseFault(f)
    /\ LET vw == View(f)
           txh == TxH(vw)
           r == [c EXCEPT !.stale = @ \/ f = "stale"] IN
       /\ UNCHANGED rep /\ Tok([a |-> "rpc", f |-> f, cb |-> ""])
       /\ IF f # "err" /\ bcast /\ txh > 0 /\ txh <= c.hn /\ c.hn - txh + 1 >= Confs
          THEN c' = [r EXCEPT !.pc = "e2"] /\ v' = v
          ELSE c' = CIdle(r) /\ v' = AfterC(v)
    /\ EnvKeep /\ UNCHANGED <<polls, wh>>

RpcE2(f) == \* GetRawTransaction
    /\ c.pc = "e2" /\ f # "stale" /\ UseFault(f)
    /\ IF f = "err" THEN /\ c' = CIdle(c) /\ v' = AfterC(v) /\ UNCHANGED rep /\ Tok([a |-> "rpc", f |-> f, cb |-> ""])
       ELSE \E cb \in CbRes :
               /\ RepConf("confirmed", cb, c.stale)
               /\ c' = IF cb = "ok" THEN CDone(c) ELSE CIdle(c)
               /\ v' = AfterC(v)
               /\ Tok([a |-> "rpc", f |-> f, cb |-> cb])
    /\ EnvKeep /\ UNCHANGED <<polls, wh>>

RpcE3(f) == \* GetHistory for v; if c waits for its turn it starts (and may fail at once) in the same step
    /\ v.pc = "e3" /\ c.pc \in {"idle", "q"} /\ UseFault(f)
    /\ LET vw == View(f)
           txh == TxH(vw)
           hit == f # "err" /\ bcast /\ txh > 0 /\ txh <= v.hn /\ v.hn - txh + 1 >= Csv
           cq == c.pc = "q"
           cfail == cq /\ CFailNow(c) IN
       \E cb \in (IF hit THEN CbRes ELSE {""}), cb2 \in (IF cfail THEN CbRes ELSE {""}) :
          /\ v' = IF hit /\ cb = "ok" THEN VDone(v) ELSE VIdle(v)
          /\ c' = IF cfail THEN CAfterFail(c, cb2) ELSE IF cq THEN [c EXCEPT !.pc = "e1"] ELSE c
          /\ rep' = rep \o (IF hit THEN <<[reg |-> "v", res |-> "csv", h |-> 0, ok |-> (cb = "ok"),
                                           just |-> JustCsv(v.seen, v.stale \/ f = "stale")]>> ELSE <<>>)
                        \o (IF cfail THEN <<FailRep(c, cb2)>> ELSE <<>>)
          /\ sched' = sched \o <<[a |-> "rpc", f |-> f, cb |-> cb]>>
                            \o (IF cfail THEN <<[a |-> "cb", cb |-> cb2]>> ELSE <<>>)
    /\ EnvKeep /\ UNCHANGED <<polls, wh>>

-----------------------------------------------------------------------------
Starts == {Len(chain) - 1, Len(chain), Len(chain) + 1}
WatcherStep ==
    \/ \E s \in Starts : AddC_Rpc(s) \/ AddC_El(s)
    \/ AddV_Rpc \/ AddV_El \/ CsvTick \/ CbV
    \/ \E f \in Faults : Poll(f)
    \/ \E p \in polls : Deliver_Rpc(p) \/ Deliver_El(p)
    \/ \E f \in Faults : RpcK0(f) \/ RpcC1(f) \/ RpcC2(f) \/ RpcC3(f) \/ RpcC4(f) \/ RpcC5(f) \/ RpcC6(f) \/ RpcV1(f)
                         \/ RpcE1(f) \/ RpcE2(f) \/ RpcE3(f)
Next == Env \/ WatcherStep
Spec == Init /\ [][Next]_vars

-----------------------------------------------------------------------------
(* C20 *)
\* a: Confirmed only if, at some chain state between the trigger observation and the callback, the tx was on the
\*    best chain at depth >= Confs while tip < start + Window
P_C20a == \A i \in 1..Len(rep) : rep[i].res = "confirmed" => rep[i].just
\* b: once a registration has consumed a height at or past the deadline, that evaluation ends in a failure report
\*    (never in Confirmed - with a; it stays registered only if the callback itself returned an error)
LastRepC == LET I == {i \in 1..Len(rep) : rep[i].reg = "c"} IN
            IF I = {} THEN [res |-> "none", h |-> 0, ok |-> FALSE] ELSE rep[CHOOSE i \in I : \A j \in I : j <= i]
P_C20b == (c.st = "live" /\ c.pc = "idle" /\ c.last >= c.start + Window)
            => (LastRepC.res = "failed" /\ LastRepC.h = c.last /\ ~LastRepC.ok)
\* c: CsvMature only if, at some chain state between trigger and callback, the output was >= Csv deep
P_C20c == \A i \in 1..Len(rep) : rep[i].res = "csv" => rep[i].just
\* d: nothing is reported for a registration after a report whose callback returned nil
P_C20d == \A i, j \in 1..Len(rep) : (i < j /\ rep[i].reg = rep[j].reg) => ~rep[i].ok
TypeOK == /\ c.pc \in {"idle", "k0", "c1", "c2", "c3", "c4", "c5", "c6", "e1", "e2", "q"}
          /\ v.pc \in {"idle", "v1", "v2", "e3", "q"}
          /\ Cardinality({i \in 1..Len(chain) : chain[i].tx}) <= 1
=============================================================================
