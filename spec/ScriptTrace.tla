------------------------------ MODULE ScriptTrace ------------------------------
(* Code -> specification.  Every "stack"/"canon" line of the trace carries the  *)
(* verdicts of btcd's script engine on the REAL opening script (obtained through *)
(* the wallets' public functions) for one witness and every point of its grid.  *)
(*   - engine ACCEPT outside the three allowed paths          -> C02 violation  *)
(*   - engine REJECT of a canonical witness (also the ones built by the wallet's *)
(*     GetPreimageWitness / GetCooperativeWitness / GetCsvWitness) -> C02 violation *)
(*   - any other difference between the engine and Script!Accept -> drift (the   *)
(*     interpreter or the harness is wrong; reported as a machinery error)      *)
EXTENDS Script, Json, SequencesExt
Trace == ndJsonDeserialize("trace.ndjson")
VARIABLES l, viol, drift, ncases
vars == <<l, viol, drift, ncases>>
Init == l = 1 /\ viol = {} /\ drift = {} /\ ncases = 0

RECURSIVE Join(_)
Join(w) == IF w = <<>> THEN "" ELSE IF Len(w) = 1 THEN w[1] ELSE w[1] \o "," \o Join(Tail(w))
Where(e, c) == "chain=" \o c.chain \o "|flags=" \o c.flags \o "|src=" \o e.src \o "|hpre=" \o c.hpre \o "|ws=" \o c.ws
               \o "|seq=" \o c.seq.name \o "|ver=" \o ToString(c.ver)

\* one grid point of a line: c is the case as executed, okE the engine's verdict,
\* canon: the case the wallet's builder is required to satisfy (or c itself for "stack" lines)
PointViol(e, c, canon, okE) ==
    IF okE /\ ~Allowed(c) THEN {"C02|accept-outside-paths|w=" \o Join(c.w) \o "|" \o Where(e, c)}
    ELSE IF ~okE /\ IsCanonical(canon)
         THEN {"C02|canonical-rejected|" \o (IF e.kind = "canon" THEN "builder=" \o e.path ELSE "w=" \o Join(c.w)) \o "|" \o Where(e, c)}
    ELSE {}
PointDrift(e, c, okE, r) ==
    IF (\A i \in 1..Len(c.w) : c.w[i] \in Items) /\ okE # Accept(c)
    THEN {"DRIFT|engine=" \o r \o "|spec=" \o Run(c).status \o "|w=" \o Join(c.w) \o "|" \o Where(e, c)}
    ELSE {}

LineOf(e) == Line(e.kind, e.w, e.ws, e.hpre, e.flags, e.grid, e.src, e.path)
Pts(e) == Grid(e.grid)
\* the witness really executed: for "canon" lines what the wallet's builder produced
Executed(e) == IF e.kind = "canon" THEN [LineOf(e) EXCEPT !.w = e.built] ELSE LineOf(e)
Check(e) ==
    IF Len(e.r) # Len(Pts(e)) THEN [v |-> {}, d |-> {"DRIFT|result-length|w=" \o Join(e.w)}]
    ELSE [v |-> UNION {PointViol(e, CaseOf(Executed(e), Pts(e)[i]), CaseOf(LineOf(e), Pts(e)[i]), e.r[i] = "ok") : i \in 1..Len(Pts(e))},
          d |-> UNION {PointDrift(e, CaseOf(Executed(e), Pts(e)[i]), e.r[i] = "ok", e.r[i]) : i \in 1..Len(Pts(e))}]

\* contribution of one line: violations, drift, number of cases
Effect(e) ==
    CASE e.kind = "grid" -> [v |-> {}, d |-> IF e.points = Grid(e.name) THEN {} ELSE {"DRIFT|grid|" \o e.name}, n |-> 0]
      [] e.kind = "script" -> [v |-> {}, d |-> {}, n |-> 0]
      [] e.kind \in {"stack", "canon"} -> LET k == Check(e) IN [v |-> k.v, d |-> k.d, n |-> Len(e.r)]
      [] OTHER -> [v |-> {}, d |-> {"DRIFT|unknown-kind"}, n |-> 0]
Consume == /\ l <= Len(Trace)
           /\ LET k == Effect(Trace[l]) IN /\ viol' = viol \cup k.v
                                           /\ drift' = drift \cup k.d
                                           /\ ncases' = ncases + k.n
           /\ l' = l + 1
Finish == /\ l = Len(Trace) + 1
          /\ JsonSerialize("verdict.json", [n |-> Len(Trace), viol |-> SetToSeq(viol), drift |-> SetToSeq(drift), cases |-> ncases])
          /\ l' = l + 1 /\ UNCHANGED <<viol, drift, ncases>>
Next == Consume \/ Finish
===============================================================================
