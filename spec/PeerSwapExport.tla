---------------------------- MODULE PeerSwapExport ----------------------------
(* Specification -> code: while TLC explores the design model breadth-first    *)
(* (one worker), the first - hence shortest - behaviour reaching each coverage *)
(* key is written out as a schedule for the harness.                           *)
EXTENDS PeerSwapMC, Json
ASSUME TLCSet(1, {})
LastStep == IF sched = <<>> THEN <<>> ELSE
            LET s == sched[Len(sched)] IN
            <<s.a, IF "msg" \in DOMAIN s THEN <<s.msg.kind, s.msg.from, s.msg.v, s.msg.premium, s.msg.outs, s.msg.inv_msat, s.msg.inv_hash, s.msg.inv_cltv,
                                                s.msg.scid, s.msg.ver, s.msg.limit, s.msg.pubkey, s.msg.asset, s.msg.amt, s.msg.sid = "new", s.msg.raw, s.msg.raw_type>> ELSE <<>>,
              IF "faults" \in DOMAIN s THEN s.faults ELSE <<>>, IF "crash" \in DOMAIN s THEN s.crash ELSE <<>>,
              IF "n" \in DOMAIN s THEN s.n ELSE 0, IF "kind" \in DOMAIN s THEN s.kind ELSE "">>
Key == <<cf.name, LastStep, nd.up, {<<nd.disk[s].role, nd.disk[s].prev, nd.disk[s].cur>> : s \in DOMAIN nd.disk}, {nd.mem[s].cur : s \in nd.reg}, nd.predisk, viol>>
Cover ==
  IF nd.phase = "idle" /\ sched # <<>> /\ Key \notin TLCGet(1)
  THEN /\ TLCSet(1, TLCGet(1) \cup {Key})
       /\ JsonSerialize("out/s_" \o ToString(Cardinality(TLCGet(1))) \o ".json",
                        [name |-> cf.name \o ":tlc-" \o ToString(Cardinality(TLCGet(1))), chain |-> cf.chain, stored_version |-> VerStr(cf.ver), min_swap_msat |-> cf.minmsat, accept_all |-> cf.acceptall, dup_pay |-> cf.duppay, swap_vout |-> cf.vout, peer_rate |-> cf.peerrate, btc_enabled |-> Cfg.btc_enabled, lbtc_enabled |-> Cfg.lbtc_enabled, wallet_sat |-> Cfg.wallet_sat, spendable_msat |-> Cfg.spendable_msat, receivable_msat |-> Cfg.receivable_msat, steps |-> sched, expect |-> SetToSeq(viol),
                         expect_disk |-> SetToSeq({<<s, nd.disk[s].role, nd.disk[s].cur>> : s \in DOMAIN nd.disk}), expect_active |-> SetToSeq({<<s, nd.mem[s].cur>> : s \in nd.reg})])
  ELSE TRUE
===============================================================================
