CONSTANTS
  Export = TRUE
  NSeq = 5
INIT Init
NEXT Next
VIEW View
INVARIANTS
  P_C14_roundtrip
  P_C14_response
  ExportInv
POSTCONDITION ExportDone
CHECK_DEADLOCK FALSE
