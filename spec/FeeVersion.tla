------------------------------ MODULE FeeVersion ------------------------------
(* C30 - fee rates respect the node's floor; version gates are ordered.       *)
(* Pure-function corner of the technique: the specification defines the       *)
(* functions, TLC enumerates the case space and checks the order lemmas on    *)
(* the specification; every case is then evaluated by the real code           *)
(* (onchain.BitcoinOnChain.GetFee, onchain.DetermineFeeFloor,                 *)
(* version.CompareVersionStrings) and the recorded answers are validated      *)
(* against this module by FeeVersionTrace.                                    *)
EXTENDS Integers, Sequences, TLC, FiniteSetsExt, SequencesExt

Max2(a, b) == IF a >= b THEN a ELSE b

(* ---- fee rate ---- *)
\* sat/kw the node uses, given the estimator's answer
SpecRate(err, est, fallback, floor) ==
    Max2(floor, IF err \/ est = 0 THEN fallback ELSE est)
\* fee in sat for a tx of `size` vbytes (sat/kw * 4 / 1000 = sat/vb, truncated)
SpecFee(rate, size) == (4 * rate * size) \div 1000
\* the code computes in float64: an exactly integral product may be
\* represented just below the integer, so one unit of slack exactly there
FeeOK(got, rate, size) ==
    IF (4 * rate * size) % 1000 = 0 THEN got \in {SpecFee(rate, size) - 1, SpecFee(rate, size)}
    ELSE got = SpecFee(rate, size)

(* ---- fee floor by Bitcoin Core version ---- *)
SpecFloor(hasVersion, major, minor) ==
    IF hasVersion /\ (major > 29 \/ (major = 29 /\ minor >= 2)) THEN 25 ELSE 253

(* ---- version strings ---- *)
\* a version string is rendered from tokens; numeric tokens are its components
Pad(t, n) == t \o [i \in 1..(n - Len(t)) |-> 0]
RECURSIVE LexGE(_, _)
LexGE(a, b) == IF a = <<>> THEN TRUE
               ELSE IF Head(a) > Head(b) THEN TRUE
               ELSE IF Head(a) < Head(b) THEN FALSE
               ELSE LexGE(Tail(a), Tail(b))
\* a >= b on numeric components with missing components as zero
SpecGE(a, b) == LET n == Max2(Len(a), Len(b)) IN LexGE(Pad(a, n), Pad(b, n))

(* ---- case space ---- *)
EstRates  == {0, 1, 24, 25, 26, 252, 253, 254, 1000, 25000}
Floors    == {25, 253}
Fallbacks == {0, 100, 253, 300, 12500}
Sizes     == {1, 110, 288, 350, 1000, 10000}
FeeCases  == {[kind |-> "fee", err |-> e, est |-> r, fallback |-> fb, floor |-> fl, size |-> sz] :
                e \in BOOLEAN, r \in EstRates, fb \in Fallbacks, fl \in Floors, sz \in Sizes}

Majors == {0, 22, 28, 29, 30, 100}
Minors == {0, 1, 2, 3, 11}
FloorStrings ==
    {[kind |-> "floor", s |-> pre \o ToString(ma) \o "." \o ToString(mi) \o suf, has |-> TRUE, major |-> ma, minor |-> mi] :
        pre \in {"", "/Satoshi:", "v"}, ma \in Majors, mi \in Minors, suf \in {"", ".0", ".1/", "rc1"}}
    \cup {[kind |-> "floor", s |-> pre \o ToString(ma) \o suf, has |-> TRUE, major |-> ma, minor |-> 0] :
        pre \in {"", "/Satoshi:"}, ma \in Majors, suf \in {"", "/", "-beta"}}
    \cup {[kind |-> "floor", s |-> g, has |-> FALSE, major |-> 0, minor |-> 0] : g \in {"", "unknown", "/Satoshi:/", "v.x"}}

Comps == {<<>>, <<0>>, <<1>>, <<0, 1>>, <<1, 0>>, <<1, 0, 0>>, <<0, 10>>, <<0, 9>>, <<22, 11>>, <<22, 11, 1>>,
          <<22, 2>>, <<23>>, <<2, 0, 0, 1>>, <<10, 0>>, <<9, 99>>}
RECURSIVE Render(_, _)
Render(t, sep) == IF t = <<>> THEN "" ELSE IF Len(t) = 1 THEN ToString(t[1])
                  ELSE ToString(t[1]) \o sep \o Render(Tail(t), sep)
VStrings == {[s |-> pre \o Render(t, ".") \o suf, t |-> t] : pre \in {"", "v"}, t \in Comps, suf \in {"", "-beta"}}
            \cup {[s |-> "v" \o Render(t, ".") \o "rc" \o ToString(k), t |-> t \o <<k>>] : t \in {<<22, 11>>, <<0, 1>>}, k \in {1, 2}}
CmpCases == {[kind |-> "cmp", a |-> x.s, b |-> y.s, ta |-> x.t, tb |-> y.t] : x \in VStrings, y \in VStrings}

(* ---- lemmas about the specification itself (checked by TLC) ---- *)
AllT == {x.t : x \in VStrings}
Canon(t) == Pad(t, 5)
LemmaRateFloor  == \A c \in FeeCases : SpecRate(c.err, c.est, c.fallback, c.floor) >= c.floor
LemmaFallback   == \A c \in FeeCases : (c.err \/ c.est = 0) => SpecRate(c.err, c.est, c.fallback, c.floor) = Max2(c.floor, c.fallback)
LemmaReflexive  == \A a \in AllT : SpecGE(a, a)
LemmaTotal      == \A a, b \in AllT : SpecGE(a, b) \/ SpecGE(b, a)
LemmaTransitive == \A a, b, c \in AllT : SpecGE(a, b) /\ SpecGE(b, c) => SpecGE(a, c)
LemmaAntisym    == \A a, b \in AllT : SpecGE(a, b) /\ SpecGE(b, a) => Canon(a) = Canon(b)
===============================================================================
