------------------------------ MODULE PolicyTrace ------------------------------
(* Code -> specification.  Every line of trace.ndjson is one step of the REAL  *)
(* policy.Policy on a real file: "init" (a pre-existing file was loaded) or    *)
(* "op" (one public operation).  The step is judged by Policy!Judge with the   *)
(* policy observed in memory before it, the logged operation/argument/result,  *)
(* the policy observed in memory after it (Get()), the policy a fresh          *)
(* CreateFromFile of the file yields after it, and whether the file changed;   *)
(* the answers IsPeerAllowed / IsPeerSuspicious / NewSwapsAllowed gave after   *)
(* it are judged by JudgeQueries.  Violations accumulate; nothing stops.       *)
(* An init line whose observed policy differs from Parse(abstract file) is a   *)
(* MODEL mismatch (the design-level Parse is wrong), not a property violation. *)
EXTENDS Policy, Json, SequencesExt
Trace == ndJsonDeserialize("trace.ndjson")

VARIABLES l, prev, dirty, viol, at
vars == <<l, prev, dirty, viol, at>>

\* a line is a flat record: ma/ms (ds/da) = allowlist / suspicious list in memory (in a fresh load of the
\* file) as bit masks over Names, mw/dw the new-swaps switch, mc/dc accept_all_peers, mr/dr the rest,
\* dk = the fresh load succeeded, qa/qs/qw = answers of IsPeerAllowed / IsPeerSuspicious over Probes,
\* NewSwapsAllowed
Names == <<"A", "B", "C", Garbage>>
Probes == {"A", "B", "C"}
Pow2(k) == IF k = 1 THEN 1 ELSE IF k = 2 THEN 2 ELSE IF k = 3 THEN 4 ELSE 8
SetOf(mask) == {Names[k] : k \in {j \in 1..4 : (mask \div Pow2(j)) % 2 = 1}}
Mem(e)  == [allow |-> SetOf(e.ma), susp |-> SetOf(e.ms), swaps |-> e.mw, acc |-> e.mc, rest |-> e.mr]
Disk(e) == [ok |-> e.dk, pol |-> [allow |-> SetOf(e.da), susp |-> SetOf(e.ds), swaps |-> e.dw, acc |-> e.dc, rest |-> e.dr]]
Queries(e, mem) == JudgeQueries(mem, Probes, SetOf(e.qa), SetOf(e.qs), e.qw)
File0(c) == (CHOOSE i \in InitFiles : i.cls = c).file

Init == l = 1 /\ prev = DefaultPol /\ dirty = FALSE /\ viol = {} /\ at = {}

StepInit(e) ==
    LET mem == Mem(e)
        disk == Disk(e)
        d == Parse(File0(e.cls))
        vm == IF d.ok /\ d.pol = mem THEN {} ELSE {<<"MODEL", "parse">>}
        vq == Queries(e, mem)
        vd == IF DiskDiverged(mem, disk) THEN {<<"persist", "fresh-load-differs">>} ELSE {}
        vs == vm \cup vq \cup vd
    IN /\ prev' = mem
       /\ dirty' = DiskDiverged(mem, disk)
       /\ viol' = viol \cup {Sig(e.cls, "init", v) : v \in vs}
       /\ at' = at \cup {<<e.t, e.i, v[1], v[2]>> : v \in vs}

StepOp(e) ==
    LET mem == Mem(e)
        disk == Disk(e)
        vj == Judge(prev, dirty, e.op, e.arg, e.res, mem, disk, e.fchg)
        vq == IF dirty THEN {} ELSE Queries(e, mem)
        vs == vj \cup vq
    IN /\ prev' = mem
       /\ dirty' = DiskDiverged(mem, disk)
       /\ viol' = viol \cup {Sig(e.cls, e.op, v) : v \in vs}
       /\ at' = at \cup {<<e.t, e.i, v[1], v[2]>> : v \in vs}

Step == /\ l <= Len(Trace)
        /\ LET e == Trace[l] IN
             CASE e.ev = "init" -> StepInit(e)
               [] e.ev = "op" -> StepOp(e)
               [] OTHER -> /\ viol' = viol \cup {"MODEL|unknown-event"} /\ UNCHANGED <<prev, dirty, at>>
        /\ l' = l + 1

Finish == /\ l = Len(Trace) + 1
          /\ JsonSerialize("verdict.json", [n |-> Len(Trace), viol |-> SetToSeq(viol), at |-> SetToSeq(at)])
          /\ l' = l + 1 /\ UNCHANGED <<prev, dirty, viol, at>>
Next == Step \/ Finish
===============================================================================
