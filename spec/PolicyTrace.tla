------------------------------ MODULE PolicyTrace ------------------------------
(* Code -> specification.  Every line of trace.ndjson is one step of the REAL  *)
(* policy.Policy on a real file: "init" (a pre-existing file was loaded) or    *)
(* "op" (one public operation).  The step is judged by Policy!Judge with the   *)
(* policy observed in memory before it, the logged operation/argument/result,  *)
(* the policy observed in memory after it (Get()), the policy a fresh          *)
(* CreateFromFile of the file yields after it, and whether the file changed;   *)
(* the answers IsPeerAllowed / IsPeerSuspicious / NewSwapsAllowed gave after   *)
(* it are judged by JudgeQueries.  Violations accumulate; nothing stops.       *)
(* An init line whose observed policy differs from Parse(abstract file) is a   *)
(* MODEL mismatch (the design-level Parse is wrong), not a property violation. *)
EXTENDS Policy, Json, SequencesExt
Trace == ndJsonDeserialize("trace.ndjson")

VARIABLES l, prev, dirty, viol
vars == <<l, prev, dirty, viol>>
\* every flagged step <<t, i, clause, symptom>> is collected in TLC register 1 (not part of the state: the state
\* stays small however many steps are flagged) and written out in chunks at_<k>.ndjson
ASSUME TLCSet(1, <<>>) /\ TLCSet(2, 0)
FlushAt == /\ ndJsonSerialize("at_" \o ToString(TLCGet(2)) \o ".ndjson", TLCGet(1))
           /\ TLCSet(2, TLCGet(2) + 1)
           /\ TLCSet(1, <<>>)
Flag(e, vs) == IF vs = {} THEN TRUE
               ELSE /\ TLCSet(1, TLCGet(1) \o SetToSeq({[t |-> e.t, i |-> e.i, c |-> v[1], s |-> v[2]] : v \in vs}))
                    /\ (Len(TLCGet(1)) >= 5000 => FlushAt)

\* a line is a flat record: ma/ms (ds/da) = allowlist / suspicious list in memory (in a fresh load of the
\* file) as bit masks over Names, mw/dw the new-swaps switch, mc/dc accept_all_peers, mr/dr the rest,
\* dk = the fresh load succeeded, qa/qs/qw = answers of IsPeerAllowed / IsPeerSuspicious over Probes,
\* NewSwapsAllowed
Names == <<"A", "B", "C", Garbage>>
Probes == {"A", "B", "C"}
Pow2(k) == IF k = 1 THEN 1 ELSE IF k = 2 THEN 2 ELSE IF k = 3 THEN 4 ELSE 8
SetOf(mask) == {Names[k] : k \in {j \in 1..4 : (mask \div Pow2(j)) % 2 = 1}}
Mem(e)  == [allow |-> SetOf(e.ma), susp |-> SetOf(e.ms), swaps |-> e.mw, acc |-> e.mc, rest |-> e.mr]
Disk(e) == [ok |-> e.dk, pol |-> [allow |-> SetOf(e.da), susp |-> SetOf(e.ds), swaps |-> e.dw, acc |-> e.dc, rest |-> e.dr]]
Queries(e, mem) == JudgeQueries(mem, Probes, SetOf(e.qa), SetOf(e.qs), e.qw)
File0(c) == (CHOOSE i \in InitFiles : i.cls = c).file

Init == l = 1 /\ prev = DefaultPol /\ dirty = FALSE /\ viol = {}

StepInit(e) ==
    LET mem == Mem(e)
        disk == Disk(e)
        d == Parse(File0(e.cls))
        vm == IF d.ok /\ d.pol = mem THEN {} ELSE {<<"MODEL", "parse">>}
        vq == Queries(e, mem)
        vd == IF DiskDiverged(mem, disk) THEN {<<"persist", "fresh-load-differs">>} ELSE {}
        vs == vm \cup vq \cup vd
    IN /\ prev' = mem
       /\ dirty' = DiskDiverged(mem, disk)
       /\ viol' = viol \cup {Sig(e.cls, "init", v) : v \in vs}
       /\ Flag(e, vs)

StepOp(e) ==
    LET mem == Mem(e)
        disk == Disk(e)
        vj == Judge(prev, dirty, e.op, e.arg, e.res, mem, disk, e.fchg)
        vq == IF dirty THEN {} ELSE Queries(e, mem)
        vs == vj \cup vq
    IN /\ prev' = mem
       /\ dirty' = DiskDiverged(mem, disk)
       /\ viol' = viol \cup {Sig(e.cls, e.op, v) : v \in vs}
       /\ Flag(e, vs)

Step == /\ l <= Len(Trace)
        /\ LET e == Trace[l] IN
             CASE e.ev = "init" -> StepInit(e)
               [] e.ev = "op" -> StepOp(e)
               [] OTHER -> /\ viol' = viol \cup {"MODEL|unknown-event"} /\ UNCHANGED <<prev, dirty>>
        /\ l' = l + 1

Finish == /\ l = Len(Trace) + 1
          /\ FlushAt
          /\ JsonSerialize("verdict.json", [n |-> Len(Trace), viol |-> SetToSeq(viol), chunks |-> TLCGet(2)])
          /\ l' = l + 1 /\ UNCHANGED <<prev, dirty, viol>>
Next == Step \/ Finish
===============================================================================
