---------------------------- MODULE TimelockTrace ----------------------------
(* Code -> specification.  Every line of trace.ndjson is one evaluation of    *)
(* the REAL code (harness/cmd/route) on a case of TimelockMC or a seeded       *)
(* random case.  Observer: the line is compared with the operators of          *)
(* Timelock and the P_* properties are evaluated ON THE REAL ANSWER.           *)
(*   viol  : P_* violated by a real answer (signature strings; the engine      *)
(*           turns these into VIOLATION / KNOWN-FINDING)                       *)
(*   drift : the real answer differs from the specification operator without   *)
(*           breaking a P_* (the engine stops with a machinery error: the      *)
(*           specification no longer describes the code)                       *)
EXTENDS Timelock, TLC, Json, SequencesExt

Trace == ndJsonDeserialize("trace.ndjson")
VARIABLES l, viol, drift, acc, pays
vars == <<l, viol, drift, acc, pays>>
Init == l = 1 /\ viol = {} /\ drift = {} /\ acc = {} /\ pays = {}

S(x) == ToString(x)
B(b) == IF b THEN "T" ELSE "F"
SeqStr(q) == IF q = <<>> THEN "-" ELSE FoldLeft(LAMBDA a, x : a \o (IF a = "" THEN "" ELSE ",") \o x, "", q)
WireStr(g) == IF ~g.sent THEN "refused"
              ELSE "calls=" \o S(g.calls) \o ",hops=" \o S(g.hops) \o ",chans=" \o SeqStr(g.chans) \o ",dest=" \o g.dest
                   \o ",amt=" \o g.amt \o ",total=" \o g.total \o ",parts=" \o S(g.parts) \o ",delta=" \o S(g.delta) \o ",ref=" \o B(g.ref)

RouteId(e) == "via=" \o e.via \o "|backend=" \o e.backend \o "|pay=" \o e.pay \o "|payee=" \o e.payee \o "|amt=" \o e.amt
              \o "|cltv=" \o S(e.cltv) \o "|chan=" \o e.chan \o "|sp=" \o e.sp \o "|limit=" \o S(e.limit)
AnchorId(e) == "chain=" \o e.chain \o "|ver=" \o S(e.ver) \o "|set=" \o B(e.startSet) \o "|start=" \o S(e.start)
ActId(e) == "backend=" \o e.backend \o "|" \o AnchorId(e) \o "|cltv=" \o S(e.cltv)

If(c, s) == IF c THEN {s} ELSE {}
IsLiq7(e) == e.chain = "lbtc" /\ e.ver = 7
IsLiq6(e) == e.chain = "lbtc" /\ e.ver = 6
PropOf(e) == IF e.chain = "btc" THEN "C05" ELSE "C04"

(* ---- kind = route ---- *)
RouteViol(e) ==
    LET g == e.g IN
      If(~P_C24_single(e, g),  "C24|single|" \o RouteId(e) \o "|" \o WireStr(g))
      \cup If(~P_C24_channel(e, g), "C24|channel|" \o RouteId(e) \o "|" \o WireStr(g))
      \cup If(~P_C24_peer(e, g),    "C24|peer|" \o RouteId(e) \o "|" \o WireStr(g))
      \cup If(~P_C24_amount(e, g),  "C24|amount|" \o RouteId(e) \o "|" \o WireStr(g))
      \cup If(~P_C04_delta(e, g),   "C04|delta|" \o RouteId(e) \o "|" \o WireStr(g))
\* "route-delta": only the CLTV figure differs (not a subject of C24)
RouteDrift(e) ==
    LET s == Route(e.backend, e.payee, e.amt, e.cltv, e.chan, e.sp, e.limit) IN
      If(e.g # s, (IF [e.g EXCEPT !.delta = s.delta] = s THEN "route-delta|" ELSE "route|")
                  \o RouteId(e) \o "|got:" \o WireStr(e.g) \o "|want:" \o WireStr(s))

(* ---- kind = limit / policy / window / invoice ---- *)
LimitViol(e)  == If(e.allowed /\ ~PermitsTotalDelta(e.limit, e.required),
                    "C04|limit|required=" \o S(e.required) \o "|limit=" \o S(e.limit))
LimitDrift(e) == If(e.allowed # PermitsTotalDelta(e.limit, e.required),
                    "limit|required=" \o S(e.required) \o "|limit=" \o S(e.limit) \o "|got=" \o B(e.allowed))
PolStr(p) == "ok=" \o B(p.ok) \o ",csv=" \o S(p.csv) \o ",window=" \o S(p.window) \o ",invCltv=" \o S(p.invCltv)
             \o ",maxDelta=" \o S(p.maxDelta) \o ",allowNew=" \o B(p.allowNew)
\* a policy is unsafe if it is laxer than the specification's in any field
PolicyLax(g, w) ==
    IF ~w.ok THEN g.ok
    ELSE g.ok /\ \/ g.csv < w.csv
                 \/ g.window > w.window
                 \/ g.invCltv > w.invCltv
                 \/ (w.maxDelta # 0 /\ (g.maxDelta = 0 \/ g.maxDelta > w.maxDelta))
                 \/ (g.allowNew /\ ~w.allowNew)
PolicyViol(e)  == If(e.chain # "" /\ PolicyLax(e.got, Policy(e.chain, e.ver)),
                     PropOf(e) \o "|policy|chain=" \o e.chain \o "|ver=" \o S(e.ver) \o "|" \o PolStr(e.got))
PolicyDrift(e) == If(e.got # Policy(e.chain, e.ver),
                     "policy|chain=" \o e.chain \o "|ver=" \o S(e.ver) \o "|got:" \o PolStr(e.got))
WindowSpec(e) == LET p == Policy(e.chain, e.ver) IN p.ok /\ WindowOpen(e.startSet, e.start, e.tip, p.window)
WindowViol(e)  == If(IsLiq7(e) /\ e.allowed /\ ~WindowSpec(e), "C04|window|" \o AnchorId(e) \o "|tip=" \o S(e.tip))
WindowDrift(e) == If(e.allowed # WindowSpec(e), "window|" \o AnchorId(e) \o "|tip=" \o S(e.tip) \o "|got=" \o B(e.allowed))
InvoiceSpec(e) == LET p == Policy(e.chain, e.ver) IN p.ok /\ InvoiceOK(e.cltv, e.amtrel, p)
InvId(e) == "chain=" \o e.chain \o "|ver=" \o S(e.ver) \o "|type=" \o e.type \o "|premium=" \o S(e.premium)
            \o "|cltv=" \o S(e.cltv) \o "|amt=" \o e.amtrel
InvoiceViol(e)  == If(IsLiq7(e) /\ e.allowed /\ ~InvoiceSpec(e), "C04|invoice|" \o InvId(e))
InvoiceDrift(e) == If(e.allowed # InvoiceSpec(e) \/ ~e.claim_ok, "invoice|" \o InvId(e) \o "|got=" \o B(e.allowed))

(* ---- kind = await ---- *)
AwaitSpec(e) == AwaitOutcome(e.chain, e.ver, e.startSet, e.start, e.height, e.cltv, e.amtrel, e.hasTx, e.found)
AwId(e) == ActId(e) \o "|height=" \o S(e.height) \o "|amt=" \o e.amtrel \o "|tx=" \o B(e.hasTx) \o "|found=" \o B(e.found)
AwaitViol(e) ==
    LET p == Policy(e.chain, e.ver) IN
      \* this Action never creates a payment
      If(e.g.sent, PropOf(e) \o "|await-pays|" \o AwId(e) \o "|" \o WireStr(e.g))
      \cup If(IsLiq7(e) /\ e.out = "watch" /\ ~(InvoiceOK(e.cltv, e.amtrel, p) /\ WindowOpen(e.startSet, e.start, e.height, p.window)),
              "C04|await|" \o AwId(e))
      \* the watcher gets the anchor and the window for its own deadline
      \cup If(IsLiq7(e) /\ e.out = "watch" /\ (e.w_start > e.start \/ e.w_window > p.window),
              "C04|await-watcher|" \o AwId(e) \o "|start=" \o S(e.w_start) \o "|window=" \o S(e.w_window))
AwaitDrift(e) ==
    If(e.out # AwaitSpec(e), "await|" \o AwId(e) \o "|got=" \o e.out \o "|want=" \o AwaitSpec(e))
    \cup If(e.out = "watch" /\ (e.w_start # e.start \/ e.w_window # Policy(e.chain, e.ver).window),
            "await-watcher|" \o AwId(e) \o "|start=" \o S(e.w_start) \o "|window=" \o S(e.w_window))

(* ---- kind = pay ---- *)
PaySpec(e) == PayAttempt(e.chain, e.ver, e.backend, e.startSet, e.start, e.now, e.cltv)
PayId(e) == ActId(e) \o "|now=" \o S(e.now)
\* the case a pay record stands for, in the vocabulary of the route properties
PayCase(e) == [backend |-> e.backend, payee |-> "peer", amt |-> "typ", cltv |-> e.cltv, chan |-> "swap",
               limit |-> Policy(e.chain, e.ver).maxDelta]
PayViol(e) ==
    LET g == e.g
        c == PayCase(e) IN
      If(IsLiq6(e) /\ g.sent, "C04|legacy|" \o PayId(e) \o "|" \o WireStr(g))
      \cup If(IsLiq7(e) /\ g.sent /\ ~WindowOpen(e.startSet, e.start, e.now, LiqWindow), "C04|pay-window|" \o PayId(e))
      \cup If(IsLiq7(e) /\ g.sent /\ ~P_C04_delta(c, g), "C04|pay-delta|" \o PayId(e) \o "|" \o WireStr(g))
      \cup If(IsLiq7(e) /\ g.sent /\ ~P_C04_margin(e.start, e.now, ActualDelta(e.backend, e.cltv, g)),
              "C04|margin|" \o PayId(e) \o "|" \o WireStr(g))
      \cup If(~P_C24(c, g), "C24|pay|" \o PayId(e) \o "|" \o WireStr(g))
PayDrift(e) ==
    If(e.g # PaySpec(e), (IF [e.g EXCEPT !.delta = PaySpec(e).delta] = PaySpec(e) THEN "pay-delta|" ELSE "pay|")
                         \o PayId(e) \o "|got:" \o WireStr(e.g) \o "|want:" \o WireStr(PaySpec(e)))
    \cup If(e.g.sent /\ (e.attempts # 1 \/ ~e.pre_ok \/ e.ev # "Event_ActionSucceeded"), "pay-result|" \o PayId(e) \o "|ev=" \o e.ev)

(* ---- kind = retry: the tip moves between the attempts ---- *)
IntSeqStr(q) == IF q = <<>> THEN "-" ELSE FoldLeft(LAMBDA a, x : a \o (IF a = "" THEN "" ELSE ",") \o S(x), "", q)
RetryId(e) == ActId(e) \o "|heights=" \o IntSeqStr(e.heights) \o "|fails=" \o S(e.fails)
RetrySpec(e) == RetryTips(e.chain, e.ver, e.startSet, e.start, e.heights, e.fails)
RetryViol(e) ==
    \* every attempt that reached the node, judged at the tip of that moment
    If(IsLiq7(e) /\ \E i \in 1..Len(e.tips) : ~WindowOpen(e.startSet, e.start, e.tips[i], LiqWindow),
       "C04|pays-after-window|" \o RetryId(e) \o "|paid-at=" \o IntSeqStr(e.tips))
    \cup If(IsLiq6(e) /\ e.tips # <<>>, "C04|legacy|" \o RetryId(e) \o "|paid-at=" \o IntSeqStr(e.tips))
    \cup If(IsLiq7(e) /\ e.g.sent /\ ~P_C04_delta(PayCase(e), e.g), "C04|pay-delta|" \o RetryId(e) \o "|" \o WireStr(e.g))
RetryDrift(e) ==
    If(e.tips # RetrySpec(e), "retry|" \o RetryId(e) \o "|paid-at=" \o IntSeqStr(e.tips) \o "|want=" \o IntSeqStr(RetrySpec(e)))
    \cup If(e.exhausted, "attempts-exhausted|" \o RetryId(e))

Viol(e) ==
    CASE e.kind = "route"   -> RouteViol(e)
      [] e.kind = "limit"   -> LimitViol(e)
      [] e.kind = "policy"  -> PolicyViol(e)
      [] e.kind = "window"  -> WindowViol(e)
      [] e.kind = "invoice" -> InvoiceViol(e)
      [] e.kind = "await"   -> AwaitViol(e)
      [] e.kind = "pay"     -> PayViol(e)
      [] e.kind = "retry"   -> RetryViol(e)
      [] OTHER -> {"unknown-kind|" \o e.kind}
Drift(e) ==
    CASE e.kind = "route"   -> RouteDrift(e)
      [] e.kind = "limit"   -> LimitDrift(e)
      [] e.kind = "policy"  -> PolicyDrift(e)
      [] e.kind = "window"  -> WindowDrift(e)
      [] e.kind = "invoice" -> InvoiceDrift(e)
      [] e.kind = "await"   -> AwaitDrift(e)
      [] e.kind = "pay"     -> PayDrift(e)
      [] e.kind = "retry"   -> RetryDrift(e)
      [] OTHER -> {}

\* Bitcoin: invoice CLTVs the real AwaitTxConfirmationAction accepted, and the
\* payments the real ValidateTxAndPayClaimInvoiceAction created (relative to
\* the start height; dp is a true difference, wrapped tips never pay)
IsBtc7(e) == e.chain = "btc" /\ e.ver = 7
Acc(e)  == IF e.kind = "await" /\ IsBtc7(e) /\ e.out = "watch" THEN {<<e.backend, e.cltv>>} ELSE {}
Pays(e) == IF e.kind = "pay" /\ IsBtc7(e) /\ e.g.sent /\ e.start # 0
           THEN {[backend |-> e.backend, dp |-> e.now - e.start, cltv |-> e.cltv, permits |-> e.g.delta]}
           ELSE IF e.kind = "retry" /\ IsBtc7(e) /\ e.g.sent
           THEN {[backend |-> e.backend, dp |-> e.tips[i] - e.start, cltv |-> e.cltv, permits |-> e.g.delta] : i \in 1..Len(e.tips)}
           ELSE {}

Step == /\ l <= Len(Trace)
        /\ LET e == Trace[l] IN
             /\ viol' = viol \cup Viol(e)
             /\ drift' = drift \cup Drift(e)
             /\ acc' = acc \cup Acc(e)
             /\ pays' = pays \cup Pays(e)
        /\ l' = l + 1

\* P_C05_margin on the real payments: every (payment, confirmation height)
\* pair the taker can be in; a payment needs 3 confirmations first
C05Bad == {[backend |-> t.backend, dp |-> t.dp, cltv |-> t.cltv, dc |-> dc, permits |-> t.permits] :
             t \in {x \in pays : <<x.backend, x.cltv>> \in acc}, dc \in BtcConfOffs}
C05Viol == {t \in C05Bad : t.dp >= t.dc + MinConf("btc") - 1 /\ ~P_C05_margin(t.dp, t.permits, t.dc)}
C05Sig(t) == "C05|margin|backend=" \o t.backend \o "|dp=" \o S(t.dp) \o "|cltv=" \o S(t.cltv) \o "|dc=" \o S(t.dc)
             \o "|permits=" \o S(t.permits)
Finish == /\ l = Len(Trace) + 1
          /\ JsonSerialize("verdict.json",
                [n |-> Len(Trace), viol |-> SetToSeq(viol \cup {C05Sig(t) : t \in C05Viol}), drift |-> SetToSeq(drift),
                 c05 |-> SetToSeq({[backend |-> t.backend, dp |-> t.dp, cltv |-> t.cltv, dc |-> t.dc] : t \in C05Viol}),
                 npays |-> Cardinality(pays), nacc |-> Cardinality(acc)])
          /\ l' = l + 1 /\ UNCHANGED <<viol, drift, acc, pays>>
Next == Step \/ Finish
===============================================================================
