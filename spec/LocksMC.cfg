CONSTANTS
  FixAsyncCb = TRUE
  FixCbRpc = TRUE
  FixCbEl = TRUE
  FixKickoff = FALSE
  FixDispatch = TRUE
  FixPolicy = TRUE
  FixResend = TRUE
  FixRecover = TRUE
  Mode = "fine"
  Tier = "quick"
  Part = 0
  Parts = 1
INIT Init
NEXT Next
INVARIANT InvBounded
INVARIANT Collect
INVARIANT InvNoDeadlock
VIEW View
POSTCONDITION Post
CHECK_DEADLOCK FALSE
