INIT Init
NEXT Next
VIEW View
CHECK_DEADLOCK FALSE
CONSTRAINT Cover
