------------------------------- MODULE Timelock -------------------------------
(* C24, and the route-builder / arithmetic clauses of C04 and C05.            *)
(*                                                                            *)
(* This module is the specification of                                        *)
(*   - the timelock policy table              (swap/timelock.go)              *)
(*   - ValidateTotalCLTVDelta                 (swap/timelock.go)              *)
(*   - checkPaymentWindow, validateClaimInvoice and the inline Bitcoin checks *)
(*     of AwaitTxConfirmationAction / ValidateTxAndPayClaimInvoiceAction      *)
(*                                            (swap/actions.go)               *)
(*   - both direct-payment builders: buildDirectClaimRoute (clightning) and   *)
(*     buildDirectClaimPaymentRequest (lnd), as seen ON THE WIRE (sendpay     *)
(*     route / SendPaymentV2 request).                                        *)
(* TimelockMC checks the P_* properties on a design-level model of one taker  *)
(* payment (await -> confirmations -> pay attempts) and exports the case      *)
(* space; the Go harness (harness/cmd/route) evaluates every case on the real *)
(* functions / real clients over fake nodes; TimelockTrace validates the      *)
(* recorded answers against the operators below and evaluates P_* on them.    *)
(*                                                                            *)
(* Heights and CLTV values are uint32 / int32 / int64 in the code.  TLC       *)
(* integers are 32 bit, so 2^32 is the CONSTANT U32: TLC runs with a scaled   *)
(* U32 = 2^20 (the harness maps the regions around 0, U32/2 and U32 onto the  *)
(* regions around 0, 2^31 and 2^32, see harness/route/scale.go); Apalache     *)
(* (TimelockApa) uses the true 2^32.                                          *)
EXTENDS Integers, Sequences, FiniteSets

CONSTANT
    \* @type: Int;
    U32

\* type aliases for Apalache (comments for TLC)
\* @typeAlias: policy = { ok: Bool, csv: Int, window: Int, invCltv: Int, maxDelta: Int, allowNew: Bool };
\* @typeAlias: wire = { sent: Bool, calls: Int, hops: Int, chans: Seq(Str), dest: Str, amt: Str, total: Str, parts: Int, delta: Int, ref: Bool };
TimelockAliases == TRUE

H31 == U32 \div 2                 \* 2^31

\* uint32(x) for an int x (Go conversion = truncation)
Wrap(x) == x % U32
\* int32(x) for an int x
ToInt32(x) == LET w == x % U32 IN IF w >= H31 THEN w - U32 ELSE w

(* ------------------------------------------------------------------------ *)
(* constants of the code                                                    *)
BtcCSV        == 1008     \* onchain.BitcoinCsv = swap.bitcoinSwapCSV
BtcWindow     == 504      \* CSV/2
LiqCSV        == 10080    \* swap.liquidSwapCSV = 7*24*60
LiqWindow     == 60
LiqInvCltv    == 29
LiqMaxDelta   == 32
BlockPadding  == 3        \* lnd routing.BlockPadding
MinConf(chain) == IF chain = "btc" THEN 3 ELSE 2
\* given in the statement of C04: 32 Bitcoin blocks take at most 10021 minutes,
\* Liquid makes one block per minute
LiqBlocksFor32BtcBlocks == 10021

(* ------------------------------------------------------------------------ *)
(* timelock policy (getTimelockPolicy)                                      *)
\* @type: $policy;
NoPolicy == [ok |-> FALSE, csv |-> 0, window |-> 0, invCltv |-> 0, maxDelta |-> 0, allowNew |-> FALSE]
Policy(chain, ver) ==
    IF chain = "btc" /\ ver \in {6, 7}
    THEN [ok |-> TRUE, csv |-> BtcCSV, window |-> BtcWindow, invCltv |-> BtcWindow - 1, maxDelta |-> 0, allowNew |-> TRUE]
    ELSE IF chain = "lbtc" /\ ver = 6
    THEN [ok |-> TRUE, csv |-> 60, window |-> 30, invCltv |-> 29, maxDelta |-> 0, allowNew |-> FALSE]
    ELSE IF chain = "lbtc" /\ ver = 7
    THEN [ok |-> TRUE, csv |-> LiqCSV, window |-> LiqWindow, invCltv |-> LiqInvCltv, maxDelta |-> LiqMaxDelta, allowNew |-> TRUE]
    ELSE NoPolicy

(* ------------------------------------------------------------------------ *)
(* pure checks                                                              *)
\* ValidateTotalCLTVDelta(required, limit): inclusive; limit 0 = no limit
PermitsTotalDelta(limit, required) == limit = 0 \/ required <= limit

\* checkPaymentWindow: anchor <= tip < anchor + window, the sum taken in
\* uint64, i.e. WITHOUT wrap; a tip below the anchor is refused
WindowOpen(anchorSet, anchor, tip, window) ==
    anchorSet /\ tip >= anchor /\ tip < anchor + window

\* validateClaimInvoice(msat, cltv, claimSat, policy); the amount enters as
\* its relation to claimSat*1000 ("eq", "plus1", "minus1", "unit" = the sat
\* figure taken as msat) so that 64-bit amounts need not be represented
\* @type: (Int, Str, $policy) => Bool;
InvoiceOK(cltv, amtrel, policy) == cltv >= 0 /\ cltv <= policy.invCltv /\ amtrel = "eq"

(* ------------------------------------------------------------------------ *)
(* route builders                                                           *)
\* HTLC expiry delta of the single hop the node creates
RouteDelta(backend, cltv) == IF backend = "CLN" THEN cltv + 1 ELSE cltv + BlockPadding
\* Largest route delta the request handed to the node permits.  CLN: sendpay
\* takes the delay literally.  LND: CltvLimit; lnd refuses a request whose
\* CltvLimit is not GREATER than final+BlockPadding, so the builders send
\* required+1 (legacy, limit 0) resp. limit+1 (TestBuildDirectClaimPaymentRequestCLTVBoundary
\* pins 33 for limit 32); path finding then admits total deltas <= CltvLimit.
RoutePermits(backend, cltv, limit) ==
    IF backend = "CLN" THEN cltv + 1
    ELSE IF limit = 0 THEN cltv + BlockPadding + 1 ELSE limit + 1

Channels == {"swap", "second"}
PeerOf(ch) == IF ch = "swap" THEN "peer" ELSE "other"
\* short channel ids block x tx x output (swap: 700123/45/1, second: 700124/7/0)
\* in the three spellings a caller may use: 'x' (CLN), ':' (LND), mixed.
\* Literals, so that the module stays inside the fragment Apalache accepts.
ScidStr(ch, sp) ==
    IF ch = "swap"
    THEN (IF sp = "x" THEN "700123x45x1" ELSE IF sp = "colon" THEN "700123:45:1" ELSE "700123x45:1")
    ELSE (IF sp = "x" THEN "700124x7x0" ELSE IF sp = "colon" THEN "700124:7:0" ELSE "700124x7:0")
\* normal form used on the wire by both back-ends in this specification
NormScid(ch) == ScidStr(ch, "x")

\* @type: $wire;
Refused == [sent |-> FALSE, calls |-> 0, hops |-> 0, chans |-> <<>>, dest |-> "", amt |-> "", total |-> "",
            parts |-> 0, delta |-> 0, ref |-> FALSE]
\* @type: (Str, Str, Str, Int) => $wire;
Sent(ch, payee, amt, delta) ==
    [sent |-> TRUE, calls |-> 1, hops |-> 1, chans |-> <<NormScid(ch)>>, dest |-> payee, amt |-> amt, total |-> amt,
     parts |-> 1, delta |-> delta, ref |-> TRUE]

\* buildDirectClaimRoute: one hop {id = payee, channel = scid with 'x',
\* amount_msat = invoice amount, delay}; no destination check (lightningd
\* refuses a first hop whose id is not the channel peer; the route names only
\* that channel)
ClnRoute(payee, amt, cltv, ch, limit) ==
    IF limit = 0 THEN Sent(ch, payee, amt, Wrap(cltv + 1))
    ELSE IF cltv < 0 \/ cltv >= U32 - 1 THEN Refused
    ELSE IF ~PermitsTotalDelta(limit, cltv + 1) THEN Refused
    ELSE Sent(ch, payee, amt, cltv + 1)

\* payInvoiceViaChannel + buildDirectClaimPaymentRequest: CheckChannel finds
\* the channel by either pure spelling; destination must be the channel peer;
\* request = {payment_request, CltvLimit, OutgoingChanIds = [chan], MaxParts = 1}
LndRequest(payee, amt, cltv, ch, sp, limit) ==
    IF sp = "mixed" THEN Refused
    ELSE IF payee # PeerOf(ch) THEN Refused
    ELSE IF limit = 0 THEN Sent(ch, payee, amt, ToInt32(cltv + BlockPadding + 1))
    ELSE IF cltv < 0 THEN Refused
    ELSE IF cltv + BlockPadding > U32 - 1 THEN Refused
    ELSE IF ~PermitsTotalDelta(limit, cltv + BlockPadding) THEN Refused
    ELSE IF limit >= H31 - 1 THEN Refused
    ELSE Sent(ch, payee, amt, limit + 1)

\* Route(backend, invoice, scid, limit): the payment as handed to the node
Route(backend, payee, amt, cltv, ch, sp, limit) ==
    IF backend = "CLN" THEN ClnRoute(payee, amt, cltv, ch, limit)
    ELSE LndRequest(payee, amt, cltv, ch, sp, limit)

(* ---- C24 stated on a case c and an answer g (spec's or the real one) ---- *)
\* one HTLC: one payment call, one hop, a single part
\* @type: ({ backend: Str, payee: Str, amt: Str, chan: Str, a }, $wire) => Bool;
P_C24_single(c, g)  == g.sent => g.calls = 1 /\ g.hops = 1 /\ g.parts = 1
\* over the swap's own channel, whatever the spelling of the scid argument
\* @type: ({ backend: Str, payee: Str, amt: Str, chan: Str, a }, $wire) => Bool;
P_C24_channel(c, g) == g.sent => g.chans = <<NormScid(c.chan)>>
\* to the invoice's destination, which for LND must be that channel's peer;
\* CLN names the invoice's payee as the only hop over that channel
\* @type: ({ backend: Str, payee: Str, amt: Str, chan: Str, a }, $wire) => Bool;
P_C24_peer(c, g)    == g.sent => g.dest = c.payee /\ (c.backend = "LND" => c.payee = PeerOf(c.chan))
\* for the invoice's exact amount (hop amount and recorded total), as a
\* payment of exactly that invoice (request string, payment hash, secret)
\* @type: ({ backend: Str, payee: Str, amt: Str, chan: Str, a }, $wire) => Bool;
P_C24_amount(c, g)  == g.sent => g.amt = c.amt /\ g.total = c.amt /\ g.ref
\* @type: ({ backend: Str, payee: Str, amt: Str, chan: Str, a }, $wire) => Bool;
P_C24(c, g) == P_C24_single(c, g) /\ P_C24_channel(c, g) /\ P_C24_peer(c, g) /\ P_C24_amount(c, g)

(* ---- C04 (route clause): a limited payment never exceeds the limit ---- *)
\* the HTLC actually created (CLN: delay on the wire; LND: final+BlockPadding,
\* the request's CltvLimit being at most limit+1 by lnd's strict convention)
WireDeltaOK(backend, cltv, limit, wire) ==
    IF backend = "CLN" THEN wire <= limit
    ELSE wire <= limit + 1 /\ cltv + BlockPadding <= limit
\* @type: ({ backend: Str, cltv: Int, limit: Int, a }, $wire) => Bool;
P_C04_delta(c, g) == (g.sent /\ c.limit # 0) => (c.cltv >= 0 /\ WireDeltaOK(c.backend, c.cltv, c.limit, g.delta))

(* ------------------------------------------------------------------------ *)
(* the two taker Actions around the claim payment                           *)
\* AwaitTxConfirmationAction: "watch" (opening tx handed to the watcher),
\* "recovered" (legacy Liquid: follows an existing payment), "failed"
AwaitOutcome(chain, ver, startSet, start, height, cltv, amtrel, hasTx, found) ==
    LET pol == Policy(chain, ver) IN
    IF ~pol.ok THEN "failed"
    ELSE IF ~pol.allowNew THEN (IF hasTx /\ found THEN "recovered" ELSE "failed")
    ELSE IF chain = "btc" THEN
        \* cltv > CSV/2 refused (so 504 is accepted, one more than the policy's
        \* InvoiceFinalCLTV 503, and negative values pass); start 0 = unset;
        \* start + CSV/2 in uint32
        IF cltv > BtcCSV \div 2 \/ amtrel # "eq" \/ start = 0 \/ height >= Wrap(start + BtcCSV \div 2)
        THEN "failed" ELSE "watch"
    ELSE IF InvoiceOK(cltv, amtrel, pol) /\ WindowOpen(startSet, start, height, pol.window)
    THEN "watch" ELSE "failed"

\* ValidateTxAndPayClaimInvoiceAction, one attempt at tip `now`:
\* the route answer, or Refused; legacy Liquid never creates a payment
PayOK(chain, ver, startSet, start, now) ==
    LET pol == Policy(chain, ver) IN
    /\ pol.ok /\ pol.allowNew
    /\ IF chain = "btc" THEN ~(Wrap(now - start) > BtcCSV \div 2)      \* uint32 subtraction
       ELSE WindowOpen(startSet, start, now, pol.window)
PayAttempt(chain, ver, backend, startSet, start, now, cltv) ==
    IF PayOK(chain, ver, startSet, start, now)
    THEN Route(backend, "peer", "typ", cltv, "swap", "x", Policy(chain, ver).maxDelta)
    ELSE Refused

\* the hop delta behind a wire answer g for an invoice CLTV
\* @type: (Str, Int, $wire) => Int;
ActualDelta(backend, cltv, g) == IF backend = "CLN" THEN g.delta ELSE cltv + BlockPadding
\* confirmation height of the opening transaction relative to the taker's
\* start: a swap-out maker knows the taker key from the request and can
\* confirm before the taker takes its start height (-2)
BtcConfOffs == (-2 .. 6) \cup {500}

\* The Action's retry loop: the node fails the first `fails` attempts while the
\* tip moves (attempt i at heights[i]); the window is re-checked per attempt,
\* so attempts are made exactly at the longest prefix of heights inside it
\* @type: (Str, Int, Bool, Int, Seq(Int), Int) => Int;
RetryCount(chain, ver, startSet, start, heights, fails) ==
    LET m == IF fails + 1 < Len(heights) THEN fails + 1 ELSE Len(heights)
    IN Cardinality({i \in 1..m : \A j \in 1..i : PayOK(chain, ver, startSet, start, heights[j])})
\* @type: (Str, Int, Bool, Int, Seq(Int), Int) => Seq(Int);
RetryTips(chain, ver, startSet, start, heights, fails) ==
    SubSeq(heights, 1, RetryCount(chain, ver, startSet, start, heights, fails))

(* ---- C04 / C05 margins ---- *)
\* C04: Liquid v7.  A payment made at Liquid tip `tip` with a route delta of
\* at most 32 Bitcoin blocks resolves within 10021 Liquid blocks; the opening
\* transaction cannot confirm before anchor+1 (the anchor is taken before the
\* maker may broadcast), so the maker's CSV refund cannot confirm before
\* (anchor+1)+10080.
P_C04_margin(anchor, tip, delta) ==
    delta <= LiqMaxDelta /\ tip + LiqBlocksFor32BtcBlocks < (anchor + 1) + LiqCSV
\* C05: Bitcoin.  HTLC settles at the latest at p + permits; the refund can
\* confirm in block conf + 1008 at the earliest.  Strict.
P_C05_margin(p, permits, conf) == p + permits < conf + BtcCSV
===============================================================================
