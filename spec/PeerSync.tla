------------------------------- MODULE PeerSync -------------------------------
(* C28 - peer-sync keeps an accurate, persistent view of peers                *)
(* C26 - (peer-sync clause) a suspicious peer is neither answered nor stored  *)
(*                                                                            *)
(* State machine of peersync.PeerSync / Store / poller (peerswap, /repo).     *)
(* One abstract operation per linearization point of the real code:           *)
(*   RxPoll / RxReq   messageHandler.processMessage (poll / request_poll)     *)
(*   PollAll(force)   poller.pollPeers                                        *)
(*   Cleanup          poller.cleanupExpired -> Store.CleanupExpiredExcept     *)
(*   Restart(init)    close + reopen the bbolt store, new PeerSync (+ the     *)
(*                    start-up request round performInitialSync when init)    *)
(*   Connect / Disconnect   the Lightning node's ListPeers answer changes     *)
(*   Tick(d)          the clock advances by d units                           *)
(*   Suspect(p)       policy.AddToSuspiciousPeerList                          *)
(*   Inject(p, rec)   Store.SavePeerState of an arbitrary record (pre-        *)
(*                    existing store content; save -> load round trip)        *)
(*   ListFail(b)      the node's ListPeers RPC starts / stops failing         *)
(* The module is written functionally: Apply(s, op) is the design (what the   *)
(* code is expected to do), Violated(pre, op, post, ob) evaluates the named   *)
(* properties P_* on ONE step given as pre-state, operation, post-state and   *)
(* observation.  PeerSyncMC checks the P_* on every step of the design for    *)
(* all operation sequences within a bound; PeerSyncTrace evaluates the very   *)
(* same predicates on every step the real code performed.                     *)
(*                                                                            *)
(* Time: one unit = 5 s.  The code compares real ages with strict < / >; the  *)
(* harness moves real timestamps d*5 s + 10 ms into the past per Tick(d), so  *)
(* a logical age that equals a bound is, in real time, just beyond it:        *)
(* Elapsed is >= on logical ages.                                             *)
EXTENDS Integers, Sequences, FiniteSets, TLC

Own     == 7      \* swap.PEERSWAP_PROTOCOL_VERSION
PollIv  == 2      \* SyncLogic.pollInterval        10 s
ReqIv   == 120    \* PeerSync.requestPollInterval  10 min
Timeout == 360    \* PeerSync.cleanupTimeout       30 min
Stale   == 180    \* Timeout / 2 (poller.capabilityIsStale)
Never   == -999999

(* ---- capabilities and records ---- *)
ZeroCap == [ver |-> 0, assets |-> {}, allowed |-> FALSE, rates |-> <<0, 0, 0, 0>>]
\* store.go hasCapabilityData: an all-zero capability is stored as "no capability"
HasData(c) == c # ZeroCap

\* operations: [k, p, d, flag, pay, rec]; pay = [valid, bad, cap] for RxPoll / RxReq,
\* rec = [cap, status, obsAge, pollAge, addr] for Inject, the defaults elsewhere
NoPay == [valid |-> FALSE, bad |-> "", cap |-> ZeroCap]
NoRec == [cap |-> ZeroCap, status |-> "unknown", obsAge |-> -1, pollAge |-> -1, addr |-> ""]

(* ---- partial functions peer -> value ---- *)
EmptyF == [x \in {} |-> 0]
Get(f, p) == IF p \in DOMAIN f THEN f[p] ELSE Never
Put(f, p, v) == [x \in DOMAIN f \cup {p} |-> IF x = p THEN v ELSE f[x]]
PutAll(f, S, v) == [x \in DOMAIN f \cup S |-> IF x \in S THEN v ELSE f[x]]
Drop(f, S) == [x \in DOMAIN f \ S |-> f[x]]
Keep(f, S) == [x \in DOMAIN f \cap S |-> f[x]]

Elapsed(now, t, B) == t # Never /\ now - t >= B

(* ---- state ---- *)
\* clock    logical time
\* conn     peers the Lightning node lists as connected
\* susp     peers on the policy's suspicious list
\* stored   peer -> [cap, status, obs (lastObservedAt), poll (lastPollAt), addr]
\* lastReq  the poller's in-memory lastRequestedAt map
\* lf       the Lightning node's ListPeers RPC currently fails
\* g1, g2   history variables for the rate-limit clause (see P_C28_ratelimit):
\*          derived from the messages seen on the wire, never from lastReq
MkState(clock, conn, susp, stored, lastReq, g1, g2, lf) ==
    [clock |-> clock, conn |-> conn, susp |-> susp, stored |-> stored, lastReq |-> lastReq, g1 |-> g1, g2 |-> g2, lf |-> lf]
Init0 == MkState(0, {}, {}, EmptyF, EmptyF, EmptyF, EmptyF, FALSE)
Known(s) == DOMAIN s.stored

Msg(to, ty) == [to |-> to, type |-> ty]
Count(bag, m) == IF m \in DOMAIN bag THEN bag[m] ELSE 0
BagOfSet(S) == [m \in S |-> 1]

(* ---- the design ---- *)
\* SyncLogic.MergeCapabilities: the stored capability is kept only against a
\* strictly lower advertised version; an equal version updates.
Merge(s, p, c) ==
    IF p \in Known(s) /\ HasData(s.stored[p].cap) /\ c.ver < s.stored[p].cap.ver
    THEN s.stored[p].cap ELSE c

StoreCap(s, p, c) ==
    Put(s.stored, p, [cap    |-> Merge(s, p, c),
                      status |-> "active",
                      obs    |-> s.clock,
                      poll   |-> IF p \in Known(s) THEN s.stored[p].poll ELSE Never,
                      addr   |-> IF p \in Known(s) THEN s.stored[p].addr ELSE ""])

RecOf(s, r) == [cap |-> r.cap, status |-> r.status,
                obs  |-> IF r.obsAge < 0 THEN Never ELSE s.clock - r.obsAge,
                poll |-> IF r.pollAge < 0 THEN Never ELSE s.clock - r.pollAge,
                addr |-> r.addr]

SpecCompat(s) == {p \in Known(s) : s.stored[p].cap.ver = Own}

R(s, stored, lastReq, msgs) ==
    [st |-> MkState(s.clock, s.conn, s.susp, stored, lastReq, s.g1, s.g2, s.lf), msgs |-> BagOfSet(msgs)]

ApplyPollAll(s, force) ==
    LET known  == Known(s)
        due(p) == force \/ (s.stored[p].status # "expired"
                            /\ (s.stored[p].poll = Never \/ Elapsed(s.clock, s.stored[p].poll, PollIv)))
        polled == {p \in known : due(p) /\ p \notin s.susp}
        ty(p)  == IF Elapsed(s.clock, s.stored[p].obs, Stale) THEN "request_poll" ELSE "poll"
        stored == [p \in known |-> IF p \in polled THEN [s.stored[p] EXCEPT !.poll = s.clock] ELSE s.stored[p]]
        pruned == Keep(s.lastReq, s.conn)
        cand   == (s.conn \ known) \ s.susp
        req    == {p \in cand : force \/ Get(pruned, p) = Never \/ Elapsed(s.clock, pruned[p], ReqIv)}
    IN IF s.lf  \* the connected peers cannot be listed: no pruning, no requests to unknown peers
       THEN R(s, stored, s.lastReq, {Msg(p, ty(p)) : p \in polled})
       ELSE R(s, stored, PutAll(pruned, req, s.clock),
              {Msg(p, ty(p)) : p \in polled} \cup {Msg(p, "request_poll") : p \in req})

ApplyCleanup(s) ==
    LET gone == {p \in Known(s) \ s.conn : Elapsed(s.clock, s.stored[p].obs, Timeout)}
    IN IF s.lf THEN R(s, s.stored, s.lastReq, {})   \* sweep skipped: who is connected is unknown
       ELSE R(s, Drop(s.stored, gone), s.lastReq, {})

Apply(s, op) ==
    CASE op.k = "RxPoll" ->
            IF ~op.pay.valid \/ op.p \in s.susp THEN R(s, s.stored, s.lastReq, {})
            ELSE R(s, StoreCap(s, op.p, op.pay.cap), s.lastReq, {})
      [] op.k = "RxReq" ->
            IF op.p \in s.susp THEN R(s, s.stored, s.lastReq, {})
            ELSE R(s, IF op.pay.valid THEN StoreCap(s, op.p, op.pay.cap) ELSE s.stored, s.lastReq, {Msg(op.p, "poll")})
      [] op.k = "PollAll" -> ApplyPollAll(s, op.flag)
      [] op.k = "Cleanup" -> ApplyCleanup(s)
      [] op.k = "Restart" ->
            R(s, s.stored, EmptyF, IF op.flag /\ ~s.lf THEN {Msg(p, "request_poll") : p \in s.conn \ s.susp} ELSE {})
      [] op.k = "Connect" ->
            [st |-> [s EXCEPT !.conn = @ \cup {op.p}], msgs |-> EmptyF]
      [] op.k = "Disconnect" ->
            [st |-> [s EXCEPT !.conn = @ \ {op.p}], msgs |-> EmptyF]
      [] op.k = "Tick" ->
            [st |-> [s EXCEPT !.clock = @ + op.d], msgs |-> EmptyF]
      [] op.k = "Suspect" ->
            [st |-> [s EXCEPT !.susp = @ \cup {op.p}], msgs |-> EmptyF]
      [] op.k = "Inject" ->
            R(s, Put(s.stored, op.p, RecOf(s, op.rec)), s.lastReq, {})
      [] op.k = "ListFail" ->
            [st |-> [s EXCEPT !.lf = op.flag], msgs |-> EmptyF]
      [] OTHER -> [st |-> s, msgs |-> EmptyF]

(* ---- history variables of the rate-limit clause ---- *)
\* reqd: unknown connected peers that were sent a request_poll in this step.
\* g1[p]: time of the last such request in p's current connection and this
\*        process (forgotten at Disconnect(p) and at Restart)      - upper bound
\* g2[p]: time of the last such request not yet followed by a poll round that
\*        saw p absent (forgotten there and at Restart)            - lower bound
\* Requests of the start-up round (Restart with init) are not poll-loop requests.
Reqd(pre, msgs) == {p \in pre.conn \ Known(pre) : Count(msgs, Msg(p, "request_poll")) > 0}
Ghost(pre, op, msgs, post) ==
    LET reqd == IF op.k = "Restart" THEN {} ELSE Reqd(pre, msgs)
        g1 == IF op.k = "Restart" THEN EmptyF
              ELSE IF op.k = "Disconnect" THEN Drop(pre.g1, {op.p})
              ELSE PutAll(pre.g1, reqd, pre.clock)
        g2 == IF op.k = "Restart" THEN EmptyF
              ELSE IF op.k = "PollAll" /\ ~pre.lf THEN PutAll(Keep(pre.g2, pre.conn), reqd, pre.clock)
              ELSE PutAll(pre.g2, reqd, pre.clock)
    IN MkState(post.clock, post.conn, post.susp, post.stored, post.lastReq, g1, g2, post.lf)

Step(s, op) == LET r == Apply(s, op) IN [st |-> Ghost(s, op, r.msgs, r.st), msgs |-> r.msgs]

(* ---- the properties, one per clause of the statements ---- *)
IsRx(op) == op.k \in {"RxPoll", "RxReq"}

\* C28 clause 1: "a peer's stored capability reflects its most recent poll unless
\* that poll advertises a lower protocol version".  Inductive form over
\* histories: a well-formed poll or request_poll from a non-suspicious peer
\* leaves that peer stored with the advertised capability, or with the
\* capability already stored when the advertised version is lower than the
\* stored one (equal versions update); no other step creates a record or
\* changes a stored capability.  Reading: "poll" = a message whose payload
\* parses (an unparsable payload advertises nothing; the package tests pin that
\* it is not stored); suspicious peers are left to C26; Inject to P_C28_reload.
MergeOK(pre, op, post, p) ==
    IF IsRx(op) /\ op.p = p
    THEN IF p \in pre.susp THEN TRUE
         ELSE IF op.pay.valid THEN p \in Known(post) /\ post.stored[p].cap = Merge(pre, p, op.pay.cap)
         ELSE (p \in Known(post) => p \in Known(pre) /\ post.stored[p].cap = pre.stored[p].cap)
    ELSE IF op.k = "Inject" /\ op.p = p THEN TRUE
    ELSE (p \in Known(post) => p \in Known(pre) /\ post.stored[p].cap = pre.stored[p].cap)
P_C28_merge(pre, op, post) ==
    \A p \in Known(pre) \cup Known(post) \cup (IF IsRx(op) THEN {op.p} ELSE {}) : MergeOK(pre, op, post, p)

\* C28 clause 2: "stored peer records reload unchanged": closing and reopening
\* the store yields the same records (every field), re-saving every loaded
\* record leaves the database bytes unchanged (ob.fix: save -> load -> save is a
\* fixpoint), and a record saved through the store API loads with every field
\* as saved (an all-zero capability and "no capability" are the same record).
P_C28_reload(pre, op, post, ob) ==
    /\ op.k = "Restart" => ob.fix /\ post.stored = pre.stored
    /\ op.k = "Inject"  => op.p \in Known(post) /\ post.stored[op.p] = RecOf(pre, op.rec)

\* C28 clause 3: "expired peers are removed only while disconnected": a record
\* disappears only in a cleanup sweep, only if its last observation is older
\* than the timeout, and only if the peer is not connected at that time.
P_C28_cleanup(pre, op, post) ==
    \A p \in Known(pre) \ Known(post) :
        /\ op.k = "Cleanup"
        /\ p \notin pre.conn
        /\ Elapsed(pre.clock, pre.stored[p].obs, Timeout)

\* C28 clause 4: "poll requests to unknown connected peers are sent at most once
\* per request interval unless forced".  Upper bound: in one step an unknown
\* connected peer gets at most one request_poll, and a non-forced one only if no
\* request went to it earlier in this connection (and process), or that one is at
\* least a request interval old.  Reading: the interval restarts when the peer
\* disconnects or the node restarts (the code keeps the request times in memory
\* and forgets a peer once a poll round sees it absent; the package tests pin
\* "reconnect resets the rate limit"); the start-up request round is not a
\* poll-loop request.
P_C28_ratelimit(pre, op, ob) ==
    op.k # "Restart" =>
        \A p \in pre.conn \ Known(pre) :
            LET n == Count(ob.msgs, Msg(p, "request_poll")) IN
            /\ n <= 1
            /\ (n = 1 /\ ~(op.k = "PollAll" /\ op.flag) /\ Get(pre.g1, p) # Never)
                   => Elapsed(pre.clock, pre.g1[p], ReqIv)
\* ... "unless forced" / requests are sent: a poll round does send a request to
\* every unknown connected non-suspicious peer when it is forced, when the peer
\* was not requested since a poll round last saw it absent, or when that request
\* is an interval old (pinned by TestForcePollBypassesRequestRateLimit,
\* TestRequestRateLimitClearsOnDisconnect, TestPollAllPeersRequestsUnknownConnectedPeers).
P_C28_request_due(pre, op, ob) ==
    (op.k = "PollAll" /\ ~pre.lf) =>   \* (a round that cannot list the connected peers knows none)
        \A p \in (pre.conn \ Known(pre)) \ pre.susp :
            (op.flag \/ Get(pre.g2, p) = Never \/ Elapsed(pre.clock, pre.g2[p], ReqIv))
                => Count(ob.msgs, Msg(p, "request_poll")) >= 1

\* C28 clause 5: "a peer counts as peerswap-compatible only if its stored
\* capability has this node's protocol version" (ob.compat: peers for which
\* HasCompatiblePeer answers true or which CompatiblePeers lists).
P_C28_compat(post, ob) ==
    \A p \in ob.compat : p \in Known(post) /\ post.stored[p].cap.ver = Own

\* C26, peer-sync clause: "peer-sync neither answers it nor stores its
\* capabilities": a poll or request_poll from a suspicious peer sends nothing to
\* that peer and leaves its record (or its absence) exactly as it was.
P_C26_peersync(pre, op, post, ob) ==
    (IsRx(op) /\ op.p \in pre.susp) =>
        /\ \A m \in DOMAIN ob.msgs : m.to # op.p
        /\ IF op.p \in Known(pre) THEN op.p \in Known(post) /\ post.stored[op.p] = pre.stored[op.p]
           ELSE op.p \notin Known(post)

PropNames == {"P_C28_merge", "P_C28_reload", "P_C28_cleanup", "P_C28_ratelimit", "P_C28_request_due",
              "P_C28_compat", "P_C26_peersync"}
Violated(pre, op, post, ob) ==
    (IF P_C28_merge(pre, op, post) THEN {} ELSE {"P_C28_merge"})
    \cup (IF P_C28_reload(pre, op, post, ob) THEN {} ELSE {"P_C28_reload"})
    \cup (IF P_C28_cleanup(pre, op, post) THEN {} ELSE {"P_C28_cleanup"})
    \cup (IF P_C28_ratelimit(pre, op, ob) THEN {} ELSE {"P_C28_ratelimit"})
    \cup (IF P_C28_request_due(pre, op, ob) THEN {} ELSE {"P_C28_request_due"})
    \cup (IF P_C28_compat(post, ob) THEN {} ELSE {"P_C28_compat"})
    \cup (IF P_C26_peersync(pre, op, post, ob) THEN {} ELSE {"P_C26_peersync"})

(* ---- conformance (strict): the step is the design's step ---- *)
SameCore(a, b) == /\ a.clock = b.clock /\ a.conn = b.conn /\ a.susp = b.susp
                  /\ a.stored = b.stored /\ a.lastReq = b.lastReq /\ a.lf = b.lf
Conforms(pre, op, post, ob) ==
    LET r == Apply(pre, op) IN
    /\ SameCore(r.st, post)
    /\ ob.msgs = r.msgs
    /\ ob.compat = SpecCompat(r.st)
    /\ ob.fix

(* ---- the stored record format (store.go peerRecord, omitempty) ---- *)
\* what a save writes, field by field; load reads it back; an all-zero
\* capability is not distinguishable from none
Encode(r) == [status |-> r.status, obs |-> r.obs, poll |-> r.poll, addr |-> r.addr,
              ver |-> r.cap.ver, assets |-> r.cap.assets, allowed |-> r.cap.allowed, rates |-> r.cap.rates]
Decode(d) == [cap |-> IF d.ver # 0 \/ d.assets # {} \/ d.allowed \/ d.rates # <<0, 0, 0, 0>>
                      THEN [ver |-> d.ver, assets |-> d.assets, allowed |-> d.allowed, rates |-> d.rates]
                      ELSE ZeroCap,
              status |-> IF d.status = "" THEN "unknown" ELSE d.status,
              obs |-> d.obs, poll |-> d.poll, addr |-> d.addr]
===============================================================================
