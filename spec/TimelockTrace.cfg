CONSTANTS
    U32 = 1048576
INIT Init
NEXT Next
CHECK_DEADLOCK FALSE
