-------------------------------- MODULE Policy --------------------------------
(* C25 - policy changes apply immediately and survive a reload.               *)
(*                                                                            *)
(* Two layers:                                                                *)
(*  - the PROPERTY layer: an abstract policy (sets of peers, the new-swaps    *)
(*    switch, the untouched rest), the abstract effect Abs of every public    *)
(*    operation, and Judge, which decides for ONE step (operation, result,    *)
(*    policy in memory after it, policy a fresh load of the file yields       *)
(*    after it) which clause of the statement it breaks.  Judge is used       *)
(*    verbatim by PolicyMC (on the design-level machine below) and by         *)
(*    PolicyTrace (on steps recorded from the real policy.Policy).            *)
(*  - the DESIGN layer: the policy file as a sequence of abstract lines, the  *)
(*    in-memory policy, and the operations as the line edits policy.go        *)
(*    performs (append a line; drop the lines textually equal to a canonical  *)
(*    line; re-parse the whole file).                                         *)
EXTENDS Integers, Sequences, FiniteSets, TLC

CONSTANTS Valid      \* abstract names of well-formed pubkeys (66 lower-case hex), e.g. {"A","B"}

Garbage == "?"       \* any list entry that is not one of the named peers

(* ========================= PROPERTY LAYER ================================= *)
\* pol = [allow, susp : sets of names; swaps, acc : BOOLEAN; rest : "min_swap_amount_msat/reserve_onchain_msat"]
DefaultPol == [allow |-> {}, susp |-> {}, swaps |-> TRUE, acc |-> FALSE, rest |-> "100000000/0"]

\* what the next request sees
Allowed(pol, p)    == pol.acc \/ p \in pol.allow
Suspicious(pol, p) == p \in pol.susp
NewSwaps(pol)      == pol.swaps

Ops == {"add_allow", "rm_allow", "add_susp", "rm_susp", "disable", "enable", "reload", "restart"}

\* Abs: the effect the statement demands. want = "ok": must succeed with this effect;
\* "err": must be rejected without changing anything (invalid pubkey, duplicate addition);
\* "any": the statement does not say whether the call reports an error (removing a peer
\* that is not listed) - only that the policy is what it was.
Abs(pol, op, arg) ==
    CASE op = "add_allow" ->
            IF arg \notin Valid \/ arg \in pol.allow THEN [pol |-> pol, want |-> "err"]
            ELSE [pol |-> [pol EXCEPT !.allow = @ \cup {arg}], want |-> "ok"]
      [] op = "add_susp" ->
            IF arg \notin Valid \/ arg \in pol.susp THEN [pol |-> pol, want |-> "err"]
            ELSE [pol |-> [pol EXCEPT !.susp = @ \cup {arg}], want |-> "ok"]
      [] op = "rm_allow" ->
            IF arg \notin Valid THEN [pol |-> pol, want |-> "err"]
            ELSE IF arg \notin pol.allow THEN [pol |-> pol, want |-> "any"]
            ELSE [pol |-> [pol EXCEPT !.allow = @ \ {arg}], want |-> "ok"]
      [] op = "rm_susp" ->
            IF arg \notin Valid THEN [pol |-> pol, want |-> "err"]
            ELSE IF arg \notin pol.susp THEN [pol |-> pol, want |-> "any"]
            ELSE [pol |-> [pol EXCEPT !.susp = @ \ {arg}], want |-> "ok"]
      [] op = "disable" -> [pol |-> [pol EXCEPT !.swaps = FALSE], want |-> "ok"]
      [] op = "enable"  -> [pol |-> [pol EXCEPT !.swaps = TRUE], want |-> "ok"]
      [] OTHER -> [pol |-> pol, want |-> "ok"]          \* reload, restart

\* first field in which two policies differ ("none" if equal)
Diff(a, b) ==
    IF a.allow # b.allow THEN "allow"
    ELSE IF a.susp # b.susp THEN "susp"
    ELSE IF a.swaps # b.swaps THEN "swaps"
    ELSE IF a.acc # b.acc \/ a.rest # b.rest THEN "other"
    ELSE "none"

\* disk = [ok |-> a fresh CreateFromFile of the file succeeded, pol |-> what it yields]
DiskDiverged(mem, disk) == ~disk.ok \/ Diff(disk.pol, mem) # "none"

\* Judge one step.  prev: policy in memory before the step; dirty: the file already
\* diverged from memory before the step (reported when it happened; while it lasts nothing
\* else is judged, so one defect is reported once).  Result: set of <<clause, symptom>>.
\*   clause "effect"  - P_C25_Effect : a valid change takes effect for the next request
\*   clause "reject"  - P_C25_Reject : invalid pubkeys / duplicate additions are rejected
\*                                     and change neither memory nor the file
\*   clause "persist" - P_C25_Persist: the change is in the file: a fresh load of the file
\*                                     (= restart) and a reload yield the policy in memory
Judge(prev, dirty, op, arg, res, mem, disk, fchg) ==
    LET a == Abs(prev, op, arg)
        reload == op \in {"reload", "restart"}
        vReject ==
            IF a.want # "err" THEN {}
            ELSE (IF res = "ok" THEN {<<"reject", "accepted">>} ELSE {})
                 \cup (IF fchg THEN {<<"reject", "file-changed">>} ELSE {})
                 \cup (IF Diff(mem, prev) # "none" THEN {<<"reject", "mem-" \o Diff(mem, prev)>>} ELSE {})
        vEffect ==
            IF a.want = "err" \/ reload THEN {}
            ELSE (IF a.want = "ok" /\ res # "ok" THEN {<<"effect", "refused">>} ELSE {})
                 \cup (IF Diff(mem, a.pol) # "none" THEN {<<"effect", "diff-" \o Diff(mem, a.pol)>>} ELSE {})
        vReload ==
            IF ~reload THEN {}
            ELSE (IF res # "ok" THEN {<<"persist", "reload-failed">>} ELSE {})
                 \cup (IF Diff(mem, prev) # "none" THEN {<<"persist", "reload-diff-" \o Diff(mem, prev)>>} ELSE {})
        vDisk ==
            IF ~disk.ok THEN {<<"persist", "file-unloadable">>}
            ELSE IF Diff(disk.pol, mem) # "none" THEN {<<"persist", "file-diff-" \o Diff(disk.pol, mem)>>}
            ELSE {}
    IN IF dirty THEN {} ELSE vReject \cup vEffect \cup vReload \cup vDisk

\* the answers given to the next request must be those of the policy in memory
\* (allowedq / suspq: the sets of probed peers answered TRUE, probes: the peers asked)
JudgeQueries(mem, probes, allowedq, suspq, swapsq) ==
    (IF allowedq # {p \in probes : Allowed(mem, p)} THEN {<<"effect", "query-allowed">>} ELSE {})
    \cup (IF suspq # {p \in probes : Suspicious(mem, p)} THEN {<<"effect", "query-suspicious">>} ELSE {})
    \cup (IF swapsq # NewSwaps(mem) THEN {<<"effect", "query-newswaps">>} ELSE {})

Sig(cls, op, v) == "C25|" \o v[1] \o "|pre=" \o cls \o "|op=" \o op \o "|" \o v[2]

(* =========================== DESIGN LAYER ================================= *)
\* A line of the file: [k, v, form].
\*   k: "allow" | "susp" (v = peer name), "swaps" | "acc" (v = "true"/"false"), "minswap" (v = digits),
\*      "comment", "unknown" (a key peerswap does not know), "blank", "section" ([v] header).
\*   form: "canon" (key=value, exactly what policy.go writes), "spaced" (key = value),
\*      "quoted" (key="value")
L(k, v, form) == [k |-> k, v |-> v, form |-> form]
Canon(k, v)   == L(k, v, "canon")

\* addLineToFile: appends `line` + newline with O_APPEND; if the file is not empty and does not end in a
\* newline, a newline is written first, so the new line is never glued to the last one
\* (repo commit "fix: append policy entries on their own line also when the file lacks a final newline")
AppendLine(f, n, line) == Append(f, line)

\* removeLineFromFile: drops exactly the lines whose text equals the canonical line and
\* rewrites every other line followed by a newline
RemoveCanon(f, k, v) == SelectSeq(f, LAMBDA l : ~(l.k = k /\ l.v = v /\ l.form = "canon"))

\* the ini parser: list keys accumulate, scalar keys last-wins, everything after a section
\* header of an unknown group is ignored (a line of a kind not listed above would fail the whole load)
RECURSIVE ParseFrom(_, _, _, _)
ParseFrom(f, i, acc, insec) ==
    IF i > Len(f) THEN [ok |-> TRUE, pol |-> acc]
    ELSE LET l == f[i] IN
         IF l.k = "section" THEN ParseFrom(f, i + 1, acc, TRUE)
         ELSE IF insec \/ l.k \in {"comment", "unknown", "blank"} THEN ParseFrom(f, i + 1, acc, insec)
         ELSE IF l.k = "allow" THEN ParseFrom(f, i + 1, [acc EXCEPT !.allow = @ \cup {l.v}], insec)
         ELSE IF l.k = "susp" THEN ParseFrom(f, i + 1, [acc EXCEPT !.susp = @ \cup {l.v}], insec)
         ELSE IF l.k = "swaps" THEN ParseFrom(f, i + 1, [acc EXCEPT !.swaps = (l.v = "true")], insec)
         ELSE IF l.k = "acc" THEN ParseFrom(f, i + 1, [acc EXCEPT !.acc = (l.v = "true")], insec)
         ELSE IF l.k = "minswap" THEN ParseFrom(f, i + 1, [acc EXCEPT !.rest = l.v \o "/0"], insec)
         ELSE [ok |-> FALSE, pol |-> DefaultPol]
Parse(f) == ParseFrom(f, 1, DefaultPol, FALSE)

\* the operations of policy.go on (file f, ends-in-newline n, memory m):
\* result [f, n, m, res]
Rejected(f, n, m) == [f |-> f, n |-> n, m |-> m, res |-> "err"]
Reloaded(f, n, m) == LET d == Parse(f) IN
                     IF d.ok THEN [f |-> f, n |-> n, m |-> d.pol, res |-> "ok"]
                     ELSE [f |-> f, n |-> n, m |-> m, res |-> "err"]
ExecAdd(f, n, m, k, arg) ==
    IF arg \in m[k] THEN Rejected(f, n, m)                      \* "already listed"
    ELSE IF arg \notin Valid THEN Rejected(f, n, m)            \* isValidPubkey
    ELSE Reloaded(AppendLine(f, n, Canon(k, arg)), TRUE, m)
ExecRm(f, n, m, k, arg) ==
    IF arg \notin Valid THEN Rejected(f, n, m)
    ELSE IF arg \notin m[k] THEN Rejected(f, n, m)             \* "not in list"
    ELSE Reloaded(RemoveCanon(f, k, arg), TRUE, m)
ExecSwitch(f, n, m, on) ==
    IF m.swaps = on THEN [f |-> f, n |-> n, m |-> m, res |-> "ok"]
    ELSE Reloaded(AppendLine(RemoveCanon(f, "swaps", IF on THEN "false" ELSE "true"), TRUE,
                             Canon("swaps", IF on THEN "true" ELSE "false")), TRUE, m)
Exec(f, n, m, op, arg) ==
    CASE op = "add_allow" -> ExecAdd(f, n, m, "allow", arg)
      [] op = "add_susp"  -> ExecAdd(f, n, m, "susp", arg)
      [] op = "rm_allow"  -> ExecRm(f, n, m, "allow", arg)
      [] op = "rm_susp"   -> ExecRm(f, n, m, "susp", arg)
      [] op = "disable"   -> ExecSwitch(f, n, m, FALSE)
      [] op = "enable"    -> ExecSwitch(f, n, m, TRUE)
      [] OTHER            -> Reloaded(f, n, m)                  \* reload; restart = CreateFromFile

(* ---- pre-existing file contents, by class ---- *)
A == "A"
B == "B"
Cmt == L("comment", "", "canon")
Unk == L("unknown", "", "canon")
InitFiles == {
    [cls |-> "empty",              nl |-> TRUE,  file |-> <<>>],
    [cls |-> "canonical-lists",    nl |-> TRUE,  file |-> <<Canon("allow", A), Canon("allow", B), Canon("susp", A)>>],
    [cls |-> "canonical-off",      nl |-> TRUE,  file |-> <<Canon("swaps", "false"), Canon("allow", A)>>],
    [cls |-> "canonical-on",       nl |-> TRUE,  file |-> <<Canon("susp", B), Canon("swaps", "true")>>],
    [cls |-> "canonical-other",    nl |-> TRUE,  file |-> <<Canon("minswap", "5000"), Canon("allow", B), Canon("acc", "false")>>],
    [cls |-> "accept-all",         nl |-> TRUE,  file |-> <<Canon("acc", "true"), Canon("allow", A)>>],
    [cls |-> "unknown-keys",       nl |-> TRUE,  file |-> <<Unk, Canon("allow", A), Unk, Canon("susp", B)>>],
    [cls |-> "comments",           nl |-> TRUE,  file |-> <<Cmt, Canon("allow", B), L("blank", "", "canon"), L("comment", A, "canon"), Canon("susp", A)>>],
    [cls |-> "dup-lists",          nl |-> TRUE,  file |-> <<Canon("allow", A), Canon("allow", A), Canon("susp", B), Canon("susp", B)>>],
    [cls |-> "dup-swaps-on",       nl |-> TRUE,  file |-> <<Canon("swaps", "false"), Canon("swaps", "true")>>],
    [cls |-> "dup-swaps-off",      nl |-> TRUE,  file |-> <<Canon("swaps", "true"), Canon("swaps", "false"), Canon("swaps", "false")>>],
    [cls |-> "spaced-allow",       nl |-> TRUE,  file |-> <<L("allow", A, "spaced"), Canon("susp", B)>>],
    [cls |-> "spaced-susp",        nl |-> TRUE,  file |-> <<Canon("allow", A), L("susp", B, "spaced")>>],
    [cls |-> "spaced-swaps-on",    nl |-> TRUE,  file |-> <<L("swaps", "true", "spaced"), Canon("allow", A)>>],
    [cls |-> "spaced-swaps-off",   nl |-> TRUE,  file |-> <<L("swaps", "false", "spaced"), Canon("allow", A)>>],
    [cls |-> "quoted-allow",       nl |-> TRUE,  file |-> <<L("allow", A, "quoted"), Canon("susp", B)>>],
    [cls |-> "section",            nl |-> TRUE,  file |-> <<Canon("allow", A), L("section", "extra", "canon"), Unk>>],
    [cls |-> "nonl-allow",         nl |-> FALSE, file |-> <<Canon("susp", B), Canon("allow", A)>>],
    [cls |-> "nonl-susp",          nl |-> FALSE, file |-> <<Canon("allow", A), Canon("susp", B)>>],
    [cls |-> "nonl-swaps-off",     nl |-> FALSE, file |-> <<Canon("allow", A), Canon("swaps", "false")>>],
    [cls |-> "nonl-swaps-on",      nl |-> FALSE, file |-> <<Canon("allow", A), Canon("swaps", "true")>>],
    [cls |-> "nonl-other",         nl |-> FALSE, file |-> <<Canon("allow", A), Canon("minswap", "5000")>>],
    [cls |-> "nonl-comment",       nl |-> FALSE, file |-> <<Canon("allow", A), Cmt>>],
    [cls |-> "nonl-unknown",       nl |-> FALSE, file |-> <<Canon("susp", A), Unk>>] }

\* every line the node itself could have written plus lines it copies verbatim
CanonicalClasses == {"empty", "canonical-lists", "canonical-off", "canonical-on", "canonical-other",
                     "accept-all", "unknown-keys", "comments", "dup-lists", "dup-swaps-on", "dup-swaps-off"}
\* canonical lines but no newline at the end of the file
NoNewlineClasses == {"nonl-allow", "nonl-susp", "nonl-swaps-off", "nonl-swaps-on", "nonl-other", "nonl-comment", "nonl-unknown"}
\* the classes on which the statement holds for the design as written (invariants in PolicyMC); on the
\* remaining ones (spaced / quoted entries, section header) the design breaks it in the predicted way
SoundClasses == CanonicalClasses \cup NoNewlineClasses
===============================================================================
