----------------------------- MODULE TimelockApa -----------------------------
(* Apalache: the arithmetic lemmas of C04 / C05 for ALL heights below 2^32    *)
(* (TLC checks them on boundary sets with a scaled 2^32).  One symbolic       *)
(* state: the invariants are checked on every initial state (--length=0).     *)
EXTENDS Timelock

VARIABLES
    \* @type: Int;
    st,
    \* @type: Bool;
    startSet,
    \* @type: Int;
    hAwait,
    \* @type: Int;
    payH,
    \* @type: Int;
    cf,
    \* @type: Int;
    fc,
    \* @type: Str;
    be

CInit == U32 = 4294967296

Height(h) == h \in Nat /\ h < U32
Init ==
    /\ Height(st) /\ Height(hAwait) /\ Height(payH) /\ Height(cf)
    /\ startSet \in BOOLEAN
    /\ fc \in Int /\ fc > -U32 /\ fc < 2 * U32
    /\ be \in {"CLN", "LND"}
Next == UNCHANGED <<st, startSet, hAwait, payH, cf, fc, be>>

\* C04: whatever the Liquid v7 payment Action sends lies in the window, is
\* limited to 32 blocks and resolves before the earliest refund
LiqPay == PayAttempt("lbtc", 7, be, startSet, st, payH, fc)
A_C04 ==
    LiqPay.sent =>
        /\ startSet /\ st <= payH /\ payH < st + 60
        /\ fc >= 0
        /\ WireDeltaOK(be, fc, LiqMaxDelta, LiqPay.delta)
        /\ P_C04_margin(st, payH, ActualDelta(be, fc, LiqPay))
        /\ (cf >= st + 1 => payH + LiqBlocksFor32BtcBlocks < cf + LiqCSV)
\* the await Action admits only invoices with 0 <= fc <= 29 inside the window
A_C04_await ==
    AwaitOutcome("lbtc", 7, startSet, st, hAwait, fc, "eq", FALSE, FALSE) = "watch" =>
        (startSet /\ st <= hAwait /\ hAwait < st + 60 /\ 0 <= fc /\ fc <= 29)
\* legacy Liquid never creates a payment
A_C04_legacy == ~PayAttempt("lbtc", 6, be, startSet, st, payH, fc).sent

\* C05: Bitcoin
BtcPay == PayAttempt("btc", 7, be, startSet, st, payH, fc)
BtcAccepted == AwaitOutcome("btc", 7, startSet, st, hAwait, fc, "eq", FALSE, FALSE) = "watch"
LateConf(b) == IF b = "CLN" THEN 2 ELSE 5
\* guards: an accepted invoice has fc <= 504; a payment at a height that has
\* not wrapped is at most 504 blocks after the st
A_C05_guards ==
    /\ BtcAccepted => (fc <= 504 /\ st # 0)
    /\ (BtcPay.sent /\ payH >= st) => payH - st <= 504
\* margin for every height, uint32 wrap of now-st included, provided the
\* opening transaction confirmed LateConf blocks after the st or later
A_C05_late ==
    (BtcPay.sent /\ BtcAccepted /\ fc >= 0 /\ cf - st >= LateConf(be)) =>
        P_C05_margin(payH, RoutePermits(be, fc, 0), cf)
\* and the exact boundary: with un-wrapped heights the margin fails exactly on
\* dp + permits >= dc + 1008
A_C05_boundary ==
    (BtcPay.sent /\ BtcAccepted /\ fc >= 0 /\ payH >= st) =>
        (~P_C05_margin(payH, BtcPay.delta, cf) <=> (payH - st) + RoutePermits(be, fc, 0) >= (cf - st) + BtcCSV)

\* non-vacuity / tightness: one block earlier the margin is refutable, and the
\* Liquid window cannot be one block longer (both must be VIOLATED)
T_C05_tight ==
    (BtcPay.sent /\ BtcAccepted /\ fc >= 0 /\ cf - st >= LateConf(be) - 1) =>
        P_C05_margin(payH, RoutePermits(be, fc, 0), cf)
T_C04_tight == LiqPay.sent => payH + 1 + LiqBlocksFor32BtcBlocks < (st + 1) + LiqCSV

Inv == A_C04 /\ A_C04_await /\ A_C04_legacy /\ A_C05_guards /\ A_C05_late /\ A_C05_boundary
===============================================================================
