------------------------------- MODULE ScriptMC -------------------------------
(* Design-level model checking of the interpreter and case export.             *)
(* One behaviour = the execution of the template for one case, one opcode per  *)
(* step; TLC explores every case of Lines(MaxLen, CoreLen, CoreFlags) x grid   *)
(* and checks P_C02 on every terminal state.  The lines and the grids are      *)
(* exported for the harness (one exported line = one witness with its fixed    *)
(* dimensions; it stands for one case per point of its grid).                  *)
(* quick: MaxLen = 3, CoreLen = 4, CoreFlags = {"consensus"}                   *)
(* thorough (cfg written by engines/script.py): 4, 5, {"min", "consensus"}     *)
EXTENDS Script, Json, SequencesExt
CONSTANTS MaxLen, CoreLen, CoreFlags

AllLines == Lines(MaxLen, CoreLen, CoreFlags)
GridLines == << [kind |-> "grid", name |-> "full", points |-> FullGrid],
                [kind |-> "grid", name |-> "small", points |-> SmallGrid] >>
ASSUME ndJsonSerialize("cases.ndjson", GridLines \o SetToSeq(AllLines))

VARIABLES c, st
vars == <<c, st>>
Init == /\ \E ln \in AllLines : \E i \in 1..Len(Grid(ln.grid)) : c = CaseOf(ln, Grid(ln.grid)[i])
        /\ st = InitState
Next == /\ ~Terminal(st)
        /\ st' = Step(c, st)
        /\ UNCHANGED c

TypeOK == /\ st.status \in {"init", "run", "accept", "reject"}
          /\ st.pc \in 0..(Len(Template) + 1)
          /\ \A i \in 1..Len(st.stk) : st.stk[i] \in Elems
          /\ \A i \in 1..Len(st.cond) : st.cond[i] \in BOOLEAN
          /\ Len(st.stk) <= Len(c.w) + 2 /\ Len(st.cond) <= 2
\* the abstraction of lengths and digests is sound only if EQUALVERIFY never compares two "other" values
AbstractionSound ==
    (st.status = "run" /\ st.pc <= Len(Template) /\ Template[st.pc].op = "EQUALVERIFY" /\ Executing(st) /\ Len(st.stk) >= 2)
        => Top(st) \in {"n32", "H"}
Inv_P_C02_OnlyAllowedPaths  == P_C02_OnlyAllowedPaths(c, st)
Inv_P_C02_CanonicalAccepted == P_C02_CanonicalAccepted(c, st)
Inv_P_C02_Exact             == P_C02_Exact(c, st)
\* the closure used by the trace specification is the state machine explored here
RunAgrees == Terminal(st) => Run(c).status = st.status
\* a successful run ends with the whole template consumed
AcceptAtEnd == st.status = "accept" => st.pc = Len(Template) + 1
===============================================================================
