------------------------------- MODULE SpendTx -------------------------------
(* C03 - claim / coop / CSV-refund transactions are valid and pay the node.  *)
(* C08 - the announcement (txid, vout, blinding key) describes the broadcast *)
(*       opening transaction (the invoice clauses of C08 - amount, hash,     *)
(*       expiry, final CLTV - are checked by the FSM engine, not here).      *)
(* The events judged here are observations of the REAL builders             *)
(* (clightning/lnd wallet adapters, onchain.BitcoinOnChain,                  *)
(* onchain.LiquidOnChain over wallet.ElementsRpcWallet) recorded by the      *)
(* harness cmd/tx; the facts in an event are measured on the produced        *)
(* transaction by independent means (btcd script engine with the real        *)
(* prevout, recomputed sighash + ECDSA verification, unblinding with the     *)
(* wallet's key, range/surjection proof verification, commitment tally).     *)
EXTENDS TxShape

Spends == {"preimage", "coop", "csv"}
FeeC   == {"err", "zero", "low", "normal", "huge"}
Backends(ch) == IF ch = "btc" THEN {"cln", "lnd"} ELSE {"liquid"}
ChainOf(b)   == IF b = "liquid" THEN "lbtc" ELSE "btc"
\* who builds which spend: the taker claims with the preimage; the maker
\* refunds (CSV) or closes cooperatively (with the taker's key)
SideOf(spend) == IF spend = "preimage" THEN "taker" ELSE "maker"

(* ------------------------------------------------------------ expectations *)
SpecSeq(spend, csv) == IF spend = "csv" THEN csv ELSE 0
SpecNOut(ch)        == IF ch = "btc" THEN 1 ELSE 2      \* Liquid: + explicit fee output
\* canonical witness for each path of the opening script
\*   <maker> CHECKSIG NOTIF <maker> CHECKSIG NOTIF SIZE 32 EQUALVERIFY SHA256 <h> EQUALVERIFY ENDIF
\*   <taker> CHECKSIG ELSE <csv> CSV ENDIF
SpecWitness(spend) ==
    CASE spend = "preimage" -> <<"sig_taker", "preimage", "empty", "empty", "script">>
      [] spend = "coop"     -> <<"sig_taker", "sig_maker", "empty", "script">>
      [] spend = "csv"      -> <<"sig_maker", "script">>
      [] OTHER              -> <<>>
\* "A CSV refund is valid exactly once the CSV has elapsed and not before";
\* depth = confirmations of the opening transaction at inclusion (BIP68:
\* the spend may be included once the prevout has `csv` confirmations).
SpecSpendValid(spend, depth, csv) == spend # "csv" \/ depth >= csv
Depths(csv) == {csv - 1, csv, csv + 1}

\* validity of the observed transaction at a depth: script engine verdict
\* (independent of depth; includes OP_CSV against the input's sequence) and the
\* BIP68 relative height lock of the input's sequence (version >= 2).
\* seq = -1 encodes a sequence outside 0..65535 (disabled / time based / garbage).
ValidAt(e, depth) == /\ e.eng
                     /\ e.nin = 1
                     /\ e.txver >= 2
                     /\ e.seq >= 0
                     /\ depth >= e.seq

(* ---- fee: C30's rate / fee functions (see FeeVersion.tla), restated ---- *)
Max2(a, b) == IF a >= b THEN a ELSE b
SpecRate(err, est, fallback, floor) == Max2(floor, IF err \/ est = 0 THEN fallback ELSE est)
SpecFee(rate, size) == (4 * rate * size) \div 1000
FeeSet(rate, size) == IF (4 * rate * size) % 1000 = 0
                      THEN {SpecFee(rate, size) - 1, SpecFee(rate, size)}   \* float64 slack
                      ELSE {SpecFee(rate, size)}
\* Bitcoin: "deducts only the fee": one input, one output, so everything
\* deducted is miner fee; the reading taken is that the fee is the node's fee
\* policy for the spend (C30 rate x size: stripped size + 74 for preimage/csv,
\* 250 vB for coop) plus the builder's constant 200 sat margin.
BtcMargin == 200
BtcFeeSize(spend, ssize) == IF spend = "coop" THEN 250 ELSE ssize + 74
BtcValues(e) == {e.amount - BtcMargin - f :
                    f \in FeeSet(SpecRate(e.ferr, e.est, e.fallback, e.floor), BtcFeeSize(e.spend, e.ssize))}
\* Liquid: the fee is what the wallet's GetFee answered for the spend, or the
\* builder's placeholder of 500 sat when the wallet could not answer.
LbtcPlaceholder == 500
LbtcFee(e) == IF e.wferr THEN LbtcPlaceholder ELSE e.wfee

(* --------------------------------------------------------------- P_C03 *)
\* Judged for every spend the node built (returned without error and handed to
\* the broadcast interface).  Domain: taker spends (preimage) of openings the
\* REAL validator accepted; maker spends (csv, coop) of the maker's own honest
\* funding results.  The set of reasons for which the event fails:
C03Reasons(e) ==
    LET ch == e.chain IN
    (IF e.nin = 1 /\ (e.inidx + 1) \in GoodIdx(e.outs) THEN {} ELSE {"outpoint"})
    \cup (IF e.nin = 1 /\ e.seq = SpecSeq(e.spend, e.csv) THEN {} ELSE {"sequence"})
    \cup (IF e.nout = SpecNOut(ch) /\ e.scriptok THEN {} ELSE {"outputs"})
    \cup (IF ch = "btc"
          THEN (IF e.value \in BtcValues(e) /\ e.value > 0 THEN {} ELSE {"value"})
          ELSE (IF e.value = e.amount - LbtcFee(e) /\ e.value > 0 /\ e.feeout = LbtcFee(e) /\ e.zkok
                THEN {} ELSE {"value"}))
    \cup (IF e.wit = SpecWitness(e.spend) THEN {} ELSE {"witness"})
    \cup (IF \A d \in Depths(e.csv) : ValidAt(e, d) <=> SpecSpendValid(e.spend, d, e.csv)
          THEN {} ELSE {"validity"})
C03InDomain(e) == e.built /\ (e.side = "taker" => e.vaccept)
P_C03(e) == C03InDomain(e) => C03Reasons(e) = {}

(* --------------------------------------------------------------- P_C08 *)
\* e.txidok: the returned (announced) txid is the id of the transaction that was
\* actually published (signed, as handed to the broadcast interface).
\* e.ann: returned (announced) output index, 0-based; e.swapidx: indices
\* (0-based) of the outputs of the BROADCAST transaction that carry the swap
\* script with the swap amount (Liquid: as unblinded with the announced key).
RangeOf(s) == {s[i] : i \in DOMAIN s}
C08Reasons(e) ==
    (IF e.txidok THEN {} ELSE {"txid"})
    \cup (IF e.ann \in RangeOf(e.swapidx) THEN {} ELSE {"vout"})
    \cup (IF e.chain = "lbtc" /\ ~e.blindok THEN {"blind"} ELSE {})
P_C08(e) == e.built => C08Reasons(e) = {}
\* the simulated wallet produced the funding result the schedule asked for
C08Machinery(e) == e.built => RangeOf(e.swapidx) = {i - 1 : i \in GoodIdx(e.outs)}

(* ------------------------------------------------------------ case spaces *)
VCases == {[kind |-> "v", chain |-> ch, outs |-> s] : ch \in {"btc"}, s \in Shapes("btc")}
          \cup {[kind |-> "v", chain |-> "lbtc", outs |-> s] : s \in Shapes("lbtc")}
SCasesOf(ch) ==
    {[kind |-> "s", side |-> "taker", chain |-> ch, backend |-> b, outs |-> s, spend |-> "preimage", fee |-> f] :
        b \in Backends(ch), s \in {x \in Shapes(ch) : SpecValid(x)}, f \in FeeC}
    \cup {[kind |-> "s", side |-> "maker", chain |-> ch, backend |-> b, outs |-> s, spend |-> sp, fee |-> f] :
        b \in Backends(ch), s \in Honest(ch), sp \in {"csv", "coop"}, f \in FeeC}
SCases == SCasesOf("btc") \cup SCasesOf("lbtc")
ClnVersions == {"v23.02", "v24.11"}      \* below / at-or-above the PSBT v2 gate "v23.05"
\* kinds of the wallet's funding inputs: signing a nested (p2sh-p2wkh) or legacy
\* (p2pkh) input adds a scriptSig, so the id of the signed transaction differs
\* from the id of the unsigned (prepared / PSBT) transaction
InKinds(ch) == IF ch = "btc" THEN {"p2wkh", "np2wkh", "p2pkh"} ELSE {"p2wkh"}
OCasesOf(ch) ==
    {[kind |-> "o", chain |-> ch, backend |-> b, outs |-> s, nin |-> n, ver |-> v, inkind |-> k] :
        b \in Backends(ch), s \in Honest(ch), n \in 1..3, v \in ClnVersions, k \in InKinds(ch)}
OCases == {c \in OCasesOf("btc") \cup OCasesOf("lbtc") : c.backend = "cln" \/ c.ver = "v24.11"}

(* ------------------------------------------------- lemmas (checked by TLC) *)
\* taker side: whenever the designed validator accepts, the output the designed
\* spend path uses is a good one
LemmaTakerOutpoint == \A ch \in Chains : \A s \in Shapes(ch) :
                          ImplAccept(ch, s) => ImplUseIdx(ch, s) \in GoodIdx(s)
\* maker side: on every honest funding result the designed output selection of
\* the spend paths and of the opening (announce) paths lands on the swap output
\* (before the repairs of GetVoutAndVerify / LiquidOnChain.CreateOpeningTransaction
\* the sets below were not empty: change = amount ahead of the swap output on
\* Bitcoin, every swap output not at index 0 on Liquid)
DesignSuspectsSpend(ch) == {s \in Honest(ch) : ImplUseIdx(ch, s) \notin GoodIdx(s)}
DesignAnn(ch, s) == ImplUseIdx(ch, s)
DesignSuspectsAnn(ch) == {s \in Honest(ch) : DesignAnn(ch, s) \notin GoodIdx(s)}
LemmaNoSuspects == \A ch \in Chains : DesignSuspectsSpend(ch) = {} /\ DesignSuspectsAnn(ch) = {}
\* ... including the shapes the validator refuses conservatively
LemmaDupHandled == \A ch \in Chains : \A s \in Honest(ch) :
                      ShapeClass(ch, s) # "plain" => ImplUseIdx(ch, s) \in GoodIdx(s)
\* design predictions compared with the observations (drift, never a violation)
PredBuilt(e) == e.run /\ ~(e.chain = "lbtc" /\ e.fee = "zero") /\ ImplUseIdx(e.chain, e.outs) # 0
\* the fee classes used by the harness leave a positive value (cases are not vacuous)
HarnessAmounts == {100000, 2000000000}
HarnessRates   == [err |-> 1000, zero |-> 1000, low |-> 253, normal |-> 2500, huge |-> 25000]   \* effective sat/kw
LemmaFeePositive == \A a \in HarnessAmounts : \A f \in FeeC : \A sz \in {156, 168, 250} :
                        a - BtcMargin - SpecFee(HarnessRates[f], sz) > 0
LemmaCsvExact == \A csv \in {60, 1008, 10080} : \A d \in Depths(csv) :
                    /\ SpecSpendValid("csv", d, csv) <=> d >= csv
                    /\ SpecSpendValid("preimage", d, csv) /\ SpecSpendValid("coop", d, csv)
LemmaWitness == \A sp \in Spends : Len(SpecWitness(sp)) >= 2 /\ SpecWitness(sp)[Len(SpecWitness(sp))] = "script"
===============================================================================
