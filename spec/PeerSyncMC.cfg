CONSTANTS
  Depth = 4
  Rich = FALSE
  Export = TRUE
  Focus = "all"
INIT Init
NEXT Next
VIEW View
INVARIANTS
  P_C28_merge_
  P_C28_reload_
  P_C28_cleanup_
  P_C28_ratelimit_
  P_C28_request_due_
  P_C28_compat_
  P_C26_peersync_
  TypeOK
  GhostBracket
  ExportInv
POSTCONDITION ExportDone
CHECK_DEADLOCK FALSE
