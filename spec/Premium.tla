------------------------------- MODULE Premium -------------------------------
(* C27 - premiums follow the configured rate and match what peer-sync          *)
(* advertises.                                                                *)
(*                                                                            *)
(* State: the persistent map  (owner, slot) -> rate,  owner = a peer or the   *)
(* global default, slot = (asset, direction).  Operations: set a peer rate,   *)
(* set the global rate, delete a peer rate, restart (close and reopen the     *)
(* database).  The property is the projection of that state every public      *)
(* read must show:                                                            *)
(*   P_C27_Rate     GetRate(p, s)        = Rate(db, p, s)                      *)
(*   P_C27_Default  GetDefaultRate(s)    = DefaultRate(db, s)                  *)
(*   P_C27_Compute  Compute(p, s, amt)   = Premium(amt, Rate(db, p, s))        *)
(*   P_C27_Adv      rates in the peer-sync capability message sent to p        *)
(*                                       = Rate(db, p, s) for all four slots   *)
(*   P_C27_Map      set / delete succeed and change exactly their own key;    *)
(*                  restart changes nothing                                   *)
(* Amounts (any uint64) and premiums exceed TLC's 32-bit integers: they are   *)
(* little-endian sequences of base-1000 limbs, multiplied symbolically below. *)
(* The code computes the product with arbitrary precision and saturates the   *)
(* quotient at the int64 bounds (repo commit "fix: compute premiums without   *)
(* int64 overflow (saturating)"): Compute = Saturate(Premium).                *)
EXTENDS Integers, Sequences, FiniteSets, TLC

CONSTANTS Peers        \* peers that can have a specific rate, e.g. {"P1", "P2"}

Slots   == {"btc_in", "btc_out", "lbtc_in", "lbtc_out"}
Default == "default"   \* owner of the stored global rates
None    == 2000000      \* no entry (a value outside the admissible rates -10^6..10^6; TLC cannot compare a string with a number)
Owners  == Peers \cup {Default}

BuiltIn(s) == CASE s = "btc_in" -> 0 [] s = "btc_out" -> 2000 [] s = "lbtc_in" -> 0 [] s = "lbtc_out" -> 1000
                [] OTHER -> 0

EmptyDB == [k \in Owners \X Slots |-> None]

\* the rate the node charges peer p (any peer, also one that never had an entry)
DefaultRate(db, s) == IF db[<<Default, s>>] # None THEN db[<<Default, s>>] ELSE BuiltIn(s)
Rate(db, p, s) == IF p \in Peers /\ db[<<p, s>>] # None THEN db[<<p, s>>] ELSE DefaultRate(db, s)
\* where that rate comes from
Source(db, p, s) == IF p \in Peers /\ db[<<p, s>>] # None THEN "specific"
                    ELSE IF db[<<Default, s>>] # None THEN "default" ELSE "builtin"
\* which level a (wrong) observed value g corresponds to
Classify(db, p, s, g) ==
    IF p \in Peers /\ db[<<p, s>>] # None /\ g = db[<<p, s>>] THEN "specific"
    ELSE IF db[<<Default, s>>] # None /\ g = db[<<Default, s>>] THEN "default"
    ELSE IF g = BuiltIn(s) THEN "builtin" ELSE "other"

\* ---- the property, per read: what the real code answered (got) against the map ----
P_C27_Rate(db, p, s, got)         == got = Rate(db, p, s)            \* Setting.GetRate
P_C27_Default(db, s, got)         == got = DefaultRate(db, s)        \* Setting.GetDefaultRate
P_C27_Adv(db, p, s, got)          == got = Rate(db, p, s)            \* rate advertised to p by peer-sync = rate charged to p
\* P_C27_Compute is stated after the arithmetic below

\* the operations as transitions of the map
DoSet(db, o, s, r) == [db EXCEPT ![<<o, s>>] = r]
DoDel(db, p, s)    == [db EXCEPT ![<<p, s>>] = None]
Apply(db, op, o, s, r) ==
    CASE op = "set" -> DoSet(db, o, s, r)
      [] op = "setdef" -> DoSet(db, Default, s, r)
      [] op = "del" -> DoDel(db, o, s)
      [] OTHER -> db          \* restart

(* ---------------- symbolic arithmetic on base-1000 limbs ---------------- *)
Base == 1000
RECURSIVE LimbsOf(_)
LimbsOf(n) == IF n = 0 THEN <<>> ELSE <<n % Base>> \o LimbsOf(n \div Base)
RECURSIVE Norm(_)
Norm(x) == IF x = <<>> THEN <<>> ELSE IF x[Len(x)] = 0 THEN Norm(SubSeq(x, 1, Len(x) - 1)) ELSE x
\* x * d for 0 <= d <= 1000
RECURSIVE MulD(_, _, _)
MulD(x, d, carry) == IF x = <<>> THEN LimbsOf(carry)
                     ELSE LET v == x[1] * d + carry IN <<v % Base>> \o MulD(Tail(x), d, v \div Base)
RECURSIVE AddL(_, _, _)
AddL(x, y, carry) ==
    IF x = <<>> /\ y = <<>> THEN LimbsOf(carry)
    ELSE LET a == IF x = <<>> THEN 0 ELSE x[1]
             b == IF y = <<>> THEN 0 ELSE y[1]
             v == a + b + carry
         IN <<v % Base>> \o AddL(IF x = <<>> THEN <<>> ELSE Tail(x), IF y = <<>> THEN <<>> ELSE Tail(y), v \div Base)
\* x * k for 0 <= k <= 10^6
Mul(x, k) == Norm(AddL(MulD(x, k % Base, 0), <<0>> \o MulD(x, k \div Base, 0), 0))
\* comparison of normalised limb sequences
RECURSIVE GeqFrom(_, _, _)
GeqFrom(x, y, i) == IF i = 0 THEN TRUE ELSE IF x[i] > y[i] THEN TRUE ELSE IF x[i] < y[i] THEN FALSE ELSE GeqFrom(x, y, i - 1)
Geq(x, y) == IF Len(x) # Len(y) THEN Len(x) > Len(y) ELSE GeqFrom(x, y, Len(x))
Abs(r) == IF r < 0 THEN 0 - r ELSE r
Two63 == <<808, 775, 854, 36, 372, 223, 9>>        \* 9 223 372 036 854 775 808

\* the premium: amount * rate / 10^6 truncated toward zero (on the magnitude; TLA+ \div floors)
Premium(amt, rate) ==
    LET prod == Mul(Norm(amt), Abs(rate))
        mag == IF Len(prod) <= 2 THEN <<>> ELSE SubSeq(prod, 3, Len(prod))
    IN [neg |-> rate < 0 /\ mag # <<>>, mag |-> mag]
\* the answer is an int64: a quotient outside -2^63 .. 2^63-1 is reported as the nearest bound (only possible
\* for amounts >= 2^63, which no chain can hold; within +-10^6 ppm the quotient never exceeds the amount)
MaxInt64 == <<807, 775, 854, 36, 372, 223, 9>>     \* 2^63 - 1
Saturates(amt, rate) == LET q == Premium(amt, rate) IN
                        IF q.neg THEN q.mag # Two63 /\ Geq(q.mag, Two63) ELSE Geq(q.mag, Two63)
Compute(amt, rate) == LET q == Premium(amt, rate) IN
                      IF ~Saturates(amt, rate) THEN q
                      ELSE IF q.neg THEN [neg |-> TRUE, mag |-> Two63] ELSE [neg |-> FALSE, mag |-> MaxInt64]
P_C27_Compute(db, p, s, amt, got) == got = Compute(amt, Rate(db, p, s))   \* Setting.Compute; got = [neg, mag]
\* the exact product amount * rate does not fit a signed 64-bit integer (where the code before the fix wrapped)
Overflows(amt, rate) == Geq(Mul(Norm(amt), Abs(rate)), Two63)

(* ---- the grid of the pure function: every rate x every amount ---- *)
GridRates == {-1000000, -999999, -2000, -1, 0, 1, 999, 1000, 2000, 10000, 999999, 1000000}
GridAmounts == {
    <<>>, <<1>>, <<999>>, <<0, 1>>, <<499, 499>>, <<500, 499>>, <<999, 999>>, <<0, 0, 1>>, <<1, 0, 1>>,
    <<789, 456, 123>>, <<0, 0, 100>>, <<0, 0, 0, 0, 1>>,                       \* 10^8 (1 BTC), 10^12
    <<854, 36, 372, 223, 9>>, <<855, 36, 372, 223, 9>>,                         \* floor(2^63 / 10^6) and + 1
    <<477, 685, 203, 337, 922>>, <<478, 685, 203, 337, 922>>,                   \* floor(2^63 / 10^4) and + 1
    <<0, 0, 0, 0, 100, 2>>,                                                     \* 21 * 10^14 sat = all bitcoin
    <<807, 775, 854, 36, 372, 223, 9>>, <<808, 775, 854, 36, 372, 223, 9>>,     \* 2^63 - 1, 2^63
    <<809, 775, 854, 36, 372, 223, 9>>, <<615, 551, 709, 73, 744, 446, 18>> }   \* 2^63 + 1, 2^64 - 1

\* lemmas about the specification's own arithmetic (checked by TLC in PremiumMC)
LemmaBound    == \A a \in GridAmounts, r \in GridRates : Geq(Norm(a), Premium(a, r).mag)      \* |premium| <= amount
LemmaSign     == \A a \in GridAmounts, r \in GridRates : Premium(a, r).neg => r < 0
LemmaOdd      == \A a \in GridAmounts, r \in GridRates : Premium(a, 0 - r).mag = Premium(a, r).mag   \* truncation is symmetric
LemmaIdentity == \A a \in GridAmounts : Premium(a, 1000000).mag = Norm(a) /\ Premium(a, 0).mag = <<>>
LemmaSmall    == /\ Premium(<<999, 999>>, 1) = [neg |-> FALSE, mag |-> <<>>]          \* 0.999999 -> 0
                 /\ Premium(<<999, 999>>, -1) = [neg |-> FALSE, mag |-> <<>>]         \* -0.999999 -> 0, not -1
                 /\ Premium(<<500, 499>>, 2000) = [neg |-> FALSE, mag |-> <<999>>]    \* 999.000 -> 999
                 /\ Premium(<<499, 499>>, -2000) = [neg |-> TRUE, mag |-> <<998>>]    \* -998.998 -> -998
                 /\ Premium(<<789, 456, 123>>, 999999) = [neg |-> FALSE, mag |-> <<665, 456, 123>>]
LemmaOverflow == /\ ~Overflows(<<854, 36, 372, 223, 9>>, 1000000) /\ Overflows(<<855, 36, 372, 223, 9>>, 1000000)
                 /\ ~Overflows(<<0, 0, 0, 0, 100, 2>>, 2000) /\ Overflows(<<0, 0, 0, 0, 100, 2>>, 10000)
\* the former overflow region is exact; only quotients beyond int64 saturate
LemmaSaturate == /\ Compute(<<855, 36, 372, 223, 9>>, 1000000) = [neg |-> FALSE, mag |-> <<855, 36, 372, 223, 9>>]
                 /\ Compute(<<0, 0, 0, 0, 100, 2>>, -1000000) = [neg |-> TRUE, mag |-> <<0, 0, 0, 0, 100, 2>>]
                 /\ Compute(MaxInt64, 1000000) = [neg |-> FALSE, mag |-> MaxInt64]
                 /\ Compute(Two63, 1000000) = [neg |-> FALSE, mag |-> MaxInt64]                 \* 2^63 -> saturated
                 /\ Compute(Two63, -1000000) = [neg |-> TRUE, mag |-> Two63]                    \* -2^63 fits
                 /\ Compute(<<809, 775, 854, 36, 372, 223, 9>>, -1000000) = [neg |-> TRUE, mag |-> Two63]
                 /\ Compute(<<615, 551, 709, 73, 744, 446, 18>>, 1000000) = [neg |-> FALSE, mag |-> MaxInt64]
                 /\ Compute(<<615, 551, 709, 73, 744, 446, 18>>, 999999) = [neg |-> FALSE, mag |-> MaxInt64]
                 /\ Compute(<<615, 551, 709, 73, 744, 446, 18>>, 2000) = [neg |-> FALSE, mag |-> <<103, 419, 147, 488, 893, 36>>]
                 /\ \A a \in GridAmounts, r \in GridRates : ~Geq(Norm(a), Two63) => Compute(a, r) = Premium(a, r)
===============================================================================
