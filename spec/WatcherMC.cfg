\* default configuration (= quick tier "rpc-c2"); engines/watcher.py generates one cfg per configuration
CONSTANTS
  Kind = "rpc"
  Confs = 2
  Window = 3
  Csv = 3
  L0 = 3
  MaxNew = 2
  MaxReorg = 1
  MaxFault = 1
  MaxPoll = 1
  MaxTick = 1
  CbErr = FALSE
INIT Init
NEXT Next
VIEW MCView
INVARIANT TypeOK
INVARIANT P_C20a
INVARIANT P_C20b
INVARIANT P_C20c
INVARIANT P_C20d
INVARIANT Export
CHECK_DEADLOCK FALSE
