-------------------------------- MODULE Record --------------------------------
(* C14 (clause "arbitrary field values"): the persisted swap record.            *)
(*                                                                              *)
(* The record is swap.SwapStateMachine with its swap.SwapData and the nested    *)
(* peer messages, modelled as one flat table of FIELDS; a field holds a value   *)
(* CLASS of its kind (boundary values of the Go type). The store                *)
(* (swap/store.go, bbolt bucket "swaps", key = the 32 id bytes, value =         *)
(* encoding/json of the state machine) is a state machine over two ids:         *)
(* Create / Update / Upsert(UpdateData) / Delete / Reopen(Close+Open) / Get /   *)
(* ListAll / ListAllByPeer.                                                     *)
(*                                                                              *)
(* P_C14_roundtrip: whatever Get / ListAll / ListAllByPeer return after any     *)
(* sequence of operations, including reopening the database, is the record last *)
(* written under that id, FIELD BY FIELD, with exactly these stated exceptions  *)
(* (decided by reading swap/swap.go and swap/fsm.go):                           *)
(*   E1  Data.LastErr (Go `error`, tag json:"-") is deliberately not persisted  *)
(*       as a value; its persisted form is its text in Data.LastErrString,      *)
(*       which the store makes current on every write (Create / Update:         *)
(*       SwapData.syncLastErr). A record written with LastErr # nil reloads     *)
(*       with LastErr = nil and LastErrString = LastErr.Error() (class          *)
(*       "errtext"), whatever LastErrString held before.                        *)
(*   E2  Strings are persisted as JSON text: bytes that are not valid UTF-8 are *)
(*       replaced by U+FFFD (encoding/json). Class "badutf8" reloads as class   *)
(*       "replaced" (= every invalid byte of the original replaced, nothing    *)
(*       else altered). No consumer can tell: every use of these strings either      *)
(*       JSON-encodes them again (same replacement) or parses them as hex /     *)
(*       decimal / bech32 / state name (fails the same way before and after);   *)
(*       and every string enters the node through encoding/json or protobuf,    *)
(*       which cannot produce such bytes.                                       *)
(*   E3  SwapStateMachine.States (tag json:"-"), the unexported mutex /         *)
(*       services / retry counters and SwapData.toCancel are process state, not *)
(*       swap data: the state table is re-attached at restart from Type and     *)
(*       Role (P_C14_continuation below); timers are the subject of C17.        *)
(*   E4  A nil and an empty byte slice are the same value (len 0).              *)
(* Not exceptions, hence judged: every other field, among them both heights and *)
(* the anchor flag Data.StartingBlockHeightSet (omitempty), the premiums        *)
(* (negative, extreme), amounts above 2^63, the keys, preimages, transaction    *)
(* ids, cancel messages, role, type, Previous / Current / FSMState.             *)
(*                                                                              *)
(* P_C14_reason: the cancel reason the node reports (SwapData.GetCancelMessage: *)
(* Cancel.Message, else LastErr, else LastErrString, else CancelMessage) is the  *)
(* same before and after the reload ("cancel reasons" of C14). With E1 this      *)
(* holds because every written record carries the text of LastErr.               *)
(* P_C14_continuation: the reloaded machine selects the same state table and    *)
(* the same States[Current] entry (action, events, FailOnrecover) as the        *)
(* original, namely the one FsmTables gives for (Type, Role, Current).          *)
(* P_C14_format: a record in the persisted format (Encode below: the json keys  *)
(* of the field table) that an earlier process wrote is decoded to the same     *)
(* record: the format is part of the contract of "restarted from the record".   *)
(*                                                                              *)
(* Assumed structure (no constructor or assignment in the tree produces         *)
(* otherwise; probed and reported, not judged): SwapStateMachine.Data # nil for *)
(* ListAllByPeer, and Data.LastMessage (interface, never assigned) = nil.       *)
EXTENDS Integers, Sequences, SequencesExt, FiniteSets, TLC, FsmTables

F(n, p, k, kd, oe, ps) == [name |-> n, par |-> p, key |-> k, kind |-> kd, oe |-> oe, ps |-> ps]
Msg(p, withVer) ==
    (IF withVer THEN <<F(p \o ".ProtocolVersion", p, "protocol_version", "u8", FALSE, TRUE)>> ELSE << >>)
    \o <<F(p \o ".SwapId", p, "swap_id", "idp", FALSE, TRUE)>>
Req(p) == Msg(p, TRUE) \o <<
    F(p \o ".Network", p, "network", "str", FALSE, TRUE),
    F(p \o ".Asset", p, "asset", "str", FALSE, TRUE),
    F(p \o ".Scid", p, "scid", "str", FALSE, TRUE),
    F(p \o ".Amount", p, "amount", "u64", FALSE, TRUE),
    F(p \o ".Pubkey", p, "pubkey", "str", FALSE, TRUE),
    F(p \o ".PremiumLimit", p, "acceptable_premium", "i64", FALSE, TRUE) >>

\* the field table: Go path, parent pointer, json key, kind, omitempty, persisted
FT ==
    << F("SwapId", "", "swap_id", "key", FALSE, TRUE),
       F("Data", "", "data", "ptr", FALSE, TRUE),
       F("Type", "", "type", "enum", FALSE, TRUE),
       F("Role", "", "role", "enum", FALSE, TRUE),
       F("Previous", "", "previous", "state", FALSE, TRUE),
       F("Current", "", "current", "state", FALSE, TRUE),
       F("Data.Id", "Data", "id", "idp", TRUE, TRUE),
       F("Data.SwapInRequest", "Data", "swap_in_request", "ptr", FALSE, TRUE) >>
    \o Req("Data.SwapInRequest")
    \o << F("Data.SwapInAgreement", "Data", "swap_in_agreement", "ptr", FALSE, TRUE) >>
    \o Msg("Data.SwapInAgreement", TRUE)
    \o << F("Data.SwapInAgreement.Pubkey", "Data.SwapInAgreement", "pubkey", "str", FALSE, TRUE),
          F("Data.SwapInAgreement.Premium", "Data.SwapInAgreement", "premium", "i64", FALSE, TRUE),
          F("Data.SwapOutRequest", "Data", "swap_out_request", "ptr", FALSE, TRUE) >>
    \o Req("Data.SwapOutRequest")
    \o << F("Data.SwapOutAgreement", "Data", "swap_out_agreement", "ptr", FALSE, TRUE) >>
    \o Msg("Data.SwapOutAgreement", TRUE)
    \o << F("Data.SwapOutAgreement.Pubkey", "Data.SwapOutAgreement", "pubkey", "str", FALSE, TRUE),
          F("Data.SwapOutAgreement.Payreq", "Data.SwapOutAgreement", "Payreq", "str", FALSE, TRUE),
          F("Data.SwapOutAgreement.Premium", "Data.SwapOutAgreement", "premium", "i64", FALSE, TRUE),
          F("Data.OpeningTxBroadcasted", "Data", "opening_tx_broadcasted", "ptr", FALSE, TRUE) >>
    \o Msg("Data.OpeningTxBroadcasted", FALSE)
    \o << F("Data.OpeningTxBroadcasted.Payreq", "Data.OpeningTxBroadcasted", "payreq", "str", FALSE, TRUE),
          F("Data.OpeningTxBroadcasted.TxId", "Data.OpeningTxBroadcasted", "tx_id", "str", FALSE, TRUE),
          F("Data.OpeningTxBroadcasted.ScriptOut", "Data.OpeningTxBroadcasted", "script_out", "u32", FALSE, TRUE),
          F("Data.OpeningTxBroadcasted.BlindingKey", "Data.OpeningTxBroadcasted", "blinding_key", "str", FALSE, TRUE),
          F("Data.CoopClose", "Data", "coop_close_message", "ptr", FALSE, TRUE) >>
    \o Msg("Data.CoopClose", FALSE)
    \o << F("Data.CoopClose.Message", "Data.CoopClose", "message", "str", FALSE, TRUE),
          F("Data.CoopClose.Privkey", "Data.CoopClose", "privkey", "str", FALSE, TRUE),
          F("Data.Cancel", "Data", "cancel_message_obj", "ptr", FALSE, TRUE) >>
    \o Msg("Data.Cancel", FALSE)
    \o << F("Data.Cancel.Message", "Data.Cancel", "message", "str", FALSE, TRUE),
          F("Data.CancelMessage", "Data", "cancel_message", "str", FALSE, TRUE),
          F("Data.PeerNodeId", "Data", "peer_node_id", "str", FALSE, TRUE),
          F("Data.InitiatorNodeId", "Data", "initiator_node_id", "str", FALSE, TRUE),
          F("Data.CreatedAt", "Data", "created_at", "i64", FALSE, TRUE),
          F("Data.Role", "Data", "role", "enum", FALSE, TRUE),
          F("Data.FSMState", "Data", "fsm_state", "state", FALSE, TRUE),
          F("Data.PrivkeyBytes", "Data", "private_key", "bytes", FALSE, TRUE),
          F("Data.FeePreimage", "Data", "fee_preimage", "str", FALSE, TRUE),
          F("Data.OpeningTxFee", "Data", "opening_tx_fee", "u64", FALSE, TRUE),
          F("Data.OpeningTxHex", "Data", "opening_tx_hex", "str", FALSE, TRUE),
          F("Data.StartingBlockHeight", "Data", "opening_block_height", "u32", FALSE, TRUE),
          F("Data.ClaimTxId", "Data", "claim_tx_id", "str", FALSE, TRUE),
          F("Data.ClaimPaymentHash", "Data", "claim_payment_hash", "str", FALSE, TRUE),
          F("Data.ClaimPreimage", "Data", "claim_preimage", "str", FALSE, TRUE),
          F("Data.StartingBlockHeightSet", "Data", "opening_block_height_set", "bool", TRUE, TRUE),
          F("Data.BlindingKeyHex", "Data", "blinding_key", "str", FALSE, TRUE),
          F("Data.LastMessage", "Data", "last_message", "iface", FALSE, TRUE),
          F("Data.NextMessage", "Data", "next_message", "bytes", FALSE, TRUE),
          F("Data.NextMessageType", "Data", "next_message_type", "i64", FALSE, TRUE),
          F("Data.LastErr", "Data", "-", "err", FALSE, FALSE),
          F("Data.LastErrString", "Data", "last_err", "str", TRUE, TRUE) >>

NF == Len(FT)
FieldNames == {FT[i].name : i \in 1..NF}
FI == [n \in FieldNames |-> CHOOSE i \in 1..NF : FT[i].name = n]
Kind == [n \in FieldNames |-> FT[FI[n]].kind]
Par == [n \in FieldNames |-> FT[FI[n]].par]
OmitEmpty == [n \in FieldNames |-> FT[FI[n]].oe]
Persisted == [n \in FieldNames |-> FT[FI[n]].ps]
Anc == [n \in FieldNames |->
          LET p1 == Par[n] IN
          IF p1 = "" THEN {} ELSE
          LET p2 == Par[p1] IN
          IF p2 = "" THEN {p1} ELSE {p1, p2} \cup (IF Par[p2] = "" THEN {} ELSE {Par[p2]})]

\* ---- value classes per kind (sequences: the covering set rotates through them)
StateNames == {p[2] : p \in TableStates} \ {""}
StrClasses == <<"empty", "short", "alt", "long", "nonascii", "quote", "nul", "badutf8">>
ClassSeq(kind) ==
    CASE kind = "u8" -> <<"0", "1", "typ", "max">>
      [] kind = "u32" -> <<"0", "1", "typ", "max">>
      [] kind = "u64" -> <<"0", "1", "typ", "i63", "max">>
      [] kind = "i64" -> <<"min", "-1", "0", "1", "typ", "max">>
      [] kind = "enum" -> <<"min", "-1", "0", "1", "2", "3", "max">>      \* SwapType / SwapRole: 1, 2 defined
      [] kind = "str" -> StrClasses
      [] kind = "bytes" -> <<"nil", "empty", "b32", "long">>
      [] kind = "ptr" -> <<"nil", "present">>
      [] kind = "bool" -> <<"false", "true">>
      [] kind = "err" -> <<"nil", "some">>
      [] kind = "iface" -> <<"nil">>
      [] kind = "idp" -> <<"nil", "same", "other", "zero", "ff">>
      [] kind = "key" -> <<"same">>
      [] OTHER -> << >>
\* a state field holds any string: every state name of the four tables, "" (Default), unknown names, arbitrary strings
StateSeq == StrClasses \o SetToSeq(StateNames)
Classes(f) == IF Kind[f] = "state" THEN StateSeq ELSE ClassSeq(Kind[f])
ClassSet(f) == {Classes(f)[i] : i \in 1..Len(Classes(f))}

Zero(kind) ==
    CASE kind \in {"u8", "u32", "u64", "i64", "enum"} -> "0"
      [] kind \in {"str", "state"} -> "empty"
      [] kind = "bool" -> "false"
      [] OTHER -> "nil"
IsEmptyValue(kind, c) == c = Zero(kind) \/ (kind = "bytes" /\ c = "empty")
\* E2
Wire(kind, c) == IF kind \in {"str", "state"} /\ c = "badutf8" THEN "replaced" ELSE c
\* E4
SameVal(kind, a, b) == a = b \/ (kind = "bytes" /\ {a, b} = {"nil", "empty"})

\* ---- records: [FieldNames -> class]; a field below a nil pointer has class "na"
Visible(r, f) == \A p \in Anc[f] : r[p] = "present"
Norm(r) == [f \in FieldNames |-> IF Visible(r, f) THEN r[f] ELSE "na"]

\* ---- the base record: all pointers present, typical values (records are exported as differences to it)
BaseClass(f) ==
    CASE f = "Current" -> "State_SwapInSender_AwaitClaimPayment"
      [] f = "Previous" -> "State_SwapInSender_SendTxBroadcastedMessage"
      [] f = "Data.FSMState" -> "State_SwapInSender_AwaitClaimPayment"
      [] Kind[f] \in {"u8", "u32", "u64", "i64"} -> "typ"
      [] Kind[f] = "enum" -> "1"
      [] Kind[f] = "str" -> "short"
      [] Kind[f] = "bytes" -> "b32"
      [] Kind[f] = "ptr" -> "present"
      [] Kind[f] = "bool" -> "true"
      [] Kind[f] \in {"idp", "key"} -> "same"
      [] OTHER -> "nil"
Base == [f \in FieldNames |-> BaseClass(f)]
With(r, fs) == [f \in FieldNames |-> IF f \in DOMAIN fs THEN fs[f] ELSE r[f]]
\* ---- the codec (json tags of swap/swap.go, swap/fsm.go, swap/messages.go)
\* the record as the store writes it (E1: store.go Create / Update call SwapData.syncLastErr before encoding)
Stored(r) == [f \in FieldNames |->
                IF f = "Data.LastErrString" /\ r[f] # "na" /\ r["Data.LastErr"] = "some" THEN "errtext" ELSE r[f]]
EncFields(r) == LET w == Stored(r) IN
                {f \in FieldNames : Visible(w, f) /\ Persisted[f] /\ ~(OmitEmpty[f] /\ IsEmptyValue(Kind[f], w[f]))}
Encode(r) == LET w == Stored(r) IN [f \in EncFields(r) |-> Wire(Kind[f], w[f])]
DocVisible(doc, f) == \A p \in Anc[f] : p \in DOMAIN doc /\ doc[p] = "present"
Decode(doc) == [f \in FieldNames |->
                  IF ~DocVisible(doc, f) THEN "na"
                  ELSE IF f \in DOMAIN doc THEN doc[f] ELSE Zero(Kind[f])]
\* what P_C14_roundtrip demands of a reload of r (identity but E1, E2)
Expected(r) == LET w == Stored(r) IN
               [f \in FieldNames |->
                  IF w[f] = "na" THEN "na"
                  ELSE IF ~Persisted[f] THEN Zero(Kind[f])
                  ELSE Wire(Kind[f], w[f])]
RecEq(a, b) == \A f \in FieldNames : SameVal(Kind[f], a[f], b[f])
LemmaCodec(r) == RecEq(Decode(Encode(r)), Expected(r))
\* fields a reload changes (the exceptions), as f :> class
ExpDiff(r) == LET e == Expected(r) IN [f \in {g \in FieldNames : e[g] # r[g]} |-> e[f]]

\* ---- cancel reason (swap.go GetCancelMessage: Cancel.Message, else LastErr, else LastErrString, else CancelMessage)
\* as <<field the text comes from, class of the text>>; the text of LastErr is class "errtext" wherever it stands
Reason(r) ==
    IF r["Data"] # "present" THEN <<"none", "">>
    ELSE IF r["Data.Cancel"] = "present" THEN <<"Data.Cancel.Message", r["Data.Cancel.Message"]>>
    ELSE IF r["Data.LastErr"] = "some" \/ r["Data.LastErrString"] = "errtext" THEN <<"Data.LastErr", "errtext">>
    ELSE IF r["Data.LastErrString"] # "empty" THEN <<"Data.LastErrString", r["Data.LastErrString"]>>
    ELSE <<"Data.CancelMessage", r["Data.CancelMessage"]>>
ReasonSrc(r) == Reason(r)[1]
\* design-level P_C14_reason: same source text before and after the reload (E2: as JSON text)
ReasonSurvives(r) == LET a == Reason(r) b == Reason(Expected(r)) IN
                     b[2] = Wire("str", a[2]) /\ (a[1] = b[1] \/ a[2] = "errtext")
\* ---- continuation (service.go RecoverSwaps: table by Type and Role; fsm.go Recover: States[Current])
TableOf(ty, ro) ==
    CASE ty = "1" /\ ro = "1" -> "in_sender"
      [] ty = "1" /\ ro = "2" -> "in_receiver"
      [] ty = "2" /\ ro = "1" -> "out_sender"
      [] ty = "2" /\ ro = "2" -> "out_receiver"
      [] OTHER -> ""
StateName(c) == IF c = "empty" THEN "" ELSE c      \* class of a state field -> key of the state table
Cont(r) ==
    LET tb == TableOf(r["Type"], r["Role"])
        st == StateName(r["Current"])
    IN IF tb # "" /\ <<tb, st>> \in TableStates
       THEN [table |-> tb, known |-> TRUE, action |-> ActionTable[<<tb, st>>], fail |-> <<tb, st>> \in FailOnRecover]
       ELSE [table |-> tb, known |-> FALSE, action |-> << >>, fail |-> FALSE]

\* ---- the store over Ids (bbolt iterates keys in byte order: A before B)
Ids == <<"A", "B">>
IdSet == {"A", "B"}
NoRec == 0
EmptyDisk == [i \in IdSet |-> NoRec]
\* op = [op, id, r, peer]; disk : IdSet -> record index or NoRec
OpResult(disk, o) ==
    CASE o.op = "create" -> IF disk[o.id] # NoRec THEN "exists" ELSE "ok"
      [] o.op = "update" -> IF disk[o.id] = NoRec THEN "notexist" ELSE "ok"
      [] o.op \in {"upsert", "rawput", "delete", "reopen", "reset"} -> "ok"
      [] o.op = "get" -> IF disk[o.id] = NoRec THEN "notavailable" ELSE "rec"
      [] o.op \in {"listall", "bypeer"} -> "list"
      [] OTHER -> "?"
OpDisk(disk, o) ==
    CASE o.op \in {"create", "update"} -> IF OpResult(disk, o) = "ok" THEN [disk EXCEPT ![o.id] = o.r] ELSE disk
      [] o.op \in {"upsert", "rawput"} -> [disk EXCEPT ![o.id] = o.r]
      [] o.op = "delete" -> [disk EXCEPT ![o.id] = NoRec]
      [] o.op = "reset" -> EmptyDisk
      [] OTHER -> disk
\* ids listed, in key order; peer = "" lists all. PeerOf(k) = class of the reloaded Data.PeerNodeId of record k
Listed(disk, peer, PeerOf(_)) ==
    SelectSeq(Ids, LAMBDA i : disk[i] # NoRec /\ (peer = "" \/ PeerOf(disk[i]) = peer))
===============================================================================
