INIT Init
NEXT Next
VIEW View
CHECK_DEADLOCK FALSE
CONSTRAINT Cover
INVARIANT CheckAll
PROPERTY P_D4_CoopCloseEntersQueue
POSTCONDITION PostWrite
