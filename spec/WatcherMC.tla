------------------------------ MODULE WatcherMC ------------------------------
(* Design-level model checking of Watcher (P_C20a-d over every interleaving   *)
(* of environment and watcher steps within the budgets) and schedule export   *)
(* (specification -> code): whenever an evaluation has just ended, the        *)
(* schedule that led there is printed as one JSON line, once per coverage key *)
(* (the last evaluation with everything that happened inside it, and the      *)
(* abstract situation it ended in).  The harness replays every exported       *)
(* schedule on the real watcher; pred is the sequence of reports this         *)
(* specification's watcher makes on it (compared with the real reports as a   *)
(* measure of the model's fidelity - a difference is not a violation).        *)
EXTENDS Watcher, Json
\* sched is a history variable: states are identified without it
MCView == <<chain, nid, bcast, spent, txb, bud, polls, wh, c, v, rep>>
Last == sched[Len(sched)]
Cmds == {"addc", "addv", "deliver", "csvtick"}
Ended == /\ Idle
         /\ Last.a \in {"rpc", "deliver", "cb", "cbv"}
LastCmd == CHOOSE i \in 1..Len(sched) : sched[i].a \in Cmds /\ \A j \in (i + 1)..Len(sched) : sched[j].a \notin Cmds
Clamp(x, lo, hi) == IF x < lo THEN lo ELSE IF x > hi THEN hi ELSE x
Key == <<SubSeq(sched, LastCmd, Len(sched)),
         c.st, v.st, bcast, spent,
         Clamp(Depth(chain), 0, Csv + 1),
         IF c.st = "none" THEN 9 ELSE Clamp(Len(chain) - (c.start + Window), -2, 1),
         IF TxH(chain) = 0 \/ c.st = "none" THEN 0 ELSE IF TxH(chain) < c.start THEN 1 ELSE 2,
         [i \in 1..Len(rep) |-> rep[i].res]>>
ASSUME TLCSet(1, {})
Export == Ended =>
            IF Key \in TLCGet(1) THEN TRUE
            ELSE /\ TLCSet(1, TLCGet(1) \cup {Key})
                 /\ PrintT(ToJson([s |-> sched, key |-> ToString(Key),
                                    pred |-> [i \in 1..Len(rep) |-> rep[i].reg \o "/" \o rep[i].res]]))
==============================================================================
