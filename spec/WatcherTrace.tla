----------------------------- MODULE WatcherTrace -----------------------------
(* Code -> specification (observer style).  Every line of trace.ndjson was     *)
(* written by the harness at a linearization point of the REAL watcher running *)
(* over the simulated chain: chain events (replayed here with Watcher's chain  *)
(* operators; the harness' own tip / tx height are cross-checked), additions   *)
(* of registrations, headers handed to the electrum watcher (deliver), the end  *)
(* of every evaluation of the confirmation registration with the notified      *)
(* height it was given (done) and every callback (report).                     *)
(* The P_C20 predicates of Watcher are evaluated on every report against the   *)
(* replayed chain history; violations are accumulated (signature -> first      *)
(* trace number) and serialised at the end.  Signatures starting with          *)
(* MACHINERY are harness/replay inconsistencies, never property violations.    *)
EXTENDS Watcher, Json, SequencesExt
Trace == ndJsonDeserialize("trace.ndjson")
VARIABLES l,     \* next line
          viol,  \* signature -> first trace number
          par,   \* parameters of the current trace: [kind, confs, window, csv, t]
          hist,  \* Seq([tip, txh]): chain snapshots of the current trace (logical clock = Len(hist))
          ev     \* [acc: electrum's acceptBlockHeight accepted the header being evaluated]
tvars == <<l, viol, par, hist, ev>>

S(x) == ToString(x)
Add(vs, sigs, t) == [s \in DOMAIN vs \cup sigs |-> IF s \in DOMAIN vs THEN vs[s] ELSE t]
Max2(a, b) == IF a >= b THEN a ELSE b

TInit == /\ l = 1 /\ viol = <<>> /\ par = [kind |-> "none", confs |-> 0, window |-> 0, csv |-> 0, t |-> 0]
         /\ hist = <<>> /\ ev = [acc |-> FALSE]
         /\ chain = <<>> /\ nid = 1 /\ bcast = FALSE /\ spent = FALSE /\ txb = {}
         /\ bud = [new |-> 0, reorg |-> 0, fault |-> 0, poll |-> 0, tick |-> 0]
         /\ polls = {} /\ wh = 0 /\ c = C0 /\ v = V0 /\ rep = <<>> /\ sched = <<>>

Unused == UNCHANGED <<nid, txb, bud, polls, sched>>

\* cross-check of the replayed chain against the harness' ground truth
ChainBad(e, ch) == IF Len(ch) # e.tip \/ TxH(ch) # e.txh THEN {"MACHINERY|chain-replay-differs"} ELSE {}

\* ---- judgement of one report line e (P_C20a, P_C20c, P_C20d) ----
Deadline == c.start + par.window
ReportBad(e) ==
    LET known == e.reg \in {"c", "v"}
        added == IF e.reg = "c" THEN c.st # "none" ELSE IF e.reg = "v" THEN v.st # "none" ELSE FALSE
        okbefore == \E i \in 1..Len(rep) : rep[i].reg = e.reg /\ rep[i].ok
        sane == e.since \in 1..Len(hist) /\ e.now = Len(hist)
        cands == IF sane THEN Cands(Since(hist, e.since), e.stale) ELSE {}
        open == {s \in cands : s.tip < Deadline}
        maxd == IF open = {} THEN -1 ELSE CHOOSE d \in {SDepth(s) : s \in open} : \A s \in open : SDepth(s) <= d
        cause == IF open = {} THEN "window-closed"
                 ELSE IF \E s \in cands : s.txh # 0 /\ e.h + 1 < s.txh THEN "wrap"  \* notified height 2+ below the tx height
                 ELSE "depth"
        maxc == IF cands = {} THEN -1 ELSE CHOOSE d \in {SDepth(s) : s \in cands} : \A s \in cands : SDepth(s) <= d
    IN  (IF ~sane THEN {"MACHINERY|report-clock"} ELSE {})
        \cup (IF ~known THEN {"C20d|" \o par.kind \o "|report-for-unknown-swap"}
              ELSE IF ~added THEN {"C20d|" \o par.kind \o "|" \o e.reg \o "|report-without-registration"} ELSE {})
        \cup (IF known /\ okbefore THEN {"C20d|" \o par.kind \o "|" \o e.reg \o "|" \o e.res \o "-after-delivered-report"} ELSE {})
        \cup (IF sane /\ e.reg = "c" /\ e.res = "confirmed" /\ added
                 /\ ~JustConfP(Since(hist, e.since), e.stale, c.start, par.confs, par.window)
              THEN {"C20a|" \o par.kind \o "|confirmed|" \o cause \o "|confs=" \o S(par.confs) \o "|depth=" \o S(maxd)} ELSE {})
        \cup (IF sane /\ e.reg = "v" /\ e.res = "csv" /\ added /\ ~JustCsvP(Since(hist, e.since), e.stale, par.csv)
              THEN {"C20c|" \o par.kind \o "|csv-mature|csv=" \o S(par.csv) \o "|depth=" \o S(maxc)} ELSE {})
        \cup (IF (e.reg = "c" /\ e.res \notin {"confirmed", "failed"}) \/ (e.reg = "v" /\ e.res # "csv")
              THEN {"C20d|" \o par.kind \o "|" \o e.reg \o "|wrong-kind-of-report-" \o e.res} ELSE {})

\* ---- P_C20b at the end of an evaluation of c that was given height e.h ----
DoneBad(e) ==
    LET consumed == IF par.kind = "rpc" THEN e.h > c.last ELSE ev.acc
        anyrep == \E i \in 1..Len(rep) : rep[i].reg = "c"
    IN IF consumed /\ c.st # "none" /\ e.h >= Deadline /\ ~anyrep
       THEN {"C20b|" \o par.kind \o "|deadline-reached-without-failure-report"} ELSE {}

Step ==
    /\ l <= Len(Trace)
    /\ l' = l + 1
    /\ LET e == Trace[l] IN
       CASE e.e = "reset" ->
              /\ par' = [kind |-> e.kind, confs |-> e.confs, window |-> e.window, csv |-> e.csv, t |-> e.t]
              /\ hist' = <<>> /\ ev' = [acc |-> FALSE]
              /\ chain' = <<>> /\ bcast' = FALSE /\ spent' = FALSE /\ wh' = 0 /\ c' = C0 /\ v' = V0 /\ rep' = <<>>
              /\ UNCHANGED viol /\ Unused
         [] e.e = "chain" ->
              LET ch == CASE e.op = "init" -> [i \in 1..e.len |-> [id |-> i, tx |-> (i = e.txat)]]
                          [] e.op = "block" -> OpBlock(chain, e.id, e.tx)
                          [] e.op = "reorg" -> OpReorg(chain, e.id, e.k, e.txat)
                          [] OTHER -> chain IN
              /\ chain' = ch
              /\ hist' = IF e.op \in {"init", "block", "reorg"} THEN Append(hist, Snap(ch)) ELSE hist
              /\ bcast' = (IF e.op = "init" THEN e.bcast ELSE (bcast \/ e.op = "bcast"))
              /\ spent' = (spent \/ e.op = "spend")
              /\ viol' = Add(viol, ChainBad(e, ch), par.t)
              /\ UNCHANGED <<par, ev, wh, c, v, rep>> /\ Unused
         [] e.e = "add" ->
              /\ c' = IF e.reg = "c" THEN [C0 EXCEPT !.st = "live", !.start = e.start] ELSE c
              /\ v' = IF e.reg = "v" THEN [V0 EXCEPT !.st = "live"] ELSE v
              /\ UNCHANGED <<viol, par, hist, ev, chain, bcast, spent, wh, rep>> /\ Unused
         [] e.e = "deliver" ->     \* electrum: acceptBlockHeight
              /\ ev' = [ev EXCEPT !.acc = (wh = 0 \/ e.h > wh)]
              /\ wh' = IF wh = 0 \/ e.h > wh THEN e.h ELSE wh
              /\ UNCHANGED <<viol, par, hist, chain, bcast, spent, c, v, rep>> /\ Unused
         [] e.e = "report" ->
              /\ viol' = Add(viol, ReportBad(e), par.t)
              /\ rep' = Append(rep, [reg |-> e.reg, res |-> e.res, h |-> e.h, ok |-> e.ok, just |-> TRUE])
              /\ UNCHANGED <<par, hist, ev, chain, bcast, spent, wh, c, v>> /\ Unused
         [] e.e = "done" ->
              /\ viol' = Add(viol, DoneBad(e), par.t)
              /\ c' = [c EXCEPT !.last = Max2(@, e.h)]
              /\ UNCHANGED <<par, hist, ev, chain, bcast, spent, wh, v, rep>> /\ Unused
         [] OTHER ->
              /\ viol' = Add(viol, {"MACHINERY|unknown-line"}, par.t)
              /\ UNCHANGED <<par, hist, ev, chain, bcast, spent, wh, c, v, rep>> /\ Unused

Finish == /\ l = Len(Trace) + 1
          /\ JsonSerialize("verdict.json",
                [n |-> Len(Trace), viol |-> SetToSeq({[sig |-> s, t |-> viol[s]] : s \in DOMAIN viol})])
          /\ l' = l + 1
          /\ UNCHANGED <<viol, par, hist, ev, chain, bcast, spent, wh, c, v, rep>> /\ Unused
TNext == Step \/ Finish
===============================================================================
