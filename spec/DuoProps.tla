------------------------------ MODULE DuoProps ------------------------------
(* Properties D1..D5 of the two-party swap protocol (two honest peerswap nodes, a network,   *)
(* a chain, a Lightning channel), written as checks over plain arguments so that the SAME     *)
(* definitions judge                                                                          *)
(*   - the design model Duo.tla (TLC explores every schedule of the bounded configurations), *)
(*   - traces of TWO REAL swap services wired together (DuoTrace.tla replays harness/duo).    *)
(* A violated check yields a record [p, sig, known]: p = "D1".."D5", sig = the signature       *)
(* "Dn|clause|discriminators" (engines/duo.py maps it onto the catalogue: D1/D4 -> C06 / C07 / *)
(* C23, D2 -> C16, D3 -> C08 / C12, D5 -> C09 / C22, as "Cxx|duo|clause|discriminators"),      *)
(* known = TRUE iff the discriminators name one of the recorded deviations of the code that    *)
(* the design model reproduces on purpose (crash between a wallet broadcast and the next store *)
(* write; claim payment given up while its outcome is unknown to the node after a crash or a   *)
(* failing service call; record stored without state). The invariants P_D1..P_D5 of DuoMC say: *)
(* no behaviour violates Dn in any other way.                                                  *)
(*                                                                                            *)
(*  D1 atomicity for honest parties. Safety (every state): never both "the maker received the *)
(*     claim payment" and "the maker spent the swap output back (coop / CSV)"; never "the      *)
(*     taker spent the output with the preimage" without the claim payment having settled.     *)
(*     At a quiescent end (after the fair closure): output went to the taker IFF the maker was *)
(*     paid; otherwise the maker has its funds back and no payment settled or is in flight;    *)
(*     a taker that paid ends in ClaimedPreimage.                                              *)
(*  D2 after the fair closure both records are terminal and both channels released.            *)
(*  D3 the two persisted records agree on amount, premium, scid, chain, protocol version,      *)
(*     opening txid / vout, payment hash and invoice amount whenever both have them; the       *)
(*     premium is the responder's configured rate; the announced transaction is one the        *)
(*     maker's wallet broadcast.                                                               *)
(*  D4 no secret before its time: the taker's key travels only in coop_close and only while    *)
(*     its claim payment is neither in flight nor settled - judged when the message is sent    *)
(*     AND when it reaches the other node's inbox; the maker's key and the preimage never      *)
(*     travel.                                                                                 *)
(*  D5 message conformance: a fresh (not duplicated) message of the honest peer that reaches   *)
(*     a node whose swap is active is accepted by the transition its kind stands for in the    *)
(*     node's state table (tables extracted from the code under test); a fresh request is      *)
(*     answered with the agreement; a duplicate is ignored (no state change, nothing sent);    *)
(*     a node retransmits opening_tx_broadcasted only while it waits for the taker.            *)
(* Readings: "accepted" = the handler returns no error and the first transition is the table's *)
(* entry for (role, state, event of the kind). A message for a swap the receiver no longer     *)
(* has active (terminal, or never stored) is stale and may be ignored. "Duplicate" = the       *)
(* identical payload was handled before by a live process of the receiver.                     *)
EXTENDS Integers, Sequences, FiniteSets, TLC, FsmTables

Terminal == {"State_SwapCanceled", "State_ClaimedPreimage", "State_ClaimedCoop", "State_ClaimedCsv"}
Takers   == {"out_sender", "in_receiver"}
Makers   == {"out_receiver", "in_sender"}
ReqKinds == {"swap_out_request", "swap_in_request"}
AgrKinds == {"swap_out_agreement", "swap_in_agreement"}
WaitingForTaker == {"State_SwapOutReceiver_SendTxBroadcastedMessage", "State_SwapOutReceiver_AwaitClaimInvoicePayment",
                    "State_SwapInSender_SendTxBroadcastedMessage", "State_SwapInSender_AwaitClaimPayment"}
None == [none |-> TRUE]
Has(e, f) == f \in DOMAIN e
Get(f, k, d) == IF k \in DOMAIN f THEN f[k] ELSE d
Put(f, k, v) == (k :> v) @@ f
Abs(x) == IF x < 0 THEN -x ELSE x
\* amount * ratePPM / 10^6 truncated toward zero, computed without 32-bit overflow
Compute(a, r) == LET m == Abs(r)
                     q == ((a \div 1000) * m + ((a % 1000) * m) \div 1000) \div 1000
                 IN IF r < 0 THEN -q ELSE q
OtherNode(n) == IF n = "A" THEN "B" ELSE "A"

EvOfKind(k) == CASE k = "swap_out_agreement" -> "Event_OnFeeInvoiceReceived" [] k = "swap_in_agreement" -> "Event_SwapInSender_OnAgreementReceived"
                 [] k = "opening_tx_broadcasted" -> "Event_OnTxOpenedMessage" [] k = "cancel" -> "Event_OnCancelReceived"
                 [] k = "coop_close" -> "Event_OnCoopCloseReceived" [] k = "swap_out_request" -> "Event_OnSwapOutRequestReceived"
                 [] k = "swap_in_request" -> "Event_SwapInReceiver_OnRequestReceived" [] OTHER -> "none"
RoleOfReq(k) == IF k = "swap_in_request" THEN "in_receiver" ELSE "out_receiver"
AgrOfReq(k) == IF k = "swap_in_request" THEN "swap_in_agreement" ELSE "swap_out_agreement"
AfterStr(cr, fa) == IF cr THEN "|after-crash" ELSE IF fa THEN "|after-service-failure" ELSE ""
V(p, sig, known) == [p |-> p, sig |-> sig, known |-> known]

(* ------------------------------------------------------------------ D4 -- *)
\* the taker sends coop_close: status = ground truth of its claim payment, (role, prev, cur, preInRec) = its last stored record
ChkCoopSend(status, role, prev, cur, preInRec, cr, fa) ==
  (IF status \in {"inflight", "succeeded"}
   THEN {V("D4", "D4|coop_close-while-payment-" \o status \o "|" \o role \o "|" \o prev \o ">" \o cur
                   \o (IF preInRec THEN "|preimage-in-record" ELSE "|outcome-unknown-to-node") \o AfterStr(cr, fa), ~preInRec /\ (cr \/ fa))} ELSE {})
  \cup (IF role \notin Takers THEN {V("D4", "D4|coop_close-by-non-taker|" \o role, FALSE)} ELSE {})
\* coop_close reaches the other node's inbox
ChkCoopRecv(status, cr, fa) ==
  IF status \in {"inflight", "succeeded"} THEN {V("D4", "D4|key-delivered-while-payment-" \o status \o AfterStr(cr, fa), cr \/ fa)} ELSE {}
\* secrets found in a payload (sent or delivered): only the taker key inside coop_close may travel
ChkLeaks(kind, leaks) == {V("D4", "D4|leak|" \o kind \o "|" \o l, FALSE) : l \in {x \in leaks : ~(kind = "coop_close" /\ x = "takerkey")}}

(* ------------------------------------------------------------------ D5 -- *)
\* a message was handed to a live node. pre = state of the receiver's active swap before ("" = none active), to = first new
\* state it stored while handling, sent = kinds it sent while handling, role = the receiver's role (for a request: the role it would take)
\* lossy = an earlier message of this direction was lost (dropped, or delivered to a stopped node): the receiver may be behind;
\* disturbed = a service failure or a crash was injected before: a request may then be refused.
\* The honest network delivers every custom message at most once, except opening_tx_broadcasted, which peerswap itself
\* retransmits: only that kind is ever duplicated between honest parties. (A request sent twice is adversarial behaviour of the
\* requester: the code refuses it with cancel, as C09 / C11 demand; after such an adversarial duplicate D5 and D2 - properties of
\* honest parties - are no longer judged, D1 / D3 / D4 still are.)
MakerSpending == {"State_SwapOutReceiver_ClaimSwapCsv", "State_SwapInSender_ClaimSwapCsv", "State_SwapOutReceiver_ClaimSwapCoop", "State_SwapInSender_ClaimSwapCoop"}
\* a maker that is already spending its output back ignores coop_close / cancel by design (the offer came too late)
Superseded(role, pre, kind) == role \in Makers /\ pre \in MakerSpending /\ kind \in {"coop_close", "cancel"}
ChkRecv(kind, dup, res, pre, to, sent, role, lossy, disturbed) ==
  LET lbl == kind IN
  IF kind \in ReqKinds THEN
     (IF dup THEN (IF sent # {} THEN {V("D5", "D5|duplicate-not-ignored|" \o kind \o "|answered-with-" \o (IF "cancel" \in sent THEN "cancel" ELSE "message"), FALSE)} ELSE {})
      ELSE IF disturbed \/ (res = "ok" /\ AgrOfReq(kind) \in sent /\ "cancel" \notin sent) THEN {}
      ELSE {V("D5", "D5|request-refused|" \o kind \o "|" \o res, FALSE)})
  ELSE IF dup THEN
     (IF res = "ok" /\ to # "" THEN {V("D5", "D5|duplicate-changed-state|" \o lbl \o "|" \o role \o "|" \o pre, FALSE)} ELSE {})
     \cup (IF sent # {} THEN {V("D5", "D5|duplicate-not-ignored|" \o lbl \o "|" \o role \o "|" \o pre, FALSE)} ELSE {})
  ELSE IF pre = "" THEN      \* stale: the receiver has no active swap for it
     (IF sent # {} THEN {V("D5", "D5|stale-message-answered|" \o lbl, FALSE)} ELSE {})
  ELSE IF lossy THEN {}
  ELSE IF pre = "-" THEN     \* known deviation: a record stored without state is registered for good and accepts nothing
     (IF res = "ok" THEN {} ELSE {V("D5", "D5|rejected|" \o lbl \o "|" \o role \o "|record-without-state-after-crash", TRUE)})
  ELSE IF Superseded(role, pre, kind) /\ res = "rejected" /\ to = "" /\ sent = {} THEN {}
  ELSE LET key == <<role, pre, EvOfKind(kind)>> IN
     IF res = "rejected" \/ key \notin DOMAIN TransTable THEN {V("D5", "D5|rejected|" \o lbl \o "|" \o role \o "|" \o pre, FALSE)}
     ELSE IF res = "ok" /\ to = TransTable[key] THEN {}
     ELSE IF res = "ok" THEN {V("D5", "D5|not-accepted|" \o lbl \o "|" \o role \o "|" \o pre \o "|went-to-" \o to, FALSE)}
     ELSE {V("D5", "D5|error|" \o lbl \o "|" \o role \o "|" \o pre \o "|" \o res, FALSE)}
\* a node sends another copy of opening_tx_broadcasted: cur = its stored state
ChkRetx(cur) == IF cur \notin WaitingForTaker THEN {V("D5", "D5|retransmit-in|" \o cur, FALSE)} ELSE {}

(* ------------------------------------------------------------------ D1 -- *)
\* txs: sequence of opening transactions [owner, conf, spent, by, paid, st]: paid / st = ground truth of the claim invoice locked in it
MakerTookBack(t) == t.spent \in {"coop", "csv"} /\ t.by = t.owner
ChkSafety(txs, cr, fa) ==
  UNION {(IF txs[i].paid /\ MakerTookBack(txs[i]) THEN {V("D1", "D1|paid-and-refunded|" \o txs[i].spent \o AfterStr(cr, fa), cr \/ fa)} ELSE {})
         \cup (IF txs[i].spent = "preimage" /\ ~txs[i].paid THEN {V("D1", "D1|claimed-without-payment", FALSE)} ELSE {}) : i \in 1..Len(txs)}
\* at the quiescent end of a closed run. mk / tk: last stored record of the maker / taker ([role, cur], role "" = none);
\* lostopen / lostspendT: the maker / taker crashed between a wallet broadcast and the next store write
ChkEndAtomic(txs, mk, tk, lostopen, lostspendT, cr, fa) ==
  UNION {(IF ~txs[i].paid /\ txs[i].spent = "" /\ txs[i].st # "inflight"
          THEN {V("D1", "D1|maker-funds-abandoned|" \o mk.role \o "|" \o (IF lostopen THEN "crash-between-broadcast-and-persist" ELSE mk.cur), lostopen)} ELSE {})
         \cup (IF txs[i].paid /\ txs[i].spent = ""
               THEN {V("D1", "D1|paid-output-unclaimed|" \o tk.role \o "|" \o (IF lostspendT THEN "crash-between-claim-broadcast-and-persist" ELSE tk.cur) \o AfterStr(cr, fa), lostspendT \/ cr \/ fa)} ELSE {})
         \cup (IF txs[i].st = "inflight" THEN {V("D1", "D1|payment-still-in-flight", FALSE)} ELSE {}) : i \in 1..Len(txs)}
\* a taker that paid must end in ClaimedPreimage (C06: "keeps trying to claim")
ChkEndPaid(anypaid, tk, lostspendT, cr, fa) ==
  IF anypaid /\ tk.role # "" /\ tk.cur # "State_ClaimedPreimage"
  THEN {V("D1", "D1|paid-but-not-claimed|" \o tk.role \o "|" \o (IF lostspendT THEN "crash-between-claim-broadcast-and-persist" ELSE tk.cur), lostspendT \/ cr \/ fa)} ELSE {}

(* ------------------------------------------------------------------ D2 -- *)
\* rec: [role, cur]; act: state of the node's registered swap ("" = channel released, "-" = registered without state)
ChkEndNode(rec, act, up, lostspend) ==
  (IF rec.role # "" /\ rec.cur \notin Terminal /\ rec.cur # ""
   THEN {V("D2", "D2|not-terminated|" \o rec.role \o "|" \o (IF lostspend THEN "crash-between-claim-broadcast-and-persist" ELSE rec.cur), lostspend)} ELSE {})
  \cup (IF act # "" THEN {V("D2", "D2|channel-not-released|" \o (IF lostspend THEN "crash-between-claim-broadcast-and-persist"
                                                                 ELSE IF act = "-" \/ rec.cur = "" THEN "record-without-state-after-crash" ELSE act),
                            lostspend \/ act = "-" \/ rec.cur = "")} ELSE {})
  \cup (IF ~up THEN {V("D2", "D2|node-down-after-closure", FALSE)} ELSE {})

(* ------------------------------------------------------------------ D3 -- *)
\* ra, rb: the negotiated parameters as each node's record has them (a field is present once the record has it)
AgreeFields == {"amt", "prem", "scid", "chain", "ver", "tx", "vout", "hash", "msat"}
ChkAgree(ra, rb) == {V("D3", "D3|records-disagree|" \o f, FALSE) : f \in {g \in AgreeFields : Has(ra, g) /\ Has(rb, g) /\ ra[g] # rb[g]}}
\* the responder charges the premium of its configured rate (amount <= 2*10^6 here)
ChkPremium(rec, role, rate) ==
  IF Has(rec, "prem") /\ Has(rec, "amt") /\ rec.prem # Compute(rec.amt, rate) THEN {V("D3", "D3|premium-not-configured-rate|" \o role, FALSE)} ELSE {}
\* the transaction a record names is one the maker's wallet broadcast, and the hash is the one locked there
ChkAnnounced(rec, opened) ==
  IF Has(rec, "tx") /\ ~(\E t \in opened : t.tx = rec.tx /\ t.hash = rec.hash /\ t.vout = rec.vout) THEN {V("D3", "D3|announced-tx-not-broadcast", FALSE)} ELSE {}
===============================================================================
