------------------------------- MODULE TxTrace -------------------------------
(* Code -> specification: every line is one observation of the REAL code     *)
(* (harness cmd/tx): a validator verdict (kind v), a built spend (kind s) or *)
(* an opening-path result (kind o).  Observer style: every line is consumed, *)
(* violated property signatures are accumulated with the first line that     *)
(* showed them, non-violating deviations are counted separately.             *)
EXTENDS SpendTx, Json
Trace == ndJsonDeserialize("trace.ndjson")
VARIABLES l, viol, stat
vars == <<l, viol, stat>>

Stat0 == [v |-> 0, v_accept |-> 0, v_conservative |-> 0, v_drift |-> 0, v_err_ok |-> 0,
          s |-> 0, s_run |-> 0, s_built |-> 0, s_judged |-> 0, s_nobuild |-> 0, s_txid_drift |-> 0, s_drift |-> 0, o_drift |-> 0,
          o |-> 0, o_built |-> 0, machinery |-> 0]
Init == l = 1 /\ viol = <<>> /\ stat = Stat0

\* signatures (stable, coarse: one per chain/side/shape class/reason/back-end/spend/fee class)
SigV(e) == "C01|validator|" \o e.chain \o "|accepts-invalid|n=" \o ToString(Len(e.outs)) \o "|near" \o DefectStr(e.outs)
SigS(e, r) == "C03|" \o e.chain \o "|" \o e.side \o "|" \o ShapeClass(e.chain, e.outs) \o "|" \o r
              \o "|" \o e.backend \o "|" \o e.spend \o "|fee=" \o e.fee
SigO(e, r) == "C08|" \o e.backend \o "|" \o ShapeClass(e.chain, e.outs) \o "|" \o r
              \o "|ann=" \o ToString(e.ann) \o "|swapidx=" \o ToString(MinS({i - 1 : i \in GoodIdx(e.outs)}))
              \o "|n=" \o ToString(Len(e.outs)) \o "|in=" \o e.inkind

Bad(e) ==
    IF e.kind = "v" THEN (IF P_C01V(e.outs, e.accept) THEN {} ELSE {SigV(e)})
    ELSE IF e.kind = "s" THEN (IF C03InDomain(e) THEN {SigS(e, r) : r \in C03Reasons(e)} ELSE {})
    ELSE IF e.kind = "o" THEN (IF e.built THEN {SigO(e, r) : r \in C08Reasons(e)} ELSE {})
    ELSE {"machinery|unknown-kind"}

\* harness self-checks: not property violations, reported as machinery errors
Mach(e) ==
    IF e.kind = "o" THEN (IF C08Machinery(e) THEN 0 ELSE 1)
    ELSE IF e.kind = "s" THEN (IF e.side = SideOf(e.spend) /\ (e.built => e.run) THEN 0 ELSE 1)
    ELSE 0

B(x) == IF x THEN 1 ELSE 0
Count(e) ==
    IF e.kind = "v" THEN
        [stat EXCEPT !.v = @ + 1, !.v_accept = @ + B(e.accept),
                     !.v_conservative = @ + B(SpecValid(e.outs) /\ ~e.accept),
                     !.v_drift = @ + B(e.accept # ImplAccept(e.chain, e.outs)),
                     !.v_err_ok = @ + B(e.vok /\ e.verr)]
    ELSE IF e.kind = "s" THEN
        [stat EXCEPT !.s = @ + 1, !.s_run = @ + B(e.run), !.s_built = @ + B(e.built),
                     !.s_judged = @ + B(C03InDomain(e)),
                     !.s_nobuild = @ + B(e.run /\ ~e.built),
                     !.s_txid_drift = @ + B(e.built /\ ~e.txidok),
                     !.s_drift = @ + B(e.built # PredBuilt(e) \/ (e.built /\ e.inidx + 1 # ImplUseIdx(e.chain, e.outs))),
                     !.machinery = @ + Mach(e)]
    ELSE IF e.kind = "o" THEN
        [stat EXCEPT !.o = @ + 1, !.o_built = @ + B(e.built), !.machinery = @ + Mach(e),
                     !.o_drift = @ + B(~e.built \/ e.ann + 1 # DesignAnn(e.chain, e.outs))]
    ELSE stat

RECURSIVE AddAll(_, _, _)
AddAll(v, S, line) ==
    IF S = {} THEN v
    ELSE LET s == CHOOSE x \in S : TRUE
         IN AddAll(IF \E i \in DOMAIN v : v[i].sig = s THEN v ELSE Append(v, [sig |-> s, line |-> line]), S \ {s}, line)

Step == /\ l <= Len(Trace)
        /\ LET e == Trace[l] IN
             /\ viol' = AddAll(viol, Bad(e), l)
             /\ stat' = Count(e)
        /\ l' = l + 1
Finish == /\ l = Len(Trace) + 1
          /\ JsonSerialize("verdict.json", [n |-> Len(Trace), viol |-> viol, stat |-> stat])
          /\ l' = l + 1 /\ UNCHANGED <<viol, stat>>
Next == Step \/ Finish
===============================================================================
