CONSTANTS
  Valid = {"A", "B"}
  Args = {"A", "B", "i_short"}
  MaxLen = 3
INIT Init
NEXT Next
VIEW View
INVARIANT P_C25_Effect
INVARIANT P_C25_Reject
INVARIANT P_C25_Persist
INVARIANT MemIsFile
INVARIANT Export
POSTCONDITION Post
CHECK_DEADLOCK FALSE
