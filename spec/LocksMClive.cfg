CONSTANTS
  FixAsyncCb = TRUE
  FixCbRpc = TRUE
  FixCbEl = TRUE
  FixKickoff = FALSE
  FixDispatch = TRUE
  FixPolicy = TRUE
  FixResend = TRUE
  FixRecover = TRUE
  Mode = "fine"
  Tier = "quick"
  Part = 0
  Parts = 1
SPECIFICATION Spec
INVARIANT InvBounded
INVARIANT InvNoDeadlock
PROPERTY P_C18_returns
CHECK_DEADLOCK FALSE
