CONSTANTS
  FixAsyncCb = TRUE
  FixCbOutsideLock = TRUE
  FixKickoff = TRUE
  Mode = "fine"
  Tier = "quick"
  Part = 0
  Parts = 1
SPECIFICATION Spec
INVARIANT InvBounded
INVARIANT Collect
INVARIANT InvNoDeadlock
PROPERTY P_C18_returns
POSTCONDITION Post
CHECK_DEADLOCK FALSE
