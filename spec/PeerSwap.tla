------------------------------- MODULE PeerSwap -------------------------------
(* Design model of one peerswap node and its environment.                     *)
(*                                                                            *)
(* Structure follows the implementation (swap/fsm.go, swap/service.go,        *)
(* swap/actions.go): an environment step (local initiation, peer message,     *)
(* block, payment notification, HTLC resolution, timer, restart) runs the     *)
(* service handler to quiescence; the handler is SendEvent / Recover over the *)
(* state tables EXTRACTED FROM THE CODE (FsmTables), each Action is a         *)
(* sequence of service calls ("gates") that can fail or be the crash point.   *)
(* Every linearization point appends the same event the harness records on    *)
(* the real code; the events are folded through PeerSwapObs (ApplyEv /        *)
(* CheckEv), so TLC checks here exactly the checks that judge real traces.    *)
(* Deviations of the code from the protocol text are modelled as the code     *)
(* behaves: TimeoutNeverCancelled (the 10-minute timer armed at creation is   *)
(* never cancelled), RecoverWithoutMutex (not visible at this grain),         *)
(* BroadcastBeforePersist (a crash between the wallet broadcast and the next  *)
(* store write loses the record of the opening transaction).                  *)
(* Earlier rounds of this model also had ApplyBeforeStateCheck,               *)
(* LockSwapOverwrites, RawScidCompare and HeightAfterBroadcast; TLC found the *)
(* corresponding violations (C09, C10, C07), the harness reproduced them on   *)
(* the real code, the code was repaired ("fix:" commits) and the model now    *)
(* describes the repaired behaviour.                                          *)
EXTENDS PeerSwapObs, FsmTables, PeerSwapCfgs, SequencesExt


\* cf: the configuration of this behaviour, chosen in Init from CONFIGS (module PeerSwapCfgs, generated per tier):
\*   chain "btc"|"lbtc"; inits: how swaps may start; maxsteps / maxfaults / maxcrashes / maxswaps: budgets;
\*   blocks: block-step sizes; adversary: malformed / third-party / replayed messages are in the alphabet
VARIABLES o, viol, nd, sched, cf
vars == <<o, viol, nd, sched, cf>>
CHAIN == cf.chain
INITS == cf.inits
MAXSTEPS == cf.maxsteps
MAXFAULTS == cf.maxfaults
MAXCRASHES == cf.maxcrashes
MAXSWAPS == cf.maxswaps
BLOCKS == cf.blocks
ADVERSARY == cf.adversary

None == [none |-> TRUE]
IsNone(x) == x = None
ExistsErr == [exists |-> TRUE]
AMOUNT == 1000000
RATE == 10000
RateFor(p) == IF cf.peerrate # 0 /\ p = "peer" THEN cf.peerrate ELSE RATE     \* a peer-specific rate overrides the global one for that peer only (premium.Setting.GetRate)
EffRate == RateFor("peer")
OPENFEE == 1000
Cfg == [chain |-> CHAIN, allow_new |-> TRUE, accept_all |-> cf.acceptall, allow_peer |-> FALSE, suspect_peer |-> FALSE,
        min_swap_msat |-> cf.minmsat, btc_enabled |-> ~(cf.onlyown /\ CHAIN = "lbtc"), lbtc_enabled |-> ~(cf.onlyown /\ CHAIN = "btc"), rate_ppm |-> RATE, has_peer_rate |-> cf.peerrate # 0,
        peer_rate |-> cf.peerrate, wallet_sat |-> IF cf.funds = "tight" THEN 1000999 ELSE 100000000, open_fee_sat |-> OPENFEE,
        spendable_msat |-> IF cf.funds = "tight" THEN 999999999 ELSE 2000000000,
        receivable_msat |-> IF cf.funds = "tight" THEN 999999999 ELSE 2000000000, dup_pay |-> cf.duppay, swap_vout |-> cf.vout]

(* ---------------------------------------------------------------- data -- *)
NewData(role, peer, sid) ==
  [role |-> role, sid |-> sid, cur |-> "", prev |-> "", peer |-> peer, in_req |-> None, out_req |-> None, in_agr |-> None, out_agr |-> None,
   otb |-> None, coop |-> None, cancel_obj |-> FALSE, cancel_msg |-> "", start |-> 0, start_set |-> FALSE, txhex |-> "",
   preimage |-> FALSE, claim_tx |-> FALSE, claim_hash |-> "", next |-> None, key |-> "key-" \o sid \o "-" \o role, fee_paid |-> FALSE]

Req(d)      == IF ~IsNone(d.in_req) THEN d.in_req ELSE d.out_req
HasReq(d)   == ~IsNone(d.in_req) \/ ~IsNone(d.out_req)
Agr(d)      == IF ~IsNone(d.in_agr) THEN d.in_agr ELSE d.out_agr
HasAgr(d)   == ~IsNone(d.in_agr) \/ ~IsNone(d.out_agr)
DChain(d)   == IF HasReq(d) THEN Req(d).chain ELSE ""
DVer(d)     == IF HasReq(d) THEN Req(d).ver ELSE IF HasAgr(d) THEN 7 ELSE 0
DAmount(d)  == IF HasReq(d) THEN Req(d).amount ELSE 0
DScid(d)    == IF HasReq(d) THEN Req(d).scid ELSE ""
DLimit(d)   == IF HasReq(d) THEN Req(d).limit ELSE 0
DPremium(d) == IF HasAgr(d) THEN Agr(d).premium ELSE 0
DClaimSat(d) == IF ~IsNone(d.in_req) THEN d.in_req.amount
                ELSE IF ~IsNone(d.out_req) THEN d.out_req.amount + (IF IsNone(d.out_agr) THEN 0 ELSE d.out_agr.premium) ELSE 0
DOpenSat(d) == IF ~IsNone(d.in_req) THEN d.in_req.amount + (IF IsNone(d.in_agr) THEN 0 ELSE d.in_agr.premium)
               ELSE IF ~IsNone(d.out_req) THEN d.out_req.amount ELSE 0
NScid(s) == IF s \in {"100x1x1", "100:1:1"} THEN "100x1x1" ELSE IF s \in {"200x2x2", "200:2:2"} THEN "200x2x2" ELSE s
V7Liquid(d) == DChain(d) = "lbtc" /\ DVer(d) = 7
CsvOf(d) == Csv(DChain(d), DVer(d))
WindowOf(d) == IF DChain(d) = "btc" THEN 504 ELSE IF DVer(d) = 7 THEN 60 ELSE 30
InvCltvOf(d) == IF DChain(d) = "btc" THEN 503 ELSE 29
MaxDeltaOf(d) == IF V7Liquid(d) THEN 32 ELSE 0

\* the projection the harness logs at every store write (harness/l1/node.go: project)
Project(d) ==
  [ev |-> "persist", sid |-> d.sid, role |-> d.role, prev |-> d.prev, cur |-> d.cur, digest |-> d, peer |-> d.peer, scid |-> DScid(d),
   chain |-> DChain(d), ver |-> DVer(d), amount |-> DAmount(d), has_req |-> HasReq(d), has_agr |-> HasAgr(d),
   both_types |-> (~IsNone(d.in_req) \/ ~IsNone(d.in_agr)) /\ (~IsNone(d.out_req) \/ ~IsNone(d.out_agr)),
   premium |-> DPremium(d), limit |-> DLimit(d), start |-> d.start, start_set |-> d.start_set, otb |-> ~IsNone(d.otb),
   otb_tx |-> IF IsNone(d.otb) THEN "" ELSE d.otb.tx, otb_vout |-> IF IsNone(d.otb) THEN 0 ELSE d.otb.vout,
   otb_hash |-> IF IsNone(d.otb) THEN "" ELSE d.otb.inv.hash, txhex |-> d.txhex # "", preimage |-> d.preimage, claim_tx |-> d.claim_tx,
   coop |-> ~IsNone(d.coop), cancel_obj |-> d.cancel_obj, key |-> d.key]

(* ------------------------------------------------------- run context -- *)
NoCrash == [gate |-> "", occ |-> 0, when |-> ""]
NoPlan == [faults |-> <<>>, crash |-> NoCrash]
NdInit == [up |-> TRUE, epoch |-> 1, mem |-> <<>>, reg |-> {}, disk |-> <<>>, timers |-> {}, notif |-> {}, wconf |-> {}, wcsv |-> {},
           senders |-> {}, spentout |-> {}, suspfile |-> FALSE, sentn |-> <<>>, nsteps |-> 0, nfaults |-> 0, ncrashes |-> 0,
           nswaps |-> 0, opens |-> <<>>, q |-> <<>>, peerinv |-> <<>>, keyn |-> 0, ptx |-> 0, ptxs |-> <<>>, ver |-> "current", unrecovered |-> FALSE, tipadd |-> 0, lastplan |-> NoPlan, lastraw |-> <<>>, predisk |-> {}, phase |-> "idle", poll |-> FALSE,
           occ |-> <<>>, plan |-> NoPlan, res |-> "ok", recover |-> FALSE, nrestarts |-> 0, a |-> ""]

Ctx(n, plan) == [nd |-> n, evs |-> <<>>, occ |-> <<>>, plan |-> plan, crashed |-> FALSE, go |-> "", sid |-> "none", out |-> "", res |-> "ok", done |-> FALSE]
D(x) == x.nd.mem[x.sid]
SetD(x, d) == [x EXCEPT !.nd.mem = Put(@, x.sid, d)]
Emit(x, e) == IF x.crashed THEN x ELSE [x EXCEPT !.evs = Append(@, e)]
Out(x, ev) == [x EXCEPT !.out = ev]

CrashNow(x, g, w) == [Emit(x, [ev |-> "crash", gate |-> g, when |-> w]) EXCEPT !.crashed = TRUE, !.res = "crash"]
\* Gate: a simulated service call is about to run. Sets x.go to the planned outcome ("" = succeeds).
Gate(x, g) ==
  IF x.crashed THEN [x EXCEPT !.go = "dead"] ELSE
  LET k == Get(x.occ, g, 0) + 1
      x1 == [x EXCEPT !.occ = Put(@, g, k)]
      f == Get(x.plan.faults, g, <<"", FALSE>>)
      outc == IF k = 1 \/ f[2] THEN f[1] ELSE ""
  IN IF x.plan.crash.gate = g /\ x.plan.crash.occ = k /\ x.plan.crash.when = "before" THEN [CrashNow(x1, g, "before") EXCEPT !.go = "dead"]
     ELSE [x1 EXCEPT !.go = outc]
\* After: the effect of the service call took place
After(x, g) ==
  IF ~x.crashed /\ x.plan.crash.gate = g /\ x.plan.crash.occ = Get(x.occ, g, 0) /\ x.plan.crash.when = "after" THEN CrashNow(x, g, "after") ELSE x

\* Store.UpdateData. x.go = "" on success, "err" if the write failed.
Persist(x) ==
  LET g == Gate(x, "persist") IN
  IF g.crashed \/ g.go # "" THEN g
  ELSE After([Emit(g, Project(D(g))) EXCEPT !.nd.disk = Put(@, g.sid, D(g))], "persist")

Leak(kind, sid) == IF kind = "coop_close" THEN <<[k |-> "takerkey", s |-> sid]>> ELSE <<>>
\* Messenger.SendMessage (content = the kind specific fields of the payload)
SendMsg(x, kind, to, sid, hasid, content) ==
  LET g == Gate(x, "msg.send")
      dg == [kind |-> kind, sid |-> sid, c |-> content]
      nth == Get(g.nd.sentn, dg, 0) + 1
      base == [ev |-> "send", to |-> to, type |-> TypeNo(kind), kind |-> kind, sid |-> IF hasid THEN sid ELSE "none", hasid |-> hasid, ok |-> g.go = "",
               nth |-> nth, digest |-> dg, leaks |-> Leak(kind, sid), roundtrip |-> TRUE]
  IN IF g.crashed THEN g
     ELSE After([Emit(g, content @@ base) EXCEPT !.nd.sentn = Put(@, dg, nth)], "msg.send")
SendCancelRaw(x, to, sid, hasid) == SendMsg(x, "cancel", to, sid, hasid, [text |-> "refused"])

(* ------------------------------------------------------------ actions -- *)
Fail(x, msg) == LET d == D(x) IN Out(SetD(x, [d EXCEPT !.cancel_msg = IF @ = "" THEN msg ELSE @]), "Event_ActionFailed")
Succ(x) == Out(x, "Event_ActionSucceeded")
Tip(x, chain) == o.tip[chain] + x.nd.tipadd
ArmTimer(x) == [x EXCEPT !.nd.timers = @ \cup {[sid |-> x.sid, due |-> o.now + 10]}]
Enq(x, cb) == [x EXCEPT !.nd.q = Append(@, cb)]
PayStatus(x, sid) == Get(x.nd.peerinv, <<sid, "status">>, Claim(o, sid).status)

\* watcher poll (truthful, as harness/l1/chain.go): posts callbacks for matured registrations
TxConf(x, tx) == IF tx \in DOMAIN o.tx THEN o.tx[tx].conf ELSE 0
PollWatch(x) ==
  LET tip == o.tip[CHAIN]
      confDue == {r \in x.nd.wconf : tip >= r.start + r.window \/ (TxConf(x, r.tx) > 0 /\ tip - TxConf(x, r.tx) + 1 >= MinConf(CHAIN))}
      csvDue == {r \in x.nd.wcsv : TxConf(x, r.tx) > 0 /\ tip - TxConf(x, r.tx) + 1 >= r.csv /\ r.tx \notin x.nd.spentout}
      cbs == SetToSeq({[k |-> "conf", sid |-> r.sid, ok |-> ~(tip >= r.start + r.window), tx |-> r.tx] : r \in confDue}
                      \cup {[k |-> "csv", sid |-> r.sid, ok |-> TRUE, tx |-> r.tx] : r \in csvDue})
  IN [x EXCEPT !.nd.wconf = @ \ confDue, !.nd.wcsv = @ \ csvDue, !.nd.q = @ \o cbs]

WindowOK(d, tip) == d.start_set /\ tip >= d.start /\ tip < d.start + WindowOf(d)

ActCheckRequest(x) ==
  LET d == D(x)  r == Req(d) IN
  IF ~o.allowNew THEN Fail(x, "swaps are disabled")
  ELSE IF (r.chain = "lbtc" /\ ~Cfg.lbtc_enabled) \/ (r.chain = "btc" /\ ~Cfg.btc_enabled) THEN Fail(x, "swaps on this chain are not supported")
  ELSE IF r.ver # 7 THEN Fail(x, "incompatible peerswap version")
  ELSE IF r.amount * 1000 < Cfg.min_swap_msat THEN Fail(x, "minimum swap amount")
  ELSE IF r.assetcls # "own" THEN Fail(x, "invalid asset or network")
  ELSE IF ~(Cfg.accept_all \/ (o.allowed /\ d.peer = "peer")) THEN Fail(x, "peer not allowed")   \* the policy entries of the model name the counterparty "peer"
  ELSE IF (o.susp \/ x.nd.suspfile) /\ d.peer = "peer" THEN Fail(x, "peer not allowed")
  ELSE Out(x, "cont")

SetAnchor(x) ==   \* setLiquidPaymentWindowAnchor
  IF ~V7Liquid(D(x)) THEN [x EXCEPT !.go = ""] ELSE
  LET g == Gate(x, "chain.height") IN
  IF g.crashed \/ g.go # "" THEN g ELSE SetD(g, [D(g) EXCEPT !.start = Tip(g, "lbtc"), !.start_set = TRUE])

ActSwapInReceiverInit(x) ==
  LET a == SetAnchor(x) IN
  IF a.crashed THEN a ELSE IF a.go # "" THEN Fail(a, "height") ELSE
  LET d == D(a)
      prem == Compute(DAmount(d), RateFor(d.peer))
      d2 == [d EXCEPT !.in_agr = [premium |-> prem, pub |-> "good"],
                      !.next = [kind |-> "swap_in_agreement", c |-> [premium |-> prem]]]
  IN Succ(ArmTimer(SetD(a, d2)))

ActCreateSwapOutFromRequest(x) ==
  LET g1 == Gate(x, "wallet.fee") IN IF g1.crashed THEN g1 ELSE IF g1.go # "" THEN Fail(g1, "fee") ELSE
  LET g2 == Gate(g1, "wallet.balance") IN IF g2.crashed THEN g2 ELSE IF g2.go # "" THEN Fail(g2, "balance") ELSE
  IF Cfg.wallet_sat < DAmount(D(g2)) + OPENFEE THEN Fail(g2, "insufficient walletbalance") ELSE
  LET g3 == Gate(g2, "ln.invoice") IN IF g3.crashed THEN g3 ELSE IF g3.go # "" THEN Fail(g3, "invoice") ELSE
  LET d == D(g3)
      prem == Compute(DAmount(d), RateFor(d.peer))
      d2 == [d EXCEPT !.out_agr = [premium |-> prem, pub |-> "good", feemsat |-> OPENFEE * 1000, feehash |-> "hF-" \o d.sid, feepayee |-> "me"],
                      !.next = [kind |-> "swap_out_agreement", c |-> [premium |-> prem, fee_msat |-> OPENFEE * 1000, fee_hash |-> "hF-" \o d.sid]]]
  IN Succ(ArmTimer(After(SetD(g3, d2), "ln.invoice")))

ActCreateSwapRequest(x) ==
  LET a == SetAnchor(x) IN
  IF a.crashed THEN a ELSE IF a.go # "" THEN Fail(a, "height") ELSE
  LET d == D(a)  r == Req(d)
      kind == IF ~IsNone(d.in_req) THEN "swap_in_request" ELSE "swap_out_request"
      d2 == [d EXCEPT !.next = [kind |-> kind, c |-> [amount |-> r.amount, limit |-> r.limit, scid |-> r.scid, chain |-> r.chain, ver |-> r.ver]]]
  IN Succ(ArmTimer(SetD(a, d2)))

ActSendMessage(x) ==
  LET d == D(x) IN
  IF IsNone(d.next) THEN Fail(x, "swap.NextMessage is nil") ELSE
  LET s == SendMsg(x, d.next.kind, d.peer, d.sid, TRUE, d.next.c) IN
  IF s.crashed THEN s ELSE IF s.go # "" THEN Fail(s, "send failed") ELSE Succ(s)

ActSendMessageWithRetry(x) ==
  LET d == D(x) IN
  IF IsNone(d.next) THEN Fail(x, "swap.NextMessage is nil") ELSE
  LET g == Gate(x, "sender.add") IN IF g.crashed THEN g ELSE
  IF g.go # "" \/ d.sid \in g.nd.senders THEN Fail(g, "already has a sender") ELSE
  LET s == SendMsg([g EXCEPT !.nd.senders = @ \cup {d.sid}], d.next.kind, d.peer, d.sid, TRUE, d.next.c) IN
  IF s.crashed THEN s ELSE Succ(s)

StopSender(x) == LET g == Gate(x, "sender.remove") IN IF g.crashed THEN g ELSE [g EXCEPT !.nd.senders = @ \ {x.sid}]

ActCheckPremium(x) ==
  LET d == D(x) IN
  IF ~IsNone(d.in_agr) THEN
     (IF IsNone(d.in_req) THEN [Emit(x, [ev |-> "fault", what |-> "panic", in |-> "msg"]) EXCEPT !.crashed = TRUE, !.res = "panic"]
      ELSE IF d.in_agr.premium > d.in_req.limit THEN Fail(x, "premium amt too high") ELSE Out(x, "cont"))
  ELSE IF ~IsNone(d.out_agr) THEN
     (IF IsNone(d.out_req) THEN [Emit(x, [ev |-> "fault", what |-> "panic", in |-> "msg"]) EXCEPT !.crashed = TRUE, !.res = "panic"]
      ELSE IF d.out_agr.premium > d.out_req.limit THEN Fail(x, "premium amt too high") ELSE Out(x, "cont"))
  ELSE Fail(x, "unexpected swap data")

ActPayFeeInvoice(x) ==
  LET d == D(x)  a == d.out_agr IN
  LET g1 == Gate(x, "ln.decode") IN IF g1.crashed THEN g1 ELSE IF g1.go # "" THEN Fail(g1, "decode") ELSE
  LET g2 == Gate(g1, "ln.spendable") IN IF g2.crashed THEN g2 ELSE IF g2.go # "" THEN Fail(g2, "spendable") ELSE
  IF Cfg.spendable_msat < d.out_req.amount * 1000 + a.feemsat THEN Fail(g2, "not enough spendable msat") ELSE
  LET g3 == Gate(g2, "ln.probe") IN IF g3.crashed THEN g3 ELSE IF g3.go # "" THEN Fail(g3, "probe") ELSE
  LET g4 == Gate(g3, "wallet.fee") IN IF g4.crashed THEN g4 ELSE IF g4.go # "" THEN Fail(g4, "fee") ELSE
  IF a.feemsat \div 1000 > 3 * OPENFEE THEN Fail(g4, "Fee is too damn high") ELSE
  LET g5 == Gate(g4, "ln.payfee") IN IF g5.crashed THEN g5 ELSE
  LET e == [ev |-> "ln.payfee", sid |-> d.sid, hash |-> a.feehash, msat |-> a.feemsat, payee |-> a.feepayee, res |-> IF g5.go = "" THEN "ok" ELSE "err"]
      g6 == After(Emit(g5, e), "ln.payfee")
  IN IF g6.crashed THEN g6 ELSE IF g5.go # "" THEN Fail(g6, "fee payment failed") ELSE Succ(SetD(g6, [D(g6) EXCEPT !.fee_paid = TRUE]))

ActCreateAndBroadcastOpening(x) ==
  LET d == D(x) IN
  IF ~IsNone(d.otb) THEN Succ(x) ELSE
  LET x0 == SetD(x, [d EXCEPT !.preimage = TRUE]) IN
  LET g1 == Gate(x0, "ln.invoice") IN IF g1.crashed THEN g1 ELSE IF g1.go # "" THEN Fail(g1, "invoice") ELSE
  LET g1a == After(g1, "ln.invoice") IN IF g1a.crashed THEN g1a ELSE
  LET g5 == Gate(g1a, "chain.height") IN IF g5.crashed THEN g5 ELSE IF g5.go # "" THEN Fail(g5, "height") ELSE   \* height is looked up before the broadcast
  LET g2 == Gate(g5, "wallet.open") IN IF g2.crashed THEN g2 ELSE IF g2.go # "" THEN Fail(g2, "funding failed") ELSE
  LET k == Get(g2.nd.opens, d.sid, 0) + 1
      tx == "txM-" \o d.sid \o "-" \o ToString(k)
      hash == "hC-" \o d.sid \o "-" \o ToString(k)
      e == [ev |-> "wallet.open", sid |-> d.sid, chain |-> DChain(d), tx |-> tx, vout |-> cf.vout, amount |-> DOpenSat(d), csv |-> CsvOf(d), hash |-> hash]
      g3 == After([Emit(g2, e) EXCEPT !.nd.opens = Put(@, d.sid, k)], "wallet.open")
  IN IF g3.crashed THEN g3 ELSE
  LET g4 == Gate(g3, "wallet.label") IN IF g4.crashed THEN g4 ELSE
  LET inv == [hash |-> hash, msat |-> DClaimSat(d) * 1000, cltv |-> InvCltvOf(d), payee |-> "me", expiry |-> IF DChain(d) = "btc" THEN 86400 ELSE 3600]
      otb == [tx |-> tx, vout |-> cf.vout, inv |-> inv, blind |-> IF DChain(d) = "lbtc" THEN "good" ELSE ""]
      c == [tx |-> tx, vout |-> cf.vout, blind |-> DChain(d) = "lbtc", inv_msat |-> inv.msat, inv_hash |-> hash, inv_cltv |-> inv.cltv, inv_expiry |-> inv.expiry]
      d2 == [D(g4) EXCEPT !.start = Tip(g4, DChain(d)), !.start_set = IF V7Liquid(d) THEN TRUE ELSE @, !.txhex = tx, !.otb = otb,
                          !.next = [kind |-> "opening_tx_broadcasted", c |-> c]]
  IN Succ(SetD(g4, d2))

AddNotifier(x, kind) ==
  LET g == Gate(x, "ln.notifier") IN IF g.crashed THEN g ELSE
  LET g2 == [g EXCEPT !.nd.notif = @ \cup {[sid |-> x.sid, kind |-> kind]}] IN
  After(IF <<x.sid, kind>> \in o.paidin THEN Enq([g2 EXCEPT !.nd.notif = @ \ {[sid |-> x.sid, kind |-> kind]}], [k |-> "paid", sid |-> x.sid, kind |-> kind, ok |-> TRUE, tx |-> ""]) ELSE g2, "ln.notifier")

AddCsvWatch(x) ==
  LET d == D(x)  g == Gate(x, "watch.csv") IN IF g.crashed THEN g ELSE
  PollWatch(After([g EXCEPT !.nd.wcsv = {r \in @ : r.sid # d.sid} \cup {[sid |-> d.sid, tx |-> d.otb.tx, vout |-> d.otb.vout, start |-> d.start, csv |-> CsvOf(d)]}], "watch.csv"))

ActAwaitFeeInvoicePayment(x) == LET a == AddNotifier(x, "fee") IN IF a.crashed THEN a ELSE Out(a, "NoOp")
ActAwaitPaymentOrCsv(x) ==
  LET a == AddNotifier(x, "claim") IN IF a.crashed THEN a ELSE
  LET b == AddCsvWatch(a) IN IF b.crashed THEN b ELSE Out(b, "NoOp")
ActAwaitCsv(x) == LET b == AddCsvWatch(x) IN IF b.crashed THEN b ELSE Out(b, "NoOp")

ActSetStartingBlockHeight(x) ==
  LET d == D(x)  g == Gate(x, "chain.height") IN IF g.crashed THEN g ELSE IF g.go # "" THEN Out(g, "Event_ActionFailed") ELSE
  LET tip == Tip(g, DChain(d)) IN
  IF V7Liquid(d) THEN (IF WindowOK(d, tip) THEN Out(g, "NoOp") ELSE Fail(g, "claim payment window"))
  ELSE IF d.start = 0 THEN Out(SetD(g, [d EXCEPT !.start = tip]), "NoOp")
  ELSE IF tip >= d.start + (IF DChain(d) = "btc" THEN 504 ELSE 30) THEN Fail(g, "too close to csv")
  ELSE Out(g, "NoOp")

InvOK(d, inv) ==
  IF DChain(d) = "btc" THEN inv.cltv <= 504 /\ inv.msat = DClaimSat(d) * 1000
  ELSE inv.cltv >= 0 /\ inv.cltv <= (IF DVer(d) = 7 THEN 29 ELSE 29) /\ inv.msat = DClaimSat(d) * 1000

\* LightningClient.RecoverClaimPayment: a legacy (protocol 6) Liquid swap never starts a claim payment, it only follows one that
\* exists (waits for an in-flight HTLC to resolve; as harness/l1/ln.go: the outcome "fail" makes the in-flight HTLC fail)
LegacyRecover(x0, event) ==
  LET d == D(x0)  g == Gate(x0, "ln.recover") IN IF g.crashed THEN g ELSE
  IF g.go = "err" THEN Fail(g, "recover legacy claim payment") ELSE
  LET st == PayStatus(g, d.sid)
      res == IF st = "inflight" THEN (IF g.go = "fail" THEN "waited_failed" ELSE "waited_settled") ELSE st
      nst == IF res = "waited_failed" THEN "failed" ELSE IF res = "waited_settled" THEN "succeeded" ELSE st
      g2 == Emit([g EXCEPT !.nd.peerinv = Put(@, <<d.sid, "status">>, nst)], [ev |-> "ln.recover", sid |-> d.sid, res |-> res])
  IN IF nst = "succeeded" THEN Out(SetD(g2, [d EXCEPT !.preimage = TRUE]), event) ELSE Fail(g2, "recover legacy claim payment")

ActAwaitTxConfirmation(x) ==
  LET d == D(x) IN
  IF DChain(d) = "lbtc" /\ DVer(d) # 7 THEN
     (IF d.txhex = "" THEN Fail(x, "claim payments are disabled for legacy swaps") ELSE LegacyRecover(x, "Event_OnTxConfirmed"))
  ELSE
  LET g1 == Gate(x, "ln.decode") IN IF g1.crashed THEN g1 ELSE IF g1.go # "" THEN Fail(g1, "decode") ELSE
  IF ~InvOK(d, d.otb.inv) THEN Fail(g1, "unsafe invoice") ELSE
  LET x1 == SetD(g1, [d EXCEPT !.claim_hash = d.otb.inv.hash])
      g2 == Gate(x1, "chain.height") IN IF g2.crashed THEN g2 ELSE IF g2.go # "" THEN Fail(g2, "could not get block height") ELSE
  LET tip == Tip(g2, DChain(d)) IN
  IF DChain(d) = "btc" /\ (d.start = 0 \/ tip >= d.start + 504) THEN Fail(g2, "exceeded safe swap range")
  ELSE IF DChain(d) = "lbtc" /\ ~WindowOK(d, tip) THEN Fail(g2, "claim payment window")
  ELSE LET g3 == Gate(g2, "watch.conf") IN IF g3.crashed THEN g3 ELSE
       Out(PollWatch(After([g3 EXCEPT !.nd.wconf = {r \in @ : r.sid # d.sid} \cup {[sid |-> d.sid, tx |-> d.otb.tx, vout |-> d.otb.vout, start |-> d.start, window |-> WindowOf(d)]}], "watch.conf")), "NoOp")

\* the validator accepts iff the transaction has an output to the script built from the swap's own parameters
TxValidFor(d) == d.txhex \in DOMAIN o.tx /\ o.tx[d.txhex].any_good /\ o.tx[d.txhex].hash_locked /\ o.tx[d.txhex].inv_hash = d.claim_hash

RECURSIVE PayLoop(_, _)
PayLoop(x, k) ==
  IF x.crashed THEN x ELSE
  LET d == D(x) IN
  IF k > 4 THEN Fail(x, "could not pay invoice: timeout") ELSE
  LET g1 == Gate(x, "chain.height") IN IF g1.crashed THEN g1 ELSE IF g1.go # "" THEN Fail(g1, "height") ELSE
  LET tip == Tip(g1, DChain(d)) IN
  IF DChain(d) = "btc" /\ tip - d.start > 504 THEN Fail(g1, "passed csv limit")
  ELSE IF DChain(d) = "lbtc" /\ ~WindowOK(d, tip) THEN Fail(g1, "outside the safe window")
  ELSE
  LET g2 == Gate(g1, "ln.payclaim") IN IF g2.crashed THEN g2 ELSE
  LET st == PayStatus(g2, d.sid)
      inv == d.otb.inv
  IN IF st = "succeeded" THEN (IF cf.duppay = "lnd" THEN PayLoop(g2, k + 1)      \* lnd refuses to pay an invoice twice ("invoice is already paid"); lightningd returns the completed payment
                                ELSE Succ(SetD(g2, [d EXCEPT !.preimage = TRUE])))
     ELSE IF st = "inflight" THEN PayLoop(g2, k + 1)
     ELSE IF MaxDeltaOf(d) # 0 /\ (inv.cltv < 0 \/ inv.cltv + 1 > MaxDeltaOf(d)) THEN PayLoop(g2, k + 1)
     ELSE
     LET payable == inv.payee = d.peer /\ Get(inv, "payable", TRUE)
         adv == g2.go = "fail_adv"      \* the attempt fails and meanwhile the chain advances by a whole payment window
         oc == IF g2.go = "" /\ ~payable THEN "fail" ELSE IF g2.go = "err_settled" /\ ~payable THEN "fail" ELSE IF g2.go \in {"err", "fail_adv"} THEN "fail" ELSE g2.go
         nst == CASE oc = "" -> "succeeded" [] oc = "err_settled" -> "succeeded" [] oc = "err_pending" -> "inflight" [] OTHER -> "failed"
         e == [ev |-> "ln.htlc", sid |-> d.sid, hash |-> inv.hash, msat |-> inv.msat, maxdelta |-> MaxDeltaOf(d), cltv |-> inv.cltv,
               delta |-> inv.cltv + 1, payee |-> inv.payee, res |-> IF oc = "" THEN "ok" ELSE oc]
         ge == Emit(g2, e)
         ga == IF adv THEN [Emit(ge, [ev |-> "block", chain |-> DChain(d), tip |-> Tip(ge, DChain(d)) + WindowOf(d), n |-> WindowOf(d), included |-> <<>>, conf_at |-> Tip(ge, DChain(d)) + 1])
                             EXCEPT !.nd.tipadd = @ + WindowOf(d)] ELSE ge
         g3 == After([ga EXCEPT !.nd.peerinv = Put(@, <<d.sid, "status">>, nst)], "ln.payclaim")
     IN IF g3.crashed THEN g3 ELSE IF oc = "" THEN Succ(SetD(g3, [d EXCEPT !.preimage = TRUE])) ELSE PayLoop(g3, k + 1)

ActValidateTxAndPay(x) ==
  IF D(x).preimage THEN Succ(x) ELSE     \* already paid (restart after the payment result was stored): go on claiming, whatever fails now
  LET d == D(x)  g == Gate(x, "validate") IN IF g.crashed THEN g ELSE IF g.go # "" THEN Fail(g, "validator") ELSE
  IF ~TxValidFor(d) THEN Fail(g, "tx is not valid") ELSE
  IF DChain(d) = "lbtc" /\ DVer(d) # 7 THEN LegacyRecover(g, "Event_ActionSucceeded")
  ELSE PayLoop(g, 1)

SpendOK(d) == d.txhex \in DOMAIN o.tx /\ o.tx[d.txhex].any_good
ActSpend(x, kind, failEvent) ==
  LET d == D(x) IN
  IF d.claim_tx THEN Succ(x) ELSE
  LET g == Gate(x, "wallet.spend." \o kind) IN IF g.crashed THEN g ELSE
  LET tx == IF kind = "preimage" THEN d.txhex ELSE d.otb.tx
      conf == TxConf(g, tx)
      ok == g.go = "" /\ tx \notin g.nd.spentout /\ tx \in DOMAIN o.tx
            /\ (kind = "csv" => conf > 0 /\ o.tip[CHAIN] - conf + 1 >= CsvOf(d))
            /\ (kind = "coop" => ~IsNone(d.coop) /\ d.coop.key = "good")
            /\ (kind = "preimage" => SpendOK(d) /\ d.preimage)
      e == [ev |-> "wallet.spend", sid |-> d.sid, chain |-> DChain(d), kind |-> kind, ok |-> ok]
      g2 == Emit(g, e)
  IN IF ~ok THEN Out(g2, failEvent)
     ELSE LET g3 == After([g2 EXCEPT !.nd.spentout = @ \cup {tx}], "wallet.spend." \o kind) IN IF g3.crashed THEN g3 ELSE
          LET g4 == Gate(SetD(g3, [D(g3) EXCEPT !.claim_tx = TRUE]), "wallet.label") IN IF g4.crashed THEN g4 ELSE Succ(g4)

ActTakerSendPrivkey(x) == Succ(SetD(x, [D(x) EXCEPT !.next = [kind |-> "coop_close", c |-> [privkey_len |-> 64]]]))
ActSendCancel(x) ==
  LET d == D(x)
      s == SendMsg(x, "cancel", d.peer, d.sid, TRUE, [text |-> "cancel"]) IN   \* the swap id is part of the swap data from creation
  IF s.crashed THEN s ELSE IF s.go # "" THEN Fail(s, "send failed") ELSE Succ(s)

RECURSIVE RunChain(_, _)
RunChain(x, names) ==
  IF x.crashed THEN x ELSE
  IF names = <<>> THEN Out(x, "Event_ActionFailed") ELSE
  LET a == Head(names)  rest == Tail(names)
      Wrap(r) == IF r.crashed \/ r.out # "cont" THEN r ELSE RunChain(r, rest)
  IN CASE a = "CheckRequestWrapperAction" -> Wrap(ActCheckRequest(x))
       [] a = "SetBlindingKeyActionWrapper" -> RunChain(x, rest)
       [] a = "CheckPremiumAmount" -> Wrap(ActCheckPremium(x))
       [] a = "StopSendMessageWithRetryWrapperAction" -> RunChain(StopSender(x), rest)
       [] a = "AddSuspiciousPeerAction" -> RunChain([x EXCEPT !.nd.suspfile = TRUE], rest)
       [] a = "SwapInReceiverInitAction" -> ActSwapInReceiverInit(x)
       [] a = "CreateSwapOutFromRequestAction" -> ActCreateSwapOutFromRequest(x)
       [] a = "CreateSwapRequestAction" -> ActCreateSwapRequest(x)
       [] a = "SendMessageAction" -> ActSendMessage(x)
       [] a = "SendMessageWithRetryAction" -> ActSendMessageWithRetry(x)
       [] a = "PayFeeInvoiceAction" -> ActPayFeeInvoice(x)
       [] a = "CreateAndBroadcastOpeningTransaction" -> ActCreateAndBroadcastOpening(x)
       [] a = "AwaitFeeInvoicePayment" -> ActAwaitFeeInvoicePayment(x)
       [] a = "AwaitPaymentOrCsvAction" -> ActAwaitPaymentOrCsv(x)
       [] a = "AwaitCsvAction" -> ActAwaitCsv(x)
       [] a = "SetStartingBlockHeightAction" -> ActSetStartingBlockHeight(x)
       [] a = "AwaitTxConfirmationAction" -> ActAwaitTxConfirmation(x)
       [] a = "ValidateTxAndPayClaimInvoiceAction" -> ActValidateTxAndPay(x)
       [] a = "ClaimSwapTransactionWithPreimageAction" -> ActSpend(x, "preimage", "Event_OnRetry")
       [] a = "ClaimSwapTransactionWithCsv" -> ActSpend(x, "csv", "Event_OnRetry")
       [] a = "ClaimSwapTransactionCoop" -> ActSpend(x, "coop", "Event_ActionFailed")
       [] a = "TakerSendPrivkeyAction" -> ActTakerSendPrivkey(x)
       [] a = "SendCancelAction" -> ActSendCancel(x)
       [] a = "NoOpAction" -> Out(x, "NoOp")
       [] a = "NoOpDoneAction" -> Out(StopSender(x), "Event_Done")
       [] a = "CancelAction" -> Out(x, "Event_Done")
       [] OTHER -> [Emit(x, [ev |-> "fault", what |-> "spec-drift-unknown-action", in |-> a]) EXCEPT !.crashed = TRUE, !.res = "drift"]

(* ----------------------------------------------------- FSM engine (fsm.go) -- *)
RECURSIVE Loop(_, _, _)
Loop(x, event, retries) ==
  IF x.crashed THEN x ELSE
  LET d == D(x)  key == <<d.role, d.cur, event>> IN
  IF key \notin DOMAIN TransTable THEN [x EXCEPT !.res = "err:rejected"] ELSE
  LET nxt == TransTable[key]
      x1 == SetD(x, [d EXCEPT !.prev = d.cur, !.cur = nxt])
      acts == Get(ActionTable, <<d.role, nxt>>, <<>>)
  IN IF acts = <<>> THEN [x1 EXCEPT !.res = "err:other"] ELSE
  LET a == RunChain(x1, acts) IN IF a.crashed THEN a ELSE
  LET p == Persist(a) IN IF p.crashed THEN p ELSE IF p.go # "" THEN [p EXCEPT !.res = "err:other"] ELSE
  CASE a.out = "Event_Done" -> [p EXCEPT !.done = TRUE]
    [] a.out = "NoOp" -> p
    [] a.out = "Event_OnRetry" -> IF retries >= 2 THEN p ELSE Loop(p, a.out, retries + 1)
    [] OTHER -> Loop(p, a.out, retries)

CtxValid(c, d) ==
  CASE c.kind \in ReqKinds -> c.pubkey = "good" /\ c.req.assetcls \in {"own", "other"} /\ c.scidok
    [] c.kind \in AgrKinds -> c.pubkey = "good"
    [] c.kind = "opening_tx_broadcasted" -> (DChain(d) = "lbtc" => c.otb.blind # "malformed")
    [] c.kind = "coop_close" -> c.key # "malformed"
    [] OTHER -> TRUE
\* ApplyToSwapData; "exists" models AlreadyExistsError
CtxApply(c, d) ==
  CASE c.kind = "swap_in_request" -> IF ~IsNone(d.in_req) THEN ExistsErr ELSE [d EXCEPT !.in_req = c.req]
    [] c.kind = "swap_out_request" -> IF ~IsNone(d.out_req) THEN ExistsErr ELSE [d EXCEPT !.out_req = c.req]
    [] c.kind = "swap_in_agreement" -> IF ~IsNone(d.in_agr) THEN ExistsErr ELSE [d EXCEPT !.in_agr = c.agr]
    [] c.kind = "swap_out_agreement" -> IF ~IsNone(d.out_agr) THEN ExistsErr ELSE [d EXCEPT !.out_agr = c.agr]
    [] c.kind = "opening_tx_broadcasted" -> IF ~IsNone(d.otb) THEN ExistsErr ELSE [d EXCEPT !.otb = c.otb]
    [] c.kind = "cancel" -> [d EXCEPT !.cancel_obj = TRUE]
    [] c.kind = "coop_close" -> IF ~IsNone(d.coop) THEN ExistsErr ELSE [d EXCEPT !.coop = [key |-> c.key]]
    [] OTHER -> d

\* SendEvent: validate, refuse events the current state does not accept, apply the event context, persist, then the transition loop
SendEvent(x, event, c) ==
  IF x.crashed THEN x ELSE
  LET x0 == [x EXCEPT !.done = FALSE, !.res = "ok"] IN
  IF ~IsNone(c) /\ ~CtxValid(c, D(x0)) THEN
     LET p == Persist(x0) IN IF p.crashed THEN p ELSE IF p.go # "" THEN [p EXCEPT !.res = "err:other"] ELSE Loop(p, "Event_Invalid_Message", 0)
  ELSE
  IF ~IsNone(c) /\ <<D(x0).role, D(x0).cur, event>> \notin DOMAIN TransTable THEN [x0 EXCEPT !.res = "err:rejected"] ELSE
  LET nd2 == IF IsNone(c) THEN D(x0) ELSE CtxApply(c, D(x0)) IN
  IF nd2 = ExistsErr THEN [x0 EXCEPT !.res = "err:other"] ELSE
  LET p == Persist(SetD(x0, nd2)) IN IF p.crashed THEN p ELSE IF p.go # "" THEN [p EXCEPT !.res = "err:other"] ELSE Loop(p, event, 0)

Unreg(x) == IF ~x.crashed /\ x.done THEN [x EXCEPT !.nd.reg = @ \ {x.sid}] ELSE x
WithSid(x, s) == [x EXCEPT !.sid = s, !.done = FALSE]

\* lockSwap: one active swap per channel, whichever separator the channel id is written with
\* ... and swaps that are stored, unfinished and not yet restored occupy their channel too (requests can arrive before RecoverSwaps)
LockConflictFor(x, sid, scid) ==
  \/ \E s \in x.nd.reg : NScid(DScid(x.nd.mem[s])) = NScid(scid)
  \/ \E s \in DOMAIN x.nd.disk : s # sid /\ x.nd.disk[s].cur \notin Terminal /\ x.nd.disk[s].cur # "" /\ NScid(DScid(x.nd.disk[s])) = NScid(scid)
Lock(x, sid, data) == [x EXCEPT !.nd.reg = @ \cup {sid}, !.nd.mem = Put(@, sid, data), !.sid = sid, !.done = FALSE]

(* ------------------------------------------------ service handlers (service.go) -- *)
EvOfKind(k) == CASE k = "swap_out_agreement" -> "Event_OnFeeInvoiceReceived" [] k = "swap_in_agreement" -> "Event_SwapInSender_OnAgreementReceived"
                 [] k = "opening_tx_broadcasted" -> "Event_OnTxOpenedMessage" [] k = "cancel" -> "Event_OnCancelReceived"
                 [] k = "coop_close" -> "Event_OnCoopCloseReceived" [] OTHER -> "none"

KeyTok(x, sid) == "key-" \o sid \o "-" \o ToString(x.nd.keyn + 1)
Fresh(x, role, peer, sid) == [NewData(role, peer, sid) EXCEPT !.key = KeyTok(x, sid)]
BumpKey(x) == [x EXCEPT !.nd.keyn = @ + 1]

OnRequest(x, c, from, sid) ==
  LET amt == c.req.amount
      prem == Compute(amt, RateFor(from))
      cancel(y) == [SendCancelRaw(y, from, sid, TRUE) EXCEPT !.res = "err:other"]
  IN
  IF sid \in x.nd.reg \/ sid \in DOMAIN x.nd.disk THEN cancel(x) ELSE     \* a known swap id is never reused
  IF prem > c.req.limit THEN cancel(x) ELSE
  LET pre == IF c.kind = "swap_in_request" THEN
                LET g1 == Gate(x, "ln.canspend") IN IF g1.crashed \/ g1.go # "" THEN g1 ELSE
                LET g2 == Gate(g1, "ln.spendable") IN IF g2.crashed \/ g2.go # "" THEN g2 ELSE
                IF Cfg.spendable_msat < amt * 1000 THEN [g2 EXCEPT !.go = "low"] ELSE Gate(g2, "ln.probe")
             ELSE LET g1 == Gate(x, "ln.receivable") IN IF g1.crashed \/ g1.go # "" THEN g1 ELSE
                  IF Cfg.receivable_msat < amt * 1000 THEN [g1 EXCEPT !.go = "low"] ELSE g1
  IN IF pre.crashed THEN pre ELSE IF pre.go # "" THEN cancel(pre) ELSE
  IF LockConflictFor(pre, sid, c.req.scid) THEN cancel(pre) ELSE
  LET role == IF c.kind = "swap_in_request" THEN "in_receiver" ELSE "out_receiver"
      l == Lock(BumpKey(pre), sid, Fresh(pre, role, from, sid))
      ev == IF c.kind = "swap_in_request" THEN "Event_SwapInReceiver_OnRequestReceived" ELSE "Event_OnSwapOutRequestReceived"
  IN Unreg(SendEvent(l, ev, c))

OnPeerMessage(x, c, from, sid) ==
  IF c.kind = "raw" THEN x
  ELSE IF c.kind \in ReqKinds THEN OnRequest(x, c, from, sid)
  ELSE IF sid \notin x.nd.reg THEN [x EXCEPT !.res = "err:no_swap"]
  ELSE IF x.nd.mem[sid].peer # from THEN [x EXCEPT !.res = "err:unexpected_peer"]
  ELSE Unreg(SendEvent(WithSid(x, sid), EvOfKind(c.kind), c))

LocalInit(x, a, scid, sid, limppm) ==
  IF ~o.allowNew THEN [x EXCEPT !.res = "err:disabled"]
  ELSE IF o.susp \/ x.nd.suspfile THEN [x EXCEPT !.res = "err:suspicious"]
  ELSE
  LET g1 == Gate(x, "ln.canspend") IN IF g1.crashed THEN g1 ELSE IF g1.go # "" THEN [g1 EXCEPT !.res = "err:other"] ELSE
  LET g2 == Gate(g1, IF a = "swapout" THEN "ln.spendable" ELSE "ln.receivable") IN IF g2.crashed THEN g2 ELSE IF g2.go # "" THEN [g2 EXCEPT !.res = "err:other"] ELSE
  IF (IF a = "swapout" THEN Cfg.spendable_msat ELSE Cfg.receivable_msat) < AMOUNT * 1000 THEN [g2 EXCEPT !.res = "err:other"] ELSE     \* exceeding spendable / receivable amount
  LET g3 == IF a = "swapin" THEN Gate(Gate(g2, "wallet.balance"), "wallet.fee") ELSE g2 IN IF g3.crashed THEN g3 ELSE IF g3.go # "" THEN [g3 EXCEPT !.res = "err:other"] ELSE
  IF a = "swapin" /\ AMOUNT > Cfg.wallet_sat - OPENFEE THEN [g3 EXCEPT !.res = "err:other"] ELSE     \* exceeding maximum swap amount (on-chain balance minus the opening fee)
  IF LockConflictFor(g3, sid, scid) THEN [g3 EXCEPT !.res = "err:active_swap"] ELSE
  LET role == IF a = "swapout" THEN "out_sender" ELSE "in_sender"
      l == Lock(BumpKey(g3), sid, Fresh(g3, role, "peer", sid))
      req == [ver |-> 7, chain |-> CHAIN, assetcls |-> "own", scid |-> scid, amount |-> AMOUNT, limit |-> Compute(AMOUNT, limppm), pub |-> "good"]
      c == [kind |-> IF a = "swapout" THEN "swap_out_request" ELSE "swap_in_request", req |-> req, pubkey |-> "good", scidok |-> TRUE]
  IN Unreg(SendEvent(l, IF a = "swapout" THEN "Event_OnSwapOutStarted" ELSE "Event_SwapInSender_OnSwapInRequested", c))

\* callbacks posted by the watcher / payment notifier / timer
RunCallback(x, cb) ==
  IF cb.sid \notin x.nd.reg THEN x ELSE
  LET y == WithSid(x, cb.sid) IN
  CASE cb.k = "paid" -> Unreg(SendEvent(y, IF cb.kind = "fee" THEN "Event_OnFeeInvoicePaid" ELSE "Event_OnClaimInvoicePaid", None))
    [] cb.k = "csv" -> Unreg(SendEvent(y, "Event_OnCsvPassed", None))
    [] cb.k = "timeout" -> Unreg(SendEvent(y, "Event_OnTimeout", None))
    [] cb.k = "conf" ->
         IF cb.ok THEN Unreg(SendEvent(SetD(y, [D(y) EXCEPT !.txhex = cb.tx]), "Event_OnTxConfirmed", None))
         ELSE LET f == Unreg(SendEvent(y, "Event_ActionFailed", None)) IN
              IF f.crashed THEN f ELSE Unreg(SendEvent(SetD(WithSid(f, cb.sid), [f.nd.mem[cb.sid] EXCEPT !.txhex = ""]), "Event_OnTxConfirmed", None))
    [] OTHER -> x

RECURSIVE DrainQ(_, _)
DrainQ(x, fuel) ==
  IF x.crashed \/ x.nd.q = <<>> \/ fuel = 0 THEN x
  ELSE LET cb == Head(x.nd.q) IN DrainQ(RunCallback([x EXCEPT !.nd.q = Tail(@)], cb), fuel - 1)

\* Recover (fsm.go) for every unfinished record (RecoverSwaps)
RecoverOne(x, sid) ==
  LET d == x.nd.disk[sid] IN
  IF d.cur \in Terminal \/ LockConflictFor(x, sid, DScid(d)) THEN x ELSE
  LET l == Lock(x, sid, d) IN
  IF <<d.role, d.cur>> \in FailOnRecover THEN Unreg(SendEvent(l, "Event_ActionFailed", None)) ELSE
  LET acts == Get(ActionTable, <<d.role, d.cur>>, <<>>) IN
  IF acts = <<>> THEN l ELSE
  LET a == RunChain(l, acts) IN IF a.crashed THEN a ELSE
  LET p == Persist(a) IN IF p.crashed \/ p.go # "" \/ a.out = "NoOp" THEN p ELSE Unreg(SendEvent(p, a.out, None))
RECURSIVE RecoverAll(_, _)
RecoverAll(x, sids) == IF sids = <<>> \/ x.crashed THEN x ELSE RecoverAll(RecoverOne(x, Head(sids)), Tail(sids))

(* --------------------------------------------------------- environment -- *)
BlankMsg == [kind |-> "", from |-> "peer", sid |-> "new", v |-> "", chain |-> "", scid |-> "", amt |-> "", ver |-> 0, limit |-> "", asset |-> "",
             pubkey |-> "", premium |-> "", outs |-> <<>>, vout |-> "", inv_msat |-> "", inv_hash |-> "", inv_cltv |-> 0, blind |-> "",
             confirm |-> 0, raw |-> "", raw_type |-> ""]
GoodOut == [amt |-> "exact", script |-> "good", asset |-> "policy", blind |-> "ok"]
ChangeOut == [amt |-> "other", script |-> "p2wpkh", asset |-> "policy", blind |-> "ok"]
OutGood(oo) == oo.amt = "exact" /\ oo.script = "good" /\ oo.asset = "policy" /\ oo.blind = "ok"
AmtOf(c) == IF c = "belowmin" THEN 99999 ELSE IF c = "min" THEN 100000 ELSE AMOUNT
LimitOf(c, amt) == CASE c \in {"", "ok"} -> amt [] c = "zero" -> 0 [] c = "neg" -> -1 [] c = "exact" -> Compute(amt, EffRate)
                     [] c = "low" -> Compute(amt, EffRate) - 1 [] OTHER -> amt
\* "huge" stands for a premium near MaxInt64 (the harness sends MaxInt64; TLC integers are 32-bit, the model only needs "far above any limit")
PremOf(c, amt, lim) == CASE c \in {"", "zero"} -> 0 [] c = "small" -> 100 [] c = "limit" -> lim [] c = "over" -> lim + 1 [] c = "neg" -> -1000
                         [] c = "huge" -> 1000000000 [] OTHER -> 0

KnownData(n, sid) == IF sid \in DOMAIN n.mem THEN n.mem[sid] ELSE IF sid \in DOMAIN n.disk THEN n.disk[sid] ELSE None

\* what the harness' PeerSim.Craft builds from a message step: the event context handed to the node (+ the peer's transaction)
CtxOfMsg(n, m, sid) ==
  LET kd == KnownData(n, sid)
      amt == IF IsNone(kd) THEN AMOUNT ELSE DAmount(kd)
      lim == IF IsNone(kd) THEN AMOUNT ELSE DLimit(kd)
      pk == IF m.pubkey \in {"", "good"} THEN "good" ELSE "bad"
  IN
  CASE m.kind \in ReqKinds ->
         LET a == AmtOf(m.amt) IN
         [kind |-> m.kind, pubkey |-> pk, scidok |-> TRUE,
          req |-> [ver |-> IF m.ver = 0 THEN 7 ELSE m.ver, chain |-> IF m.chain = "" THEN CHAIN ELSE m.chain,
                   assetcls |-> IF m.asset = "" THEN "own" ELSE m.asset, scid |-> IF m.scid = "" THEN "100x1x1" ELSE m.scid,
                   amount |-> a, limit |-> LimitOf(m.limit, a), pub |-> pk]]
    [] m.kind = "swap_out_agreement" ->
         [kind |-> m.kind, pubkey |-> pk,
          agr |-> [premium |-> PremOf(m.premium, amt, lim), pub |-> pk, feehash |-> "hF-" \o sid \o "-" \o m.from \o m.v \o m.premium, feepayee |-> m.from,
                   feemsat |-> (CASE m.v = "fee_high" -> (3 * OPENFEE + 1) * 1000 [] m.v = "fee_max" -> 3 * OPENFEE * 1000 [] OTHER -> OPENFEE * 1000)]]
    [] m.kind = "swap_in_agreement" -> [kind |-> m.kind, pubkey |-> pk, agr |-> [premium |-> PremOf(m.premium, amt, lim), pub |-> pk]]
    [] m.kind = "opening_tx_broadcasted" /\ <<sid, m.from, m.v>> \in DOMAIN n.ptxs -> n.ptxs[<<sid, m.from, m.v>>]   \* re-announcement of the same transaction and invoice
    [] m.kind = "opening_tx_broadcasted" ->
         LET claim == IF IsNone(kd) \/ DClaimSat(kd) > 2000000 \/ DClaimSat(kd) < 0 THEN AMOUNT ELSE DClaimSat(kd)   \* (32-bit guard for the "huge" premium class)
             chain == IF IsNone(kd) \/ DChain(kd) = "" THEN CHAIN ELSE DChain(kd)
             cltv == IF m.inv_cltv = 0 THEN (IF chain = "btc" THEN 503 ELSE 29) ELSE m.inv_cltv
             tx == "txP-" \o sid \o "-" \o m.from \o m.v
             hash == "hP-" \o sid \o "-" \o m.from \o m.v
             outs == IF m.outs = <<>> THEN <<GoodOut, ChangeOut>> ELSE m.outs
         IN [kind |-> m.kind, tx |-> tx,
             any_good |-> (\E i \in 1..Len(outs) : OutGood(outs[i])) /\ (chain = "lbtc" => m.blind \in {"", "good"}),
             hash_locked |-> m.inv_hash # "other", chain |-> chain,
             otb |-> [tx |-> tx, vout |-> 0, blind |-> IF chain = "btc" THEN "" ELSE IF m.blind = "" THEN "good" ELSE m.blind,
                      inv |-> [hash |-> hash, msat |-> claim * 1000 + (CASE m.inv_msat = "plus" -> 1000 [] m.inv_msat = "minus" -> -1000 [] OTHER -> 0),
                               cltv |-> cltv, payee |-> m.from, payable |-> TRUE]]]
    [] m.kind = "cancel" -> [kind |-> m.kind]
    [] m.kind = "coop_close" -> [kind |-> m.kind, key |-> IF m.v = "" THEN "good" ELSE m.v]
    [] OTHER -> [kind |-> "raw"]

Labels(n) == DOMAIN n.mem \cup DOMAIN n.disk
NewLabel(n) == "s" \o ToString(n.nswaps + 1)
RoleOf(n, s) == LET kd == KnownData(n, s) IN IF IsNone(kd) THEN "none" ELSE kd.role

OpenShapes == {[BlankMsg EXCEPT !.kind = "opening_tx_broadcasted", !.v = "good"],
               [BlankMsg EXCEPT !.kind = "opening_tx_broadcasted", !.v = "otherkey", !.outs = <<[GoodOut EXCEPT !.script = "otherkey"], ChangeOut>>],
               [BlankMsg EXCEPT !.kind = "opening_tx_broadcasted", !.v = "minus", !.outs = <<[GoodOut EXCEPT !.amt = "minus"], ChangeOut>>],
               [BlankMsg EXCEPT !.kind = "opening_tx_broadcasted", !.v = "hashother", !.inv_hash = "other"],
               [BlankMsg EXCEPT !.kind = "opening_tx_broadcasted", !.v = "invplus", !.inv_msat = "plus"],
               [BlankMsg EXCEPT !.kind = "opening_tx_broadcasted", !.v = "cltv600", !.inv_cltv = 600]}
\* messages the counterparty of swap s may send (honest and dishonest variants)
PeerMsgs(n, s) ==
  LET r == RoleOf(n, s)  M(m) == [m EXCEPT !.sid = s] IN
  (IF r = "out_sender" THEN {M([BlankMsg EXCEPT !.kind = "swap_out_agreement", !.premium = p, !.v = v]) : p \in (IF cf.neglimit THEN {"small", "over", "huge", "neg"} ELSE {"small", "over", "zero"}), v \in {"", "fee_high"}} ELSE {})
  \cup (IF r = "in_sender" THEN {M([BlankMsg EXCEPT !.kind = "swap_in_agreement", !.premium = p]) : p \in (IF cf.neglimit THEN {"small", "over", "huge", "neg"} ELSE {"small", "over"})} ELSE {})
  \cup (IF r \in Takers THEN {M(m) : m \in OpenShapes} ELSE {})
  \cup (IF r \in Makers THEN {M([BlankMsg EXCEPT !.kind = "coop_close", !.v = v]) : v \in {"", "wrongkey", "malformed"}} ELSE {})
  \cup {M([BlankMsg EXCEPT !.kind = "cancel"])}
\* adversarial extras: third parties, wrong kinds, id reuse, malformed fields
AdvMsgs(n, s) ==
  LET M(m) == [m EXCEPT !.sid = s] IN
  {M([BlankMsg EXCEPT !.kind = k, !.from = "third"]) : k \in {"cancel", "coop_close", "swap_out_agreement", "swap_in_agreement", "opening_tx_broadcasted"}}
  \cup {M([BlankMsg EXCEPT !.kind = k, !.from = f]) : k \in ReqKinds, f \in {"peer", "third"}}
  \cup {M([BlankMsg EXCEPT !.kind = k]) : k \in {"swap_out_agreement", "swap_in_agreement", "opening_tx_broadcasted", "coop_close"}}
  \cup {M([BlankMsg EXCEPT !.kind = "swap_out_agreement", !.pubkey = "short"])}
\* junk on the wire: peerswap type numbers with malformed payloads, foreign / even / non-hex type strings, oversized payloads
RawMsgs == {[BlankMsg EXCEPT !.kind = "raw", !.raw_type = t, !.raw = r] :
              t \in {"a455", "a457", "a459", "a45b", "a45d", "a45f", "a461"}, r \in {"null", "{}", "[1]", "{\"swap_id\":null}", "{\"swap_id\":\"zz\"}", "{\"swap_id\":\"\"}", "{\"swap_id\":\"abcd\"}", "big"}}
           \cup {[BlankMsg EXCEPT !.kind = "raw", !.raw_type = t, !.raw = "{}"] : t \in {"a456", "a463", "a465", "ffff", "zz", "", "1"}}
NewReqs == {[BlankMsg EXCEPT !.kind = k] : k \in (INITS \cap ReqKinds)}
AdvNewReqs ==
  {[BlankMsg EXCEPT !.kind = k, !.scid = "100:1:1"] : k \in (INITS \cap ReqKinds)}
  \cup {[BlankMsg EXCEPT !.kind = k, !.ver = 6] : k \in (INITS \cap ReqKinds)}
  \cup {[BlankMsg EXCEPT !.kind = k, !.limit = "low"] : k \in (INITS \cap ReqKinds)}
  \cup {[BlankMsg EXCEPT !.kind = k, !.pubkey = "short"] : k \in (INITS \cap ReqKinds)}
  \cup {[BlankMsg EXCEPT !.kind = k, !.asset = "other"] : k \in (INITS \cap ReqKinds)}
  \cup {[BlankMsg EXCEPT !.kind = k, !.amt = "belowmin"] : k \in (INITS \cap ReqKinds)}
  \cup {[BlankMsg EXCEPT !.kind = k, !.amt = "min"] : k \in (INITS \cap ReqKinds)}
  \cup {[BlankMsg EXCEPT !.kind = k, !.from = "third"] : k \in (INITS \cap ReqKinds)}
  \* a request for the chain this node has switched off (only then: the model follows one chain)
  \cup (IF cf.onlyown THEN {[BlankMsg EXCEPT !.kind = k, !.chain = IF CHAIN = "btc" THEN "lbtc" ELSE "btc"] : k \in (INITS \cap ReqKinds)} ELSE {})
MsgMenu(n) ==
  UNION {PeerMsgs(n, s) : s \in Labels(n)}
  \cup (IF n.nswaps < MAXSWAPS THEN NewReqs ELSE {})
  \cup (IF ADVERSARY THEN UNION {AdvMsgs(n, s) : s \in Labels(n)} \cup (IF n.nswaps < MAXSWAPS THEN AdvNewReqs ELSE {}) \cup (IF cf.junk THEN RawMsgs ELSE {}) ELSE {})

FaultGates == {"msg.send", "chain.height", "ln.payclaim", "ln.payfee", "wallet.open", "wallet.spend.preimage", "wallet.spend.csv",
               "wallet.spend.coop", "ln.invoice", "validate", "persist", "ln.decode", "ln.probe", "wallet.fee", "ln.recover"}
FaultOutcomes(g) == IF g = "ln.payclaim" THEN {"fail", "err_pending", "err_settled", "fail_adv"} ELSE IF g = "ln.probe" THEN {"fail"} ELSE IF g = "ln.recover" THEN {"err", "fail"} ELSE {"err"}
CrashGates == {"persist", "wallet.open", "ln.payclaim", "ln.payfee", "msg.send", "wallet.spend.preimage", "wallet.spend.csv", "ln.invoice", "chain.height"}
Plans(n) ==
  {NoPlan}
  \cup (IF n.nfaults < MAXFAULTS THEN {[faults |-> (g :> <<oc, rep>>), crash |-> NoCrash] : g \in FaultGates, oc \in {"err", "fail", "err_pending", "err_settled", "fail_adv"}, rep \in BOOLEAN} ELSE {})
  \cup (IF n.ncrashes < MAXCRASHES THEN {[faults |-> <<>>, crash |-> [gate |-> g, occ |-> k, when |-> w]] : g \in CrashGates, k \in {1, 2, 3}, w \in {"before", "after"}} ELSE {})
AfterGates == {"persist", "wallet.open", "ln.payclaim", "ln.payfee", "msg.send", "wallet.spend.preimage", "wallet.spend.csv"}
PlanOK(p) == (\A g \in DOMAIN p.faults : p.faults[g][1] \in FaultOutcomes(g)) /\ (p.crash.when = "after" => p.crash.gate \in AfterGates)
PlanHit(p, occ) == (\A g \in DOMAIN p.faults : Get(occ, g, 0) >= 1) /\ (p.crash.gate = "" \/ Get(occ, p.crash.gate, 0) >= p.crash.occ)

(* ------------------------------------------------------- fold / steps -- *)
RECURSIVE Fold(_, _, _)
Fold(ob, vs, evs) == IF evs = <<>> THEN [o |-> ob, v |-> vs]
                     ELSE Fold(ApplyEv(ob, Head(evs)), vs \cup CheckEv(ob, Head(evs)), Tail(evs))

Down(n) == [n EXCEPT !.up = FALSE, !.mem = <<>>, !.reg = {}, !.timers = {}, !.notif = {}, !.wconf = {}, !.wcsv = {}, !.senders = {}, !.q = <<>>]
Settle(x) == IF x.res = "crash" THEN [x EXCEPT !.nd = Down(x.nd)] ELSE x
StepRec(a, extra, plan) ==
  extra @@ [a |-> a]
  @@ (IF plan.faults # <<>> THEN [faults |-> [g \in DOMAIN plan.faults |-> <<plan.faults[g][1] \o (IF plan.faults[g][2] THEN "*" ELSE "")>>]] ELSE <<>>)
  @@ (IF plan.crash.gate # "" THEN [crash |-> plan.crash] ELSE <<>>)
DriveEv(a, extra, plan) ==
  extra @@ [ev |-> "drive", a |-> a]
  @@ (IF plan.faults # <<>> THEN [faults |-> TRUE] ELSE <<>>) @@ (IF plan.crash.gate # "" THEN [crash_plan |-> TRUE] ELSE <<>>)

\* finish a Drive: fold the events, remember what Drain needs
Commit(x, pre, a, plan, sch) ==
  LET y == Settle(x)
      f == Fold(o, viol, pre \o y.evs)
  IN /\ o' = f.o /\ viol' = f.v
     /\ nd' = [y.nd EXCEPT !.phase = "drain", !.lastplan = NoPlan, !.lastraw = IF a = "msg" /\ "msg" \in DOMAIN sch /\ sch.msg.kind = "raw" THEN <<sch.msg.raw_type, sch.msg.raw>> ELSE <<>>,
                           !.occ = y.occ, !.plan = plan, !.res = y.res, !.a = a, !.nsteps = @ + 1,
                           \* what a recovery does depends on the records it finds: recoveries from different stored states are behaviours of their own (export key)
                           !.predisk = IF a \in {"restart", "recover"} THEN {<<nd.disk[s].role, nd.disk[s].cur, nd.disk[s].otb>> : s \in DOMAIN nd.disk} ELSE {},
                           !.nfaults = @ + (IF plan.faults # <<>> THEN 1 ELSE 0), !.ncrashes = @ + (IF plan.crash.gate # "" THEN 1 ELSE 0)]
     /\ sched' = Append(sched, sch) /\ UNCHANGED cf

Idle == nd.phase = "idle" /\ nd.nsteps < MAXSTEPS
Settled == ~nd.unrecovered   \* between Start() and RecoverSwaps() only messages arrive

DoLocal ==
  /\ Idle /\ Settled /\ nd.up /\ nd.nswaps < MAXSWAPS
  /\ \E a \in (INITS \cap {"swapout", "swapin"}), scid \in (IF ADVERSARY THEN {"100x1x1", "100:1:1"} ELSE {"100x1x1"}), plan \in Plans(nd),
        lim \in (IF cf.neglimit THEN {20000, -1000} ELSE {20000}) :
       /\ PlanOK(plan)
       /\ LET sid == NewLabel(nd)
              x == LocalInit(Ctx([nd EXCEPT !.nswaps = @ + 1], plan), a, scid, sid, lim)
              dr == DriveEv(a, [chain |-> CHAIN, scid |-> scid, to |-> "peer", amount |-> AMOUNT], plan)
          IN /\ PlanHit(plan, x.occ)
             /\ Commit(x, <<dr>>, a, plan, StepRec(a, [chain |-> CHAIN, scid |-> scid, amt |-> "typ", limit |-> lim], plan))

DoMsg ==
  /\ Idle /\ nd.up
  /\ \E m \in MsgMenu(nd), plan \in Plans(nd) :
       /\ PlanOK(plan)
       /\ LET fresh == m.sid = "new" /\ m.kind # "raw"
              sid == IF m.kind = "raw" THEN "none" ELSE IF fresh THEN NewLabel(nd) ELSE m.sid
              c == CtxOfMsg(nd, m, sid)
              n1 == [nd EXCEPT !.nswaps = IF fresh THEN @ + 1 ELSE @, !.ptx = IF m.kind \in {"opening_tx_broadcasted", "swap_out_agreement"} THEN @ + 1 ELSE @,
                                 !.ptxs = IF m.kind = "opening_tx_broadcasted" /\ <<sid, m.from, m.v>> \notin DOMAIN @ THEN Put(@, <<sid, m.from, m.v>>, c) ELSE @]
              pre == IF m.kind = "opening_tx_broadcasted"
                     THEN <<[ev |-> "tx.new", chain |-> c.chain, tx |-> c.tx, sid |-> sid, any_good |-> c.any_good, hash_locked |-> c.hash_locked, inv_hash |-> c.otb.inv.hash]>>
                     ELSE <<>>
              dr == DriveEv("msg", [kind |-> m.kind, from |-> m.from, sid |-> sid, msg |-> m, v |-> m.v], plan)
              x == OnPeerMessage(Ctx(n1, plan), c, m.from, sid)
          IN /\ PlanHit(plan, x.occ)
             /\ Commit(x, pre \o <<dr>>, "msg", plan, StepRec("msg", [msg |-> [m EXCEPT !.sid = IF fresh THEN "new" ELSE m.sid]], plan))

BlockSizes == BLOCKS
Mempool == {t \in DOMAIN o.tx : o.tx[t].conf = 0}
\* a block matters only while something is watched, waits in the mempool, or a taker's payment window is running
HeightMatters == nd.wconf # {} \/ nd.wcsv # {} \/ Mempool # {}
                 \/ \E s \in Labels(nd) : LET kd == KnownData(nd, s) IN kd.role \in Takers /\ kd.cur \notin Terminal /\ (kd.start > 0 \/ kd.start_set)
DoBlock ==
  /\ Idle /\ Settled /\ HeightMatters
  /\ \E n \in BlockSizes, incl \in BOOLEAN, plan \in Plans(nd) :
       /\ (incl => Mempool # {}) /\ PlanOK(plan) /\ (plan # NoPlan => nd.up /\ (nd.wconf # {} \/ nd.wcsv # {}))
       /\ LET tip == o.tip[CHAIN] + n
              e == [ev |-> "block", chain |-> CHAIN, tip |-> tip, n |-> n, included |-> IF incl THEN SetToSeq(Mempool) ELSE <<>>, conf_at |-> o.tip[CHAIN] + 1]
              x == Ctx([nd EXCEPT !.poll = TRUE], plan)
          IN Commit(x, <<DriveEv("block", [chain |-> CHAIN, n |-> n], plan), e>>, "block", plan,
                    StepRec("block", [chain |-> CHAIN, n |-> n, incl |-> IF incl THEN <<"all">> ELSE <<>>], plan))

\* invoices of mine the peer can pay
Payable == {<<s, "fee">> : s \in {t \in Labels(nd) : LET kd == KnownData(nd, t) IN kd.role = "out_receiver" /\ ~IsNone(kd.out_agr)}}
           \cup {<<s, "claim">> : s \in {t \in Labels(nd) : LET kd == KnownData(nd, t) IN kd.role \in Makers /\ ~IsNone(kd.otb)}}
DoPay ==
  /\ Idle /\ Settled
  /\ \E p \in (Payable \ o.paidin), plan \in Plans(nd) :
       /\ PlanOK(plan) /\ (plan # NoPlan => nd.up /\ \E nt \in nd.notif : nt.sid = p[1] /\ nt.kind = p[2])
       /\ LET due == {nt \in nd.notif : nt.sid = p[1] /\ nt.kind = p[2]}
              cbs == SetToSeq({[k |-> "paid", sid |-> nt.sid, kind |-> nt.kind, ok |-> TRUE, tx |-> ""] : nt \in due})
              x == Ctx([nd EXCEPT !.notif = @ \ due, !.q = @ \o cbs], plan)
          IN Commit(x, <<DriveEv("pay", [sid |-> p[1], kind |-> p[2]], plan), [ev |-> "ln.paid", sid |-> p[1], kind |-> p[2]]>>, "pay", plan,
                    StepRec("pay", [sid |-> p[1], kind |-> p[2]], plan))

DoHtlc ==
  /\ Idle /\ Settled
  /\ \E s \in DOMAIN o.claim, r \in {"settle", "fail"} :
       /\ o.claim[s].status = "inflight"
       /\ Commit(Ctx(nd, NoPlan), <<DriveEv("htlc", [sid |-> s, kind |-> r], NoPlan),
                                   [ev |-> "ln.htlcres", sid |-> s, res |-> IF r = "settle" THEN "settled" ELSE "failed"]>>, "htlc", NoPlan,
                 StepRec("htlc", [sid |-> s, kind |-> r], NoPlan))

\* ten minutes pass: every armed timer fires (the harness step "tick" advances the clock and fires what became due)
DoTimer ==
  /\ Idle /\ Settled /\ nd.up /\ o.now < 20
  /\ \E plan \in Plans(nd) :
       /\ PlanOK(plan)
       /\ LET ts == SetToSeq(nd.timers)
              fires == [i \in 1..Len(ts) |-> [ev |-> "timer.fire", sid |-> ts[i].sid, now |-> o.now + 10]]
              cbs == [i \in 1..Len(ts) |-> [k |-> "timeout", sid |-> ts[i].sid, kind |-> "", ok |-> TRUE, tx |-> ""]]
              x == Ctx([nd EXCEPT !.timers = {}, !.q = @ \o cbs], plan)
          IN Commit(x, <<DriveEv("tick", [m |-> 10], plan)>> \o fires, "tick", plan, StepRec("tick", [m |-> 10], plan))

VerStr(v) == IF v = "current" THEN "v0.2" ELSE IF v = "old" THEN "v0.1" ELSE "none"
DoRestart ==
  /\ Idle /\ Settled /\ nd.nrestarts < MAXCRASHES + 1
  /\ \E plan \in Plans(nd) :
       /\ PlanOK(plan)
       /\ LET active == \E s \in DOMAIN nd.disk : nd.disk[s].cur \notin Terminal
              ok == nd.ver = "current" \/ ~active          \* SafeUpgrade: the stored version changes only when no swap is active
              after == IF ok THEN "current" ELSE nd.ver
              n0 == [Down(nd) EXCEPT !.up = ok, !.epoch = @ + 1, !.nrestarts = @ + 1, !.recover = ok, !.ver = after]
              ds == IF ok THEN SetToSeq(DOMAIN nd.disk) ELSE <<>>
              rel == [i \in 1..Len(ds) |-> [ev |-> "reload", sid |-> ds[i], digest |-> nd.disk[ds[i]], cur |-> nd.disk[ds[i]].cur, finished |-> nd.disk[ds[i]].cur \in Terminal]]
              pre == <<DriveEv("restart", <<>>, plan)>> \o (IF nd.up THEN <<[ev |-> "stop", why |-> "shutdown"]>> ELSE <<>>)
                     \o <<[ev |-> "start", epoch |-> nd.epoch + 1, recover |-> TRUE],
                          [ev |-> "upgrade", ok |-> ok, before |-> VerStr(nd.ver), after |-> VerStr(after), current |-> VerStr("current")]>>
                     \o (IF ok THEN rel ELSE <<[ev |-> "stop", why |-> "upgrade refused"]>>)
          IN Commit(Ctx(n0, plan), pre, "restart", plan, StepRec("restart", <<>>, plan))

\* The operator changes the policy at run time (RPC: allowswaprequests, addpeer / removepeer, addsuspeer / removesuspeer): the
\* observer keeps the flags (they live in the policy file, so they survive restarts), requests and initiations read them.
DoPolicy ==
  /\ Idle /\ Settled /\ cf.policy /\ nd.up
  /\ \E k \in {"disable", "enable", "suspect", "unsuspect", "allow", "disallow"} :
       /\ CASE k = "disable" -> o.allowNew [] k = "enable" -> ~o.allowNew [] k = "suspect" -> ~o.susp /\ ~nd.suspfile [] k = "unsuspect" -> o.susp
            [] k = "allow" -> ~o.allowed [] k = "disallow" -> o.allowed [] OTHER -> FALSE
       /\ Commit(Ctx(nd, NoPlan), <<DriveEv("policy", [kind |-> k], NoPlan)>>, "policy", NoPlan, StepRec("policy", [kind |-> k], NoPlan))

\* An upgrade from a release that spoke protocol 6: while the node is down, the stored record of a Liquid taker becomes a legacy
\* record (harness step "downgrade": protocol_version 6 in request / agreement, no persisted anchor flag). Takers only: a maker's
\* legacy record belongs to an output whose script was built with the legacy CSV, which a rewritten record cannot provide.
LegacyRec(d) == [d EXCEPT !.in_req = IF IsNone(@) THEN @ ELSE [@ EXCEPT !.ver = 6], !.out_req = IF IsNone(@) THEN @ ELSE [@ EXCEPT !.ver = 6], !.start_set = FALSE]
DoDowngrade ==
  /\ Idle /\ Settled /\ cf.legacy /\ CHAIN = "lbtc" /\ \A t \in DOMAIN nd.disk : DVer(nd.disk[t]) # 6
  /\ \E s \in DOMAIN nd.disk :
       /\ nd.disk[s].role \in Takers /\ nd.disk[s].cur \notin Terminal /\ nd.disk[s].cur # "" /\ HasReq(nd.disk[s])
       /\ LET n0 == [Down(nd) EXCEPT !.disk = Put(@, s, LegacyRec(nd.disk[s]))]
              pre == <<DriveEv("downgrade", [sid |-> s], NoPlan)>> \o (IF nd.up THEN <<[ev |-> "stop", why |-> "shutdown"]>> ELSE <<>>)
                     \o <<[ev |-> "downgraded", sid |-> s, rec |-> Project(LegacyRec(nd.disk[s]))]>>
          IN Commit(Ctx(n0, NoPlan), pre, "downgrade", NoPlan, StepRec("downgrade", [sid |-> s], NoPlan))

\* The daemons register the message handler (Start) before RecoverSwaps: messages can arrive in between.
DoStart ==
  /\ Idle /\ ADVERSARY /\ nd.nrestarts < MAXCRASHES + 1 /\ nd.ver = "current" /\ ~nd.unrecovered
  /\ LET n0 == [Down(nd) EXCEPT !.up = TRUE, !.epoch = @ + 1, !.nrestarts = @ + 1, !.unrecovered = TRUE]
     IN Commit(Ctx(n0, NoPlan), <<DriveEv("start", <<>>, NoPlan)>> \o (IF nd.up THEN <<[ev |-> "stop", why |-> "shutdown"]>> ELSE <<>>) \o <<[ev |-> "start", epoch |-> nd.epoch + 1, recover |-> FALSE]>>, "start", NoPlan, StepRec("start", <<>>, NoPlan))
DoRecover ==
  /\ Idle /\ nd.up /\ nd.unrecovered
  /\ \E plan \in Plans(nd) :
       /\ PlanOK(plan)
       /\ LET ds == SetToSeq(DOMAIN nd.disk)
              rel == [i \in 1..Len(ds) |-> [ev |-> "reload", sid |-> ds[i], digest |-> nd.disk[ds[i]], cur |-> nd.disk[ds[i]].cur, finished |-> nd.disk[ds[i]].cur \in Terminal]]
              n0 == [nd EXCEPT !.recover = TRUE, !.unrecovered = FALSE]
          IN Commit(Ctx(n0, plan), <<DriveEv("recover", <<>>, plan), [ev |-> "upgrade", ok |-> TRUE, before |-> VerStr("current"), after |-> VerStr("current"), current |-> VerStr("current")]>> \o rel,
                    "recover", plan, StepRec("recover", <<>>, plan))

Snapshot(n) ==
  [ev |-> "quiesce", now |-> 0, up |-> n.up, suspicious_peer |-> n.suspfile,
   active |-> SetToSeq({[sid |-> s, scid |-> DScid(n.mem[s]), nscid |-> NScid(DScid(n.mem[s])), cur |-> n.mem[s].cur, peer |-> n.mem[s].peer, digest |-> n.mem[s]] : s \in n.reg}),
   disk |-> SetToSeq({[sid |-> s, cur |-> n.disk[s].cur, role |-> n.disk[s].role, digest |-> n.disk[s], scid |-> DScid(n.disk[s]),
                       nscid |-> NScid(DScid(n.disk[s])), peer |-> n.disk[s].peer] : s \in DOMAIN n.disk})]

Drain ==
  /\ nd.phase = "drain"
  /\ LET x0 == [Ctx(nd, nd.plan) EXCEPT !.occ = nd.occ, !.res = nd.res]
         x1 == IF ~nd.up THEN x0
               ELSE IF nd.recover THEN LET r == RecoverAll(x0, SetToSeq(DOMAIN nd.disk)) IN Emit(r, [ev |-> "recovered", res |-> ""])
               ELSE IF nd.poll THEN PollWatch(x0) ELSE x0
         x2 == Settle(DrainQ(x1, 8))
         res == IF nd.res # "ok" THEN nd.res ELSE IF x2.res \in {"crash", "panic"} THEN x2.res ELSE "ok"
         evs == x2.evs \o <<[ev |-> "ret", a |-> nd.a, res |-> res, up |-> x2.nd.up], Snapshot(x2.nd)>>
         f == Fold(o, viol, evs)
     IN \* a plan that is never reached is pruned - except failing services during recovery: a change of the code may add service calls to a recovery path
        /\ PlanHit(nd.plan, x2.occ) \/ nd.plan = NoPlan \/ (nd.a \in {"restart", "recover"} /\ nd.plan.crash.gate = "")
        /\ o' = f.o /\ viol' = f.v
        /\ nd' = [x2.nd EXCEPT !.phase = "idle", !.tipadd = 0, !.poll = FALSE,
                               \* (kept in the view: recovery under each failing service is a behaviour of its own even if today's code never calls that service there)
                               !.lastplan = IF nd.a \in {"restart", "recover"} THEN nd.plan ELSE NoPlan, !.recover = FALSE, !.occ = <<>>, !.plan = NoPlan, !.res = "ok", !.q = <<>>]
        /\ UNCHANGED <<sched, cf>>

Init == /\ cf \in CONFIGS /\ o = ApplyEv(ObsInit, [ev |-> "reset", cfg |-> Cfg]) /\ viol = {} /\ nd = [NdInit EXCEPT !.ver = cf.ver] /\ sched = <<>>
Next == DoLocal \/ DoMsg \/ DoBlock \/ DoPay \/ DoHtlc \/ DoTimer \/ DoRestart \/ DoStart \/ DoRecover \/ DoDowngrade \/ DoPolicy \/ Drain
Spec == Init /\ [][Next]_vars
\* the view hides counters and histories that do not influence future behaviour (BFS reaches each view state first by a shortest path)
NdView == [nd EXCEPT !.nsteps = 0, !.sentn = <<>>, !.keyn = 0, !.ptx = 0, !.epoch = 0, !.nrestarts = IF @ > MAXCRASHES THEN 1 ELSE 0, !.a = ""]
\* (between a Drive and its Drain the step itself is part of the view: two different steps whose effects so far look alike - e.g. two
\* requests both refused before anything is stored - must both be run to their end, so that both are exported as schedules)
View == <<cf.name, NdView, o.tip, o.tx, o.claim, o.paidin, o.now, o.allowNew, o.susp, o.allowed, o.open, o.spent, viol,
          IF nd.phase = "drain" /\ sched # <<>> THEN sched[Len(sched)] ELSE <<>>>>
===============================================================================
