----------------------------- MODULE PeerSwapObs -----------------------------
(* Observer part of the PeerSwap specification: the abstract state the      *)
(* properties talk about, how each event updates it (Apply), and the         *)
(* properties C01..C29 of the swap engine as checks evaluated at every event. *)
(* The same Apply is used by                                                  *)
(*   - PeerSwap.tla      : the design model of a node + environment emits     *)
(*                         events, TLC explores all interleavings;            *)
(*   - PeerSwapTrace.tla : events recorded from the REAL code (harness l1)    *)
(*                         are replayed one by one.                           *)
(* A violated check yields a signature string "Cxx|...".                      *)
EXTENDS Integers, Sequences, FiniteSets, TLC

Terminal == {"State_SwapCanceled", "State_ClaimedPreimage", "State_ClaimedCoop", "State_ClaimedCsv"}
Takers   == {"out_sender", "in_receiver"}
Makers   == {"out_receiver", "in_sender"}
Requesters == {"out_sender", "in_sender"}
ReqKinds == {"swap_out_request", "swap_in_request"}
AgrKinds == {"swap_out_agreement", "swap_in_agreement"}
WaitingForTaker == {"State_SwapOutReceiver_SendTxBroadcastedMessage", "State_SwapOutReceiver_AwaitClaimInvoicePayment",
                    "State_SwapInSender_SendTxBroadcastedMessage", "State_SwapInSender_AwaitClaimPayment"}

Abs(x) == IF x < 0 THEN -x ELSE x
\* amount * ratePPM / 10^6 truncated toward zero, computed without 32-bit overflow
Compute(a, r) == LET m == Abs(r)
                     q == ((a \div 1000) * m + ((a % 1000) * m) \div 1000) \div 1000
                 IN IF r < 0 THEN -q ELSE q
IsInt(x) == x \in Int
Has(e, f) == f \in DOMAIN e
Get(f, k, d) == IF k \in DOMAIN f THEN f[k] ELSE d
Put(f, k, v) == (k :> v) @@ f
B(b) == IF b THEN "T" ELSE "F"

MinConf(chain) == IF chain = "btc" THEN 3 ELSE 2
Csv(chain, ver) == IF chain = "btc" THEN 1008 ELSE IF ver = 6 THEN 60 ELSE 10080
TypeNo(kind) == CASE kind = "swap_in_request" -> 42069 [] kind = "swap_out_request" -> 42071
                  [] kind = "swap_in_agreement" -> 42073 [] kind = "swap_out_agreement" -> 42075
                  [] kind = "opening_tx_broadcasted" -> 42077 [] kind = "cancel" -> 42079
                  [] kind = "coop_close" -> 42081 [] kind = "poll" -> 42083 [] kind = "request_poll" -> 42085
                  [] OTHER -> 0

NoClaim == [status |-> "none", htlcs |-> 0]
NoOpen  == [n |-> 0, tx |-> "", vout |-> 0, amount |-> 0, hash |-> "", ann |-> FALSE]
NoStep  == [a |-> "none", kind |-> "", from |-> "", sid |-> "none", sent |-> {}, fresh |-> FALSE, msg |-> <<>>,
            busy |-> FALSE, known |-> FALSE, res |-> "", to |-> "", scid |-> ""]

ObsInit == [cfg |-> <<>>, rec |-> <<>>, claim |-> <<>>, open |-> <<>>, spent |-> <<>>, paidin |-> {},
            sent |-> {}, tx |-> <<>>, tip |-> [btc |-> 1000, lbtc |-> 5000], act |-> {}, disk |-> {},
            now |-> 0, up |-> TRUE, treq |-> <<>>, tagr |-> <<>>, step |-> NoStep, allowNew |-> TRUE,
            susp |-> FALSE, allowed |-> FALSE, csvdone |-> {}, timersFired |-> FALSE, removed |-> <<>>, lateretx |-> <<>>,
            ver |-> "current", restarted |-> FALSE, faults |-> FALSE, crashes |-> FALSE, lost |-> {}, lostspend |-> {}, reloaded |-> {}]

Rec(o, s)   == Get(o.rec, s, [cur |-> "none", role |-> "none"])
Claim(o, s) == Get(o.claim, s, NoClaim)
Open(o, s)  == Get(o.open, s, NoOpen)
Known(o, s) == s \in DOMAIN o.rec
ClaimSat(r) == IF r.role \in {"out_sender", "out_receiver"} THEN r.amount + r.premium ELSE r.amount
OpenSat(r)  == IF r.role \in {"in_sender", "in_receiver"} THEN r.amount + r.premium ELSE r.amount
\* 32-bit safe: values beyond 2*10^9 are logged as 2000000001 ("huge"); sums with a huge / extreme premium are themselves huge
Huge == 2000000001
ClaimMsat(r) == LET c == ClaimSat(r) IN IF c > 2000000 \/ c < 0 THEN Huge ELSE c * 1000
NormScid(a) == a   \* the harness logs channel ids already normalised in field nscid

(* ------------------------------------------------------------------------ *)
(* Checks. Each returns a set of violation signatures.                       *)
(* ------------------------------------------------------------------------ *)

\* C01 C04 C05 C12 C13 C15: a claim HTLC is created (ln.htlc)
ChkHtlc(o, e) ==
  LET s == e.sid
      r == Rec(o, s)
      k == Known(o, s) /\ r.role \in Takers /\ r.otb
      tx == IF k /\ r.otb_tx \in DOMAIN o.tx THEN o.tx[r.otb_tx] ELSE [known |-> FALSE]
      tip == IF k THEN o.tip[r.chain] ELSE 0
      pre == "|" \o r.role \o "|" \o (IF k THEN r.chain ELSE "?")
  IN
  IF ~k THEN {"C01|pay-without-announced-opening|" \o r.role}
  ELSE
    (IF ~tx.known THEN {"C01|unknown-tx" \o pre}
     ELSE (IF tx.conf = 0 \/ tip - tx.conf + 1 < MinConf(r.chain) THEN {"C01|depth" \o pre} ELSE {})
       \cup (IF ~tx.any_good THEN {"C01|no-valid-output" \o pre} ELSE {})
       \cup (IF ~(tx.hash_locked /\ tx.inv_hash = e.hash) THEN {"C01|hash-not-locked" \o pre} ELSE {})
       \cup (IF tx.sid # s THEN {"C01|other-swaps-tx" \o pre} ELSE {}))
    \cup (IF e.msat # ClaimMsat(r) THEN {"C01|invoice-amount" \o pre, "C12|claim-amount" \o pre} ELSE {})
    \cup (IF r.premium > r.limit /\ r.role = "out_sender" THEN {"C12|premium-over-limit" \o pre} ELSE {})
    \cup (IF e.payee # r.peer THEN {"C01|payee" \o pre} ELSE {})
    \cup (IF r.cur = "State_SwapCanceled" THEN {"C15|pay-after-cancel" \o pre} ELSE {})
    \cup (IF r.chain = "lbtc" /\ r.ver = 7 THEN
            (IF ~r.start_set THEN {"C13|pay-without-anchor" \o pre, "C04|no-anchor" \o pre} ELSE
              (IF tip < r.start THEN {"C04|below-anchor" \o pre} ELSE {})
              \cup (IF tip >= r.start + 60 THEN {"C04|window-closed" \o pre} ELSE {}))
            \cup (IF e.cltv > 29 \/ e.cltv < 0 THEN {"C04|invoice-cltv" \o pre} ELSE {})
            \cup (IF e.maxdelta # 32 \/ e.delta > 32 THEN {"C04|route-delta" \o pre} ELSE {})
          ELSE {})
    \cup (IF r.chain = "lbtc" /\ r.ver # 7 THEN {"C04|legacy-new-payment" \o pre} ELSE {})
    \cup (IF r.chain = "btc" /\ tx.known /\ tx.conf > 0 /\ ~(tip + e.delta < tx.conf + 1008)
          THEN {"C05|htlc-outlives-csv" \o pre
                  \o "|confirmed=" \o (IF tx.conf - r.start < -2 THEN "long-before-start" ELSE IF tx.conf - r.start <= 4 THEN "around-start" ELSE "later")
                  \o "|paid=" \o (IF tip - r.start > 504 THEN "beyond-window" ELSE IF tip - r.start < 0 THEN "before-start" ELSE "within-window")
                  \o "|cltv=" \o (IF e.cltv > 504 THEN "over-504" ELSE "accepted")} ELSE {})
    \cup (IF r.chain = "btc" /\ (e.cltv > 504 \/ e.cltv < 0) THEN {"C05|invoice-cltv" \o pre} ELSE {})

\* C12: the fee invoice is paid
ChkPayFee(o, e) ==
  LET s == e.sid  r == Rec(o, s) IN
  IF ~(Known(o, s) /\ r.role = "out_sender") THEN {"C12|fee-paid-by-non-initiator|" \o r.role}
  ELSE (IF IsInt(e.msat) /\ e.msat > 3 * o.cfg.open_fee_sat * 1000 THEN {"C12|fee-over-3x-estimate"} ELSE {})
       \cup (IF IsInt(e.msat) /\ IsInt(o.cfg.spendable_msat) /\ o.cfg.spendable_msat < r.amount * 1000 + e.msat THEN {"C12|fee-paid-without-capacity"} ELSE {})
       \cup (IF r.cur = "State_SwapCanceled" THEN {"C15|pay-after-cancel|out_sender|fee"} ELSE {})
       \cup (IF r.has_agr /\ r.premium > r.limit THEN {"C12|fee-paid-although-premium-over-limit"} ELSE {})
       \cup (IF e.payee # r.peer THEN {"C24|fee-payee"} ELSE {})

\* C07 C08 C12 C15: own wallet funds and broadcasts the opening transaction
ChkOpen(o, e, s) ==
  LET r == Rec(o, s)  op == Open(o, s) IN
  (IF op.n >= 1 THEN {"C15|second-opening-tx|" \o r.role \o "|" \o (IF s \in o.lost THEN "crash-between-broadcast-and-persist" ELSE r.cur)} ELSE {})
  \cup (IF ~(Known(o, s) /\ r.role \in Makers) THEN {"C07|opening-by-non-maker|" \o r.role} ELSE
         (IF IsInt(e.amount) /\ e.amount # OpenSat(r) THEN {"C12|opening-amount|" \o r.role} ELSE {})
         \cup (IF r.role = "in_sender" /\ r.premium > r.limit THEN {"C12|premium-over-limit|in_sender"} ELSE {})
         \cup (IF e.csv # Csv(r.chain, r.ver) THEN {"C02|csv|" \o r.chain} ELSE {}))

\* every message the node sends
ChkSend(o, e) ==
  LET s == e.sid
      r == Rec(o, s)
      op == Open(o, s)
      leaks == {e.leaks[i] : i \in 1..Len(e.leaks)}
      badLeaks == {x \in leaks : ~(e.kind = "coop_close" /\ x.k = "takerkey" /\ x.s = s)}
  IN
  {"C23|" \o e.kind \o "|leaks-" \o x.k : x \in badLeaks}
  \cup (IF e.type # TypeNo(e.kind) \/ e.type % 2 = 0 \/ e.type < 42069 \/ e.type > 42085 THEN {"C21|type-number|" \o e.kind} ELSE {})
  \cup (IF ~e.roundtrip THEN {"C21|roundtrip|" \o e.kind} ELSE {})
  \cup (IF e.kind = "coop_close" /\ Claim(o, s).status \in {"inflight", "succeeded"}
        THEN {"C06|coop_close-while-payment-" \o Claim(o, s).status \o "|" \o r.role \o "|" \o r.prev \o ">" \o r.cur
                \o (IF r.preimage THEN "|preimage-in-record" ELSE "|outcome-unknown-to-node")
                \o (IF o.crashes THEN "|after-crash" ELSE IF o.faults THEN "|after-service-failure" ELSE "")} ELSE {})
  \cup (IF e.kind = "coop_close" /\ Known(o, s) /\ r.role \notin Takers THEN {"C23|coop_close-by-maker"} ELSE {})
  \* C13: the Liquid anchor is on disk before the pubkey leaves
  \cup (IF ((e.kind = "swap_out_request" /\ r.role = "out_sender") \/ (e.kind = "swap_in_agreement" /\ r.role = "in_receiver"))
           /\ Known(o, s) /\ r.chain = "lbtc" /\ r.ver = 7 /\ ~r.start_set
        THEN {"C13|pubkey-before-anchor|" \o r.role} ELSE {})
  \* C15: a re-sent request / agreement is the same message
  \cup (IF e.kind \in (ReqKinds \cup AgrKinds) /\ \E x \in o.sent : x[1] = s /\ x[2] = e.kind /\ x[3] # e.digest
        THEN {"C15|resent-" \o e.kind \o "-differs"} ELSE {})
  \* C08: the announcement describes the broadcast transaction
  \cup (IF e.kind = "opening_tx_broadcasted" /\ e.ok THEN
          (IF op.n = 0 THEN {"C08|announce-without-broadcast"} ELSE
            (IF e.tx # op.tx THEN {"C08|txid"} ELSE {})
            \cup (IF e.vout # op.vout THEN {"C08|vout|" \o r.chain \o "|swap-output-at-" \o ToString(op.vout) \o "|announced-" \o ToString(e.vout)} ELSE {})
            \cup (IF e.inv_hash # op.hash THEN {"C08|invoice-hash"} ELSE {})
            \cup (IF e.inv_msat # ClaimMsat(r) THEN {"C08|invoice-amount", "C12|claim-invoice-amount|" \o r.role} ELSE {})
            \cup (IF e.inv_expiry # (IF r.chain = "btc" THEN 86400 ELSE 3600) THEN {"C08|invoice-expiry|" \o r.chain} ELSE {})
            \cup (IF e.inv_cltv # (IF r.chain = "btc" THEN 503 ELSE 29) THEN {"C08|invoice-cltv|" \o r.chain} ELSE {})
            \cup (IF e.blind # (r.chain = "lbtc") THEN {"C08|blinding-key|" \o r.chain} ELSE {}))
        ELSE {})
  \* C12: the responder charges exactly its configured rate
  \cup (IF e.kind \in AgrKinds /\ e.ok /\ Has(e, "premium") /\ Known(o, s) /\ IsInt(r.amount) /\ r.amount <= 2000000
           /\ e.premium # Compute(r.amount, IF o.cfg.has_peer_rate /\ r.peer = "peer" THEN o.cfg.peer_rate ELSE o.cfg.rate_ppm)
        THEN {"C12|responder-premium|" \o r.role} ELSE {})
  \cup (IF e.kind = "swap_out_agreement" /\ e.ok /\ Has(e, "fee_msat") /\ IsInt(e.fee_msat) /\ e.fee_msat # o.cfg.open_fee_sat * 1000
        THEN {"C12|fee-invoice-amount"} ELSE {})
  \* C22: retransmission only while waiting for the taker (one already-due copy may follow the removal)
  \cup (IF e.kind = "opening_tx_broadcasted" /\ e.nth > 1 /\ Known(o, s) /\ r.cur \notin WaitingForTaker /\ Get(o.lateretx, s, 0) >= 1
        THEN {"C22|retransmit-in|" \o r.cur} ELSE {})

\* C07a / C10 / C09 / C26 / C16 at quiescence
NonTerminalDisk(o) == {d \in o.disk : d.cur \notin Terminal}
ChkQuiesce(o, e, act, disk) ==
  LET st == o.step
      tgtA(x) == {a \in x : a.sid = st.sid}
      foreign == st.a = "msg" /\ st.known /\ ((st.from # Rec(o, st.sid).peer) \/ st.kind \in ReqKinds)
  IN
  \* C10: at most one active swap per channel
  (IF \E a, b \in act : a.sid # b.sid /\ a.nscid = b.nscid THEN {"C10|two-active-swaps-on-channel|" \o st.a \o "|" \o st.kind} ELSE {})
  \cup (IF \E a, b \in {d \in disk : d.cur \notin Terminal /\ d.cur # ""} : a.sid # b.sid /\ a.nscid = b.nscid /\ a.nscid # ""
        THEN {"C10|two-unfinished-records-on-channel|" \o st.a \o "|" \o st.kind} ELSE {})
  \* C07a: a broadcast opening transaction has a durable record
  \cup {"C07|broadcast-without-durable-record|" \o Rec(o, s).role \o "|" \o (IF s \in o.lost THEN "crash-between-broadcast-and-persist" ELSE Rec(o, s).cur) :
          s \in {x \in DOMAIN o.open : o.open[x].n >= 1 /\ ~Rec(o, x).otb}}
  \* C07b: a maker's swap is finished only when paid or spent back
  \cup {"C07|finished-with-funds-locked|" \o Rec(o, s).role \o "|" \o (IF s \in o.lost THEN "crash-between-broadcast-and-persist" ELSE Rec(o, s).prev \o ">" \o Rec(o, s).cur) :
          s \in {x \in DOMAIN o.open : o.open[x].n >= 1 /\ Rec(o, x).cur \in Terminal
                   /\ <<x, "claim">> \notin o.paidin /\ Get(o.spent, x, {}) = {}}}
  \* C09: a message from a third party, or a request reusing a known id, changes nothing
  \cup (IF foreign /\ (tgtA(act) # tgtA(o.act) \/ tgtA(disk) # tgtA(o.disk))
        THEN {"C09|foreign-message-changed-swap|" \o st.kind \o "|from-" \o st.from \o "|" \o Rec(o, st.sid).role} ELSE {})
  \cup (IF st.a = "msg" /\ st.kind \in ReqKinds /\ st.known /\ ~(\E x \in st.sent : x[1] = "cancel")
        THEN {"C09|id-reuse-not-refused|" \o st.kind} ELSE {})
  \* C21: junk is ignored
  \cup (IF st.a = "msg" /\ st.kind = "raw" /\ (act # o.act \/ disk # o.disk \/ st.sent # {})
        THEN {"C21|junk-changed-state"} ELSE {})
  \* C26: a CSV refund quarantines the peer
  \cup (IF (\E s \in DOMAIN o.rec : o.rec[s].cur = "State_ClaimedCsv" /\ o.rec[s].peer = "peer") /\ Has(e, "suspicious_peer") /\ ~e.suspicious_peer
           /\ ~o.faults /\ ~o.crashes
        THEN {"C26|peer-not-recorded-suspicious"} ELSE {})

AmtSat(c) == CASE c \in {"", "typ"} -> 1000000 [] c = "min" -> 100000 [] c = "belowmin" -> 99999 [] c = "big" -> 1500000 [] c = "one" -> 1 [] OTHER -> 1000000
\* C11 C10 C26 at the return of a request delivery / local initiation
Admit(o, m, chain) ==
  /\ o.allowNew
  /\ (chain = "btc" => o.cfg.btc_enabled) /\ (chain = "lbtc" => o.cfg.lbtc_enabled)
  /\ m.ver \in {0, 7}
  /\ m.asset \in {"", "own"}
  /\ m.pubkey \in {"", "good"}
  /\ AmtSat(m.amt) * 1000 >= o.cfg.min_swap_msat
  /\ (o.cfg.accept_all \/ o.allowed) /\ ~o.susp
  /\ m.limit \in {"", "ok", "exact"}
  /\ m.scid \in {"", "100x1x1", "100:1:1", "200x2x2", "200:2:2"}

ChkRet(o, e) ==
  LET st == o.step
      m == st.msg
      chain == IF st.a = "msg" /\ m.chain # "" THEN m.chain ELSE o.cfg.chain
      sentK == {x[1] : x \in st.sent}
      agreed == sentK \cap AgrKinds # {}
      cancelWithId == \E x \in st.sent : x[1] = "cancel" /\ x[2] = st.sid
      cancelAny == "cancel" \in sentK
      freshReq == st.a = "msg" /\ st.kind \in ReqKinds /\ st.fresh /\ st.from \in {"peer", "third"} /\ e.res \notin {"down", "skipped"} /\ e.up
      faultFree == ~o.faults /\ ~o.crashes
      balanceOK == st.kind # "swap_out_request" \/ ~IsInt(o.cfg.wallet_sat) \/ o.cfg.wallet_sat >= AmtSat(m.amt) + o.cfg.open_fee_sat
      \* the amount fits the channel: the responder of a swap-in pays the claim invoice (spendable), the responder of a swap-out is paid (receivable)
      fits == (st.kind = "swap_in_request" => ~IsInt(o.cfg.spendable_msat) \/ o.cfg.spendable_msat >= AmtSat(m.amt) * 1000)
              /\ (st.kind = "swap_out_request" => ~IsInt(o.cfg.receivable_msat) \/ o.cfg.receivable_msat >= AmtSat(m.amt) * 1000)
      adm == Admit(o, m, chain) /\ ~st.busy /\ st.from = "peer" /\ balanceOK /\ fits
  IN
  (IF freshReq /\ faultFree /\ adm /\ ~agreed /\ m.amt \in {"", "typ"} THEN {"C11|admissible-request-refused|" \o st.kind} ELSE {})
  \cup (IF freshReq /\ ~Admit(o, m, chain) /\ agreed /\ st.from = "peer"
        THEN {"C11|inadmissible-request-agreed|" \o st.kind \o "|" \o
               (IF ~o.allowNew THEN "swaps-disabled" ELSE IF o.susp THEN "suspicious" ELSE IF ~(o.cfg.accept_all \/ o.allowed) THEN "not-allowlisted"
                ELSE IF m.ver \notin {0, 7} THEN "version" ELSE IF m.asset \notin {"", "own"} THEN "asset-" \o m.asset
                ELSE IF AmtSat(m.amt) * 1000 < o.cfg.min_swap_msat THEN "amount-" \o m.amt \o "-below-minimum-" \o ToString(o.cfg.min_swap_msat) ELSE IF m.limit \notin {"", "ok", "exact"} THEN "premium-limit-" \o m.limit
                ELSE IF m.pubkey \notin {"", "good"} THEN "pubkey" ELSE "chain-or-scid")} ELSE {})
  \cup (IF freshReq /\ st.from = "third" /\ agreed /\ ~(o.cfg.accept_all) THEN {"C11|third-party-agreed"} ELSE {})
  \cup (IF freshReq /\ agreed /\ (~fits \/ ~balanceOK) THEN {"C11|inadmissible-request-agreed|" \o st.kind \o "|" \o (IF ~fits THEN "amount-does-not-fit-channel" ELSE "on-chain-balance")} ELSE {})
  \cup (IF freshReq /\ ~agreed /\ ~cancelWithId /\ faultFree
        THEN {"C11|refused-without-cancel|" \o st.kind \o "|" \o (IF cancelAny THEN "cancel-without-swap-id" ELSE "no-cancel") \o "|"
                \o (IF m.pubkey \notin {"", "good"} THEN "pubkey" ELSE IF m.asset \notin {"", "own"} THEN "asset-" \o m.asset
                    ELSE IF m.scid \notin {"", "100x1x1", "100:1:1", "200x2x2", "200:2:2"} THEN "scid" ELSE "policy")} ELSE {})
  \cup (IF freshReq /\ st.busy /\ agreed THEN {"C10|request-on-busy-channel-agreed|" \o st.kind} ELSE {})
  \cup (IF freshReq /\ st.busy /\ ~cancelAny /\ faultFree THEN {"C10|request-on-busy-channel-not-cancelled|" \o st.kind} ELSE {})
  \cup (IF st.a \in {"swapout", "swapin"} /\ st.busy /\ e.res = "ok" THEN {"C10|local-initiation-on-busy-channel|" \o st.a} ELSE {})
  \cup (IF st.a \in {"swapout", "swapin"} /\ o.susp /\ st.to = "peer" /\ e.res = "ok" THEN {"C26|local-initiation-to-suspicious-peer"} ELSE {})
  \cup (IF st.a \in {"swapout", "swapin"} /\ ~o.allowNew /\ e.res = "ok" THEN {"C11|local-initiation-while-disabled"} ELSE {})

\* C29 at the upgrade decision
ChkUpgrade(o, e) ==
  LET active == NonTerminalDisk(o) # {} IN
  (IF e.ok /\ e.before # e.current /\ active THEN {"C29|upgraded-with-active-swaps"} ELSE {})
  \cup (IF e.ok /\ e.after # e.current THEN {"C29|version-not-written"} ELSE {})
  \cup (IF ~e.ok /\ e.after # e.before THEN {"C29|version-changed-on-refusal"} ELSE {})
  \cup (IF ~e.ok /\ ~active THEN {"C29|refused-without-active-swaps"} ELSE {})
  \cup (IF ~e.ok /\ e.before = e.current THEN {"C29|refused-same-version"} ELSE {})

\* C17 after the timers were fired
ChkTimers(o) ==
  {"C17|requester-not-cancelled-after-timeout|" \o o.rec[s].role \o "|" \o o.rec[s].cur \o (IF o.restarted THEN "|after-restart" ELSE "") :
      s \in {x \in DOMAIN o.treq : o.now >= o.treq[x] + 10 /\ o.rec[x].role \in Requesters /\ ~o.rec[x].has_agr /\ o.rec[x].cur # "State_SwapCanceled"}}
  \cup {"C17|requester-timeout-without-telling-peer|" \o o.rec[s].role \o (IF o.restarted THEN "|after-restart" ELSE "") :
      s \in {x \in DOMAIN o.treq : o.now >= o.treq[x] + 10 /\ o.rec[x].role \in Requesters /\ ~o.rec[x].has_agr /\ o.rec[x].cur = "State_SwapCanceled"
                 /\ ~o.rec[x].cancel_obj /\ ~(\E y \in o.sent : y[1] = x /\ y[2] = "cancel")}}
  \cup {"C17|fee-invoice-expired-swap-not-failed|" \o o.rec[s].cur \o (IF o.restarted THEN "|after-restart" ELSE "") :
      s \in {x \in DOMAIN o.tagr : o.now >= o.tagr[x] + 10 /\ o.rec[x].role = "out_receiver" /\ <<x, "fee">> \notin o.paidin
                 /\ (o.rec[x].cur # "State_SwapCanceled" \/ (~o.rec[x].cancel_obj /\ ~(\E y \in o.sent : y[1] = x /\ y[2] = "cancel")))}}

\* C07c at the end of a trace that ended with a closure (with or without restarts): the CSV matured while the
\* invoice was unpaid => the maker has broadcast a transaction spending the output back
ChkRefund(o, e) ==
  IF ~(Has(e, "closure") /\ e.closure \in {"full", "norestart"}) THEN {} ELSE
  {"C07|csv-matured-refund-not-broadcast|" \o Rec(o, s).role \o "|" \o (IF s \in o.lost THEN "crash-between-broadcast-and-persist" ELSE Rec(o, s).cur)
     \o (IF e.closure = "norestart" THEN "|without-restart" ELSE "") :
     s \in {x \in DOMAIN o.open : /\ x \in DOMAIN o.rec /\ o.open[x].n >= 1 /\ <<x, "claim">> \notin o.paidin /\ Get(o.spent, x, {}) = {}
                                  /\ o.open[x].tx \in DOMAIN o.tx /\ o.tx[o.open[x].tx].conf > 0
                                  /\ o.tip[o.tx[o.open[x].tx].chain] - o.tx[o.open[x].tx].conf + 1 >= Csv(o.tx[o.open[x].tx].chain, Rec(o, x).ver)}}
\* C16 / C06c / C07c at the end of a trace that ended with the fair closure
ChkEnd(o, e) ==
  IF ~(Has(e, "closed") /\ e.closed) THEN {} ELSE
  {"C16|not-terminated|" \o o.rec[s].role \o "|" \o (IF s \in o.lostspend THEN "crash-between-claim-broadcast-and-persist" ELSE o.rec[s].cur) :
      s \in {x \in DOMAIN o.rec : o.rec[x].cur \notin Terminal /\ o.rec[x].cur # ""}}
  \cup {"C16|channel-not-released|" \o (IF a.sid \in o.lostspend THEN "crash-between-claim-broadcast-and-persist"
                                       ELSE IF a.cur = "" THEN "record-without-state-after-crash" ELSE a.cur) : a \in o.act}
  \cup {"C06|paid-but-not-claimed|" \o o.rec[s].role \o "|" \o (IF s \in o.lostspend THEN "crash-between-claim-broadcast-and-persist" ELSE o.rec[s].cur) :
          s \in {x \in DOMAIN o.claim : o.claim[x].status = "succeeded" /\ Known(o, x) /\ o.rec[x].cur # "State_ClaimedPreimage"}}

(* ------------------------------------------------------------------------ *)
(* Apply: state update per event                                             *)
(* ------------------------------------------------------------------------ *)
SetOf(seq) == {seq[i] : i \in 1..Len(seq)}

ApplyEv(o, e) ==
  CASE e.ev = "reset" ->
         [ObsInit EXCEPT !.cfg = e.cfg, !.allowNew = e.cfg.allow_new, !.susp = e.cfg.suspect_peer, !.allowed = e.cfg.allow_peer]
    [] e.ev = "persist" ->
         [o EXCEPT !.rec = Put(o.rec, e.sid, e)]
    [] e.ev = "downgraded" ->    \* the environment rewrote the stored record while the node was down (legacy protocol-6 record)
         [o EXCEPT !.rec = Put(o.rec, e.sid, e.rec)]
    [] e.ev = "ln.htlc" ->
         [o EXCEPT !.claim = Put(o.claim, e.sid, [status |-> (CASE e.res = "ok" -> "succeeded" [] e.res = "err_settled" -> "succeeded"
                                                                [] e.res = "err_pending" -> "inflight" [] OTHER -> "failed"),
                                                   htlcs |-> Claim(o, e.sid).htlcs + 1])]
    [] e.ev = "ln.htlcres" ->
         [o EXCEPT !.claim = Put(o.claim, e.sid, [Claim(o, e.sid) EXCEPT !.status = IF e.res = "settled" THEN "succeeded" ELSE "failed"])]
    [] e.ev = "ln.recover" ->
         [o EXCEPT !.claim = Put(o.claim, e.sid, [Claim(o, e.sid) EXCEPT !.status =
               CASE e.res = "waited_settled" -> "succeeded" [] e.res = "waited_failed" -> "failed" [] OTHER -> @])]
    [] e.ev = "ln.paid" -> [o EXCEPT !.paidin = @ \cup {<<e.sid, e.kind>>}]
    [] e.ev = "wallet.open" ->
         LET s == e.sid IN
         [o EXCEPT !.open = Put(o.open, s, [n |-> Open(o, s).n + 1, tx |-> e.tx, vout |-> e.vout, amount |-> e.amount, hash |-> e.hash, ann |-> FALSE]),
                   !.tx = Put(o.tx, e.tx, [known |-> TRUE, conf |-> 0, any_good |-> TRUE, hash_locked |-> TRUE, inv_hash |-> e.hash, sid |-> s, chain |-> e.chain])]
    [] e.ev = "wallet.spend" ->
         IF e.ok THEN LET s == e.sid IN [o EXCEPT !.spent = Put(o.spent, s, Get(o.spent, s, {}) \cup {e.kind})] ELSE o
    [] e.ev = "tx.new" ->
         IF e.tx \in DOMAIN o.tx THEN o ELSE   \* a re-announced transaction keeps its place in the chain
         [o EXCEPT !.tx = Put(o.tx, e.tx, [known |-> TRUE, conf |-> 0, any_good |-> e.any_good, hash_locked |-> e.hash_locked,
                                          inv_hash |-> e.inv_hash, sid |-> e.sid, chain |-> e.chain])]
    [] e.ev = "block" ->
         [o EXCEPT !.tip = [@ EXCEPT ![e.chain] = e.tip],
                   !.tx = [x \in DOMAIN o.tx |-> IF x \in SetOf(e.included) THEN [o.tx[x] EXCEPT !.conf = e.conf_at] ELSE o.tx[x]]]
    [] e.ev = "send" ->
         [o EXCEPT !.sent = IF e.ok THEN @ \cup {<<e.sid, e.kind, e.digest>>} ELSE @,
                   !.step = [@ EXCEPT !.sent = IF e.ok THEN @ \cup {<<e.kind, e.sid, e.to>>} ELSE @],
                   !.treq = IF e.ok /\ e.kind \in ReqKinds /\ e.sid \notin DOMAIN o.treq THEN Put(@, e.sid, o.now) ELSE @,
                   !.tagr = IF e.ok /\ e.kind = "swap_out_agreement" /\ e.sid \notin DOMAIN o.tagr THEN Put(@, e.sid, o.now) ELSE @,
                   !.lateretx = IF e.kind = "opening_tx_broadcasted" /\ e.nth > 1 /\ Rec(o, e.sid).cur \notin WaitingForTaker
                                THEN Put(@, e.sid, Get(@, e.sid, 0) + 1) ELSE @]
    [] e.ev = "drive" ->
         LET isMsg == e.a = "msg" /\ Has(e, "msg")
             sid == IF Has(e, "sid") THEN e.sid ELSE "none"
             scid == IF isMsg THEN (IF e.msg.scid = "" THEN "100x1x1" ELSE e.msg.scid) ELSE IF Has(e, "scid") THEN e.scid ELSE ""
             nscid == IF scid \in {"100x1x1", "100:1:1"} THEN "100x1x1" ELSE IF scid \in {"200x2x2", "200:2:2"} THEN "200x2x2" ELSE scid
         IN [o EXCEPT !.step = [a |-> e.a, kind |-> IF Has(e, "kind") THEN e.kind ELSE "", from |-> IF Has(e, "from") THEN e.from ELSE "",
                                 sid |-> sid, sent |-> {}, fresh |-> isMsg /\ e.msg.sid \in {"new", ""},
                                 msg |-> IF isMsg THEN e.msg ELSE NoStep.msg,
                                 \* the channel is busy if a registered swap or a stored unfinished swap (not yet restored after a restart) uses it
                                 busy |-> (\E a \in o.act : a.nscid = nscid) \/ (\E d \in o.disk : d.cur \notin Terminal /\ d.cur # "" /\ d.nscid = nscid),
                                 known |-> isMsg /\ sid \in DOMAIN o.rec /\ e.msg.sid \notin {"new", ""},
                                 res |-> "", to |-> IF Has(e, "to") THEN e.to ELSE "", scid |-> nscid],
                       !.faults = @ \/ Has(e, "faults"),
                       !.timersFired = (e.a = "tick"),
                       !.now = IF e.a = "tick" THEN @ + e.m ELSE @,
                       !.allowNew = IF e.a = "policy" /\ e.kind = "disable" THEN FALSE ELSE IF e.a = "policy" /\ e.kind = "enable" THEN TRUE ELSE @,
                       !.susp = IF e.a = "policy" /\ e.kind = "suspect" THEN TRUE ELSE IF e.a = "policy" /\ e.kind = "unsuspect" THEN FALSE ELSE @,
                       !.allowed = IF e.a = "policy" /\ e.kind = "allow" THEN TRUE ELSE IF e.a = "policy" /\ e.kind = "disallow" THEN FALSE ELSE @]
    [] e.ev = "timer.fire" -> [o EXCEPT !.now = e.now, !.timersFired = TRUE]
    [] e.ev = "start" -> [o EXCEPT !.up = TRUE, !.restarted = @ \/ e.recover, !.removed = <<>>, !.lateretx = <<>>, !.reloaded = {}]
    [] e.ev = "reload" -> [o EXCEPT !.reloaded = @ \cup {e.sid}]
    [] e.ev = "sender.add" -> IF e.ok THEN [o EXCEPT !.removed = Put(@, e.sid, "live")] ELSE o
    [] e.ev = "sender.remove" -> [o EXCEPT !.removed = Put(@, e.sid, "removed")]
    [] e.ev = "crash" -> [o EXCEPT !.up = FALSE, !.crashes = TRUE,
                                   \* the process died between the wallet's broadcast and the next store write
                                   !.lost = @ \cup {x \in DOMAIN o.open : o.open[x].n >= 1 /\ ~Rec(o, x).otb},
                                   \* ... or between the broadcast of a claim / refund and the store write recording it
                                   !.lostspend = @ \cup {x \in DOMAIN o.spent : o.spent[x] # {} /\ x \in DOMAIN o.rec /\ ~o.rec[x].claim_tx}]
    [] e.ev = "stop" -> [o EXCEPT !.up = FALSE]
    [] e.ev = "quiesce" ->
         [o EXCEPT !.act = SetOf(e.active), !.disk = SetOf(e.disk),
                   !.susp = IF Has(e, "suspicious_peer") THEN e.suspicious_peer ELSE @]
    [] OTHER -> o

CheckEv(o, e) ==
  CASE e.ev = "ln.htlc" -> ChkHtlc(o, e)
    [] e.ev = "ln.payfee" -> ChkPayFee(o, e)
    [] e.ev = "wallet.open" -> ChkOpen(o, e, e.sid)
    [] e.ev = "send" -> ChkSend(o, e)
    [] e.ev = "persist" ->
         LET old == Rec(o, e.sid) IN
         (IF Known(o, e.sid) /\ old.role \in Takers /\ old.chain = "lbtc" /\ old.ver = 7 /\ old.start_set /\ (~e.start_set \/ e.start # old.start)
          THEN {"C13|anchor-changed|" \o e.role \o "|" \o e.cur} ELSE {})
         \cup (IF Known(o, e.sid) /\ old.key # e.key THEN {"C09|swap-key-replaced|" \o old.role \o ">" \o e.role} ELSE {})
         \cup (IF Known(o, e.sid) /\ old.role # e.role THEN {"C09|role-replaced|" \o old.role \o ">" \o e.role} ELSE {})
         \cup (IF Known(o, e.sid) /\ old.cur \in Terminal /\ e.cur # old.cur THEN {"C09|finished-swap-changed|" \o old.cur \o ">" \o e.cur} ELSE {})
    [] e.ev = "sender.add" ->
         IF e.ok /\ Get(o.removed, e.sid, "none") = "live" THEN {"C22|second-retransmitter-for-swap|" \o Rec(o, e.sid).cur} ELSE {}
    [] e.ev = "reload" ->
         IF Known(o, e.sid) /\ Rec(o, e.sid).digest # e.digest THEN {"C14|reloaded-record-differs|" \o Rec(o, e.sid).role \o "|" \o e.cur} ELSE {}
    [] e.ev = "quiesce" -> ChkQuiesce(o, e, SetOf(e.active), SetOf(e.disk)) \cup (IF o.timersFired /\ ~o.faults /\ e.up THEN ChkTimers(o) ELSE {})
    [] e.ev = "ret" -> ChkRet(o, e)
    [] e.ev = "upgrade" -> ChkUpgrade(o, e)
    [] e.ev = "fault" -> {(IF o.step.kind = "raw" THEN "C21|junk-" ELSE IF o.step.a = "msg" THEN "C09|message-" ELSE "C18|") \o
                          (IF e.what = "hang" THEN "handler-never-returned" ELSE "handler-panicked") \o "|" \o e.in \o "|" \o o.step.kind}
    [] e.ev = "recovered" ->   \* C14: every record the node ever wrote must have been read back at this restart
         {"C14|stored-record-not-reloaded|" \o o.rec[s].role \o "|" \o o.rec[s].cur : s \in (DOMAIN o.rec \ o.reloaded)}
    [] e.ev = "end" -> ChkEnd(o, e) \cup ChkRefund(o, e)
    [] OTHER -> {}
===============================================================================
