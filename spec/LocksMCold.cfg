CONSTANTS
  FixAsyncCb = FALSE
  FixCbRpc = FALSE
  FixCbEl = FALSE
  FixKickoff = FALSE
  FixDispatch = FALSE
  FixPolicy = FALSE
  FixResend = FALSE
  FixRecover = FALSE
  Mode = "fine"
  Tier = "quick"
  Part = 0
  Parts = 1
INIT Init
NEXT Next
INVARIANT InvBounded
INVARIANT Collect
VIEW View
POSTCONDITION Post
CHECK_DEADLOCK FALSE
