------------------------------- MODULE TxShape -------------------------------
(* Abstract opening transactions and the validity of an opening transaction  *)
(* (validator clause of C01; shared by SpendTx for C03 / C08).               *)
(*                                                                            *)
(* An opening transaction is abstracted to the sequence of its value-carrying *)
(* outputs (Liquid: the explicit fee output, which has an empty script, is    *)
(* appended by the harness after them and is not part of the shape).  Every   *)
(* output is described by four classes, relative to the swap's OpeningParams  *)
(* (taker key, maker key, payment hash, amount, chain CSV, blinding key):     *)
(*   amt    exact | minus1 | plus1 | other                                    *)
(*   asset  policy | other | forged   (forged: commitment to another asset,   *)
(*          range-proof message discloses the policy asset)        Liquid     *)
(*   blind  ok (blinded to the announced key) | wrongkey | explicit   Liquid  *)
(*   script good | swapped (taker/maker keys exchanged) | otherkey |          *)
(*          otherhash | othercsv | p2wpkh                                      *)
(* On Bitcoin asset = policy and blind = explicit always.                     *)
EXTENDS Integers, Sequences, FiniteSets, TLC

Chains  == {"btc", "lbtc"}
AmtC    == {"exact", "minus1", "plus1", "other"}
AssetC  == {"policy", "other", "forged"}
BlindC  == {"ok", "wrongkey", "explicit"}
ScriptC == {"good", "swapped", "otherkey", "otherhash", "othercsv", "p2wpkh"}

Outs(ch) ==
    IF ch = "btc"
    THEN [amt : AmtC, asset : {"policy"}, blind : {"explicit"}, script : ScriptC]
    ELSE {o \in [amt : AmtC, asset : AssetC, blind : BlindC, script : ScriptC] :
            ~(o.blind = "explicit" /\ o.asset = "forged")}

MinS(S) == CHOOSE x \in S : \A y \in S : x <= y
Idx(outs) == 1..Len(outs)

(* ---------------------------------------------------------------- validity *)
\* Reading of C01: "an output that pays exactly the negotiated on-chain amount,
\* in the network's policy asset, to the script built from both swap pubkeys,
\* the invoice's payment hash and the chain's CSV".  On Liquid the taker must be
\* able to see this with the announced blinding key: a blinded output must
\* unblind with that key, and the disclosed asset must be the committed one; an
\* explicit (unblinded) output shows amount and asset directly and counts.
OutGood(o) == /\ o.amt = "exact"
              /\ o.asset = "policy"
              /\ o.blind \in {"ok", "explicit"}
              /\ o.script = "good"
GoodIdx(outs)   == {i \in Idx(outs) : OutGood(outs[i])}
SpecValid(outs) == GoodIdx(outs) # {}

\* P_C01V: the real validator accepts  =>  SpecValid.
\* Accepting an invalid shape is the violation.  Rejecting a valid one is not
\* (refusing to pay is safe); it is recorded as a conservative rejection.
P_C01V(outs, accept) == accept => SpecValid(outs)

(* -------------------------------------- design model of the implementation *)
\* What the pinned code is designed to do (read from onchain/bitcoin.go and
\* onchain/liquid.go); used for the design-level lemmas and to report drift of
\* the real code from its own design.  Never used to judge a violation.
\* Bitcoin: the FIRST output whose value equals the amount must carry the script.
ImplPickBtc(outs) == LET M == {i \in Idx(outs) : outs[i].amt = "exact"}
                     IN IF M = {} THEN 0 ELSE MinS(M)
ImplAcceptBtc(outs) == ImplPickBtc(outs) # 0 /\ outs[ImplPickBtc(outs)].script = "good"
\* Liquid: the FIRST output with the script must unblind to policy asset / amount.
ImplPickLbtc(outs) == LET M == {i \in Idx(outs) : outs[i].script = "good"}
                      IN IF M = {} THEN 0 ELSE MinS(M)
ImplAcceptLbtc(outs) == /\ ImplPickLbtc(outs) # 0
                        /\ LET o == outs[ImplPickLbtc(outs)]
                           IN o.blind # "wrongkey" /\ o.asset = "policy" /\ o.amt = "exact"
ImplAccept(ch, outs) == IF ch = "btc" THEN ImplAcceptBtc(outs) ELSE ImplAcceptLbtc(outs)
ImplPick(ch, outs)   == IF ch = "btc" THEN ImplPickBtc(outs) ELSE ImplPickLbtc(outs)
\* The output index (1-based) the spend / announce paths use (0: none, the path
\* fails with an error).  Bitcoin: GetVoutAndVerify scans for the first output
\* that carries the swap script AND the swap amount (repaired code: it used to
\* take the first amount match and its callers ignored the verdict).  Liquid:
\* the first output with the swap script (FindVout / VoutFromTxHex; the opening
\* path used to report 0 whatever the wallet did).
ImplUseIdx(ch, outs) ==
    IF ch = "btc"
    THEN (LET M == {i \in Idx(outs) : outs[i].amt = "exact" /\ outs[i].script = "good"}
          IN IF M = {} THEN 0 ELSE MinS(M))
    ELSE ImplPickLbtc(outs)

(* ------------------------------------------------------------- shape space *)
\* One free output (full attribute cross product) plus up to two fillers from
\* a fixed list, the free output at every position: covers single outputs,
\* duplicates (two good outputs), a bad output with the exact amount BEFORE the
\* good one, a good script with a wrong amount before the good one, change of
\* any amount including change = amount, before and after.
Ex(ch)  == IF ch = "btc" THEN "explicit" ELSE "ok"         \* blinded to the swap key
Own(ch) == IF ch = "btc" THEN "explicit" ELSE "wrongkey"   \* blinded to a wallet key
Chg(ch)      == [amt |-> "other", asset |-> "policy", blind |-> Own(ch), script |-> "p2wpkh"]
ChgEq(ch)    == [amt |-> "exact", asset |-> "policy", blind |-> Own(ch), script |-> "p2wpkh"]
Good(ch)     == [amt |-> "exact", asset |-> "policy", blind |-> Ex(ch), script |-> "good"]
GoodLow(ch)  == [amt |-> "minus1", asset |-> "policy", blind |-> Ex(ch), script |-> "good"]
ExactBad(ch) == [amt |-> "exact", asset |-> "policy", blind |-> Ex(ch), script |-> "otherkey"]
Fill(ch) == {Chg(ch), ChgEq(ch), Good(ch), GoodLow(ch), ExactBad(ch)}

InsertAt(s, p, x) == SubSeq(s, 1, p - 1) \o <<x>> \o SubSeq(s, p, Len(s))

Shapes(ch) ==
    {<<o>> : o \in Outs(ch)}
    \cup {InsertAt(<<f>>, p, o) : o \in Outs(ch), f \in Fill(ch), p \in 1..2}
    \cup {InsertAt(<<f, g>>, p, o) : o \in Outs(ch), f \in Fill(ch), g \in Fill(ch), p \in 1..3}

\* Funding results of an honest maker wallet: the swap output and up to two
\* change outputs (any amount, also exactly the swap amount) in any order.
Honest(ch) ==
    {<<Good(ch)>>}
    \cup {InsertAt(<<f>>, p, Good(ch)) : f \in {Chg(ch), ChgEq(ch)}, p \in 1..2}
    \cup {InsertAt(<<f, g>>, p, Good(ch)) : f \in {Chg(ch), ChgEq(ch)}, g \in {Chg(ch), ChgEq(ch)}, p \in 1..3}

\* Announced output index classes for the FSM-level engine (the validator and
\* the spend builders never see the announced index).
AnnC == {"right", "other", "oor"}
AnnIdx(outs, c) == CASE c = "right" -> GoodIdx(outs)
                     [] c = "other" -> Idx(outs) \ GoodIdx(outs)
                     [] c = "oor"   -> {Len(outs) + 1}
                     [] OTHER       -> {}

(* ------------------------------------------------------------------- names *)
OutStr(o) == o.amt \o "." \o o.asset \o "." \o o.blind \o "." \o o.script
RECURSIVE ShapeStr(_)
ShapeStr(outs) == IF outs = <<>> THEN ""
                  ELSE IF Len(outs) = 1 THEN OutStr(outs[1])
                  ELSE OutStr(outs[1]) \o "," \o ShapeStr(Tail(outs))
\* class used in signatures: the selection rule of the VALIDATOR (first amount
\* match on Bitcoin, first script match on Liquid) lands on an output that is
\* not the good one although a good one exists (conservatively rejected by the
\* taker; the maker's spend / announce paths must handle these shapes).
ShapeClass(ch, outs) ==
    IF SpecValid(outs) /\ ImplPick(ch, outs) \notin GoodIdx(outs)
    THEN (IF ch = "btc" THEN "dupamt-before" ELSE "dupscript-before")
    ELSE "plain"

\* how an invalid shape misses validity (used in C01 signatures): the defects of
\* the output(s) closest to a good one
Wrong(o) == (IF o.amt = "exact" THEN {} ELSE {"amt:" \o o.amt})
            \cup (IF o.asset = "policy" THEN {} ELSE {"asset:" \o o.asset})
            \cup (IF o.blind \in {"ok", "explicit"} THEN {} ELSE {"blind:" \o o.blind})
            \cup (IF o.script = "good" THEN {} ELSE {"script:" \o o.script})
NearDefects(outs) ==
    LET m == MinS({Cardinality(Wrong(outs[i])) : i \in Idx(outs)})
    IN UNION {Wrong(outs[i]) : i \in {j \in Idx(outs) : Cardinality(Wrong(outs[j])) = m}}
DefectOrder == <<"amt:minus1", "amt:plus1", "amt:other", "asset:other", "asset:forged", "blind:wrongkey",
                 "script:swapped", "script:otherkey", "script:otherhash", "script:othercsv", "script:p2wpkh">>
RECURSIVE JoinIn(_, _)
JoinIn(S, q) == IF q = <<>> THEN ""
                ELSE (IF Head(q) \in S THEN "+" \o Head(q) ELSE "") \o JoinIn(S, Tail(q))
DefectStr(outs) == JoinIn(NearDefects(outs), DefectOrder)

(* ------------------------------------------------- lemmas (checked by TLC) *)
\* the designed validators are sound w.r.t. SpecValid on the whole shape space
LemmaDesignSound == \A ch \in Chains : \A s \in Shapes(ch) : ImplAccept(ch, s) => SpecValid(s)
\* ... and the output they settle on is a good one
LemmaDesignPick  == \A ch \in Chains : \A s \in Shapes(ch) : ImplAccept(ch, s) => ImplPick(ch, s) \in GoodIdx(s)
\* validity does not depend on anything but the outputs (in particular not on
\* the announced index), and honest funding results are valid
LemmaHonestValid == \A ch \in Chains : \A s \in Honest(ch) : SpecValid(s) /\ Cardinality(GoodIdx(s)) = 1
LemmaHonestSub   == \A ch \in Chains : Honest(ch) \subseteq Shapes(ch)
\* conservative rejections of the design (valid, refused)
Conservative(ch) == {s \in Shapes(ch) : SpecValid(s) /\ ~ImplAccept(ch, s)}
===============================================================================
