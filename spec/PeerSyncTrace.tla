----------------------------- MODULE PeerSyncTrace -----------------------------
(* Code -> specification.  trace.ndjson holds the traces of many schedules    *)
(* executed on the real peersync code: a Reset line starts a trace, every     *)
(* other line is one operation with the messages it sent (ob) and the state   *)
(* projected from the real store / poller / policy afterwards (st).           *)
(* Observer: the post-state is bound from the line (what the code did is what *)
(* happened); every P_* of PeerSync.tla is evaluated on every step; violations*)
(* accumulate with the first place they were seen.  Strict: the same step     *)
(* must also be the design's step (Conforms), otherwise it is recorded as     *)
(* drift (machinery error unless a property is violated as well).             *)
EXTENDS PeerSync, Json
Trace == ndJsonDeserialize("trace.ndjson")
VARIABLES l, st, viol, drift
vars == <<l, st, viol, drift>>

Range(q) == {q[i] : i \in DOMAIN q}
CapOf(j) == [ver |-> j.ver, assets |-> Range(j.assets), allowed |-> j.allowed, rates |-> j.rates]
StoredOf(arr) == [p \in {arr[i].p : i \in DOMAIN arr} |->
                    LET e == arr[CHOOSE i \in DOMAIN arr : arr[i].p = p] IN
                    [cap |-> CapOf(e.cap), status |-> e.status, obs |-> e.obs, poll |-> e.poll, addr |-> e.addr]]
ReqOf(arr) == [p \in {arr[i].p : i \in DOMAIN arr} |-> arr[CHOOSE i \in DOMAIN arr : arr[i].p = p].t]
CoreOf(j) == MkState(j.clock, Range(j.conn), Range(j.susp), StoredOf(j.stored), ReqOf(j.lastReq), EmptyF, EmptyF, j.lf)
OpOf(j) == [k |-> j.k, p |-> j.p, d |-> j.d, flag |-> j.flag,
            pay |-> IF "pay" \in DOMAIN j
                    THEN [valid |-> j.pay.valid, bad |-> j.pay.bad, cap |-> CapOf(j.pay.cap)] ELSE NoPay,
            rec |-> IF "rec" \in DOMAIN j
                    THEN [cap |-> CapOf(j.rec.cap), status |-> j.rec.status, obsAge |-> j.rec.obsAge,
                          pollAge |-> j.rec.pollAge, addr |-> j.rec.addr] ELSE NoRec]
BagOfSeq(q) == [m \in {Msg(q[i].to, q[i].type) : i \in DOMAIN q} |->
                  Cardinality({i \in DOMAIN q : Msg(q[i].to, q[i].type) = m})]
\* compatible = either API says so; the two answers must agree (else drift)
ObOf(j) == [msgs |-> BagOfSeq(j.msgs), compat |-> Range(j.compat) \cup Range(j.compat2), fix |-> j.fix]

B(x) == IF x THEN "1" ELSE "0"
VerOf(s, p) == IF p \in Known(s) THEN ToString(s.stored[p].cap.ver) ELSE "none"
\* short stable description of the failing case (no trace numbers, no times)
Detail(name, pre, op, post, ob) ==
    CASE name = "P_C28_merge" ->
            IF IsRx(op) THEN
                "valid=" \o B(op.pay.valid) \o "|"
                \o (IF op.p \notin Known(pre) THEN "had=none"
                    ELSE IF op.pay.cap.ver < pre.stored[op.p].cap.ver THEN "adv<had"
                    ELSE IF op.pay.cap.ver = pre.stored[op.p].cap.ver THEN "adv=had" ELSE "adv>had")
                \o "|stored="
                \o (IF op.p \notin Known(post) THEN "none"
                    ELSE IF post.stored[op.p].cap = op.pay.cap THEN "advertised"
                    ELSE IF op.p \in Known(pre) /\ post.stored[op.p].cap = pre.stored[op.p].cap THEN "previous"
                    ELSE "other")
            ELSE "capability changed or created without a poll"
      [] name = "P_C28_reload" ->
            IF op.k = "Restart" THEN "fix=" \o B(ob.fix) \o "|same=" \o B(post.stored = pre.stored)
            ELSE IF op.p \notin Known(post) THEN "missing"
            ELSE LET a == post.stored[op.p] b == RecOf(pre, op.rec) IN
                 "cap=" \o B(a.cap = b.cap) \o "|status=" \o B(a.status = b.status) \o "|obs=" \o B(a.obs = b.obs)
                 \o "|poll=" \o B(a.poll = b.poll) \o "|addr=" \o B(a.addr = b.addr)
      [] name = "P_C28_cleanup" ->
            LET p == CHOOSE q \in Known(pre) \ Known(post) :
                        ~(op.k = "Cleanup" /\ q \notin pre.conn /\ Elapsed(pre.clock, pre.stored[q].obs, Timeout)) IN
            "connected=" \o B(p \in pre.conn) \o "|expired=" \o B(Elapsed(pre.clock, pre.stored[p].obs, Timeout))
      [] name = "P_C28_ratelimit" ->
            LET p == CHOOSE q \in pre.conn \ Known(pre) :
                        LET n == Count(ob.msgs, Msg(q, "request_poll")) IN
                        ~(n <= 1 /\ ((n = 1 /\ ~(op.k = "PollAll" /\ op.flag) /\ Get(pre.g1, q) # Never) => Elapsed(pre.clock, pre.g1[q], ReqIv))) IN
            "requests=" \o ToString(Count(ob.msgs, Msg(p, "request_poll")))
            \o "|previous=" \o (IF Get(pre.g1, p) = Never THEN "none"
                                ELSE IF pre.clock - pre.g1[p] < ReqIv THEN "within-interval" ELSE "older")
      [] name = "P_C28_request_due" ->
            LET p == CHOOSE q \in (pre.conn \ Known(pre)) \ pre.susp :
                        (op.flag \/ Get(pre.g2, q) = Never \/ Elapsed(pre.clock, pre.g2[q], ReqIv))
                        /\ Count(ob.msgs, Msg(q, "request_poll")) = 0 IN
            "force=" \o B(op.flag) \o "|previous=" \o (IF Get(pre.g2, p) = Never THEN "none"
                                ELSE IF pre.clock - pre.g2[p] < ReqIv THEN "within-interval" ELSE "older")
      [] name = "P_C28_compat" ->
            LET p == CHOOSE q \in ob.compat : ~(q \in Known(post) /\ post.stored[q].cap.ver = Own) IN
            "stored=" \o (IF p \notin Known(post) THEN "none"
                          ELSE IF post.stored[p].cap.ver < Own THEN "lower-version" ELSE "higher-version")
      [] name = "P_C26_peersync" ->
            "answered=" \o B(\E m \in DOMAIN ob.msgs : m.to = op.p)
            \o "|record=" \o (IF op.p \in Known(post) /\ op.p \notin Known(pre) THEN "created"
                              ELSE IF op.p \in Known(pre) /\ op.p \notin Known(post) THEN "removed"
                              ELSE IF op.p \in Known(pre) /\ post.stored[op.p] # pre.stored[op.p] THEN "changed"
                              ELSE "unchanged")
      [] OTHER -> ""
Sig(name, pre, op, post, ob) ==
    (IF name = "P_C26_peersync" THEN "C26" ELSE "C28") \o "|" \o name \o "|"
    \o (IF name = "P_C28_compat" THEN "state" ELSE op.k) \o "|" \o Detail(name, pre, op, post, ob)

\* first place a signature was seen: [sig -> <<trace, step, count>>]
Note(f, sig, e) == IF sig \in DOMAIN f THEN [f EXCEPT ![sig] = [@ EXCEPT !.n = @ + 1]]
                   ELSE [x \in DOMAIN f \cup {sig} |-> IF x = sig THEN [t |-> e.t, i |-> e.i, n |-> 1] ELSE f[x]]
RECURSIVE NoteAll(_, _, _)
NoteAll(f, sigs, e) == IF sigs = {} THEN f
                       ELSE LET x == CHOOSE y \in sigs : TRUE IN NoteAll(Note(f, x, e), sigs \ {x}, e)

MetaOK(m) == m.own = Own /\ m.pollIv = PollIv /\ m.reqIv = ReqIv /\ m.timeout = Timeout /\ Stale * 2 = m.timeout

Init == l = 1 /\ st = Init0 /\ viol = EmptyF /\ drift = EmptyF
TraceStep ==
        /\ l <= Len(Trace)
        /\ LET e == Trace[l]
               op == OpOf(e.op)
               ob == ObOf(e.ob) IN
           IF op.k = "Reset"
           THEN /\ st' = CoreOf(e.st)
                /\ viol' = viol
                /\ drift' = IF MetaOK(e.meta) /\ SameCore(CoreOf(e.st), Init0) THEN drift
                            ELSE Note(drift, "constants or initial state differ from the specification", e)
           ELSE LET post == Ghost(st, op, ob.msgs, CoreOf(e.st)) IN
                /\ st' = post
                /\ viol' = NoteAll(viol, {Sig(n, st, op, post, ob) : n \in Violated(st, op, post, ob)}, e)
                /\ drift' = IF Conforms(st, op, post, ob) /\ Range(e.ob.compat) = Range(e.ob.compat2) THEN drift
                            ELSE Note(drift, "drift|" \o op.k, e)
        /\ l' = l + 1
Out(f) == [x \in DOMAIN f |-> f[x]]
Finish == /\ l = Len(Trace) + 1
          /\ JsonSerialize("verdict.json", [n |-> Len(Trace), viol |-> viol, drift |-> drift])
          /\ l' = l + 1 /\ UNCHANGED <<st, viol, drift>>
Next == TraceStep \/ Finish
===============================================================================
