------------------------------ MODULE PeerSyncMC ------------------------------
(* Design-level model checking of PeerSync.tla and schedule export.           *)
(* All operation sequences of length <= Depth over Peers x Pays x Steps are   *)
(* explored breadth first; the named properties P_* are evaluated on every    *)
(* step of the design (bad = names violated by the last step).  States are    *)
(* identified up to a time shift (VIEW: ages instead of absolute times), the  *)
(* history is not part of the identity, so every distinct state carries the   *)
(* first (shortest) schedule that reaches it; these schedules are exported    *)
(* and executed on the real code.                                             *)
EXTENDS PeerSync, Json, SequencesExt
CONSTANTS Depth,        \* bound on the schedule length
          Rich,         \* TRUE: larger payload / record alphabet (thorough tier)
          Export,       \* TRUE: write the schedules (needs -workers 1)
          Focus         \* "all": the whole alphabet; "conn" / "store": a sub-alphabet explored deeper
VARIABLES s, hist, bad
vars == <<s, hist, bad>>

Peers == {"p1", "p2"}
CapA(v) == [ver |-> v, assets |-> {"BTC"}, allowed |-> TRUE, rates |-> <<100, 200, 300, 400>>]
CapB(v) == [ver |-> v, assets |-> {"BTC", "LBTC"}, allowed |-> FALSE, rates |-> <<0, -5000, 0, 1000000>>]
Versions == {Own - 1, Own, Own + 1}
Caps == {CapA(v) : v \in Versions} \cup {CapB(v) : v \in Versions}
Pays == {[valid |-> TRUE, bad |-> "", cap |-> c] : c \in Caps \cup (IF Rich THEN {ZeroCap} ELSE {})}
        \cup {[valid |-> FALSE, bad |-> b, cap |-> ZeroCap] : b \in (IF Rich THEN {"asset", "rate", "json"} ELSE {"asset"})}
Steps == {1, 3, 121, 181, 361}
InjRecs == {[cap |-> CapA(Own), status |-> "expired", obsAge |-> 400, pollAge |-> 0, addr |-> "a1"],
            [cap |-> CapB(Own + 1), status |-> "active", obsAge |-> 0, pollAge |-> 5, addr |-> ""]}
           \cup (IF Rich THEN {[cap |-> ZeroCap, status |-> "inactive", obsAge |-> -1, pollAge |-> -1, addr |-> "a1"]} ELSE {})

Op(k, p, d, flag, pay, rec) == [k |-> k, p |-> p, d |-> d, flag |-> flag, pay |-> pay, rec |-> rec]

OpsAll(st) ==
    {Op(k, p, 0, FALSE, pay, NoRec) : k \in {"RxPoll", "RxReq"}, p \in Peers, pay \in Pays}
    \cup {Op("PollAll", "", 0, f, NoPay, NoRec) : f \in BOOLEAN}
    \cup {Op("Cleanup", "", 0, FALSE, NoPay, NoRec)}
    \cup {Op("Restart", "", 0, f, NoPay, NoRec) : f \in BOOLEAN}
    \cup {Op("Connect", p, 0, FALSE, NoPay, NoRec) : p \in Peers \ st.conn}
    \cup {Op("Disconnect", p, 0, FALSE, NoPay, NoRec) : p \in st.conn}
    \cup {Op("Tick", "", d, FALSE, NoPay, NoRec) : d \in Steps}
    \cup {Op("Suspect", p, 0, FALSE, NoPay, NoRec) : p \in Peers \ st.susp}
    \cup {Op("Inject", p, 0, FALSE, NoPay, r) : p \in Peers, r \in InjRecs}
    \cup {Op("ListFail", "", 0, ~st.lf, NoPay, NoRec)}

\* connections, poll rounds, restarts and time around the request interval (rate limit)
OpsConn(st) ==
    {Op("RxPoll", "p1", 0, FALSE, [valid |-> TRUE, bad |-> "", cap |-> CapA(Own)], NoRec)}
    \cup {Op("PollAll", "", 0, f, NoPay, NoRec) : f \in BOOLEAN}
    \cup {Op("Restart", "", 0, f, NoPay, NoRec) : f \in BOOLEAN}
    \cup {Op("Connect", p, 0, FALSE, NoPay, NoRec) : p \in Peers \ st.conn}
    \cup {Op("Disconnect", p, 0, FALSE, NoPay, NoRec) : p \in st.conn}
    \cup {Op("Tick", "", d, FALSE, NoPay, NoRec) : d \in {3, 60, 121}}
    \cup {Op("ListFail", "", 0, ~st.lf, NoPay, NoRec)}
    \cup {Op("Suspect", "p2", 0, FALSE, NoPay, NoRec) : x \in {1} \ {y \in {1} : "p2" \in st.susp}}

\* one peer's record through polls, time, cleanup, restart and quarantine
OpsStore(st) ==
    {Op("RxPoll", "p1", 0, FALSE, pay, NoRec) : pay \in Pays}
    \cup {Op("RxReq", "p1", 0, FALSE, [valid |-> TRUE, bad |-> "", cap |-> c], NoRec) : c \in {CapA(Own - 1), CapB(Own + 1)}}
    \cup {Op("Inject", "p1", 0, FALSE, NoPay, r) : r \in InjRecs}
    \cup {Op("PollAll", "", 0, FALSE, NoPay, NoRec), Op("Cleanup", "", 0, FALSE, NoPay, NoRec),
          Op("Restart", "", 0, FALSE, NoPay, NoRec)}
    \cup {Op("Connect", "p1", 0, FALSE, NoPay, NoRec) : x \in {1} \ {y \in {1} : "p1" \in st.conn}}
    \cup {Op("Disconnect", "p1", 0, FALSE, NoPay, NoRec) : x \in {1} \ {y \in {1} : "p1" \notin st.conn}}
    \cup {Op("Suspect", "p1", 0, FALSE, NoPay, NoRec) : x \in {1} \ {y \in {1} : "p1" \in st.susp}}
    \cup {Op("Tick", "", d, FALSE, NoPay, NoRec) : d \in {181, 361}}
    \cup {Op("ListFail", "", 0, ~st.lf, NoPay, NoRec)}

Ops(st) == CASE Focus = "conn" -> OpsConn(st)
             [] Focus = "store" -> OpsStore(st)
             [] OTHER -> OpsAll(st)

\* the design's own observation of a step
ObOf(r) == [msgs |-> r.msgs, compat |-> SpecCompat(r.st), fix |-> TRUE]

Init == s = Init0 /\ hist = <<>> /\ bad = {}
Next == /\ Len(hist) < Depth
        /\ \E op \in Ops(s) :
              LET r == Step(s, op) IN
              /\ s' = r.st
              /\ hist' = Append(hist, op)
              /\ bad' = Violated(s, op, r.st, ObOf(r))

P_C28_merge_      == "P_C28_merge" \notin bad
P_C28_reload_     == "P_C28_reload" \notin bad
P_C28_cleanup_    == "P_C28_cleanup" \notin bad
P_C28_ratelimit_  == "P_C28_ratelimit" \notin bad
P_C28_request_due_ == "P_C28_request_due" \notin bad
P_C28_compat_     == "P_C28_compat" \notin bad
P_C26_peersync_   == "P_C26_peersync" \notin bad

\* state invariants of the design that the step properties rest on
TypeOK == /\ s.conn \subseteq Peers /\ s.susp \subseteq Peers /\ Known(s) \subseteq Peers
          /\ DOMAIN s.lastReq \subseteq Peers
          /\ \A p \in Known(s) : s.stored[p].obs <= s.clock /\ s.stored[p].poll <= s.clock
\* the code's in-memory rate map never knows less than the wire history demands
\* and never more than it allows
GhostBracket == \A p \in Peers :
    /\ Get(s.g2, p) = Get(s.lastReq, p)
    /\ Get(s.g1, p) # Never => Get(s.g1, p) >= Get(s.lastReq, p)

\* ---- identity of states up to a time shift; the history is not part of it ----
Age(t) == IF t = Never THEN Never ELSE s.clock - t
View == <<s.conn, s.susp, s.lf,
          [p \in Known(s) |-> [s.stored[p] EXCEPT !.obs = Age(@), !.poll = Age(@)]],
          [p \in DOMAIN s.lastReq |-> Age(s.lastReq[p])],
          [p \in DOMAIN s.g1 |-> Age(s.g1[p])],
          [p \in DOMAIN s.g2 |-> Age(s.g2[p])], bad>>

\* with several workers the search is not strictly breadth first, so a state could
\* first be met with a longer history and lose part of its budget: the check run
\* identifies states per history length (sound for any worker count); the export
\* run uses View with one worker (strict breadth first: shortest history first)
ViewDepth == <<View, Len(hist)>>

\* ---- the record format: save -> load -> save is a fixpoint ----
RecArgs == {[cap |-> c, status |-> st, obsAge |-> o, pollAge |-> pl, addr |-> a] :
                c \in Caps \cup {ZeroCap, [ZeroCap EXCEPT !.allowed = TRUE], [ZeroCap EXCEPT !.rates = <<0, 0, 0, -1>>],
                                 [ZeroCap EXCEPT !.assets = {"LBTC"}], [ZeroCap EXCEPT !.ver = 1]},
                st \in {"active", "inactive", "unknown", "expired"}, o \in {-1, 0, 7}, pl \in {-1, 0, 7}, a \in {"", "a1"}}
RecSpace == {RecOf([clock |-> 10], r) : r \in RecArgs}
LemmaFixpoint == \A r \in RecSpace : Decode(Encode(r)) = r /\ Encode(Decode(Encode(r))) = Encode(r)
ASSUME Focus = "all" => LemmaFixpoint
\* every record of the space as a two-step schedule: save it, restart
ASSUME (Export /\ Focus = "all") => ndJsonSerialize("reccases.ndjson",
          SetToSeq({[ops |-> <<Op("Inject", "p1", 0, FALSE, NoPay, r), Op("Restart", "", 0, FALSE, NoPay, NoRec)>>] : r \in RecArgs}))

\* the operation alphabet (to extend exported schedules by further operations)
AllOps == OpsAll([conn |-> {}, susp |-> {}, lf |-> FALSE]) \cup OpsAll([conn |-> Peers, susp |-> Peers, lf |-> TRUE])
ASSUME (Export /\ Focus = "all") => ndJsonSerialize("ops.ndjson", SetToSeq(AllOps))

\* ---- export: one schedule per distinct state (invariants are evaluated on unseen states only) ----
Flush == /\ ndJsonSerialize("sched_" \o ToString(TLCGet(2)) \o ".ndjson", TLCGet(1))
         /\ TLCSet(2, TLCGet(2) + 1)
         /\ TLCSet(1, <<>>)
ExportInv == Export => /\ TLCSet(1, Append(TLCGet(1), [ops |-> hist]))
                       /\ (Len(TLCGet(1)) >= 2000 => Flush)
ExportDone == Export => Flush
ASSUME TLCSet(1, <<>>) /\ TLCSet(2, 0)
===============================================================================
