----------------------------- MODULE LocksTrace -----------------------------
(* Code -> specification. The NDJSON trace recorded from the REAL swap       *)
(* service and the REAL watchers is consumed line by line.                   *)
(*  C18 (on every trace, deterministic or stress): each handler `start` must *)
(*   be followed by its `ret`; a trace that ends (quiet system, everything   *)
(*   released) with unreturned handlers is a violation; its signature is     *)
(*   built from the watchdog's `deadlock` event (entry points and the lock   *)
(*   wait sites of the goroutine dump).                                      *)
(*  Conformance (deterministic traces): the schedule is replayed on          *)
(*   Locks.tla at gate granularity; after every step the position of every   *)
(*   process (parked at which gate / blocked / returned) observed on the     *)
(*   real code must be one the specification allows. A mismatch means the    *)
(*   transcription does not describe the code (machinery error, not a        *)
(*   violation). Whether the specification predicted the observed outcome    *)
(*   is reported as well.                                                    *)
EXTENDS Locks, Json, SequencesExt, FiniteSetsExt
Trace == ndJsonDeserialize("trace.ndjson")
VARIABLES l, ms, open, dl, rs
vars == <<l, ms, open, dl, rs>>

\* registers: 1 violations, 2 conformance mismatches, 3 predicted but not observed, 4 observed but not predicted, 5 unsettled, 6 replayed steps
ASSUME TLCSet(1, {}) /\ TLCSet(2, {}) /\ TLCSet(3, {}) /\ TLCSet(4, {}) /\ TLCSet(5, {}) /\ TLCSet(6, 0)

Has(e, k) == k \in DOMAIN e
CfgOf(e) ==
  [watcher |-> e.mwatcher, role |-> e.mrole, prep |-> e.prep, chain |-> e.chain, d0 |-> e.d0, mines |-> e.mines, restart |-> e.restart, lbtc |-> e.lbtc,
   faults |-> {e.faults[i] : i \in 1..Len(e.faults)},
   entry |-> [p \in Drivers |-> IF Has(e.mprocs, p) THEN e.mprocs[p] ELSE "-"]]

MStat(m, p) ==
  IF ~m.started[p] THEN "none" ELSE IF Returned(m, p) THEN "done" ELSE IF AtGate(m, p) THEN "gate:" \o Ins(m, p).a
  ELSE IF Idle(m, p) THEN "idle" ELSE "blocked"
Norm(x) == IF x \in {"done", "idle"} THEN "none" ELSE x
Matches(m, all) ==
  /\ \A p \in Drivers : MStat(m, p) = (IF Has(all, p) THEN all[p] ELSE "none")
  /\ \A p \in Spawned : Norm(MStat(m, p)) = Norm(IF Has(all, p) THEN all[p] ELSE "none")

MacroOf(m, p) ==
  IF p \in Procs /\ CanStart(m, p) THEN SettleSet(RunL(Start(m, p), p))
  ELSE IF p \in Procs /\ AtGate(m, p) THEN SettleSet(StepS(m, p))
  ELSE {m}

Init == l = 1 /\ ms = {} /\ open = {} /\ dl = "" /\ rs = [t |-> 0]

Consume ==
  /\ l <= Len(Trace)
  /\ LET e == Trace[l] IN
     /\ l' = l + 1
     /\ CASE e.ev = "reset" ->
               /\ rs' = e
               /\ ms' = IF Has(e, "prep") THEN {InitState(CfgOf(e))} ELSE {}
               /\ open' = {} /\ dl' = ""
          [] e.ev = "start" -> open' = open \cup {e.p} /\ UNCHANGED <<ms, dl, rs>>
          [] e.ev = "ret"   -> open' = open \ {e.p} /\ UNCHANGED <<ms, dl, rs>>
          [] e.ev = "step" /\ e.p = "E" ->
               /\ ms' = {IF CanMine(m) THEN Mine(m) ELSE m : m \in ms}
               /\ UNCHANGED <<open, dl, rs>>
          [] e.ev = "after" ->
               /\ LET nx == {x \in UNION {MacroOf(m, e.p) : m \in ms} : Matches(x, e.all)} IN
                    /\ ms' = nx
                    /\ TLCSet(6, TLCGet(6) + (IF ms # {} THEN 1 ELSE 0))
                    /\ (ms # {} /\ nx = {} => TLCSet(2, TLCGet(2) \cup {[t |-> e.t, i |-> e.i, p |-> e.p, name |-> rs.name, obs |-> e.all,
                                                                   exp |-> SetToSeq({[q \in {r \in Procs : x.started[r]} |-> MStat(x, q)] : x \in UNION {MacroOf(m, e.p) : m \in ms}})]}))
               /\ UNCHANGED <<open, dl, rs>>
          [] e.ev = "deadlock" -> dl' = e.sig /\ UNCHANGED <<ms, open, rs>>
          [] e.ev = "end" ->
               /\ IF e.unsettled THEN TLCSet(5, TLCGet(5) \cup {[t |-> e.t, name |-> rs.name]})
                  ELSE /\ (dl # "" \/ open # {} =>
                             TLCSet(1, TLCGet(1) \cup {[sig |-> "C18|deadlock|" \o rs.wkind \o "|" \o
                                                              (IF dl # "" THEN dl ELSE "unreturned"), t |-> e.t, name |-> rs.name]}))
                       /\ (Has(rs, "expect") /\ rs.expect /\ dl = "" /\ open = {} => TLCSet(3, TLCGet(3) \cup {[t |-> e.t, name |-> rs.name]}))
                       /\ (ms # {} /\ (dl # "" \/ open # {}) /\ (\A m \in ms : Unreturned(m) = {}) =>
                             TLCSet(4, TLCGet(4) \cup {[t |-> e.t, name |-> rs.name]}))
               /\ UNCHANGED <<ms, open, dl, rs>>
          [] OTHER -> UNCHANGED <<ms, open, dl, rs>>

Finish == /\ l = Len(Trace) + 1
          /\ JsonSerialize("verdict.json", [n |-> Len(Trace), viol |-> SetToSeq(TLCGet(1)), mismatch |-> SetToSeq(TLCGet(2)),
                                            notreproduced |-> SetToSeq(TLCGet(3)), unpredicted |-> SetToSeq(TLCGet(4)),
                                            unsettled |-> SetToSeq(TLCGet(5)), replayed |-> TLCGet(6)])
          /\ l' = l + 1 /\ UNCHANGED <<ms, open, dl, rs>>
Next == Consume \/ Finish
=============================================================================
