------------------------------- MODULE Locks -------------------------------
(* C18 (event handling never deadlocks) and C19 (no data races) of peerswap. *)
(*                                                                           *)
(* The node is a set of concurrent entry points (goroutines): the peer       *)
(* message handler, the RPC watcher's block loop (HandleCsvTx) and           *)
(* observation loops, the Electrum subscriber (Update + observers), payment  *)
(* and timeout callbacks, RPC commands, policy commands, RecoverSwaps. Every *)
(* code path is TRANSCRIBED from the Go code as a program over               *)
(*   acq/rel of a lock, gate (a call into an external service: the points at *)
(*   which the harness can hold a goroutine), acc (access of a shared        *)
(*   variable, with the function it happens in), call/ret, branches on the   *)
(*   abstract state (swap state, registry, chain depth, watch list).         *)
(* Callbacks that the code invokes synchronously, possibly while a lock is   *)
(* held, are calls in these programs. The interpreter below gives the        *)
(* programs their semantics; TLC explores all interleavings.                 *)
(*                                                                           *)
(* Reading of the properties:                                                *)
(*  C18: a handler "blocks forever" iff a state is reachable in which it has *)
(*  started, not returned, and no process can take a step any more (all      *)
(*  unreturned processes wait for a lock; this includes a process waiting    *)
(*  for a non-reentrant mutex it holds itself). Daemon loops idling at a     *)
(*  channel receive are not handlers. Programs are loop-bounded, so under    *)
(*  weak fairness "every started handler returns" is equivalent to the       *)
(*  absence of such a state (P_C18_nodeadlock) plus the step bound           *)
(*  (P_C18_bounded); P_C18_returns states it as a temporal formula.          *)
(*  C19: a data race is a reachable state in which two different processes   *)
(*  are both about to access the same variable, at least one writing, and    *)
(*  no lock is held by both (a lock held in read mode protects reads only).  *)
(*  Fork edges are part of the model (spawn), so ordered accesses are never  *)
(*  simultaneously enabled.                                                  *)
EXTENDS Integers, Sequences, FiniteSets, TLC

(* The Fix constants select, per repaired defect, the code as it is after the  *)
(* repair (TRUE) or as it was before (FALSE; kept for regression schedules).  *)
CONSTANTS FixAsyncCb,   \* AddWaitForCsvTx (RPC watcher) runs the CSV callback on its own goroutine instead of synchronously
          FixCbRpc,     \* HandleCsvTx calls back after releasing the watcher lock
          FixCbEl,      \* liquidBlockHeaderSubscriber.Update runs the observers outside its registry lock
          FixKickoff,   \* design variant, NOT adopted in the code (FALSE): AddWaitForConfirmationTx hands the first height over without
                        \* blocking. It is not needed: with FixDispatch the dispatcher can not reach a loop before its kick-off.
          FixDispatch,  \* the dispatcher reads observerLoopList under the watcher lock
          FixPolicy,    \* NewSwapsAllowed and ReloadFile take the policy mutex
          FixResend,    \* ResendLastMessage runs its action under the swap mutex
          FixRecover    \* Recover runs the state's action and the store update under the swap mutex

Drivers == {"A", "B", "C"}
Spawned == {"obs", "elw", "rec", "acbA", "acbB", "acbC", "acbrec"}   \* acb<p>: the goroutine AddWaitForCsvTx starts for the callback, per caller
Procs   == Drivers \cup Spawned
Mutexes == {"M", "M2A", "M2B", "M2C", "W", "H", "U", "R", "P", "G", "SW"}
(* M  SwapStateMachine.mutex of the swap       M2<p> mutex of the new swap created by driver p (written M2 in the programs) *)
(* W  BlockchainRpcTxWatcher (embedded Mutex)   H  liquidBlockHeaderSubscriber.mu *)
(* U  liquidBlockHeaderSubscriber.updateMu (repaired code only)              *)
(* R  electrumTxWatcher.mu   P policy.mu (package level)   G messages.Manager  *)
(* SW SwapService RWMutex held for writing; readers are counted in rd        *)

\* ---------------------------------------------------------------- instructions
I(op, a, b, n) == [op |-> op, a |-> a, b |-> b, n |-> n]
Acq(l)       == I("acq", l, "", 0)
Rel(l)       == I("rel", l, "", 0)
RAcq         == I("racq", "S", "", 0)
RRel         == I("rrel", "S", "", 0)
Gate(g)      == I("gate", g, "", 0)
Acc(fn, vs)  == I("acc", fn, vs, 0)           \* vs: set of <<variable, "r"|"w">>
Call(f)      == I("call", f, "=", 0)          \* callee sees the caller's event
CallEv(f, e) == I("call", f, e, 0)
Ret          == I("ret", "", "", 0)
If(c, n)     == I("if", c, "", n)             \* condition false: skip the next n instructions
Jmp(n)       == I("jmp", "", "", n)           \* relative jump
Set(k, v)    == I("set", k, v, 0)
Spawn(p, f)  == I("spawn", p, f, 0)
Send(p)      == I("send", p, "", 0)           \* rendezvous with p's recv
Recv         == I("recv", "", "", 0)
Act          == I("act", "", "", 0)           \* run the action of the current FSM state
Setn(k)      == I("setn", k, "", 0)
Decn         == I("decn", "", "", 0)

IfThen(c, blk)    == <<If(c, Len(blk))>> \o blk
IfElse(c, a, b)   == <<If(c, Len(a) + 1)>> \o a \o <<Jmp(Len(b))>> \o b
While(c, body)    == <<If(c, Len(body) + 1)>> \o body \o <<Jmp(0 - (Len(body) + 2))>>
Forever(body)     == body \o <<Jmp(0 - (Len(body) + 1))>>

\* ---------------------------------------------------------------- shared variables
MarshalReads == {<<"Data.req", "r">>, <<"Data.hex", "r">>, <<"Data.err", "r">>, <<"Data.next", "r">>, <<"Data.misc", "r">>, <<"sm.cur", "r">>}
V(v, m) == {<<v, m>>}

\* ---------------------------------------------------------------- FSM abstraction
(* Abstract swap states (one swap). Maker: ACP = AwaitClaimPayment /         *)
(* AwaitClaimInvoicePayment, WCSV = State_WaitCsv, CCSV = ClaimSwapCsv,      *)
(* CCOOP = ClaimSwapCoop, DCSV/DCOOP/DPRE = ClaimedCsv/Coop/Preimage,        *)
(* Taker: ATB = AwaitTxBroadcastedMessage, ATC = AwaitTxConfirmation,        *)
(* VPAY = ValidateTxAndPayClaimInvoice, CLAIM = ClaimSwap, SPRIV/SCOOP =     *)
(* SendPrivkey/SendCoopClose, SCANC = SendCancel, CANC = SwapCanceled.       *)
NextSt(role, st, ev) ==
  CASE st = "ACP"   /\ ev \in {"cancel", "invalid"} -> "WCSV"
    [] st = "ACP"   /\ ev = "coop"    -> "CCOOP"
    [] st = "ACP"   /\ ev = "csv"     -> "CCSV"
    [] st = "ACP"   /\ ev = "paid"    -> "DPRE"
    [] st = "WCSV"  /\ ev = "csv"     -> "CCSV"
    [] st = "WCSV"  /\ ev = "coop"    -> "CCOOP"
    [] st = "CCSV"  /\ ev = "succ"    -> "DCSV"
    [] st = "CCOOP" /\ ev = "succ"    -> "DCOOP"
    [] st = "CCOOP" /\ ev = "failed"  -> "WCSV"
    [] st = "ATB"   /\ ev = "opening" -> "ATC"
    [] st = "ATB"   /\ ev = "cancel"  -> "CANC"
    [] st = "ATB"   /\ ev = "invalid" -> "SCANC"
    [] st = "ATB"   /\ ev = "failed"  -> "SPRIV"
    [] st = "ATB"   /\ ev = "timeout" /\ role = "in_receiver" -> "SPRIV"
    [] st = "ATC"   /\ ev = "txconf"  -> "VPAY"
    [] st = "ATC"   /\ ev = "failed"  -> "SPRIV"
    [] st = "ATC"   /\ ev = "cancel" /\ role = "in_receiver" -> "SPRIV"
    [] st = "VPAY"  /\ ev = "succ"    -> "CLAIM"
    [] st = "VPAY"  /\ ev = "failed"  -> "SPRIV"
    [] st = "CLAIM" /\ ev = "succ"    -> "DPRE"
    [] st = "SPRIV" /\ ev = "succ"    -> "SCOOP"
    [] st = "SPRIV" /\ ev = "failed"  -> "SCANC"
    [] st = "SCOOP" /\ ev = "succ"    -> "DCOOP"
    [] st = "SCOOP" /\ ev = "failed"  -> "SCANC"
    [] st = "SCANC" /\ ev \in {"succ", "failed"} -> "CANC"
    [] OTHER -> "-"
CtxEvents == {"cancel", "coop", "coop_bad", "opening"}   \* events that carry a message (eventCtx # nil)

\* ---------------------------------------------------------------- programs
NewSwapsAllowed == IfElse("lockedPolicy",
                           <<Acq("P"), Acc("policy.(*Policy).NewSwapsAllowed", V("pol.allow", "r")), Rel("P")>>,
                           <<Acc("policy.(*Policy).NewSwapsAllowed", V("pol.allow", "r"))>>)
GetActive == <<RAcq, Acc("swap.(*SwapService).GetActiveSwap", V("activeSwaps", "r")), RRel>>
MgrRemove == <<Gate("mgr.remove"), Acq("G"), Acc("messages.(*Manager).RemoveSender", V("mgr.map", "w")), Rel("G")>>
Height    == IfElse("rpc", <<Gate("rpc.height")>>,
                    <<Acq("R"), Acc("lwk.(*electrumTxWatcher).GetBlockHeight", V("el.height", "r")), Rel("R")>>)
SE        == "swap.(*SwapStateMachine).SendEvent"
\* the dispatcher of StartWatchingTxs obtains the channels of the observation loops
Dispatch  == IfElse("lockedDispatch",
                    <<Acq("W"), Acc("txwatcher.(*BlockchainRpcTxWatcher).observerBlockChans", V("w.obsList", "r")), Rel("W")>>,
                    <<Acc("txwatcher.(*BlockchainRpcTxWatcher).StartWatchingTxs.func1", V("w.obsList", "r"))>>)

Prog(f) ==
  CASE f = "OnMsg" ->       \* SwapService.OnMessageReceived for a message of an existing swap
        <<Acq("SW"), Acc("swap.(*SwapService).logMsg", V("lastMsgLog", "w")), Rel("SW")>>
        \o GetActive \o IfThen("inactive", <<Ret>>)      \* isMessageSenderExpectedPeer
        \o GetActive \o IfThen("inactive", <<Ret>>)      \* On<X>Received
        \o <<Call("SendEvent")>> \o IfThen("done", <<Call("RemoveActive")>>) \o <<Ret>>
    [] f = "SendEvent" ->   \* SwapStateMachine.SendEvent
        <<Set("done", "F"), Acq("M")>>
        \o IfThen("ctx",
              IfThen("invalidmsg", <<Rel("M"), CallEv("SendEvent", "invalid"), Acq("M"), Rel("M"), Ret>>)
           \o IfThen("rejects", <<Rel("M"), Ret>>)
           \o IfThen("applied", <<Rel("M"), Ret>>)       \* ApplyToSwapData: AlreadyExistsError for a second coop_close / opening_tx_broadcasted
           \o <<Acc(SE, V("Data.req", "w")), Set("app", "ev")>>)
        \o <<Acc(SE, MarshalReads), Gate("persist")>>
        \o Forever(                                        \* the transition loop
              IfThen("rejects", <<Rel("M"), Ret>>)
           \o <<Set("st", "next"), Acc(SE, {<<"sm.cur", "w">>, <<"Data.misc", "w">>}), Act, Acc(SE, MarshalReads), Gate("persist")>>
           \o IfThen("nDone", <<Set("done", "T"), Rel("M"), Ret>>)
           \o IfThen("nNoOp", <<Rel("M"), Ret>>)
           \o <<Set("ev", "nev")>>)
    [] f = "RemoveActive" ->
        <<Acq("SW"), Acc("swap.(*SwapService).RemoveActiveSwap", {<<"lastMsgLog", "w">>, <<"activeSwaps", "w">>}), Set("active", "F"), Rel("SW"), Ret>>
    [] f = "OnCsvPassed" ->
        GetActive \o IfThen("inactive", <<Ret>>)
        \o <<CallEv("SendEvent", "csv")>> \o IfThen("done", <<Call("RemoveActive")>>) \o <<Ret>>
    [] f = "OnTxConfirmed" ->
        GetActive \o IfThen("inactive", <<Ret>>)
        \o <<Acc("swap.(*SwapService).OnTxConfirmed", V("Data.hex", "w")), CallEv("SendEvent", "txconf")>>
        \o IfThen("done", <<Call("RemoveActive")>>) \o <<Ret>>
    [] f = "OnPay" ->       \* SwapService.OnPayment (claim invoice)
        GetActive \o IfThen("inactive", <<Ret>>)
        \o <<CallEv("SendEvent", "paid")>> \o IfThen("done", <<Call("RemoveActive")>>) \o <<Ret>>
    [] f = "OnTimeout" ->   \* createTimeoutCallback.func1
        GetActive \o IfThen("inactive", <<Ret>>)
        \o <<Acc("swap.(*SwapService).createTimeoutCallback.func1", V("Data.toc", "w")), CallEv("SendEvent", "timeout")>>
        \o IfThen("done", <<Call("RemoveActive")>>) \o <<Ret>>
    [] f = "Resend" ->      \* SwapService.ResendLastMessage
        GetActive \o IfThen("inactive", <<Ret>>)
        \o IfThen("lockedResend", <<Acq("M")>>)
        \o <<Acc("swap.(*SwapService).ResendLastMessage", V("Data.next", "r")), Gate("msg.send")>>
        \o IfThen("fltSend", <<Acc("swap.(*SwapService).ResendLastMessage", V("Data.err", "w"))>>)
        \o IfThen("lockedResend", <<Rel("M")>>) \o <<Ret>>
    \* ---- watcher: registration of the CSV wait
    [] f = "AddWaitForCsvTx" ->
        IfElse("rpc",
           \* txwatcher/rpctxwatcher.go AddWaitForCsvTx
           <<Gate("rpc.txout")>>
           \o IfThen("above",
                 IfElse("syncCb", <<Call("OnCsvPassed"), Ret>>,          \* before the repair: csvPassedCallback(swapId) synchronously; err == nil -> return
                                  <<Spawn("acb", "AsyncCb"), Ret>>))      \* go func() { csvPassedCallback(swapId) ... }()
           \o <<Acq("W"), Acc("txwatcher.(*BlockchainRpcTxWatcher).addCsvTx", V("w.csvList", "w")), Set("csvN", "1"), Rel("W"), Ret>>,
           \* lwk/electrumtxwatcher.go AddWaitForCsvTx -> subscriber.Register
           <<Acq("H"), Acc("electrum.(*liquidBlockHeaderSubscriber).Register", V("el.observers", "w")), Set("csvN", "+1"), Rel("H"), Ret>>)
    [] f = "AsyncCb" -> <<Call("OnCsvPassed"), Ret>>
    [] f = "AddWaitForConfTx" ->
        IfElse("rpc",
           <<Spawn("obs", "ObsLoop"), Acq("W"), Acc("txwatcher.(*BlockchainRpcTxWatcher).AddWaitForConfirmationTx", V("w.obsList", "w")),
             Gate("rpc.height"), Set("hk", "cf"), Send("obs"), Rel("W"), Ret>>,        \* newBlock <- height: blocks, with W (and the swap mutex) held, until the loop takes it
           <<Acq("H"), Acc("electrum.(*liquidBlockHeaderSubscriber).Register", V("el.observers", "w")), Set("confN", "1"), Rel("H"), Ret>>)
    \* ---- watcher: block notifications
    [] f = "Notify" ->      \* a new block reaches the watcher of the swap's chain
        IfElse("rpc",
           Dispatch \o <<Call("HandleCsvTx"), Ret>>,
           IfThen("elwTakes", <<Set("hdr", "d"), Spawn("elw", "Update")>>) \o <<Ret>>)   \* the watcher goroutine takes one header at a time
    [] f = "HandleCsvTx" -> \* txwatcher/rpctxwatcher.go HandleCsvTx
        <<Set("rm", "F"), Acq("W"), Acc("txwatcher.(*BlockchainRpcTxWatcher).HandleCsvTx", V("w.csvList", "r"))>>
        \o IfThen("csvListed",
              <<Gate("rpc.txout")>>
              \o IfThen("above",
                    IfElse("cbUnderLockRpc", <<Call("OnCsvPassed"), Set("rm", "T")>>, <<Set("rm", "L")>>)))
        \o <<Rel("W")>>
        \o IfThen("rmLater", <<Call("OnCsvPassed"), Set("rm", "T")>>)
        \o <<Acq("W"), Acc("txwatcher.(*BlockchainRpcTxWatcher).TxClaimed", V("w.csvList", "w"))>>
        \o IfThen("rmNow", <<Set("csvN", "0")>>) \o <<Rel("W"), Ret>>
    [] f = "Update" ->      \* lwk StartWatchingTxs loop body: acceptBlockHeight + subscriber.Update
        <<Acq("R"), Acc("lwk.(*electrumTxWatcher).acceptBlockHeight", V("el.height", "w")), Rel("R")>>
        \o IfElse("cbUnderLockEl",
              \* before the repair: the registry lock is held during the observers' callbacks; Deregister does not lock
              <<Acq("H"), Acc("electrum.(*liquidBlockHeaderSubscriber).Update", V("el.observers", "r")), Setn("observers")>>
              \o While("n>0",
                    <<Decn>>
                    \o IfElse("confObs",
                          <<Gate("el.history")>>          \* observeOpeningTX.Callback
                          \o IfThen("hdrConfirmed", <<Gate("el.rawtx"), Call("OnTxConfirmed"),
                                                      Acc("electrum.(*liquidBlockHeaderSubscriber).Deregister", V("el.observers", "w")), Set("confN", "0")>>),
                          <<Gate("el.history")>>          \* observeCSVTX.Callback
                          \o IfThen("hdrMature", <<Call("OnCsvPassed"),
                                                   Acc("electrum.(*liquidBlockHeaderSubscriber).Deregister", V("el.observers", "w")), Set("csvN", "0")>>)))
              \o <<Rel("H"), Ret>>,
              \* repaired: Update is serialized by updateMu, copies the observers under the registry lock and calls them without it
              <<Acq("U"), Acq("H"), Acc("electrum.(*liquidBlockHeaderSubscriber).Update", V("el.observers", "r")), Setn("observers"), Rel("H")>>
              \o While("n>0",
                    <<Decn>>
                    \o IfElse("confObs",
                          <<Gate("el.history")>>
                          \o IfThen("hdrConfirmed", <<Gate("el.rawtx"), Call("OnTxConfirmed"),
                                                      Acq("H"), Acc("electrum.(*liquidBlockHeaderSubscriber).Deregister", V("el.observers", "w")), Set("confN", "0"), Rel("H")>>),
                          <<Gate("el.history")>>
                          \o IfThen("hdrMature", <<Call("OnCsvPassed"),
                                                   Acq("H"), Acc("electrum.(*liquidBlockHeaderSubscriber).Deregister", V("el.observers", "w")), Set("csvN", "0"), Rel("H")>>)))
              \o <<Rel("U"), Ret>>)
    [] f = "ObsLoop" ->     \* txwatcher observationLoop of one swap
        Forever(<<Recv>>
                \o IfThen("newHeight",
                      <<Set("lastH", "hobs"), Gate("rpc.height"), Gate("rpc.hash"), Gate("rpc.txout")>>
                      \o IfThen("confirmed",
                            <<Gate("rpc.hash"), Gate("rpc.rawtx"), Call("OnTxConfirmed"),
                              Acq("W"), Acc("txwatcher.(*BlockchainRpcTxWatcher).observationLoop.func1", V("w.obsList", "w")), Rel("W"), Ret>>)))
    [] f = "DeliverH" ->    \* dispatcher hands the new height to the swap's observation loop
        IfElse("rpc",
           Dispatch
           \o <<Set("hk", "cf")>> \o IfThen("obsReady", <<Send("obs")>>) \o <<Ret>>,         \* a loop that is busy does not take the height (the sender goroutine stays behind)
           IfThen("elwTakes", <<Set("hdr", "d"), Spawn("elw", "Update")>>) \o <<Ret>>)
    \* ---- actions of the FSM states (Execute)
    [] f = "A_ACP"   -> <<Gate("ln.notifier"), Gate("wallet.script"), Call("AddWaitForCsvTx"), Set("nev", "NoOp"), Ret>>
    [] f = "A_WCSV"  -> MgrRemove \o <<Gate("wallet.script"), Call("AddWaitForCsvTx"), Set("nev", "NoOp"), Ret>>
    [] f = "A_CCSV"  -> MgrRemove \o <<Gate("wallet.csv"), Gate("wallet.label"), Set("nev", "succ"), Ret>>
    [] f = "A_CCOOP" -> MgrRemove \o <<Gate("wallet.coop")>>
                        \o IfElse("fltCoop", <<Acc("@", V("Data.err", "w")), Set("nev", "failed")>>, <<Gate("wallet.label"), Set("nev", "succ")>>) \o <<Ret>>
    [] f = "A_DCSV"  -> <<Acq("P"), Acc("policy.(*Policy).<setter>", V("pol.lists", "r")),
                          Acc("policy.(*Policy).ReloadFile<setter", {<<"pol.allow", "w">>, <<"pol.lists", "w">>, <<"pol.path", "w">>}), Rel("P")>>
                        \o MgrRemove \o <<Set("nev", "Done"), Ret>>
    [] f \in {"A_DCOOP", "A_DPRE"} -> MgrRemove \o <<Set("nev", "Done"), Ret>>
    [] f = "A_CANC"  -> <<Set("nev", "Done"), Ret>>
    [] f = "A_SCANC" -> <<Gate("msg.send"), Set("nev", "succ"), Ret>>
    [] f = "A_ATC"   -> IfThen("inReceiver", MgrRemove) \o <<Gate("ln.decode")>> \o Height
                        \o <<Gate("wallet.script"), Call("AddWaitForConfTx"), Set("nev", "NoOp"), Ret>>
    [] f = "A_VPAY"  -> <<Gate("validate")>> \o Height \o <<Gate("ln.payclaim"), Acc("@", V("Data.misc", "w")), Set("nev", "succ"), Ret>>
    [] f = "A_CLAIM" -> <<Gate("wallet.preimage"), Gate("wallet.label"), Acc("@", V("Data.misc", "w")), Set("nev", "succ"), Ret>>
    [] f = "A_SPRIV" -> <<Acc("@", V("Data.next", "w")), Set("nev", "succ"), Ret>>
    [] f = "A_SCOOP" -> <<Gate("msg.send"), Set("nev", "succ"), Ret>>
    \* ---- RPC / policy commands, new swaps
    [] f = "SwapOut" ->     \* SwapService.SwapOut for a NEW swap on another channel
        NewSwapsAllowed
        \o <<Acq("P"), Acc("policy.(*Policy).IsPeerSuspicious", V("pol.lists", "r")), Rel("P"),
          Acq("P"), Acc("policy.(*Policy).GetMinSwapAmountMsat", V("pol.min", "r")), Rel("P"),
          Gate("ln.canspend"), Gate("ln.spendable"),
          Acq("SW"), Acc("swap.(*SwapService).lockSwap", {<<"activeSwaps", "r">>, <<"Data.req", "r">>, <<"activeSwaps", "w">>}), Rel("SW"),
          Acq("M2"), Gate("persist")>>
        \o IfThen("lbtc", Height)                        \* CreateSwapRequestAction: setLiquidPaymentWindowAnchor
        \o <<Gate("persist"), Gate("msg.send"), Gate("persist"), Gate("persist"), Rel("M2"), Ret>>
    [] f = "OnReq" ->       \* OnMessageReceived(swap_in_request) of a NEW swap on another channel
        <<Acq("SW"), Acc("swap.(*SwapService).logMsg", V("lastMsgLog", "w")), Rel("SW")>>
        \o GetActive                                     \* swapIdKnown
        \o <<Gate("ln.canspend"), Gate("ln.spendable"), Gate("ln.probe"),
             Acq("SW"), Acc("swap.(*SwapService).lockSwap", {<<"activeSwaps", "r">>, <<"Data.req", "r">>, <<"activeSwaps", "w">>}), Rel("SW"),
             Acq("M2"), Gate("persist")>>
        \o NewSwapsAllowed                                \* CheckRequestWrapperAction
        \o <<Acq("P"), Acc("policy.(*Policy).GetMinSwapAmountMsat", V("pol.min", "r")), Rel("P"),
             Acq("P"), Acc("policy.(*Policy).IsPeerAllowed", V("pol.lists", "r")), Rel("P"),
             Acq("P"), Acc("policy.(*Policy).IsPeerSuspicious", V("pol.lists", "r")), Rel("P")>>
        \o IfThen("lbtc", Height)                        \* SwapInReceiverInitAction: setLiquidPaymentWindowAnchor
        \o <<Gate("persist"), Gate("msg.send"), Gate("persist")>> \o Height \o <<Gate("persist"), Rel("M2"), Ret>>
    [] f = "PolSet" ->      \* a policy setter (DisableSwaps, EnableSwaps, AddTo/RemoveFrom Allowlist / SuspiciousPeerList): package mutex, then ReloadFile
        <<Acq("P"),
          Acc("policy.(*Policy).<setter>", {<<"pol.allow", "r">>, <<"pol.lists", "r">>, <<"pol.path", "r">>}),      \* the setter's own precondition reads
          Acc("policy.(*Policy).ReloadFile<setter", {<<"pol.allow", "w">>, <<"pol.lists", "w">>, <<"pol.min", "w">>, <<"pol.path", "w">>}), Rel("P"), Ret>>
    [] f = "PolReload" ->   \* ReloadFile called directly (peerswaprpc ReloadPolicyFile). Before the repair: no mutex.
        \* pol.elems: the elements of the freshly parsed lists. A setter publishes them under mu (ordered with every later Get);
        \* an unlocked ReloadFile publishes them unordered, so a reader of a copy obtained by Get() races with their initialisation
        IfElse("lockedPolicy",
           <<Acq("P"), Acc("policy.(*Policy).ReloadFile", {<<"pol.path", "r">>, <<"pol.allow", "w">>, <<"pol.lists", "w">>, <<"pol.min", "w">>, <<"pol.path", "w">>}), Rel("P"), Ret>>,
           <<Acc("policy.(*Policy).ReloadFile", {<<"pol.path", "r">>, <<"pol.allow", "w">>, <<"pol.lists", "w">>, <<"pol.min", "w">>, <<"pol.path", "w">>, <<"pol.elems", "w">>}), Ret>>)
    [] f = "PolGet" ->
        <<Acq("P"), Acc("policy.(*Policy).Get", {<<"pol.allow", "r">>, <<"pol.lists", "r">>, <<"pol.min", "r">>}), Rel("P"),
          Acc("policy.(*Policy).String", V("pol.elems", "r"))>>          \* the caller formats / marshals the copy outside the mutex
        \o NewSwapsAllowed \o <<Ret>>
    [] f = "Recover" ->     \* SwapService.RecoverSwaps: one goroutine per stored swap, then wg.Wait()
        <<Spawn("rec", "RecoverOne"), I("join", "rec", "", 0), Ret>>
    [] f = "RecoverOne" ->
        <<Acq("SW"), Acc("swap.(*SwapService).lockSwap", {<<"activeSwaps", "r">>, <<"activeSwaps", "w">>}), Set("active", "T"), Rel("SW")>>
        \o IfThen("lockedRecover", <<Acq("M")>>)         \* before the repair: state.Action.Execute WITHOUT the swap mutex
        \o <<Acc("swap.(*SwapStateMachine).Recover", V("sm.cur", "r")), Act,
             Acc("swap.(*SwapStateMachine).Recover", MarshalReads), Gate("persist")>>
        \o IfThen("lockedRecover", <<Rel("M")>>)
        \o IfThen("nNotNoOp", <<Set("ev", "nev"), Call("SendEvent")>> \o IfThen("done", <<Call("RemoveActive")>>))
        \o <<Ret>>
    [] OTHER -> <<Ret>>

\* ---------------------------------------------------------------- state
(* s is one record:
   stk[p]     call stack of p, innermost frame last: [f, i, ev, n]
   started[p], own[mutex] (owner or "-"), rd[p] (read holds of the service lock)
   st, active, csvN, confN (watch registrations), d (depth class of the opening
   output: 0 far from CSV, 1 one block before, 2 CSV reached), hdr (what the
   last Electrum header implies), cf (opening tx confirmed), nev/done/rm
   (registers), got (rendezvous), steps, cfg                                 *)
Frame(f, ev) == [f |-> f, i |-> 1, ev |-> ev, n |-> 0]
Top(s, p)    == s.stk[p][Len(s.stk[p])]
Running(s, p) == s.started[p] /\ s.stk[p] # <<>>
Returned(s, p) == s.started[p] /\ s.stk[p] = <<>>
Ins(s, p)    == Prog(Top(s, p).f)[Top(s, p).i]

EntryFrame(e) ==
  CASE e = "msg_cancel"   -> Frame("OnMsg", "cancel")
    [] e = "msg_coop"     -> Frame("OnMsg", "coop")
    [] e = "msg_coop_bad" -> Frame("OnMsg", "coop_bad")
    [] e = "msg_opening"  -> Frame("OnMsg", "opening")
    [] e = "pay_claim"    -> Frame("OnPay", "paid")
    [] e = "timeout"      -> Frame("OnTimeout", "timeout")
    [] e = "notify"       -> Frame("Notify", "-")
    [] e = "notify_obs"   -> Frame("DeliverH", "-")
    [] e = "rpc_resend"   -> Frame("Resend", "-")
    [] e = "rpc_swapout"  -> Frame("SwapOut", "-")
    [] e = "msg_req"      -> Frame("OnReq", "-")
    [] e = "pol_set"      -> Frame("PolSet", "-")
    [] e = "pol_reload"   -> Frame("PolReload", "-")
    [] e = "pol_get"      -> Frame("PolGet", "-")
    [] e = "recover"      -> Frame("Recover", "-")
    [] OTHER              -> Frame("Nop", "-")

Cond(c, s, p) ==
  LET ev == Top(s, p).ev IN
  CASE c = "inactive"    -> ~s.active
    [] c = "ctx"         -> ev \in CtxEvents
    [] c = "invalidmsg"  -> ev = "coop_bad"
    [] c = "rejects"     -> NextSt(s.cfg.role, s.st, ev) = "-"
    [] c = "applied"     -> ev \in s.app
    [] c = "done"        -> s.done[p]
    [] c = "nDone"       -> s.nev[p] = "Done"
    [] c = "nNoOp"       -> s.nev[p] = "NoOp"
    [] c = "nNotNoOp"    -> s.nev[p] # "NoOp"
    [] c = "rpc"         -> s.cfg.watcher = "rpc"
    [] c = "above"       -> s.d = 2
    [] c = "syncCb"      -> ~FixAsyncCb
    [] c = "cbUnderLockRpc" -> ~FixCbRpc
    [] c = "cbUnderLockEl"  -> ~FixCbEl
    [] c = "lockedDispatch" -> FixDispatch
    [] c = "lockedPolicy"   -> FixPolicy
    [] c = "lockedResend"   -> FixResend
    [] c = "lockedRecover"  -> FixRecover
    [] c = "csvListed"   -> s.csvN > 0
    [] c = "rmLater"     -> s.rm[p] = "L"
    [] c = "rmNow"       -> s.rm[p] = "T"
    [] c = "rmConfLater" -> s.rm[p] = "K"
    [] c = "n>0"         -> Top(s, p).n > 0
    [] c = "confObs"     -> s.confN > 0
    [] c = "hdrMature"   -> s.hdr = 2
    [] c = "hdrConfirmed" -> s.hcf               \* judged by the height of the header
    [] c = "confirmed"   -> s.cf /\ s.ocur >= 1  \* judged by the notified height, which may lag the node
    [] c = "newHeight"   -> s.ocur > s.lastH     \* observationLoop: current <= lastHeight -> continue
    \* the dispatcher's offer is taken: unbuffered channel -> the loop is at its receive; buffered (repaired) -> the slot is free
    [] c = "obsReady"    -> Running(s, "obs") /\ ~s.got["obs"] /\ (FixKickoff \/ Prog(Top(s, "obs").f)[Top(s, "obs").i].op = "recv")
    [] c = "elwTakes"    -> ~Running(s, "elw") /\ s.fresh       \* acceptBlockHeight ignores a height it has seen
    [] c = "lbtc"        -> s.cfg.lbtc
    [] c = "fltCoop"     -> "wallet.coop" \in s.cfg.faults
    [] c = "fltSend"     -> "msg.send" \in s.cfg.faults
    [] c = "inReceiver"  -> s.cfg.role = "in_receiver"
    [] OTHER             -> FALSE

\* with frame fields of the top frame of p replaced
SetTop(s, p, fr) == [s EXCEPT !.stk[p] = [@ EXCEPT ![Len(@)] = fr]]
Adv(s, p, k) == SetTop(s, p, [Top(s, p) EXCEPT !.i = @ + k])
Push(s, p, fr) == [s EXCEPT !.stk[p] = Append(@, fr)]
Pop(s, p) == [s EXCEPT !.stk[p] = SubSeq(@, 1, Len(@) - 1)]

ApplySet(s, p, k, v) ==
  CASE k = "done"   -> [s EXCEPT !.done[p] = (v = "T")]
    [] k = "nev"    -> [s EXCEPT !.nev[p] = v]
    [] k = "rm"     -> [s EXCEPT !.rm[p] = v]
    [] k = "active" -> [s EXCEPT !.active = (v = "T")]
    [] k = "st"     -> [s EXCEPT !.st = NextSt(s.cfg.role, s.st, Top(s, p).ev)]
    [] k = "ev"     -> SetTop(s, p, [Top(s, p) EXCEPT !.ev = s.nev[p]])
    [] k = "csvN"   -> [s EXCEPT !.csvN = IF v = "+1" THEN (IF @ < 3 THEN @ + 1 ELSE @) ELSE IF v = "1" THEN 1 ELSE 0]
    [] k = "confN"  -> [s EXCEPT !.confN = IF v = "1" THEN 1 ELSE 0]
    [] k = "hdr"    -> [s EXCEPT !.hdr = s.d, !.hcf = s.cf, !.fresh = FALSE]
    [] k = "hk"     -> [s EXCEPT !.hk[p] = s.mined]
    [] k = "lastH"  -> [s EXCEPT !.lastH = s.ocur]
    [] k = "app"    -> [s EXCEPT !.app = IF Top(s, p).ev \in {"coop", "opening"} THEN @ \cup {Top(s, p).ev} ELSE @]
    [] OTHER        -> s

ReadersOther(s, p) == \E q \in Procs \ {p} : s.rd[q] > 0
\* a writer waiting for the service lock blocks new readers (sync.RWMutex)
WriterWaiting(s, p) == \E q \in Procs \ {p} : Running(s, q) /\ Ins(s, q).op = "acq" /\ Ins(s, q).a = "SW"
                                               /\ (s.own["SW"] # "-" \/ ReadersOther(s, q))

LockOf(in, p) == IF in.a = "M2" THEN "M2" \o p ELSE in.a
SpawnName(in, p) == IF in.a = "acb" THEN "acb" \o p ELSE in.a
\* can p execute its current instruction?
Enabled(s, p) ==
  /\ Running(s, p)
  /\ LET in == Ins(s, p) IN
     CASE in.op = "acq"  -> /\ s.own[LockOf(in, p)] = "-"
                            /\ (in.a = "SW" => ~ReadersOther(s, p) /\ s.rd[p] = 0)
       [] in.op = "racq" -> s.own["SW"] = "-" /\ ~WriterWaiting(s, p)
       [] in.op = "send" -> FixKickoff \/ (Running(s, in.a) /\ Ins(s, in.a).op = "recv" /\ ~s.got[in.a])   \* repaired: select/default never blocks
       [] in.op = "recv" -> s.got[p]
       [] in.op = "join" -> Returned(s, in.a)
       [] in.op = "spawn" -> ~Running(s, SpawnName(in, p))
       [] OTHER -> TRUE

\* daemon loops waiting for input are not blocked handlers
Idle(s, p) == Running(s, p) /\ Ins(s, p).op = "recv" /\ ~s.got[p]

ActionOf(st) == "A_" \o st

Exec(s0, p) ==
  LET s  == [s0 EXCEPT !.steps = @ + 1]
      in == Ins(s, p) IN
  CASE in.op = "acq"   -> Adv([s EXCEPT !.own[LockOf(in, p)] = p], p, 1)
    [] in.op = "rel"   -> Adv([s EXCEPT !.own[LockOf(in, p)] = "-"], p, 1)
    [] in.op = "racq"  -> Adv([s EXCEPT !.rd[p] = @ + 1], p, 1)
    [] in.op = "rrel"  -> Adv([s EXCEPT !.rd[p] = @ - 1], p, 1)
    [] in.op \in {"gate", "acc", "recv0"} -> Adv(s, p, 1)
    [] in.op = "call"  -> Push(Adv(s, p, 1), p, Frame(in.a, IF in.b = "=" THEN Top(s, p).ev ELSE in.b))
    [] in.op = "act"   -> Push(Adv(s, p, 1), p, Frame(ActionOf(s.st), Top(s, p).ev))
    [] in.op = "ret"   -> Pop(s, p)
    [] in.op = "if"    -> IF Cond(in.a, s, p) THEN Adv(s, p, 1) ELSE Adv(s, p, 1 + in.n)
    [] in.op = "jmp"   -> Adv(s, p, 1 + in.n)
    [] in.op = "set"   -> Adv(ApplySet(s, p, in.a, in.b), p, 1)
    [] in.op = "setn"  -> SetTop(s, p, [Top(s, p) EXCEPT !.i = @ + 1, !.n = s.csvN + s.confN])
    [] in.op = "decn"  -> SetTop(s, p, [Top(s, p) EXCEPT !.i = @ + 1, !.n = @ - 1])
    [] in.op = "spawn" -> LET q == SpawnName(in, p) IN
                          Adv([s EXCEPT !.started[q] = TRUE, !.stk[q] = <<Frame(in.b, "-")>>, !.got[q] = FALSE], p, 1)
    [] in.op = "send"  -> IF s.got[in.a] THEN Adv(s, p, 1)      \* slot taken (repaired code only): the height is dropped
                          ELSE Adv([s EXCEPT !.got[in.a] = TRUE, !.hobs = s.hk[p]], p, 1)
    [] in.op = "recv"  -> Adv([s EXCEPT !.got[p] = FALSE, !.ocur = s.hobs], p, 1)   \* the loop works on the height it received
    [] in.op = "join"  -> Adv(s, p, 1)
    [] OTHER -> Adv(s, p, 1)

AtGate(s, p) == Running(s, p) /\ Ins(s, p).op = "gate"

(* Control flow and process-local registers are not interleaving points: a   *)
(* step is one visible instruction (lock operation, gate, shared access,     *)
(* channel operation, update of the shared abstract state) followed by the   *)
(* local instructions up to the next visible one. Branch conditions are      *)
(* therefore evaluated at the instant of the lock operation / gate / access  *)
(* that produced the value they test.                                        *)
Local(in) == in.op \in {"if", "jmp", "call", "ret", "act", "setn", "decn"} \/ (in.op = "set" /\ in.a \in {"done", "nev", "rm", "ev", "hk", "lastH"})
RECURSIVE Fuse(_, _)
Fuse(s, p) == IF Running(s, p) /\ Local(Ins(s, p)) THEN Fuse(Exec(s, p), p) ELSE s
Step(s, p) == Fuse(Exec(s, p), p)

\* ---------------------------------------------------------------- gate granularity
(* The harness can hold a goroutine only at gates. A macro step lets one     *)
(* process pass the gate it is parked at and run to its next gate / block /  *)
(* return; every other process that becomes able to move (spawned, or woken  *)
(* by a released lock) then runs to ITS next gate, in any order.             *)
(* Between gates the goroutines run freely: all interleavings of their lock  *)
(* and channel operations are possible (e.g. who gets a mutex that was just  *)
(* released), so a macro step has a SET of outcomes.                         *)
Sync(in) == in.op \in {"acq", "rel", "racq", "rrel", "send", "recv", "spawn", "join", "gate"}
RECURSIVE RunL(_, _)
RunL(s, p) == IF ~Running(s, p) \/ Sync(Ins(s, p)) THEN s ELSE RunL(Exec(s, p), p)
StepS(s, p) == RunL(Exec(s, p), p)
Movable(s) == {r \in Procs : Running(s, r) /\ Enabled(s, r) /\ ~AtGate(s, r)}
RECURSIVE SettleSet(_)
SettleSet(s) == IF Movable(s) = {} THEN {s} ELSE UNION {SettleSet(StepS(s, r)) : r \in Movable(s)}

\* ---------------------------------------------------------------- configurations
(* cfg: watcher ("rpc" | "el"), role, prep (abstract state the prepared swap  *)
(* is in), d0 (depth class before the run), restart (node restarted, nothing  *)
(* recovered yet), faults, entry[p] for the driver processes ("-" = unused),  *)
(* mines (how often the environment may mine the maturing block)             *)
InitState(cfg) ==
  [stk |-> [p \in Procs |-> IF p = "obs" /\ cfg.prep = "ATC" /\ cfg.watcher = "rpc" /\ ~cfg.restart THEN <<Frame("ObsLoop", "-")>> ELSE <<>>],
   started |-> [p \in Procs |-> p = "obs" /\ cfg.prep = "ATC" /\ cfg.watcher = "rpc" /\ ~cfg.restart],     \* the swap's observation loop idles at its select
   own |-> [m \in Mutexes |-> "-"], rd |-> [p \in Procs |-> 0],
   st |-> cfg.prep, active |-> ~cfg.restart,
   \* registrations made while the swap was prepared: the RPC watcher keys them by swap id, the Electrum subscriber appends
   csvN |-> IF cfg.restart THEN 0 ELSE IF cfg.prep = "ACP" THEN 1 ELSE IF cfg.prep = "WCSV" THEN (IF cfg.watcher = "el" THEN 2 ELSE 1) ELSE 0,
   confN |-> IF cfg.prep = "ATC" /\ ~cfg.restart /\ cfg.watcher = "el" THEN 1 ELSE 0,
   d |-> cfg.d0, hdr |-> 0, cf |-> FALSE, hcf |-> FALSE, hk |-> [p \in Procs |-> 0],
   hobs |-> 0, ocur |-> 0, lastH |-> IF cfg.prep = "ATC" /\ ~cfg.restart THEN 0 ELSE 0 - 1,   \* height (in blocks mined during the run) last offered to / processed by the observation loop
   app |-> IF cfg.prep = "ATC" THEN {"opening"} ELSE {},
   fresh |-> cfg.prep \in {"ACP", "WCSV"} /\ ~cfg.restart,      \* blocks the watcher has not been told about yet
   nev |-> [p \in Procs |-> "-"], done |-> [p \in Procs |-> FALSE], rm |-> [p \in Procs |-> "F"],
   got |-> [p \in Procs |-> FALSE], mined |-> 0, steps |-> 0, cfg |-> cfg]

Start(s, p) == [s EXCEPT !.started[p] = TRUE, !.stk[p] = <<EntryFrame(s.cfg.entry[p])>>]
CanStart(s, p) == p \in Drivers /\ s.cfg.entry[p] # "-" /\ ~s.started[p]

\* environment: one block is mined (the depth class advances; a taker's opening tx confirms)
CanMine(s) == s.mined < s.cfg.mines
Mine(s) == [s EXCEPT !.mined = @ + 1, !.d = IF @ = 1 THEN 2 ELSE @, !.cf = TRUE, !.fresh = TRUE]

\* ---------------------------------------------------------------- properties
Unreturned(s) == {p \in Procs : Running(s, p) /\ ~Idle(s, p)}
\* nobody can move any more
Stuck(s) == /\ \A p \in Procs : ~Enabled(s, p)
            /\ \A p \in Drivers : ~CanStart(s, p)
P_C18_nodeadlock(s) == Stuck(s) => Unreturned(s) = {}
MaxSteps == 2000
P_C18_bounded(s) == s.steps <= MaxSteps

\* what a stuck process waits for: the lock and the call chain
WaitOf(s, p) == [p |-> p, e |-> IF p \in Drivers THEN s.cfg.entry[p] ELSE p, lock |-> Ins(s, p).a,
                 chain |-> [k \in 1..Len(s.stk[p]) |-> s.stk[p][k].f]]
DeadlockClass(s) == {WaitOf(s, p) : p \in Unreturned(s)}

\* locks protecting an access of p: mutexes it owns; the service lock in read mode protects reads only
LockSet(s, p, mode) == {m \in Mutexes : s.own[m] = p} \cup (IF mode = "r" /\ s.rd[p] > 0 THEN {"SW"} ELSE {})
AccessesOf(s, p) == IF Running(s, p) /\ Ins(s, p).op = "acc" THEN Ins(s, p).b ELSE {}
\* the function an access is attributed to: actions run inside SendEvent (swap mutex held) or inside Recover (not held)
SiteOf(s, p) ==
  IF Ins(s, p).a # "@" THEN Ins(s, p).a
  ELSE LET ks == {k \in 1..Len(s.stk[p]) : s.stk[p][k].f \in {"SendEvent", "RecoverOne"}} IN
       IF ks = {} THEN "?" ELSE IF s.stk[p][CHOOSE k \in ks : \A j \in ks : j <= k].f = "SendEvent" THEN SE ELSE "swap.(*SwapStateMachine).Recover"
RacePQ(s, p, q) ==
  {[a |-> SiteOf(s, p), b |-> SiteOf(s, q), v |-> x[1]] :
     x \in {x \in AccessesOf(s, p) : \E y \in AccessesOf(s, q) :
                /\ y[1] = x[1] /\ (x[2] = "w" \/ y[2] = "w")
                /\ LockSet(s, p, x[2]) \cap LockSet(s, q, y[2]) = {}}}
Races(s) == UNION {RacePQ(s, p, q) : <<p, q>> \in {pq \in Procs \X Procs : pq[1] # pq[2]}}
P_C19_norace(s) == Races(s) = {}
=============================================================================
