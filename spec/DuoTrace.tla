------------------------------ MODULE DuoTrace ------------------------------
(* Code -> specification. Replays traces recorded from TWO REAL swap services wired together  *)
(* (harness/duo: one line per scheduler step = the step, the events of both nodes in            *)
(* linearization order, the joint snapshot).                                                    *)
(*  Conformance: every recorded step is re-executed on the design model (Step of Duo.tla); the  *)
(*    joint snapshot of the real world after the step must be the one the specification allows  *)
(*    for that schedule. The first disagreement of a trace is reported as drift (machinery /    *)
(*    specification error, never a property violation).                                         *)
(*  Properties: the observer folds the REAL events through the checks of DuoProps (the same     *)
(*    definitions the design model is checked with): D4 at every send / delivery, D5 at every   *)
(*    delivery and retransmission, D1 safety and D3 at every quiescent snapshot, D1 / D2 at the *)
(*    end of a run that ended with the fair closure.                                            *)
(* One verdict file per trace that has something to say; the number of consumed lines at the end. *)
EXTENDS Duo, Json

Trace == ndJsonDeserialize("trace.ndjson")
VARIABLES l, o

NoRec == [role |-> "", prev |-> "", cur |-> "", fl |-> ""]
BB(x) == [A |-> x, B |-> x]
ObsInit == [rec |-> BB(NoRec), claim |-> "none", crashes |-> FALSE, faults |-> FALSE, opened |-> {}, openby |-> BB(FALSE), spentby |-> BB(FALSE),
            lostopen |-> BB(FALSE), lostspend |-> BB(FALSE), lossyTo |-> BB(FALSE), adv |-> FALSE, v |-> {}, rates |-> <<>>, chain |-> "btc", q |-> <<>>, hasq |-> FALSE, drift |-> "", t |-> 0]
HasFl(fl, c) == \E i \in 1..Len(fl) : SubSeq(fl, i, i) = c
SetOf(s) == {s[i] : i \in 1..Len(s)}

\* ---- the step as the harness logs it -> the step record of the model
NormStep(st) ==
  [a |-> st.a, n |-> Get(st, "n", ""), typ |-> Get(st, "typ", ""), d |-> Get(st, "d", ""), nb |-> Get(st, "nb", 0), incl |-> Get(st, "incl", FALSE), k |-> Get(st, "k", ""),
   f |-> IF Has(st, "f") THEN [n |-> st.f.n, g |-> st.f.g, o |-> st.f.o, all |-> st.f.all] ELSE None,
   c |-> IF Has(st, "c") THEN [n |-> st.c.n, g |-> st.c.g, occ |-> st.c.occ, w |-> st.c.w] ELSE None]

\* ---- the joint snapshot as the harness logs it, in the shape of Snapshot(w)
NS(x) == [up |-> x.up, act |-> x.act, nact |-> x.nact, snd |-> x.snd, tm |-> x.tm, wconf |-> x.wconf, wcsv |-> x.wcsv, notif |-> x.notif, ndisk |-> x.ndisk,
          disk |-> [role |-> x.disk.role, prev |-> x.disk.prev, cur |-> x.disk.cur, fl |-> x.disk.fl, start |-> x.disk.start, nxt |-> x.disk.nxt]]
TxQ(t) == [owner |-> t.owner, conf |-> t.conf, spent |-> t.spent, by |-> t.by, paid |-> t.paid, st |-> t.st]
SnapOfQ(q) == [A |-> NS(q.A), B |-> NS(q.B), ab |-> [i \in 1..Len(q.ab) |-> q.ab[i]], ba |-> [i \in 1..Len(q.ba) |-> q.ba[i]], tip |-> q.tip,
               txs |-> [i \in 1..Len(q.txs) |-> TxQ(q.txs[i])], fee |-> q.fee, claim |-> q.claim, cpaid |-> q.cpaid, now |-> q.now]
DiffKeys(a, b) == {k \in DOMAIN a : a[k] # b[k]}
Describe(model, real) ==
  LET top == DiffKeys(model, real)
      sub(n) == IF n \in top THEN {n \o "." \o k : k \in DiffKeys(model[n], real[n]) \ {"disk"}} \cup {n \o ".disk." \o k : k \in DiffKeys(model[n].disk, real[n].disk)} ELSE {}
  IN (top \ {"A", "B"}) \cup sub("A") \cup sub("B")

\* ---- observer: one real event
ApplyEv(ob, e) ==
  CASE e.e = "p" -> [ob EXCEPT !.rec[e.n] = [role |-> e.r, prev |-> e.prev, cur |-> e.cur, fl |-> e.fl]]
    [] e.e = "htlc" -> [ob EXCEPT !.claim = CASE e.res \in {"ok", "dup_ok"} -> "succeeded" [] e.res = "pending" -> "inflight"
                                                [] e.res = "fail" -> (IF @ \in {"succeeded", "inflight"} THEN @ ELSE "failed") [] OTHER -> @]
    [] e.e = "htlcres" -> [ob EXCEPT !.claim = IF e.res = "settled" THEN "succeeded" ELSE "failed"]
    [] e.e = "open" -> [ob EXCEPT !.opened = @ \cup {[tx |-> e.tx, hash |-> e.hash, vout |-> e.vout]}, !.openby[e.n] = TRUE]
    [] e.e = "spend" -> IF e.ok THEN [ob EXCEPT !.spentby[e.n] = TRUE] ELSE ob
    [] e.e = "lost" -> [ob EXCEPT !.lossyTo[e.n] = TRUE]
    [] e.e = "recv" -> IF e.res = "down" THEN [ob EXCEPT !.lossyTo[e.n] = TRUE] ELSE ob
    [] e.e = "crash" -> [ob EXCEPT !.crashes = TRUE,
                                   !.lostopen[e.n] = @ \/ (ob.openby[e.n] /\ ~HasFl(ob.rec[e.n].fl, "o")),
                                   !.lostspend[e.n] = @ \/ (ob.spentby[e.n] /\ ~HasFl(ob.rec[e.n].fl, "c"))]
    [] OTHER -> ob
CheckEv(ob, e, st) ==
  CASE e.e = "send" ->
         ChkLeaks(e.k, SetOf(e.lk))
         \cup (IF e.k = "coop_close" THEN LET r == ob.rec[e.n] IN ChkCoopSend(ob.claim, r.role, r.prev, r.cur, HasFl(r.fl, "p"), ob.crashes, ob.faults) ELSE {})
         \cup (IF e.k = "opening_tx_broadcasted" /\ st.a = "retx" /\ ~ob.adv THEN ChkRetx(ob.rec[e.n].cur) ELSE {})
         \cup (IF Has(e, "bad") THEN {V("D5", "D5|malformed-message-sent|" \o e.k, FALSE)} ELSE {})
    [] e.e = "recv" ->
         ChkLeaks(e.k, SetOf(e.lk))
         \cup (IF e.res \notin {"down", "crash"} /\ ~ob.adv     \* (after an adversarial duplicate D5 and D2 are no longer judged)
               THEN ChkRecv(e.k, e.dup, e.res, e.pre, e.to, SetOf(e.sent),
                            IF e.k \in ReqKinds THEN RoleOfReq(e.k) ELSE ob.rec[e.n].role, ob.lossyTo[e.n], ob.crashes \/ ob.faults) ELSE {})
    [] e.e = "dlv" -> IF e.k = "coop_close" THEN ChkCoopRecv(ob.claim, ob.crashes, ob.faults) ELSE {}     \* the key is in the other node's inbox
    [] e.e = "fault" -> {V("D5", "D5|handler-" \o e.what \o "|" \o e.in, FALSE)}
    [] OTHER -> {}
RECURSIVE Fold(_, _, _, _)
Fold(ob, evs, i, st) == IF i > Len(evs) THEN ob ELSE Fold([ApplyEv(ob, evs[i]) EXCEPT !.v = @ \cup CheckEv(ob, evs[i], st)], evs, i + 1, st)

RateOf(ob, role) == LET typ == IF role \in {"out_sender", "out_receiver"} THEN "out" ELSE "in" IN ob.rates[ob.chain \o "_" \o typ]
QuiesceChecks(ob, q) ==
  LET ra == q.A.rec  rb == q.B.rec
      resp == IF q.A.disk.role \in {"out_receiver", "in_receiver"} THEN "A" ELSE "B"
  IN ChkSafety([i \in 1..Len(q.txs) |-> TxQ(q.txs[i])], ob.crashes, ob.faults)
     \cup (IF q.A.ndisk > 0 /\ q.B.ndisk > 0 THEN ChkAgree(ra, rb) ELSE {})
     \cup (IF q[resp].ndisk > 0 THEN ChkPremium(q[resp].rec, q[resp].disk.role, RateOf(ob, q[resp].disk.role)) ELSE {})
     \cup UNION {IF q[n].ndisk > 0 THEN ChkAnnounced(q[n].rec, ob.opened) ELSE {} : n \in {"A", "B"}}
EndChecksObs(ob) ==
  LET q == ob.q
      maker == IF q.A.disk.role \in Makers THEN "A" ELSE "B"
      taker == OtherNode(maker)
      rec(n) == [role |-> q[n].disk.role, cur |-> q[n].disk.cur]
      txs == [i \in 1..Len(q.txs) |-> TxQ(q.txs[i])]
  IN ChkEndAtomic(txs, rec(maker), rec(taker), ob.lostopen[maker], ob.lostspend[taker], ob.crashes, ob.faults)
     \cup ChkEndPaid(q.cpaid, rec(taker), ob.lostspend[taker], ob.crashes, ob.faults)
     \cup (IF ob.adv THEN {} ELSE ChkEndNode(rec("A"), q.A.act, q.A.up, ob.lostspend.A) \cup ChkEndNode(rec("B"), q.B.act, q.B.up, ob.lostspend.B))

Sigs(vs) == {x.sig : x \in vs}
InitT == /\ l = 1 /\ o = ObsInit /\ cf = [name |-> "trace", chain |-> "btc"] /\ w = [WInit EXCEPT !.tip = 1000] /\ sched = <<>>
StepT ==
  /\ l <= Len(Trace)
  /\ LET e == Trace[l] IN
     CASE e.ev = "reset" ->
            /\ cf' = [name |-> "trace", chain |-> e.chain]
            /\ w' = [WInit EXCEPT !.tip = IF e.chain = "btc" THEN 1000 ELSE 5000]
            /\ o' = [ObsInit EXCEPT !.rates = e.rates, !.chain = e.chain, !.t = e.t]
       [] e.ev = "step" ->      \* (bounded quantifiers over singleton sets bind VALUES: each expensive expression is evaluated once)
            \E st \in {NormStep(e.st)} :
            \E w1 \in {IF o.drift = "" THEN Step(w, st) ELSE w} :
            \E o1 \in {Fold([o EXCEPT !.faults = @ \/ st.f # None, !.adv = @ \/ (st.a = "advdup" /\ e.res # "noop")], e.evs, 1, st)} :
            \E dr \in {IF o.drift # "" THEN o.drift ELSE
                        LET real == SnapOfQ(e.q)  model == Snapshot(w1) IN
                        IF model = real THEN "" ELSE "step " \o ToString(e.i) \o " (" \o st.a \o "): " \o ToString(Describe(model, real))} :
              /\ w' = w1
              /\ o' = [o1 EXCEPT !.q = e.q, !.hasq = TRUE, !.v = @ \cup QuiesceChecks(o1, e.q), !.drift = dr]
              /\ UNCHANGED cf
       [] e.ev = "end" ->
            LET ov == o.v \cup (IF e.closed /\ o.hasq THEN EndChecksObs(o) ELSE {})
                mv == w.v \cup (IF e.closed THEN EndChecks(w) ELSE {})
                pred == IF o.drift = "" THEN Sigs(mv) ELSE {}
            IN /\ IF ov = {} /\ o.drift = "" /\ pred = {} THEN TRUE ELSE
                  JsonSerialize("v/v_" \o ToString(o.t) \o ".json", [t |-> o.t, viol |-> SetToSeq(Sigs(ov)), known |-> SetToSeq(Sigs({x \in ov : x.known})),
                                                                      pred |-> SetToSeq(pred), drift |-> o.drift])
               /\ UNCHANGED <<w, cf>> /\ o' = [o EXCEPT !.v = {}]
       [] OTHER -> UNCHANGED <<w, cf, o>>     \* fault lines of the harness itself are counted by the engine
  /\ l' = l + 1 /\ UNCHANGED sched
Finish == /\ l = Len(Trace) + 1
          /\ JsonSerialize("verdict.json", [n |-> Len(Trace)])
          /\ l' = l + 1 /\ UNCHANGED <<w, cf, o, sched>>
NextT == StepT \/ Finish
===============================================================================
