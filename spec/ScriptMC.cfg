CONSTANT MaxLen = 3
CONSTANT CoreLen = 4
CONSTANT CoreFlags = {"consensus"}
INIT Init
NEXT Next
INVARIANT TypeOK
INVARIANT AbstractionSound
INVARIANT Inv_P_C02_OnlyAllowedPaths
INVARIANT Inv_P_C02_CanonicalAccepted
INVARIANT Inv_P_C02_Exact
INVARIANT RunAgrees
INVARIANT AcceptAtEnd
CHECK_DEADLOCK FALSE
