CONSTANTS
  Kind = "trace"
  Confs = 0
  Window = 0
  Csv = 0
  L0 = 0
  MaxNew = 0
  MaxReorg = 0
  MaxFault = 0
  MaxPoll = 0
  MaxTick = 0
  CbErr = FALSE
INIT TInit
NEXT TNext
CHECK_DEADLOCK FALSE
