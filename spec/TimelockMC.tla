------------------------------ MODULE TimelockMC ------------------------------
(* Design-level model checking of Timelock + export of the case space.        *)
(*                                                                            *)
(* State machine: ONE taker claim payment.  The environment picks the swap    *)
(* (chain/version, back-end, anchor, invoice CLTV) and the height at which    *)
(* the maker's opening transaction confirms; the Liquid/Bitcoin tip advances  *)
(* through the boundary heights; the taker runs AwaitTxConfirmation, waits    *)
(* for the confirmations, then makes payment attempts.  The P_* invariants    *)
(* speak about the HTLC it creates.                                           *)
EXTENDS Timelock, TLC, Json, SequencesExt

CONSTANTS Tier,          \* "quick" | "thorough": size of the boundary sets
          Part           \* "C24" | "C04R" | "C05R" | "all": which case space to export and check lemmas on

Rng(a, b) == a .. b
Thorough == Tier = "thorough"
For(p) == Part \in {p, "all"}

(* ------------------------------------------------------------------------ *)
(* boundary sets                                                            *)
\* offsets of a tip relative to the anchor
LiqOffs == IF Thorough THEN Rng(-2, 3) \cup Rng(27, 32) \cup Rng(56, 63) ELSE {-1, 0, 1, 29, 30, 58, 59, 60, 61}
BtcOffs == IF Thorough THEN Rng(-2, 6) \cup Rng(494, 510)
           ELSE {-1, 0, 3} \cup Rng(497, 506)
\* invoice final CLTV values at the Action level
LiqCltvs == IF Thorough THEN Rng(-2, 3) \cup Rng(26, 34) ELSE {-1, 0, 9, 28, 29, 30, 31, 32}
BtcCltvs == IF Thorough THEN Rng(-2, 3) \cup {9} \cup Rng(494, 510)
            ELSE {-1, 0, 9} \cup Rng(497, 506)
\* Liquid v7 takes the anchor before the maker may broadcast (>= +1)
LiqConfOffs == {1, 2, 30, 58}
\* anchors: 0 (= unset for Bitcoin), small, and the region below 2^32 where
\* anchor+window wraps in uint32
Bases == {0, 1, 1000, U32 - 600, U32 - 505, U32 - 504, U32 - 100, U32 - 61, U32 - 60, U32 - 1}
\* wrapped / unrelated tips tried in addition to anchor+offset
ExtraTips == {0, 1, 403, 404, U32 - 1}
Tips(start, offs) == {h \in {start + o : o \in offs} \cup ExtraTips : h >= 0 /\ h < U32}

\* invoice CLTV values at the builder level (int64 in the code)
RouteCltvs == {-2, -1, 0, 9, 28, 29, 30, 31, 32, 503, 504, 505,
               H31 - 5, H31 - 4, H31 - 1, H31, U32 - 4, U32 - 2, U32 - 1, U32}
               \cup (IF Thorough THEN Rng(1, 40) \cup Rng(495, 510) \cup Rng(H31 - 8, H31 + 2) \cup Rng(U32 - 8, U32 + 2) ELSE {})

(* ------------------------------------------------------------------------ *)
(* case space exported to the harness.  The sets take a dummy argument so    *)
(* that TLC builds them only where they are used (it pre-evaluates every     *)
(* constant definition without parameters at start-up).                      *)
RC(via, b, pk, pe, a, cl, ch, sp, li) ==
    [kind |-> "route", via |-> via, backend |-> b, pay |-> pk, payee |-> pe, amt |-> a, cltv |-> cl, chan |-> ch, sp |-> sp,
     scid |-> ScidStr(ch, sp), limit |-> li]
Payees == {"peer", "other"}
Amts == {"one", "typ", "large"}
Spellings == {"x", "colon", "mixed"}
\* C24: every payee / amount / CLTV / channel / spelling, limit 0 and 32, fee
\* payments (PayInvoiceViaChannel) and claim payments (RebalancePayment), the
\* builders alone and the whole client path
CasesC24(u) ==
    {RC("builder", "CLN", "claim", pe, a, cl, ch, sp, li) :
        pe \in Payees, a \in Amts, cl \in RouteCltvs, ch \in Channels, sp \in Spellings, li \in {0, 32}}
    \cup {RC("builder", "LND", "claim", pe, a, cl, ch, "x", li) :
        pe \in Payees, a \in Amts, cl \in RouteCltvs, ch \in Channels, li \in {0, 32}}
    \cup {RC("client", b, pl[1], pe, a, cl, ch, sp, pl[2]) :
        b \in {"CLN", "LND"}, pl \in {<<"fee", 0>>, <<"claim", 0>>, <<"claim", 32>>}, pe \in Payees, a \in Amts,
        cl \in RouteCltvs, ch \in Channels, sp \in Spellings}
Limits == {1, 31, 32, 33, H31 - 2, H31 - 1, U32 - 1}
\* C04: every limit, every CLTV
RouteC04(u) == {RC(via, b, "claim", "peer", "typ", cl, "swap", "x", li) :
                via \in {"builder", "client"}, b \in {"CLN", "LND"}, cl \in RouteCltvs, li \in Limits}
\* C05: the unlimited (Bitcoin) route
RouteC05(u) == {RC(via, b, "claim", "peer", "typ", cl, "swap", "x", 0) :
                via \in {"builder", "client"}, b \in {"CLN", "LND"}, cl \in RouteCltvs}

LimitCases(u) == {[kind |-> "limit", required |-> r, limit |-> li] :
                 r \in {0, 1, 31, 32, 33, 34, H31, U32 - 1}, li \in {0, 1, 31, 32, 33, U32 - 1}}
ChainVers == {<<"btc", 5>>, <<"btc", 6>>, <<"btc", 7>>, <<"btc", 8>>, <<"lbtc", 5>>, <<"lbtc", 6>>, <<"lbtc", 7>>, <<"lbtc", 8>>,
              <<"", 7>>}
PolicyCases(u) == {[kind |-> "policy", chain |-> cv[1], ver |-> cv[2]] : cv \in ChainVers}
WindowCases(u) ==
    UNION {{[kind |-> "window", chain |-> cv[1], ver |-> cv[2], startSet |-> ss, start |-> s, tip |-> t] :
              t \in Tips(s, LiqOffs \cup {503, 504, 505})} :
           cv \in {<<"lbtc", 7>>, <<"lbtc", 6>>, <<"btc", 7>>, <<"lbtc", 5>>}, ss \in BOOLEAN, s \in Bases}
AmtRels == {"eq", "plus1", "minus1", "unit"}
InvoiceCases(u) ==
    {[kind |-> "invoice", chain |-> cv[1], ver |-> cv[2], type |-> ty, premium |-> pr, cltv |-> cl, amtrel |-> ar] :
        cv \in {<<"lbtc", 7>>, <<"lbtc", 6>>, <<"btc", 7>>}, ty \in {"in", "out"}, pr \in {0, 17, -5},
        cl \in LiqCltvs \cup {502, 503, 504, H31, U32}, ar \in AmtRels}

Backends == {"CLN", "LND"}
\* anchors of the Action-level cases
LiqBases == IF Thorough THEN {0, 1, 1000, U32 - 100, U32 - 61, U32 - 60, U32 - 1} ELSE {0, 1000, U32 - 100, U32 - 60, U32 - 1}
BtcBases == IF Thorough THEN {0, 1, 1000, U32 - 600, U32 - 505, U32 - 504, U32 - 100} ELSE {0, 1000, U32 - 600, U32 - 504, U32 - 100}
ABases(chain, ver) == IF chain = "btc" THEN (IF ver = 7 THEN BtcBases ELSE {1000})
                      ELSE (IF ver = 7 THEN LiqBases ELSE {1000, U32 - 1})
AwaitCasesFor(chain, ver, offs, cltvs) ==
    UNION {{[kind |-> "await", chain |-> chain, ver |-> ver, backend |-> b, startSet |-> ss, start |-> s, height |-> h,
             cltv |-> cl, amtrel |-> ar, hasTx |-> tx, found |-> fd] :
              h \in Tips(s, offs), cl \in cltvs} :
           b \in Backends, ss \in (IF chain = "lbtc" THEN BOOLEAN ELSE {TRUE}), s \in ABases(chain, ver),
           ar \in {"eq", "plus1"}, tx \in (IF ver = 6 /\ chain = "lbtc" THEN BOOLEAN ELSE {FALSE}),
           fd \in (IF ver = 6 /\ chain = "lbtc" THEN BOOLEAN ELSE {FALSE})}
PayCasesFor(chain, ver, offs, cltvs) ==
    UNION {{[kind |-> "pay", chain |-> chain, ver |-> ver, backend |-> b, startSet |-> ss, start |-> s, now |-> h,
             cltv |-> cl, found |-> fd] :
              h \in Tips(s, offs), cl \in cltvs} :
           b \in Backends, ss \in (IF chain = "lbtc" THEN BOOLEAN ELSE {TRUE}), s \in ABases(chain, ver),
           fd \in (IF ver = 6 /\ chain = "lbtc" THEN BOOLEAN ELSE {FALSE})}
\* the tip moves between the attempts of one payment: the node fails the first
\* `fails` attempts, attempt i is made while the tip is heights[i]
RetrySeqs(chain) ==
    IF chain = "btc"
    THEN {<<503, 504, 505>>, <<504, 505, 506>>, <<500, 504, 504>>, <<3, 505>>, <<504, 504, 505, 505>>, <<0, 1, 2>>}
    ELSE {<<58, 59, 60>>, <<59, 60, 61>>, <<0, 60>>, <<59, 59, 60>>, <<10, 20, 30>>, <<-1, 0>>, <<30, 59, 59, 60>>}
RetryCasesFor(chain, ver, cltvs) ==
    {[kind |-> "retry", chain |-> chain, ver |-> ver, backend |-> b, startSet |-> TRUE, start |-> s,
      heights |-> [i \in 1..Len(q) |-> s + q[i]], fails |-> f, cltv |-> cl, found |-> FALSE] :
        b \in Backends, s \in {1000, U32 - 600}, q \in RetrySeqs(chain), f \in 0..3, cl \in cltvs}
FewCltvs == {0, 29, 30}
FewOffs == {-1, 0, 29, 30, 59, 60}
ActionC04(u) ==
    AwaitCasesFor("lbtc", 7, LiqOffs, LiqCltvs) \cup PayCasesFor("lbtc", 7, LiqOffs, LiqCltvs)
    \cup AwaitCasesFor("lbtc", 6, FewOffs, FewCltvs) \cup PayCasesFor("lbtc", 6, FewOffs, FewCltvs)
    \cup {c \in RetryCasesFor("lbtc", 7, {9, 29}) \cup RetryCasesFor("lbtc", 6, {9}) : c.fails < Len(c.heights)}
ActionC05(u) ==
    AwaitCasesFor("btc", 7, BtcOffs, BtcCltvs) \cup PayCasesFor("btc", 7, BtcOffs, BtcCltvs \ {-1, -2})
    \cup AwaitCasesFor("btc", 6, {0, 503, 504}, {503, 504, 505}) \cup PayCasesFor("btc", 6, {0, 504, 505}, {503, 504, 505})
    \cup {c \in RetryCasesFor("btc", 7, {9, 503, 504}) : c.fails < Len(c.heights)}

\* C24 at the Action level: which channel / invoice the claim-payment Action
\* hands to the client (ValidateTxAndPayClaimInvoiceAction with the real client)
ActionC24(u) == PayCasesFor("btc", 7, {0, 3, 504}, {9, 504}) \cup PayCasesFor("lbtc", 7, {0, 1, 59}, {9, 29})
CasesC04R(u) == RouteC04(0) \cup LimitCases(0) \cup PolicyCases(0) \cup WindowCases(0) \cup InvoiceCases(0) \cup ActionC04(0)
CasesC05R(u) == RouteC05(0) \cup PolicyCases(0) \cup ActionC05(0)

ASSUME For("C24") => ndJsonSerialize("cases_C24.ndjson", SetToSeq(CasesC24(0) \cup ActionC24(0)))
ASSUME For("C04R") => ndJsonSerialize("cases_C04R.ndjson", SetToSeq(CasesC04R(0)))
ASSUME For("C05R") => ndJsonSerialize("cases_C05R.ndjson", SetToSeq(CasesC05R(0)))

(* ------------------------------------------------------------------------ *)
(* lemmas on the specification's own builders, over the whole case space     *)
SpecRoute(c) == Route(c.backend, c.payee, c.amt, c.cltv, c.chan, c.sp, c.limit)
LemmaC24 == For("C24") => \A c \in CasesC24(0) : P_C24(c, SpecRoute(c))
\* LND refuses a destination that is not the channel peer
LemmaC24Refuse == For("C24") => \A c \in CasesC24(0) : (c.backend = "LND" /\ c.payee # PeerOf(c.chan)) => ~SpecRoute(c).sent
\* both pure spellings give the same payment
LemmaC24Spelling ==
    For("C24") => \A c \in CasesC24(0) : c.sp = "colon" =>
        SpecRoute(c) = Route(c.backend, c.payee, c.amt, c.cltv, c.chan, "x", c.limit)
LemmaC04Delta == For("C04R") => \A c \in RouteC04(0) : P_C04_delta(c, SpecRoute(c))
\* what is sent never permits less than the hop needs, and with a limit never more than limit(+1 for LND)
LemmaPermits ==
    (For("C04R") \/ For("C05R")) => \A c \in RouteC04(0) \cup RouteC05(0) :
        (SpecRoute(c).sent /\ c.cltv >= 0 /\ c.cltv < 100000) =>
            /\ SpecRoute(c).delta = RoutePermits(c.backend, c.cltv, c.limit)
            /\ RoutePermits(c.backend, c.cltv, c.limit) >= RouteDelta(c.backend, c.cltv)
ASSUME LemmaC24 /\ LemmaC24Refuse /\ LemmaC24Spelling /\ LemmaC04Delta /\ LemmaPermits

(* ------------------------------------------------------------------------ *)
(* C05 boundary set, computed from the specification                         *)
\* (backend, dp = pay height - start, cltv, dc = confirmation height - start)
C05Tuples(u) == {[backend |-> b, dp |-> dp, cltv |-> cl, dc |-> dc] :
                b \in Backends, dp \in BtcOffs, cl \in BtcCltvs \ {-1, -2}, dc \in BtcConfOffs}
S0 == 1000
C05Allowed(t) ==
    /\ AwaitOutcome("btc", 7, TRUE, S0, S0, t.cltv, "eq", FALSE, FALSE) = "watch"
    /\ PayAttempt("btc", 7, t.backend, TRUE, S0, S0 + t.dp, t.cltv).sent
    /\ t.dp >= t.dc + MinConf("btc") - 1           \* the payment follows 3 confirmations
C05Expected(u) == {t \in C05Tuples(0) : C05Allowed(t) /\ ~P_C05_margin(t.dp, RoutePermits(t.backend, t.cltv, 0), t.dc)}
ASSUME JsonSerialize("c05_expected.json", SetToSeq(C05Expected(0)))
\* the exports above are complete (the engine starts the harness while TLC goes on with the lemmas and the model)
ASSUME JsonSerialize("export_done.json", [done |-> TRUE])
\* first confirmation offset from which the margin holds for every accepted (dp, cltv)
LateConf(b) == IF b = "CLN" THEN 2 ELSE 5
LemmaC05Late == \A t \in C05Tuples(0) : (C05Allowed(t) /\ t.dc >= LateConf(t.backend)) =>
                    P_C05_margin(t.dp, RoutePermits(t.backend, t.cltv, 0), t.dc)
LemmaC05Tight == \A b \in Backends : \E t \in C05Expected(0) : t.backend = b /\ t.dc = LateConf(b) - 1
LemmaC05Guards == \A t \in C05Tuples(0) : C05Allowed(t) => (t.dp <= 504 /\ t.cltv <= 504)
ASSUME LemmaC05Late /\ LemmaC05Tight /\ LemmaC05Guards

(* ------------------------------------------------------------------------ *)
(* design-level state machine                                                *)
VARIABLES cf, tip, phase, htlc
vars == <<cf, tip, phase, htlc>>
None == [p |-> -1, delta |-> 0, permits |-> 0]
ModelBases == {1000}
Offs(chain) == IF chain = "btc" THEN BtcOffs ELSE LiqOffs
Cfg(chain, ver, b, s, ss, dc, cl, tx) ==
    [chain |-> chain, ver |-> ver, backend |-> b, start |-> s, startSet |-> ss, dc |-> dc, cltv |-> cl, hasTx |-> tx]
\* Bitcoin: the property quantifies over invoice CLTVs >= 0
BtcCfgs  == {Cfg("btc", 7, b, s, TRUE, dc, cl, FALSE) :
                b \in Backends, s \in ModelBases, dc \in BtcConfOffs, cl \in {x \in BtcCltvs : x >= 0}}
Liq7Cfgs == {Cfg("lbtc", 7, b, s, ss, dc, cl, FALSE) :
                b \in Backends, s \in ModelBases, ss \in BOOLEAN, dc \in LiqConfOffs, cl \in LiqCltvs}
Liq6Cfgs == {Cfg("lbtc", 6, b, s, ss, dc, cl, tx) :
                b \in Backends, s \in ModelBases, ss \in BOOLEAN, dc \in LiqConfOffs, cl \in LiqCltvs, tx \in BOOLEAN}
Init ==
    /\ cf \in BtcCfgs \cup Liq7Cfgs \cup Liq6Cfgs
    /\ tip = cf.start - 1
    /\ phase = "await"
    /\ htlc = None
Conf == cf.start + cf.dc
Advance == /\ phase \in {"await", "watch", "pay"}
           /\ \E h \in Tips(cf.start, Offs(cf.chain)) : h > tip /\ tip' = h
           /\ UNCHANGED <<cf, phase, htlc>>
Await == /\ phase = "await"
         /\ LET o == AwaitOutcome(cf.chain, cf.ver, cf.startSet, cf.start, tip, cf.cltv, "eq", cf.hasTx, TRUE) IN
              phase' = CASE o = "watch" -> "watch" [] o = "recovered" -> "pay" [] OTHER -> "done"
         /\ UNCHANGED <<cf, tip, htlc>>
Confirmed == /\ phase = "watch" /\ tip >= Conf + MinConf(cf.chain) - 1
             /\ phase' = "pay" /\ UNCHANGED <<cf, tip, htlc>>
Pay == /\ phase = "pay"
       /\ LET r == PayAttempt(cf.chain, cf.ver, cf.backend, cf.startSet, cf.start, tip, cf.cltv) IN
            IF r.sent
            \* the attempt creates an HTLC; the node may fail it (the Action then retries while the tip moves on)
            THEN /\ htlc' = [p |-> tip, delta |-> RouteDelta(cf.backend, cf.cltv),
                             permits |-> RoutePermits(cf.backend, cf.cltv, Policy(cf.chain, cf.ver).maxDelta)]
                 /\ phase' \in {"paid", "pay"}
            ELSE /\ htlc' = htlc
                 /\ phase' = IF PayOK(cf.chain, cf.ver, cf.startSet, cf.start, tip) THEN "pay" ELSE "done"
       /\ UNCHANGED <<cf, tip>>
Next == Advance \/ Await \/ Confirmed \/ Pay

Paid == htlc # None
IsLiq7 == cf.chain = "lbtc" /\ cf.ver = 7
\* C04: claim payments of a Liquid v7 swap
P_C04_window  == (Paid /\ IsLiq7) => (cf.startSet /\ cf.start <= htlc.p /\ htlc.p < cf.start + 60)
P_C04_cltv    == (Paid /\ IsLiq7) => (0 <= cf.cltv /\ cf.cltv <= 29)
P_C04_total   == (Paid /\ IsLiq7) => (htlc.delta <= 32 /\ htlc.permits <= 33)
P_C04_resolves == (Paid /\ IsLiq7) => (P_C04_margin(cf.start, htlc.p, htlc.delta)
                                        /\ htlc.p + LiqBlocksFor32BtcBlocks < Conf + LiqCSV)
P_C04_legacy  == (cf.chain = "lbtc" /\ cf.ver = 6) => ~Paid
\* C05: Bitcoin
P_C05_guards  == (Paid /\ cf.chain = "btc") => (htlc.p - cf.start <= 504 /\ cf.cltv <= 504 /\ htlc.p >= Conf + 2)
P_C05_margin_late == (Paid /\ cf.chain = "btc" /\ cf.dc >= LateConf(cf.backend)) => P_C05_margin(htlc.p, htlc.permits, Conf)
\* every reachable violation of the strict margin lies in the exported boundary set
\* (membership spelled out: TLC would rebuild the set in every state)
InC05Expected(t) ==
    /\ t.backend \in Backends /\ t.dp \in BtcOffs /\ t.cltv \in BtcCltvs \ {-1, -2} /\ t.dc \in BtcConfOffs
    /\ C05Allowed(t) /\ ~P_C05_margin(t.dp, RoutePermits(t.backend, t.cltv, 0), t.dc)
P_C05_margin_or_boundary ==
    (Paid /\ cf.chain = "btc") =>
        \/ P_C05_margin(htlc.p, htlc.permits, Conf)
        \/ InC05Expected([backend |-> cf.backend, dp |-> htlc.p - cf.start, cltv |-> cf.cltv, dc |-> cf.dc])
===============================================================================
