CONSTANTS
    U32 = 1048576
    Tier = "quick"
    Part = "all"
INIT Init
NEXT Next
INVARIANTS
    P_C04_window
    P_C04_cltv
    P_C04_total
    P_C04_resolves
    P_C04_legacy
    P_C05_guards
    P_C05_margin_late
    P_C05_margin_or_boundary
CHECK_DEADLOCK FALSE
