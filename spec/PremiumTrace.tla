----------------------------- MODULE PremiumTrace -----------------------------
(* Code -> specification.  Every line of trace.ndjson is one step of the REAL  *)
(* premium.Setting on a real bbolt file ("init": a fresh database was opened;  *)
(* "op": set / setdef / del / restart) followed by what the public reads       *)
(* showed afterwards.  The logged operation with its logged arguments moves    *)
(* the specification's map (Premium!Apply); every logged read must equal the  *)
(* projection of that map:                                                    *)
(*   gr  GetRate        for Peers3 x Slots4     -> P_C27_Rate                  *)
(*   gd  GetDefaultRate for Slots4              -> P_C27_Default               *)
(*   ad  rates in the capability message peersync.RequestPoll sent to each    *)
(*       peer; fp (when hf) the same for ForcePollAllPeers -> P_C27_Adv        *)
(*   cp  Setting.Compute(p, s, amount)          -> P_C27_Compute               *)
(*   res the operation reported success         -> P_C27_Map                   *)
(* Violations accumulate as signatures; nothing stops.                        *)
EXTENDS Premium, Json, SequencesExt
Trace == ndJsonDeserialize("trace.ndjson")

VARIABLES l, db, viol, first      \* first: where each signature was seen first, <<signature, t, i>>
vars == <<l, db, viol, first>>

Peers3 == <<"P1", "P2", "P3">>
Slots4 == <<"btc_in", "btc_out", "lbtc_in", "lbtc_out">>
Idx(pi, si) == (pi - 1) * 4 + si

Init == l = 1 /\ db = EmptyDB /\ viol = {} /\ first = {}

WantGot(d, p, s, g) == "|slot=" \o s \o "|want=" \o Source(d, p, s) \o "|got=" \o Classify(d, p, s, g)

\* peer-indexed reads: GetRate (P_C27_Rate), advertised rates (P_C27_Adv)
RateReads(d, after, arr) ==
    {"C27|rate|after=" \o after \o WantGot(d, Peers3[pi], Slots4[si], arr[Idx(pi, si)]) :
        <<pi, si>> \in {x \in (1..3) \X (1..4) : ~P_C27_Rate(d, Peers3[x[1]], Slots4[x[2]], arr[Idx(x[1], x[2])])}}
AdvReads(d, via, after, arr) ==
    {"C27|advertised|via=" \o via \o "|after=" \o after \o WantGot(d, Peers3[pi], Slots4[si], arr[Idx(pi, si)]) :
        <<pi, si>> \in {x \in (1..3) \X (1..4) : ~P_C27_Adv(d, Peers3[x[1]], Slots4[x[2]], arr[Idx(x[1], x[2])])}}
DefaultReads(d, after, arr) ==
    {"C27|default|after=" \o after \o "|slot=" \o Slots4[si]
        \o "|want=" \o (IF d[<<Default, Slots4[si]>>] # None THEN "default" ELSE "builtin") \o "|got=" \o ToString(arr[si]) :
        si \in {x \in 1..4 : ~P_C27_Default(d, Slots4[x], arr[x])}}
\* one signature per class: the expected answer is a saturated bound, the exact product does not fit int64
\* (where an int64 multiplication would wrap), or a wrong value although everything fits; the concrete
\* rate / amount / answer is in the replay
SignOf(r) == IF r > 0 THEN "rate-positive" ELSE IF r < 0 THEN "rate-negative" ELSE "rate-zero"
Computes(d, cps) ==
    {LET c == cps[k]
         r == Rate(d, c.p, c.s)
     IN IF Saturates(c.a, r) THEN "C27|compute|wrong-saturation|" \o SignOf(r)
        ELSE IF Overflows(c.a, r) THEN "C27|compute|int64-overflow|" \o SignOf(r)
        ELSE "C27|compute|wrong-value|" \o SignOf(r) :
        k \in {j \in 1..Len(cps) : ~P_C27_Compute(d, cps[j].p, cps[j].s, cps[j].a, [neg |-> cps[j].neg, mag |-> cps[j].mag])}}

Observed(d, e, after) ==
    RateReads(d, after, e.gr)
    \cup DefaultReads(d, after, e.gd)
    \cup AdvReads(d, "request", after, e.ad)
    \cup (IF e.hf THEN AdvReads(d, "forcepoll", after, e.fp) ELSE {})
    \cup Computes(d, e.cp)
    \cup (IF e.ge # 0 THEN {"C27|rate|after=" \o after \o "|read-error"} ELSE {})
    \cup (IF e.am # 0 THEN {"C27|advertised|after=" \o after \o "|no-message"} ELSE {})

Record(e, vs) == /\ viol' = viol \cup vs
                 /\ first' = first \cup {<<v, e.t, e.i>> : v \in vs \ viol}
Step == /\ l <= Len(Trace)
        /\ LET e == Trace[l] IN
             CASE e.ev = "init" ->
                    /\ db' = EmptyDB
                    /\ Record(e, Observed(EmptyDB, e, "open"))
               [] e.ev = "op" ->
                    LET d == Apply(db, e.op, e.p, e.s, e.r) IN
                    /\ db' = d
                    /\ Record(e, Observed(d, e, e.op)
                                 \cup (IF e.res # "ok" THEN {"C27|map|op=" \o e.op \o "|res=err"} ELSE {}))
               [] OTHER -> /\ Record(e, {"MODEL|unknown-event"}) /\ UNCHANGED db
        /\ l' = l + 1

Finish == /\ l = Len(Trace) + 1
          /\ JsonSerialize("verdict.json", [n |-> Len(Trace), viol |-> SetToSeq(viol), at |-> SetToSeq(first)])
          /\ l' = l + 1 /\ UNCHANGED <<db, viol, first>>
Next == Step \/ Finish
===============================================================================
