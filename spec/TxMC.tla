-------------------------------- MODULE TxMC --------------------------------
(* Design-level check of TxShape / SpendTx and case export (spec -> code).   *)
EXTENDS SpendTx, Json, SequencesExt
AllCases == VCases \cup SCases \cup OCases
ASSUME ndJsonSerialize("cases.ndjson", SetToSeq(AllCases))
ASSUME LemmaDesignSound /\ LemmaDesignPick /\ LemmaHonestValid /\ LemmaHonestSub
ASSUME LemmaTakerOutpoint /\ LemmaNoSuspects /\ LemmaDupHandled /\ LemmaFeePositive /\ LemmaCsvExact /\ LemmaWitness
\* design-level figures reported in the evidence
ASSUME JsonSerialize("design.json",
         [shapes_btc |-> Cardinality(Shapes("btc")), shapes_lbtc |-> Cardinality(Shapes("lbtc")),
          valid_btc |-> Cardinality({s \in Shapes("btc") : SpecValid(s)}),
          valid_lbtc |-> Cardinality({s \in Shapes("lbtc") : SpecValid(s)}),
          conservative_btc |-> Cardinality(Conservative("btc")),
          conservative_lbtc |-> Cardinality(Conservative("lbtc")),
          honest |-> Cardinality(Honest("btc")),
          suspects_spend_btc |-> {ShapeStr(s) : s \in DesignSuspectsSpend("btc")},
          suspects_spend_lbtc |-> {ShapeStr(s) : s \in DesignSuspectsSpend("lbtc")},
          suspects_ann_btc |-> {ShapeStr(s) : s \in DesignSuspectsAnn("btc")},
          suspects_ann_lbtc |-> {ShapeStr(s) : s \in DesignSuspectsAnn("lbtc")}])
VARIABLE c
Init == c \in AllCases
Next == UNCHANGED c
\* per-case properties of the specification
InvCase ==
    /\ c.kind = "v" => /\ (ImplAccept(c.chain, c.outs) => SpecValid(c.outs))
                       /\ P_C01V(c.outs, ImplAccept(c.chain, c.outs))
                       /\ (SpecValid(c.outs) <=> \E i \in Idx(c.outs) : OutGood(c.outs[i]))
    /\ c.kind = "s" => /\ SpecValid(c.outs)
                       /\ c.side = SideOf(c.spend)
                       /\ c.backend \in Backends(c.chain)
                       /\ (c.side = "taker" /\ ImplAccept(c.chain, c.outs) => ImplUseIdx(c.chain, c.outs) \in GoodIdx(c.outs))
    /\ c.kind = "o" => /\ c.outs \in Honest(c.chain)
                       /\ Cardinality(GoodIdx(c.outs)) = 1
===============================================================================
