------------------------------- MODULE PolicyMC -------------------------------
(* Design-level model checking of Policy.tla and schedule export.             *)
(* Every sequence of public operations up to MaxLen from every pre-existing   *)
(* file class is explored; on SoundClasses (files the node can have written   *)
(* itself, with or without a final newline) the three clauses of C25 are      *)
(* invariants; on the other classes the clause each step breaks is PREDICTED  *)
(* (pv) and exported with the schedule; the engine reports a prediction the   *)
(* real code does not show as drift of this model.                            *)
(* One schedule is exported per distinct (state, incoming operation, verdict):*)
(* the first (shortest, BFS) operation sequence reaching it.                  *)
EXTENDS Policy, Json, SequencesExt

CONSTANTS Args,      \* arguments tried for the list operations (valid names and invalid ones)
          MaxLen     \* bound on the number of operations (see Bound)

VARIABLES file, nl, mem, dirty, cls, hist, pv
vars == <<file, nl, mem, dirty, cls, hist, pv>>

ASSUME \A i \in InitFiles : Parse(i.file).ok
ASSUME TLCSet(1, <<>>) /\ TLCSet(2, 0)
ASSUME ndJsonSerialize("files.ndjson", SetToSeq(InitFiles))

OpArgs == {<<op, a>> : op \in {"add_allow", "rm_allow", "add_susp", "rm_susp"}, a \in Args}
          \cup {<<op, "">> : op \in {"disable", "enable", "reload", "restart"}}

Init == \E i \in InitFiles :
          /\ file = i.file /\ nl = i.nl /\ cls = i.cls
          /\ mem = Parse(i.file).pol
          /\ dirty = FALSE /\ hist = <<>> /\ pv = <<>>

Step(op, arg) ==
    LET r    == Exec(file, nl, mem, op, arg)
        disk == Parse(r.f)
        fchg == r.f # file \/ r.n # nl
        v    == Judge(mem, dirty, op, arg, r.res, r.m, disk, fchg)
    IN /\ file' = r.f /\ nl' = r.n /\ mem' = r.m
       /\ dirty' = DiskDiverged(r.m, disk)
       /\ hist' = Append(hist, [op |-> op, arg |-> arg])
       /\ pv' = Append(pv, v)
       /\ UNCHANGED cls

\* files the node cannot have written itself are explored one operation less deep (their defects
\* show within the first two operations)
Bound == IF cls \in CanonicalClasses THEN MaxLen ELSE MaxLen - 1
Next == /\ Len(hist) < Bound
        /\ \E oa \in OpArgs : Step(oa[1], oa[2])

LastOp == IF hist = <<>> THEN <<>> ELSE hist[Len(hist)]
LastV  == IF pv = <<>> THEN {} ELSE pv[Len(pv)]
View   == <<file, nl, mem, dirty, cls, LastOp, LastV>>

(* ---- the property on the design, for files the node writes itself ---- *)
Holds(clause) == cls \in SoundClasses => \A v \in LastV : v[1] # clause
P_C25_Effect  == Holds("effect")
P_C25_Reject  == Holds("reject")
P_C25_Persist == Holds("persist") /\ (cls \in SoundClasses => ~dirty)
\* structural: memory is always what a load of the file gives, or the file is flagged
MemIsFile == LET d == Parse(file) IN dirty \/ (d.ok /\ d.pol = mem)

(* ---- export (side effect of an invariant: evaluated once per distinct view) ---- *)
File0 == CHOOSE i \in InitFiles : i.cls = cls
Sched == [cls |-> cls, file |-> File0.file, nl |-> File0.nl, ops |-> hist,
          pv |-> [i \in 1..Len(pv) |-> SetToSeq(pv[i])]]
Flush == /\ ndJsonSerialize("sched_" \o ToString(TLCGet(2)) \o ".ndjson", TLCGet(1))
         /\ TLCSet(2, TLCGet(2) + 1)
         /\ TLCSet(1, <<>>)
Export == /\ TLCSet(1, Append(TLCGet(1), Sched))
          /\ (Len(TLCGet(1)) >= 2000 => Flush)
Post == Flush
===============================================================================
