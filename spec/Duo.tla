--------------------------------- MODULE Duo ---------------------------------
(* Design model of the two-party swap protocol as a COMPOSITION:                              *)
(*   two honest peerswap nodes A and B - each one the per-role state machine of /repo/swap at  *)
(*     message / state granularity: SendEvent and Recover of swap/fsm.go over the state tables *)
(*     EXTRACTED FROM THE CODE UNDER TEST (FsmTables), every Action of swap/actions.go as a    *)
(*     sequence of service calls ("gates") that can fail or be the crash point, the handlers   *)
(*     and callbacks of swap/service.go, the registry, timers (lost on restart, never          *)
(*     cancelled), watcher and notifier registrations, the opening_tx_broadcasted retransmitter *)
(*   a network    - one FIFO queue per direction; deliver / drop / duplicate the head            *)
(*   a chain      - tip, opening transactions (confirmation height, who spent the swap output   *)
(*                  how), truthful watchers, CSV                                                *)
(*   a Lightning channel - fee invoice, claim invoices, HTLC in flight / settled / failed; the  *)
(*                  payer learns the preimage only when the payee settles                       *)
(*   a scheduler  - init, deliver / drop / dup, blocks with / without the mempool, ten minutes  *)
(*                  pass (due timers fire), a retransmission tick, restart of A or B, resolution *)
(*                  of a held HTLC; each step may carry one failing service call or one crash    *)
(*                  point of one node.                                                          *)
(* Step(w, st) is a FUNCTION: the world after scheduler step st. TLC explores Next == "some     *)
(* enabled step"; DuoTrace re-executes the steps recorded from TWO REAL swap services and        *)
(* compares the joint snapshot after every step (conformance).                                  *)
(* Properties D1..D5 (module DuoProps) are evaluated at the points the harness evaluates them;   *)
(* violations accumulate in w.v. The code's known deviations are modelled as the code behaves:   *)
(* BroadcastBeforePersist (crash between a wallet broadcast and the next store write),           *)
(* OutcomeUnknown (the taker gives up a claim payment whose HTLC is still pending).               *)
(* Network: every custom message is delivered at most once, may be lost or delayed; only        *)
(* opening_tx_broadcasted - which peerswap itself retransmits - is duplicated between honest    *)
(* parties (steps dup / retx). The step advdup (a node sends any message twice) is adversarial  *)
(* behaviour: a request carrying a known swap id is refused with cancel, as C09 / C11 demand;   *)
(* from then on D2 and D5 (properties of honest parties) are not judged, D1 / D3 / D4 are.      *)
EXTENDS DuoProps, DuoCfgs, SequencesExt

VARIABLES w, cf, sched
vars == <<w, cf, sched>>

AMOUNT == 1000000
LIMIT == 20000          \* premium limit of the initiator: 20000 ppm of AMOUNT
RatePPM(chain, typ) == CASE chain = "btc" /\ typ = "out" -> 5000 [] chain = "btc" /\ typ = "in" -> 10000
                         [] chain = "lbtc" /\ typ = "out" -> 3000 [] OTHER -> 7000
CHAIN == cf.chain
Premium(typ) == Compute(AMOUNT, RatePPM(CHAIN, typ))
MinConf == IF CHAIN = "btc" THEN 3 ELSE 2
CsvBlocks == IF CHAIN = "btc" THEN 1008 ELSE 10080
Window == IF CHAIN = "btc" THEN 504 ELSE 60
InvExpiryMin == IF CHAIN = "btc" THEN 1440 ELSE 60
BaseTip == IF CHAIN = "btc" THEN 1000 ELSE 5000
TypOfRole(r) == IF r \in {"out_sender", "out_receiver"} THEN "out" ELSE "in"

(* ---------------------------------------------------------------- data -- *)
\* one swap record (in memory or on disk). otb / inv / txhex are indices: announced opening transaction, its claim invoice,
\* the transaction whose hex the record holds (0 = none)
NoData == [role |-> "", cur |-> "", prev |-> "", req |-> FALSE, agr |-> FALSE, prem |-> 0, otb |-> 0, inv |-> 0, txhex |-> 0, pre |-> FALSE,
           ctx |-> FALSE, coop |-> FALSE, cobj |-> FALSE, sset |-> FALSE, start |-> 0, nxt |-> ""]
FlStr(d) == (IF d.req THEN "r" ELSE "") \o (IF d.agr THEN "a" ELSE "") \o (IF d.otb # 0 THEN "o" ELSE "") \o (IF d.txhex # 0 THEN "x" ELSE "")
            \o (IF d.pre THEN "p" ELSE "") \o (IF d.ctx THEN "c" ELSE "") \o (IF d.coop THEN "k" ELSE "") \o (IF d.cobj THEN "j" ELSE "") \o (IF d.sset THEN "s" ELSE "")

NodeInit == [up |-> TRUE, reg |-> FALSE, mem |-> NoData, disk |-> NoData, timers |-> {}, notif |-> {}, wconf |-> None, wcsv |-> None,
             snd |-> FALSE, lastotb |-> None]
Down(n) == [n EXCEPT !.up = FALSE, !.reg = FALSE, !.mem = NoData, !.timers = {}, !.notif = {}, !.wconf = None, !.wcsv = None, !.snd = FALSE, !.lastotb = None]

NoBudget == [steps |-> 0, restarts |-> 0, dups |-> 0, advdups |-> 0, drops |-> 0, ticks |-> 0, retx |-> 0, faults |-> 0, crashes |-> 0, blocks |-> 0]
WInit == [nd |-> [A |-> NodeInit, B |-> NodeInit], net |-> [AB |-> <<>>, BA |-> <<>>], tip |-> BaseTip, txs |-> <<>>,
          fee |-> [ex |-> FALSE, st |-> "none", paid |-> FALSE, issued |-> 0, payee |-> ""], cinv |-> <<>>, now |-> 0,
          q |-> <<>>, occ |-> <<>>, f |-> None, c |-> None, crashes |-> FALSE, faults |-> FALSE, seen |-> [A |-> {}, B |-> {}],
          lossyTo |-> [A |-> FALSE, B |-> FALSE], adv |-> FALSE,
          lostopen |-> [A |-> FALSE, B |-> FALSE], lostspend |-> [A |-> FALSE, B |-> FALSE], opened |-> {}, closed |-> "", b |-> NoBudget, v |-> {}]

(* ------------------------------------------------------- run context -- *)
\* x: the code of node x.me is running inside world x.w
Ctx(ww, n) == [w |-> ww, me |-> n, crashed |-> FALSE, go |-> "", out |-> "", res |-> "ok", done |-> FALSE, first |-> "", sent |-> {}]
Nd(x) == x.w.nd[x.me]
D(x) == x.w.nd[x.me].mem
SetD(x, d) == [x EXCEPT !.w.nd[x.me].mem = d]
Out(x, ev) == [x EXCEPT !.out = ev]
Fail(x) == Out(x, "Event_ActionFailed")
Succ(x) == Out(x, "Event_ActionSucceeded")
Viol(x, s) == [x EXCEPT !.w.v = @ \cup s]
Tip(x) == x.w.tip
Peer(x) == OtherNode(x.me)
Depth(ww, k) == IF k = 0 \/ k > Len(ww.txs) \/ ww.txs[k].conf = 0 THEN 0 ELSE ww.tip - ww.txs[k].conf + 1

\* the process dies here: everything volatile is gone; the rest of the handler never runs
CrashNow(x) ==
  LET n == x.me
      d == x.w.nd[n].disk
      lo == \E k \in 1..Len(x.w.txs) : x.w.txs[k].owner = n /\ d.otb = 0
      ls == \E k \in 1..Len(x.w.txs) : x.w.txs[k].spent # "" /\ x.w.txs[k].by = n /\ ~d.ctx
  IN [x EXCEPT !.crashed = TRUE, !.res = "crash", !.w.nd[n] = Down(@), !.w.crashes = TRUE,
               !.w.lostopen[n] = @ \/ lo, !.w.lostspend[n] = @ \/ ls, !.w.c = None]
\* Gate: a simulated service call is about to run. Sets x.go to the planned outcome ("" = it succeeds).
Gate(x, g) ==
  IF x.crashed THEN [x EXCEPT !.go = "dead"] ELSE
  LET key == <<x.me, g>>
      k == Get(x.w.occ, key, 0) + 1
      x1 == [x EXCEPT !.w.occ = Put(@, key, k)]
      f == x.w.f
      c == x.w.c
      outc == IF f # None /\ f.n = x.me /\ f.g = g /\ (k = 1 \/ f.all) THEN f.o ELSE ""
  IN IF c # None /\ c.n = x.me /\ c.g = g /\ c.occ = k /\ c.w = "before" THEN [CrashNow(x1) EXCEPT !.go = "dead"]
     ELSE [x1 EXCEPT !.go = outc]
\* AfterGate: the effect of the service call took place
AfterGate(x, g) ==
  LET c == x.w.c IN
  IF ~x.crashed /\ c # None /\ c.n = x.me /\ c.g = g /\ c.occ = Get(x.w.occ, <<x.me, g>>, 0) /\ c.w = "after" THEN CrashNow(x) ELSE x

\* Store.UpdateData. x.go = "" on success. The first state stored during a message delivery is remembered (D5).
Persist(x) ==
  LET g == Gate(x, "persist") IN
  IF g.crashed \/ g.go # "" THEN g
  ELSE AfterGate([g EXCEPT !.w.nd[x.me].disk = D(g)], "persist")

Post(x, cb) == [x EXCEPT !.w.q = Append(@, cb)]
ArmTimer(x) == [x EXCEPT !.w.nd[x.me].timers = @ \cup {x.w.now + 10}]

(* ---------------------------------------------------------- messages -- *)
MsgOf(d) ==
  CASE d.nxt \in ReqKinds -> [k |-> d.nxt, c |-> [amt |-> AMOUNT]]
    [] d.nxt \in AgrKinds -> [k |-> d.nxt, c |-> [prem |-> d.prem]]
    [] d.nxt = "opening_tx_broadcasted" -> [k |-> d.nxt, c |-> [tx |-> d.otb, inv |-> d.inv]]
    [] d.nxt = "coop_close" -> [k |-> d.nxt, c |-> [key |-> "taker"]]
    [] OTHER -> [k |-> d.nxt, c |-> <<>>]
ClaimStatus(ww, i) == IF i = 0 \/ i > Len(ww.cinv) THEN "none" ELSE ww.cinv[i].st
\* ground truth of the taker's claim payment(s)
ClaimAgg(ww) ==
  LET S == {ww.cinv[i].st : i \in 1..Len(ww.cinv)} IN
  IF "succeeded" \in S THEN "succeeded" ELSE IF "inflight" \in S THEN "inflight" ELSE IF "failed" \in S THEN "failed" ELSE "none"
\* Messenger.SendMessage
SendMsg(x, m) ==
  LET g == Gate(x, "msg.send") IN
  IF g.crashed THEN g ELSE
  LET dir == x.me \o Peer(x)
      dk == g.w.nd[x.me].disk
      chk == IF m.k = "coop_close" THEN ChkCoopSend(ClaimAgg(g.w), dk.role, dk.prev, dk.cur, dk.pre, g.w.crashes, g.w.faults) ELSE {}
      g0 == Viol([g EXCEPT !.sent = @ \cup {m.k}], chk)
      g1 == IF g.go = "" THEN [g0 EXCEPT !.w.net[dir] = Append(@, m)] ELSE g0
      g2 == IF g.go = "" /\ m.k = "opening_tx_broadcasted" THEN [g1 EXCEPT !.w.nd[x.me].lastotb = m] ELSE g1
  IN IF g.go = "" THEN AfterGate(g2, "msg.send") ELSE g2

(* ------------------------------------------------------------- chain -- *)
\* the watcher of node n looks at the chain (truthful, never synchronous): confirmation watch first, then CSV watch
PollWatch(ww, n) ==
  LET nd == ww.nd[n]
      wc == nd.wconf
      ws == nd.wcsv
      closedW == wc # None /\ ww.tip >= wc.start + wc.window
      confd == wc # None /\ ~closedW /\ Depth(ww, wc.tx) >= MinConf
      csvd == ws # None /\ Depth(ww, ws.tx) >= ws.csv /\ ww.txs[ws.tx].spent = ""
      q1 == IF closedW THEN <<[n |-> n, k |-> "conf", ok |-> FALSE, tx |-> 0]>> ELSE IF confd THEN <<[n |-> n, k |-> "conf", ok |-> TRUE, tx |-> wc.tx]>> ELSE <<>>
      q2 == IF csvd THEN <<[n |-> n, k |-> "csv", ok |-> TRUE, tx |-> 0]>> ELSE <<>>
  IN IF ~nd.up THEN ww ELSE
     [ww EXCEPT !.nd[n].wconf = IF closedW \/ confd THEN None ELSE @, !.nd[n].wcsv = IF csvd THEN None ELSE @, !.q = @ \o q1 \o q2]

(* --------------------------------------------------------- Lightning -- *)
\* the payee's Lightning node settled an invoice: its peerswap process is notified if it registered for it
FireNotif(ww, payee, kind, i) ==
  LET nt == [k |-> kind, i |-> i] IN
  IF ww.nd[payee].up /\ nt \in ww.nd[payee].notif
  THEN [ww EXCEPT !.nd[payee].notif = @ \ {nt}, !.q = Append(@, [n |-> payee, k |-> "paid", ok |-> TRUE, tx |-> 0, kind |-> kind])]
  ELSE ww
ClaimExpired(ww, i) == ww.now >= ww.cinv[i].issued + InvExpiryMin
FeeExpired(ww) == ww.now >= ww.fee.issued + 10
SettleClaim(ww, i) == FireNotif([ww EXCEPT !.cinv[i].st = "succeeded", !.cinv[i].paid = TRUE], ww.cinv[i].payee, "claim", i)

(* ------------------------------------------------------------ actions -- *)
WindowOK(d, tip) == d.sset /\ tip >= d.start /\ tip < d.start + Window

SetAnchor(x) ==   \* setLiquidPaymentWindowAnchor
  IF CHAIN # "lbtc" THEN [x EXCEPT !.go = ""] ELSE
  LET g == Gate(x, "chain.height") IN
  IF g.crashed \/ g.go # "" THEN g ELSE SetD(g, [D(g) EXCEPT !.start = Tip(g), !.sset = TRUE])

ActSwapInReceiverInit(x) ==
  LET a == SetAnchor(x) IN
  IF a.crashed THEN a ELSE IF a.go # "" THEN Fail(a) ELSE
  Succ(ArmTimer(SetD(a, [D(a) EXCEPT !.agr = TRUE, !.prem = Premium("in"), !.nxt = "swap_in_agreement"])))

ActCreateSwapOutFromRequest(x) ==
  LET g == Gate(x, "ln.invoice") IN IF g.crashed THEN g ELSE IF g.go # "" THEN Fail(g) ELSE
  LET g1 == AfterGate([g EXCEPT !.w.fee = [ex |-> TRUE, st |-> "none", paid |-> FALSE, issued |-> g.w.now, payee |-> x.me]], "ln.invoice") IN
  IF g1.crashed THEN g1 ELSE
  Succ(ArmTimer(SetD(g1, [D(g1) EXCEPT !.agr = TRUE, !.prem = Premium("out"), !.nxt = "swap_out_agreement"])))

ActCreateSwapRequest(x) ==
  LET a == SetAnchor(x) IN
  IF a.crashed THEN a ELSE IF a.go # "" THEN Fail(a) ELSE
  Succ(ArmTimer(SetD(a, [D(a) EXCEPT !.nxt = IF TypOfRole(D(a).role) = "in" THEN "swap_in_request" ELSE "swap_out_request"])))

ActSendMessage(x) ==
  IF D(x).nxt = "" THEN Fail(x) ELSE
  LET s == SendMsg(x, MsgOf(D(x))) IN
  IF s.crashed THEN s ELSE IF s.go # "" THEN Fail(s) ELSE Succ(s)

ActSendMessageWithRetry(x) ==
  IF D(x).nxt = "" THEN Fail(x) ELSE
  IF Nd(x).snd THEN Fail(x) ELSE                 \* the manager already has a sender for this swap
  LET s == SendMsg([x EXCEPT !.w.nd[x.me].snd = TRUE], MsgOf(D(x))) IN
  IF s.crashed THEN s ELSE Succ(s)               \* the result of the first send is ignored

StopSender(x) == [x EXCEPT !.w.nd[x.me].snd = FALSE]

ActPayFeeInvoice(x) ==
  LET g == Gate(x, "ln.payfee") IN IF g.crashed THEN g ELSE
  LET fe == g.w.fee
      bad == g.go # "" \/ ~fe.ex \/ fe.payee = x.me \/ (FeeExpired(g.w) /\ fe.st # "succeeded")
      w1 == IF bad THEN [g.w EXCEPT !.fee.st = IF g.go # "" /\ @ # "none" THEN @ ELSE "failed"]
            ELSE IF fe.st = "succeeded" THEN g.w
            ELSE FireNotif([g.w EXCEPT !.fee.st = "succeeded", !.fee.paid = TRUE], fe.payee, "fee", 0)
      g1 == AfterGate([g EXCEPT !.w = w1], "ln.payfee")
  IN IF g1.crashed THEN g1 ELSE IF bad THEN Fail(g1) ELSE Succ(g1)

ActCreateAndBroadcastOpening(x) ==
  IF D(x).otb # 0 THEN Succ(x) ELSE
  LET x0 == SetD(x, [D(x) EXCEPT !.pre = TRUE])
      g1 == Gate(x0, "ln.invoice") IN IF g1.crashed THEN g1 ELSE IF g1.go # "" THEN Fail(g1) ELSE
  LET g1a == AfterGate([g1 EXCEPT !.w.cinv = Append(@, [st |-> "none", paid |-> FALSE, issued |-> g1.w.now, payee |-> x.me])], "ln.invoice") IN
  IF g1a.crashed THEN g1a ELSE
  LET i == Len(g1a.w.cinv)
      g2 == Gate(g1a, "chain.height") IN IF g2.crashed THEN g2 ELSE IF g2.go # "" THEN Fail(g2) ELSE   \* the height is looked up before the broadcast
  LET g3 == Gate(g2, "wallet.open") IN IF g3.crashed THEN g3 ELSE IF g3.go # "" THEN Fail(g3) ELSE
  LET k == Len(g3.w.txs) + 1
      g4 == AfterGate([g3 EXCEPT !.w.txs = Append(@, [owner |-> x.me, conf |-> 0, spent |-> "", by |-> "", inv |-> i]),
                                 !.w.opened = @ \cup {[tx |-> k, hash |-> i, vout |-> 0]}], "wallet.open")
  IN IF g4.crashed THEN g4 ELSE
  Succ(SetD(g4, [D(g4) EXCEPT !.start = Tip(g4), !.sset = IF CHAIN = "lbtc" THEN TRUE ELSE @, !.txhex = k, !.otb = k, !.inv = i,
                              !.nxt = "opening_tx_broadcasted"]))

Paid(ww, nt) == IF nt.k = "fee" THEN ww.fee.paid ELSE nt.i >= 1 /\ nt.i <= Len(ww.cinv) /\ ww.cinv[nt.i].paid
AddNotifier(x, kind, i) ==
  LET nt == [k |-> kind, i |-> i] IN
  IF Paid(x.w, nt) THEN Post(x, [n |-> x.me, k |-> "paid", ok |-> TRUE, tx |-> 0, kind |-> kind])
  ELSE [x EXCEPT !.w.nd[x.me].notif = @ \cup {nt}]
AddCsvWatch(x) ==
  [x EXCEPT !.w = PollWatch([x.w EXCEPT !.nd[x.me].wcsv = [tx |-> D(x).otb, csv |-> CsvBlocks]], x.me)]

ActAwaitFeeInvoicePayment(x) == Out(AddNotifier(x, "fee", 0), "NoOp")
ActAwaitPaymentOrCsv(x) == Out(AddCsvWatch(AddNotifier(x, "claim", D(x).inv)), "NoOp")
ActAwaitCsv(x) == Out(AddCsvWatch(x), "NoOp")

ActSetStartingBlockHeight(x) ==
  LET d == D(x)  g == Gate(x, "chain.height") IN IF g.crashed THEN g ELSE IF g.go # "" THEN Fail(g) ELSE
  IF CHAIN = "lbtc" THEN (IF WindowOK(d, Tip(g)) THEN Out(g, "NoOp") ELSE Fail(g))
  ELSE IF d.start = 0 THEN Out(SetD(g, [d EXCEPT !.start = Tip(g)]), "NoOp")
  ELSE IF Tip(g) >= d.start + 504 THEN Fail(g)
  ELSE Out(g, "NoOp")

ActAwaitTxConfirmation(x) ==
  LET d == D(x)  g == Gate(x, "chain.height") IN IF g.crashed THEN g ELSE IF g.go # "" THEN Fail(g) ELSE
  IF CHAIN = "btc" /\ (d.start = 0 \/ Tip(g) >= d.start + 504) THEN Fail(g)
  ELSE IF CHAIN = "lbtc" /\ ~WindowOK(d, Tip(g)) THEN Fail(g)
  ELSE Out([g EXCEPT !.w = PollWatch([g.w EXCEPT !.nd[x.me].wconf = [tx |-> d.otb, start |-> d.start, window |-> Window]], x.me)], "NoOp")

\* LightningClient.RebalancePayment inside the retry loop of ValidateTxAndPayClaimInvoiceAction (one attempt per "tick";
\* the harness ends the loop after 12 attempts; more than 4 never differ from the 4th)
RECURSIVE PayLoop(_, _)
PayLoop(x, k) ==
  IF x.crashed THEN x ELSE
  LET d == D(x) IN
  IF k > 4 THEN Fail(x) ELSE
  LET g1 == Gate(x, "chain.height") IN IF g1.crashed THEN g1 ELSE IF g1.go # "" THEN Fail(g1) ELSE
  IF CHAIN = "btc" /\ Tip(g1) - d.start > 504 THEN Fail(g1)
  ELSE IF CHAIN = "lbtc" /\ ~WindowOK(d, Tip(g1)) THEN Fail(g1)
  ELSE
  LET g2 == Gate(g1, "ln.payclaim") IN IF g2.crashed THEN g2 ELSE
  LET i == d.inv
      st == ClaimStatus(g2.w, i)
  IN IF st = "succeeded" THEN Succ(SetD(g2, [d EXCEPT !.pre = TRUE]))       \* the completed payment is returned
     ELSE IF st = "inflight" THEN PayLoop(g2, k + 1)
     ELSE
     LET unpayable == g2.w.cinv[i].payee = x.me \/ ClaimExpired(g2.w, i)
         oc == IF unpayable THEN "fail" ELSE IF g2.go \in {"", "err_pending"} THEN g2.go ELSE "fail"
         w1 == CASE oc = "" -> SettleClaim(g2.w, i)
                 [] oc = "err_pending" -> [g2.w EXCEPT !.cinv[i].st = "inflight"]
                 [] OTHER -> [g2.w EXCEPT !.cinv[i].st = "failed"]
         g3 == AfterGate([g2 EXCEPT !.w = w1], "ln.payclaim")
     IN IF g3.crashed THEN g3 ELSE IF oc = "" THEN Succ(SetD(g3, [d EXCEPT !.pre = TRUE])) ELSE PayLoop(g3, k + 1)

\* the validator accepts iff the record holds the hex of a transaction whose swap output locks the hash of the announced invoice
TxValidFor(ww, d) == d.txhex # 0 /\ d.txhex <= Len(ww.txs) /\ ww.txs[d.txhex].inv = d.inv
ActValidateTxAndPay(x) ==
  IF D(x).pre THEN Succ(x) ELSE     \* already paid (restart after the payment result was stored): go on claiming
  LET g == Gate(x, "validate") IN IF g.crashed THEN g ELSE IF g.go # "" THEN Fail(g) ELSE
  IF ~TxValidFor(g.w, D(g)) THEN Fail(g) ELSE PayLoop(g, 1)

ActSpend(x, kind, failEvent) ==
  LET d == D(x) IN
  IF d.ctx THEN Succ(x) ELSE
  LET g == Gate(x, "wallet.spend." \o kind) IN IF g.crashed THEN g ELSE
  LET t == d.txhex
      ok == g.go = "" /\ t # 0 /\ t <= Len(g.w.txs) /\ g.w.txs[t].spent = ""
            /\ (kind = "csv" => Depth(g.w, t) >= CsvBlocks)
            /\ (kind = "coop" => d.coop)
            /\ (kind = "preimage" => d.pre /\ g.w.txs[t].inv = d.inv)
  IN IF ~ok THEN Out(g, failEvent)
     ELSE LET g3 == AfterGate([g EXCEPT !.w.txs[t].spent = kind, !.w.txs[t].by = x.me], "wallet.spend." \o kind) IN
          IF g3.crashed THEN g3 ELSE Succ(SetD(g3, [D(g3) EXCEPT !.ctx = TRUE]))

ActTakerSendPrivkey(x) == Succ(SetD(x, [D(x) EXCEPT !.nxt = "coop_close"]))
ActSendCancel(x) ==
  LET s == SendMsg(x, [k |-> "cancel", c |-> [why |-> "fsm"]]) IN
  IF s.crashed THEN s ELSE IF s.go # "" THEN Fail(s) ELSE Succ(s)

RECURSIVE RunChain(_, _)
RunChain(x, names) ==
  IF x.crashed THEN x ELSE
  IF names = <<>> THEN Fail(x) ELSE
  LET a == Head(names)  rest == Tail(names) IN
  CASE a \in {"CheckRequestWrapperAction", "SetBlindingKeyActionWrapper", "CheckPremiumAmount", "AddSuspiciousPeerAction"} -> RunChain(x, rest)
    [] a = "StopSendMessageWithRetryWrapperAction" -> RunChain(StopSender(x), rest)
    [] a = "SwapInReceiverInitAction" -> ActSwapInReceiverInit(x)
    [] a = "CreateSwapOutFromRequestAction" -> ActCreateSwapOutFromRequest(x)
    [] a = "CreateSwapRequestAction" -> ActCreateSwapRequest(x)
    [] a = "SendMessageAction" -> ActSendMessage(x)
    [] a = "SendMessageWithRetryAction" -> ActSendMessageWithRetry(x)
    [] a = "PayFeeInvoiceAction" -> ActPayFeeInvoice(x)
    [] a = "CreateAndBroadcastOpeningTransaction" -> ActCreateAndBroadcastOpening(x)
    [] a = "AwaitFeeInvoicePayment" -> ActAwaitFeeInvoicePayment(x)
    [] a = "AwaitPaymentOrCsvAction" -> ActAwaitPaymentOrCsv(x)
    [] a = "AwaitCsvAction" -> ActAwaitCsv(x)
    [] a = "SetStartingBlockHeightAction" -> ActSetStartingBlockHeight(x)
    [] a = "AwaitTxConfirmationAction" -> ActAwaitTxConfirmation(x)
    [] a = "ValidateTxAndPayClaimInvoiceAction" -> ActValidateTxAndPay(x)
    [] a = "ClaimSwapTransactionWithPreimageAction" -> ActSpend(x, "preimage", "Event_OnRetry")
    [] a = "ClaimSwapTransactionWithCsv" -> ActSpend(x, "csv", "Event_OnRetry")
    [] a = "ClaimSwapTransactionCoop" -> ActSpend(x, "coop", "Event_ActionFailed")
    [] a = "TakerSendPrivkeyAction" -> ActTakerSendPrivkey(x)
    [] a = "SendCancelAction" -> ActSendCancel(x)
    [] a = "NoOpAction" -> Out(x, "NoOp")
    [] a = "NoOpDoneAction" -> Out(StopSender(x), "Event_Done")
    [] a = "CancelAction" -> Out(x, "Event_Done")
    [] OTHER -> Fail(Viol(x, {V("XX", "spec-drift|unknown-action|" \o a, FALSE)}))   \* the code's tables name an Action this model does not know

(* ----------------------------------------------------- FSM engine (fsm.go) -- *)
RECURSIVE Loop(_, _, _)
Loop(x, event, retries) ==
  IF x.crashed THEN x ELSE
  LET d == D(x)  key == <<d.role, d.cur, event>> IN
  IF key \notin DOMAIN TransTable THEN [x EXCEPT !.res = "rejected"] ELSE
  LET nxt == TransTable[key]
      x1 == [SetD(x, [d EXCEPT !.prev = d.cur, !.cur = nxt]) EXCEPT !.first = IF @ = "" THEN nxt ELSE @]
      acts == Get(ActionTable, <<d.role, nxt>>, <<>>)
  IN IF acts = <<>> THEN [x1 EXCEPT !.res = "other"] ELSE
  LET a == RunChain(x1, acts) IN IF a.crashed THEN a ELSE
  LET p == Persist(a) IN IF p.crashed THEN p ELSE IF p.go # "" THEN [p EXCEPT !.res = "other"] ELSE
  CASE a.out = "Event_Done" -> [p EXCEPT !.done = TRUE]
    [] a.out = "NoOp" -> p
    [] a.out = "Event_OnRetry" -> IF retries >= 2 THEN p ELSE Loop(p, a.out, retries + 1)
    [] OTHER -> Loop(p, a.out, retries)

\* ApplyToSwapData; TRUE if the record already holds such a message (AlreadyExistsError)
CtxExists(m, d) ==
  CASE m.k \in ReqKinds -> d.req [] m.k \in AgrKinds -> d.agr [] m.k = "opening_tx_broadcasted" -> d.otb # 0
    [] m.k = "coop_close" -> d.coop [] OTHER -> FALSE
CtxApply(m, d) ==
  CASE m.k \in ReqKinds -> [d EXCEPT !.req = TRUE]
    [] m.k \in AgrKinds -> [d EXCEPT !.agr = TRUE, !.prem = m.c.prem]
    [] m.k = "opening_tx_broadcasted" -> [d EXCEPT !.otb = m.c.tx, !.inv = m.c.inv]
    [] m.k = "cancel" -> [d EXCEPT !.cobj = TRUE]
    [] m.k = "coop_close" -> [d EXCEPT !.coop = TRUE]
    [] OTHER -> d

\* SendEvent: (validate,) refuse events the current state does not accept, apply the event context, persist, then the transition loop
SendEvent(x, event, m) ==
  IF x.crashed THEN x ELSE
  LET x0 == [x EXCEPT !.done = FALSE, !.res = "ok"] IN
  IF m # None /\ <<D(x0).role, D(x0).cur, event>> \notin DOMAIN TransTable THEN [x0 EXCEPT !.res = "rejected"] ELSE
  IF m # None /\ CtxExists(m, D(x0)) THEN [x0 EXCEPT !.res = "exists"] ELSE
  LET p == Persist(IF m = None THEN x0 ELSE SetD(x0, CtxApply(m, D(x0)))) IN
  IF p.crashed THEN p ELSE IF p.go # "" THEN [p EXCEPT !.res = "other"] ELSE Loop(p, event, 0)

Unreg(x) == IF ~x.crashed /\ x.done THEN [x EXCEPT !.w.nd[x.me].reg = FALSE] ELSE x
Lock(x, data) == [x EXCEPT !.w.nd[x.me].reg = TRUE, !.w.nd[x.me].mem = data, !.done = FALSE]

(* ------------------------------------------------ service handlers (service.go) -- *)
OnRequest(x, m) ==
  IF Nd(x).reg \/ Nd(x).disk.role # "" THEN     \* a known swap id is never reused: refused with cancel (also the duplicate of the own request)
     (IF RefuseKnownIdWithCancel THEN [SendMsg(x, [k |-> "cancel", c |-> [why |-> "inuse"]]) EXCEPT !.res = "id_in_use"]
      ELSE [x EXCEPT !.res = "id_in_use"])       \* (DuoCfgs: how the tree under test treats the duplicate of a known request, probed by the engine)
  ELSE
  LET role == RoleOfReq(m.k)
      l == Lock(x, [NoData EXCEPT !.role = role])
  IN Unreg(SendEvent(l, EvOfKind(m.k), m))

OnPeerMessage(x, m) ==
  IF m.k \in ReqKinds THEN OnRequest(x, m)
  ELSE IF ~Nd(x).reg THEN [x EXCEPT !.res = "no_swap"]
  ELSE Unreg(SendEvent(x, EvOfKind(m.k), m))

LocalInit(x, typ) ==
  LET role == IF typ = "out" THEN "out_sender" ELSE "in_sender"
      l == Lock(x, [NoData EXCEPT !.role = role])
      m == [k |-> IF typ = "out" THEN "swap_out_request" ELSE "swap_in_request", c |-> [amt |-> AMOUNT]]
  IN Unreg(SendEvent(l, IF typ = "out" THEN "Event_OnSwapOutStarted" ELSE "Event_SwapInSender_OnSwapInRequested", m))

\* callbacks posted by the watcher / payment notifier / timer of node cb.n
RunCallback(ww, cb) ==
  IF ~ww.nd[cb.n].up \/ ~ww.nd[cb.n].reg THEN ww ELSE
  LET y == Ctx(ww, cb.n) IN
  (CASE cb.k = "paid" -> Unreg(SendEvent(y, IF cb.kind = "fee" THEN "Event_OnFeeInvoicePaid" ELSE "Event_OnClaimInvoicePaid", None))
     [] cb.k = "csv" -> Unreg(SendEvent(y, "Event_OnCsvPassed", None))
     [] cb.k = "timeout" -> Unreg(SendEvent(y, "Event_OnTimeout", None))
     [] cb.k = "conf" ->
          IF cb.ok THEN Unreg(SendEvent(SetD(y, [D(y) EXCEPT !.txhex = cb.tx]), "Event_OnTxConfirmed", None))
          ELSE LET f == Unreg(SendEvent(y, "Event_ActionFailed", None)) IN     \* OnTxConfirmed goes on after the failure event
               IF f.crashed THEN f ELSE Unreg(SendEvent(SetD(f, [D(f) EXCEPT !.txhex = 0]), "Event_OnTxConfirmed", None))
     [] OTHER -> y).w

RECURSIVE DrainQ(_, _)
DrainQ(ww, fuel) ==
  IF ww.q = <<>> \/ fuel = 0 THEN ww
  ELSE DrainQ(RunCallback([ww EXCEPT !.q = Tail(@)], Head(ww.q)), fuel - 1)

\* RecoverSwaps of node n (fsm.go Recover for the unfinished record)
Recover(ww, n) ==
  LET d == ww.nd[n].disk IN
  IF d.role = "" \/ d.cur \in Terminal THEN ww ELSE
  LET l == Lock(Ctx(ww, n), d) IN
  IF d.cur = "" THEN l.w ELSE                       \* record without state: locked for good (the Default state has no Action)
  IF <<d.role, d.cur>> \in FailOnRecover THEN Unreg(SendEvent(l, "Event_ActionFailed", None)).w ELSE
  LET acts == Get(ActionTable, <<d.role, d.cur>>, <<>>) IN
  IF acts = <<>> THEN l.w ELSE
  LET a == RunChain(l, acts) IN IF a.crashed THEN a.w ELSE
  LET p == Persist(a) IN IF p.crashed \/ p.go # "" \/ a.out = "NoOp" THEN p.w ELSE Unreg(SendEvent(p, a.out, None)).w

(* ------------------------------------------------------ scheduler steps -- *)
NoStep == [a |-> "", n |-> "", typ |-> "", d |-> "", nb |-> 0, incl |-> FALSE, k |-> "", f |-> None, c |-> None]

\* deliver the head of a queue to the receiving node (pop = FALSE: duplicate it)
Deliver(ww, dir, pop) ==
  IF ww.net[dir] = <<>> THEN ww ELSE
  LET m == Head(ww.net[dir])
      to == IF dir = "AB" THEN "B" ELSE "A"
      w0 == IF pop THEN [ww EXCEPT !.net[dir] = Tail(@)] ELSE ww
  IN IF ~w0.nd[to].up THEN [w0 EXCEPT !.lossyTo[to] = TRUE] ELSE       \* delivered to a stopped node: lost
  LET dup == m \in w0.seen[to]
      w1 == [w0 EXCEPT !.seen[to] = @ \cup {m}]
      pre == IF ~w1.nd[to].reg THEN "" ELSE IF w1.nd[to].mem.cur = "" THEN "-" ELSE w1.nd[to].mem.cur
      role == IF m.k \in ReqKinds THEN RoleOfReq(m.k) ELSE w1.nd[to].mem.role
      keychk == IF m.k = "coop_close" THEN ChkCoopRecv(ClaimAgg(w1), w1.crashes, w1.faults) ELSE {}
      r == OnPeerMessage(Ctx(w1, to), m)
      chk == IF r.crashed \/ w1.adv THEN {} ELSE ChkRecv(m.k, dup, r.res, pre, r.first, r.sent, role, w1.lossyTo[to], w1.crashes \/ w1.faults)
  IN [r.w EXCEPT !.v = @ \cup keychk \cup chk]

RECURSIVE Flush(_, _)
Flush(ww, fuel) ==
  IF fuel = 0 THEN ww
  ELSE IF ww.net.AB # <<>> THEN Flush(DrainQ(Deliver(ww, "AB", TRUE), 8), fuel - 1)
  ELSE IF ww.net.BA # <<>> THEN Flush(DrainQ(Deliver(ww, "BA", TRUE), 8), fuel - 1)
  ELSE ww

FireTimers(ww, n) ==
  LET due == {t \in ww.nd[n].timers : t <= ww.now} IN
  IF ~ww.nd[n].up \/ due = {} THEN ww
  ELSE DrainQ([ww EXCEPT !.nd[n].timers = @ \ due, !.q = @ \o [i \in 1..Cardinality(due) |-> [n |-> n, k |-> "timeout", ok |-> TRUE, tx |-> 0]]], 8)

Mine(ww, nb, incl) ==
  LET first == ww.tip + 1
      w1 == [ww EXCEPT !.tip = @ + nb, !.txs = [k \in 1..Len(@) |-> IF incl /\ @[k].conf = 0 THEN [@[k] EXCEPT !.conf = first] ELSE @[k]]]
  IN PollWatch(PollWatch(w1, "A"), "B")

Restart(ww, n) ==
  LET w1 == [ww EXCEPT !.nd[n] = [Down(@) EXCEPT !.up = TRUE]] IN Recover(w1, n)

ResolveHtlc(ww, settle) ==
  LET F[i \in 0..Len(ww.cinv)] ==
        IF i = 0 THEN ww ELSE
        IF F[i - 1].cinv[i].st # "inflight" THEN F[i - 1]
        ELSE IF settle THEN SettleClaim(F[i - 1], i) ELSE [F[i - 1] EXCEPT !.cinv[i].st = "failed"]
  IN F[Len(ww.cinv)]

RetxTick(ww, n) ==
  IF ~ww.nd[n].up \/ ~ww.nd[n].snd \/ ww.nd[n].lastotb = None THEN ww
  ELSE SendMsg(Viol(Ctx(ww, n), IF ww.adv THEN {} ELSE ChkRetx(ww.nd[n].disk.cur)), ww.nd[n].lastotb).w

\* properties judged at the quiescent end of every step
TxsPub(ww) == [k \in 1..Len(ww.txs) |-> [owner |-> ww.txs[k].owner, conf |-> ww.txs[k].conf, spent |-> ww.txs[k].spent, by |-> ww.txs[k].by,
                                         paid |-> ww.cinv[ww.txs[k].inv].paid, st |-> ww.cinv[ww.txs[k].inv].st]]
Agreed(d) ==
  (IF d.req THEN [amt |-> AMOUNT, scid |-> "100x1x1", chain |-> CHAIN, ver |-> 7] ELSE <<>>)
  @@ (IF d.agr THEN [prem |-> d.prem] ELSE <<>>)
  @@ (IF d.otb # 0 THEN [tx |-> d.otb, vout |-> 0, hash |-> d.inv] ELSE <<>>)
RecOf(ww, n) == [role |-> ww.nd[n].disk.role, cur |-> ww.nd[n].disk.cur]
ActOf(ww, n) == IF ~ww.nd[n].up \/ ~ww.nd[n].reg THEN "" ELSE IF ww.nd[n].mem.cur = "" THEN "-" ELSE ww.nd[n].mem.cur
StepChecks(ww) ==
  LET da == ww.nd.A.disk  db == ww.nd.B.disk
      responder == IF da.role \in {"out_receiver", "in_receiver"} THEN "A" ELSE "B"
      dr == ww.nd[responder].disk
  IN ChkSafety(TxsPub(ww), ww.crashes, ww.faults)
     \cup (IF da.role # "" /\ db.role # "" THEN ChkAgree(Agreed(da), Agreed(db)) ELSE {})
     \cup (IF dr.role # "" /\ dr.agr THEN ChkPremium(Agreed(dr), dr.role, RatePPM(CHAIN, TypOfRole(dr.role))) ELSE {})
     \cup UNION {IF ww.nd[n].disk.role # "" THEN ChkAnnounced(Agreed(ww.nd[n].disk), ww.opened) ELSE {} : n \in {"A", "B"}}
EndChecks(ww) ==
  LET maker == IF ww.nd.A.disk.role \in Makers THEN "A" ELSE "B"
      taker == OtherNode(maker)
  IN ChkEndAtomic(TxsPub(ww), RecOf(ww, maker), RecOf(ww, taker), ww.lostopen[maker], ww.lostspend[taker], ww.crashes, ww.faults)
     \cup ChkEndPaid(\E i \in 1..Len(ww.cinv) : ww.cinv[i].paid, RecOf(ww, taker), ww.lostspend[taker], ww.crashes, ww.faults)
     \cup (IF ww.adv THEN {} ELSE ChkEndNode(RecOf(ww, "A"), ActOf(ww, "A"), ww.nd.A.up, ww.lostspend.A) \cup ChkEndNode(RecOf(ww, "B"), ActOf(ww, "B"), ww.nd.B.up, ww.lostspend.B))

\* a finished swap leaves the registry; its in-memory copy is garbage
Normalize(ww) == [ww EXCEPT !.nd = [n \in {"A", "B"} |-> IF ww.nd[n].reg THEN ww.nd[n] ELSE [ww.nd[n] EXCEPT !.mem = NoData]],
                             !.occ = <<>>, !.f = None, !.c = None, !.q = <<>>]

\* the world after scheduler step st (total: a step that does not apply changes nothing)
StepHit(ww, st) ==
  LET w0 == [ww EXCEPT !.f = st.f, !.c = st.c, !.occ = <<>>, !.faults = @ \/ st.f # None]
      w1 == CASE st.a = "init" -> IF w0.nd[st.n].up /\ w0.nd.A.disk.role = "" /\ w0.nd.B.disk.role = "" /\ ~w0.nd.A.reg /\ ~w0.nd.B.reg
                                  THEN LocalInit(Ctx(w0, st.n), st.typ).w ELSE w0
              [] st.a = "deliver" -> Deliver(w0, st.d, TRUE)
              [] st.a = "dup" -> Deliver(w0, st.d, FALSE)
              [] st.a = "advdup" -> Deliver([w0 EXCEPT !.adv = @ \/ w0.net[st.d] # <<>>], st.d, FALSE)
              [] st.a = "drop" -> IF w0.net[st.d] = <<>> THEN w0 ELSE [w0 EXCEPT !.net[st.d] = Tail(@), !.lossyTo[IF st.d = "AB" THEN "B" ELSE "A"] = TRUE]
              [] st.a = "dropall" -> [w0 EXCEPT !.net = [AB |-> <<>>, BA |-> <<>>], !.lossyTo.B = @ \/ w0.net.AB # <<>>, !.lossyTo.A = @ \/ w0.net.BA # <<>>]
              [] st.a = "flush" -> Flush(w0, 12)
              [] st.a = "block" -> Mine(w0, st.nb, st.incl)
              [] st.a = "tick" -> FireTimers(FireTimers([w0 EXCEPT !.now = @ + 10], "A"), "B")
              [] st.a = "retx" -> RetxTick(w0, st.n)
              [] st.a = "restart" -> Restart(w0, st.n)
              [] st.a = "htlc" -> ResolveHtlc(w0, st.k = "settle")
              [] OTHER -> w0
      wd == DrainQ(w1, 12)
      w2 == Normalize(wd)
  IN [w |-> [w2 EXCEPT !.v = @ \cup StepChecks(w2)], hit |-> wd.occ, crashedNow |-> st.c # None /\ wd.c = None]
Step(ww, st) == StepHit(ww, st).w

RECURSIVE RunSteps(_, _)
RunSteps(ww, steps) == IF steps = <<>> THEN ww ELSE RunSteps(Step(ww, Head(steps)), Tail(steps))
\* the fair closure (module DuoCfgs: generated, the same list the harness executes), then the end checks
Close(ww, heal) ==
  LET e == RunSteps(ww, ClosureSteps(CHAIN, heal)) IN
  [e EXCEPT !.closed = IF heal THEN "heal" ELSE "dead", !.v = @ \cup EndChecks(e)]

(* ------------------------------------------------- joint snapshot (conformance) -- *)
JoinSorted(s) == IF s = {} THEN "" ELSE IF Cardinality(s) = 1 THEN (CHOOSE x \in s : TRUE) ELSE "claim,fee"
NodeSnap(ww, n) ==
  LET nd == ww.nd[n]  d == nd.disk IN
  [up |-> nd.up, act |-> ActOf(ww, n), nact |-> IF nd.up /\ nd.reg THEN 1 ELSE 0, snd |-> IF nd.snd THEN 1 ELSE 0, tm |-> Cardinality(nd.timers),
   wconf |-> IF nd.wconf = None THEN 0 ELSE 1, wcsv |-> IF nd.wcsv = None THEN 0 ELSE 1, notif |-> JoinSorted({nt.k : nt \in nd.notif}),
   ndisk |-> IF d.role = "" THEN 0 ELSE 1,
   disk |-> [role |-> d.role, prev |-> d.prev, cur |-> d.cur, fl |-> FlStr(d), start |-> d.start, nxt |-> d.nxt]]
ClaimTruth(ww) == ClaimAgg(ww)
Snapshot(ww) ==
  [A |-> NodeSnap(ww, "A"), B |-> NodeSnap(ww, "B"), ab |-> [i \in 1..Len(ww.net.AB) |-> ww.net.AB[i].k], ba |-> [i \in 1..Len(ww.net.BA) |-> ww.net.BA[i].k],
   tip |-> ww.tip, txs |-> TxsPub(ww), fee |-> ww.fee.st, claim |-> ClaimTruth(ww), cpaid |-> \E i \in 1..Len(ww.cinv) : ww.cinv[i].paid, now |-> ww.now]

(* ------------------------------------------------------------ exploration -- *)
S0(a) == [NoStep EXCEPT !.a = a]
Dirs == {"AB", "BA"}
HeightMatters(ww) == ww.nd.A.wconf # None \/ ww.nd.B.wconf # None \/ ww.nd.A.wcsv # None \/ ww.nd.B.wcsv # None
                     \/ (\E k \in 1..Len(ww.txs) : ww.txs[k].conf = 0)
                     \/ (\E n \in {"A", "B"} : ww.nd[n].disk.role \in Takers /\ ww.nd[n].disk.cur \notin Terminal /\ (ww.nd[n].disk.start > 0 \/ ww.nd[n].disk.sset))
FaultMenu == {<<"msg.send", "err">>, <<"ln.payclaim", "fail">>, <<"ln.payclaim", "err_pending">>, <<"ln.payfee", "err">>, <<"wallet.open", "err">>,
              <<"wallet.spend.preimage", "err">>, <<"wallet.spend.coop", "err">>, <<"wallet.spend.csv", "err">>, <<"chain.height", "err">>,
              <<"validate", "err">>, <<"ln.invoice", "err">>}
CrashMenu == {<<"persist", "after">>, <<"persist", "before">>, <<"wallet.open", "after">>, <<"msg.send", "after">>, <<"ln.payclaim", "after">>,
              <<"ln.payfee", "after">>, <<"wallet.spend.preimage", "after">>, <<"wallet.spend.csv", "after">>, <<"wallet.spend.coop", "after">>}
Plans(ww) ==
  {[f |-> None, c |-> None]}
  \cup (IF ww.b.faults < cf.faults THEN {[f |-> [n |-> n, g |-> p[1], o |-> p[2], all |-> al], c |-> None] : n \in {"A", "B"}, p \in FaultMenu, al \in BOOLEAN} ELSE {})
  \cup (IF ww.b.crashes < cf.crashes THEN {[f |-> None, c |-> [n |-> n, g |-> p[1], occ |-> k, w |-> p[2]]] : n \in {"A", "B"}, p \in CrashMenu, k \in 1..4} ELSE {})
\* a plan that is never reached is not a behaviour of its own
PlanHit(pl, e) ==
  (IF pl.f = None THEN TRUE ELSE Get(e.hit, <<pl.f.n, pl.f.g>>, 0) >= 1) /\ (IF pl.c = None THEN TRUE ELSE e.crashedNow)

BaseSteps(ww) ==
  (IF ww.b.steps = 0 THEN {[S0("init") EXCEPT !.n = cf.init, !.typ = cf.typ]} ELSE
   {[S0(a) EXCEPT !.d = d] : a \in {"deliver"} \cup (IF ww.b.drops < cf.drops THEN {"drop"} ELSE {}), d \in {x \in Dirs : ww.net[x] # <<>>}}
   \cup (IF ww.b.dups < cf.dups      \* the honest network duplicates only what peerswap retransmits
         THEN {[S0("dup") EXCEPT !.d = d] : d \in {x \in Dirs : ww.net[x] # <<>> /\ Head(ww.net[x]).k = "opening_tx_broadcasted"}} ELSE {})
   \cup (IF ww.b.advdups < cf.advdups   \* adversarial: a node sends a message (other than the retransmitted one) twice
         THEN {[S0("advdup") EXCEPT !.d = d] : d \in {x \in Dirs : ww.net[x] # <<>> /\ Head(ww.net[x]).k # "opening_tx_broadcasted"}} ELSE {})
   \cup (IF HeightMatters(ww) /\ ww.b.blocks < cf.blocks
         THEN {[S0("block") EXCEPT !.nb = p[1], !.incl = p[2]] : p \in {<<MinConf, TRUE>>, <<Window, FALSE>>, <<CsvBlocks, TRUE>>}} ELSE {})
   \cup (IF ww.b.ticks < cf.ticks THEN {S0("tick")} ELSE {})
   \* a retransmission tick of a node that announced an opening transaction in this process - also where the specification says the
   \* retransmitter is gone (there the tick changes nothing; code that forgets to stop the retransmitter sends another copy: D5 / C22)
   \cup (IF ww.b.retx < cf.retx THEN {[S0("retx") EXCEPT !.n = n] : n \in {m \in {"A", "B"} : ww.nd[m].up /\ ww.nd[m].lastotb # None}} ELSE {})
   \cup (IF ww.b.restarts < cf.restarts THEN {[S0("restart") EXCEPT !.n = n] : n \in {"A", "B"}} ELSE {})
   \cup {[S0("restart") EXCEPT !.n = n] : n \in {m \in {"A", "B"} : ~ww.nd[m].up}}
   \cup (IF \E i \in 1..Len(ww.cinv) : ww.cinv[i].st = "inflight" THEN {[S0("htlc") EXCEPT !.k = k] : k \in {"settle", "fail"}} ELSE {}))

Bump(b, st) == [b EXCEPT !.steps = @ + 1, !.restarts = @ + (IF st.a = "restart" THEN 1 ELSE 0), !.dups = @ + (IF st.a = "dup" THEN 1 ELSE 0), !.advdups = @ + (IF st.a = "advdup" THEN 1 ELSE 0),
                         !.drops = @ + (IF st.a = "drop" THEN 1 ELSE 0), !.ticks = @ + (IF st.a = "tick" THEN 1 ELSE 0), !.retx = @ + (IF st.a = "retx" THEN 1 ELSE 0),
                         !.blocks = @ + (IF st.a = "block" THEN 1 ELSE 0),
                         !.faults = @ + (IF st.f # None THEN 1 ELSE 0), !.crashes = @ + (IF st.c # None THEN 1 ELSE 0)]

Init == /\ cf \in CONFIGS /\ w = [WInit EXCEPT !.tip = IF cf.chain = "btc" THEN 1000 ELSE 5000] /\ sched = <<>>
DoStep ==
  /\ w.closed = "" /\ w.b.steps < cf.maxsteps
  /\ \E base \in BaseSteps(w), pl \in Plans(w) :
       /\ IF pl.f = None /\ pl.c = None THEN TRUE ELSE base.a \in {"init", "deliver", "dup", "block", "tick", "restart", "htlc"}
       /\ \E st \in {[base EXCEPT !.f = pl.f, !.c = pl.c]} :       \* (quantifiers over singleton sets bind values: evaluated once)
          \E e \in {StepHit(w, st)} :
             /\ PlanHit(pl, e)
             /\ w' = [e.w EXCEPT !.b = Bump(@, st)]
             /\ sched' = Append(sched, st)
  /\ UNCHANGED cf
DoClose ==
  /\ w.closed = "" /\ w.b.steps >= 1 /\ cf.close
  /\ \E heal \in BOOLEAN :
       /\ w' = Close(w, heal)
       /\ sched' = Append(sched, [S0("close") EXCEPT !.k = IF heal THEN "heal" ELSE "dead"])
  /\ UNCHANGED cf
Next == DoStep \/ DoClose
Spec == Init /\ [][Next]_vars
View == <<cf.name, [w EXCEPT !.b.steps = 0]>>
===============================================================================
