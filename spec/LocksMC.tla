------------------------------ MODULE LocksMC ------------------------------
(* Design-level model checking of Locks.tla and export.                     *)
(*  Mode "fine": every interleaving at instruction granularity, for every   *)
(*    configuration (entry point pairs / triples x prepared swap state x    *)
(*    chain depth x watcher). P_C18_bounded is an ordinary invariant; the   *)
(*    states violating P_C18_nodeadlock and P_C19_norace are COLLECTED      *)
(*    (classes written to model.json) instead of stopping at the first:     *)
(*    each class is a candidate that must be reproduced on the real code.   *)
(*    With the Fix constants TRUE the same properties are checked as plain  *)
(*    invariants (LocksMCfix.cfg) and P_C18_returns as a temporal property. *)
(*  Mode "gate": interleavings at gate granularity (what the harness can    *)
(*    enforce); one shortest schedule per (configuration, outcome, first    *)
(*    mover) is exported to sched.ndjson.                                   *)
EXTENDS Locks, Json, SequencesExt

CONSTANTS Mode, Tier, Part, Parts
VARIABLES s, hist
vars == <<s, hist>>

Maker  == {"msg_cancel", "msg_coop", "msg_coop_bad", "pay_claim", "timeout", "notify", "rpc_resend", "rpc_swapout", "msg_req", "pol_set", "pol_reload", "pol_get"}
Core   == {"msg_cancel", "msg_coop", "msg_coop_bad", "pay_claim", "notify"}      \* touch the swap mutex and the watcher
Taker  == {"msg_opening", "msg_cancel", "notify_obs", "timeout", "rpc_resend", "rpc_swapout", "msg_req", "pol_set", "pol_reload", "pol_get"}
Recov  == {"msg_cancel", "msg_coop", "pay_claim", "notify", "rpc_resend", "pol_reload"}

\* chain situations at the moment the entry points run: d0 / mines
\*   not: far from the CSV      edge: one block before, none mined     just: one block before, the block arrives during the run     long: matured before
Chains == {[n |-> "not", d0 |-> 0, mines |-> 1], [n |-> "edge", d0 |-> 1, mines |-> 0], [n |-> "just", d0 |-> 1, mines |-> 1], [n |-> "long", d0 |-> 2, mines |-> 0]}

Cfg(w, role, prep, ch, restart, flt, a, b, c) ==
  [watcher |-> w, role |-> role, prep |-> prep, chain |-> ch.n, d0 |-> ch.d0, mines |-> ch.mines, restart |-> restart, faults |-> flt, lbtc |-> (w = "el"),
   entry |-> [p \in Drivers |-> IF p = "A" THEN a ELSE IF p = "B" THEN b ELSE c]]

FaultsFor(a, b) == IF "msg_coop" \in {a, b} THEN {{}, {"wallet.coop"}} ELSE {{}}
\* unordered pairs (the process names are interchangeable)

MakerCfgs ==
  {Cfg(w, "in_sender", prep, ch, FALSE, flt, a, b, "-") :
      w \in {"rpc", "el"}, prep \in {"ACP", "WCSV"}, ch \in Chains, a \in Maker, b \in Maker \cup {"-"}, flt \in {{}, {"wallet.coop"}}}
MakerOK(c) ==
  /\ (c.faults # {} => "msg_coop" \in {c.entry["A"], c.entry["B"]})
  /\ (c.chain # "not" => \/ c.entry["A"] \in Core /\ c.entry["B"] \in Core \cup {"-"}
                         \/ c.chain = "long" /\ c.entry["A"] \in Core /\ c.entry["B"] \in {"rpc_swapout", "msg_req"})
TripleCfgs ==
  {c \in {Cfg(w, "in_sender", "ACP", ch, FALSE, {}, a, b, "notify") :
      w \in {"rpc", "el"}, ch \in {x \in Chains : x.n \in {"just", "long"}}, a \in {"msg_cancel", "msg_coop_bad"}, b \in {"pay_claim", "msg_coop", "msg_cancel"}} : TRUE}
TakerCfgs ==
  {Cfg(w, role, prep, [n |-> "not", d0 |-> 0, mines |-> 1], FALSE, {}, a, b, "-") :
      w \in {"rpc", "el"}, role \in {"out_sender", "in_receiver"}, prep \in {"ATB", "ATC"}, a \in Taker, b \in Taker \cup {"-"}}
RecovCfgs ==
  {Cfg(w, "in_sender", prep, ch, TRUE, {}, "recover", b, "-") :
      w \in {"rpc", "el"}, prep \in {"ACP", "WCSV"}, ch \in {x \in Chains : x.n \in {"not", "long"}}, b \in Recov \cup {"-"}}
  \cup {Cfg(w, "in_receiver", "ATC", [n |-> "not", d0 |-> 0, mines |-> 1], TRUE, {}, "recover", b, "-") :
      w \in {"rpc", "el"}, b \in {"-", "notify_obs", "msg_cancel", "rpc_resend"}}

\* A <= B in a fixed order removes the mirrored configurations
Ord == <<"-", "msg_cancel", "msg_coop", "msg_coop_bad", "msg_opening", "pay_claim", "timeout", "notify", "notify_obs", "rpc_resend", "rpc_swapout", "msg_req", "pol_set", "pol_reload", "pol_get", "recover">>
Idx(e) == CHOOSE i \in 1..Len(Ord) : Ord[i] = e
Once == {"timeout", "pay_claim"}     \* one timer / one payment notification per swap
Canon(c) == /\ (c.entry["B"] = "-" \/ c.entry["A"] = "recover" \/ Idx(c.entry["A"]) <= Idx(c.entry["B"]))
            /\ ~(c.entry["A"] = c.entry["B"] /\ c.entry["A"] \in Once)

AllCfgs == {c \in MakerCfgs : MakerOK(c) /\ Canon(c)} \cup TripleCfgs \cup {c \in TakerCfgs : Canon(c)} \cup RecovCfgs
(* quick tier: the entry points that touch the swap mutex and a watcher in all chain situations; the service-level entry  *)
(* points (RPC, policy, timeout) pairwise once and against each core entry point; the taker's confirmation path; recovery *)
NonCore == {"timeout", "rpc_resend", "rpc_swapout", "msg_req", "pol_set", "pol_reload", "pol_get"}
TCore   == {"msg_opening", "msg_cancel", "notify_obs", "timeout"}
E2(c)   == {c.entry["A"], c.entry["B"]} \ {"-"}
QuickOK(c) ==
  /\ c.entry["C"] = "-"
  /\ \/ /\ c.prep \in {"ACP", "WCSV"} /\ ~c.restart
        /\ \/ E2(c) \subseteq Core /\ (c.prep = "ACP" \/ c.chain \in {"just", "long"})
           \/ E2(c) \subseteq NonCore /\ c.watcher = "rpc" /\ c.prep = "ACP" /\ c.chain = "not"
           \/ E2(c) \cap Core # {} /\ E2(c) \cap NonCore # {} /\ c.prep = "ACP" /\ c.chain = "not"
           \* entry points that take the service lock for writing, against the synchronous-callback path
           \/ E2(c) \cap Core # {} /\ E2(c) \cap {"rpc_swapout", "msg_req"} # {} /\ c.prep = "ACP" /\ c.chain = "long"
     \/ /\ c.prep \in {"ATB", "ATC"}
        /\ ~(c.role = "out_sender" /\ c.prep = "ATC")      \* differs from in_receiver/ATC only by rejecting cancel
        /\ \/ E2(c) \subseteq TCore
           \/ E2(c) \cap TCore # {} /\ c.role = "in_receiver" /\ c.prep = "ATC" /\ E2(c) \subseteq TCore \cup {"rpc_resend", "rpc_swapout", "pol_reload"}
     \/ c.restart /\ c.entry["B"] \in {"-", "msg_cancel", "notify", "pay_claim", "notify_obs", "rpc_resend"}
QuickCfgs == {c \in AllCfgs : QuickOK(c)}
ChainIdx(c) == CASE c.chain = "not" -> 0 [] c.chain = "edge" -> 1 [] c.chain = "just" -> 2 [] OTHER -> 3
PartOf(c) == (Idx(c.entry["A"]) + 5 * Idx(c.entry["B"]) + 3 * ChainIdx(c) + (IF c.watcher = "rpc" THEN 0 ELSE 7) + (IF c.prep \in {"ACP", "ATC"} THEN 0 ELSE 11)) % Parts
Cfgs == {c \in (IF Tier = "quick" THEN QuickCfgs ELSE AllCfgs) : PartOf(c) = Part}

CfgName(c) == c.watcher \o "/" \o c.role \o "/" \o c.prep \o "/" \o c.chain \o (IF c.restart THEN "/restart" ELSE "") \o (IF c.faults # {} THEN "/coopfail" ELSE "")
              \o "/" \o c.entry["A"] \o "+" \o c.entry["B"] \o (IF c.entry["C"] # "-" THEN "+" \o c.entry["C"] ELSE "")

Init == /\ s \in {InitState(c) : c \in Cfgs}
        /\ hist = <<>>

\* ---- instruction granularity
FineNext ==
  \/ \E p \in Procs : \/ CanStart(s, p) /\ s' = Fuse(Start(s, p), p)
                      \/ Enabled(s, p) /\ s' = Step(s, p)
  \/ CanMine(s) /\ s' = Mine(s)

\* ---- gate granularity
Steppable(st) == {p \in Procs : CanStart(st, p) \/ AtGate(st, p)}
MacroSet(st, p) == SettleSet(IF CanStart(st, p) THEN RunL(Start(st, p), p) ELSE StepS(st, p))
GateNext ==
  \/ \E p \in Steppable(s) : s' \in MacroSet(s, p) /\ hist' = Append(hist, p)
  \/ CanMine(s) /\ s' = Mine(s) /\ hist' = Append(hist, "E")

Next == IF Mode = "fine" THEN FineNext /\ UNCHANGED hist ELSE GateNext
Spec == Init /\ [][Next]_vars /\ WF_vars(Next)

\* ---- properties
InvBounded == P_C18_bounded(s)
InvNoDeadlock == P_C18_nodeadlock(s)
InvNoRace == P_C19_norace(s)
\* every started handler eventually returns (checked on the repaired design)
P_C18_returns == \A p \in Drivers : (s.started[p] ~> Returned(s, p))
StuckGate == Steppable(s) = {} /\ ~CanMine(s)

\* ---- collection (registers: 1 deadlock classes, 2 race pairs, 3 schedules, 4 keys seen, 5 stuck states)
ASSUME TLCSet(1, {}) /\ TLCSet(2, {}) /\ TLCSet(3, <<>>) /\ TLCSet(4, {}) /\ TLCSet(5, 0)
DClass == [cfg |-> CfgName(s.cfg), waits |-> DeadlockClass(s)]
CollectFine ==
  /\ (Races(s) # {} => TLCSet(2, TLCGet(2) \cup Races(s)))
  /\ (Stuck(s) /\ Unreturned(s) # {} => TLCSet(1, TLCGet(1) \cup {DClass}) /\ TLCSet(5, TLCGet(5) + 1))
First == IF hist = <<>> THEN "-" ELSE hist[1]
Key == <<CfgName(s.cfg), s.st, DeadlockClass(s), First>>
Sched == [name |-> CfgName(s.cfg) \o "#" \o ToString(Cardinality(TLCGet(4))), class |-> CfgName(s.cfg),
          watcher |-> s.cfg.watcher, role |-> s.cfg.role, prep |-> s.cfg.prep, chain |-> s.cfg.chain,
          restart |-> s.cfg.restart, faults |-> SetToSeq(s.cfg.faults),
          procs |-> [p \in {q \in Drivers : s.cfg.entry[q] # "-"} |-> s.cfg.entry[p]],
          steps |-> hist, final |-> s.st, deadlock |-> Unreturned(s) # {},
          waits |-> SetToSeq({[p |-> w.p, e |-> w.e, lock |-> w.lock] : w \in DeadlockClass(s)})]
CollectGate ==
  StuckGate /\ Key \notin TLCGet(4) =>
     /\ TLCSet(4, TLCGet(4) \cup {Key})
     /\ TLCSet(3, Append(TLCGet(3), Sched))
Collect == IF Mode = "fine" THEN CollectFine ELSE CollectGate
View == s

Post ==
  IF Mode = "fine"
  THEN JsonSerialize("model_" \o ToString(Part) \o ".json", [deadlocks |-> SetToSeq(TLCGet(1)), races |-> SetToSeq(TLCGet(2)), stuck_states |-> TLCGet(5), configs |-> Cardinality(Cfgs)])
  ELSE ndJsonSerialize("sched_" \o ToString(Part) \o ".ndjson", TLCGet(3))
=============================================================================
