------------------------------- MODULE RecordMC -------------------------------
(* Design-level model checking of Record.tla and export (spec -> code).        *)
(*  1. the covering set of records: every class of every field at least once   *)
(*     (one factor at a time around a base record), rotations mixing the       *)
(*     classes of all fields, and the full cross products of the fields that   *)
(*     interact (heights x anchor flag, LastErr x LastErrString x              *)
(*     CancelMessage x Cancel, presence of the seven nested messages,          *)
(*     Current x Type x Role); LemmaCodec is checked on every one of them.     *)
(*  2. the store as a state machine over two ids and NSeq records, explored    *)
(*     exhaustively (the history is not part of the state identity, so every   *)
(*     distinct state carries the shortest operation sequence reaching it);    *)
(*     P_C14_roundtrip / P_C14_response are invariants; the sequences are      *)
(*     exported and executed on the real bbolt store.                          *)
EXTENDS Record, Json
VARIABLES disk, fresh, written, resp, hist

\* ------------------------------------------------------------ covering set
Named(n, r) == [n |-> n, r |-> Norm(r)]

Ofat == UNION {{Named("ofat|" \o f \o "|" \o c, With(Base, f :> c)) : c \in ClassSet(f) \ {Base[f]}} : f \in FieldNames}
MaxClasses == Len(StateSeq)
RotRec(k, m) == [f \in FieldNames |-> IF f = "Data" THEN "present" ELSE Classes(f)[((FI[f] * m + k) % Len(Classes(f))) + 1]]
Rot == {Named("rot|" \o ToString(k) \o "|" \o ToString(m), RotRec(k, m)) : k \in 0..(MaxClasses - 1), m \in {1, 3}}
\* heights x anchor flag
G1 == {Named("g1|h=" \o h \o "|set=" \o s \o "|out=" \o o,
             With(Base, ("Data.StartingBlockHeight" :> h) @@ ("Data.StartingBlockHeightSet" :> s) @@ ("Data.OpeningTxBroadcasted.ScriptOut" :> o))) :
          h \in {"0", "1", "typ", "max"}, s \in {"false", "true"}, o \in {"0", "max"}}
\* error x persisted error text x cancel message x cancel object
G2 == {Named("g2|err=" \o e \o "|errstr=" \o es \o "|msg=" \o cm \o "|cancel=" \o cp \o "|cmsg=" \o cc,
             With(Base, ("Data.LastErr" :> e) @@ ("Data.LastErrString" :> es) @@ ("Data.CancelMessage" :> cm)
                         @@ ("Data.Cancel" :> cp) @@ ("Data.Cancel.Message" :> cc))) :
          e \in {"nil", "some"}, es \in {"empty", "short", "long", "badutf8"}, cm \in {"empty", "short", "alt", "long"},
          cp \in {"nil", "present"}, cc \in {"empty", "short"}}
\* presence of request / agreement / the later messages
MsgPtrs == <<"Data.SwapInRequest", "Data.SwapInAgreement", "Data.SwapOutRequest", "Data.SwapOutAgreement",
             "Data.OpeningTxBroadcasted", "Data.CoopClose", "Data.Cancel">>
Bits == {"nil", "present"}
G3 == {Named("g3|" \o b[1] \o "|" \o b[2] \o "|" \o b[3] \o "|" \o b[4] \o "|" \o b[5] \o "|" \o b[6] \o "|" \o b[7],
             With(Base, [f \in {MsgPtrs[i] : i \in 1..7} |-> b[CHOOSE i \in 1..7 : MsgPtrs[i] = f]])) :
          b \in [1..7 -> Bits]}
\* state x type x role (the continuation)
G4Rec(ty, ro, c) == Named("g4|type=" \o ty \o "|role=" \o ro \o "|cur=" \o c,
                          With(Base, ("Type" :> ty) @@ ("Role" :> ro) @@ ("Current" :> c) @@ ("Data.FSMState" :> c) @@ ("Data.Role" :> ro)))
\* every state name under each of the four defined (type, role) pairs; the undefined pairs with all names in the thorough tier only
G4(deep) == {G4Rec(ty, ro, c) : ty \in {"1", "2"}, ro \in {"1", "2"}, c \in StateNames \cup {"empty", "alt"}}
            \cup {G4Rec(tr[1], tr[2], c) : tr \in ({"0", "1", "2", "3"} \X {"0", "1", "2", "3"}) \ ({"1", "2"} \X {"1", "2"}),
                                          c \in IF deep THEN StateNames \cup {"empty", "alt"}
                                                 ELSE {"State_SwapInSender_AwaitClaimPayment", "State_SwapCanceled", "empty"}}

\* the records of the store model (two peers and a peer-less one; typical, error / anchor unset, mixed extremes, ...);
\* the model uses the first NSeq of them (3: every change, 5: thorough tier)
SeqRec == << Norm(Base),
             Norm(With(Base, ("Data.PeerNodeId" :> "alt") @@ ("Current" :> "State_SendCancel") @@ ("Data.StartingBlockHeight" :> "0")
                               @@ ("Data.StartingBlockHeightSet" :> "false") @@ ("Data.Cancel" :> "nil") @@ ("Data.LastErrString" :> "short")
                               @@ ("Data.CancelMessage" :> "short") @@ ("Data.SwapOutRequest" :> "nil") @@ ("Data.SwapOutAgreement" :> "nil"))),
             Norm(With(RotRec(5, 1), ("Data.PeerNodeId" :> "short") @@ ("Data.LastErr" :> "nil"))),
             Norm(With(RotRec(11, 3), ("Data.PeerNodeId" :> "empty") @@ ("Data.LastErr" :> "nil") @@ ("Data.Cancel" :> "present"))),
             Norm(With(Base, ("Data.PeerNodeId" :> "badutf8") @@ ("Type" :> "2") @@ ("Role" :> "2") @@ ("Current" :> "State_SwapOutReceiver_AwaitClaimInvoicePayment")
                               @@ ("Data.SwapInRequest" :> "nil") @@ ("Data.SwapInAgreement" :> "nil") @@ ("Data.SwapOutAgreement.Premium" :> "min")
                               @@ ("Data.SwapOutRequest.Amount" :> "max") @@ ("Data.PrivkeyBytes" :> "empty") @@ ("Data.Id" :> "nil"))) >>
SeqNames == <<"seq|1", "seq|2", "seq|3", "seq|4", "seq|5">>
CONSTANT NSeq

Cover(u) == Ofat \cup Rot \cup G1 \cup G2 \cup G3 \cup G4(NSeq > 3)
CoverSeq(u) == [i \in 1..5 |-> [n |-> SeqNames[i], r |-> SeqRec[i]]] \o SetToSeq(Cover(u))
Sparse(r) == [f \in {g \in FieldNames : r[g] # Base[g]} |-> r[f]]

CONSTANT Export
ASSUME \A c \in Cover(0) : LemmaCodec(c.r)
ASSUME \A i \in 1..5 : LemmaCodec(SeqRec[i])
\* P_C14_reason on the design: the reason survives the reload of every record (E1: the written record carries the error text)
ASSUME \A c \in Cover(0) : c.r["Data"] = "present" => ReasonSurvives(c.r)
ASSUME Export =>
    LET cs == CoverSeq(0) IN
    /\ JsonSerialize("fields.json", [fields |-> [i \in 1..NF |-> FT[i] @@ [classes |-> Classes(FT[i].name)]], base |-> Base])
    /\ ndJsonSerialize("records.ndjson", [i \in 1..Len(cs) |-> [n |-> cs[i].n, d |-> Sparse(cs[i].r)]])
    /\ ndJsonSerialize("docs.ndjson", [i \in 1..Len(cs) |-> [n |-> cs[i].n, doc |-> Encode(cs[i].r)]])

\* -------------------------------------------------------------- the store
O(op, id, r, peer) == [op |-> op, id |-> id, r |-> r, peer |-> peer]
PeerOfSeq(k) == Expected(SeqRec[k])["Data.PeerNodeId"]
Ops == {O(w, i, k, "") : w \in {"create", "update", "upsert", "rawput"}, i \in IdSet, k \in 1..NSeq}
       \cup {O("delete", i, 0, "") : i \in IdSet} \cup {O("get", i, 0, "") : i \in IdSet}
       \cup {O("reopen", "", 0, ""), O("listall", "", 0, "")}
       \cup {O("bypeer", "", 0, p) : p \in {"short", "alt", "empty"} \cup (IF NSeq > 3 THEN {"replaced", "badutf8"} ELSE {})}
IsWrite(o) == o.op \in {"create", "update", "upsert", "rawput"}
Val(d, o) == CASE o.op = "get" -> <<d[o.id]>>
               [] o.op = "listall" -> [i \in 1..Len(Listed(d, "", PeerOfSeq)) |-> <<Listed(d, "", PeerOfSeq)[i], d[Listed(d, "", PeerOfSeq)[i]]>>]
               [] o.op = "bypeer" -> [i \in 1..Len(Listed(d, o.peer, PeerOfSeq)) |-> <<Listed(d, o.peer, PeerOfSeq)[i], d[Listed(d, o.peer, PeerOfSeq)[i]]>>]
               [] OTHER -> << >>
Init == /\ disk = EmptyDisk /\ fresh = [i \in IdSet |-> FALSE] /\ written = EmptyDisk
        /\ resp = [op |-> O("reset", "", 0, ""), res |-> "ok", val |-> << >>] /\ hist = << >>
Next == \E o \in Ops :
          LET res == OpResult(disk, o) IN
          /\ disk' = OpDisk(disk, o)
          /\ resp' = [op |-> o, res |-> res, val |-> Val(disk, o)]
          /\ written' = IF IsWrite(o) /\ res = "ok" THEN [written EXCEPT ![o.id] = o.r]
                        ELSE IF o.op = "delete" THEN [written EXCEPT ![o.id] = NoRec] ELSE written
          /\ fresh' = IF IsWrite(o) /\ res = "ok" THEN [fresh EXCEPT ![o.id] = TRUE]
                      ELSE IF o.op = "delete" THEN [fresh EXCEPT ![o.id] = FALSE]
                      ELSE IF o.op = "reopen" THEN [i \in IdSet |-> FALSE] ELSE fresh
          /\ hist' = Append(hist, o)
View == <<disk, fresh, written, resp>>

\* what the store holds, decoded, is what was last written (also across reopen: fresh plays no role)
P_C14_roundtrip ==
    \A i \in IdSet : IF written[i] = NoRec THEN disk[i] = NoRec
                     ELSE disk[i] # NoRec /\ RecEq(Decode(Encode(SeqRec[disk[i]])), Expected(SeqRec[written[i]]))
\* what the last operation answered is the last written record(s)
P_C14_response ==
    CASE resp.op.op = "get" ->
            IF written[resp.op.id] = NoRec THEN resp.res = "notavailable"
            ELSE resp.res = "rec" /\ RecEq(Decode(Encode(SeqRec[resp.val[1]])), Expected(SeqRec[written[resp.op.id]]))
      [] resp.op.op \in {"listall", "bypeer"} ->
            LET want == {i \in IdSet : written[i] # NoRec /\ (resp.op.op = "listall" \/ Expected(SeqRec[written[i]])["Data.PeerNodeId"] = resp.op.peer)}
            IN /\ {resp.val[j][1] : j \in 1..Len(resp.val)} = want /\ Len(resp.val) = Cardinality(want)
               /\ \A j \in 1..Len(resp.val) : RecEq(Decode(Encode(SeqRec[resp.val[j][2]])), Expected(SeqRec[written[resp.val[j][1]]]))
      [] OTHER -> TRUE

Flush == /\ ndJsonSerialize("sched_" \o ToString(TLCGet(2)) \o ".ndjson", TLCGet(1))
         /\ TLCSet(2, TLCGet(2) + 1)
         /\ TLCSet(1, << >>)
ExportInv == Export => /\ TLCSet(1, Append(TLCGet(1), [ops |-> hist]))
                       /\ (Len(TLCGet(1)) >= 2000 => Flush)
ExportDone == Export => Flush
ASSUME TLCSet(1, << >>) /\ TLCSet(2, 0)
===============================================================================
