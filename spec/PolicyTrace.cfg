CONSTANTS
  Valid = {"A", "B", "C"}
INIT Init
NEXT Next
CHECK_DEADLOCK FALSE
