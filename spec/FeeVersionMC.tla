----------------------------- MODULE FeeVersionMC -----------------------------
(* Design-level check + case export (specification -> code direction).        *)
EXTENDS FeeVersion, Json
AllCases == FeeCases \cup FloorStrings \cup CmpCases
ASSUME ndJsonSerialize("cases.ndjson", SetToSeq(AllCases))
ASSUME LemmaRateFloor /\ LemmaFallback /\ LemmaReflexive /\ LemmaTotal /\ LemmaTransitive /\ LemmaAntisym
VARIABLE c
Init == c \in AllCases
Next == UNCHANGED c
\* per-case sanity of the specification functions
InvCase ==
    /\ c.kind = "fee" => SpecFee(SpecRate(c.err, c.est, c.fallback, c.floor), c.size) >= SpecFee(c.floor, c.size)
    /\ c.kind = "cmp" => (SpecGE(c.ta, c.tb) \/ SpecGE(c.tb, c.ta))
===============================================================================
