----------------------------- MODULE PeerSwapCfgs -----------------------------
(* GENERATED (engines/swapfsm_cfgs.py, tier quick): configurations of the design model. *)
CONFIGS == {
  [name |-> "out_sender_btc", chain |-> "btc", inits |-> {"swapout"}, maxsteps |-> 4, maxfaults |-> 0, maxcrashes |-> 0, maxswaps |-> 1, blocks |-> {3, 504}, adversary |-> FALSE],
  [name |-> "out_sender_lbtc", chain |-> "lbtc", inits |-> {"swapout"}, maxsteps |-> 4, maxfaults |-> 0, maxcrashes |-> 0, maxswaps |-> 1, blocks |-> {2, 60}, adversary |-> FALSE],
  [name |-> "out_sender_btc_fault", chain |-> "btc", inits |-> {"swapout"}, maxsteps |-> 4, maxfaults |-> 1, maxcrashes |-> 0, maxswaps |-> 1, blocks |-> {3, 504}, adversary |-> FALSE],
  [name |-> "out_sender_btc_crash", chain |-> "btc", inits |-> {"swapout"}, maxsteps |-> 4, maxfaults |-> 0, maxcrashes |-> 1, maxswaps |-> 1, blocks |-> {3, 504}, adversary |-> FALSE],
  [name |-> "out_sender_btc_adv", chain |-> "btc", inits |-> {"swapout"}, maxsteps |-> 3, maxfaults |-> 0, maxcrashes |-> 0, maxswaps |-> 2, blocks |-> {3, 504}, adversary |-> TRUE],
  [name |-> "in_sender_btc", chain |-> "btc", inits |-> {"swapin"}, maxsteps |-> 4, maxfaults |-> 0, maxcrashes |-> 0, maxswaps |-> 1, blocks |-> {1, 1008}, adversary |-> FALSE],
  [name |-> "in_sender_lbtc", chain |-> "lbtc", inits |-> {"swapin"}, maxsteps |-> 4, maxfaults |-> 0, maxcrashes |-> 0, maxswaps |-> 1, blocks |-> {1, 10080}, adversary |-> FALSE],
  [name |-> "in_sender_btc_fault", chain |-> "btc", inits |-> {"swapin"}, maxsteps |-> 4, maxfaults |-> 1, maxcrashes |-> 0, maxswaps |-> 1, blocks |-> {1, 1008}, adversary |-> FALSE],
  [name |-> "in_sender_btc_crash", chain |-> "btc", inits |-> {"swapin"}, maxsteps |-> 4, maxfaults |-> 0, maxcrashes |-> 1, maxswaps |-> 1, blocks |-> {1, 1008}, adversary |-> FALSE],
  [name |-> "in_sender_btc_adv", chain |-> "btc", inits |-> {"swapin"}, maxsteps |-> 3, maxfaults |-> 0, maxcrashes |-> 0, maxswaps |-> 2, blocks |-> {1, 1008}, adversary |-> TRUE],
  [name |-> "out_receiver_btc", chain |-> "btc", inits |-> {"swap_out_request"}, maxsteps |-> 4, maxfaults |-> 0, maxcrashes |-> 0, maxswaps |-> 1, blocks |-> {1, 1008}, adversary |-> FALSE],
  [name |-> "out_receiver_lbtc", chain |-> "lbtc", inits |-> {"swap_out_request"}, maxsteps |-> 4, maxfaults |-> 0, maxcrashes |-> 0, maxswaps |-> 1, blocks |-> {1, 10080}, adversary |-> FALSE],
  [name |-> "out_receiver_btc_fault", chain |-> "btc", inits |-> {"swap_out_request"}, maxsteps |-> 4, maxfaults |-> 1, maxcrashes |-> 0, maxswaps |-> 1, blocks |-> {1, 1008}, adversary |-> FALSE],
  [name |-> "out_receiver_btc_crash", chain |-> "btc", inits |-> {"swap_out_request"}, maxsteps |-> 4, maxfaults |-> 0, maxcrashes |-> 1, maxswaps |-> 1, blocks |-> {1, 1008}, adversary |-> FALSE],
  [name |-> "out_receiver_btc_adv", chain |-> "btc", inits |-> {"swap_out_request"}, maxsteps |-> 3, maxfaults |-> 0, maxcrashes |-> 0, maxswaps |-> 2, blocks |-> {1, 1008}, adversary |-> TRUE],
  [name |-> "in_receiver_btc", chain |-> "btc", inits |-> {"swap_in_request"}, maxsteps |-> 4, maxfaults |-> 0, maxcrashes |-> 0, maxswaps |-> 1, blocks |-> {3, 504}, adversary |-> FALSE],
  [name |-> "in_receiver_lbtc", chain |-> "lbtc", inits |-> {"swap_in_request"}, maxsteps |-> 4, maxfaults |-> 0, maxcrashes |-> 0, maxswaps |-> 1, blocks |-> {2, 60}, adversary |-> FALSE],
  [name |-> "in_receiver_btc_fault", chain |-> "btc", inits |-> {"swap_in_request"}, maxsteps |-> 4, maxfaults |-> 1, maxcrashes |-> 0, maxswaps |-> 1, blocks |-> {3, 504}, adversary |-> FALSE],
  [name |-> "in_receiver_btc_crash", chain |-> "btc", inits |-> {"swap_in_request"}, maxsteps |-> 4, maxfaults |-> 0, maxcrashes |-> 1, maxswaps |-> 1, blocks |-> {3, 504}, adversary |-> FALSE],
  [name |-> "in_receiver_btc_adv", chain |-> "btc", inits |-> {"swap_in_request"}, maxsteps |-> 3, maxfaults |-> 0, maxcrashes |-> 0, maxswaps |-> 2, blocks |-> {3, 504}, adversary |-> TRUE],
  [name |-> "mixed_btc_adv", chain |-> "btc", inits |-> {"swapout", "swap_in_request", "swapin", "swap_out_request"}, maxsteps |-> 3, maxfaults |-> 0, maxcrashes |-> 0, maxswaps |-> 2, blocks |-> {3}, adversary |-> TRUE]}
===============================================================================
