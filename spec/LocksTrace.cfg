CONSTANTS
  FixAsyncCb = FALSE
  FixCbOutsideLock = FALSE
  FixKickoff = FALSE
INIT Init
NEXT Next
CHECK_DEADLOCK FALSE
