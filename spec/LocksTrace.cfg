CONSTANTS
  FixAsyncCb = TRUE
  FixCbRpc = TRUE
  FixCbEl = TRUE
  FixKickoff = FALSE
  FixDispatch = TRUE
  FixPolicy = TRUE
  FixResend = TRUE
  FixRecover = TRUE
INIT Init
NEXT Next
CHECK_DEADLOCK FALSE
