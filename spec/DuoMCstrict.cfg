INIT Init
NEXT Next
VIEW View
CHECK_DEADLOCK FALSE
INVARIANT P_D1_Atomicity
INVARIANT P_D2_Termination
INVARIANT P_D3_Agreement
INVARIANT P_D4_NoEarlySecret
INVARIANT P_D5_Conformance
PROPERTY P_D4_CoopCloseEntersQueue
