------------------------------ MODULE RecordTrace ------------------------------
(* Code -> specification. Every line of trace.ndjson is one operation executed  *)
(* on the REAL bbolt swap store with REAL swap.SwapStateMachine values          *)
(* (harness/cmd/record). The observer replays the operation on the store model  *)
(* of Record.tla (OpResult / OpDisk / Listed) and judges the answer with the    *)
(* operators of Record.tla: Expected (P_C14_roundtrip, P_C14_format for records *)
(* put in the persisted format), the cancel reason (P_C14_reason) and Cont      *)
(* (P_C14_continuation).                                                        *)
(* Signatures: C14|field-not-restored|<field>|<class written>                   *)
(*             C14|continuation-differs|type=..|role=..|current=..              *)
(*             C14|store|<op>|got=..|want=..      (result code / listing)       *)
(*             DRIFT|...   the code differs from its description without a      *)
(*                         property violation (machinery error, not a verdict)  *)
EXTENDS Record, Json
RecLines == ndJsonDeserialize("records.ndjson")
NR == Len(RecLines)
Recs == [i \in 1..NR |-> LET d == RecLines[i].d IN [f \in FieldNames |-> IF f \in DOMAIN d THEN d[f] ELSE Base[f]]]
Exp == [i \in 1..NR |-> Expected(Recs[i])]
XD == [i \in 1..NR |-> ExpDiff(Recs[i])]
NVis == [i \in 1..NR |-> Cardinality({f \in FieldNames : Recs[i][f] # "na"})]
PeerOf(k) == Exp[k]["Data.PeerNodeId"]
HasBadUtf8 == [i \in 1..NR |-> \E f \in FieldNames : Recs[i][f] = "badutf8"]
Trace == ndJsonDeserialize("trace.ndjson")

VARIABLES l, disk, viol, sigs, stat
vars == <<l, disk, viol, sigs, stat>>
Stat0 == [ops |-> 0, records |-> 0, fields |-> 0, raw |-> 0, lists |-> 0, cont |-> 0, enc |-> 0, probes |-> << >>, traces |-> 0]
Init == l = 1 /\ disk = EmptyDisk /\ viol = {} /\ sigs = {} /\ stat = Stat0

RECURSIVE JoinGT(_)
JoinGT(s) == IF Len(s) = 0 THEN "" ELSE IF Len(s) = 1 THEN s[1] ELSE s[1] \o ">" \o JoinGT(Tail(s))
RECURSIVE JoinIds(_)
JoinIds(s) == IF Len(s) = 0 THEN "" ELSE s[1] \o JoinIds(Tail(s))
B2S(b) == IF b THEN "true" ELSE "false"
Has(e, k) == k \in DOMAIN e
\* the fields GetCancelMessage reads (Cancel.Message only when Cancel is set)
ReasonClass(r) == "cancel=" \o r["Data.Cancel"] \o ",lasterr=" \o r["Data.LastErr"] \o ",cancelmessage=" \o r["Data.CancelMessage"]
                  \o (IF r["Data.Cancel"] = "present" THEN ",cancel.message=" \o r["Data.Cancel.Message"] ELSE "")

\* E2 applies to the reason when one of the texts it can come from holds invalid UTF-8
ReasonHasBadUtf8(r) == \E f \in {"Data.Cancel.Message", "Data.LastErrString", "Data.CancelMessage"} : r[f] = "badutf8"
\* one returned record o = [r, d, je, rq(, cq, ct, ck, ca, cf)] against record k of the model
ObsBad(o, k, withCont) ==
    IF o.r # k THEN {"C14|store|returned-record-is-not-the-last-written|got=" \o ToString(o.r) \o "|want=" \o ToString(k)}
    ELSE
      LET d == o.d
          got(f) == IF f \in DOMAIN d THEN d[f] ELSE Recs[k][f]
          look == DOMAIN d \cup DOMAIN XD[k]
          badf == {f \in look : Recs[k][f] # "na" /\ ~SameVal(Kind[f], got(f), Exp[k][f])}
          flip == \E f \in DOMAIN d : Kind[f] = "bytes"
      IN {"C14|field-not-restored|" \o f \o "|" \o Recs[k][f] : f \in badf}
         \cup (IF ~o.rq /\ ~(Has(o, "rqn") /\ o.rqn /\ ReasonHasBadUtf8(Recs[k]))     \* E2: same reason as JSON text
               THEN {"C14|field-not-restored|cancel_reason|" \o ReasonClass(Recs[k])} ELSE {})
         \cup (IF ~o.je /\ ~HasBadUtf8[k] /\ ~flip /\ badf = {} /\ DOMAIN XD[k] \subseteq {"Data.LastErr"}
               THEN {"C14|field-not-restored|json-of-record|" \o RecLines[k].n} ELSE {})
         \cup (IF withCont THEN
                 LET c == Cont(Exp[k])
                     who == "type=" \o Recs[k]["Type"] \o "|role=" \o Recs[k]["Role"] \o "|current=" \o Recs[k]["Current"]
                 IN (IF ~o.cq THEN {"C14|continuation-differs|" \o who} ELSE {})
                    \cup (IF o.cq /\ (o.ct # c.table \/ o.ck # c.known \/ o.ca # JoinGT(c.action) \/ o.cf # c.fail)
                          THEN {"DRIFT|continuation|" \o who \o "|got=" \o o.ct \o "/" \o o.ca} ELSE {})
               ELSE {})

Bad(e) ==
    LET o == [op |-> e.op, id |-> IF Has(e, "id") THEN e.id ELSE "", r |-> IF Has(e, "r") THEN e.r ELSE 0,
              peer |-> IF Has(e, "peer") THEN e.peer ELSE ""]
        want == OpResult(disk, o)
    IN
    CASE e.op = "probe" -> {}
      [] e.op = "putnil" -> IF e.res # "refused" THEN {"C14|store|putnil|got=" \o e.res \o "|want=refused"} ELSE {}
      [] e.op = "enc" ->
            IF e.res # "doc" THEN {"DRIFT|format|encoder-failed|" \o RecLines[e.r].n}
            ELSE LET ks == {e.keys[i] : i \in 1..Len(e.keys)}
                     wk == DOMAIN Encode(Recs[e.r])
                 IN {"DRIFT|format|written-but-not-in-the-format|" \o f : f \in ks \ wk}
                    \cup {"DRIFT|format|in-the-format-but-not-written|" \o f : f \in wk \ ks}
      [] e.res # want -> {"C14|store|" \o e.op \o "|got=" \o e.res \o "|want=" \o want}
      [] e.op = "get" /\ want = "rec" -> ObsBad(e, disk[o.id], TRUE)
      [] e.op \in {"listall", "bypeer"} ->
            LET ids == Listed(disk, o.peer, PeerOf)
                gotids == [i \in 1..Len(e.items) |-> e.items[i].id]
            IN IF gotids # ids THEN {"C14|store|" \o e.op \o "|got=" \o JoinIds(gotids) \o "|want=" \o JoinIds(ids)}
               ELSE UNION {ObsBad(e.items[i], disk[ids[i]], FALSE) : i \in 1..Len(ids)}
      [] e.op \in {"create", "update", "upsert"} /\ Has(e, "mut") ->
            \* E1: the store makes LastErrString of the record it is given current; nothing else may change
            {"C14|store|" \o e.op \o "|changes-the-record-it-is-given|" \o f :
                f \in {g \in DOMAIN e.mut : ~(g = "Data.LastErrString" /\ e.mut[g] = "errtext" /\ Recs[e.r]["Data.LastErr"] = "some")}}
      [] OTHER -> {}

NObs(e) == CASE e.op = "get" /\ e.res = "rec" -> 1
             [] e.op \in {"listall", "bypeer"} /\ e.res = "list" -> Len(e.items)
             [] OTHER -> 0
NFields(e) == CASE e.op = "get" /\ e.res = "rec" /\ e.r \in 1..NR -> NVis[e.r]
               [] e.op \in {"listall", "bypeer"} /\ e.res = "list" ->
                     LET RECURSIVE S(_)
                         S(i) == IF i = 0 THEN 0 ELSE S(i - 1) + (IF e.items[i].r \in 1..NR THEN NVis[e.items[i].r] ELSE 0)
                     IN S(Len(e.items))
               [] OTHER -> 0

Step == /\ l <= Len(Trace)
        /\ LET e == Trace[l]
               o == [op |-> e.op, id |-> IF Has(e, "id") THEN e.id ELSE "", r |-> IF Has(e, "r") THEN e.r ELSE 0,
                     peer |-> IF Has(e, "peer") THEN e.peer ELSE ""]
               b == Bad(e)
               new == {s \in b : s \notin sigs}
           IN /\ viol' = viol \cup {[sig |-> s, line |-> l] : s \in new}
              /\ sigs' = sigs \cup new
              /\ disk' = IF e.op \in {"probe", "putnil", "enc"} THEN disk
                         ELSE IF e.op \in {"create", "update", "upsert", "rawput", "delete"} /\ e.res # OpResult(disk, o) THEN
                              \* follow the real store after a wrong answer (flagged above): later lines are judged on their own
                              (IF e.res = "ok" THEN OpDisk(disk, [o EXCEPT !.op = IF o.op = "delete" THEN "delete" ELSE "upsert"]) ELSE disk)
                         ELSE OpDisk(disk, o)
              /\ stat' = [stat EXCEPT !.ops = @ + 1, !.records = @ + NObs(e), !.fields = @ + NFields(e),
                                      !.raw = @ + (IF e.op = "rawput" THEN 1 ELSE 0),
                                      !.lists = @ + (IF e.op \in {"listall", "bypeer"} THEN 1 ELSE 0),
                                      !.cont = @ + (IF e.op = "get" /\ e.res = "rec" THEN 1 ELSE 0),
                                      !.enc = @ + (IF e.op = "enc" THEN 1 ELSE 0),
                                      !.traces = @ + (IF e.op = "reset" THEN 1 ELSE 0),
                                      !.probes = IF e.op = "probe" THEN Append(@, [what |-> e.what, res |-> e.res]) ELSE @]
        /\ l' = l + 1
Finish == /\ l = Len(Trace) + 1
          /\ JsonSerialize("verdict.json", [n |-> Len(Trace), viol |-> SetToSeq(viol), stat |-> stat, records |-> NR])
          /\ l' = l + 1 /\ UNCHANGED <<disk, viol, sigs, stat>>
Next == Step \/ Finish
===============================================================================
