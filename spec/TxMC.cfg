INIT Init
NEXT Next
INVARIANT InvCase
CHECK_DEADLOCK FALSE
