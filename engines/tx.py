"""Engine `tx`: transaction-level properties.

  C01V  validator clause of C01: which opening transactions the REAL validators accept
        (onchain.BitcoinOnChain.ValidateTx / onchain.LiquidOnChain.ValidateTx)
  C03   claim / coop / CSV-refund transactions the node builds are valid and pay it
  C08   the announcement (txid, vout, blinding key) describes the broadcast opening tx
        (the invoice clauses of C08 are checked by the FSM engine)

Pipeline (reference pattern of engines/feeversion.py):
  spec/TxMC.tla      TLC checks the lemmas of TxShape/SpendTx on the whole case space and exports it
  harness/cmd/tx     every selected case is executed on the real code, one NDJSON line per observation
  spec/TxTrace.tla   TLC validates every line against P_C01V / P_C03 / P_C08 (observer)
Only a violation on a line observed on the real code is reported as VIOLATION."""
import json
import os
import random
import time

import vp

KIND = {"C01V": "v", "C01": "v", "C03": "s", "C08": "o"}
VERDICT_PROP = {"C01V": "C01", "C01": "C01", "C03": "C03", "C08": "C08"}
SIG_PREFIX = {"C01V": "C01|", "C01": "C01|", "C03": "C03|", "C08": "C08|"}
QUICK_LBTC_TAKER_SPENDS = 1200     # Liquid taker spends in the quick tier (each ~0.15 s CPU: blinding, proofs)


def _select(cases_path, prop, tier, rnd):
    """Cases of this property; the quick tier keeps a covering subset where the full space is too slow."""
    kind = KIND[prop]
    sel, pool = [], []
    n_all = 0
    with open(cases_path) as f:
        for ln in f:
            if not ln.strip():
                continue
            c = json.loads(ln)
            if c["kind"] != kind:
                continue
            n_all += 1
            if prop == "C03" and tier == "quick" and c["chain"] == "lbtc" and c["side"] == "taker" and len(c["outs"]) > 1:
                pool.append(ln)
            else:
                sel.append(ln)
    if pool:
        rnd.shuffle(pool)
        sel += pool[:QUICK_LBTC_TAKER_SPENDS]
    rnd.shuffle(sel)       # spreads the expensive cases over the workers; the trace keeps this order
    return sel, n_all


def _shape(c):
    return ",".join("%s.%s.%s.%s" % (o["amt"], o["asset"], o["blind"], o["script"]) for o in c["outs"])


def _coverage_from_trace(lines, prop):
    cov = {}
    if prop in ("C01V", "C01"):
        shapes = {(e["chain"], _shape(e)) for e in lines}
        cov["distinct_nontrivial"] = len(shapes)
        cov["rule"] = ("every abstract opening transaction of TxShape.tla (one free output over the full class cross product "
                       "amount x asset x blinding x script, plus up to two fillers: change, change = amount, a second good output, "
                       "good script with amount-1, exact amount with a foreign key; free output at every position) built as a real "
                       "Bitcoin MsgTx / real blinded Elements transaction for each parameter set and given to the real ValidateTx; "
                       "distinct = distinct (chain, shape)")
        by = {}
        for e in lines:
            k = "%s/%s" % (e["chain"], "accept" if e["accept"] else "reject")
            by[k] = by.get(k, 0) + 1
        cov["verdicts_by_chain"] = by
        cons = sorted({"%s:%s" % (e["chain"], _shape(e)) for e in lines
                       if not e["accept"] and any(o["amt"] == "exact" and o["asset"] == "policy" and o["blind"] in ("ok", "explicit")
                                                  and o["script"] == "good" for o in e["outs"])})
        cov["conservative_rejections"] = len(cons)
        cov["conservative_rejections_sample"] = cons[:12]
    elif prop == "C03":
        built = [e for e in lines if e["built"] and (e["side"] != "taker" or e["vaccept"])]
        cov["distinct_nontrivial"] = len({(e["chain"], e["backend"], e["spend"], e["fee"], _shape(e)) for e in built})
        cov["rule"] = ("accepted / honest opening shape x spend kind x back-end x fee-estimator answer; the real builder runs behind its "
                       "real adapter, the transaction handed to the broadcast interface is measured (script engine with the real "
                       "prevout, sighash + ECDSA, unblinding, proofs); distinct = distinct built (chain, back-end, kind, fee class, shape)")
        by = {}
        for e in built:
            k = "%s/%s" % (e["backend"], e["spend"])
            by[k] = by.get(k, 0) + 1
        cov["built_by_backend_kind"] = by
        cov["taker_cases_skipped_validator_rejects"] = sum(1 for e in lines if e["side"] == "taker" and not e["vaccept"])
        cov["not_built"] = sum(1 for e in lines if e["run"] and not e["built"])
        cov["not_built_by_fee_class"] = {}
        for e in lines:
            if e["run"] and not e["built"]:
                cov["not_built_by_fee_class"][e["fee"]] = cov["not_built_by_fee_class"].get(e["fee"], 0) + 1
    else:
        built = [e for e in lines if e["built"]]
        cov["distinct_nontrivial"] = len({(e["backend"], e["ver"], e["nin"], e["inkind"], e["ps"], _shape(e)) for e in built})
        cov["rule"] = ("honest funding result (swap output at index 0/1/2, 0-2 change outputs before/after, change = amount, 1-3 inputs of kind "
                       "p2wkh / nested p2sh-p2wkh / legacy p2pkh - the latter two change the txid when signed) "
                       "x back-end (CLN adapter over a fake lightningd socket for two lightningd versions, LND adapter over fake gRPC "
                       "clients, LiquidOnChain over the real ElementsRpcWallet over a fake elementsd) x parameter set; distinct = "
                       "distinct built (back-end, version, inputs, parameter set, shape)")
        by = {}
        for e in built:
            by[e["backend"]] = by.get(e["backend"], 0) + 1
        cov["built_by_backend"] = by
        cov["returned_hex_differs_from_broadcast"] = sum(1 for e in built if not e["hexok"])
        cov["built_with_scriptsig_inputs"] = sum(1 for e in built if e.get("scriptsig"))
    return cov


ASSUME = {
    "C01V": ["explicit (unblinded) Liquid outputs in the policy asset count as valid (C01 does not require confidentiality)",
             "range-proof / ECDH primitives of go-elements + secp256k1-zkp are trusted (used both by the code and to build the inputs)",
             "the announced output index is not an input of ValidateTx; its use is judged by the FSM engine"],
    "C03": ["btcd txscript engine (consensus flags) and go-elements sighash / secp256k1-zkp proofs are trusted oracles",
            "Liquid script evaluation is the three-path evaluator of harness/tx/liquid.go on ECDSA-verified witness elements (no Elements script engine offline)",
            "BIP68 is applied by the trace specification to the observed sequence for depths CSV-1, CSV, CSV+1",
            "fee reading: Bitcoin value = amount - 200 - C30 fee(rate, stripped size + 74 | 250 for coop); Liquid value = amount - wallet.GetFee answer (500 on error)",
            "node back-ends are simulated at the RPC boundary (lightningd unix-socket JSON-RPC, bitcoind HTTP JSON-RPC, lnd gRPC client interfaces, elementsd wallet.RpcClient); LWK wallet not run",
            "fee answers that exceed the swap amount are not part of the case space"],
    "C08": ["invoice clauses of C08 (amount, hash, expiry, final CLTV) are checked by the FSM engine, not here",
            "node back-ends simulated at the RPC boundary; the LWK wallet (lwk.LWKRpcWallet) is not run: LiquidOnChain.CreateOpeningTransaction is wallet independent",
            "the message construction in swap/actions.go (copying txid / vout / blinding key into the message) is covered by the FSM engine"],
}
ASSUME["C01"] = ASSUME["C01V"]


def run(prop, tier):
    if prop not in KIND:
        raise vp.Fatal("engine tx: unknown property %s" % prop)
    t0 = time.time()
    vprop = VERDICT_PROP[prop]
    wd = vp.workdir("tx-" + prop)
    try:
        sd = vp.spec_copy(wd)
        binp = vp.build_harness("./cmd/tx")
        mc = vp.tlc("TxMC", "TxMC.cfg", sd, workers=4, timeout=900)
        if not mc["ok"]:
            raise vp.Fatal("the specification's own lemmas fail: %s" % mc["violated"])
        design = json.load(open(os.path.join(sd, "design.json")))
        rnd = random.Random(vp.seed())
        sel, n_all = _select(os.path.join(sd, "cases.ndjson"), prop, tier, rnd)
        if not sel:
            raise vp.Fatal("no cases selected")
        cases = os.path.join(sd, "cases_sel.ndjson")
        with open(cases, "w") as f:
            f.writelines(sel)
        trace = os.path.join(sd, "trace.ndjson")
        thorough = tier == "thorough"
        cmd = [binp, "-cases", cases, "-out", trace, "-seed", str(vp.seed()), "-work", wd,
               "-nps-btc", "16" if thorough else "4", "-nps-lbtc", "6" if thorough else "1",
               "-nps-o", "6" if thorough else "2"]
        th = time.time()
        p = vp.run(cmd, timeout=3000, check=False)
        if p.returncode != 0:
            raise vp.Fatal("harness failed (rc=%d):\n%s" % (p.returncode, (p.stdout or "")[-4000:]))
        vp.log("harness: %d cases in %.1fs" % (len(sel), time.time() - th))
        v = vp.validate_trace("TxTrace", "TxTrace.cfg", sd, trace, timeout=3000)
        stat = v["stat"]
        if stat["machinery"]:
            raise vp.Fatal("harness self-check failed on %d lines (simulated wallet did not produce the scheduled funding result)"
                           % stat["machinery"])
        lines = [json.loads(x) for x in open(trace)]
        # vacuity guards: the run must have exercised the real code
        if prop in ("C01V", "C01") and (stat["v_accept"] == 0 or stat["v"] == stat["v_accept"]):
            raise vp.Fatal("validator accepted %d of %d cases: inputs are not discriminating" % (stat["v_accept"], stat["v"]))
        if prop == "C03":
            seen = {(e["backend"], e["spend"]) for e in lines if e["built"]}
            want = {(b, s) for b in ("cln", "lnd", "liquid") for s in ("preimage", "csv", "coop")}
            if want - seen:
                raise vp.Fatal("no spend was built for %s" % sorted(want - seen))
        if prop == "C08" and stat["o_built"] != stat["o"]:
            raise vp.Fatal("opening path failed on %d of %d cases" % (stat["o"] - stat["o_built"], stat["o"]))

        ver = vp.Verdicts(vprop)
        for rec in v["viol"]:
            sig, ln = rec["sig"], int(rec["line"])
            if not sig.startswith(SIG_PREFIX[prop]):
                raise vp.Fatal("unexpected signature %s" % sig)
            e = lines[ln - 1]
            case = {k: e[k] for k in e if k in ("kind", "chain", "backend", "side", "outs", "spend", "fee", "nin", "ver", "inkind")}
            rp = vp.save_replay(vprop, "tx-%s.json" % vp.sig_id(sig), dict(
                signature=sig, observation=e, case=case, seed=vp.seed(),
                how="write `case` as one line to c.ndjson; harness/bin/tx -cases c.ndjson -out /dev/stdout -seed %d -dump "
                    "(prints the observation with the transaction hex); ./check %s re-judges it" % (vp.seed(), vprop)))
            ver.add(sig, rp)
        rc = ver.report()
        # the design model of the (repaired) code predicts every verdict / selected output / announced index:
        # a mismatch without a property violation is drift of the code from its description, not a pass
        drift = stat["v_drift"] + stat["s_drift"] + stat["o_drift"] + stat["v_err_ok"]
        if rc == 0 and drift:
            raise vp.Fatal("drift: %d observations differ from the design model of TxShape/SpendTx "
                           "(validator verdict %d, ok-with-error %d, spend built/outpoint %d, opening built/announced index %d); "
                           "no property violated - update the specification or the code" %
                           (drift, stat["v_drift"], stat["v_err_ok"], stat["s_drift"], stat["o_drift"]))

        smp = list(lines)
        random.Random(vp.seed()).shuffle(smp)
        cov = dict(states=mc["distinct"], transitions=mc["generated"],
                   traces_validated_against_impl=v["n"], samples=smp[:4],
                   evaluations=v["n"], exhaustive=(len(sel) == n_all),
                   cases_of_property_in_spec=n_all, cases_executed=len(sel),
                   design=dict((k, (len(x) if isinstance(x, list) else x)) for k, x in design.items()),
                   trace_stat=stat,
                   spec_lemmas="LemmaDesignSound LemmaDesignPick LemmaHonestValid LemmaHonestSub LemmaTakerOutpoint "
                               "LemmaNoSuspects LemmaDupHandled LemmaFeePositive LemmaCsvExact LemmaWitness (ASSUME) + InvCase (invariant), TLC",
                   trace_spec="TxTrace: P_C01V / P_C03 / P_C08 of TxShape.tla / SpendTx.tla on every line",
                   known_findings=sorted(ver.known), new_violations=sorted(ver.new))
        cov.update(_coverage_from_trace(lines, prop))
        if prop == "C03":
            cov["design_suspects_spend_btc"] = design["suspects_spend_btc"]
        if prop == "C08":
            cov["design_suspects_announce"] = dict(btc=design["suspects_ann_btc"], lbtc=design["suspects_ann_lbtc"])
        vp.write_evidence(prop, tier, "model_checking", cov, time.time() - t0, len(ver.new), assumptions=ASSUME[prop])
        return rc
    finally:
        vp.cleanup(wd)


def run_validator(tier):
    """For the C01 engine: runs the validator clause and returns (exit code, evidence dict of C01V)."""
    rc = run("C01V", tier)
    return rc, json.load(open(os.path.join(vp.EVID, "C01V.json")))
