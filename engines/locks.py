"""C18 (event handling never deadlocks) and C19 (no data races).

spec/Locks.tla transcribes the concurrent entry points of the node as programs
over lock operations, gates (calls into external services), shared-variable
accesses and callbacks. TLC
  * explores every interleaving (instruction granularity) of pairs / triples of
    entry points x prepared swap state x chain depth x watcher implementation
    and collects the deadlock classes and the predicted data races,
  * checks the repaired design (three proposed fixes) deadlock-free,
  * exports, at gate granularity, one schedule per (configuration, outcome,
    first mover).
The Go harness (harness/locks, cmd/locks) executes every schedule on the REAL
swap service with the REAL watchers, gates acting as the scheduler, with a
watchdog (goroutine dump) at the end; LocksTrace.tla validates the traces
(start/return matching = C18 verdict; replay on the specification =
conformance). For C19 the same entry points are stressed pairwise under the Go
race detector; each report is a violation observed on the real code.
"""
import concurrent.futures as cf
import glob
import hashlib
import json
import os
import random
import re
import shutil
import subprocess
import time

import vp

NPAR = max(2, min(8, vp.NCPU // 2))
FIXES = ["FixAsyncCb", "FixCbRpc", "FixCbEl", "FixKickoff", "FixDispatch", "FixPolicy", "FixResend", "FixRecover"]


# FixKickoff (non-blocking first height in AddWaitForConfirmationTx) is a design variant that was not needed: once the
# dispatcher reads observerLoopList under the watcher lock (FixDispatch) it can not reach a loop before its kick-off.
NOT_ADOPTED = {"FixKickoff"}


def fixes(old=False):
    """The Fix constants of Locks.tla. The specification transcribes the code WITH the six repairs (all TRUE).
    old=True: the code before the repairs (regression schedules). VERIF_LOCKS_UNFIXED=FixCbRpc,... (or `all`)
    makes the main model follow a tree in which some repairs are absent."""
    un = os.environ.get("VERIF_LOCKS_UNFIXED", "")
    off = set(FIXES) if (old or un == "all") else ({x.strip() for x in un.split(",") if x.strip()} | NOT_ADOPTED)
    return {k: (k not in off) for k in FIXES}


def consts(fx):
    return "".join("  %s = %s\n" % (k, "TRUE" if fx[k] else "FALSE") for k in FIXES)


# ------------------------------------------------------------------ TLC side

def _cfg(sd, name, mode, tier, part, parts, fx=None, extra_inv=()):
    txt = "CONSTANTS\n" + consts(fx or fixes())
    txt += '  Mode = "%s"\n  Tier = "%s"\n  Part = %d\n  Parts = %d\n' % (mode, tier, part, parts)
    txt += "INIT Init\nNEXT Next\nINVARIANT InvBounded\nINVARIANT Collect\n"
    for i in extra_inv:
        txt += "INVARIANT %s\n" % i
    txt += "VIEW View\nPOSTCONDITION Post\nCHECK_DEADLOCK FALSE\n"
    open(os.path.join(sd, name), "w").write(txt)


def _tlc_parts(sd, mode, tier, parts, fx=None, tag=""):
    """Collecting runs use TLC registers, which are per worker: one worker per
    part, the parts in parallel processes (each in its own copy of the spec dir)."""
    def one(i):
        d = os.path.join(sd, "p-%s%s-%d" % (mode, tag, i))
        os.makedirs(d, exist_ok=True)
        for f in glob.glob(os.path.join(sd, "Locks*.tla")):
            shutil.copy(f, d)
        _cfg(d, "mc.cfg", mode, tier, i, parts, fx=fx)
        r = vp.tlc("LocksMC", "mc.cfg", d, workers=1, timeout=3000, heap="3g", quiet=True)
        if not r["ok"]:
            raise vp.Fatal("Locks.tla (%s, part %d): %s\n%s" % (mode, i, r["violated"], r["out"][-2000:]))
        return d, r
    with cf.ThreadPoolExecutor(parts) as ex:
        return list(ex.map(one, range(parts)))


def spec_hash():
    h = hashlib.sha256()
    for f in sorted(glob.glob(os.path.join(vp.SPEC, "Locks*.tla"))):
        h.update(open(f, "rb").read())
    return h.hexdigest()[:12]


def model_check(sd, tier):
    """Fine-grained exploration of the model of the code: deadlock classes (none expected after the repairs) and
    predicted races (cached per spec text, tier and Fix constants)."""
    cdir = os.path.join(vp.WORKROOT, "cache-locks")
    os.makedirs(cdir, exist_ok=True)
    fx = fixes()
    fkey = "".join("1" if fx[k] else "0" for k in FIXES)
    cpath = os.path.join(cdir, "model-%s-%s-%s.json" % (spec_hash(), tier, fkey))
    if os.path.exists(cpath) and not os.environ.get("VERIF_NOCACHE"):
        m = json.load(open(cpath))
        m["from_cache"] = True      # same specification text, constants and tier: TLC's exhaustive result is deterministic
        return m
    t0 = time.time()
    parts = NPAR
    res = _tlc_parts(sd, "fine", tier, parts)
    out = dict(deadlocks=[], races=[], stuck_states=0, configs=0, distinct=0, generated=0, depth=0, fixes=fx)
    for i, (d, r) in enumerate(res):
        m = json.load(open(os.path.join(d, "model_%d.json" % i)))
        out["deadlocks"] += m["deadlocks"]
        out["races"] += m["races"]
        out["stuck_states"] += m["stuck_states"]
        out["configs"] += m["configs"]
        out["distinct"] += r["distinct"]
        out["generated"] += r["generated"]
        out["depth"] = max(out["depth"], r["depth"])
    out["returns_checked"] = False
    if tier == "thorough" and not out["deadlocks"]:
        # P_C18_returns (every started handler eventually returns, weak fairness) as a temporal property
        open(os.path.join(sd, "live.cfg"), "w").write(
            "CONSTANTS\n" + consts(fx) + '  Mode = "fine"\n  Tier = "quick"\n  Part = 0\n  Parts = 1\n'
            "SPECIFICATION Spec\nINVARIANT InvBounded\nINVARIANT InvNoDeadlock\nPROPERTY P_C18_returns\nCHECK_DEADLOCK FALSE\n")
        lv = vp.tlc("LocksMC", "live.cfg", sd, timeout=3000, heap="8g", quiet=True)
        if not lv["ok"]:
            raise vp.Fatal("P_C18_returns fails on Locks.tla: %s" % lv["violated"])
        out["returns_checked"] = True
        out["returns_states"] = lv["distinct"]
    out["wall"] = round(time.time() - t0, 1)
    vp.log("Locks.tla fine: %d configs, %d distinct states, %d deadlock classes (%d stuck states), %d race records; %.0fs"
           % (out["configs"], out["distinct"], len(out["deadlocks"]), out["stuck_states"], len(out["races"]), out["wall"]))
    json.dump(out, open(cpath + ".tmp", "w"))
    os.replace(cpath + ".tmp", cpath)
    return out


STAGE = {"ACP": "await_claim", "WCSV": "wait_csv", "ATB": "await_opening", "ATC": "await_conf"}
CSVOF = {"not": "not", "edge": "edge", "just": "edge", "long": "long"}
D0 = {"not": (0, 1), "edge": (1, 0), "just": (1, 1), "long": (2, 0)}
ENTRY = {"pol_set": "pol_disable", "msg_req": "msg_req_in"}


def export_schedules(sd, tier):
    """Gate-level schedules of the model of the code (one per configuration, outcome, first mover) plus, as regression
    schedules, those schedules of the model of the code BEFORE the repairs that end in a deadlock there: they are the
    interleavings in which a missing repair shows."""
    fx, old = fixes(), fixes(old=True)
    with cf.ThreadPoolExecutor(2) as ex:
        f1 = ex.submit(_tlc_parts, sd, "gate", tier, NPAR)
        f2 = ex.submit(_tlc_parts, sd, "gate", tier, max(2, NPAR // 2), old, "-old") if old != fx else None
        res, res_old = f1.result(), (f2.result() if f2 else [])
    ms, st = [], dict(distinct=0, generated=0, regression=0, old_deadlock_classes=0)
    for i, (d, r) in enumerate(res):
        p = os.path.join(d, "sched_%d.ndjson" % i)
        if os.path.exists(p):
            ms += [json.loads(x) for x in open(p) if x.strip()]
        st["distinct"] += r["distinct"]
        st["generated"] += r["generated"]
    classes = set()
    for i, (d, r) in enumerate(res_old):
        p = os.path.join(d, "sched_%d.ndjson" % i)
        if os.path.exists(p):
            for x in open(p):
                if x.strip():
                    m = json.loads(x)
                    if m["deadlock"]:
                        classes.add(json.dumps(sorted((w["e"], w["lock"]) for w in m["waits"])))
                        m["name"] = "old:" + m["name"]
                        m["deadlock"] = False      # a prediction of the old model, not of the code's model
                        m["regression"] = True
                        ms.append(m)
                        st["regression"] += 1
        st["distinct"] += r["distinct"]
        st["generated"] += r["generated"]
    st["old_deadlock_classes"] = len(classes)
    ms.sort(key=lambda m: m["name"])
    return ms, st


def harness_schedules(ms, tier, rng):
    """Model schedule -> harness schedule(s): the abstract maker stands for both maker roles, the RPC
    watcher for bitcoind (and elementsd in the thorough tier)."""
    out = []
    for k, m in enumerate(ms):
        taker = m["prep"] in ("ATB", "ATC")
        roles = [m["role"]]
        if not taker:
            roles = ["in_sender", "out_receiver"] if (tier == "thorough" or m["deadlock"]) else [["in_sender", "out_receiver"][k % 2]]
        watchers = [m["watcher"]]
        if m["watcher"] == "rpc" and tier == "thorough":
            watchers.append("rpc-lbtc")
        d0, mines = D0[m["chain"]]
        for role in roles:
            for w in watchers:
                procs = {p: ENTRY.get(e, e) for p, e in m["procs"].items()}
                model = dict(mwatcher=m["watcher"], mrole=m["role"], prep=m["prep"], chain=m["chain"], d0=d0, mines=mines, mprocs=m["procs"], lbtc=(w != "rpc"))
                out.append(dict(name="%s|%s|%s" % (m["name"], role, w), watcher=w, role=role, stage=STAGE[m["prep"]],
                                csv=("none" if taker else CSVOF[m["chain"]]), restart=m["restart"], faults=m["faults"], procs=procs,
                                steps=m["steps"], mine=(3 if taker else 1), deadlock=m["deadlock"], **{"class": m["class"]}, model=model))
    return out


# ------------------------------------------------------------------ harness side

def run_cases(binp, flag, cases, wd, tag, grace_ms, env=None, nproc=None, extra=(), timeout=1500):
    """Runs the cases in parallel worker processes; a worker that reports a deadlock is poisoned
    and is restarted behind the deadlocked case. Returns the list of trace files (case order is
    kept within a chunk; trace numbers are made unique per chunk by the caller)."""
    nproc = nproc or NPAR
    chunks = [cases[i::nproc] for i in range(nproc)]

    def work(ci):
        ch = chunks[ci]
        if not ch:
            return []
        d = os.path.join(wd, "%s-%d" % (tag, ci))
        os.makedirs(d, exist_ok=True)
        inp = os.path.join(d, "cases.ndjson")
        with open(inp, "w") as f:
            for c in ch:
                f.write(json.dumps(c) + "\n")
        frm, outs, logs = 0, [], []
        t0 = time.time()
        while frm < len(ch):
            outp = os.path.join(d, "trace-%05d.ndjson" % frm)
            logp = os.path.join(d, "log-%05d.txt" % frm)
            e = dict(os.environ)
            if env:
                e.update(env)
            cmd = [binp, flag, inp, "-out", outp, "-from", str(frm), "-work", d, "-grace", str(grace_ms)] + list(extra)
            with open(logp, "w") as lf:
                try:
                    p = subprocess.run(cmd, stdout=subprocess.PIPE, stderr=lf, text=True, env=e, timeout=max(60, timeout - (time.time() - t0)))
                except subprocess.TimeoutExpired:
                    raise vp.Fatal("harness worker %s-%d timed out at case %d" % (tag, ci, frm))
            m = re.search(r"NEXT (\d+)", p.stdout or "")
            outs.append((outp, logp))
            if p.returncode not in (0, 3) or not m:
                raise vp.Fatal("harness failed (rc=%s) in %s at case >= %d:\n%s" % (p.returncode, d, frm, open(logp).read()[-3000:]))
            nxt = int(m.group(1))
            if nxt <= frm:
                raise vp.Fatal("harness made no progress at case %d" % frm)
            frm = nxt
        return outs
    with cf.ThreadPoolExecutor(nproc) as ex:
        res = list(ex.map(work, range(nproc)))
    return res


def merge_traces(res, dst, keep=("reset", "start", "ret", "step", "after", "deadlock", "end")):
    """One NDJSON file, trace numbers unique; gate / callback lines are kept in the raw files only."""
    n, k, samples, meta = 0, 0, [], {}
    with open(dst, "w") as out:
        for ci, outs in enumerate(res):
            for outp, _ in outs:
                if not os.path.exists(outp):
                    continue
                for ln in open(outp):
                    if not ln.strip():
                        continue
                    e = json.loads(ln)
                    if e["ev"] not in keep:
                        continue
                    if e["ev"] == "reset":
                        k += 1
                        m = e.pop("model", None) or {}
                        e.update(m)
                        e["wkind"] = "el" if e.get("watcher") == "el" else "rpc"
                        meta[k] = dict(name=e.get("name"), file=outp, entries=e.get("entries") or sorted((e.get("procs") or {}).values()))
                    e["t"] = k
                    if e["ev"] in ("deadlock",) and len(samples) < 3:
                        samples.append(e)
                    out.write(json.dumps(e) + "\n")
                    n += 1
    return n, k, samples, meta


def validate(sd, trace, nlines, parts=None):
    """LocksTrace over the merged trace, split at trace boundaries into parallel parts."""
    parts = parts or NPAR
    lines = open(trace).read().splitlines()
    bounds = [i for i, ln in enumerate(lines) if '"ev": "reset"' in ln] + [len(lines)]
    per = max(1, (len(bounds) - 1 + parts - 1) // parts)
    jobs = []
    for j in range(0, len(bounds) - 1, per):
        a, b = bounds[j], bounds[min(j + per, len(bounds) - 1)]
        jobs.append(lines[a:b])

    def one(ij):
        i, ls = ij
        d = os.path.join(sd, "v-%d" % i)
        os.makedirs(d, exist_ok=True)
        for f in glob.glob(os.path.join(sd, "Locks*.tla")):
            shutil.copy(f, d)
        open(os.path.join(d, "LocksTrace.cfg"), "w").write("CONSTANTS\n" + consts(fixes()) + "INIT Init\nNEXT Next\nCHECK_DEADLOCK FALSE\n")
        tp = os.path.join(d, "trace.ndjson")
        open(tp, "w").write("\n".join(ls) + "\n")
        return vp.validate_trace("LocksTrace", "LocksTrace.cfg", d, tp, heap="3g")
    with cf.ThreadPoolExecutor(len(jobs) or 1) as ex:
        vs = list(ex.map(one, enumerate(jobs)))
    out = dict(n=0, viol=[], mismatch=[], notreproduced=[], unpredicted=[], unsettled=[], replayed=0)
    for v in vs:
        out["n"] += v["n"]
        out["replayed"] += v["replayed"]
        for k in ("viol", "mismatch", "notreproduced", "unpredicted", "unsettled"):
            out[k] += v[k]
    if out["n"] != nlines:
        raise vp.Fatal("LocksTrace consumed %d of %d lines" % (out["n"], nlines))
    return out


def stress_cases(binp, wd, seed, rounds):
    p = os.path.join(wd, "stress-cases.ndjson")
    vp.run([binp, "-gen", p, "-seed", str(seed), "-rounds", str(rounds)], timeout=120)
    return [json.loads(x) for x in open(p) if x.strip()]


# ------------------------------------------------------------------ C18

def run_c18(prop, tier):
    t0 = time.time()
    wd = vp.workdir(prop)
    try:
        sd = vp.spec_copy(wd)
        binp = vp.build_harness("./cmd/locks")
        t1 = time.time()
        with cf.ThreadPoolExecutor(2) as ex:      # the two TLC explorations are independent
            f1 = ex.submit(model_check, sd, tier)
            f2 = ex.submit(export_schedules, sd, tier)
            model, (ms, gst) = f1.result(), f2.result()
        vp.log("TLC (instruction level, gate level, gate level of the unrepaired model): %.0fs" % (time.time() - t1))
        rng = random.Random(vp.seed())
        scheds = harness_schedules(ms, tier, rng)
        rng.shuffle(scheds)
        vp.log("gate-level export: %d model schedules (%d predict a deadlock) -> %d harness schedules" % (len(ms), sum(1 for m in ms if m["deadlock"]), len(scheds)))
        grace = 1000 if tier == "quick" else 3000
        t1 = time.time()
        res = run_cases(binp, "-sched", scheds, wd, "det", grace)
        vp.log("deterministic schedules on the real code: %.0fs" % (time.time() - t1))
        t1 = time.time()
        # seeded stress of entry-point pairs with free-running goroutines (watchdog only; the race detector is C19)
        scases = stress_cases(binp, wd, vp.seed(), 1 if tier == "quick" else 4)
        sres = run_cases(binp, "-stress", scases, wd, "stress", grace, extra=["-watchdog", "8000"])
        vp.log("stress cases: %.0fs" % (time.time() - t1))
        t1 = time.time()
        trace = os.path.join(sd, "all.ndjson")
        n, k, samples, meta = merge_traces(res + sres, trace)
        v = validate(sd, trace, n)
        vp.log("trace validation: %d lines, %.0fs" % (n, time.time() - t1))
        ver = vp.Verdicts(prop)
        sigs = {}
        for x in v["viol"]:
            sigs.setdefault(x["sig"], x)
        for sig, x in sorted(sigs.items()):
            rp = vp.save_replay(prop, "deadlock-%s.json" % vp.sig_id(sig), dict(
                signature=sig, schedule=x["name"], how="./check %s (schedule exported by TLC from spec/Locks.tla; run alone: "
                "harness/bin/locks -sched <file with this schedule>)" % prop,
                schedule_json=next((s for s in scheds if s["name"] == x["name"]), None)))
            ver.add(sig, rp)
        rc = ver.report()
        problems = []
        if v["mismatch"]:
            problems.append("%d schedules where the real code leaves the behaviours of Locks.tla, first: %s" % (len({m["t"] for m in v["mismatch"]}), v["mismatch"][:3]))
        # a schedule whose statically exported prediction was a deadlock but whose run did not end in one is a
        # machinery problem only if the replay on the specification disagrees with the run (then it is a mismatch above):
        # between gates the Go scheduler may resolve a lock hand-over differently from the exported branch
        if v["unpredicted"]:
            problems.append("%d deadlocks on the real code where the replayed specification has none, first: %s" % (len(v["unpredicted"]), v["unpredicted"][:3]))
        if v["unsettled"]:
            problems.append("%d runs did not settle, first: %s" % (len(v["unsettled"]), v["unsettled"][:3]))
        classes = {}
        for d in model["deadlocks"]:
            key = " + ".join(sorted("%s waits %s in %s" % (w["e"], w["lock"], ">".join(w["chain"][-3:])) for w in d["waits"]))
            classes[key] = classes.get(key, 0) + 1
        vp.write_evidence(prop, tier, "model_checking", dict(
            states=model["distinct"] + gst["distinct"], transitions=model["generated"] + gst["generated"],
            traces_validated_against_impl=k, samples=(samples + [json.loads(x) for x in open(trace).read().splitlines()[:3]])[:5],
            evaluations=len(scheds) + len(scases), distinct_nontrivial=len({s["name"] for s in scheds if len(s["procs"]) >= 2}),
            rule="one deterministic schedule per (configuration, outcome, first mover) of the gate-level exploration of Locks.tla, plus seeded stress "
                 "cases; non-trivial = at least two concurrent entry points",
            configurations=model["configs"], model_deadlock_states=model["stuck_states"], model_deadlock_classes=len(classes),
            model_deadlock_kinds=sorted(classes)[:40],
            model_result_reused_from_same_spec_text=bool(model.get("from_cache")), model_follows_repairs=model.get("fixes"),
            returns_under_weak_fairness_checked=model.get("returns_checked", False),
            regression_schedules_from_unrepaired_model=gst["regression"], unrepaired_model_deadlock_classes=gst["old_deadlock_classes"],
            gate_level_states=gst["distinct"], schedules_exported=len(ms), schedules_predicting_deadlock=sum(1 for m in ms if m["deadlock"]),
            schedules_run_on_real_code=len(scheds), stress_cases_run=len(scases), trace_lines_validated=n, steps_replayed_on_spec=v["replayed"],
            conformance_mismatches=len(v["mismatch"]), candidates_not_reproduced=len(v["notreproduced"]),
            deadlocks_observed_not_predicted=len(v["unpredicted"]), deadlocks_observed=len(v["viol"]), distinct_deadlock_signatures=len(sigs),
            watchdog="end of schedule: all gates released, every goroutine of the system blocked or returned (goroutine dump), "
                     "unreturned handlers unchanged after %d ms in sync.Mutex.Lock / RWMutex / channel send" % grace,
            known_findings=sorted(ver.known), new_violations=sorted(ver.new), machinery_problems=problems,
        ), time.time() - t0, len(ver.new), assumptions=[
            "one swap (plus one new swap for RPC / request entry points), two or three concurrent entry points per configuration",
            "Lightning node, wallet, peer and the bitcoind / elementsd / Electrum servers are simulated; swap service, FSM, bbolt store, policy, "
            "retransmission manager, BlockchainRpcTxWatcher and the LWK electrumTxWatcher (+ electrum block subscriber / observers) are the real code",
            "the RPC watcher's 500 ms poll loop is replaced by direct calls of HandleCsvTx / the dispatcher fan-out in deterministic runs; "
            "the LND chain watcher (lnd/txwatcher.go) is covered by reading only: it never calls back under its lock",
            "a handler is judged by returning at all, not by a time bound"])
        if rc == 0 and problems:
            raise vp.Fatal("; ".join(problems))
        return rc
    finally:
        vp.cleanup(wd)


# ------------------------------------------------------------------ C19

RACE_RE = re.compile(r"^WARNING: DATA RACE$", re.M)
PEERSWAP = "github.com/elementsproject/peerswap/"


def parse_races(text):
    """-> list of (stacks) where stacks = [frames of access 1, frames of access 2]; frames are function names."""
    out = []
    for blk in text.split("WARNING: DATA RACE")[1:]:
        blk = blk.split("==================")[0]
        secs = re.split(r"\n\n", blk.strip("\n"))
        stacks = []
        for s in secs:
            lines = s.splitlines()
            if not lines:
                continue
            h = lines[0].strip()
            if re.match(r"^(Read|Write|Previous read|Previous write|Atomic|Previous atomic)", h, re.I):
                fr = [re.sub(r"\(\)$", "", l.strip()) for l in lines[1:] if l.startswith("  ") and not l.startswith("      ")]
                stacks.append((h.split(" at ")[0], fr))
        if len(stacks) >= 2:
            out.append(stacks[:2])
    return out


SETTERS = {"policy.(*Policy)." + x for x in ("DisableSwaps", "EnableSwaps", "AddToAllowlist", "RemoveFromAllowlist",
                                             "AddToSuspiciousPeerList", "RemoveFromSuspiciousPeerList")}


def site_of(frames, sites):
    """The function an access is attributed to: the innermost frame that is a lock-discipline site of the
    specification (else the innermost peerswap frame). The policy setters are one site `<setter>`; ReloadFile
    is distinguished by whether a setter (which holds the package mutex) called it."""
    own = [f for f in frames if f.startswith(PEERSWAP) or f.startswith("verif/harness")]
    if own and not own[0].startswith(PEERSWAP):
        return None      # the access itself is in harness code (e.g. a simulated service called by the real code)
    ps = [f.replace(PEERSWAP, "") for f in frames if f.startswith(PEERSWAP)]
    for i, f in enumerate(ps):
        if f in SETTERS:
            return "policy.(*Policy).<setter>"
        if f == "policy.(*Policy).ReloadFile":
            return f + ("<setter" if i + 1 < len(ps) and ps[i + 1] in SETTERS else "")
        if f in sites:
            return f
    return ps[0] if ps else None


def run_c19(prop, tier):
    t0 = time.time()
    wd = vp.workdir(prop)
    try:
        sd = vp.spec_copy(wd)
        model = model_check(sd, tier)
        predicted = {}
        sites = set()
        for r in model["races"]:
            a, b = sorted([r["a"], r["b"]])
            predicted.setdefault((a, b), set()).add(r["v"])
            sites |= {a, b}
        # every function the specification names as an access site
        spec_txt = open(os.path.join(vp.SPEC, "Locks.tla")).read()
        sites |= set(re.findall(r'Acc\("([^"]+)"', spec_txt)) | {"swap.(*SwapStateMachine).SendEvent"}
        binp = vp.build_harness("./cmd/locks", race=True)
        rounds = 2 if tier == "quick" else 40
        cases = stress_cases(binp, wd, vp.seed(), rounds)
        budget = 100 if tier == "quick" else 1100
        env = dict(GORACE="halt_on_error=0 exitcode=0 history_size=4")
        res = run_cases(binp, "-stress", cases, wd, "race", 1000, env=env, extra=["-watchdog", "20000", "-budget", str(budget)], timeout=budget + 400)
        reports, harness_only, nrep = {}, [], 0
        for outs in res:
            for _, logp in outs:
                txt = open(logp, errors="replace").read()
                for st in parse_races(txt):
                    nrep += 1
                    s1, s2 = site_of(st[0][1], sites), site_of(st[1][1], sites)
                    if s1 is None and s2 is None:
                        harness_only.append(st)
                        continue
                    key = tuple(sorted([s1 or "(harness)", s2 or "(harness)"]))
                    reports.setdefault(key, dict(n=0, example=st, log=logp))
                    reports[key]["n"] += 1
        ran = 0
        trace = os.path.join(sd, "all.ndjson")
        n, k, samples, meta = merge_traces(res, trace)
        v = validate(sd, trace, n)
        ver = vp.Verdicts(prop)
        unpred = []
        for (a, b), r in sorted(reports.items()):
            sig = "C19|race|%s|%s" % (a, b)
            if (a, b) not in predicted:
                unpred.append(sig)
            rp = vp.save_replay(prop, "race-%s.json" % vp.sig_id(sig), dict(
                signature=sig, predicted_by_spec=(a, b) in predicted, variables=sorted(predicted.get((a, b), [])), reports=r["n"],
                report=[dict(access=s[0], frames=s[1][:12]) for s in r["example"]],
                how="VERIF_SEED=%d ./check %s  (race-detector build of harness/cmd/locks, stress mode)" % (vp.seed(), prop)))
            ver.add(sig, rp)
        rc = ver.report()
        vp.write_evidence(prop, tier, "exploration", dict(
            states=model["distinct"], transitions=model["generated"], traces_validated_against_impl=k,
            samples=[dict(signature="C19|race|%s|%s" % kk, reports=r["n"]) for kk, r in sorted(reports.items())][:5] or [json.loads(x) for x in open(trace).read().splitlines()[:3]],
            evaluations=k, distinct_nontrivial=len({re.sub(r"^r\d+/", "", m["name"]) for m in meta.values() if len(m["entries"]) >= 2}),
            rule="stress case = two (sometimes three) entry points started concurrently, with seeded start delays, on one swap prepared in a state where "
                 "both do something (entry point pair x role/stage variant x watcher x chain depth, drawn by VERIF_SEED); distinct = different "
                 "(entry points, watcher, role, stage, depth, restart, real-loops) tuples with at least two entry points",
            monitor="Go race detector (go build -race -tags verif) on the real code; the specification supplies the schedule space and the predicted pairs",
            model_result_reused_from_same_spec_text=bool(model.get("from_cache")), predicted_race_pairs=len(predicted), predicted=sorted("%s | %s | %s" % (a, b, ",".join(sorted(vs))) for (a, b), vs in predicted.items()),
            stress_cases_generated=len(cases), stress_cases_run=k, race_reports=nrep, distinct_detected_pairs=len(reports),
            detected_not_predicted=unpred, model_drift=bool(unpred), harness_only_reports=len(harness_only),   # a detected race is a VIOLATION whether or not Locks.tla predicts it
            chain_server_latency="stress: every answer of the simulated bitcoind / elementsd / Electrum is delayed (per case: up to 0.5-4 ms, "
                                 "in 0-25 % of the calls 10-40 ms), so that a lock released around an RPC exposes its window", predicted_not_detected=sorted("%s | %s" % kk for kk in predicted if kk not in reports),
            note="absence of a report is evidence only for the schedules that were run; the detector only sees races whose both accesses "
                 "execute without an intervening happens-before edge in a run",
            known_findings=sorted(ver.known), new_violations=sorted(ver.new),
        ), time.time() - t0, len(ver.new), assumptions=[
            "entry points are stressed pairwise (plus occasional third) on one prepared swap per case; seeds vary the pair order, variants and start delays",
            "simulated services use read-write locks for their own state, which adds happens-before edges the real node does not have",
            "peersync poller, LND/CLN client adapters and the gRPC layer are outside this harness"])
        # a report whose both sides are harness code is a harness bug (exit 2), but never hides a violation on the real code
        if rc == 0 and harness_only:
            raise vp.Fatal("race reports inside the harness itself (fix the harness): %s" % json.dumps(harness_only[0])[:1500])
        if rc == 0 and v["unsettled"]:
            raise vp.Fatal("stress runs did not settle: %s" % v["unsettled"][:3])
        return rc
    finally:
        vp.cleanup(wd)


def run(prop, tier):
    if prop == "C18":
        return run_c18(prop, tier)
    if prop == "C19":
        return run_c19(prop, tier)
    raise vp.Fatal("engine locks does not handle %s" % prop)
