"""route - C24 (swap payments are one HTLC over the swap channel to the swap peer) and
the route-builder / arithmetic parts of C04 and C05 ("C04R", "C05R").

  spec/Timelock.tla        policy table, window / invoice / limit checks, both direct-payment
                           builders as they appear on the wire, the two taker Actions around
                           the claim payment, P_C24_*, P_C04_*, P_C05_margin
  spec/TimelockMC.tla      TLC: P_* on a design-level model of one taker payment, lemmas over
                           the whole case space (ASSUME), export of the case space and of the
                           C05 boundary set computed from the specification
  harness/cmd/route        every case on the REAL code: bare builders, the real CLN / LND
                           clients over a fake lightningd socket / fake lnrpc clients (the
                           sendpay request / SendPaymentRequest that reaches the node is what is
                           judged), the real swap Actions with those clients plugged in
  spec/TimelockTrace.tla   TLC: every recorded answer against the specification operators
                           (drift) and the P_* properties evaluated on the real answers (viol)

run(prop, tier): prints verdicts under the parent property id and writes evidence/<prop>.json.
part(prop, tier): same work, returns dict(rc, coverage, violations_new, known), prints nothing.
"""
import json
import os
import random
import time

import vp

MAX_REPORT = 25
PARENT = {"C24": "C24", "C04R": "C04", "C05R": "C05"}
U32 = 1 << 20          # the scaled 2^32 of the TLC runs (harness/route/scale.go)
H31 = U32 // 2
SCID = {"swap": (700123, 45, 1), "second": (700124, 7, 0)}


def _scid(ch, sp):
    a, b, c = SCID[ch]
    s1 = ":" if sp == "colon" else "x"
    s2 = "x" if sp == "x" else ":"
    return "%d%s%d%s%d" % (a, s1, b, s2, c)


# ------------------------------------------------------------ random cases
def _rand_cltv(r):
    k = r.random()
    if k < 0.55:
        return r.randint(-3, 60)
    if k < 0.8:
        return r.randint(480, 520)
    if k < 0.9:
        return H31 + r.randint(-40, 40)
    return U32 + r.randint(-40, 40)


def _rand_start(r):
    k = r.random()
    if k < 0.1:
        return r.choice([0, 1, 2])
    if k < 0.6:
        return r.randint(3, 100000)
    return U32 - r.randint(1, 3000)


def _rand_tip(r, start, hi):
    if r.random() < 0.08:
        return r.choice([0, 1, r.randint(0, 700), U32 - 1])
    t = start + r.randint(-4, hi)
    return min(max(t, 0), U32 - 1)


def _rand_route(r, limits, plain):
    via = r.choice(["builder", "client"])
    b = r.choice(["CLN", "LND"])
    pay = "claim" if (via == "builder" or plain) else r.choice(["fee", "claim"])
    sp = "x" if (plain or (via == "builder" and b == "LND")) else r.choice(["x", "colon", "mixed"])
    ch = "swap" if plain else r.choice(["swap", "second"])
    li = 0 if pay == "fee" else r.choice(limits)
    return dict(kind="route", via=via, backend=b, pay=pay, payee="peer" if plain else r.choice(["peer", "other"]),
                amt="typ" if plain else r.choice(["one", "typ", "large"]), cltv=_rand_cltv(r), chan=ch, sp=sp,
                scid=_scid(ch, sp), limit=li)


def _rand_action(r, kind, chain, ver):
    b = r.choice(["CLN", "LND"])
    s = _rand_start(r)
    hi = 70 if chain == "lbtc" else 520
    ss = True if chain == "btc" else (r.random() < 0.85)
    legacy = chain == "lbtc" and ver == 6
    c = dict(kind=kind, chain=chain, ver=ver, backend=b, startSet=ss, start=s, cltv=r.randint(0 if (chain == "btc" and kind == "pay") else -2,
                                                                                               40 if chain == "lbtc" else 520),
             found=legacy and r.random() < 0.5)
    if chain == "btc" and r.random() < 0.5:
        c["cltv"] = r.randint(490, 515)
    if kind == "await":
        c.update(height=_rand_tip(r, s, hi), amtrel=r.choice(["eq", "eq", "eq", "plus1", "minus1", "unit"]),
                 hasTx=legacy and r.random() < 0.5)
    else:
        c.update(now=_rand_tip(r, s, hi))
    return c


def random_cases(prop, n, seed):
    r = random.Random("%s-%d" % (prop, seed))
    out = []
    for _ in range(n):
        k = r.random()
        if prop == "C24":
            out.append(_rand_route(r, [0, 32], False))
        elif prop == "C04R":
            if k < 0.2:
                out.append(_rand_route(r, [1, 31, 32, 33, r.randint(1, 600), H31 - 2, H31 - 1, U32 - 1], True))
            elif k < 0.3:
                out.append(dict(kind="limit", required=r.choice([r.randint(0, 70), H31 + r.randint(-3, 3), U32 - r.randint(1, 5)]),
                                limit=r.choice([0, r.randint(1, 70), U32 - 1])))
            elif k < 0.45:
                s = _rand_start(r)
                cv = r.choice([("lbtc", 7), ("lbtc", 7), ("lbtc", 6), ("btc", 7), ("lbtc", 8)])
                out.append(dict(kind="window", chain=cv[0], ver=cv[1], startSet=r.random() < 0.85, start=s, tip=_rand_tip(r, s, 520)))
            elif k < 0.55:
                cv = r.choice([("lbtc", 7), ("lbtc", 7), ("lbtc", 6), ("btc", 7)])
                out.append(dict(kind="invoice", chain=cv[0], ver=cv[1], type=r.choice(["in", "out"]), premium=r.choice([0, 1, 17, -5, 999]),
                                cltv=_rand_cltv(r), amtrel=r.choice(["eq", "eq", "plus1", "minus1", "unit"])))
            else:
                ver = 7 if r.random() < 0.85 else 6
                out.append(_rand_action(r, r.choice(["await", "pay"]), "lbtc", ver))
        else:
            if k < 0.15:
                out.append(_rand_route(r, [0], True))
            else:
                out.append(_rand_action(r, r.choice(["await", "pay"]), "btc", 7))
    return out


# -------------------------------------------------------------- the pipeline
MC_CFG = """CONSTANTS
    U32 = %d
    Tier = "%s"
    Part = "%s"
INIT Init
NEXT Next
INVARIANTS
    P_C04_window
    P_C04_cltv
    P_C04_total
    P_C04_resolves
    P_C04_legacy
    P_C05_guards
    P_C05_margin_late
    P_C05_margin_or_boundary
CHECK_DEADLOCK FALSE
"""


def apalache(sd):
    """Arithmetic lemmas of C04 / C05 for all heights < 2^32 (true 2^32, no scaling): TimelockApa.Inv must hold on
    every initial state, the two tightness formulas must be refuted (non-vacuity). Returns evidence dict."""
    import shutil
    import subprocess
    if not shutil.which("apalache-mc"):
        return dict(ran=False, why="apalache-mc not installed")
    res = dict(ran=True, obligations=[], refuted=[])
    for inv, want_ok in (("Inv", True), ("T_C05_tight", False), ("T_C04_tight", False)):
        t0 = time.time()
        try:
            p = subprocess.run(["apalache-mc", "check", "--out-dir=" + os.path.join(sd, "_apa"), "--cinit=CInit", "--init=Init", "--next=Next",
                                "--inv=" + inv, "--length=0", "TimelockApa.tla"], cwd=sd, stdout=subprocess.PIPE, stderr=subprocess.STDOUT,
                               text=True, timeout=900)
        except subprocess.TimeoutExpired:
            raise vp.Fatal("Apalache timeout on TimelockApa/%s" % inv)
        ok = "The outcome is: NoError" in p.stdout
        bad = "The outcome is: Error" in p.stdout and "invariant" in p.stdout
        vp.log("Apalache TimelockApa/%s: %s, %.1fs" % (inv, "holds" if ok else ("refuted" if bad else "?"), time.time() - t0))
        if want_ok and not ok:
            raise vp.Fatal("Apalache: TimelockApa.%s does not hold for all heights:\n%s" % (inv, p.stdout[-3000:]))
        if not want_ok and not bad:
            raise vp.Fatal("Apalache: tightness formula %s was not refuted (vacuous model?):\n%s" % (inv, p.stdout[-3000:]))
        (res["obligations"] if want_ok else res["refuted"]).append(inv)
    res["conjuncts"] = "A_C04 A_C04_await A_C04_legacy A_C05_guards A_C05_late A_C05_boundary"
    return res


WORKERS = max(2, min(8, vp.NCPU // 2))


def run_harness(binp, cases, trace, wd):
    """The cases are independent evaluations: deal them round-robin to WORKERS harness processes (each with its own fake
    lightningd socket) and concatenate the traces. Exit code 4 of any worker = per-case watchdog fired (`hang`)."""
    import subprocess
    lines = [ln for ln in open(cases) if ln.strip()]
    procs = []
    for k in range(WORKERS):
        d = os.path.join(wd, "w%d" % k)
        os.makedirs(d)
        with open(os.path.join(d, "cases.ndjson"), "w") as f:
            f.writelines(lines[k::WORKERS])
        env = dict(os.environ)
        env.update(vp.GOENV)
        procs.append((d, subprocess.Popen([binp, "-cases", os.path.join(d, "cases.ndjson"), "-out", os.path.join(d, "trace.ndjson"), "-dir", d],
                                          stdout=subprocess.PIPE, stderr=subprocess.STDOUT, text=True, env=env)))
    t0 = time.time()
    outs = []
    for d, p in procs:
        try:
            out, _ = p.communicate(timeout=max(1, 1500 - (time.time() - t0)))
        except subprocess.TimeoutExpired:
            for _, q in procs:
                q.kill()
            raise vp.Fatal("harness route: timeout")
        outs.append((p.returncode, out or ""))
    for rc, out in outs:
        if rc == 4:
            raise vp.Fatal("the code under test neither answered nor gave up within the per-case watchdog (recorded as `hang`, "
                           "not a verdict): %s" % out[-600:])
    for rc, out in outs:
        if rc != 0:
            raise vp.Fatal("harness route failed (%d): %s" % (rc, out[-3000:]))
    with open(trace, "w") as f:
        for d, _ in procs:
            f.write(open(os.path.join(d, "trace.ndjson")).read())
    vp.log("harness route: %d cases on the real code, %d workers, %.1fs" % (len(lines), WORKERS, time.time() - t0))


def _nontrivial(ln):
    """A case is non-trivial if the real code took a decision that depends on the inputs the
    property quantifies over (a payment went out, or a check refused/admitted at a boundary)."""
    k = ln["kind"]
    if k in ("route", "pay", "retry"):
        return True
    if k == "await":
        return ln.get("out") in ("watch", "recovered") or ln.get("amtrel") == "eq"
    return True


def _work(prop, tier):
    if prop not in PARENT:
        raise vp.Fatal("route engine: unknown property part %s" % prop)
    parent = PARENT[prop]
    t0 = time.time()
    wd = vp.workdir(prop)
    bg = []
    try:
        sd = vp.spec_copy(wd)
        binp = vp.build_harness("./cmd/route")
        open(os.path.join(sd, "TimelockMC_run.cfg"), "w").write(MC_CFG % (U32, tier, prop))
        # TLC writes the case space first (ASSUME, in module order) and then checks the lemmas and the design model;
        # the harness and the trace validation run meanwhile, the model-checking result is collected at the end
        import threading
        box = {}

        def mc_run():
            try:
                box["mc"] = vp.tlc("TimelockMC", "TimelockMC_run.cfg", sd, workers=4 if tier == "quick" else None, timeout=1500)
            except BaseException as e:      # noqa: reported by mc_result()
                box["err"] = e

        th = threading.Thread(target=mc_run)
        th.start()
        bg.append(th)

        def mc_result():
            th.join()
            if "err" in box:
                raise box["err"]
            if not box["mc"]["ok"]:
                raise vp.Fatal("Timelock.tla: design-level invariants fail: %s\n%s" % (box["mc"]["violated"], box["mc"]["out"][-3000:]))
            return box["mc"]

        need = [os.path.join(sd, f) for f in ("export_done.json", "cases_%s.ndjson" % prop, "c05_expected.json")]
        while th.is_alive() and not all(os.path.exists(f) for f in need):
            time.sleep(0.05)
        if not all(os.path.exists(f) for f in need):
            mc_result()
            raise vp.Fatal("TimelockMC did not export the case space")
        cases = os.path.join(sd, "cases_%s.ndjson" % prop)
        nspec = vp.count_lines(cases)
        nrand = 1500 if tier == "quick" else 25000
        rnd = random_cases(prop, nrand, vp.seed())
        with open(cases, "a") as f:
            for c in rnd:
                f.write(json.dumps(c) + "\n")
        trace = os.path.join(sd, "trace.ndjson")
        run_harness(binp, cases, trace, wd)
        v = vp.validate_trace("TimelockTrace", "TimelockTrace.cfg", sd, trace, timeout=1500)

        mc = mc_result()
        ver = vp.Verdicts(parent)
        mine = [s for s in v["viol"] if s.startswith(parent + "|")]
        foreign = [s for s in v["viol"] if not s.startswith(parent + "|")]
        # every signature is matched against the known findings; of the new ones the first MAX_REPORT (sorted) are
        # reported one by one, the complete list goes into one replay file and into the evidence
        new_all = sorted(sig for sig in mine if not vp.match_finding(parent, sig, ver.findings))
        how = ("VERIF_SEED=%d ./check %s --tier %s (engine route, part %s); the failing case is spelled out in the signature; by hand: "
               "harness/bin/route -cases <file with that case> -out trace.ndjson, then TLC TimelockTrace" % (vp.seed(), parent, tier, prop))
        all_rp = None
        if len(new_all) > MAX_REPORT:
            all_rp = vp.save_replay(parent, "route-%s-all.json" % prop, dict(signatures=new_all, engine="route", part=prop, how=how))
        shown, hidden = set(new_all[:MAX_REPORT]), set(new_all[MAX_REPORT:])
        for sig in mine:
            if sig in hidden:
                continue
            rp = None
            if sig in shown:
                rp = vp.save_replay(parent, "route-%s.json" % vp.sig_id(sig), dict(signature=sig, engine="route", part=prop, how=how,
                                                                                   all_signatures_of_this_run=all_rp))
            ver.add(sig, rp)
        drift = sorted(v["drift"])
        if prop == "C24":       # the CLTV figure of the route is judged by C04R / C05R
            drift = [d for d in drift if not d.startswith(("route-delta|", "pay-delta|"))]
        # a disagreement that comes with a violation (of this property, or of the sibling property the same trace
        # also evaluates) is explained by it; an unexplained one means the specification no longer describes the code
        if drift and not ver.new and not foreign:
            raise vp.Fatal("the real code disagrees with spec/Timelock.tla without breaking a P_* property "
                           "(%d cases; update the specification or look at the change):\n  %s" % (len(drift), "\n  ".join(drift[:12])))

        lines = [json.loads(x) for x in open(trace)]
        kinds, sent, refused = {}, 0, 0
        distinct = set()
        for ln in lines:
            kinds[ln["kind"]] = kinds.get(ln["kind"], 0) + 1
            g = ln.get("g")
            if isinstance(g, dict):
                sent += 1 if g.get("sent") else 0
                refused += 0 if g.get("sent") else 1
            if _nontrivial(ln):
                distinct.add(json.dumps({k: ln[k] for k in ln if k not in ("g", "err", "ret_ok", "out", "got", "allowed", "ev", "attempts",
                                                                         "pre_ok", "w_start", "w_window", "claim_ok", "tips", "exhausted")}, sort_keys=True))
        r = random.Random(vp.seed())
        samples = r.sample(lines, min(6, len(lines)))
        cov = dict(
            states=mc["distinct"], transitions=mc["generated"],
            traces_validated_against_impl=v["n"],
            samples=samples,
            evaluations=v["n"], distinct_nontrivial=len(distinct),
            exhaustive=True,
            rule="every case of the finite case space of TimelockMC.tla (tier %s) exported by TLC plus %d VERIF_SEED-random cases "
                 "(values drawn around 0, 2^31 and 2^32), each evaluated once on the real code; distinct = distinct inputs" % (tier, nrand),
            cases_from_spec=nspec, cases_random=nrand, cases_by_kind=kinds,
            payments_sent_by_real_code=sent, payments_refused_by_real_code=refused,
            design_model="TimelockMC: one taker claim payment (await -> confirmations -> pay attempts), invariants "
                         "P_C04_window P_C04_cltv P_C04_total P_C04_resolves P_C04_legacy P_C05_guards P_C05_margin_late "
                         "P_C05_margin_or_boundary; ASSUME lemmas LemmaC24 LemmaC24Refuse LemmaC24Spelling LemmaC04Delta LemmaPermits "
                         "LemmaC05Late LemmaC05Tight LemmaC05Guards",
            trace_spec="TimelockTrace: answer = specification operator per line (drift), P_* on the real answers (viol)",
            drift=drift[:20], foreign_signatures=sorted(foreign)[:20],
            known_findings=sorted(ver.known), new_violations=sorted(ver.new), new_violations_total=len(new_all),
        )
        if tier == "thorough" and prop in ("C04R", "C05R"):
            cov["apalache_all_heights"] = apalache(sd)
        if prop == "C05R":
            exp = json.load(open(os.path.join(sd, "c05_expected.json")))
            key = lambda t: (t["backend"], t["dp"], t["cltv"], t["dc"])
            es, rs = set(map(key, exp)), set(map(key, v.get("c05", [])))
            cov.update(c05_boundary_spec=len(es), c05_boundary_real=len(rs), c05_boundary_equal=(es == rs),
                       c05_real_payments=v.get("npays"), c05_real_accepted_cltvs=v.get("nacc"))
            if es != rs and not ver.new:
                raise vp.Fatal("C05 boundary set of the real code differs from the specification's without a new violation: "
                               "only-real %s only-spec %s" % (sorted(rs - es)[:5], sorted(es - rs)[:5]))
        assumptions = [
            "TLC integers are 32 bit: 2^32 is the constant U32 = 2^20 in the TLC runs; the harness maps the regions around 0, U32/2, U32 "
            "onto 0, 2^31, 2^32 (translation inside a region), so uint32/int32 truncation and order are preserved for offsets < 2^17",
            "lightningd and lnd are fakes at the RPC boundary (unix-socket JSON-RPC server; lnrpc/routerrpc client interfaces): the judged "
            "object is the request that reaches them; that lnd turns {dest = channel peer, one outgoing channel, MaxParts 1} into one hop "
            "with delta final+BlockPadding and admits total deltas <= CltvLimit is taken from lnd v0.18.4 (routing/payment_session.go)",
            "C04 margin uses the bound given in the property statement (32 Bitcoin blocks <= 10021 Liquid blocks) and that a Liquid v7 "
            "opening transaction cannot confirm before anchor+1",
            "C05: confirmation heights from start-2 (a swap-out maker can confirm before the taker's start)",
        ]
        return dict(ver=ver, coverage=cov, assumptions=assumptions, wall=time.time() - t0)
    finally:
        for th_ in bg:
            th_.join()
        vp.cleanup(wd)


def run(prop, tier):
    res = _work(prop, tier)
    rc = res["ver"].report()
    vp.write_evidence(prop, tier, "model_checking", res["coverage"], res["wall"], len(res["ver"].new), assumptions=res["assumptions"])
    return rc


def part(prop, tier):
    """For the C04 / C05 checks of the lead: no printing, no evidence file."""
    res = _work(prop, tier)
    ver = res["ver"]
    return dict(rc=1 if ver.new else 0, coverage=res["coverage"], violations_new=dict(ver.new), known=dict(ver.known),
                assumptions=res["assumptions"], wall=res["wall"])


def part_cli(prop, tier):
    """Stand-alone entry used while developing (same exit-code convention as ./check)."""
    try:
        return run(prop, tier)
    except vp.Fatal as e:
        print("ERROR property=%s machinery failure: Fatal: %s" % (prop, str(e).replace("\n", " ")[:600]))
        return 2
