"""C20 - chain watchers report confirmation and CSV maturity only when true.

spec/Watcher.tla models the chain, the node's view and one confirmation + one
csv registration of a watcher (kinds "rpc" and "electrum"); TLC checks
P_C20a..d on every interleaving within the budgets (WatcherMC) and prints one
schedule per coverage key.  harness/cmd/watcher replays those schedules, and
VERIF_SEED-seeded random ones, on the REAL watchers
(txwatcher.BlockchainRpcTxWatcher; lwk electrumTxWatcher + electrum subscriber
and observers) over a simulated chain; spec/WatcherTrace.tla replays the chain
events of the trace and judges every callback."""
import concurrent.futures as cf
import json
import os
import random
import shutil
import time

import vp

BASE = dict(Window=3, Csv=3, L0=3, MaxTick=1, CbErr="FALSE")
# name -> constants of WatcherMC (Kind, Confs, budgets)
QUICK = {
    "rpc-c2": dict(Kind="rpc", Confs=2, MaxNew=2, MaxReorg=1, MaxFault=1, MaxPoll=1),
    "rpc-c3": dict(Kind="rpc", Confs=3, Csv=4, MaxNew=2, MaxReorg=1, MaxFault=1, MaxPoll=1),
    "el-c2": dict(Kind="electrum", Confs=2, MaxNew=3, MaxReorg=1, MaxFault=1, MaxPoll=2),
}
THOROUGH = {
    "rpc-c2": dict(Kind="rpc", Confs=2, MaxNew=3, MaxReorg=1, MaxFault=1, MaxPoll=2),
    "rpc-big": dict(Kind="rpc", Confs=2, MaxNew=3, MaxReorg=1, MaxFault=2, MaxPoll=2),
    "el-big": dict(Kind="electrum", Confs=2, MaxNew=4, MaxReorg=1, MaxFault=2, MaxPoll=3),
    "rpc-c3": dict(Kind="rpc", Confs=3, Csv=4, MaxNew=3, MaxReorg=1, MaxFault=1, MaxPoll=1),
    "rpc-cberr": dict(Kind="rpc", Confs=2, MaxNew=2, MaxReorg=1, MaxFault=1, MaxPoll=1, CbErr="TRUE"),
    "rpc-f2": dict(Kind="rpc", Confs=2, MaxNew=2, MaxReorg=1, MaxFault=2, MaxPoll=1),
    "rpc-r2": dict(Kind="rpc", Confs=2, MaxNew=3, MaxReorg=2, MaxFault=0, MaxPoll=1),
    "el-c2": dict(Kind="electrum", Confs=2, MaxNew=3, MaxReorg=1, MaxFault=2, MaxPoll=2),
    "el-r2": dict(Kind="electrum", Confs=2, MaxNew=4, MaxReorg=2, MaxFault=1, MaxPoll=2),
    "el-cberr": dict(Kind="electrum", Confs=2, MaxNew=2, MaxReorg=1, MaxFault=1, MaxPoll=2, CbErr="TRUE"),
}
INVS = ["TypeOK", "P_C20a", "P_C20b", "P_C20c", "P_C20d", "Export"]


def cfg_text(consts):
    c = dict(BASE)
    c.update(consts)
    ln = ["CONSTANTS"]
    for k, v in c.items():
        ln.append('  %s = %s' % (k, ('"%s"' % v) if k == "Kind" else v))
    ln += ["INIT Init", "NEXT Next", "VIEW MCView"] + ["INVARIANT " + i for i in INVS] + ["CHECK_DEADLOCK FALSE"]
    return "\n".join(ln) + "\n", c


def model_check(wd, name, consts, workers):
    d = os.path.join(wd, "mc-" + name)
    shutil.copytree(vp.SPEC, d)
    txt, c = cfg_text(consts)
    open(os.path.join(d, "mc.cfg"), "w").write(txt)
    res = vp.tlc("WatcherMC", "mc.cfg", d, workers=workers, timeout=3000, heap="12g", deque=True)
    if not res["ok"]:
        raise vp.Fatal("design model %s violates %s (the specification's own watcher must satisfy P_C20*):\n%s"
                       % (name, res["violated"], res["out"][-3000:]))
    scheds = {}
    for ln in res["out"].splitlines():
        if ln.startswith('"{'):
            o = json.loads(json.loads(ln))
            scheds.setdefault(o["key"], (o["s"], o.get("pred", [])))
    out = [dict(kind=c["Kind"], confs=int(c["Confs"]), window=int(c["Window"]), csv=int(c["Csv"]), s=scheds[k][0],
                pred=scheds[k][1]) for k in sorted(scheds)]
    shutil.rmtree(d, ignore_errors=True)
    return dict(name=name, consts=c, distinct=res["distinct"], generated=res["generated"], depth=res["depth"],
                wall=round(res["wall"], 1), schedules=out)


def split_traces(path, nchunks, wd):
    """Split the NDJSON trace into chunks at trace boundaries (reset lines)."""
    lines = open(path).read().splitlines()
    bounds = [i for i, ln in enumerate(lines) if '"e":"reset"' in ln]
    if not bounds or bounds[0] != 0:
        raise vp.Fatal("trace does not start with a reset line")
    target = max(1, len(lines) // nchunks)
    chunks, start = [], 0
    for b in bounds[1:] + [len(lines)]:
        if b - start >= target or b == len(lines):
            if b > start:
                chunks.append(lines[start:b])
            start = b
    paths = []
    for i, ch in enumerate(chunks):
        p = os.path.join(wd, "chunk-%d.ndjson" % i)
        open(p, "w").write("\n".join(ch) + "\n")
        paths.append(p)
    return paths, len(lines), len(bounds)


def validate(wd, i, chunk):
    d = os.path.join(wd, "tv-%d" % i)
    shutil.copytree(vp.SPEC, d)
    v = vp.validate_trace("WatcherTrace", "WatcherTrace.cfg", d, chunk, heap="4g", timeout=3000)
    shutil.rmtree(d, ignore_errors=True)
    return v


def run(prop, tier):
    t0 = time.time()
    wd = vp.workdir(prop)
    try:
        binp = vp.build_harness("./cmd/watcher")
        cfgs = THOROUGH if tier == "thorough" else QUICK
        per = max(2, vp.NCPU // 3)
        with cf.ThreadPoolExecutor(max_workers=3) as ex:
            mcs = list(ex.map(lambda kv: model_check(wd, kv[0], kv[1], per), sorted(cfgs.items())))
        sched = os.path.join(wd, "sched.ndjson")
        nsched = 0
        pred = {}      # trace number -> reports predicted by the specification's watcher
        with open(sched, "w") as f:
            for m in mcs:
                for s in m["schedules"]:
                    nsched += 1
                    pred[nsched] = list(s.pop("pred"))
                    f.write(json.dumps(s) + "\n")
        nrand = 150000 if tier == "thorough" else 6000
        trace = os.path.join(wd, "trace.ndjson")
        steps = os.path.join(wd, "steps.ndjson")
        p = vp.run([binp, "-sched", sched, "-rand", str(nrand), "-seed", str(vp.seed()), "-out", trace, "-dump", steps],
                   timeout=3000, check=False)
        if p.returncode != 0:
            raise vp.Fatal("harness failed (rc=%d): %s" % (p.returncode, (p.stdout or "")[-3000:]))
        t1 = time.time()
        chunks, nlines, ntraces = split_traces(trace, max(2, min(vp.NCPU // 2, 8)), wd)
        with cf.ThreadPoolExecutor(max_workers=len(chunks)) as ex:
            vs = list(ex.map(lambda ic: validate(wd, ic[0], ic[1]), enumerate(chunks)))
        consumed = sum(int(v["n"]) for v in vs)
        if consumed != nlines:
            raise vp.Fatal("trace specification consumed %d of %d lines" % (consumed, nlines))
        first = {}
        for v in vs:
            for x in v["viol"]:
                if x["sig"] not in first or x["t"] < first[x["sig"]]:
                    first[x["sig"]] = x["t"]
        mach = sorted(s for s in first if s.startswith("MACHINERY"))
        if mach:
            raise vp.Fatal("harness / trace replay inconsistent: %s (trace %s)" % (mach, [first[m] for m in mach]))
        vp.log("trace validation: %d lines, %d traces, %.1fs" % (nlines, ntraces, time.time() - t1))
        # replays: the schedule (driver steps) and the trace of the first trace showing each signature
        need = set(first.values())
        st_of, tr_of = {}, {}
        if need:
            for ln in open(steps):
                o = json.loads(ln)
                if o["t"] in need:
                    st_of[o["t"]] = o
            for ln in open(trace):
                o = json.loads(ln)
                if o["t"] in need:
                    tr_of.setdefault(o["t"], []).append(o)
        ver = vp.Verdicts(prop)
        for sig, t in sorted(first.items()):
            rp = vp.save_replay(prop, "sched-%s.json" % vp.sig_id(sig), dict(
                signature=sig, schedule=st_of.get(t), trace=tr_of.get(t),
                how="write the 'schedule' object as one line to s.ndjson; harness/bin/watcher -steps s.ndjson -out trace.ndjson; "
                    "validate trace.ndjson with spec/WatcherTrace.tla (or ./check C20)"))
            ver.add(sig, rp)
        # measured coverage
        reports, nrep, srcs = {}, 0, {}
        sample_ts = set(random.Random(vp.seed()).sample(range(1, ntraces + 1), min(4, ntraces)))
        samples = {}
        actual = {}
        for ln in open(trace):
            o = json.loads(ln)
            if o["e"] == "reset":
                k = o["src"] + "/" + o["kind"]
                srcs[k] = srcs.get(k, 0) + 1
            elif o["e"] == "report":
                nrep += 1
                k = "%s/%s" % (o["reg"], o["res"])
                reports[k] = reports.get(k, 0) + 1
                if o["t"] in pred:
                    actual.setdefault(o["t"], []).append(k)
            if o["t"] in sample_ts:
                samples.setdefault(o["t"], []).append(o)
        differ = sorted(t for t in pred if pred[t] != actual.get(t, []))
        shapes = {}
        for t in differ:
            k = "%s -> %s" % (",".join(pred[t]) or "-", ",".join(actual.get(t, [])) or "-")
            shapes[k] = shapes.get(k, 0) + 1
        rc = ver.report()
        vp.write_evidence(prop, tier, "model_checking", dict(
            states=sum(m["distinct"] for m in mcs), transitions=sum(m["generated"] for m in mcs),
            traces_validated_against_impl=ntraces,
            samples=[dict(trace=samples[t]) for t in sorted(samples)],
            exhaustive=False,
            evaluations=ntraces, distinct_nontrivial=nsched,
            rule="design model: every interleaving of chain events (broadcast, block, reorg of 1-2 blocks, spend), node answers "
                 "(ok / one block stale / error) and watcher steps within the budgets of each configuration, P_C20a-d checked by TLC "
                 "on all of them; one schedule per coverage key (last evaluation incl. everything inside it x abstract end situation) "
                 "is replayed on the real watcher, plus VERIF_SEED random schedules; distinct_nontrivial = distinct coverage keys",
            configurations=[dict(name=m["name"], constants=m["consts"], states=m["distinct"], transitions=m["generated"],
                                 depth=m["depth"], schedules_exported=len(m["schedules"]), wall_s=m["wall"]) for m in mcs],
            schedules_from_tlc=nsched, schedules_random=nrand, schedules_by_source_and_kind=srcs,
            trace_lines=nlines, reports_judged=nrep, reports_by_kind=reports,
            model_prediction=dict(
                note="reports of the real watcher vs reports of the specification's watcher on the same TLC schedule; a difference "
                     "is not a violation (the verdict comes from WatcherTrace), it measures how faithful the design model is",
                same=nsched - len(differ), different=len(differ), different_by_shape=shapes,
                examples=[dict(t=t, predicted=pred[t], real=actual.get(t, [])) for t in differ[:5]]),
            trace_spec="WatcherTrace: chain replayed with Watcher's operators and cross-checked; P_C20a/c on every report against the "
                       "chain states between trigger observation and callback; P_C20b at the end of every evaluation; P_C20d on "
                       "every report",
            known_findings=sorted(ver.known), new_violations=sorted(ver.new),
        ), time.time() - t0, len(ver.new), assumptions=[
            "a report is judged against the chain states between the watcher's trigger observation (the instant the consumed "
            "notification was taken from the node / the registration call) and the callback; later blocks are not held against it",
            "a stale answer is computed on the best chain without its tip block; a registration that used one may be justified by such a view",
            "reorganisations replace the top 1-2 blocks by as many new ones (height never decreases); the tx returns to the mempool",
            "failure reports are never wrong by themselves (C20 only restricts Confirmed / CsvMature and demands Failed at the deadline)",
            "the RPC watcher is driven through VerifDeliverHeight (dispatcher of StartWatchingTxs bypassed; its 500 ms poll and 100 ms sleep "
            "are not executed); the LND watcher is not covered (outside the property's quantifier)",
            "model heights are small (window 2-5, csv 2-6, confs 2-3); the real watchers receive them offset by a base height",
        ])
        return rc
    finally:
        vp.cleanup(wd)
