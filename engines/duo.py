"""Engine `duo`: TWO REAL peerswap nodes running the swap protocol against each other.

  spec           : spec/Duo.tla - the two-party protocol as a composition (two nodes = per-role state machines over the
                   tables EXTRACTED FROM THE CODE, a FIFO network with loss / duplication / delay, a chain, a Lightning
                   channel with HTLCs that can be held, an environment scheduler); spec/DuoProps.tla - D1..D5
  TLC, design    : DuoMC checks P_D1..P_D5 on every schedule of the bounded configurations (both swap types x both chains x
                   who initiates; loss / delay of every message, duplication of the retransmitted opening_tx_broadcasted,
                   timeouts, retransmission, restarts, one failing service call, one crash, one adversarial duplicate)
                   and exports the shortest schedule per coverage key
  spec -> code   : harness/duo (cmd/duo) executes every schedule, their fair closures (network heals / stays dead) and
                   VERIF_SEED random walks on two real swap.SwapService instances wired together
  code -> spec   : DuoTrace re-executes every recorded step on the model (joint snapshot must agree: conformance) and folds the
                   real events through the same D1..D5 definitions
Verdicts come only from the real traces; signatures are mapped onto the catalogue (D1/D4 -> C06 / C07 / C23, D2 -> C16,
D3 -> C08 / C12, D5 -> C09 / C22) as `Cxx|duo|...`. Disagreement model <-> code without a property violation is drift: exit 2.
"""
import glob
import hashlib
import json
import os
import random
import shutil
import sys
import tempfile
import time
from concurrent.futures import ThreadPoolExecutor

import vp

PROPS = ["C06", "C07", "C08", "C09", "C12", "C16", "C22", "C23"]

# D-signature prefix (first two segments) -> (catalogue property, clause)
MAP = {
    "D1|paid-and-refunded": ("C06", "paid-and-refunded"),
    "D1|paid-output-unclaimed": ("C06", "paid-output-unclaimed"),
    "D1|paid-but-not-claimed": ("C06", "paid-but-not-claimed"),
    "D1|payment-still-in-flight": ("C06", "payment-still-in-flight"),
    "D1|claimed-without-payment": ("C07", "claimed-without-payment"),
    "D1|maker-funds-abandoned": ("C07", "csv-matured-refund-not-broadcast"),
    "D2|not-terminated": ("C16", "not-terminated"),
    "D2|channel-not-released": ("C16", "channel-not-released"),
    "D2|node-down-after-closure": ("C16", "node-down-after-closure"),
    "D3|records-disagree": None,  # by field, below
    "D3|premium-not-configured-rate": ("C12", "responder-premium"),
    "D3|announced-tx-not-broadcast": ("C08", "txid"),
    "D4|coop_close-while-payment-inflight": ("C06", "coop_close-while-payment-inflight"),
    "D4|coop_close-while-payment-succeeded": ("C06", "coop_close-while-payment-succeeded"),
    "D4|key-delivered-while-payment-inflight": ("C06", "key-delivered-while-payment-inflight"),
    "D4|key-delivered-while-payment-succeeded": ("C06", "key-delivered-while-payment-succeeded"),
    "D4|coop_close-by-non-taker": ("C23", "coop_close-by-non-taker"),
    "D4|leak": ("C23", "leak"),
    "D5|retransmit-in": ("C22", "retransmit-in"),
}


def map_sig(sig):
    """`Dn|clause|rest` -> `Cxx|duo|clause|rest`."""
    parts = sig.split("|")
    head = "|".join(parts[:2])
    rest = parts[2:]
    if head == "D3|records-disagree":
        f = rest[0] if rest else "?"
        prop = "C08" if f in ("tx", "vout", "hash") else "C12"
        return "|".join([prop, "duo", "records-disagree"] + rest)
    m = MAP.get(head)
    if m:
        return "|".join([m[0], "duo", m[1]] + rest)
    if parts[0] == "D5":
        return "|".join(["C09", "duo"] + parts[1:])
    return "|".join(["C09", "duo", "unmapped"] + parts)


# ---------------------------------------------------------------------------------------------- configurations

def chain_params(chain):
    return (3, 504, 1008) if chain == "btc" else (2, 60, 10080)


def closure(chain, heal):
    """The fair closure: time passes, pending HTLCs resolve, blocks arrive past every deadline, both nodes are restarted
    (twice), the network heals (everything queued is delivered) or stays dead (everything queued is lost)."""
    mc, win, csv = chain_params(chain)
    net = dict(a="flush") if heal else dict(a="dropall")
    blk = lambda n, incl: dict(a="block", nb=n, incl=incl)
    return [net, dict(a="tick"), dict(a="htlc", k="settle"), blk(mc, True), dict(net), blk(win, False), dict(net), blk(csv + 1, True), dict(net),
            dict(a="restart", n="A"), dict(a="restart", n="B"), dict(net), dict(a="tick"), blk(mc, True), blk(csv + 1, True), dict(net),
            dict(a="restart", n="A"), dict(a="restart", n="B"), dict(net), blk(mc, True), blk(csv + 1, True), dict(net)]


def tla_step(st):
    b = lambda x: "TRUE" if x else "FALSE"
    return '[a |-> "%s", n |-> "%s", typ |-> "%s", d |-> "%s", nb |-> %d, incl |-> %s, k |-> "%s", f |-> None, c |-> None]' % (
        st["a"], st.get("n", ""), st.get("typ", ""), st.get("d", ""), st.get("nb", 0), b(st.get("incl", False)), st.get("k", ""))


FAMILIES = {
    # budgets of one behaviour: steps, restarts, duplications, drops, ten-minute ticks, retransmission ticks, block steps, failing calls, crashes
    "quick": dict(
        net=dict(maxsteps=8, restarts=0, dups=1, drops=1, ticks=1, retx=1, blocks=2, faults=0, crashes=0, close=True),
        restart=dict(maxsteps=7, restarts=1, dups=0, drops=1, ticks=1, retx=0, blocks=2, faults=0, crashes=0, close=True),
        fault=dict(maxsteps=6, restarts=0, dups=0, drops=0, ticks=1, retx=1, blocks=2, faults=1, crashes=0, close=True),
        crash=dict(maxsteps=6, restarts=0, dups=0, drops=0, ticks=0, retx=0, blocks=2, faults=0, crashes=1, close=True),
        # one adversarial duplicate (a node sends a message twice; e.g. the request: refused with cancel): D1 / D3 / D4 only
        adv=dict(maxsteps=6, restarts=0, dups=0, advdups=1, drops=0, ticks=0, retx=0, blocks=2, faults=0, crashes=0, close=True),
    ),
    "thorough": dict(
        net=dict(maxsteps=9, restarts=0, dups=1, drops=2, ticks=2, retx=1, blocks=3, faults=0, crashes=0, close=True),
        restart=dict(maxsteps=8, restarts=2, dups=1, drops=1, ticks=1, retx=1, blocks=3, faults=0, crashes=0, close=True),
        fault=dict(maxsteps=7, restarts=1, dups=0, drops=1, ticks=1, retx=1, blocks=3, faults=1, crashes=0, close=True),
        crash=dict(maxsteps=7, restarts=1, dups=0, drops=0, ticks=1, retx=0, blocks=3, faults=0, crashes=1, close=True),
        crashfault=dict(maxsteps=6, restarts=0, dups=0, drops=0, ticks=0, retx=0, blocks=2, faults=1, crashes=1, close=True),
        adv=dict(maxsteps=7, restarts=1, dups=0, advdups=1, drops=1, ticks=1, retx=0, blocks=3, faults=0, crashes=0, close=True),
    ),
}


def configs(tier):
    out = []
    for fam, b in FAMILIES[tier].items():
        for typ in ("out", "in"):
            for chain in ("btc", "lbtc"):
                for init in ("A", "B"):
                    if tier == "quick" and init == "B" and fam in ("fault", "crash", "adv"):
                        continue   # the nodes are symmetric: B initiates in the network and restart families only
                    c = dict(advdups=0)
                    c.update(b)
                    c.update(name="%s_%s_%s_%s" % (typ, chain, init, fam), typ=typ, chain=chain, init=init, fam=fam)
                    out.append(c)
    only = os.environ.get("VERIF_DUO_ONLY")
    if only:
        out = [c for c in out if any(o in c["name"] for o in only.split(","))]
    return out


def weight(c):
    w = dict(net=3.0, restart=2.0, fault=6.0, crash=8.0, crashfault=20.0, adv=2.0)[c["fam"]]
    return w * (1.3 if c["typ"] == "out" else 1.0)


def write_cfgs(path, cfgs, refuse_with_cancel=True):
    rows = []
    for c in cfgs:
        rows.append('  [name |-> "%s", typ |-> "%s", chain |-> "%s", init |-> "%s", maxsteps |-> %d, restarts |-> %d, dups |-> %d, advdups |-> %d, drops |-> %d, ticks |-> %d, '
                    'retx |-> %d, blocks |-> %d, faults |-> %d, crashes |-> %d, close |-> %s]' % (
                        c["name"], c["typ"], c["chain"], c["init"], c["maxsteps"], c["restarts"], c["dups"], c["advdups"], c["drops"], c["ticks"], c["retx"], c["blocks"],
                        c["faults"], c["crashes"], "TRUE" if c["close"] else "FALSE"))
    with open(path, "w") as f:
        f.write("------------------------------ MODULE DuoCfgs ------------------------------\n")
        f.write("(* GENERATED (engines/duo.py): configurations of the design model and the fair closure (the same step list the harness executes). *)\n")
        f.write("EXTENDS DuoProps\n")
        f.write("CONFIGS == {\n" + ",\n".join(rows) + "}\n")
        f.write("\\* how the tree under test treats a request whose swap id it knows when it comes from that swap's own counterparty (probed on the real code)\n")
        f.write("RefuseKnownIdWithCancel == %s\n" % ("TRUE" if refuse_with_cancel else "FALSE"))
        f.write("ClosureSteps(chain, heal) ==\n")
        alts = []
        for chain in ("btc", "lbtc"):
            for heal in (True, False):
                alts.append('  %s chain = "%s" /\\ %s -> <<%s>>' % ("CASE" if not alts else "  []", chain, "heal" if heal else "~heal",
                                                                 ",\n        ".join(tla_step(s) for s in closure(chain, heal))))
        f.write("\n".join(alts) + "\n    [] OTHER -> <<>>\n")
        f.write("===============================================================================\n")


def harness_cfg(chain):
    return dict(chain=chain, rate_btc_out=5000, rate_btc_in=10000, rate_lbtc_out=3000, rate_lbtc_in=7000, open_fee_sat=1000)


def clean_step(st):
    out = {}
    for k, v in st.items():
        if k in ("f", "c"):
            if isinstance(v, dict) and "none" not in v:
                out[k] = v
        elif v not in ("", 0, False, None):
            out[k] = v
    return out


def expand(steps, chain):
    """`close` macro steps of the model -> the primitive steps of the closure."""
    out, closed, heal = [], False, False
    for st in steps:
        if st["a"] == "close":
            closed, heal = True, st["k"] == "heal"
            out += closure(chain, heal)
        else:
            out.append(st)
    return out, closed, heal


# ---------------------------------------------------------------------------------------------- pipeline

def tree_hash():
    h = hashlib.sha256()
    for dp, dn, fn in os.walk(vp.REPO):
        dn[:] = sorted(d for d in dn if d not in (".git", "node_modules"))
        for f in sorted(fn):
            if f.endswith(".go") or f in ("go.mod", "go.sum"):
                p = os.path.join(dp, f)
                h.update(p.encode())
                try:
                    h.update(open(p, "rb").read())
                except OSError:
                    pass
    for p in sorted(glob.glob(os.path.join(vp.SPEC, "Duo*")) + glob.glob(os.path.join(vp.HARNESS_SRC, "duo", "*.go"))
                    + glob.glob(os.path.join(vp.HARNESS_SRC, "cmd", "duo", "*.go")) + [__file__, os.path.join(vp.VERIF, "lib", "vp.py")]):
        h.update(open(p, "rb").read())
    return h.hexdigest()[:20]


INVARIANTS = ["P_D1_Atomicity", "P_D2_Termination", "P_D3_Agreement", "P_D4_NoEarlySecret", "P_D5_Conformance"]


def probe(binp, wd):
    """Behaviour probe on the real code: is a request sent twice (adversarial duplicate, step advdup) answered with cancel?"""
    sp, tr = os.path.join(wd, "probe.ndjson"), os.path.join(wd, "probe-trace.ndjson")
    open(sp, "w").write(json.dumps(dict(name="probe", cfg=harness_cfg("btc"), steps=[dict(a="init", n="A", typ="out"), dict(a="advdup", d="AB"), dict(a="deliver", d="AB")])) + "\n")
    vp.run([binp, "-schedules", sp, "-out", tr, "-workers", "1"], timeout=120)
    last = [json.loads(ln) for ln in open(tr) if '"ev":"step"' in ln][-1]
    rc = [e for e in last["evs"] if e["e"] == "recv"]
    if not rc:
        raise vp.Fatal("probe: no delivery recorded")
    return "cancel" in rc[-1].get("sent", [])


def export_all(sd_base, wd, tier, timeout, refuse):
    cfgs = configs(tier)
    nshard = min(int(os.environ.get("VERIF_SHARDS", "10")), len(cfgs))
    # longest-processing-time first over the shards
    shards = [[] for _ in range(nshard)]
    load = [0.0] * nshard
    for c in sorted(cfgs, key=weight, reverse=True):
        i = load.index(min(load))
        shards[i].append(c)
        load[i] += weight(c)

    def one(i):
        sd = os.path.join(wd, "mc%d" % i)
        shutil.copytree(sd_base, sd)
        os.makedirs(os.path.join(sd, "out"))
        write_cfgs(os.path.join(sd, "DuoCfgs.tla"), shards[i], refuse)
        res = vp.tlc("DuoMC", "DuoMC.cfg", sd, workers=1, timeout=timeout, heap="5g", quiet=True)
        vf = os.path.join(sd, "out", "violated.json")
        if not os.path.exists(vf):
            raise vp.Fatal("DuoMC did not finish (no out/violated.json):\n" + res["out"][-2000:])
        res["violated"] = sorted(set(res["violated"]) | set(json.load(open(vf))["violated"]))
        scheds = []
        for p in sorted(glob.glob(os.path.join(sd, "out", "s_*.json")), key=lambda q: int(q.split("_")[-1].split(".")[0])):
            scheds.append(json.load(open(p)))
        shutil.rmtree(sd, ignore_errors=True)
        return res, scheds

    t0 = time.time()
    with ThreadPoolExecutor(nshard) as ex:
        parts = list(ex.map(one, range(nshard)))
    res = dict(generated=sum(p[0]["generated"] for p in parts), distinct=sum(p[0]["distinct"] for p in parts), depth=max(p[0]["depth"] for p in parts),
               wall=time.time() - t0, ncfg=len(cfgs), violated=sorted({v for p in parts for v in p[0]["violated"]}),
               shard_walls=[round(p[0]["wall"], 1) for p in parts])
    scheds = [s for p in parts for s in p[1]]
    return res, scheds, cfgs


def validate_chunks(sd, trace, timeout, nchunk):
    """Trace validation in pieces cut at trace boundaries, one TLC process per piece (own copy of the spec directory)."""
    lines = open(trace).readlines()
    starts = [i for i, ln in enumerate(lines) if '"ev":"reset"' in ln]
    if not starts:
        raise vp.Fatal("empty trace")
    per = max(1, (len(starts) + nchunk - 1) // nchunk)
    cuts = starts[::per] + [len(lines)]
    pieces = [lines[cuts[i]:cuts[i + 1]] for i in range(len(cuts) - 1)]

    def one(i):
        d = "%s-piece%d" % (sd, i)
        shutil.copytree(sd, d, ignore=shutil.ignore_patterns("v", "out", "trace.ndjson", "states", "meta-*"))
        os.makedirs(os.path.join(d, "v"))
        tp = os.path.join(d, "trace.ndjson")
        with open(tp, "w") as f:
            f.writelines(pieces[i])
        v = vp.validate_trace("DuoTrace", "DuoTrace.cfg", d, tp, timeout=timeout, heap="4g")
        out = [json.load(open(p)) for p in glob.glob(os.path.join(d, "v", "*.json"))]
        shutil.rmtree(d, ignore_errors=True)
        return v["n"], out

    with ThreadPoolExecutor(min(len(pieces), nchunk)) as ex:
        res = list(ex.map(one, range(len(pieces))))
    return sum(r[0] for r in res), [x for r in res for x in r[1]]


_memo = {}


def run_all(tier):
    """One shared run per (tree, spec, harness, tier, seed); cached."""
    key = "%s-%s-%d%s" % (tree_hash(), tier, vp.seed(), ("-" + hashlib.sha256(os.environ["VERIF_DUO_ONLY"].encode()).hexdigest()[:8]) if os.environ.get("VERIF_DUO_ONLY") else "")
    if key in _memo:
        return _memo[key]
    cdir = os.environ.get("VERIF_CACHE_DIR") or os.path.join(vp.WORKROOT, "cache-swapfsm")
    cfile = os.path.join(cdir, "duo-" + key + ".json")
    if os.path.exists(cfile) and not os.environ.get("VERIF_NOCACHE"):
        vp.log("duo: reusing result of this tree/spec/tier/seed:", key)
        _memo[key] = json.load(open(cfile))
        return _memo[key]
    t0 = time.time()
    wd = vp.workdir("duo")
    try:
        binp = vp.build_harness("./cmd/duo")
        sd = vp.spec_copy(wd)
        # Leg A: the state tables of the tree under test become constants of the specification
        tj = os.path.join(wd, "tables.json")
        vp.run([binp, "-tables", tj])
        sys.path.insert(0, os.path.join(vp.VERIF, "tools"))
        import gen_tables
        gen_tables.gen(json.load(open(tj)), os.path.join(sd, "FsmTables.tla"))
        tmo = 5400 if tier == "thorough" else 900
        refuse = probe(binp, wd)
        write_cfgs(os.path.join(sd, "DuoCfgs.tla"), configs(tier), refuse)    # (the trace specification extends the same module)
        res, exported, cfgs = export_all(sd, wd, tier, tmo, refuse)
        vp.log("  model: %d configurations, %d generated, %d distinct, depth %d, %.1fs -> %d schedules; invariants violated: %s" % (
            res["ncfg"], res["generated"], res["distinct"], res["depth"], res["wall"], len(exported), res["violated"] or "none"))
        drifted = [s for s in exported if any("spec-drift" in x for x in s.get("expect", []))]
        if drifted:
            raise vp.Fatal("SPEC-DRIFT: the code's state tables name an Action the specification does not model: %s" % drifted[0]["expect"])
        # schedules for the harness
        scheds, seen = [], set()
        for s in exported:
            steps, closed, heal = expand([clean_step(st) for st in s["steps"]], s["chain"])
            k = json.dumps([s["chain"], steps], sort_keys=True)
            if k in seen:
                continue
            seen.add(k)
            scheds.append(dict(name=s["name"], cfg=harness_cfg(s["chain"]), steps=steps, closed=closed, heal=heal, expect=s.get("expect", []), model=True))
        # an open schedule that is a proper prefix of another open one is covered by the longer one (the harness is deterministic)
        opened = [s for s in scheds if not s["closed"]]
        keys = [(s["cfg"]["chain"], [json.dumps(st, sort_keys=True) for st in s["steps"]]) for s in opened]
        pref = {}
        for c, st in keys:
            pref.setdefault(c, set()).update("\x00".join(st[:k]) for k in range(1, len(st)))
        maximal = [s for s, (c, st) in zip(opened, keys) if "\x00".join(st) not in pref[c]]
        nexported = len(scheds)
        scheds = [s for s in scheds if s["closed"]] + maximal
        nmodel = len(scheds)
        # the fair closure after every maximal schedule (network heals / stays dead): D1, D2 on the real code after every prefix the model names
        for s in maximal:
            for heal in (True, False):
                scheds.append(dict(name=s["name"] + (":heal" if heal else ":dead"), cfg=s["cfg"], steps=s["steps"] + closure(s["cfg"]["chain"], heal), closed=True, heal=heal))
        # VERIF_SEED random walks (deeper than the exhaustive bound), half of them followed by the closure
        rng = random.Random(vp.seed())
        nrand = 300 if tier == "quick" else 3000
        for i in range(nrand):
            chain = rng.choice(["btc", "lbtc"])
            typ, init = rng.choice(["out", "in"]), rng.choice(["A", "B"])
            heal = rng.random() < 0.5
            closed = rng.random() < 0.6
            scheds.append(dict(name="random-%d-%s-%s-%s" % (i, typ, chain, init), cfg=harness_cfg(chain), steps=[dict(a="init", n=init, typ=typ)], random=rng.randint(6, 24),
                               seed=rng.randint(1, 2 ** 31 - 1), after=closure(chain, heal) if closed else [], closed=closed, heal=heal))
        sp = os.path.join(wd, "schedules.ndjson")
        with open(sp, "w") as f:
            for s in scheds:
                f.write(json.dumps({k: v for k, v in s.items() if k not in ("expect", "model")}) + "\n")
        trace = os.path.join(wd, "trace.ndjson")
        nodes = tempfile.mkdtemp(prefix="verif-duo-", dir="/dev/shm" if os.path.isdir("/dev/shm") else None)
        t1 = time.time()
        try:
            vp.run([binp, "-schedules", sp, "-out", trace, "-workers", str(vp.NCPU), "-tmp", nodes], timeout=tmo)
        finally:
            shutil.rmtree(nodes, ignore_errors=True)
        vp.log("  code: %d schedules (%d from the model, %d closures, %d random walks) on two real nodes in %.1fs" % (
            len(scheds), nmodel, 2 * len(maximal), nrand, time.time() - t1))
        t1 = time.time()
        nlines, verdicts = validate_chunks(sd, trace, tmo, min(12, vp.NCPU))
        vp.log("  trace validation: %d step lines, %.1fs" % (nlines, time.time() - t1))
        # what the harness itself could not do
        nsteps, hfault = 0, []
        for ln in open(trace):
            if '"ev":"fault"' in ln:
                hfault.append(json.loads(ln))
            elif '"ev":"step"' in ln:
                nsteps += 1
        if hfault:
            raise vp.Fatal("harness failure: %s" % json.dumps(hfault[0])[:400])
        byt = {v["t"]: v for v in verdicts}
        viols, drift, known_pred = [], [], set()
        steps_of = {}
        if any(s.get("random") for s in scheds):
            for ln in open(trace):
                if '"ev":"step"' in ln:
                    e = json.loads(ln)
                    steps_of.setdefault(e["t"], []).append(e["st"])
        for i, s in enumerate(scheds):
            v = byt.get(i + 1)
            if not v:
                continue
            replay = dict(name=s["name"], cfg=s["cfg"], steps=steps_of.get(i + 1) or s["steps"], closed=s["closed"], heal=s["heal"])
            if v.get("drift"):
                drift.append(dict(name=s["name"], what=v["drift"], schedule=replay))
            else:
                po, oo = sorted(set(v["pred"]) - set(v["viol"])), sorted(set(v["viol"]) - set(v["pred"]))
                if po or oo:
                    drift.append(dict(name=s["name"], what="violations predicted by the model only: %s; observed on the code only: %s" % (po, oo), schedule=replay))
            for sig in v["viol"]:
                viols.append(dict(sig=map_sig(sig), dsig=sig, name=s["name"], spec_known=sig in v.get("known", []), schedule=replay))
        out = dict(key=key, tier=tier, model=dict(generated=res["generated"], distinct=res["distinct"], depth=res["depth"], wall=round(res["wall"], 1), configurations=res["ncfg"],
                                                   invariants_violated=res["violated"], shard_walls=res["shard_walls"]),
                   nexported=nexported, nschedules=len(scheds), nmodel=nmodel, nclosures=2 * len(maximal), nrandom=nrand, nsteps=nsteps, nlines=nlines,
                   viol=viols, drift=drift[:40], ndrift=len(drift),
                   predicted=sorted({map_sig(x) for s in scheds for x in s.get("expect", [])}),
                   samples=[dict(name=s["name"], steps=s["steps"][:12]) for s in random.Random(vp.seed()).sample(scheds, min(3, len(scheds)))],
                   wall=round(time.time() - t0, 1))
        os.makedirs(cdir, exist_ok=True)
        for old in glob.glob(os.path.join(cdir, "duo-*.json")):
            if time.time() - os.path.getmtime(old) > 6 * 3600:
                os.remove(old)
        tmpf = "%s.tmp-%d" % (cfile, os.getpid())
        with open(tmpf, "w") as f:
            json.dump(out, f)
        os.replace(tmpf, cfile)
        _memo[key] = out
        return out
    finally:
        vp.cleanup(wd)


ASSUMPTIONS = ["simulated chain / Lightning layer / wallets / network around two real swap services (harness/duo); the Bitcoin validator and script builder are the real ones, Liquid transactions are abstract",
               "one swap per behaviour, fixed amount 10^6 sat, budgets of the configurations (steps, drops, duplications, ticks, restarts, one failing call, one crash)",
               "settlement of an HTLC does not need the payee's peerswap process; a message delivered to a stopped node is lost",
               "the claim-payment retry loop is ended after 12 attempts (logical clock), retransmission ticks are scheduler steps"]


def _verdicts(r, prop):
    ver = vp.Verdicts(prop)
    for x in r["viol"]:
        if x["sig"].startswith(prop + "|duo|"):
            rp = vp.save_replay(prop, "duo-%s.json" % vp.sig_id(x["sig"]), dict(signature=x["sig"], d_signature=x["dsig"], schedule=x["schedule"],
                                how="harness/bin/duo -schedules <this schedule as one NDJSON line> -out trace.ndjson; the trace is judged by spec/DuoTrace.tla"))
            ver.add(x["sig"], rp)
    return ver


def _coverage(r, extra=None):
    cov = dict(states=r["model"]["distinct"], transitions=r["model"]["generated"], traces_validated_against_impl=r["nschedules"],
               steps_validated=r["nsteps"], samples=r["samples"], model=r["model"], schedules_from_model=r["nmodel"], closures=r["nclosures"],
               random_walks=r["nrandom"], conformance_drift_schedules=r["ndrift"], violations_predicted_by_model=r["predicted"],
               rule="TLC explores spec/Duo.tla per configuration (tables extracted from the code) and exports the shortest schedule per coverage key; every "
                    "schedule, its fair closures and seeded random walks run on two real swap.SwapService instances (harness/duo); TLC re-executes each "
                    "recorded step on the model (joint snapshot must agree) and evaluates D1..D5 (DuoProps) on the real events",
               shared_run_wall_s=r["wall"])
    if extra:
        cov.update(extra)
    return cov


def _check_drift(r, any_new):
    if r["ndrift"] and not any_new:
        d = r["drift"][0]
        raise vp.Fatal("conformance drift (specification vs two real nodes) on %d of %d schedules, e.g. %s: %s | schedule: %s" % (
            r["ndrift"], r["nschedules"], d["name"], d["what"], json.dumps(d["schedule"]["steps"])[:700]))
    if r["ndrift"]:
        vp.log("conformance drift on %d schedules (reported next to the violations), e.g. %s: %s" % (r["ndrift"], r["drift"][0]["name"], r["drift"][0]["what"]))


def part(prop, tier):
    """For the lead's joined checks: no printing, no evidence file."""
    t0 = time.time()
    r = run_all(tier)
    vers = {p: _verdicts(r, p) for p in PROPS}
    _check_drift(r, any(v.new for v in vers.values()))
    ver = vers.get(prop) or _verdicts(r, prop)
    return dict(rc=1 if ver.new else 0, coverage=_coverage(r), violations_new=dict(ver.new), known=dict(ver.known), assumptions=list(ASSUMPTIONS),
                wall=time.time() - t0)


def run(prop, tier):
    """run("DUO", tier): all mapped properties, lines printed under the mapped property ids, evidence/DUO.json."""
    t0 = time.time()
    r = run_all(tier)
    props = PROPS if prop == "DUO" else [prop]
    vers = {p: _verdicts(r, p) for p in PROPS}
    rc = 0
    for p in props:
        rc = max(rc, vers[p].report())
    new = sorted(s for p in props for s in vers[p].new)
    known = sorted(s for p in props for s in vers[p].known)
    # (evidence of the catalogue properties themselves is written by the checks that join this engine through part())
    vp.write_evidence("DUO" if prop == "DUO" else "DUO_" + prop, tier, "model_checking", _coverage(r, dict(known_findings=known, new_violations=new)),
                      time.time() - t0, len(new), assumptions=ASSUMPTIONS)
    _check_drift(r, any(v.new for v in vers.values()))
    return rc


def replay(prop, path):
    """Re-executes one schedule on two real nodes and prints what the observer says."""
    rp = json.load(open(path))
    sched = rp.get("schedule", rp)
    wd = vp.workdir("duo-replay")
    try:
        binp = vp.build_harness("./cmd/duo")
        sd = vp.spec_copy(wd)
        tj = os.path.join(wd, "tables.json")
        vp.run([binp, "-tables", tj])
        sys.path.insert(0, os.path.join(vp.VERIF, "tools"))
        import gen_tables
        gen_tables.gen(json.load(open(tj)), os.path.join(sd, "FsmTables.tla"))
        sp = os.path.join(wd, "s.ndjson")
        open(sp, "w").write(json.dumps(sched) + "\n")
        trace = os.path.join(wd, "trace.ndjson")
        vp.run([binp, "-schedules", sp, "-out", trace, "-workers", "1"])
        os.makedirs(os.path.join(sd, "v"), exist_ok=True)
        vp.validate_trace("DuoTrace", "DuoTrace.cfg", sd, trace)
        sigs, drift = set(), ""
        for p in glob.glob(os.path.join(sd, "v", "*.json")):
            j = json.load(open(p))
            sigs |= {map_sig(x) for x in j["viol"]}
            drift = j.get("drift", "")
        for ln in open(trace):
            e = json.loads(ln)
            if e["ev"] == "step":
                print("step", e["i"], json.dumps(e["st"]), "->", e["res"])
                for x in e["evs"]:
                    if x["e"] in ("send", "recv", "p", "htlc", "htlcres", "paid", "payfee", "open", "spend", "crash", "fault"):
                        print("     ", {k: v for k, v in x.items() if k in ("e", "n", "k", "res", "ok", "prev", "cur", "pre", "to", "dup", "g", "w", "what", "sent")})
        print("observer verdict:", sorted(sigs) or "no violation", ("| drift: " + drift) if drift else "")
        return 1 if any(x.startswith(prop + "|") for x in sigs) or (prop == "DUO" and sigs) else 0
    finally:
        vp.cleanup(wd)
