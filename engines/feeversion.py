"""C30 - fee floor and version ordering. Reference engine for the pattern:
TLC enumerates the case space of spec/FeeVersion.tla and checks the lemmas on
the specification; the Go harness evaluates every case on the real functions;
TLC validates the recorded answers with FeeVersionTrace (observer)."""
import json
import os
import random
import time

import vp


def run(prop, tier):
    t0 = time.time()
    wd = vp.workdir(prop)
    try:
        sd = vp.spec_copy(wd)
        binp = vp.build_harness("./cmd/feeversion")
        mc = vp.tlc("FeeVersionMC", "FeeVersionMC.cfg", sd, timeout=600)
        if not mc["ok"]:
            raise vp.Fatal("the specification's own lemmas fail: %s" % mc["violated"])
        cases = os.path.join(sd, "cases.ndjson")
        ncases = vp.count_lines(cases)
        trace = os.path.join(sd, "trace.ndjson")
        vp.run([binp, "-cases", cases, "-out", trace], timeout=600)
        v = vp.validate_trace("FeeVersionTrace", "FeeVersionTrace.cfg", sd, trace)
        ver = vp.Verdicts(prop)
        for sig in v["viol"]:
            rp = vp.save_replay(prop, "case-%s.json" % vp.sig_id(sig), dict(signature=sig, how="./check C30; case is in the signature"))
            ver.add(sig, rp)
        lines = [json.loads(x) for x in open(trace)]
        random.Random(vp.seed()).shuffle(lines)
        kinds = {}
        for ln in lines:
            kinds[ln["kind"]] = kinds.get(ln["kind"], 0) + 1
        rc = ver.report()
        vp.write_evidence(prop, tier, "model_checking", dict(
            states=mc["distinct"], transitions=mc["generated"],
            traces_validated_against_impl=v["n"],
            samples=lines[:5],
            exhaustive=True,
            evaluations=v["n"], distinct_nontrivial=ncases,
            rule="every case of the finite case space of FeeVersion.tla (estimator answer x floor x fallback x size; "
                 "version strings; pairs of version strings) exported by TLC, evaluated once on the real function",
            cases_by_kind=kinds,
            spec_lemmas="LemmaRateFloor LemmaFallback LemmaReflexive LemmaTotal LemmaTransitive LemmaAntisym (ASSUME, TLC)",
            trace_spec="FeeVersionTrace: answer = spec answer per line; totality and transitivity over the real answers",
            known_findings=sorted(ver.known), new_violations=sorted(ver.new),
        ), time.time() - t0, len(ver.new),
            assumptions=["float64 fee arithmetic may land one below an exactly integral product (FeeOK)",
                         "TLC integers are 32-bit: rates <= 25000 sat/kw, sizes <= 10000 vB"])
        return rc
    finally:
        vp.cleanup(wd)
