"""Engine `swapfsm`: the swap state machines (PeerSwap.tla + PeerSwapObs.tla).

  code -> spec   : FSM tables extracted from the tree under test -> FsmTables.tla
  spec, TLC      : design model explored breadth-first per configuration; the first behaviour reaching each
                   coverage key (incl. every distinct set of predicted violations) is exported as a schedule
  spec -> code   : harness/l1 (psim) executes every schedule on the REAL swap service
  code -> spec   : TLC replays the recorded events through the observer (PeerSwapTrace): all property checks
                   are evaluated at every event of the real execution
Verdicts come only from the real traces. The model's prediction per schedule (final states, violations) is
compared with what the code did: disagreement is reported as drift (never as a violation).
"""
import glob
import hashlib
import json
import os
import random
import shutil
import subprocess
import sys
import tempfile
import time
from concurrent.futures import ThreadPoolExecutor

import vp

import swapfsm_cfgs


def tree_hash():
    h = hashlib.sha256()
    for root in (vp.REPO,):
        for dp, dn, fn in os.walk(root):
            dn[:] = sorted(d for d in dn if d not in (".git", "node_modules"))
            for f in sorted(fn):
                if f.endswith(".go") or f in ("go.mod", "go.sum"):
                    p = os.path.join(dp, f)
                    h.update(p.encode())
                    try:
                        h.update(open(p, "rb").read())
                    except OSError:
                        pass
    for p in sorted(glob.glob(os.path.join(vp.SPEC, "PeerSwap*")) + glob.glob(os.path.join(vp.HARNESS_SRC, "l1", "*.go"))
                    + glob.glob(os.path.join(vp.HARNESS_SRC, "cmd", "psim", "*.go")) + [__file__, os.path.join(vp.VERIF, "lib", "vp.py")]):
        h.update(open(p, "rb").read())
    return h.hexdigest()[:20]


def export_all(sd_base, wd, tier, timeout, only=None):
    """Design-level exploration + schedule export: the configurations are split round-robin over SHARDS (default 8) TLC processes
    (1 worker each, BFS - the coverage registers need a single worker); a schedule's coverage key contains its
    configuration name, so the union of the shards' exports equals the export of one run over all configurations."""
    nshard = int(os.environ.get("VERIF_SHARDS", "8" if tier == "quick" else "5"))   # thorough: fewer, bigger JVMs (memory)

    def one(i):
        sd = os.path.join(wd, "mc%d" % i)
        shutil.copytree(sd_base, sd)
        os.makedirs(os.path.join(sd, "out"))
        n = swapfsm_cfgs.write(os.path.join(sd, "PeerSwapCfgs.tla"), tier, only, (i, nshard))
        if n == 0:
            return dict(generated=0, distinct=0, depth=0, wall=0.0), [], 0
        res = vp.tlc("PeerSwapExport", "PeerSwapExport.cfg", sd, workers=1, timeout=timeout, heap="6g" if tier == "quick" else "7g", quiet=True)
        scheds = []
        for p in sorted(glob.glob(os.path.join(sd, "out", "s_*.json")), key=lambda q: int(q.split("_")[-1].split(".")[0])):
            s = json.load(open(p))
            s["cfg"] = harness_cfg(s["chain"])
            s["cfg"]["min_swap_msat"] = s.get("min_swap_msat", 100000000)
            s["cfg"]["accept_all"] = s.get("accept_all", True)
            s["cfg"]["dup_pay"] = s.get("dup_pay", "cln")
            s["cfg"]["swap_vout"] = s.get("swap_vout", 0)
            s["cfg"]["peer_rate_ppm"] = s.get("peer_rate") or None
            for k in ("wallet_sat", "spendable_msat", "receivable_msat", "btc_enabled", "lbtc_enabled"):
                if k in s:
                    s["cfg"][k] = s[k]
            scheds.append(s)
        shutil.rmtree(sd, ignore_errors=True)
        return res, scheds, n

    t0 = time.time()
    with ThreadPoolExecutor(nshard) as ex:
        parts = list(ex.map(one, range(nshard)))
    res = dict(generated=sum(p[0]["generated"] for p in parts), distinct=sum(p[0]["distinct"] for p in parts),
               depth=max(p[0]["depth"] for p in parts), wall=time.time() - t0, ncfg=sum(p[2] for p in parts))
    scheds = sorted((s for p in parts for s in p[1]), key=lambda s: (s["name"], json.dumps(s["steps"], sort_keys=True)))
    return res, scheds


def harness_cfg(chain):
    return dict(chain=chain, allow_new=True, accept_all=True, allow_peer=False, suspect_peer=False, min_swap_msat=100000000,
                btc_enabled=True, lbtc_enabled=True, rate_ppm=10000, peer_rate_ppm=None, wallet_sat=100000000, open_fee_sat=1000,
                spendable_msat=2000000000, receivable_msat=2000000000, dup_pay="cln", swap_vout=0, retransmit=False)


def closure_of(s):
    chain = s["cfg"]["chain"]
    w, csv = (504, 1008) if chain == "btc" else (60, 10080)
    blk = lambda n, incl: dict(a="block", chain=chain, n=n, incl=(["all"] if incl else []))
    steps = [dict(a="recover"), dict(a="tick", m=10), dict(a="htlc", sid="s1", kind="settle"), dict(a="htlc", sid="s2", kind="settle"), blk(3, True), blk(w, False),
             blk(csv + 1, True), dict(a="restart"), dict(a="tick", m=10), blk(3, True), blk(csv + 1, True), dict(a="tick", m=10), dict(a="restart"),
             blk(3, True), blk(csv + 1, True)]
    return dict(name=s["name"] + ":closed", cfg=s["cfg"], steps=list(s["steps"]) + steps, closed=True, closure="full", stored_version=s.get("stored_version", ""))


def down_at_end(s):
    """the node may be down at the end of the schedule: a crash (or stop) with no restart after it"""
    last_crash = max([i for i, st in enumerate(s["steps"]) if st.get("crash") or st["a"] == "stop"] or [-1])
    return last_crash >= 0 and not any(st["a"] in ("restart", "start") and not st.get("crash") for st in s["steps"][last_crash + 1:])


def closure_norestart(s):
    """C07c: the chain advances past the CSV while the peer is silent and the node keeps running (no restart heals anything)."""
    chain = s["cfg"]["chain"]
    csv = 1008 if chain == "btc" else 10080
    blk = lambda n, incl: dict(a="block", chain=chain, n=n, incl=(["all"] if incl else []))
    steps = [dict(a="recover"), dict(a="tick", m=10), blk(3, True), blk(csv + 1, True), blk(1, False)]
    return dict(name=s["name"] + ":closed-norestart", cfg=s["cfg"], steps=list(s["steps"]) + steps, closed=False, closure="norestart",
                stored_version=s.get("stored_version", ""))


def validate_chunks(sd, trace, timeout, maxlines=1200000, par=3):
    """Trace validation in pieces: the trace is cut at trace boundaries (reset events) into pieces of <= maxlines lines, each piece is
    replayed by its own TLC process through PeerSwapTrace (own copy of the spec directory, up to `par` at a time). Returns (lines, violations)."""
    pieces, cur, n = [], [], 0
    with open(trace) as f:
        for ln in f:
            if '"ev":"reset"' in ln and n >= maxlines:
                pieces.append(cur)
                cur, n = [], 0
            cur.append(ln)
            n += 1
    if cur:
        pieces.append(cur)

    def one(i):
        d = "%s-piece%d" % (sd, i)
        shutil.copytree(sd, d, ignore=shutil.ignore_patterns("v", "trace.ndjson", "states", "meta-*"))
        os.makedirs(os.path.join(d, "v"))
        tp = os.path.join(d, "trace.ndjson")
        with open(tp, "w") as f:
            f.writelines(pieces[i])
        v = vp.validate_trace("PeerSwapTrace", "PeerSwapTrace.cfg", d, tp, timeout=timeout, heap="8g" if len(pieces) == 1 else "6g")
        viol = []
        for p in glob.glob(os.path.join(d, "v", "*.json")):
            j = json.load(open(p))
            viol += [dict(t=j["t"], seq=x["seq"], sig=x["sig"]) for x in j["viol"]]
        shutil.rmtree(d, ignore_errors=True)
        return v["n"], viol
    with ThreadPoolExecutor(par) as ex:
        res = list(ex.map(one, range(len(pieces))))
    return sum(r[0] for r in res), [x for r in res for x in r[1]]


def run_psim(binp, scheds, sp, trace, tmo, extra=()):
    """Executes the schedules on the real code in batches (a fresh process per batch: parked goroutines of injected crashes and
    their file descriptors die with the process); trace numbers are global."""
    B = 6000
    with open(trace, "w") as out:
        for off in range(0, len(scheds), B):
            with open(sp, "w") as f:
                for s in scheds[off:off + B]:
                    f.write(json.dumps(s) + "\n")
            nodes = tempfile.mkdtemp(prefix="verif-nodes-", dir="/dev/shm" if os.path.isdir("/dev/shm") else None)
            part = trace + ".part"
            try:
                vp.run([binp, "-schedules", sp, "-out", part, "-workers", str(vp.NCPU), "-tmp", nodes, "-offset", str(off)] + list(extra), timeout=tmo)
            finally:
                shutil.rmtree(nodes, ignore_errors=True)
            with open(part) as f:
                shutil.copyfileobj(f, out, 1 << 20)
            os.remove(part)


def run_all(tier):
    """Shared run for all properties of this engine; cached per (tree, spec, harness, tier, seed)."""
    key = "%s-%s-%d%s" % (tree_hash(), tier, vp.seed(), ("-only-" + hashlib.sha256(os.environ["VERIF_ONLY"].encode()).hexdigest()[:8]) if os.environ.get("VERIF_ONLY") else "")
    cdir = os.environ.get("VERIF_CACHE_DIR") or os.path.join(vp.WORKROOT, "cache-swapfsm")
    cfile = os.path.join(cdir, key + ".json")
    if os.path.exists(cfile) and not os.environ.get("VERIF_NOCACHE"):
        vp.log("swapfsm: reusing result of this tree/spec/tier/seed:", key)
        return json.load(open(cfile))
    t0 = time.time()
    wd = vp.workdir("swapfsm")
    try:
        binp = vp.build_harness("./cmd/psim")
        sd = vp.spec_copy(wd)
        # Leg A: tables of the tree under test become constants of the specification
        tj = os.path.join(wd, "tables.json")
        vp.run([binp, "-tables", tj])
        sys.path.insert(0, os.path.join(vp.VERIF, "tools"))
        import gen_tables
        gen_tables.gen(json.load(open(tj)), os.path.join(sd, "FsmTables.tla"))
        tmo = 7200 if tier == "thorough" else 1200
        only = os.environ.get("VERIF_ONLY", "").split(",") if os.environ.get("VERIF_ONLY") else None
        # the export depends only on the specification, the state tables extracted from the code and the configurations:
        # a change of the code that leaves the tables alone reuses it (the schedules are then run on the changed code)
        eh = hashlib.sha256()
        for p in sorted(glob.glob(os.path.join(sd, "PeerSwap*.tla")) + glob.glob(os.path.join(sd, "PeerSwap*.cfg")) + [os.path.join(sd, "FsmTables.tla")]):
            if not p.endswith("PeerSwapCfgs.tla"):
                eh.update(open(p, "rb").read())
        eh.update(json.dumps([swapfsm_cfgs.configs(tier), only]).encode())
        efile = os.path.join(cdir, "export-%s-%s.json" % (tier, eh.hexdigest()[:20]))
        if os.path.exists(efile) and not os.environ.get("VERIF_NOCACHE"):
            res, scheds = json.load(open(efile))
            res["reused"] = True
            vp.log("  model: reusing the exploration of this specification / tables / configurations (%s)" % os.path.basename(efile))
        else:
            res, scheds = export_all(sd, wd, tier, tmo, only)
            res.pop("out", None)
            os.makedirs(os.path.dirname(efile), exist_ok=True)
            for old in sorted(glob.glob(os.path.join(cdir, "export-%s-*.json" % tier)), key=os.path.getmtime)[:-3]:
                os.remove(old)
            with open(efile + ".tmp%d" % os.getpid(), "w") as f:
                json.dump([res, scheds], f)
            os.replace(efile + ".tmp%d" % os.getpid(), efile)
        results = dict(all=dict(generated=res["generated"], distinct=res["distinct"], depth=res["depth"], wall=round(res["wall"], 1),
                                schedules=len(scheds), configurations=res["ncfg"], reused_from_cache=bool(res.get("reused"))))
        vp.log("  model: %d configurations, %d generated, %d distinct, depth %d, %.1fs -> %d schedules" % (
            res["ncfg"], res["generated"], res["distinct"], res["depth"], res["wall"], len(scheds)))
        drift_actions = [s for s in scheds if any("spec-drift" in x for x in s.get("expect", []))]
        if drift_actions:
            raise vp.Fatal("SPEC-DRIFT: the code's state tables name an Action the specification does not model: %s" % drift_actions[0]["expect"])
        # de-duplicate identical step lists
        seen, uniq = set(), []
        for s in scheds:
            k = json.dumps([s["steps"], s["cfg"], s.get("stored_version", "")], sort_keys=True)
            if k not in seen:
                seen.add(k)
                uniq.append(s)
        # a schedule that is a proper prefix of another one is covered by the longer one (the harness is deterministic)
        keys = [(json.dumps([s["cfg"], s.get("stored_version", "")], sort_keys=True), [json.dumps(st, sort_keys=True) for st in s["steps"]]) for s in uniq]
        byc = {}
        for c, st in keys:
            byc.setdefault(c, set()).update("\x00".join(st[:k]) for k in range(1, len(st)))
        scheds = [s for s, (c, st) in zip(uniq, keys) if "\x00".join(st) not in byc[c]]
        exported = len(uniq)
        # C16 / C06c / C07c (bounded liveness on the code): every maximal schedule is also run with the FAIR CLOSURE appended -
        # the peer stays silent, time passes, pending HTLCs resolve, the chain advances past every deadline, services succeed,
        # the node is restarted once - after which every swap must be terminal and its channel released (checked at `end`).
        nmodel = len(scheds)
        base = scheds
        scheds = base + [closure_of(s) for s in base if "upgrade" not in s["name"]]   # a refused upgrade keeps the node down by design (C29)
        scheds += [closure_norestart(s) for s in base if "upgrade" not in s["name"] and ("in_sender" in s["name"] or "out_receiver" in s["name"] or "mixed" in s["name"])
                   and not any(st.get("crash") or st.get("faults") for st in s["steps"])]   # failure-free prefixes only: a lost store write / callback is healed only by a restart
        sp = os.path.join(wd, "schedules.ndjson")
        trace = os.path.join(wd, "trace.ndjson")
        t1 = time.time()
        run_psim(binp, scheds, sp, trace, tmo)
        vp.log("  code: %d schedules run in %.1fs" % (len(scheds), time.time() - t1))
        t1 = time.time()
        v = {}
        v["n"], v["viol"] = validate_chunks(sd, trace, tmo)
        vp.log("  trace validation: %d events, %.1fs" % (v["n"], time.time() - t1))
        # C22: the maker schedules once more with REAL-TIME retransmission (interval 2 ms, 12 ms between environment steps)
        rsched = [dict(s, cfg=dict(s["cfg"], retransmit=True)) for s in scheds[:nmodel]
                  if s["cfg"]["chain"] == "btc" and ("in_sender" in s["name"] or "out_receiver" in s["name"]) and "crash" not in s["name"] and len(s["steps"]) >= 3][:2500 if tier == "quick" else 8000]
        rp = os.path.join(wd, "rschedules.ndjson")
        rtrace = os.path.join(wd, "rtrace.ndjson")
        run_psim(binp, rsched, rp, rtrace, tmo, extra=["-retransmit", "25ms"])
        rv = {}
        rv["n"], rall = validate_chunks(sd, rtrace, tmo)
        rviol = [x for x in rall if x["sig"].startswith("C22|")]
        vp.log("  retransmission run + validation: %d schedules" % len(rsched))
        nretx = sum(1 for ln in open(rtrace) if '"ev":"send"' in ln and '"nth":1,' not in ln)
        # per-trace comparison model <-> code (strict conformance, informational)
        last, observed = {}, {}
        nev = 0
        for ln in open(trace):
            e = json.loads(ln)
            nev += 1
            if e["ev"] == "quiesce":
                last[e["t"]] = e
        for x in v["viol"]:
            observed.setdefault(x["t"], set()).add(x["sig"])
        drift = []
        for i, s in enumerate(scheds[:nmodel]):
            q = last.get(i + 1)
            got = sorted([d["sid"], d["role"], d["cur"]] for d in q["disk"]) if q else None
            exp = sorted(s.get("expect_disk", []))
            ga = sorted([a["sid"], a["cur"]] for a in q["active"]) if q else None
            ea = sorted(s.get("expect_active", []))
            pv, ov = set(s.get("expect", [])), observed.get(i + 1, set())
            if got != exp or ga != ea or pv != ov:
                drift.append(dict(name=s["name"], steps=s["steps"], expect_disk=exp, got_disk=got, expect_active=ea, got_active=ga,
                                  predicted_only=sorted(pv - ov), observed_only=sorted(ov - pv)))
        viols = []
        for x in v["viol"]:
            s = scheds[x["t"] - 1]
            viols.append(dict(sig=x["sig"], t=x["t"], seq=x["seq"], name=s["name"], schedule={k: s[k] for k in ("name", "cfg", "steps", "closed", "closure", "stored_version") if k in s}))
        for x in rviol:
            s = rsched[x["t"] - 1]
            viols.append(dict(sig=x["sig"], t=x["t"], seq=x["seq"], name=s["name"] + ":retransmit", schedule=dict(name=s["name"], cfg=s["cfg"], steps=s["steps"], psim_flags="-retransmit 25ms")))
        out = dict(key=key, retransmit=dict(schedules=len(rsched), events=rv["n"], retransmitted_copies=nretx), tier=tier, models=results, nschedules=len(scheds), nexported=exported, nclosed=len(scheds) - nmodel, nevents=nev, viol=viols,
                   drift=drift[:50], ndrift=len(drift), wall=round(time.time() - t0, 1),
                   states=sum(r["distinct"] for r in results.values() if isinstance(r, dict)), transitions=sum(r["generated"] for r in results.values() if isinstance(r, dict)),
                   samples=[dict(name=s["name"], steps=s["steps"]) for s in random.Random(vp.seed()).sample(scheds, min(3, len(scheds)))],
                   predicted=sorted({x for s in scheds for x in s.get("expect", [])}))
        os.makedirs(cdir, exist_ok=True)
        for old in glob.glob(os.path.join(cdir, "*.json")):
            if time.time() - os.path.getmtime(old) > 6 * 3600:
                os.remove(old)
        with open(cfile + ".tmp%d" % os.getpid(), "w") as f:
            json.dump(out, f)
        os.replace(cfile + ".tmp%d" % os.getpid(), cfile)
        return out
    finally:
        vp.cleanup(wd)


LEVEL_TEXT = "model_checking"


def run(prop, tier):
    t0 = time.time()
    r = run_all(tier)
    ver = vp.Verdicts(prop)
    mine = [x for x in r["viol"] if x["sig"].startswith(prop + "|")]
    for x in mine:
        rp = vp.save_replay(prop, "sched-%s.json" % vp.sig_id(x["sig"]), dict(signature=x["sig"], schedule=x["schedule"],
                            how="psim -schedules <this schedule as one NDJSON line>; the trace is judged by spec/PeerSwapTrace.tla"))
        ver.add(x["sig"], rp)
    rc = ver.report()
    if r["ndrift"]:
        vp.log("conformance drift (model vs code) on %d of %d schedules, e.g. %s" % (r["ndrift"], r["nschedules"], json.dumps(r["drift"][0])[:600]))
    vp.write_evidence(prop, tier, "model_checking", dict(
        states=r["states"], transitions=r["transitions"], traces_validated_against_impl=r["nschedules"],
        events_validated=r["nevents"], samples=r["samples"], models=r["models"],
        violations_predicted_by_model=[p for p in r["predicted"] if p.startswith(prop + "|")],
        known_findings=sorted(ver.known), new_violations=sorted(ver.new),
        conformance_drift_schedules=r["ndrift"],
        rule="TLC explores spec/PeerSwap.tla (tables extracted from the code) per configuration and exports the shortest schedule per coverage key; "
             "each schedule runs on the real swap.SwapService (harness/l1); TLC evaluates the property checks of PeerSwapObs at every recorded event",
        shared_run_wall_s=r["wall"]),
        time.time() - t0, len(ver.new),
        assumptions=["simulated Lightning node / chain / wallet / peer (harness/l1); Bitcoin validator and script builder are the real ones",
                     "bounds of the TLC configurations as listed under models"])
    return rc


def replay(prop, path):
    """./check <prop> --replay <replays/.../sched-*.json>: re-executes one schedule on the real code and prints what the observer says."""
    rp = json.load(open(path))
    sched = rp.get("schedule", rp)
    wd = vp.workdir("replay")
    try:
        binp = vp.build_harness("./cmd/psim")
        sd = vp.spec_copy(wd)
        sp = os.path.join(wd, "s.ndjson")
        open(sp, "w").write(json.dumps(sched) + "\n")
        trace = os.path.join(wd, "trace.ndjson")
        cmd = [binp, "-schedules", sp, "-out", trace, "-workers", "1"]
        if sched.get("psim_flags"):
            cmd += sched["psim_flags"].split()
        vp.run(cmd)
        os.makedirs(os.path.join(sd, "v"), exist_ok=True)
        vp.validate_trace("PeerSwapTrace", "PeerSwapTrace.cfg", sd, trace)
        sigs = sorted({x["sig"] for p in glob.glob(os.path.join(sd, "v", "*.json")) for x in json.load(open(p))["viol"]})
        for ln in open(trace):
            e = json.loads(ln)
            if e["ev"] in ("drive", "persist", "send", "ln.htlc", "ln.payfee", "wallet.open", "wallet.spend", "crash", "fault", "ret"):
                print("  ", {k: v for k, v in e.items() if k in ("ev", "a", "kind", "sid", "prev", "cur", "res", "ok", "gate", "when", "what", "to")})
        print("observer verdict:", sigs or "no violation")
        return 1 if any(x.startswith(prop + "|") for x in sigs) else 0
    finally:
        vp.cleanup(wd)
