"""Engine `record`: C14R, the "arbitrary field values" clause of C14 (persisted swap records reload to identical swap data).

  spec/Record.tla       the persisted record as a flat table of fields holding value classes; the json codec
                        (Encode / Decode / Expected with the stated exceptions E1-E4); the store as a state machine
  spec/RecordMC.tla     TLC checks LemmaCodec on the covering set and P_C14_roundtrip / P_C14_response on the store model
                        (two ids, three records, all operation sequences), exports field table, records, documents in the
                        persisted format and one shortest operation sequence per distinct state
  harness/cmd/record    builds every record as a REAL swap.SwapStateMachine, runs the sequences on the REAL bbolt store
                        (swap.NewBboltStore, database closed and reopened), logs per returned record the fields that
                        are not deeply equal to the record last written, json equality, cancel reason, continuation
  spec/RecordTrace.tla  TLC replays every line on the store model and judges it with the operators of Record.tla
Only a violation on a line observed on the real code is reported (property C14). The reachable-records clause of C14
is the FSM engine's (restart at every persisted state)."""
import json
import os
import random
import shutil
import sys
import time

import vp

PARENT = "C14"
ASSUME = [
    "E1: Data.LastErr (error, json:\"-\") reloads as nil, its persisted form is LastErrString; E2: bytes that are not valid UTF-8 "
    "reload as U+FFFD (encoding/json) - no consumer can tell and no producer exists; E3: States / mutexes / services / toCancel are "
    "process state; E4: nil and empty byte slices are the same value (Record.tla header)",
    "structure assumed, probed and reported but not judged: SwapStateMachine.Data != nil when ListAllByPeer runs, "
    "Data.LastMessage (interface, never assigned in the tree) = nil",
    "value classes per Go type (0, 1, typical, max, min/-1 where signed, 2^63 for uint64; strings empty / typical / 70 kB / non-ASCII / "
    "quotes+controls / NUL / invalid UTF-8; pointers nil / set; byte slices nil / empty / 32 B / 70 kB): a value inside a class behaves like "
    "the class's representative",
    "bbolt is opened with NoSync (no crash of the storage layer is modelled: reopen = Close + Open of the same file)",
]


def _norm(fields, c):
    """fields in table order (parents first): a field below a nil pointer is 'na'."""
    out = {}
    for f in fields:
        p = f["par"]
        vis = p == "" or out.get(p) == "present"
        out[f["name"]] = c[f["name"]] if vis else "na"
    return out


def _expected_peer(cls):
    c = cls.get("Data.PeerNodeId", "na")
    return "replaced" if c == "badutf8" else c


def _load_records(path, base):
    recs = []
    for ln in open(path):
        if not ln.strip():
            continue
        m = json.loads(ln)
        c = dict(base)
        if isinstance(m["d"], dict):
            c.update(m["d"])
        recs.append(dict(n=m["n"], c=c))
    return recs


def _op(op, id_="", r=0, peer=""):
    return dict(op=op, id=id_, r=r, peer=peer)


def _record_trace(i, rec, k, other, has_doc):
    """Round trip of record i (1-based): written through the store under A, in the persisted format under B,
    database reopened, read back by every read operation."""
    c = rec["c"]
    ops = []
    if k % 4 == 3 and other:
        ops += [_op("upsert", "A", other), _op("update", "A", i)]          # a full overwrite of another record
    else:
        ops.append(_op("create" if k % 2 else "upsert", "A", i))
    if has_doc:
        ops.append(_op("rawput", "B", i))
    if k % 3 == 0:
        ops.append(_op("get", "A"))                                       # same process, before the reopen
    ops += [_op("reopen"), _op("get", "A")]
    if has_doc:
        ops.append(_op("get", "B"))
    ops.append(_op("listall"))
    if c["Data"] == "present":                                            # assumed structure (see ASSUME)
        ops.append(_op("bypeer", peer=_expected_peer(c)))
        if k % 5 == 0:
            ops.append(_op("bypeer", peer="alt" if _expected_peer(c) != "alt" else "short"))
    return dict(ops=ops, flip=bool(k % 2))


def _random_records(fields, base, n, rnd, seed):
    out = []
    for j in range(n):
        c = {}
        for f in fields:
            cl = f["classes"]
            if f["kind"] == "ptr":
                v = "present" if (f["name"] == "Data" or rnd.random() < 0.75) else "nil"
            else:
                v = rnd.choice(cl)
            c[f["name"]] = v
        out.append(dict(n="rnd|%d|%d" % (seed, j), c=_norm(fields, c)))
    return out


def _random_traces(recs, n, rnd, maxlen):
    """Random operation sequences over the whole record set (both ids, all operations)."""
    ok = [i + 1 for i, r in enumerate(recs) if r["c"]["Data"] == "present"]
    out = []
    for _ in range(n):
        ops = []
        for _ in range(rnd.randint(4, maxlen)):
            x = rnd.random()
            id_ = rnd.choice("AB")
            if x < 0.40:
                ops.append(_op(rnd.choice(["create", "update", "upsert", "upsert"]), id_, rnd.choice(ok)))
            elif x < 0.47:
                ops.append(_op("delete", id_))
            elif x < 0.62:
                ops.append(_op("reopen"))
            elif x < 0.80:
                ops.append(_op("get", id_))
            elif x < 0.90:
                ops.append(_op("listall"))
            else:
                pool = [_expected_peer(recs[o["r"] - 1]["c"]) for o in ops if o["r"]] or ["short"]
                ops.append(_op("bypeer", peer=rnd.choice(pool + ["alt"])))
        out.append(dict(ops=ops, flip=rnd.random() < 0.5))
    return out


def _samples(trace, traces):
    """A few actual observations: a whole record round trip, a read with an excepted field, a listing by peer."""
    want = dict(trace=None, diff=None, bypeer=None, raw=None)
    cur, cur_t = [], None
    with open(trace) as f:
        for x in f:
            e = json.loads(x)
            if e["t"] != cur_t:
                if want["trace"] is None and cur and any(o["op"] == "rawput" for o in cur) and any(o.get("d") for o in cur):
                    want["trace"] = dict(ops_scheduled=traces[cur_t - 1]["ops"], lines_observed=cur)
                cur, cur_t = [], e["t"]
            cur.append(e)
            if want["diff"] is None and e["op"] == "get" and e.get("d") and len(e["d"]) > 1:
                want["diff"] = e
            if want["bypeer"] is None and e["op"] == "bypeer" and e.get("items"):
                want["bypeer"] = e
            if all(v is not None for v in want.values() if v is not want["raw"]) and want["trace"] is not None:
                break
    return [v for v in want.values() if v is not None]


def _schema_drift(schema, fields):
    key = lambda f: (f["name"], f["par"], f["key"], f["kind"], bool(f["oe"]), bool(f["ps"]))
    real = {key(f) for f in schema["fields"]}
    spec = {key(f) for f in fields}
    out = ["real struct has %s, not in Record.tla" % (x,) for x in sorted(real - spec)]
    out += ["Record.tla has %s, not in the real struct" % (x,) for x in sorted(spec - real)]
    known_skipped = {"Data.toCancel", "States", "mutex", "swapServices", "retries", "failures", "stateMutex", "stateChange"}
    out += ["unpersisted field %s is not covered by exception E3" % s for s in sorted(set(schema["skipped"]) - known_skipped)]
    codecs = sorted(set(schema["codecs"]))
    if codecs != ["*swap.SwapId:MarshalJSON", "*swap.SwapId:UnmarshalJSON"]:
        out.append("custom JSON codecs changed: %s" % codecs)
    return out


def _work(tier):
    t0 = time.time()
    thorough = tier == "thorough"
    seed = vp.seed()
    rnd = random.Random(seed)
    wd = vp.workdir("record")
    try:
        sd = vp.spec_copy(wd)
        binp = vp.build_harness("./cmd/record")
        # code -> spec constants: state tables of the tree under test
        schema_p = os.path.join(wd, "schema.json")
        vp.run([binp, "-schema", schema_p], timeout=120)
        schema = json.load(open(schema_p))
        sys.path.insert(0, os.path.join(vp.VERIF, "tools"))
        import gen_tables
        gen_tables.gen(schema["tables"], os.path.join(sd, "FsmTables.tla"))
        # spec: design-level check + export
        mc = vp.tlc("RecordMC", "RecordMCthorough.cfg" if thorough else "RecordMC.cfg", sd, workers=1, timeout=900)
        if not mc["ok"]:
            raise vp.Fatal("the specification's own properties fail: %s" % mc["violated"])
        spec = json.load(open(os.path.join(sd, "fields.json")))
        fields, base = spec["fields"], spec["base"]
        drift = _schema_drift(schema, fields)
        recs_p = os.path.join(sd, "records.ndjson")
        recs = _load_records(recs_p, base)
        ncover = len(recs)
        # random records: a random class for every field
        nrand = 12000 if thorough else 250
        rr = _random_records(fields, base, nrand, rnd, seed)
        with open(recs_p, "a") as f:
            for r in rr:
                f.write(json.dumps(dict(n=r["n"], d={k: v for k, v in r["c"].items() if base[k] != v})) + "\n")
        recs += rr
        # traces
        traces = []
        nsched = 0
        for fn in sorted(os.listdir(sd)):
            if fn.startswith("sched_") and fn.endswith(".ndjson"):
                for ln in open(os.path.join(sd, fn)):
                    if ln.strip():
                        ops = json.loads(ln)["ops"]
                        if ops:
                            traces.append(dict(ops=ops, flip=bool(nsched % 2)))
                            nsched += 1
        for i, r in enumerate(recs):
            other = rnd.randint(1, ncover)
            if recs[other - 1]["c"]["Data"] != "present":
                other = 1
            traces.append(_record_trace(i + 1, r, i, other, has_doc=i < ncover))
        enc = [i + 1 for i, r in enumerate(recs[:ncover]) if r["n"].split("|")[0] in ("seq", "rot", "g3", "g1")
               or (r["n"].startswith("ofat|") and r["n"].endswith(("|nil", "|empty", "|false", "|0")))]
        traces.append(dict(ops=[_op("enc", r=i) for i in enc], flip=False))
        traces.append(dict(ops=[_op("putnil", r=1), _op("get", "A"), _op("listall")], flip=False))
        nrs = 10000 if thorough else 150
        traces += _random_traces(recs, nrs, rnd, 30 if thorough else 14)
        traces_p = os.path.join(wd, "traces.ndjson")
        with open(traces_p, "w") as f:
            for t in traces:
                f.write(json.dumps(t) + "\n")
        # real code
        trace = os.path.join(sd, "trace.ndjson")
        th = time.time()
        p = vp.run([binp, "-fields", os.path.join(sd, "fields.json"), "-records", recs_p, "-docs", os.path.join(sd, "docs.ndjson"),
                    "-traces", traces_p, "-out", trace, "-work", wd, "-workers", str(min(8, vp.NCPU))], timeout=1500, check=False)
        if p.returncode != 0:
            raise vp.Fatal("harness failed (rc=%d):\n%s" % (p.returncode, (p.stdout or "")[-3000:]))
        vp.log("harness: %d traces over %d records in %.1fs" % (len(traces), len(recs), time.time() - th))
        # code -> spec: judge every line
        v = vp.validate_trace("RecordTrace", "RecordTrace.cfg", sd, trace, timeout=1500)
        stat = v["stat"]
        ver = vp.Verdicts(PARENT)
        lines = None
        drift_sigs = []
        for rec in v["viol"]:
            sig, ln = rec["sig"], int(rec["line"])
            if sig.startswith("DRIFT|"):
                drift_sigs.append(sig)
                continue
            if not sig.startswith("C14|"):
                raise vp.Fatal("unexpected signature %s" % sig)
            if vp.match_finding(PARENT, sig, ver.findings):
                ver.add(sig, None)
                continue
            if lines is None:
                lines = [json.loads(x) for x in open(trace)]
            e = lines[ln - 1]
            tr = traces[e["t"] - 1] if e["t"] <= len(traces) else None
            used = sorted({o["r"] for o in (tr["ops"] if tr else []) if o.get("r")})
            rp = vp.save_replay(PARENT, "record-%s.json" % vp.sig_id(sig), dict(
                signature=sig, observation=e, trace=tr, seed=seed, tier=tier,
                records={str(i): dict(name=recs[i - 1]["n"], classes={k: c for k, c in recs[i - 1]["c"].items() if base[k] != c}) for i in used},
                how="classes are those of spec/Record.tla (fields not listed hold the base class); VERIF_KEEP=1 ./check C14 keeps the work "
                    "directory: harness/bin/record -fields spec/fields.json -records spec/records.ndjson -docs spec/docs.ndjson -traces <one line: trace> "
                    "-out /dev/stdout -work . re-executes it on the real store; -dump <record index> prints the JSON the real encoder writes"))
            ver.add(sig, rp)
        if not ver.new and (stat["records"] < len(recs) or stat["raw"] < ncover or stat["cont"] < len(recs) or stat["fields"] == 0):
            raise vp.Fatal("vacuous run: %s" % {k: x for k, x in stat.items() if k != "probes"})
        smp = _samples(trace, traces)
        kinds = {}
        for r in recs:
            k = r["n"].split("|")[0]
            kinds[k] = kinds.get(k, 0) + 1
        cov = dict(
            states=mc["distinct"], transitions=mc["generated"], traces_validated_against_impl=stat["traces"],
            samples=smp + [dict(record=recs[ncover - 1]["n"], differs_from_base={k: c for k, c in recs[ncover - 1]["c"].items() if base[k] != c})],
            evaluations=stat["records"], distinct_nontrivial=len(recs), exhaustive=False,
            rule="records = TLC-exported covering set (every class of every one of the %d fields at least once around a base record, rotations "
                 "of all classes, full cross products heights x anchor flag, LastErr x LastErrString x CancelMessage x Cancel, presence of the 7 "
                 "nested messages, Current x Type x Role) + VERIF_SEED-random records (random class per field); distinct by class vector; every "
                 "record is written through the real store AND put in the persisted format, the database reopened, read by GetData / ListAll / "
                 "ListAllByPeer; evaluations = records returned by the real store and compared field by field" % len(fields),
            fields=len(fields), records_by_family=kinds, records_random=nrand,
            store_sequences_from_tlc=nsched, store_sequences_random=nrs, design_depth=mc["depth"],
            lines_judged=v["n"], records_returned_and_compared=stat["records"], field_comparisons=stat["fields"],
            persisted_format_documents_decoded=stat["raw"], encoder_documents_compared=stat["enc"],
            continuation_checks=stat["cont"], list_operations=stat["lists"],
            probes_not_judged=stat["probes"], schema_drift=drift,
            spec_lemmas="LemmaCodec on every covering record, ReasonSurvives characterisation (ASSUME); P_C14_roundtrip, P_C14_response (invariants), TLC",
            trace_spec="RecordTrace: OpResult / OpDisk / Listed, Expected, Cont of Record.tla on every line",
            known_findings=sorted(ver.known), new_violations=sorted(ver.new))
        res = dict(ver=ver, coverage=cov, wall=None, assumptions=ASSUME, drift=drift + sorted(set(drift_sigs)))
        res["wall"] = time.time() - t0
        return res
    finally:
        vp.cleanup(wd)


def run(prop, tier):
    if prop not in ("C14R", "C14"):
        raise vp.Fatal("engine record: unknown property %s" % prop)
    res = _work(tier)
    ver = res["ver"]
    rc = ver.report()
    vp.write_evidence("C14R", tier, "model_checking", res["coverage"], res["wall"], len(ver.new), assumptions=res["assumptions"])
    if rc == 0 and res["drift"]:
        # no property violated, but the code is no longer the code the specification describes
        raise vp.Fatal("drift between swap record code and Record.tla (update the specification): %s" % "; ".join(res["drift"][:8]))
    return rc


def part(prop, tier):
    """For the C14 check of the lead: no printing, no evidence file."""
    res = _work(tier)
    ver = res["ver"]
    if not ver.new and res["drift"]:
        raise vp.Fatal("drift between swap record code and Record.tla: %s" % "; ".join(res["drift"][:8]))
    return dict(rc=1 if ver.new else 0, coverage=res["coverage"], violations_new=dict(ver.new), known=dict(ver.known),
                assumptions=res["assumptions"], wall=res["wall"])
