"""C28 (and the peer-sync clause of C26) - peer-sync keeps an accurate, persistent view of peers.

spec/PeerSync.tla is a state machine of peersync.PeerSync / Store / poller (stored
capability, status, lastObserved, lastPoll per peer; connected set; the poller's
request-time map; logical clock; suspicious set) with one operation per linearization
point of the real code and one named property per clause of the statements.

  leg A  TLC (PeerSyncMC) checks every P_* on every step of the design for ALL operation
         sequences up to a bound and exports one schedule per distinct state reached
         (plus the space of store records as save/restart cases).
  leg B  cmd/peersync runs the schedules and VERIF_SEED-seeded random longer ones on the
         REAL PeerSync + Store (bbolt) + poller + policy.Policy (file) with a simulated
         Lightning node, logging after every operation the messages sent and the state
         projected from the real objects.
  leg C  TLC (PeerSyncTrace) binds each step to what the code did and evaluates the same
         P_* on it (observer), and also demands that the step is the design's step
         (strict; a difference without a property violation is a machinery error).
Only a P_* violated on a trace of the real code becomes a VIOLATION."""
import concurrent.futures
import json
import os
import random
import shutil
import time

import vp

ENGINE = "peersync"
PREFIX = {"C28": "C28|", "C26": "C26|"}
INVARIANTS = ["P_C28_merge_", "P_C28_reload_", "P_C28_cleanup_", "P_C28_ratelimit_", "P_C28_request_due_",
              "P_C28_compat_", "P_C26_peersync_", "TypeOK", "GhostBracket", "ExportInv"]

# tier -> parameters (measured: see the report in evidence)
# export: (focus, depth, cap on the number of maximal histories executed; deepest first, rest seeded sample)
# check:  (depth, rich alphabet) exhaustive design-level runs, any worker count
TIERS = {
    "quick": dict(export=[("all", 3, 100000), ("conn", 7, 1200), ("store", 5, 1200)], check=[(4, False)],
                  extended=2000, reccases=150, random=200, rlen=40, chunk=7000, par=6),
    "thorough": dict(export=[("all", 4, 100000), ("conn", 8, 10000), ("store", 6, 10000)], check=[(6, False), (5, True)],
                     extended=12000, reccases=792, random=2500, rlen=60, chunk=20000, par=6),
}


def _cfg(path, depth, rich, export, focus="all"):
    inv = "\n".join("  " + x for x in INVARIANTS)
    open(path, "w").write(
        "CONSTANTS\n  Depth = %d\n  Rich = %s\n  Export = %s\n  Focus = \"%s\"\nINIT Init\nNEXT Next\nVIEW %s\n"
        "INVARIANTS\n%s\nPOSTCONDITION ExportDone\nCHECK_DEADLOCK FALSE\n" % (
            depth, "TRUE" if rich else "FALSE", "TRUE" if export else "FALSE", focus,
            "View" if export else "ViewDepth", inv))


def _read_ndjson(path):
    out = []
    with open(path) as f:
        for ln in f:
            if ln.strip():
                out.append(json.loads(ln))
    return out


def _key(ops):
    return json.dumps(ops, sort_keys=True)


def _exported(sd):
    hist, k = [], 0
    while os.path.exists(os.path.join(sd, "sched_%d.ndjson" % k)):
        hist += _read_ndjson(os.path.join(sd, "sched_%d.ndjson" % k))
        k += 1
    if not hist:
        raise vp.Fatal("TLC exported no schedules in " + sd)
    return hist


def _maximal(hist):
    """A prefix of an exported history is visited on the way: keep the maximal ones."""
    prefixes = set(_key(h["ops"][:-1]) for h in hist if len(h["ops"]) > 1)
    full = [h for h in hist if h["ops"] and _key(h["ops"]) not in prefixes]
    full.sort(key=lambda h: (-len(h["ops"]), _key(h["ops"])))
    return full


def _select(dirs, par, rng):
    """Schedules for the real code from TLC's exports. Per exported alphabet: one schedule
    per distinct state (maximal histories; capped: seeded sample). `extended` more schedules
    continue a seeded choice of the whole-alphabet histories by one or two operations
    (steps from the states at the export bound, and beyond it). The record space as
    save/restart cases."""
    out, sel = [], {}
    for (focus, depth, cap), sd in zip(par["export"], dirs):
        hist = _exported(sd)
        full = _maximal(hist)
        taken = full if len(full) <= cap else rng.sample(full, cap)
        for h in taken:
            h["src"] = "tlc-%s-%d" % (focus, depth)
        out += taken
        sel[focus] = dict(depth=depth, distinct_states=len(hist), maximal_histories=len(full), executed=len(taken))
        if focus == "all":
            alphabet = sorted(_read_ndjson(os.path.join(sd, "ops.ndjson")), key=_key)
            base = sorted((h for h in hist if len(h["ops"]) >= depth - 1), key=lambda h: _key(h["ops"]))
            for _ in range(par["extended"]):
                h = rng.choice(base)
                out.append(dict(ops=h["ops"] + [rng.choice(alphabet) for _ in range(rng.choice((1, 1, 2)))], src="tlc-extended"))
            rec = sorted(_read_ndjson(os.path.join(sd, "reccases.ndjson")), key=lambda h: _key(h["ops"]))
            if len(rec) > par["reccases"]:
                rec = rng.sample(rec, par["reccases"])
            for h in rec:
                h["src"] = "tlc-record-space"
            out += rec
            sel.update(extended=par["extended"], alphabet=len(alphabet), record_cases=len(rec))
    return out, sel


def _chunks(trace, size):
    """Split the trace at Reset lines into pieces of about `size` lines."""
    out, cur = [], []
    with open(trace) as f:
        for ln in f:
            if not ln.strip():
                continue
            if ln.startswith('{"t":') and '"op":{"k":"Reset"' in ln[:60] and len(cur) >= size:
                out.append(cur)
                cur = []
            cur.append(ln)
    if cur:
        out.append(cur)
    return out


def _validate(args):
    wd, idx, lines = args
    d = os.path.join(wd, "val-%d" % idx)
    os.makedirs(d)
    for f in ("PeerSync.tla", "PeerSyncTrace.tla", "PeerSyncTrace.cfg"):
        shutil.copy(os.path.join(vp.SPEC, f), d)
    tp = os.path.join(d, "trace.ndjson")
    with open(tp, "w") as f:
        f.writelines(lines)
    v = vp.validate_trace("PeerSyncTrace", "PeerSyncTrace.cfg", d, tp, timeout=3000, heap="3g")
    v.pop("tlc", None)
    shutil.rmtree(d, ignore_errors=True)
    return v


def _selftest_piece(pieces):
    """Binding self-test: a copy of the first traces with ONE logged field corrupted (the
    version stored after a well-formed poll); the trace specification must notice it."""
    out, done = [], False
    for ln in pieces[0][:1500]:
        if not done and '"k":"RxPoll"' in ln and '"valid":true' in ln:
            o = json.loads(ln)
            for r in o["st"]["stored"]:
                if r["p"] == o["op"]["p"] and o["op"]["p"] not in o["st"]["susp"]:
                    r["cap"]["ver"] += 1
                    done = True
            ln = json.dumps(o, separators=(",", ":")) + "\n"
        out.append(ln)
        if done and len(out) > 40 and '"k":"Reset"' in ln[:60]:
            out.pop()
            break
    return out if done else None


def _as_map(x):
    # an empty TLA+ function is serialised as [], a non-empty one as an object
    return x if isinstance(x, dict) else {}


def explore(prop, tier, wd):
    """Runs the three legs once; returns (violations {sig: place}, drift {sig: place}, coverage, schedules, trace path)."""
    par = TIERS[tier]
    rng = random.Random(vp.seed())
    binp = vp.build_harness("./cmd/peersync")

    # leg A: design-level model checking (all sequences up to check_depth, any worker count)
    # and exports (one schedule per distinct state, one worker each); the runs are independent
    cdirs = []
    for depth, rich in par["check"]:
        d = os.path.join(wd, "spec-check-%d-%d" % (depth, rich))
        shutil.copytree(vp.SPEC, d)
        _cfg(os.path.join(d, "ps.cfg"), depth, rich, False)
        cdirs.append(d)
    dirs = []
    for focus, depth, _ in par["export"]:
        d = os.path.join(wd, "spec-" + focus)
        shutil.copytree(vp.SPEC, d)
        _cfg(os.path.join(d, "ps.cfg"), depth, False, True, focus)
        dirs.append(d)
    nw = max(2, min(10, (vp.NCPU - 4) // len(cdirs)))
    with concurrent.futures.ThreadPoolExecutor(max_workers=len(cdirs) + len(dirs)) as ex:
        fc = [ex.submit(vp.tlc, "PeerSyncMC", "ps.cfg", d, nw, None, 6000, "12g") for d in cdirs]
        fe = [ex.submit(vp.tlc, "PeerSyncMC", "ps.cfg", d, 1, None, 3000) for d in dirs]
        mcc, mcs = [f.result() for f in fc], [f.result() for f in fe]
    for r in mcc + mcs:
        if not r["ok"]:
            raise vp.Fatal("the design model violates its own properties: %s\n%s" % (r["violated"], r["out"][-3000:]))
    big = max(mcc, key=lambda r: r["distinct"])
    cov_mc = dict(states=big["distinct"], transitions=big["generated"],
                  checks=[dict(depth=d, rich=r, states=m["distinct"], transitions=m["generated"], wall_s=round(m["wall"], 1))
                          for (d, r), m in zip(par["check"], mcc)],
                  exports=[dict(focus=f, depth=d, states=r["distinct"], transitions=r["generated"])
                           for (f, d, _), r in zip(par["export"], mcs)])
    scheds, sel = _select(dirs, par, rng)
    sp = os.path.join(wd, "sched.ndjson")
    with open(sp, "w") as f:
        for h in scheds:
            f.write(json.dumps(h) + "\n")

    # leg B: the real code
    tmp = os.path.join(wd, "tmp")
    os.makedirs(tmp)
    trace = os.path.join(wd, "trace.ndjson")
    allp = os.path.join(wd, "all-sched.ndjson")
    t1 = time.time()
    p = vp.run([binp, "-sched", sp, "-out", trace, "-tmp", tmp, "-random", str(par["random"]), "-len", str(par["rlen"]),
                "-seed", str(vp.seed()), "-workers", str(max(2, min(8, vp.NCPU // 2))), "-dump-sched", allp],
               timeout=3000, check=False)
    if p.returncode != 0:
        raise vp.Fatal("harness failed (rc=%d):\n%s" % (p.returncode, (p.stdout or "")[-4000:]))
    hres = json.loads(p.stdout.strip().splitlines()[-1])
    vp.log("harness: %d schedules, %d lines on the real code in %.1fs" % (hres["schedules"], hres["lines"], time.time() - t1))

    # leg C: trace validation, in parallel pieces
    pieces = _chunks(trace, par["chunk"])
    viol, drift, n = {}, {}, 0
    t2 = time.time()
    st = _selftest_piece(pieces)
    if st is None:
        raise vp.Fatal("self-test: no well-formed poll in the first traces")
    with concurrent.futures.ThreadPoolExecutor(max_workers=par["par"]) as ex:
        fst = ex.submit(_validate, (wd, 100000, st))
        for v in ex.map(_validate, [(wd, i, c) for i, c in enumerate(pieces)]):
            n += int(v["n"])
            for tgt, src in ((viol, _as_map(v["viol"])), (drift, _as_map(v["drift"]))):
                for sig, place in src.items():
                    if sig in tgt:
                        tgt[sig]["n"] += place["n"]
                        if (place["t"], place["i"]) < (tgt[sig]["t"], tgt[sig]["i"]):
                            tgt[sig].update(t=place["t"], i=place["i"])
                    else:
                        tgt[sig] = dict(place)
        vst = fst.result()
    if not any(s.startswith("C28|P_C28_merge|RxPoll") for s in _as_map(vst["viol"])) or not _as_map(vst["drift"]):
        raise vp.Fatal("self-test: the trace specification did not notice a corrupted line: %s" % json.dumps(vst)[:2000])
    if n != hres["lines"]:
        raise vp.Fatal("trace validation consumed %d of %d lines" % (n, hres["lines"]))
    vp.log("trace validation: %d lines in %d pieces, %.1fs; %d violated signatures, %d drift signatures"
           % (n, len(pieces), time.time() - t2, len(viol), len(drift)))

    allsched = _read_ndjson(allp)
    kinds = {}
    for h in allsched:
        for op in h["ops"]:
            kinds[op["k"]] = kinds.get(op["k"], 0) + 1
    live = sum(1 for h in allsched if h.get("mode") == "live")
    cov = dict(cov_mc)
    cov.update(traces_validated_against_impl=hres["schedules"], trace_lines=n, selection=sel,
               random_schedules=par["random"], random_max_len=par["rlen"], live_mode_schedules=live,
               operations_on_real_code=sum(kinds.values()), operations_by_kind=kinds,
               validation_pieces=len(pieces), selftest_corrupted_line_noticed=True)
    return viol, drift, cov, allsched, trace


def _trace_of(trace, t):
    out = []
    with open(trace) as f:
        for ln in f:
            if ln.startswith('{"t":%d,' % t):
                out.append(json.loads(ln))
    return out


def run(prop, tier):
    if prop not in PREFIX:
        raise vp.Fatal("engine peersync decides C28 and the peer-sync clause of C26, not %s" % prop)
    t0 = time.time()
    wd = vp.workdir(prop)
    try:
        viol, drift, cov, allsched, trace = explore(prop, tier, wd)
        ver = vp.Verdicts(prop)
        mine = {s: p for s, p in viol.items() if s.startswith(PREFIX[prop])}
        for sig in sorted(mine):
            place = mine[sig]
            sched = allsched[place["t"]]
            rp = vp.save_replay(prop, "peersync-%s.json" % vp.sig_id(sig), dict(
                signature=sig, occurrences=place["n"], failing_step=place["i"], schedule=sched,
                trace=_trace_of(trace, place["t"])[:place["i"] + 1],
                how="write {\"ops\": schedule.ops, \"mode\": schedule.mode} as one line to s.ndjson; "
                    "harness/bin/peersync -sched s.ndjson -out t.ndjson -workers 1; the step numbered failing_step "
                    "violates the property named in the signature (spec/PeerSync.tla)"))
            ver.add(sig, rp)
        rc = ver.report()
        cov.update(known_findings=sorted(ver.known), new_violations=sorted(ver.new),
                   violations_of_other_property=sorted(s for s in viol if s not in mine),
                   conformance_drift=sorted(drift),
                   samples=[dict(src=h.get("src"), mode=h.get("mode", ""), ops=h["ops"]) for h in
                            random.Random(vp.seed()).sample(allsched, min(4, len(allsched)))],
                   properties="P_C28_merge P_C28_reload P_C28_cleanup P_C28_ratelimit P_C28_request_due P_C28_compat "
                              "P_C26_peersync (each: TLC invariant on the design model; evaluated on every real step)",
                   exhaustive=False)
        vp.write_evidence(prop, tier, "model_checking", cov, time.time() - t0, len(ver.new), assumptions=[
            "one logical time unit = 5 s; the clock advances by shifting stored timestamps (Store API) and the poller's "
            "request-time map (verif export) by d*5 s + 10 ms; a schedule must finish within 2 s of real time (checked)",
            "the Lightning node is simulated (ListPeers answer, captured sends, sends never fail); policy is the real "
            "policy.Policy on a file; premium setting is nil",
            "rate limit: the interval restarts at disconnect / process restart; the start-up request round is not counted",
            "poll = message whose payload parses; an all-zero capability equals no capability",
            "TLC bound: 2 peers, versions {6,7,8}, 2 payload variants (+ empty and 3 unparsable kinds when rich), "
            "clock steps {1,3,121,181,361} units, schedule length <= depth; states are identified up to a time shift",
            "not covered: failing sends, legacy-format records, concurrent handler/poller goroutines (operations are "
            "serialised at their linearization points; live-mode schedules go through Start() and the message channel)",
        ])
        if drift and not viol:
            first = sorted(drift.items())[0]
            raise vp.Fatal("conformance drift without a property violation (%d kinds), e.g. %s at trace %d step %d: %s" % (
                len(drift), first[0], first[1]["t"], first[1]["i"],
                json.dumps(_trace_of(trace, first[1]["t"])[max(0, first[1]["i"] - 1):first[1]["i"] + 1])[:3000]))
        return rc
    finally:
        vp.cleanup(wd)
