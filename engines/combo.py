"""Properties decided by two engines together: the FSM-level part (swapfsm: when does the taker pay, on the real swap
service) and the arithmetic / route-builder part (route: Timelock.tla against the real builders, checks and clients)."""
import time

import vp
from engines import duo, peersync, record, route, swapfsm, tx

PARTS = {"C04": "C04R", "C05": "C05R"}
DUO = ("C06", "C07", "C16")   # FSM part (one real node against a simulated, possibly dishonest peer) + two real nodes against each other


def _partial_evidence(prop, tier, r, ver, t0, err):
    """one part of a two-part check failed (machinery) after the other part had already found violations: the evidence says so"""
    cov = dict(states=r["states"], transitions=r["transitions"], traces_validated_against_impl=r["nschedules"], samples=r["samples"][:3],
               fsm_part=dict(models=r["models"], schedules=r["nschedules"], events=r["nevents"], drift=r["ndrift"]),
               other_part_failed=str(err)[:300], known_findings=sorted(ver.known), new_violations=sorted(ver.new))
    vp.write_evidence(prop, tier, "model_checking", cov, time.time() - t0, len(ver.new), assumptions=["FSM part only: the other part of this check failed (machinery error)"])


def run_tx(prop, txprop, tier, mod=tx):
    """C01 = FSM clause (when the taker pays; swapfsm) + validator clause (which transactions the real validators accept; tx).
    C08 = message assembly and invoice clauses (swapfsm) + txid / vout / blinding key of the real opening paths (tx)."""
    t0 = time.time()
    ver = vp.Verdicts(prop)
    r = swapfsm.run_all(tier)
    for x in r["viol"]:
        if x["sig"].startswith(prop + "|"):
            ver.add(x["sig"], vp.save_replay(prop, "sched-%s.json" % vp.sig_id(x["sig"]), dict(signature=x["sig"], schedule=x["schedule"])))
    rc1 = ver.report()
    try:
        rc2 = mod.run(txprop, tier)      # prints its own VIOLATION / KNOWN-FINDING lines under the parent property id
        if rc2 not in (0, 1):
            raise vp.Fatal("second part failed (rc=%s)" % rc2)
    except vp.Fatal as e:
        if rc1:      # a violation on the real code stands, whatever happened to the other part's machinery
            vp.log("the other part of this check failed (machinery), the violations above stand: %s" % str(e)[:300])
            _partial_evidence(prop, tier, r, ver, t0, e)
            return 1
        raise
    import json
    import os
    ev = json.load(open(os.path.join(vp.EVID, txprop + ".json")))
    cov = dict(ev["coverage"])
    cov["validator_part"] = {k: v for k, v in ev["coverage"].items() if k != "samples"}
    cov["states"] = int(ev["coverage"].get("states", 0)) + r["states"]
    cov["transitions"] = int(ev["coverage"].get("transitions", 0)) + r["transitions"]
    cov["traces_validated_against_impl"] = int(ev["coverage"].get("traces_validated_against_impl", 0)) + r["nschedules"]
    cov["samples"] = list(ev["coverage"].get("samples", []))[:3] + r["samples"][:2]
    cov["fsm_part"] = dict(models=r["models"], schedules=r["nschedules"], events=r["nevents"], drift=r["ndrift"],
                           predicted=[s for s in r["predicted"] if s.startswith(prop + "|")], known_findings=sorted(ver.known), new_violations=sorted(ver.new))
    vp.write_evidence(prop, tier, "model_checking", cov, time.time() - t0, len(ver.new) + int(ev.get("violations", 0)),
                      assumptions=list(ev.get("assumptions", [])) + ["FSM part: simulated Lightning/chain/wallet/peer (harness/l1)"])
    return 1 if (rc1 or rc2) else 0


def run(prop, tier):
    if prop == "C01":
        return run_tx("C01", "C01V", tier)
    if prop == "C08":
        return run_tx("C08", "C08", tier)
    if prop == "C14":   # reachable records (restart at every persisted state; swapfsm) + arbitrary field values through the real store (record)
        return run_tx("C14", "C14R", tier, mod=record)
    if prop == "C26":   # FSM clause (quarantine after a CSV refund; swapfsm) + peer-sync clause (suspicious peers are neither answered nor stored; peersync)
        return run_tx("C26", "C26", tier, mod=peersync)
    t0 = time.time()
    ver = vp.Verdicts(prop)
    r = swapfsm.run_all(tier)
    for x in r["viol"]:
        if x["sig"].startswith(prop + "|"):
            rp = vp.save_replay(prop, "sched-%s.json" % vp.sig_id(x["sig"]), dict(signature=x["sig"], schedule=x["schedule"]))
            ver.add(x["sig"], rp)
    try:
        p = duo.part(prop, tier) if prop in DUO else route.part(PARTS[prop], tier)
    except vp.Fatal as e:
        if ver.new:      # a violation on the real code stands, whatever happened to the other part's machinery (e.g. model/code drift there)
            rc = ver.report()
            vp.log("the other part of this check failed (machinery), the violations above stand: %s" % str(e)[:300])
            _partial_evidence(prop, tier, r, ver, t0, e)
            return rc
        raise
    for sig, rp in p["violations_new"].items():
        ver.new.setdefault(sig, rp)
    for sig, txt in p["known"].items():
        ver.known.setdefault(sig, txt)
    rc = ver.report()
    cov = dict(p["coverage"])
    cov["duo_part" if prop in DUO else "route_part"] = {k: v for k, v in p["coverage"].items() if k not in ("samples",)}
    cov["states"] = int(p["coverage"].get("states", 0)) + r["states"]
    cov["transitions"] = int(p["coverage"].get("transitions", 0)) + r["transitions"]
    cov["traces_validated_against_impl"] = int(p["coverage"].get("traces_validated_against_impl", 0)) + r["nschedules"]
    cov["samples"] = list(p["coverage"].get("samples", []))[:3] + r["samples"][:2]
    cov["fsm_part"] = dict(models=r["models"], schedules=r["nschedules"], events=r["nevents"], drift=r["ndrift"],
                           predicted=[s for s in r["predicted"] if s.startswith(prop + "|")])
    cov["known_findings"] = sorted(ver.known)
    cov["new_violations"] = sorted(ver.new)
    vp.write_evidence(prop, tier, "model_checking", cov, time.time() - t0, len(ver.new),
                      assumptions=list(p["assumptions"]) + ["FSM part: simulated Lightning/chain/wallet/peer (harness/l1)"])
    return rc
