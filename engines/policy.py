"""C25 - policy changes apply immediately and survive a reload.

spec/Policy.tla   property layer (abstract policy, Abs, Judge) + design layer (file as abstract lines,
                  the line edits of policy.go, the ini parse)
spec/PolicyMC     TLC: all operation sequences up to MaxLen from every pre-existing file class; the three
                  clauses are invariants on the classes the node writes itself, predicted per step on the
                  others; one schedule exported per distinct (state, incoming operation, verdict)
harness/cmd/policy executes the exported schedules + VERIF_SEED random longer ones on the real policy.Policy
                  on real files, logging memory / fresh load of the file / query answers after every step
spec/PolicyTrace  TLC judges every recorded step with the same Judge
Only a clause broken on a recorded step of the real code is a VIOLATION."""
import json
import os
import random
import shutil
import time
from concurrent.futures import ThreadPoolExecutor

import vp

ENGINE = "policy"
TIERS = {
    # MaxLen of the design-level exploration, number / max length of random schedules, parallel trace validators
    "quick": dict(maxlen=4, nrand=1500, randlen=20, parts=8, mc_timeout=900),
    "thorough": dict(maxlen=6, nrand=10000, randlen=40, parts=12, mc_timeout=2400),
}


def drop_prefixes(scheds):
    """A schedule that is a proper prefix of another one (same pre-existing file) is executed as part of it."""
    def key(s):
        return (s["cls"],) + tuple((o["op"], o["arg"]) for o in s["ops"])
    covered = set()
    for s in scheds:
        k = key(s)
        for n in range(1, len(k)):
            covered.add(k[:n])
    return [s for s in scheds if key(s) not in covered]


def split_trace(trace, parts, sd):
    """Split an NDJSON trace at trace boundaries (init lines) into `parts` files, each in its own copy of the
    spec directory (the trace specification reads ./trace.ndjson and writes ./verdict.json)."""
    lines = open(trace).read().splitlines()
    starts = [i for i, ln in enumerate(lines) if '"ev":"init"' in ln]
    if not starts:
        raise vp.Fatal("trace without init lines")
    parts = max(1, min(parts, len(starts)))
    per = (len(lines) + parts - 1) // parts
    cuts, nxt = [0], per
    for st in starts[1:]:
        if st >= nxt:
            cuts.append(st)
            nxt = st + per
    cuts.append(len(lines))
    dirs = []
    for k in range(len(cuts) - 1):
        d = "%s-part%d" % (sd, k)
        shutil.copytree(sd, d, ignore=shutil.ignore_patterns("sched_*", "trace*.ndjson", "meta*", "states", "scheds.ndjson"))
        with open(os.path.join(d, "trace.ndjson"), "w") as f:
            f.write("\n".join(lines[cuts[k]:cuts[k + 1]]) + "\n")
        dirs.append(d)
    return dirs, len(lines)


def validate_parallel(module, cfg, sd, trace, parts, timeout):
    dirs, nlines = split_trace(trace, parts, sd)

    def one(d):
        return vp.validate_trace(module, cfg, d, os.path.join(d, "trace.ndjson"), timeout=timeout, heap="3g")
    with ThreadPoolExecutor(max_workers=len(dirs)) as ex:
        res = list(ex.map(one, dirs))
    viol, at, n = set(), [], 0
    for d, r in zip(dirs, res):
        viol |= set(r["viol"])
        for k in range(int(r["chunks"])):
            for ln in open(os.path.join(d, "at_%d.ndjson" % k)):
                if ln.strip():
                    x = json.loads(ln)
                    at.append((x["t"], x["i"], x["c"], x["s"]))
        n += int(r["n"])
    if n != nlines:
        raise vp.Fatal("trace validation consumed %d of %d lines" % (n, nlines))
    return dict(viol=sorted(viol), at=at, n=n)


def run(prop, tier):
    t0 = time.time()
    cfgt = TIERS[tier]
    wd = vp.workdir(prop)
    try:
        sd = vp.spec_copy(wd)
        binp = vp.build_harness("./cmd/policy")
        # ---- 1. design level: TLC checks the clauses on the design model and exports schedules
        cfg = open(os.path.join(sd, "PolicyMC.cfg")).read()
        import re
        cfg = re.sub(r"MaxLen = \d+", "MaxLen = %d" % cfgt["maxlen"], cfg)
        open(os.path.join(sd, "PolicyMC_run.cfg"), "w").write(cfg)
        mc = vp.tlc("PolicyMC", "PolicyMC_run.cfg", sd, workers=1, timeout=cfgt["mc_timeout"])
        if not mc["ok"]:
            raise vp.Fatal("design-level model violates C25 on files the node writes itself: %s\n%s" % (mc["violated"], mc["out"][-3000:]))
        scheds = []
        for fn in sorted(os.listdir(sd)):
            if fn.startswith("sched_") and fn.endswith(".ndjson"):
                scheds += [json.loads(x) for x in open(os.path.join(sd, fn)) if x.strip()]
        if len(scheds) != mc["distinct"]:
            raise vp.Fatal("exported %d schedules for %d distinct states" % (len(scheds), mc["distinct"]))
        predicted = set()
        for s in scheds:
            for o, pv in zip(s["ops"], s["pv"]):
                for v in pv:
                    predicted.add("C25|%s|pre=%s|op=%s|%s" % (v[0], s["cls"], o["op"], v[1]))
        kept = drop_prefixes(scheds)
        sp = os.path.join(sd, "scheds.ndjson")
        with open(sp, "w") as f:
            for s in kept:
                f.write(json.dumps(s) + "\n")
        # ---- 2. the real code
        trace = os.path.join(wd, "trace.ndjson")
        meta = os.path.join(wd, "meta.ndjson")
        p = vp.run([binp, "-sched", sp, "-files", os.path.join(sd, "files.ndjson"), "-rand", str(cfgt["nrand"]),
                    "-seed", str(vp.seed()), "-maxlen", str(cfgt["randlen"]), "-out", trace, "-meta", meta,
                    "-dir", os.path.join(wd, "files"), "-workers", str(max(2, min(8, vp.NCPU // 2)))], timeout=3000)
        vp.log("harness:", p.stdout.strip().splitlines()[-1])
        # ---- 3. judge the trace
        v = validate_parallel("PolicyTrace", "PolicyTrace.cfg", sd, trace, cfgt["parts"], timeout=3000)
        metas = [json.loads(x) for x in open(meta)]
        model = [s for s in v["viol"] if s.startswith("MODEL|")]
        if model:
            raise vp.Fatal("design-level Parse disagrees with the real loader on a pre-existing file: %s" % model[:5])
        # lines by (t, i) only where something was flagged
        flagged = {}
        for (t, i, clause, sym) in v["at"]:
            flagged.setdefault((int(t), int(i)), set()).add((clause, sym))
        ver = vp.Verdicts(prop)
        first = {}
        for (t, i), vs in sorted(flagged.items()):
            m = metas[t]
            op = "init" if i == 0 else m["ops"][i - 1]["op"]
            for (clause, sym) in sorted(vs):
                sig = "C25|%s|pre=%s|op=%s|%s" % (clause, m["cls"], op, sym)
                if sig not in first:
                    first[sig] = (t, i)
        if set(first) != set(v["viol"]):
            raise vp.Fatal("verdict signatures and flagged steps disagree: %s" % sorted(set(first) ^ set(v["viol"]))[:5])
        for sig, (t, i) in sorted(first.items()):
            m = metas[t]
            rp = vp.save_replay(prop, "sched-%s.json" % vp.sig_id(sig), dict(
                signature=sig, step=i, pre_existing_file_text=m["text"], operations=m["ops"][:i], source=m["src"],
                schedule=dict(cls=m["cls"], file=m["file"], nl=m["nl"], ops=m["ops"][:i]),
                how="write `schedule` as one line to s.ndjson; harness/bin/policy -sched s.ndjson -dir /tmp/x -out t.ndjson; "
                    "the last line of t.ndjson shows res / mem / disk after the failing operation "
                    "(arguments: A,B,C = valid pubkeys, i_* = malformed ones, see harness/cmd/policy/main.go)"))
            ver.add(sig, rp)
        # ---- design-model predictions against the real code (TLC-exported schedules, step by step)
        # a step where the model predicts nothing and the code breaks a clause is a violation (reported above);
        # a step where the model predicts a defect the code does not show (or shows differently) is DRIFT of
        # the design model against the code: the model must be brought back to what the code does
        agree = disagree = 0
        dis, drift = [], []
        for m in metas:
            if m["src"] != "tlc":
                continue
            for i, pv in enumerate(m.get("pv", []), start=1):
                want = set((x[0], x[1]) for x in pv)
                got = flagged.get((m["t"], i), set())
                if want == got:
                    agree += 1
                else:
                    disagree += 1
                    rec = dict(cls=m["cls"], ops=m["ops"][:i], predicted=sorted(want), observed=sorted(got))
                    if len(dis) < 5:
                        dis.append(rec)
                    if want and len(drift) < 5:
                        drift.append(rec)
        observed_tlc = set(s for s, (t, i) in first.items() if metas[t]["src"] == "tlc")
        rnd = random.Random(vp.seed())
        samples = []
        for m in rnd.sample(metas, min(4, len(metas))):
            samples.append(dict(source=m["src"], pre_existing=m["cls"], file_text=m["text"], ops=m["ops"]))
        ntlc = sum(1 for m in metas if m["src"] == "tlc")
        steps = v["n"] - len(metas)
        classes = {}
        for m in metas:
            classes[m["cls"]] = classes.get(m["cls"], 0) + 1
        rc = ver.report()
        vp.write_evidence(prop, tier, "model_checking", dict(
            states=mc["distinct"], transitions=mc["generated"], depth=mc["depth"],
            traces_validated_against_impl=len(metas),
            samples=samples,
            exhaustive=False,
            evaluations=steps, distinct_nontrivial=len(kept),
            rule="TLC explores every sequence of <= %d public operations (one less from file classes with hand-written lines or without final newline; "
                 "add/remove allowlisted or suspicious peer with 2 valid "
                 "and 1 invalid pubkey, disable, enable, reload, restart) from %d pre-existing file classes on the design-level "
                 "model and exports the shortest sequence reaching each distinct (state, incoming operation, verdict); sequences "
                 "that are prefixes of others are dropped (distinct_nontrivial = executed TLC schedules); plus %d seeded random "
                 "schedules of 5..%d operations with 3 valid and 9 malformed pubkeys; every step executed on the real "
                 "policy.Policy on a real file and judged by PolicyTrace" % (cfgt["maxlen"], len(classes), cfgt["nrand"], cfgt["randlen"]),
            schedules_exported_by_tlc=len(scheds), schedules_tlc_executed=ntlc, schedules_random=len(metas) - ntlc,
            steps_on_real_code=steps, trace_lines=v["n"], schedules_by_file_class=classes,
            design_predictions=dict(steps_compared=agree + disagree, agree=agree, disagree=disagree, examples=dis,
                                    signatures_predicted=len(predicted), signatures_observed_on_tlc_schedules=len(observed_tlc),
                                    predicted_not_observed=sorted(predicted - observed_tlc)[:10],
                                    observed_not_predicted=sorted(observed_tlc - predicted)[:10]),
            spec_invariants="P_C25_Effect P_C25_Reject P_C25_Persist MemIsFile (PolicyMC, on SoundClasses)",
            trace_spec="PolicyTrace: Judge (effect / reject / persist) + JudgeQueries on every recorded step",
            known_findings=sorted(ver.known), new_violations=sorted(ver.new),
        ), time.time() - t0, len(ver.new),
            assumptions=["pubkey validity is the code's: exactly 66 lower-case hex characters",
                         "removing a peer that is not listed may or may not report an error (statement silent); it must change nothing",
                         "list contents are compared as sets (duplicates in a pre-existing file are one entry)",
                         "I/O errors of the file system are not injected",
                         "concurrent callers are not modelled (the operations hold one global mutex)"])
        if rc == 0 and drift:
            raise vp.Fatal("drift: the design-level model (Policy.tla) predicts defects the real code does not show "
                           "(%d steps differ), e.g. %s" % (disagree, json.dumps(drift[0])))
        return rc
    finally:
        vp.cleanup(wd)
