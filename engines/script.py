"""C02 - the opening output is spendable only by preimage+taker, taker+maker, or maker after CSV.

spec/Script.tla is an interpreter (state machine Step, closure Run) for the opening-script TEMPLATE the protocol
demands, executed as a P2WSH witness script under the Bitcoin rules over abstract witness items.
  1. TLC (ScriptMC) runs the state machine on every case (all witness stacks up to MaxLen over the 10-item alphabet and
     the neighbours of the canonical witnesses x flag sets x chains/protocol versions x input sequences x tx versions)
     and checks P_C02 (only the three paths accept; the canonical witnesses are accepted; exact characterisation) on
     the specification; it exports every line of the case space.
  2. The Go harness obtains the REAL script through the wallets' public functions, builds real spending transactions
     (real ECDSA signatures over the BIP143 sighash) and records btcd's script-engine verdict for every case.
  3. TLC (ScriptTrace, several chunks in parallel) compares every engine verdict with the interpreter: an engine ACCEPT
     outside the three paths or an engine REJECT of a canonical witness is the C02 violation; any other difference is
     drift of the interpreter/harness (machinery error, exit 2).
"""
import concurrent.futures
import json
import os
import random
import shutil
import time

import vp

# MaxLen: every stack up to this length over all 10 items (min + consensus flags);
# CoreLen / CoreFlags: every stack up to this length over the 7 items that can play a role in some path
MAXLEN = {"quick": 3, "thorough": 4}
CORELEN = {"quick": 4, "thorough": 5}
COREFLAGS = {"quick": '{"consensus"}', "thorough": '{"min", "consensus"}'}
NRANDOM = {"quick": 400, "thorough": 4000}
ITEMS = ["sigTaker", "sigMaker", "sigOther", "malformedSig", "preimage", "wrong32", "short31", "long33", "empty", "one"]
CANON = [["sigTaker", "preimage", "empty", "empty"], ["sigTaker", "sigMaker", "empty"], ["sigMaker"]]
MAX_REPORTED = 40   # a broken script fails thousands of cases; report the first ones (sorted), count the rest


def _split(trace, wd, sd, nchunks):
    """header lines (grid, script) go into every chunk; the work lines are dealt round-robin"""
    head, work = [], []
    for ln in open(trace):
        if not ln.strip():
            continue
        k = json.loads(ln).get("kind")
        (head if k in ("grid", "script") else work).append(ln)
    # few large chunks: a JVM needs some thousand lines before its JIT pays off
    nchunks = max(1, min(nchunks, 8, len(work) // 2000))
    dirs = []
    for i in range(nchunks):
        d = os.path.join(wd, "chunk%02d" % i)
        os.makedirs(d)
        for f in ("Script.tla", "ScriptTrace.tla", "ScriptTrace.cfg"):
            shutil.copy(os.path.join(sd, f), d)
        with open(os.path.join(d, "trace.ndjson"), "w") as o:
            o.writelines(head)
            o.writelines(work[i::nchunks])
        dirs.append(d)
    return dirs, len(head), len(work)


def _random_lines(rnd, n):
    """VERIF_SEED-seeded witness stacks beyond the enumerated lengths (5..9 items): half of them uniformly random over
    the alphabet, half a canonical witness with 2..5 random insertions/substitutions. Judged by ScriptTrace like every
    exported line (Script!Run is defined for any length)."""
    out, seen = [], set()
    while len(out) < n:
        if rnd.random() < 0.5:
            w = [rnd.choice(ITEMS) for _ in range(rnd.randint(5, 9))]
        else:
            w = list(rnd.choice(CANON))
            for _ in range(rnd.randint(2, 5)):
                if w and rnd.random() < 0.3:
                    w[rnd.randrange(len(w))] = rnd.choice(ITEMS)
                else:
                    w.insert(rnd.randint(0, len(w)), rnd.choice(ITEMS))
            if len(w) < 5:
                continue
        ln = dict(kind="stack", w=w, ws="script", hpre=rnd.choice(["preimage", "preimage", "short31", "long33"]),
                  flags=rnd.choice(["min", "consensus", "standard"]), grid="full", src=rnd.choice(["out", "in"]), path="")
        k = json.dumps(ln, sort_keys=True)
        if k not in seen:
            seen.add(k)
            out.append(ln)
    return out


def _validate(d):
    return vp.validate_trace("ScriptTrace", "ScriptTrace.cfg", d, os.path.join(d, "trace.ndjson"), timeout=3000, heap="3g")


def _summarise(ln, grids):
    """compact, readable form of one trace line for the evidence file"""
    pts = grids[ln["grid"]]
    acc, rej = [], {}
    for p, r in zip(pts, ln["r"]):
        if r == "ok":
            acc.append("%s/seq=%s/v%d" % (p["chain"], p["seq"]["name"], p["ver"]))
        else:
            rej[r] = rej.get(r, 0) + 1
    out = {k: ln[k] for k in ("kind", "w", "ws", "hpre", "flags", "src", "grid") if k in ln}
    if ln.get("kind") == "canon":
        out["builder"], out["built"] = ln.get("path"), ln.get("built")
    out["engine_accepts_at"], out["engine_rejects"] = acc, rej
    return out


def run(prop, tier):
    t0 = time.time()
    wd = vp.workdir(prop)
    try:
        sd = vp.spec_copy(wd)
        binp = vp.build_harness("./cmd/script")
        # ---- 1. specification: the interpreter satisfies P_C02 on the whole case space; export
        cfg = "ScriptMC.cfg"
        if tier != "quick":
            txt = open(os.path.join(sd, "ScriptMC.cfg")).read()
            for name, dflt, val in (("MaxLen", "3", MAXLEN[tier]), ("CoreLen", "4", CORELEN[tier]),
                                    ("CoreFlags", '{"consensus"}', COREFLAGS[tier])):
                if "CONSTANT %s = %s\n" % (name, dflt) not in txt:
                    raise vp.Fatal("ScriptMC.cfg: CONSTANT %s = %s not found" % (name, dflt))
                txt = txt.replace("CONSTANT %s = %s\n" % (name, dflt), "CONSTANT %s = %s\n" % (name, val))
            cfg = "ScriptMC_%s.cfg" % tier
            open(os.path.join(sd, cfg), "w").write(txt)
        mc = vp.tlc("ScriptMC", cfg, sd, timeout=3600, heap="12g")
        if not mc["ok"]:
            raise vp.Fatal("Script.tla does not satisfy its own properties: %s\n%s" % (mc["violated"], mc["out"][-3000:]))
        cases = os.path.join(sd, "cases.ndjson")
        nexported = vp.count_lines(cases)
        rlines = _random_lines(random.Random(vp.seed()), NRANDOM[tier])
        with open(cases, "a") as f:
            for ln in rlines:
                f.write(json.dumps(ln) + "\n")
        nlines = nexported + len(rlines)
        # ---- 2. the real script under btcd's engine
        trace = os.path.join(wd, "trace.ndjson")
        t1 = time.time()
        vp.run([binp, "-cases", cases, "-out", trace, "-seed", str(vp.seed()), "-workers", str(vp.NCPU)], timeout=3000)
        t_engine = time.time() - t1
        # ---- 3. trace validation, chunks in parallel
        dirs, nhead, nwork = _split(trace, wd, sd, vp.NCPU)
        if nwork != nlines - sum(1 for x in open(cases) if '"kind":"grid"' in x):
            raise vp.Fatal("harness wrote %d result lines for %d exported lines" % (nwork, nlines))
        t1 = time.time()
        with concurrent.futures.ThreadPoolExecutor(max_workers=max(1, vp.NCPU)) as ex:
            verdicts = list(ex.map(_validate, dirs))
        t_trace = time.time() - t1
        viol, drift, ncases, consumed = set(), set(), 0, 0
        for v in verdicts:
            viol.update(v["viol"])
            drift.update(v["drift"])
            ncases += int(v["cases"])
            consumed += int(v["n"]) - nhead
        if consumed != nwork:
            raise vp.Fatal("trace chunks consumed %d of %d lines" % (consumed, nwork))

        # ---- measured coverage
        grids, scripts, lines = {}, [], []
        for x in open(trace):
            ln = json.loads(x)
            if ln["kind"] == "grid":
                grids[ln["name"]] = ln["points"]
            elif ln["kind"] == "script":
                scripts.append(ln)
            else:
                lines.append(ln)
        execs = accepted = 0
        codes, by_flags, distinct, nontrivial = {}, {}, set(), set()
        for ln in lines:
            pts = grids[ln["grid"]]
            w = ln.get("built", ln["w"]) if ln["kind"] == "canon" else ln["w"]
            sig = any(i in ("sigTaker", "sigMaker") for i in w)
            for p, r in zip(pts, ln["r"]):
                execs += 1
                accepted += r == "ok"
                codes[r] = codes.get(r, 0) + 1
                by_flags[ln["flags"]] = by_flags.get(ln["flags"], 0) + 1
                key = (tuple(w), ln["ws"], ln["hpre"], ln["flags"], p["chain"], p["seq"]["name"], p["ver"])
                distinct.add(key)
                if sig:
                    nontrivial.add(key)
        if execs != ncases:
            raise vp.Fatal("trace spec checked %d cases, trace holds %d" % (ncases, execs))
        csv_seen = sorted({(s["chain"], s["csv"]) for s in scripts})

        ver = vp.Verdicts(prop)
        # one signature per (class, witness, chain, flags, key source, hash item, script match): the failing
        # (sequence, version) points of the grid are listed inside it
        groups = {}
        for sig in viol:
            head, _, tail = sig.partition("|seq=")
            sq, _, v = tail.partition("|ver=")
            groups.setdefault(head, []).append("%s/v%s" % (sq, v))
        vs = sorted("%s|at=%s" % (h, ",".join(sorted(pts))) for h, pts in groups.items())
        for sig in vs[:MAX_REPORTED]:
            rp = vp.save_replay(prop, "case-%s.json" % vp.sig_id(sig), dict(
                signature=sig, seed=vp.seed(), tier=tier, total_violating_cases=len(viol), violating_witnesses=len(vs),
                how="./check C02 (VERIF_SEED=%d, tier %s); the signature names the witness stack (bottom to top, below the "
                    "witness script), chain/protocol, flag set, key source, hash preimage item, input sequence and tx version; "
                    "harness: harness/cmd/script, case lines from spec/ScriptMC" % (vp.seed(), tier)))
            ver.add(sig, rp)
        rnd = random.Random(vp.seed())
        samples = [_summarise(ln, grids) for ln in rnd.sample(lines, min(4, len(lines)))]
        samples += [_summarise(ln, grids) for ln in lines if ln["kind"] == "canon" and ln["flags"] == "standard" and ln["src"] == "out"]
        if scripts:
            samples.append(dict(kind="script-under-test", chain=scripts[0]["chain"], src=scripts[0]["src"], asm=scripts[0]["asm"]))
        rc = ver.report()
        vp.write_evidence(prop, tier, "model_checking", dict(
            states=mc["distinct"], transitions=mc["generated"], depth=mc["depth"],
            traces_validated_against_impl=nwork,
            samples=samples,
            exhaustive=True,
            evaluations=execs, distinct_nontrivial=len(nontrivial), distinct_cases=len(distinct),
            rule="TLC enumerates every line of Script!Lines(MaxLen=%d, CoreLen=%d): all witness stacks of length 0..%d over the 10 "
                 "abstract items (both consensus flag sets), all stacks of length 0..%d over the 7 core items, all single-edit neighbours of the three canonical witnesses (length up to 5; min, consensus "
                 "and standard flags; keys taken from swap-out and from swap-in messages), short stacks under standard flags, stacks over "
                 "7 items with a payment hash whose preimage is 31 or 33 bytes long, a mismatching witness script, and the wallet's three "
                 "witness builders; each line x grid of (chain/protocol btc, lbtc v7, lbtc v6 [+ btc v6]) x 9 input sequences x tx version "
                 "1/2; plus %d VERIF_SEED-random stacks of length 5..9. Every case is one run of btcd's engine on the real script. distinct = distinct (witness, script match, hash "
                 "preimage item, flags, chain, sequence, version); non-trivial = the witness contains a taker or maker signature"
                 % (MAXLEN[tier], CORELEN[tier], MAXLEN[tier], CORELEN[tier], len(rlines)),
            exported_lines=nexported, random_lines=len(rlines), engine_accepts=accepted, engine_results=codes, executions_by_flags=by_flags,
            csv_reaching_script=[list(x) for x in csv_seen],
            spec_properties="TypeOK AbstractionSound Inv_P_C02_OnlyAllowedPaths Inv_P_C02_CanonicalAccepted Inv_P_C02_Exact RunAgrees "
                            "AcceptAtEnd (invariants of ScriptMC, all states)",
            trace_spec="ScriptTrace: per case engine verdict vs Script!Accept; accept outside Allowed / reject of IsCanonical = violation",
            drift=sorted(drift)[:20], drift_count=len(drift),
            violating_cases=len(viol), violating_witnesses=len(vs), known_findings=sorted(ver.known), new_violations=sorted(ver.new),
            timing=dict(tlc_model_s=round(mc["wall"], 1), engine_s=round(t_engine, 1), trace_validation_s=round(t_trace, 1),
                        trace_chunks=len(dirs)),
        ), time.time() - t0, len(ver.new),
            assumptions=["btcd's txscript engine (pinned in go.mod) is the reference for Bitcoin script semantics",
                         "Liquid uses the same witness-script bytes and the same segwit-v0 script rules; its script is executed in a "
                         "Bitcoin transaction (Elements' own sighash is not exercised here)",
                         "abstract items stand for classes of byte strings (one concrete representative per key set; 3 key sets per run)",
                         "template parameters (key roles, hash, CSV per chain/protocol) are read from the property statement"])
        if not vs and drift:
            raise vp.Fatal("engine and Script.tla disagree on %d cases that are not property violations (interpreter or harness "
                           "is wrong, or the script changed in a way the property does not judge):\n  %s"
                           % (len(drift), "\n  ".join(sorted(drift)[:15])))
        return rc
    finally:
        vp.cleanup(wd)
