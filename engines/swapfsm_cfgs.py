"""Generates spec/PeerSwapCfgs.tla: the set of configurations of the design model explored in one TLC run."""
ROLES = {
    "out_sender": ("swapout", "taker"),
    "in_sender": ("swapin", "maker"),
    "out_receiver": ("swap_out_request", "maker"),
    "in_receiver": ("swap_in_request", "taker"),
}
BLOCKS = {("btc", "taker"): "{3, 504}", ("btc", "maker"): "{1, 1008}", ("lbtc", "taker"): "{2, 60}", ("lbtc", "maker"): "{1, 10080}"}


def rec(name, chain, inits, steps, faults=0, crashes=0, swaps=1, adversary=False, blocks=None, side="taker", ver="current", neglimit=False, minmsat=100000000, junk=False, legacy=False, policy=False, acceptall=True, duppay="cln", vout=0, peerrate=0, funds="ample", onlyown=False):
    return ('[name |-> "%s", chain |-> "%s", inits |-> {%s}, maxsteps |-> %d, maxfaults |-> %d, maxcrashes |-> %d, maxswaps |-> %d, '
            'blocks |-> %s, adversary |-> %s, ver |-> "' + ver + '", neglimit |-> ' + ("TRUE" if neglimit else "FALSE") + ', minmsat |-> %d, junk |-> %s, legacy |-> %s, policy |-> %s, acceptall |-> %s, duppay |-> "%s", vout |-> %d, peerrate |-> %d, funds |-> "%s", onlyown |-> %s]' % (minmsat, "TRUE" if junk else "FALSE", "TRUE" if legacy else "FALSE", "TRUE" if policy else "FALSE", "TRUE" if acceptall else "FALSE", duppay, vout, peerrate, funds, "TRUE" if onlyown else "FALSE")) % (name, chain, ", ".join('"%s"' % i for i in inits), steps, faults, crashes, swaps,
                                                   blocks or BLOCKS[(chain, side)], "TRUE" if adversary else "FALSE")


def configs(tier):
    deep = tier == "thorough"
    out = []
    for role, (init, side) in ROLES.items():
        for chain in ("btc", "lbtc"):
            out.append(rec("%s_%s" % (role, chain), chain, [init], 6 if deep else 4, side=side))
        out.append(rec("%s_btc_fault" % role, "btc", [init], 5 if deep else 4, faults=1, side=side))
        out.append(rec("%s_btc_crash" % role, "btc", [init], 6 if deep else 4, crashes=1, side=side))
        out.append(rec("%s_btc_adv" % role, "btc", [init], 4 if deep else 3, swaps=2, adversary=True, side=side))
        out.append(rec("%s_lbtc_fault" % role, "lbtc", [init], 5 if deep else 3, faults=1, side=side))
        # a crash followed by a failing service during recovery (one crash and one failure in the same behaviour)
        out.append(rec("%s_btc_crashfault" % role, "btc", [init], 5 if deep else 4, faults=1, crashes=1, side=side))
        if deep:
            out.append(rec("%s_lbtc_crash" % role, "lbtc", [init], 6, crashes=1, side=side))
    # C12: negative premium limits and extreme premiums (requesters)
    out.append(rec("out_sender_btc_premium", "btc", ["swapout"], 5 if deep else 4, side="taker", neglimit=True))
    out.append(rec("in_sender_btc_premium", "btc", ["swapin"], 4 if deep else 3, side="maker", neglimit=True))
    # C11: a configured minimum that is not a multiple of 1000 msat, requests at the boundary
    # C21: junk on the wire (every peerswap type number x malformed payloads, foreign / even / non-hex types, oversized payloads) in every early state
    out.append(rec("junk_btc", "btc", ["swapout", "swapin", "swap_out_request", "swap_in_request"], 3 if deep else 2, adversary=True, blocks="{1}", junk=True))
    out.append(rec("receivers_btc_minamount", "btc", ["swap_out_request", "swap_in_request"], 2, swaps=2, adversary=True, blocks="{1}", minmsat=100000500))
    # C26: a maker's swap ends in a CSV refund, then the same peer asks again / the node initiates again
    out.append(rec("in_sender_btc_quar", "btc", ["swapin", "swap_out_request", "swapout"], 6 if deep else 5, swaps=2, side="maker"))
    out.append(rec("out_receiver_btc_quar", "btc", ["swap_out_request", "swap_in_request", "swapin"], 6 if deep else 5, swaps=2, side="maker"))
    # C29: the node is restarted on a database written by an older release (or without a version) in every reachable swap state
    for role, (init, side) in ROLES.items():
        for ver in ("old", "none"):
            out.append(rec("%s_btc_upgrade_%s" % (role, ver), "btc", [init], 5 if deep else 4, side=side, ver=ver))
    # C29 x crash: records a crash leaves behind (e.g. written once, without a state) are unfinished swaps too
    for ver in ("old", "none"):
        out.append(rec("upgrade_crash_btc_%s" % ver, "btc", ["swapout", "swapin", "swap_out_request", "swap_in_request"], 4 if deep else 3, crashes=1, blocks="{1}", ver=ver))
    # C04 (legacy clause): a Liquid taker's stored record becomes a protocol-6 record while the node is down (in every reachable
    # state, also after a crash with the claim payment in flight); the restarted node only follows an existing payment
    out.append(rec("in_receiver_lbtc_legacy", "lbtc", ["swap_in_request"], 6 if deep else 5, crashes=1, side="taker", legacy=True, blocks=None if deep else "{2}"))
    out.append(rec("out_sender_lbtc_legacy", "lbtc", ["swapout"], 6 if deep else 4, crashes=1 if deep else 0, side="taker", legacy=True, blocks=None if deep else "{2}"))
    # C11 / C26: the operator switches swaps off / on, allowlists, marks the peer suspicious at run time (allowlist in force), restarts
    out.append(rec("all_btc_policy", "btc", ["swapout", "swapin", "swap_out_request", "swap_in_request"], 5 if deep else 4, swaps=2, blocks="{1}", policy=True, acceptall=False))
    # C06 / C15 with lnd's duplicate-payment semantics: paying a settled invoice again is an error, the preimage cannot be learnt that way
    out.append(rec("in_receiver_btc_lnd", "btc", ["swap_in_request"], 6 if deep else 4, crashes=1, side="taker", duppay="lnd"))
    if deep:
        out.append(rec("out_sender_btc_lnd", "btc", ["swapout"], 6, crashes=1, side="taker", duppay="lnd"))
    # C08: the wallet puts the swap output at another position than 0 (change first)
    out.append(rec("makers_btc_vout1", "btc", ["swap_out_request", "swapin"], 5 if deep else 4, side="maker", vout=1))
    out.append(rec("makers_lbtc_vout1", "lbtc", ["swap_out_request", "swapin"], 5 if deep else 4, side="maker", vout=1))
    # C12 / C27: a peer-specific premium rate (negative: the node pays the peer) overrides the global one for this peer only
    out.append(rec("receivers_btc_peerrate", "btc", ["swap_out_request", "swap_in_request"], 4 if deep else 3, swaps=2, adversary=True, blocks="{3}", peerrate=-2500))
    # C11: the amount must fit the channel and (swap-out responder) the on-chain balance: one unit short of the typical amount
    out.append(rec("all_btc_tight", "btc", ["swapout", "swapin", "swap_out_request", "swap_in_request"], 3, swaps=2, adversary=True, blocks="{3}", funds="tight"))
    # C11: a request for a chain the node has switched off
    out.append(rec("receivers_btc_onlybtc", "btc", ["swap_out_request", "swap_in_request"], 3, swaps=2, adversary=True, blocks="{3}", onlyown=True))
    out.append(rec("receivers_lbtc_onlylbtc", "lbtc", ["swap_out_request", "swap_in_request"], 3, swaps=2, adversary=True, blocks="{2}", onlyown=True))
    out.append(rec("mixed_btc_adv", "btc", ["swapout", "swap_in_request", "swapin", "swap_out_request"], 4 if deep else 3, swaps=2,
                   adversary=True, blocks="{3}"))
    return out


def shards(cs, tier, n):
    """longest-processing-time-first assignment of configurations to n TLC processes, by the state counts measured by
    tools/measure_cfgs.py (engines/swapfsm_weights.json); unmeasured configurations count as the median"""
    import json, os, re
    p = os.path.join(os.path.dirname(os.path.abspath(__file__)), "swapfsm_weights.json")
    w = (json.load(open(p)).get(tier, {}) if os.path.exists(p) else {})
    known = sorted(v["generated"] for v in w.values() if "generated" in v) or [1]
    med = known[len(known) // 2]
    def weight(c):
        v = w.get(re.search(r'name \|-> "([^"]+)"', c).group(1), {})
        return v.get("generated", med)
    load, out = [0] * n, [[] for _ in range(n)]
    for c in sorted(cs, key=lambda c: -weight(c)):
        i = load.index(min(load))
        out[i].append(c)
        load[i] += weight(c) + med // 4      # a constant per configuration: evaluating Init, module loading
    return out


def write(path, tier, only=None, shard=None):
    cs = configs(tier)
    if only:
        cs = [c for c in cs if any(o in c for o in only)]
    if shard:
        cs = shards(cs, tier, shard[1])[shard[0]]
    with open(path, "w") as f:
        f.write("----------------------------- MODULE PeerSwapCfgs -----------------------------\nEXTENDS Integers\n")
        f.write("(* GENERATED (engines/swapfsm_cfgs.py, tier %s): configurations of the design model. *)\n" % tier)
        f.write("CONFIGS == {\n  " + ",\n  ".join(cs) + "}\n")
        f.write("===============================================================================\n")
    return len(cs)


if __name__ == "__main__":
    import sys
    print(write(sys.argv[1], sys.argv[2] if len(sys.argv) > 2 else "quick"))
