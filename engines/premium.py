"""C27 - premiums follow the configured rate and match what peer-sync advertises.

spec/Premium.tla    the persistent map (owner, slot) -> rate, rate resolution (peer-specific, else stored global,
                    else built-in), Premium = amount * rate / 10^6 truncated toward zero on base-1000 limbs, saturated at int64
spec/PremiumMC      TLC: all operation sequences (wide: 4 slots, deep: complete state space of DeepSlots), resolution
                    and map lemmas, arithmetic lemmas on the grid; exports one schedule per distinct (map, incoming op)
                    and the rate x amount grid
harness/cmd/premium executes schedules + grid + VERIF_SEED random schedules on the real premium.Setting (bbolt file,
                    reopened for restart) and the real peersync.PeerSync capability path (fake Lightning adapter)
spec/PremiumTrace   TLC replays every logged operation on the map and compares every logged read with its projection
Only a mismatch on a recorded step of the real code is a VIOLATION."""
import json
import os
import random
import re
import shutil
import time
from concurrent.futures import ThreadPoolExecutor

import vp

TIERS = {
    "quick": dict(wide=2, deep=6, deepslots='{"btc_out"}', nrand=1500, randlen=20, parts=4, mc_timeout=600),
    "thorough": dict(wide=3, deep=5, deepslots='{"btc_out", "lbtc_in"}', nrand=30000, randlen=40, parts=12, mc_timeout=2400),
}


def drop_prefixes(scheds):
    """A schedule that is a proper prefix of another one is executed as part of it."""
    def key(s):
        return tuple((o["op"], o["p"], o["s"], o["r"]) for o in s["ops"])
    covered = set()
    for s in scheds:
        k = key(s)
        for n in range(0, len(k)):
            covered.add(k[:n])
    return [s for s in scheds if key(s) not in covered]


def split_trace(trace, parts, sd):
    lines = open(trace).read().splitlines()
    starts = [i for i, ln in enumerate(lines) if '"ev":"init"' in ln]
    if not starts:
        raise vp.Fatal("trace without init lines")
    parts = max(1, min(parts, len(starts)))
    per = (len(lines) + parts - 1) // parts
    cuts, nxt = [0], per
    for st in starts[1:]:
        if st >= nxt:
            cuts.append(st)
            nxt = st + per
    cuts.append(len(lines))
    dirs = []
    for k in range(len(cuts) - 1):
        d = "%s-part%d" % (sd, k)
        shutil.copytree(sd, d, ignore=shutil.ignore_patterns("sched_*", "trace*.ndjson", "meta*", "states", "scheds.ndjson"))
        with open(os.path.join(d, "trace.ndjson"), "w") as f:
            f.write("\n".join(lines[cuts[k]:cuts[k + 1]]) + "\n")
        dirs.append(d)
    return dirs, lines


def validate_parallel(module, cfg, sd, trace, parts, timeout):
    dirs, lines = split_trace(trace, parts, sd)

    def one(d):
        return vp.validate_trace(module, cfg, d, os.path.join(d, "trace.ndjson"), timeout=timeout, heap="3g")
    with ThreadPoolExecutor(max_workers=len(dirs)) as ex:
        res = list(ex.map(one, dirs))
    viol, first, n = set(), {}, 0
    for r in res:
        viol |= set(r["viol"])
        for (sig, t, i) in r.get("at", []):
            if sig not in first or (int(t), int(i)) < first[sig]:
                first[sig] = (int(t), int(i))
        n += int(r["n"])
    if n != len(lines):
        raise vp.Fatal("trace validation consumed %d of %d lines" % (n, len(lines)))
    return dict(viol=sorted(viol), first=first, n=n), lines


def run(prop, tier):
    t0 = time.time()
    cfgt = TIERS[tier]
    wd = vp.workdir(prop)
    try:
        sd = vp.spec_copy(wd)
        binp = vp.build_harness("./cmd/premium")
        # ---- 1. design level
        cfg = open(os.path.join(sd, "PremiumMC.cfg")).read()
        cfg = re.sub(r"WideLen = \d+", "WideLen = %d" % cfgt["wide"], cfg)
        cfg = re.sub(r"DeepLen = \d+", "DeepLen = %d" % cfgt["deep"], cfg)
        cfg = re.sub(r"DeepSlots = \{[^}]*\}", "DeepSlots = " + cfgt["deepslots"], cfg)
        open(os.path.join(sd, "PremiumMC_run.cfg"), "w").write(cfg)
        mc = vp.tlc("PremiumMC", "PremiumMC_run.cfg", sd, workers=1, timeout=cfgt["mc_timeout"])
        if not mc["ok"]:
            raise vp.Fatal("the specification's own lemmas fail: %s\n%s" % (mc["violated"], mc["out"][-3000:]))
        scheds = []
        for fn in sorted(os.listdir(sd)):
            if fn.startswith("sched_") and fn.endswith(".ndjson"):
                scheds += [json.loads(x) for x in open(os.path.join(sd, fn)) if x.strip()]
        if len(scheds) != mc["distinct"]:
            raise vp.Fatal("exported %d schedules for %d distinct states" % (len(scheds), mc["distinct"]))
        kept = drop_prefixes(scheds)
        sp = os.path.join(sd, "scheds.ndjson")
        with open(sp, "w") as f:
            for s in kept:
                f.write(json.dumps(s) + "\n")
        grid = json.loads(open(os.path.join(sd, "grid.ndjson")).readline())
        # ---- 2. the real code
        trace = os.path.join(wd, "trace.ndjson")
        meta = os.path.join(wd, "meta.ndjson")
        p = vp.run([binp, "-sched", sp, "-grid", os.path.join(sd, "grid.ndjson"), "-rand", str(cfgt["nrand"]),
                    "-seed", str(vp.seed()), "-maxlen", str(cfgt["randlen"]), "-out", trace, "-meta", meta,
                    "-dir", os.path.join(wd, "db"), "-workers", str(max(2, min(8, vp.NCPU // 2)))], timeout=3000)
        vp.log("harness:", p.stdout.strip().splitlines()[-1])
        # ---- 3. judge the trace
        v, lines = validate_parallel("PremiumTrace", "PremiumTrace.cfg", sd, trace, cfgt["parts"], timeout=3000)
        metas = [json.loads(x) for x in open(meta)]
        model = [s for s in v["viol"] if s.startswith("MODEL|")]
        if model:
            raise vp.Fatal("trace not explained by the specification: %s" % model[:5])
        if set(v["first"]) != set(v["viol"]):
            raise vp.Fatal("verdict signatures without a first occurrence")
        where = {}
        if v["first"]:
            want = set(v["first"].values())
            for ln in lines:
                e = json.loads(ln)
                if (e["t"], e["i"]) in want:
                    where[(e["t"], e["i"])] = e
        ver = vp.Verdicts(prop)
        for sig, (t, i) in sorted(v["first"].items()):
            m = metas[t]
            rp = vp.save_replay(prop, "sched-%s.json" % vp.sig_id(sig), dict(
                signature=sig, step=i, source=m["src"], operations=m["ops"][:i], observed_after_last_operation=where.get((t, i)),
                how="write {\"ops\": operations} as one line to s.ndjson; harness/bin/premium -sched s.ndjson -dir /tmp/x -out t.ndjson; "
                    "the last line of t.ndjson holds gr (GetRate, P1..P3 x btc_in,btc_out,lbtc_in,lbtc_out), gd (GetDefaultRate), "
                    "ad/fp (rates in the capability messages), cp (Compute: amount `as`, answer `gs`)"))
            ver.add(sig, rp)
        rnd = random.Random(vp.seed())
        samples = [dict(source=m["src"], ops=m["ops"][:12]) for m in rnd.sample(metas, min(4, len(metas)))]
        by_src = {}
        for m in metas:
            by_src[m["src"]] = by_src.get(m["src"], 0) + 1
        ncomp = sum(ln.count('"as":') for ln in lines)
        steps = v["n"] - len(metas)
        rc = ver.report()
        vp.write_evidence(prop, tier, "model_checking", dict(
            states=mc["distinct"], transitions=mc["generated"], depth=mc["depth"],
            traces_validated_against_impl=len(metas),
            samples=samples,
            exhaustive=False,
            evaluations=steps, distinct_nontrivial=len(kept),
            rule="TLC explores every sequence of <= %d operations (set peer rate / set global rate / delete peer rate / restart; "
                 "2 peers x 4 slots x rates {-1, 0, 10^6}) and every sequence of <= %d operations restricted to slots %s, and exports the "
                 "shortest sequence reaching each distinct (map, incoming operation); prefixes of other schedules are dropped "
                 "(distinct_nontrivial = executed TLC schedules); plus 4 grid schedules (%d rates x %d amounts through peer and global "
                 "rate) and %d seeded random schedules of 5..%d operations (rates in +-10^6, amounts over the whole uint64 range incl. the former int64-overflow region and >= 2^63); every step executed on "
                 "the real premium.Setting / peersync.PeerSync and every read judged by PremiumTrace" % (
                     cfgt["wide"], cfgt["deep"], cfgt["deepslots"], len(grid["rates"]), len(grid["amounts"]), cfgt["nrand"], cfgt["randlen"]),
            schedules_exported_by_tlc=len(scheds), schedules_by_source=by_src,
            steps_on_real_code=steps, trace_lines=v["n"], compute_evaluations=ncomp,
            reads_per_step="12 GetRate + 4 GetDefaultRate + 12 advertised (RequestPoll; + 12 ForcePollAllPeers at the end of a schedule) + Compute",
            spec_lemmas="P_C27_Rate P_C27_Fallback (invariants) P_C27_Map (action property) LemmaBound LemmaSign LemmaOdd LemmaIdentity "
                        "LemmaSmall LemmaOverflow LemmaSaturate (ASSUME)",
            trace_spec="PremiumTrace: Apply per logged operation; gr/gd/ad/fp/cp = projection of the map",
            known_findings=sorted(ver.known), new_violations=sorted(ver.new),
        ), time.time() - t0, len(ver.new),
            assumptions=["amounts are unsigned 64-bit (0 .. 2^64-1); a quotient outside int64 (only for amounts >= 2^63) must be the saturated bound",
                         "rates within +-10^6 ppm as the statement says (the premium store itself does not enforce the range)",
                         "peer ids are node pubkeys; the literal peer id \"default\" would alias the stored global rate",
                         "the premium database is opened with bbolt NoSync (no fsync); restart = Close + Open of the same file",
                         "the peer-sync clause is checked on the capability message handed to the Lightning adapter (RequestPoll / ForcePollAllPeers), "
                         "not on a remote peer's decoded view; the premium the swap FSM puts into agreements is not part of this check"])
        return rc
    finally:
        vp.cleanup(wd)
