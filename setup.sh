#!/bin/sh
# Run once after a fresh restore, offline: builds the harness from files on disk only
# and parses every specification module.
set -e
cd "$(dirname "$0")"
export GOFLAGS=-mod=mod GOPROXY=off GOSUMDB=off GOTOOLCHAIN=local
python3 - <<'PY'
import sys, os, glob
sys.path.insert(0, 'lib')
import vp
vp.gen_gomod()
for d in sorted(glob.glob('harness/cmd/*')):
    vp.build_harness('./cmd/' + os.path.basename(d))
PY
mkdir -p .work/sany && cp spec/*.tla .work/sany/ && cd .work/sany
for f in *.tla; do
  case "$f" in *Trace*.tla) continue;; esac   # trace modules read a trace file at parse time
  timeout 120 tla-sany "$f" >/dev/null 2>&1 || { echo "SANY failed: $f"; timeout 120 tla-sany "$f" | tail -20; exit 1; }
done
cd ../.. && rm -rf .work/sany
echo setup ok
