#!/bin/sh
# Run once after a fresh restore, offline: builds the harness commands of the registered engines from files on disk
# and parses their specification modules.
set -e
cd "$(dirname "$0")"
export GOFLAGS=-mod=mod GOPROXY=off GOSUMDB=off GOTOOLCHAIN=local
CMDS=$(grep -v '^#' tools/registered_cmds.txt)
SPECS=$(grep -v '^#' tools/registered_specs.txt)
python3 - $CMDS <<'PY'
import sys, os
sys.path.insert(0, 'lib')
import vp
vp.gen_gomod()
for c in sys.argv[1:]:
    vp.build_harness('./cmd/' + c)
PY
mkdir -p .work/sany && cp spec/*.tla .work/sany/ && cd .work/sany
for f in $SPECS; do
  timeout 120 tla-sany "$f.tla" >/dev/null 2>&1 || { echo "SANY failed: $f"; timeout 120 tla-sany "$f.tla" | tail -20; exit 1; }
done
cd ../.. && rm -rf .work/sany
echo setup ok
