// record executes the records and store operation sequences exported from
// spec/RecordMC.tla on the REAL bbolt swap store (swap.NewBboltStore) and logs,
// per operation, what the store answered: result code and, for every record
// returned, the fields that are not deeply equal to the record last written
// under that id, classified back into the value classes of spec/Record.tla.
// The lines are judged by spec/RecordTrace.tla (C14, clause "arbitrary field
// values"). The harness judges nothing.
package main

import (
	"bytes"
	"encoding/hex"
	"encoding/json"
	"errors"
	"flag"
	"fmt"
	"log"
	"math"
	"os"
	"path/filepath"
	"reflect"
	"sort"
	"strconv"
	"strings"
	"sync"
	"unicode/utf8"

	"github.com/elementsproject/peerswap/swap"
	"go.etcd.io/bbolt"
	"verif/harness/ndj"
	_ "verif/harness/quiet"
)

// ---------------------------------------------------------------- field table

type field struct {
	Name    string   `json:"name"`
	Par     string   `json:"par"`
	Key     string   `json:"key"`
	Kind    string   `json:"kind"`
	Oe      bool     `json:"oe"`
	Ps      bool     `json:"ps"`
	Classes []string `json:"classes"`
	path    []string
}

type schema struct {
	Fields []*field          `json:"fields"`
	Base   map[string]string `json:"base"`
	byName map[string]*field
	kids   map[string][]*field
}

func loadSchema(p string) *schema {
	b, err := os.ReadFile(p)
	if err != nil {
		log.Fatal(err)
	}
	s := &schema{}
	if err := json.Unmarshal(b, s); err != nil {
		log.Fatal(err)
	}
	s.byName = map[string]*field{}
	s.kids = map[string][]*field{}
	for _, f := range s.Fields {
		f.path = strings.Split(f.Name, ".")
		s.byName[f.Name] = f
		s.kids[f.Par] = append(s.kids[f.Par], f)
	}
	return s
}

type rec struct {
	N string
	C map[string]string // field -> class (complete)
}

func asMap(v any) map[string]any {
	if m, ok := v.(map[string]any); ok {
		return m
	}
	return map[string]any{} // TLC writes the empty function as []
}

func loadRecords(p string, s *schema) []*rec {
	raw, err := ndj.ReadAll(p)
	if err != nil {
		log.Fatal(err)
	}
	out := make([]*rec, 0, len(raw))
	for _, m := range raw {
		r := &rec{N: ndj.Str(m, "n"), C: map[string]string{}}
		for k, v := range s.Base {
			r.C[k] = v
		}
		for k, v := range asMap(m["d"]) {
			r.C[k], _ = v.(string)
		}
		out = append(out, r)
	}
	return out
}

// -------------------------------------------------------------- concretisation

type ids struct{ a, b swap.SwapId } // the two store ids of a trace

var otherID = func() swap.SwapId {
	var x swap.SwapId
	for i := range x {
		x[i] = 0xcc
	}
	return x
}()

func mkIds(flip bool) ids {
	var a, b swap.SwapId
	for i := range a {
		a[i] = byte(0x40 + i)
		b[i] = a[i]
	}
	if flip { // ids differing only in the first byte
		b[0] = a[0] + 1
	} else { // ids differing only in the last byte
		b[31] = a[31] + 1
	}
	return ids{a, b}
}

func (x ids) of(name string) *swap.SwapId {
	if name == "B" {
		c := x.b
		return &c
	}
	c := x.a
	return &c
}
func (x ids) name(s *swap.SwapId) string {
	switch {
	case s == nil:
		return "nil"
	case *s == x.a:
		return "A"
	case *s == x.b:
		return "B"
	}
	return "?"
}

const longLen = 70000 // >= 64 KiB
const errText = "wallet rpc failed: Data.LastErr"

func hexOf(seed string, n int) string {
	b := make([]byte, n)
	for i := range b {
		b[i] = byte(7*i + 13*len(seed) + int(seed[i%len(seed)]))
	}
	return hex.EncodeToString(b)
}

func typical(f *field, alt bool) string {
	leaf := f.path[len(f.path)-1]
	tag := f.Name
	if alt {
		tag += "#alt"
	}
	switch leaf {
	case "Pubkey", "PeerNodeId", "InitiatorNodeId":
		return "02" + hexOf(tag, 32)
	case "Asset", "TxId", "ClaimTxId", "ClaimPaymentHash", "ClaimPreimage", "FeePreimage", "BlindingKey", "BlindingKeyHex", "Privkey":
		return hexOf(tag, 32)
	case "OpeningTxHex":
		return hexOf(tag, 222)
	case "Scid":
		if alt {
			return "539268:845:1"
		}
		return "539268x845x1"
	case "Network":
		if alt {
			return "mainnet"
		}
		return "regtest"
	case "Payreq":
		return "lnbcrt1" + hexOf(tag, 90)
	}
	if alt {
		return "another value of " + f.Name
	}
	return "value of " + f.Name + ": no route"
}

// perByte is what encoding/json turns a string into: every byte that is not part of valid UTF-8 becomes U+FFFD
func perByte(s string) string {
	var sb strings.Builder
	for i := 0; i < len(s); {
		r, n := utf8.DecodeRuneInString(s[i:])
		if r == utf8.RuneError && n == 1 {
			sb.WriteString("\ufffd")
		} else {
			sb.WriteString(s[i : i+n])
		}
		i += n
	}
	return sb.String()
}

func strVal(f *field, c string) (string, bool) {
	switch c {
	case "empty":
		return "", true
	case "short":
		return typical(f, false), true
	case "alt":
		return typical(f, true), true
	case "long":
		p := f.Name + ":"
		return p + strings.Repeat("0123456789abcdef", (longLen-len(p))/16+1), true
	case "nonascii":
		return f.Name + ":\u00e9\u6f22\u5b57\U0001F600\ufffd\ufeff\u00f1\u0301 \u0416", true
	case "quote":
		return f.Name + ":\"\\/<>&'`\b\f\n\r\t\x01\x1f\x7f\u2028\u2029\"", true
	case "nul":
		return f.Name + ":a\x00b\x00", true
	case "badutf8":
		return f.Name + ":x\xff\xfey\xc3\xed\xa0\x80z\xf0\x9f", true
	case "replaced":
		s, _ := strVal(f, "badutf8")
		return perByte(s), true
	case "errtext": // the text of the error that class "some" of Data.LastErr stands for (see set)
		if f.Name == "Data.LastErrString" {
			return errText, true
		}
	}
	if f.Kind == "state" && strings.HasPrefix(c, "State_") {
		return c, true
	}
	return "", false
}

func intVal(kind, c string) (int64, uint64, bool) {
	if n, err := strconv.ParseInt(c, 10, 64); err == nil {
		return n, uint64(n), n >= 0 || kind == "i64" || kind == "enum"
	}
	switch kind {
	case "u8":
		switch c {
		case "typ":
			return 0, 5, true
		case "max":
			return 0, math.MaxUint8, true
		}
	case "u32":
		switch c {
		case "typ":
			return 0, 800123, true
		case "max":
			return 0, math.MaxUint32, true
		}
	case "u64":
		switch c {
		case "typ":
			return 0, 1000000, true
		case "i63":
			return 0, 1 << 63, true
		case "max":
			return 0, math.MaxUint64, true
		}
	case "i64", "enum":
		switch c {
		case "typ":
			return 2500, 0, true
		case "min":
			return math.MinInt64, 0, true
		case "max":
			return math.MaxInt64, 0, true
		}
	}
	return 0, 0, false
}

func bytesVal(f *field, c string) ([]byte, bool) {
	switch c {
	case "nil":
		return nil, true
	case "empty":
		return []byte{}, true
	case "b32":
		b, _ := hex.DecodeString(hexOf(f.Name, 32))
		return b, true
	case "long":
		b := make([]byte, longLen)
		for i := range b {
			b[i] = byte(i*31 + len(f.Name))
		}
		return b, true
	}
	return nil, false
}

func idVal(c string, self *swap.SwapId) (*swap.SwapId, bool) {
	switch c {
	case "nil":
		return nil, true
	case "same":
		x := *self
		return &x, true
	case "other":
		x := otherID
		return &x, true
	case "zero":
		return &swap.SwapId{}, true
	case "ff":
		var x swap.SwapId
		for i := range x {
			x[i] = 0xff
		}
		return &x, true
	}
	return nil, false
}

var errType = reflect.TypeOf((*error)(nil)).Elem()

// locate returns the addressable value of a field; ok=false when a parent pointer is nil
func locate(sm *swap.SwapStateMachine, f *field) (reflect.Value, bool) {
	v := reflect.ValueOf(sm).Elem()
	for i, seg := range f.path {
		v = v.FieldByName(seg)
		if !v.IsValid() {
			log.Fatalf("field %s: the real struct has no %s (specification out of date)", f.Name, seg)
		}
		if i < len(f.path)-1 {
			if v.Kind() != reflect.Ptr {
				log.Fatalf("field %s: %s is not a pointer", f.Name, seg)
			}
			if v.IsNil() {
				return reflect.Value{}, false
			}
			v = v.Elem()
		}
	}
	return v, true
}

// set writes the concrete value of class c into v; ok=false: the class has no concrete value for this kind
func set(v reflect.Value, f *field, c string, self *swap.SwapId) bool {
	switch f.Kind {
	case "ptr":
		if c == "present" {
			v.Set(reflect.New(v.Type().Elem()))
		} else if c == "nil" {
			v.Set(reflect.Zero(v.Type()))
		} else {
			return false
		}
	case "str", "state":
		s, ok := strVal(f, c)
		if !ok {
			return false
		}
		v.SetString(s)
	case "u8", "u32", "u64":
		_, u, ok := intVal(f.Kind, c)
		if !ok || v.OverflowUint(u) {
			return false
		}
		v.SetUint(u)
	case "i64", "enum":
		n, _, ok := intVal(f.Kind, c)
		if !ok {
			return false
		}
		v.SetInt(n)
	case "bytes":
		b, ok := bytesVal(f, c)
		if !ok {
			return false
		}
		v.Set(reflect.ValueOf(b))
	case "bool":
		if c != "true" && c != "false" {
			return false
		}
		v.SetBool(c == "true")
	case "err":
		if c == "some" {
			v.Set(reflect.ValueOf(errors.New(errText)))
		} else if c == "nil" {
			v.Set(reflect.Zero(errType))
		} else {
			return false
		}
	case "iface":
		if c != "nil" {
			return false
		}
		v.Set(reflect.Zero(v.Type()))
	case "idp", "key":
		id, ok := idVal(c, self)
		if !ok {
			return false
		}
		v.Set(reflect.ValueOf(id))
	default:
		return false
	}
	return true
}

// build makes the REAL state machine holding the record's classes (fields in table order: parents first)
func build(s *schema, r *rec, self *swap.SwapId) *swap.SwapStateMachine {
	sm := &swap.SwapStateMachine{}
	for _, f := range s.Fields {
		c := r.C[f.Name]
		if c == "na" {
			continue
		}
		v, ok := locate(sm, f)
		if !ok {
			log.Fatalf("record %s: %s=%s below a nil pointer", r.N, f.Name, c)
		}
		if !set(v, f, c, self) {
			log.Fatalf("record %s: no concrete value for %s=%s", r.N, f.Name, c)
		}
	}
	return sm
}

// classify maps a reloaded value back to a class of the field (or "other:<what>")
func classify(s *schema, f *field, got reflect.Value, self *swap.SwapId) string {
	switch f.Kind {
	case "ptr":
		if got.IsNil() {
			return "nil"
		}
		return "present"
	case "err", "iface":
		if got.IsNil() {
			return "nil"
		}
		return "some"
	}
	cands := append([]string{}, f.Classes...)
	if f.Kind == "str" || f.Kind == "state" {
		cands = append(cands, "replaced", "errtext")
	}
	tmp := reflect.New(got.Type()).Elem()
	for _, c := range cands {
		if set(tmp, f, c, self) && reflect.DeepEqual(tmp.Interface(), got.Interface()) {
			return c
		}
	}
	d := fmt.Sprintf("%v", got.Interface())
	if got.Kind() == reflect.Ptr && !got.IsNil() {
		d = fmt.Sprintf("%v", got.Elem().Interface())
	}
	if len(d) > 24 {
		d = fmt.Sprintf("%s..len%d", d[:24], len(d))
	}
	return "other:" + strings.ToValidUTF8(d, "?")
}

// diff: fields of got that are not deeply equal to the same field of orig -> class of got
func diff(s *schema, r *rec, orig, got *swap.SwapStateMachine, self *swap.SwapId) map[string]string {
	d := map[string]string{}
	for _, f := range s.Fields {
		if r.C[f.Name] == "na" {
			continue
		}
		ov, ok := locate(orig, f)
		if !ok {
			continue
		}
		gv, ok := locate(got, f)
		if !ok {
			d[f.Name] = "na"
			continue
		}
		if f.Kind == "ptr" {
			if ov.IsNil() != gv.IsNil() {
				d[f.Name] = classify(s, f, gv, self)
			}
			continue
		}
		if !reflect.DeepEqual(ov.Interface(), gv.Interface()) {
			d[f.Name] = classify(s, f, gv, self)
		}
	}
	return d
}

// ------------------------------------------------- the persisted format (rawput)

func rawValue(s *schema, doc map[string]any, f *field, self *swap.SwapId) json.RawMessage {
	c, _ := doc[f.Name].(string)
	mar := func(v any) json.RawMessage {
		b, err := json.Marshal(v)
		if err != nil {
			log.Fatal(err)
		}
		return b
	}
	switch f.Kind {
	case "ptr":
		if c == "nil" {
			return json.RawMessage("null")
		}
		return rawObject(s, doc, f.Name, self)
	case "str", "state":
		v, ok := strVal(f, c)
		if !ok || !utf8.ValidString(v) {
			log.Fatalf("doc: %s=%s is not JSON text", f.Name, c)
		}
		return mar(v)
	case "u8", "u32", "u64":
		_, u, ok := intVal(f.Kind, c)
		if !ok {
			log.Fatalf("doc: %s=%s", f.Name, c)
		}
		return json.RawMessage(strconv.FormatUint(u, 10))
	case "i64", "enum":
		n, _, ok := intVal(f.Kind, c)
		if !ok {
			log.Fatalf("doc: %s=%s", f.Name, c)
		}
		return json.RawMessage(strconv.FormatInt(n, 10))
	case "bytes":
		b, _ := bytesVal(f, c)
		return mar(b)
	case "bool":
		return json.RawMessage(c)
	case "idp", "key":
		id, _ := idVal(c, self)
		if id == nil {
			return json.RawMessage("null")
		}
		return mar(hex.EncodeToString(id[:]))
	case "iface":
		return json.RawMessage("null")
	}
	log.Fatalf("doc: kind %s of %s", f.Kind, f.Name)
	return nil
}

// rawObject writes the members of parent par that the specification's Encode lists (declaration order, like encoding/json)
func rawObject(s *schema, doc map[string]any, par string, self *swap.SwapId) json.RawMessage {
	var b bytes.Buffer
	b.WriteByte('{')
	n := 0
	for _, f := range s.kids[par] {
		if _, ok := doc[f.Name]; !ok {
			continue
		}
		if n > 0 {
			b.WriteByte(',')
		}
		n++
		k, _ := json.Marshal(f.Key)
		b.Write(k)
		b.WriteByte(':')
		b.Write(rawValue(s, doc, f, self))
	}
	b.WriteByte('}')
	return b.Bytes()
}

// keysOf flattens a JSON document written by the real encoder into the field names of the table ("?<path>" if unknown)
func keysOf(s *schema, par string, raw json.RawMessage, out *[]string) {
	var m map[string]json.RawMessage
	if json.Unmarshal(raw, &m) != nil || m == nil {
		return
	}
	for k, v := range m {
		var f *field
		for _, c := range s.kids[par] {
			if c.Key == k && c.Ps {
				f = c
			}
		}
		if f == nil {
			*out = append(*out, "?"+par+"/"+k)
			continue
		}
		*out = append(*out, f.Name)
		if f.Kind == "ptr" {
			keysOf(s, f.Name, v, out)
		}
	}
}

// ---------------------------------------------------------------- the store

type fullStore interface {
	swap.Store
	Create(*swap.SwapStateMachine) error
	Update(*swap.SwapStateMachine) error
	DeleteById(string) error
}

type world struct {
	s    *schema
	recs []*rec
	docs []map[string]any
	path string
	db   *bbolt.DB
	st   fullStore
}

func (w *world) open() {
	db, err := bbolt.Open(w.path, 0o600, &bbolt.Options{NoSync: true, NoFreelistSync: true})
	if err != nil {
		log.Fatal(err)
	}
	st, err := swap.NewBboltStore(db)
	if err != nil {
		log.Fatal(err)
	}
	w.db, w.st = db, st
}

func (w *world) reset() {
	err := w.db.Update(func(tx *bbolt.Tx) error {
		if err := tx.DeleteBucket([]byte("swaps")); err != nil {
			return err
		}
		_, err := tx.CreateBucket([]byte("swaps"))
		return err
	})
	if err != nil {
		log.Fatal(err)
	}
}

type written struct {
	r    int
	orig *swap.SwapStateMachine
}

func code(err error, okv string) string {
	switch {
	case err == nil:
		return okv
	case errors.Is(err, swap.ErrAlreadyExists):
		return "exists"
	case errors.Is(err, swap.ErrDoesNotExist):
		return "notexist"
	case errors.Is(err, swap.ErrDataNotAvailable):
		return "notavailable"
	}
	return "err:" + err.Error()
}

func short(s string) string {
	s = strings.ToValidUTF8(s, "?")
	if len(s) > 48 {
		return s[:48] + "..."
	}
	return s
}

// observe describes one returned record relative to the record last written under its id
func (w *world) observe(x ids, last map[string]*written, got *swap.SwapStateMachine, asked string) map[string]any {
	withCont := asked != ""
	idn := asked // GetData: the id asked for (a wrong SwapId inside the record shows as a difference of field SwapId)
	if idn == "" {
		idn = x.name(got.SwapId)
	}
	o := map[string]any{"id": idn}
	lw := last[idn]
	if lw == nil {
		o["r"] = 0
		return o
	}
	self := x.of(idn)
	o["r"] = lw.r
	o["d"] = diff(w.s, w.recs[lw.r-1], lw.orig, got, self)
	a, e1 := json.Marshal(lw.orig)
	b, e2 := json.Marshal(got)
	o["je"] = e1 == nil && e2 == nil && bytes.Equal(a, b)
	if lw.orig.Data != nil && got.Data != nil {
		ro, rr := lw.orig.Data.GetCancelMessage(), got.Data.GetCancelMessage()
		o["rq"] = ro == rr
		if ro != rr {
			o["ro"], o["rr"] = short(ro), short(rr)
			o["rqn"] = perByte(ro) == rr // equal as JSON text (E2)
		}
	} else {
		o["rq"] = (lw.orig.Data == nil) == (got.Data == nil)
	}
	if withCont {
		co, cr := swap.VerifRecoverView(lw.orig), swap.VerifRecoverView(got)
		o["cq"] = reflect.DeepEqual(co, cr)
		o["ct"], o["ck"], o["ca"], o["cf"] = cr.Table, cr.Known, cr.Action, cr.FailOnrecover
		lw.orig.States = nil
	}
	return o
}

func (w *world) runTrace(t int, tr map[string]any, emit func(map[string]any)) {
	x := mkIds(ndj.Bool(tr, "flip"))
	last := map[string]*written{}
	w.reset()
	emit(map[string]any{"t": t, "op": "reset", "res": "ok"})
	ops, _ := tr["ops"].([]any)
	for _, oa := range ops {
		o := oa.(map[string]any)
		op, idn, peer := ndj.Str(o, "op"), ndj.Str(o, "id"), ndj.Str(o, "peer")
		ri := int(ndj.Int(o, "r"))
		ln := map[string]any{"t": t, "op": op}
		if idn != "" {
			ln["id"] = idn
		}
		if ri != 0 {
			ln["r"] = ri
		}
		w.exec(x, last, o, op, idn, peer, ri, ln)
		emit(ln)
	}
}

// exec runs one operation on the real store; a panic inside the store is an observation (res), not a harness failure
// (the store's deferred tx.Rollback runs while the panic unwinds, the database stays usable)
func (w *world) exec(x ids, last map[string]*written, o map[string]any, op, idn, peer string, ri int, ln map[string]any) {
	defer func() {
		if p := recover(); p != nil {
			ln["res"] = short(fmt.Sprintf("panic: %v", p))
			delete(ln, "items")
		}
	}()
	{
		switch op {
		case "create", "update", "upsert":
			self := x.of(idn)
			sm := build(w.s, w.recs[ri-1], self)
			var err error
			switch op {
			case "create":
				err = w.st.Create(sm)
			case "update":
				err = w.st.Update(sm)
			default:
				err = w.st.UpdateData(sm)
			}
			ln["res"] = code(err, "ok")
			if err == nil {
				// the comparison base is built again: the store must not have changed the record it was given either
				last[idn] = &written{r: ri, orig: build(w.s, w.recs[ri-1], self)}
				if md := diff(w.s, w.recs[ri-1], last[idn].orig, sm, self); len(md) > 0 {
					ln["mut"] = md
				}
			}
		case "rawput":
			self := x.of(idn)
			doc := rawObject(w.s, w.docs[ri-1], "", self)
			err := w.db.Update(func(tx *bbolt.Tx) error { return tx.Bucket([]byte("swaps")).Put(self[:], doc) })
			ln["res"] = code(err, "ok")
			if err == nil {
				last[idn] = &written{r: ri, orig: build(w.s, w.recs[ri-1], self)}
			}
		case "putnil":
			sm := build(w.s, w.recs[ri-1], x.of("A"))
			sm.SwapId = nil
			if err := w.st.UpdateData(sm); err != nil {
				ln["res"] = "refused"
			} else {
				ln["res"] = "ok"
			}
		case "delete":
			ln["res"] = code(w.st.DeleteById(x.of(idn).String()), "ok")
			delete(last, idn)
		case "reopen":
			if err := w.db.Close(); err != nil {
				log.Fatal(err)
			}
			w.open()
			ln["res"] = "ok"
		case "get":
			got, err := w.st.GetData(x.of(idn).String())
			ln["res"] = code(err, "rec")
			if err == nil {
				for k, v := range w.observe(x, last, got, idn) {
					if k != "id" {
						ln[k] = v
					}
				}
			}
		case "listall", "bypeer":
			var lst []*swap.SwapStateMachine
			var err error
			if op == "listall" {
				lst, err = w.st.ListAll()
			} else {
				ln["peer"] = peer
				pv, ok := strVal(w.s.byName["Data.PeerNodeId"], peer)
				if !ok {
					log.Fatalf("peer class %s", peer)
				}
				lst, err = w.st.ListAllByPeer(pv)
			}
			ln["res"] = code(err, "list")
			items := []any{}
			for _, g := range lst {
				items = append(items, w.observe(x, last, g, ""))
			}
			ln["items"] = items
		case "enc": // the document the real store writes, as the set of field names it contains
			self := x.of("A")
			var b []byte
			err := w.st.UpdateData(build(w.s, w.recs[ri-1], self))
			if err == nil {
				err = w.db.Update(func(tx *bbolt.Tx) error {
					bk := tx.Bucket([]byte("swaps"))
					b = append(b, bk.Get(self[:])...)
					return bk.Delete(self[:]) // the store model does not see this operation
				})
			}
			if err != nil {
				ln["res"] = "err:" + err.Error()
			} else {
				ln["res"] = "doc"
				var ks []string
				keysOf(w.s, "", b, &ks)
				sort.Strings(ks)
				ln["keys"] = ks
			}
		default:
			log.Fatalf("unknown op %s", op)
		}
	}
}

// probes: behaviour outside the assumed structure; reported, not judged
func (w *world) probes(t int, emit func(map[string]any)) {
	w.reset()
	x := mkIds(false)
	pr := func(what, res string) { emit(map[string]any{"t": t, "op": "probe", "what": what, "res": res}) }
	try := func(f func() error) (res string) {
		defer func() {
			if p := recover(); p != nil {
				res = fmt.Sprintf("panic: %v", p)
			}
		}()
		return code(f(), "ok")
	}
	emit(map[string]any{"t": t, "op": "reset", "res": "ok"})
	sm := build(w.s, w.recs[0], x.of("A"))
	sm.Data = nil
	pr("data=nil put", try(func() error { return w.st.UpdateData(sm) }))
	pr("data=nil get", try(func() error { _, err := w.st.GetData(x.of("A").String()); return err }))
	pr("data=nil listall", try(func() error { _, err := w.st.ListAll(); return err }))
	pr("data=nil listallbypeer", try(func() error { _, err := w.st.ListAllByPeer("p"); return err }))
	w.reset()
	sm = build(w.s, w.recs[0], x.of("A"))
	sm.Data.LastMessage = &swap.CancelMessage{Message: "m"}
	pr("lastmessage=set put", try(func() error { return w.st.UpdateData(sm) }))
	pr("lastmessage=set get", try(func() error { _, err := w.st.GetData(x.of("A").String()); return err }))
	pr("lastmessage=set listall", try(func() error { _, err := w.st.ListAll(); return err }))
	w.reset()
}

// ------------------------------------------------------------- code -> schema

func kindOf(t reflect.Type, top bool) string {
	switch {
	case t == reflect.TypeOf((*swap.SwapId)(nil)):
		if top {
			return "key"
		}
		return "idp"
	case t == reflect.TypeOf(swap.StateType("")):
		return "state"
	case t == reflect.TypeOf(swap.SwapType(0)), t == reflect.TypeOf(swap.SwapRole(0)):
		return "enum"
	case t == errType:
		return "err"
	case t.Kind() == reflect.Interface:
		return "iface"
	case t.Kind() == reflect.Ptr && t.Elem().Kind() == reflect.Struct:
		return "ptr"
	case t.Kind() == reflect.Slice && t.Elem().Kind() == reflect.Uint8:
		return "bytes"
	case t.Kind() == reflect.String:
		return "str"
	case t.Kind() == reflect.Bool:
		return "bool"
	case t.Kind() == reflect.Uint8:
		return "u8"
	case t.Kind() == reflect.Uint32:
		return "u32"
	case t.Kind() == reflect.Uint64:
		return "u64"
	case t.Kind() == reflect.Int64, t.Kind() == reflect.Int:
		return "i64"
	}
	return "unmodelled:" + t.String()
}

func walk(t reflect.Type, par string, out *[]map[string]any, skipped *[]string) {
	for i := 0; i < t.NumField(); i++ {
		sf := t.Field(i)
		name := sf.Name
		if par != "" {
			name = par + "." + sf.Name
		}
		if !sf.IsExported() {
			*skipped = append(*skipped, name)
			continue
		}
		tag := sf.Tag.Get("json")
		parts := strings.Split(tag, ",")
		key, oe, ps := parts[0], false, true
		for _, p := range parts[1:] {
			if p == "omitempty" {
				oe = true
			} else if p != "" {
				key += "," + p // any other option is not modelled: shows as drift
			}
		}
		if tag == "-" {
			ps = false
			if sf.Type != errType { // process state (States), E3
				*skipped = append(*skipped, name)
				continue
			}
		} else if key == "" {
			key = sf.Name
		}
		k := kindOf(sf.Type, par == "")
		*out = append(*out, map[string]any{"name": name, "par": par, "key": key, "kind": k, "oe": oe, "ps": ps})
		if k == "ptr" {
			walk(sf.Type.Elem(), name, out, skipped)
		}
	}
}

func customCodecs() []string {
	var out []string
	m := reflect.TypeOf((*json.Marshaler)(nil)).Elem()
	u := reflect.TypeOf((*json.Unmarshaler)(nil)).Elem()
	seen := map[reflect.Type]bool{}
	var rec func(t reflect.Type)
	rec = func(t reflect.Type) {
		if seen[t] {
			return
		}
		seen[t] = true
		for _, tt := range []reflect.Type{t, reflect.PointerTo(t)} {
			if tt.Implements(m) {
				out = append(out, tt.String()+":MarshalJSON")
			}
			if tt.Implements(u) {
				out = append(out, tt.String()+":UnmarshalJSON")
			}
		}
		switch t.Kind() {
		case reflect.Ptr, reflect.Slice, reflect.Array:
			rec(t.Elem())
		case reflect.Struct:
			for i := 0; i < t.NumField(); i++ {
				if t.Field(i).IsExported() && t.Field(i).Tag.Get("json") != "-" {
					rec(t.Field(i).Type)
				}
			}
		}
	}
	rec(reflect.TypeOf(swap.SwapStateMachine{}))
	sort.Strings(out)
	return out
}

// ----------------------------------------------------------------------- main

func main() {
	fieldsP := flag.String("fields", "fields.json", "field table exported by RecordMC")
	recsP := flag.String("records", "records.ndjson", "records (classes per field)")
	docsP := flag.String("docs", "", "persisted-format documents of the first records (rawput)")
	tracesP := flag.String("traces", "traces.ndjson", "operation sequences")
	outP := flag.String("out", "trace.ndjson", "")
	work := flag.String("work", "", "directory for the database files")
	nw := flag.Int("workers", 4, "")
	schemaOut := flag.String("schema", "", "write the field table of the REAL structs (reflection) and the FSM tables, and exit")
	dump := flag.Int("dump", 0, "print the JSON the real encoder writes for record N and exit")
	flag.Parse()

	if *schemaOut != "" {
		var fs []map[string]any
		var skipped []string
		walk(reflect.TypeOf(swap.SwapStateMachine{}), "", &fs, &skipped)
		b, _ := json.Marshal(map[string]any{"fields": fs, "skipped": skipped, "tables": swap.VerifTables(), "codecs": customCodecs()})
		if err := os.WriteFile(*schemaOut, b, 0o644); err != nil {
			log.Fatal(err)
		}
		return
	}
	s := loadSchema(*fieldsP)
	recs := loadRecords(*recsP, s)
	if *dump > 0 {
		b, _ := json.Marshal(build(s, recs[*dump-1], mkIds(false).of("A")))
		os.Stdout.Write(b)
		return
	}
	var docs []map[string]any
	if *docsP != "" {
		raw, err := ndj.ReadAll(*docsP)
		if err != nil {
			log.Fatal(err)
		}
		for _, m := range raw {
			docs = append(docs, asMap(m["doc"]))
		}
	}
	traces, err := ndj.ReadAll(*tracesP)
	if err != nil {
		log.Fatal(err)
	}
	// every trace owns its lines; they are written in trace order
	bufs := make([][]map[string]any, len(traces)+1)
	var wg sync.WaitGroup
	next := make(chan int, len(traces))
	for i := range traces {
		next <- i
	}
	close(next)
	for k := 0; k < *nw; k++ {
		wg.Add(1)
		go func(k int) {
			defer wg.Done()
			w := &world{s: s, recs: recs, docs: docs, path: filepath.Join(*work, fmt.Sprintf("swaps-%d.db", k))}
			os.Remove(w.path)
			w.open()
			for i := range next {
				w.runTrace(i+1, traces[i], func(m map[string]any) { bufs[i] = append(bufs[i], m) })
			}
			if k == 0 {
				w.probes(len(traces)+1, func(m map[string]any) { bufs[len(traces)] = append(bufs[len(traces)], m) })
			}
			w.db.Close()
			os.Remove(w.path)
		}(k)
	}
	wg.Wait()
	out, err := ndj.NewWriter(*outP)
	if err != nil {
		log.Fatal(err)
	}
	for _, b := range bufs {
		for _, m := range b {
			out.Write(m)
		}
	}
	if err := out.Close(); err != nil {
		log.Fatal(err)
	}
}
