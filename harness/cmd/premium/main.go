// premium executes operation schedules on the REAL premium.Setting (on a real
// bbolt file, closed and reopened for a restart) and the REAL peersync.PeerSync
// capability path (C27).
//
// Input: schedules exported by TLC from spec/PremiumMC.tla, the pure-function
// grid exported by the same module, and VERIF_SEED-seeded random longer
// schedules.  After every operation the trace records GetRate for three peers
// x four (asset, direction) slots, GetDefaultRate for the four slots, the four
// rates in the capability message peersync sends to each peer (RequestPoll,
// and ForcePollAllPeers at the end of a schedule), and Compute for a set of
// amounts.  Amounts and premiums are written as little-endian base-1000 limbs
// so that spec/PremiumTrace.tla can check them symbolically.
package main

import (
	"context"
	"encoding/json"
	"flag"
	"fmt"
	"math/rand"
	"os"
	"path/filepath"
	"strconv"
	"sync"
	"sync/atomic"

	"github.com/elementsproject/peerswap/messages"
	"github.com/elementsproject/peerswap/peersync"
	"github.com/elementsproject/peerswap/policy"
	"github.com/elementsproject/peerswap/premium"
	"go.etcd.io/bbolt"
	"verif/harness/ndj"
	_ "verif/harness/quiet"
)

var peerIDs = map[string]string{
	"P1": "02a427b2f7284fe185216dc9a60689104ee6f785eb2d636d3786ab46e5cbd9f12d",
	"P2": "03bd1f5a8c2e4f6071829304a5b6c7d8e9f00112233445566778899aabbccddeef",
	"P3": "02000000000000000000000000000000000000000000000000000000000000000c",
}
var peerOrder = []string{"P1", "P2", "P3"}
var slotOrder = []string{"btc_in", "btc_out", "lbtc_in", "lbtc_out"}
var slotAsset = map[string]premium.AssetType{"btc_in": premium.BTC, "btc_out": premium.BTC, "lbtc_in": premium.LBTC, "lbtc_out": premium.LBTC}
var slotOp = map[string]premium.OperationType{"btc_in": premium.SwapIn, "btc_out": premium.SwapOut, "lbtc_in": premium.SwapIn, "lbtc_out": premium.SwapOut}

func fatalf(f string, a ...any) {
	fmt.Fprintf(os.Stderr, "premium harness: "+f+"\n", a...)
	os.Exit(2)
}

// fakeLN is the Lightning adapter of peersync: it records the last payload sent to each peer.
type fakeLN struct {
	mu   sync.Mutex
	sent map[string][]byte
}

func (f *fakeLN) SendCustomMessage(_ context.Context, to peersync.PeerID, _ messages.MessageType, payload []byte) error {
	f.mu.Lock()
	defer f.mu.Unlock()
	f.sent[to.String()] = append([]byte(nil), payload...)
	return nil
}
func (f *fakeLN) SubscribeCustomMessages(context.Context) (<-chan peersync.CustomMessage, error) {
	return make(chan peersync.CustomMessage), nil
}
func (f *fakeLN) Stop() error                                          { return nil }
func (f *fakeLN) ListPeers(context.Context) ([]peersync.PeerID, error) { return nil, nil }
func (f *fakeLN) take() map[string][]byte {
	f.mu.Lock()
	defer f.mu.Unlock()
	m := f.sent
	f.sent = map[string][]byte{}
	return m
}

// num reads a number that came from JSON (json.Number) or was built in Go
func num(v any) int64 {
	switch x := v.(type) {
	case json.Number:
		i, _ := x.Int64()
		return i
	case int64:
		return x
	case int:
		return int64(x)
	case float64:
		return int64(x)
	}
	fatalf("not a number: %v", v)
	return 0
}

func limbs(u uint64) []int {
	out := []int{}
	for u > 0 {
		out = append(out, int(u%1000))
		u /= 1000
	}
	return out
}

func fromLimbs(l []any) uint64 {
	var u uint64
	for i := len(l) - 1; i >= 0; i-- {
		n, _ := l[i].(json.Number).Int64()
		u = u*1000 + uint64(n)
	}
	return u
}

// node is the part of a peerswap node under test: premium setting on its database + peersync
type node struct {
	dbPath string
	db     *bbolt.DB
	ps     *premium.Setting
	sync   *peersync.PeerSync
	ln     *fakeLN
	store  *peersync.Store
}

func (n *node) open() error {
	// main() opens the database with default options; NoSync only skips fsync (durability against power
	// loss), close + reopen goes through the file either way
	db, err := bbolt.Open(n.dbPath, 0o700, &bbolt.Options{NoSync: true, NoFreelistSync: true})
	if err != nil {
		return err
	}
	ps, err := premium.NewSetting(db)
	if err != nil {
		return err
	}
	self, _ := peersync.NewPeerID("03" + peerIDs["P3"][2:])
	n.db, n.ps = db, ps
	n.sync = peersync.NewPeerSync(self, n.store, n.ln, policy.DefaultPolicy(), []string{"btc", "lbtc"}, ps)
	return nil
}

type compute struct {
	peer, slot string
	amt        uint64
}

func (n *node) observe(ev map[string]any, comps []compute, force bool) {
	ctx := context.Background()
	gr, gd, ad := []int64{}, []int64{}, []int64{}
	ge, am := 0, 0
	for _, p := range peerOrder {
		for _, s := range slotOrder {
			r, err := n.ps.GetRate(peerIDs[p], slotAsset[s], slotOp[s])
			if err != nil || r == nil || r.Asset() != slotAsset[s] || r.Operation() != slotOp[s] {
				ge++
				gr = append(gr, 0)
				continue
			}
			gr = append(gr, r.PremiumRatePPM().Value())
		}
	}
	for _, s := range slotOrder {
		r, err := n.ps.GetDefaultRate(slotAsset[s], slotOp[s])
		if err != nil || r == nil {
			ge++
			gd = append(gd, 0)
			continue
		}
		gd = append(gd, r.PremiumRatePPM().Value())
	}
	adv := func(msgs map[string][]byte) []int64 {
		out := []int64{}
		for _, p := range peerOrder {
			var dto peersync.PollMessageDTO
			b, ok := msgs[peerIDs[p]]
			if !ok || json.Unmarshal(b, &dto) != nil {
				am++
				out = append(out, 0, 0, 0, 0)
				continue
			}
			out = append(out, dto.BTCSwapInPremiumRatePPM, dto.BTCSwapOutPremiumRatePPM, dto.LBTCSwapInPremiumRatePPM, dto.LBTCSwapOutPremiumRatePPM)
		}
		return out
	}
	n.ln.take()
	for _, p := range peerOrder {
		pid, _ := peersync.NewPeerID(peerIDs[p])
		if err := n.sync.RequestPoll(ctx, pid); err != nil {
			am++
		}
	}
	ad = adv(n.ln.take())
	ev["gr"], ev["ge"], ev["gd"], ev["ad"] = gr, ge, gd, ad
	ev["hf"] = force
	if force {
		n.sync.ForcePollAllPeers(ctx)
		ev["fp"] = adv(n.ln.take())
	}
	ev["am"] = am
	cp := []any{}
	for _, c := range comps {
		got, err := n.ps.Compute(peerIDs[c.peer], slotAsset[c.slot], slotOp[c.slot], c.amt)
		if err != nil {
			ge++
			continue
		}
		neg := got < 0
		var mag uint64
		if neg {
			mag = uint64(-(got + 1)) + 1
		} else {
			mag = uint64(got)
		}
		cp = append(cp, map[string]any{"p": c.peer, "s": c.slot, "a": limbs(c.amt), "neg": neg, "mag": limbs(mag),
			"as": strconv.FormatUint(c.amt, 10), "gs": strconv.FormatInt(got, 10)})
	}
	ev["ge"] = ge
	ev["cp"] = cp
}

var smallAmounts = []uint64{100000000, 999999, 123456789, 1000001, 1, 50000000, 499499, 2100000000000}

func main() {
	in := flag.String("sched", "", "schedules exported by TLC (ndjson)")
	grid := flag.String("grid", "", "pure-function grid exported by TLC (ndjson: rates, amounts as limbs)")
	out := flag.String("out", "trace.ndjson", "")
	meta := flag.String("meta", "meta.ndjson", "")
	dir := flag.String("dir", "", "scratch directory")
	nrand := flag.Int("rand", 0, "number of random schedules")
	seed := flag.Int64("seed", 1, "")
	maxlen := flag.Int("maxlen", 24, "maximal length of a random schedule")
	workers := flag.Int("workers", 8, "")
	flag.Parse()
	if *dir == "" {
		fatalf("-dir required")
	}
	var scheds []map[string]any
	if *in != "" {
		s, err := ndj.ReadAll(*in)
		if err != nil {
			fatalf("%v", err)
		}
		for _, x := range s {
			x["src"] = "tlc"
		}
		scheds = s
	}
	var gridRates []int64
	var gridAmounts []uint64
	if *grid != "" {
		g, err := ndj.ReadAll(*grid)
		if err != nil || len(g) != 1 {
			fatalf("grid: %v", err)
		}
		for _, r := range g[0]["rates"].([]any) {
			v, _ := r.(json.Number).Int64()
			gridRates = append(gridRates, v)
		}
		for _, a := range g[0]["amounts"].([]any) {
			gridAmounts = append(gridAmounts, fromLimbs(a.([]any)))
		}
		// the grid as schedules: every rate is set once as a peer rate and once as the global rate, on
		// every slot in turn; every grid amount is computed after each of them
		for k, s := range slotOrder {
			ops := []any{}
			for j, r := range gridRates {
				ops = append(ops, map[string]any{"op": "set", "p": "P1", "s": s, "r": r})
				ops = append(ops, map[string]any{"op": "setdef", "p": "default", "s": slotOrder[(k+j)%4], "r": r})
			}
			scheds = append(scheds, map[string]any{"src": "grid", "mode": "grid", "ops": ops})
		}
	}
	if *nrand > 0 {
		rng := rand.New(rand.NewSource(*seed))
		rate := func() int64 {
			switch rng.Intn(4) {
			case 0:
				if len(gridRates) > 0 {
					return gridRates[rng.Intn(len(gridRates))]
				}
				return 0
			case 1:
				return int64(rng.Intn(20001)) - 10000
			}
			return int64(rng.Intn(2000001)) - 1000000
		}
		for i := 0; i < *nrand; i++ {
			n := 5 + rng.Intn(*maxlen-4)
			ops := make([]any, 0, n)
			for j := 0; j < n; j++ {
				p, s := peerOrder[rng.Intn(2)], slotOrder[rng.Intn(4)]
				switch x := rng.Intn(20); {
				case x < 8:
					ops = append(ops, map[string]any{"op": "set", "p": p, "s": s, "r": rate()})
				case x < 12:
					ops = append(ops, map[string]any{"op": "setdef", "p": "default", "s": s, "r": rate()})
				case x < 17:
					ops = append(ops, map[string]any{"op": "del", "p": p, "s": s, "r": 0})
				default:
					ops = append(ops, map[string]any{"op": "restart", "p": "default", "s": "btc_in", "r": 0})
				}
			}
			scheds = append(scheds, map[string]any{"src": "rand", "mode": "rand", "ops": ops, "rseed": rng.Int63()})
		}
	}
	w, err := ndj.NewWriter(*out)
	if err != nil {
		fatalf("%v", err)
	}
	mw, err := ndj.NewWriter(*meta)
	if err != nil {
		fatalf("%v", err)
	}
	results := make([][]map[string]any, len(scheds))
	var wg sync.WaitGroup
	next := int64(-1)
	for k := 0; k < *workers; k++ {
		wg.Add(1)
		go func(k int) {
			defer wg.Done()
			wdir := filepath.Join(*dir, fmt.Sprintf("w%d", k))
			if err := os.MkdirAll(wdir, 0o755); err != nil {
				fatalf("%v", err)
			}
			store, err := peersync.NewStore(filepath.Join(wdir, "peersync.db"))
			if err != nil {
				fatalf("%v", err)
			}
			defer store.Close()
			for _, p := range peerOrder {
				pid, _ := peersync.NewPeerID(peerIDs[p])
				if err := store.SavePeerState(peersync.NewPeer(pid, "127.0.0.1:9735")); err != nil {
					fatalf("%v", err)
				}
			}
			for {
				t := int(atomic.AddInt64(&next, 1))
				if t >= len(scheds) {
					return
				}
				results[t] = runSchedule(t, scheds[t], wdir, store, gridAmounts)
			}
		}(k)
	}
	wg.Wait()
	steps := 0
	for t, evs := range results {
		for _, e := range evs {
			w.Write(e)
		}
		steps += len(evs) - 1
		mw.Write(map[string]any{"t": t, "src": scheds[t]["src"], "mode": scheds[t]["mode"], "ops": scheds[t]["ops"]})
	}
	if err := w.Close(); err != nil {
		fatalf("%v", err)
	}
	if err := mw.Close(); err != nil {
		fatalf("%v", err)
	}
	fmt.Printf("schedules=%d steps=%d lines=%d\n", len(scheds), steps, w.N)
}

func runSchedule(t int, s map[string]any, wdir string, store *peersync.Store, gridAmounts []uint64) []map[string]any {
	src := ndj.Str(s, "src")
	n := &node{dbPath: filepath.Join(wdir, "swaps"), ln: &fakeLN{sent: map[string][]byte{}}, store: store}
	os.Remove(n.dbPath)
	if err := n.open(); err != nil {
		fatalf("open: %v", err)
	}
	defer func() { n.db.Close() }()
	var rng *rand.Rand
	if src == "rand" {
		rng = rand.New(rand.NewSource(num(s["rseed"])))
	}
	var evs []map[string]any
	ops, _ := s["ops"].([]any)
	ev := map[string]any{"t": t, "i": 0, "ev": "init"}
	n.observe(ev, []compute{{"P1", "btc_out", 100000000}, {"P3", "lbtc_out", 999999}}, len(ops) == 0)
	evs = append(evs, ev)
	for i, o := range ops {
		om := o.(map[string]any)
		op, p, sl, r := ndj.Str(om, "op"), ndj.Str(om, "p"), ndj.Str(om, "s"), num(om["r"])
		var oerr error
		ctx := context.Background()
		switch op {
		case "set", "setdef":
			rate, e := premium.NewPremiumRate(slotAsset[sl], slotOp[sl], premium.NewPPM(r))
			if e != nil {
				fatalf("NewPremiumRate: %v", e)
			}
			if op == "set" {
				oerr = n.ps.SetRate(ctx, peerIDs[p], rate)
			} else {
				oerr = n.ps.SetDefaultRate(ctx, rate)
			}
		case "del":
			oerr = n.ps.DeleteRate(ctx, peerIDs[p], slotAsset[sl], slotOp[sl])
		case "restart":
			if e := n.db.Close(); e != nil {
				fatalf("close: %v", e)
			}
			if e := n.open(); e != nil {
				oerr = e
				fatalf("reopen: %v", e)
			}
		default:
			fatalf("unknown op %q", op)
		}
		ev := map[string]any{"t": t, "i": i + 1, "ev": "op", "op": op, "p": p, "s": sl, "r": r, "res": "ok"}
		if oerr != nil {
			ev["res"] = "err"
		}
		var comps []compute
		switch src {
		case "grid":
			who := "P1"
			if op == "setdef" {
				who = "P3"
			}
			for _, a := range gridAmounts {
				comps = append(comps, compute{who, sl, a})
			}
		case "rand":
			for k := 0; k < 4; k++ {
				var a uint64
				switch rng.Intn(6) {
				case 0:
					a = gridAmounts[rng.Intn(len(gridAmounts))]
				case 1:
					a = uint64(rng.Int63n(2100000000000000 + 1))
				case 2:
					a = rng.Uint64() // any uint64, also >= 2^63
				case 3:
					a = uint64(1)<<63 - 1000 + uint64(rng.Intn(2000)) // around 2^63
				default:
					// log-uniform up to 2^52
					a = uint64(rng.Int63n(int64(1) << uint(1+rng.Intn(51))))
				}
				comps = append(comps, compute{peerOrder[rng.Intn(3)], slotOrder[rng.Intn(4)], a})
			}
			comps = append(comps, compute{peerOrder[rng.Intn(3)], sl, smallAmounts[rng.Intn(len(smallAmounts))]})
		default:
			for k, pp := range peerOrder {
				comps = append(comps, compute{pp, sl, smallAmounts[(t+i+k)%len(smallAmounts)]})
			}
		}
		n.observe(ev, comps, i == len(ops)-1)
		evs = append(evs, ev)
	}
	return evs
}
