// peersync executes operation schedules (exported by TLC from spec/PeerSyncMC.tla
// and VERIF_SEED-seeded random ones) on the real peersync.PeerSync / Store /
// poller and writes one NDJSON trace (C28, peer-sync clause of C26).
package main

import (
	"bufio"
	"encoding/json"
	"flag"
	"fmt"
	"log"
	"math/rand"
	"os"
	"sync"

	psh "verif/harness/peersync"
	_ "verif/harness/quiet"
)

var names = []string{"p1", "p2", "p3"}

func readSchedules(path string) []psh.Schedule {
	f, err := os.Open(path)
	if err != nil {
		log.Fatal(err)
	}
	defer f.Close()
	var out []psh.Schedule
	sc := bufio.NewScanner(f)
	sc.Buffer(make([]byte, 1<<20), 1<<26)
	for sc.Scan() {
		if len(sc.Bytes()) == 0 {
			continue
		}
		var s psh.Schedule
		if err := json.Unmarshal(sc.Bytes(), &s); err != nil {
			log.Fatalf("schedule: %v: %s", err, sc.Text())
		}
		out = append(out, s)
	}
	if err := sc.Err(); err != nil {
		log.Fatal(err)
	}
	return out
}

// ---- random schedules ----

var (
	versions = []int64{0, 1, 6, 6, 7, 7, 7, 8, 8, 9, 100, 2147483647}
	rates    = []int64{-1000000, -5000, -1, 0, 0, 1, 2000, 1000000}
	steps    = []int64{1, 1, 2, 3, 60, 119, 120, 121, 179, 180, 181, 359, 360, 361, 400}
	statuses = []string{"active", "inactive", "unknown", "expired"}
	ages     = []int64{-1, 0, 1, 2, 100, 180, 200, 360, 400}
	assetSet = [][]string{{}, {"BTC"}, {"LBTC"}, {"BTC", "LBTC"}}
)

func pick[T any](r *rand.Rand, xs []T) T { return xs[r.Intn(len(xs))] }

func randCap(r *rand.Rand) psh.Cap {
	if r.Intn(12) == 0 {
		return psh.ZeroCap()
	}
	c := psh.Cap{Ver: pick(r, versions), Assets: append([]string{}, pick(r, assetSet)...), Allowed: r.Intn(2) == 0,
		Rates: []int64{pick(r, rates), pick(r, rates), pick(r, rates), pick(r, rates)}}
	return c
}

func randPay(r *rand.Rand) psh.Pay {
	if r.Intn(8) == 0 {
		return psh.Pay{Valid: false, Bad: pick(r, []string{"asset", "rate", "json"}), Cap: psh.ZeroCap()}
	}
	return psh.Pay{Valid: true, Cap: randCap(r)}
}

// operation weights per profile: RxPoll RxReq PollAll Cleanup Restart Connect Disconnect Tick Suspect Inject ListFail
var profiles = map[string][11]int{
	"general": {22, 14, 16, 10, 5, 8, 6, 13, 2, 4, 2},
	"conn":    {3, 2, 30, 2, 6, 20, 17, 18, 2, 0, 3}, // connections, poll rounds, request interval
	"store":   {25, 8, 8, 16, 6, 7, 7, 16, 1, 6, 3},  // records through polls, time and cleanup
	"suspect": {25, 25, 12, 4, 8, 8, 4, 6, 8, 0, 0},  // quarantine
}

var opKinds = []string{"RxPoll", "RxReq", "PollAll", "Cleanup", "Restart", "Connect", "Disconnect", "Tick", "Suspect", "Inject", "ListFail"}

func randOp(r *rand.Rand, live bool, profile string, peers []string) psh.Op {
	w := profiles[profile]
	total := 0
	for _, x := range w {
		total += x
	}
	x := r.Intn(total)
	k := 0
	for x >= w[k] {
		x -= w[k]
		k++
	}
	op := psh.Op{K: opKinds[k]}
	switch op.K {
	case "RxPoll", "RxReq":
		op.P = pick(r, peers)
		pay := randPay(r)
		op.Pay = &pay
	case "PollAll":
		op.Flag = r.Intn(4) == 0
	case "ListFail":
		op.Flag = r.Intn(3) != 0
	case "Restart":
		op.Flag = live || r.Intn(2) == 0
	case "Connect", "Disconnect", "Suspect":
		op.P = pick(r, peers)
	case "Tick":
		op.D = pick(r, steps)
		if profile == "conn" {
			op.D = pick(r, []int64{1, 3, 60, 119, 120, 121})
		}
	case "Inject":
		op.P = pick(r, peers)
		op.Rec = &psh.Rec{Cap: randCap(r), Status: pick(r, statuses), ObsAge: pick(r, ages), PollAge: pick(r, ages), Addr: pick(r, []string{"", "a1", "127.0.0.1:9735"})}
	}
	return op
}

func randomSchedules(seed int64, n, length int, liveEvery int) []psh.Schedule {
	r := rand.New(rand.NewSource(seed))
	out := make([]psh.Schedule, 0, n)
	order := []string{"general", "conn", "store", "general", "suspect", "conn", "general", "store"}
	for i := 0; i < n; i++ {
		profile := order[i%len(order)]
		s := psh.Schedule{Src: fmt.Sprintf("random-%s-%d-%d", profile, seed, i)}
		if liveEvery > 0 && i%liveEvery == 0 {
			s.Mode = "live"
		}
		peers := names
		if profile != "general" && r.Intn(2) == 0 {
			peers = names[:1+r.Intn(2)] // fewer peers: denser histories per peer
		}
		l := length/2 + r.Intn(length/2+1)
		for j := 0; j < l; j++ {
			s.Ops = append(s.Ops, randOp(r, s.Mode == "live", profile, peers))
		}
		out = append(out, s)
	}
	return out
}

func main() {
	sched := flag.String("sched", "", "NDJSON file of schedules ({\"ops\":[...]}); may be empty")
	out := flag.String("out", "trace.ndjson", "trace file")
	tmp := flag.String("tmp", os.TempDir(), "scratch directory for the per-schedule bbolt and policy files")
	nrand := flag.Int("random", 0, "number of random schedules")
	rlen := flag.Int("len", 40, "maximum length of a random schedule")
	seed := flag.Int64("seed", 1, "seed of the random schedules")
	liveEvery := flag.Int("live-every", 3, "every n-th random schedule runs through Start() and the message channel (0: none)")
	liveAll := flag.Bool("live", false, "run the schedules of -sched in live mode")
	workers := flag.Int("workers", 8, "")
	dumpSched := flag.String("dump-sched", "", "write the executed schedules here")
	flag.Parse()

	var all []psh.Schedule
	if *sched != "" {
		all = readSchedules(*sched)
		for i := range all {
			if all[i].Src == "" {
				all[i].Src = fmt.Sprintf("tlc-%d", i)
			}
			if *liveAll {
				all[i].Mode = "live"
			}
		}
	}
	all = append(all, randomSchedules(*seed, *nrand, *rlen, *liveEvery)...)

	if *dumpSched != "" {
		f, err := os.Create(*dumpSched)
		if err != nil {
			log.Fatal(err)
		}
		w := bufio.NewWriter(f)
		for _, s := range all {
			b, _ := json.Marshal(s)
			w.Write(b)
			w.WriteByte('\n')
		}
		w.Flush()
		f.Close()
	}

	f, err := os.Create(*out)
	if err != nil {
		log.Fatal(err)
	}
	bw := bufio.NewWriterSize(f, 1<<20)
	var mu sync.Mutex
	nlines, nslow := 0, 0

	jobs := make(chan int)
	var wg sync.WaitGroup
	for k := 0; k < *workers; k++ {
		wg.Add(1)
		go func() {
			defer wg.Done()
			for t := range jobs {
				var lines []psh.Line
				slow := true
				for try := 0; try < 4 && slow; try++ {
					lines, slow = psh.Run(*tmp, t, all[t], names)
				}
				var buf []byte
				for _, ln := range lines {
					b, err := json.Marshal(ln)
					if err != nil {
						panic(err)
					}
					buf = append(buf, b...)
					buf = append(buf, '\n')
				}
				mu.Lock()
				if slow {
					nslow++
				}
				bw.Write(buf)
				nlines += len(lines)
				mu.Unlock()
			}
		}()
	}
	for t := range all {
		jobs <- t
	}
	close(jobs)
	wg.Wait()
	if err := bw.Flush(); err != nil {
		log.Fatal(err)
	}
	f.Close()
	fmt.Printf("{\"schedules\":%d,\"lines\":%d,\"slow\":%d}\n", len(all), nlines, nslow)
	if nslow > 0 {
		// the drift budget of the logical clock was exceeded four times in a row
		os.Exit(3)
	}
}
