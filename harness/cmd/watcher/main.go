// watcher replays schedules exported by TLC from spec/Watcher.tla, and
// VERIF_SEED-seeded random schedules, on the real chain watchers and writes the
// trace validated by spec/WatcherTrace.tla (property C20).
package main

import (
	"bufio"
	"encoding/json"
	"flag"
	"fmt"
	"math/rand"
	"os"
	"runtime"
	"sync"

	"verif/harness/ndj"
	_ "verif/harness/quiet"
	"verif/harness/watcher"
)

type fatalT struct{}

func (fatalT) Fatal(a ...any)            { fmt.Fprintln(os.Stderr, a...); os.Exit(2) }
func (fatalT) Fatalf(f string, a ...any) { fmt.Fprintf(os.Stderr, f+"\n", a...); os.Exit(2) }

var log fatalT // the stdlib logger is silenced by harness/quiet

func main() {
	in := flag.String("sched", "", "NDJSON of TLC schedules ({kind,confs,window,csv,s:[tokens]})")
	nrand := flag.Int("rand", 0, "number of random schedules")
	seed := flag.Int64("seed", 1, "seed of the random schedules")
	out := flag.String("out", "trace.ndjson", "")
	dump := flag.String("dump", "", "write the executed schedules (driver steps) here")
	t0 := flag.Int("t0", 0, "first trace number")
	steps := flag.String("steps", "", "NDJSON of schedules in driver-step form (as written by -dump; replays)")
	flag.Parse()

	var scheds []watcher.Schedule
	t := *t0
	if *in != "" {
		f, err := os.Open(*in)
		if err != nil {
			log.Fatal(err)
		}
		sc := bufio.NewScanner(f)
		sc.Buffer(make([]byte, 1<<20), 1<<26)
		for sc.Scan() {
			if len(sc.Bytes()) == 0 {
				continue
			}
			var ts watcher.TLCSchedule
			if err := json.Unmarshal(sc.Bytes(), &ts); err != nil {
				log.Fatalf("bad schedule line: %v", err)
			}
			t++
			scheds = append(scheds, watcher.FromTokens(t, ts))
		}
		f.Close()
	}
	if *steps != "" {
		f, err := os.Open(*steps)
		if err != nil {
			log.Fatal(err)
		}
		sc := bufio.NewScanner(f)
		sc.Buffer(make([]byte, 1<<20), 1<<26)
		for sc.Scan() {
			if len(sc.Bytes()) == 0 {
				continue
			}
			var one watcher.Schedule
			if err := json.Unmarshal(sc.Bytes(), &one); err != nil {
				log.Fatalf("bad steps line: %v", err)
			}
			t++
			one.T = t
			scheds = append(scheds, one)
		}
		f.Close()
	}
	r := rand.New(rand.NewSource(*seed))
	for i := 0; i < *nrand; i++ {
		t++
		kind := "rpc"
		if i%2 == 1 {
			kind = "electrum"
		}
		scheds = append(scheds, watcher.Random(t, r, kind))
	}

	res := make([][]map[string]any, len(scheds))
	errs := make([]error, len(scheds))
	var wg sync.WaitGroup
	sem := make(chan struct{}, runtime.NumCPU())
	for i := range scheds {
		wg.Add(1)
		sem <- struct{}{}
		go func(i int) {
			defer wg.Done()
			defer func() { <-sem }()
			res[i], errs[i] = watcher.Run(scheds[i])
		}(i)
	}
	wg.Wait()
	w, err := ndj.NewWriter(*out)
	if err != nil {
		log.Fatal(err)
	}
	for i := range scheds {
		if errs[i] != nil {
			log.Fatalf("HARNESS-ERROR %v", errs[i])
		}
		for _, ln := range res[i] {
			w.Write(ln)
		}
	}
	if err := w.Close(); err != nil {
		log.Fatal(err)
	}
	if *dump != "" {
		dw, err := ndj.NewWriter(*dump)
		if err != nil {
			log.Fatal(err)
		}
		for i := range scheds {
			dw.Write(scheds[i])
		}
		dw.Close()
	}
}
