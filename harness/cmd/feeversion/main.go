// feeversion evaluates the TLC-exported cases of spec/FeeVersion.tla on the
// real functions and records the answers as a trace (C30).
package main

import (
	"errors"
	"flag"
	"log"

	"github.com/btcsuite/btcd/btcutil"
	"github.com/btcsuite/btcd/chaincfg"
	"github.com/elementsproject/peerswap/onchain"
	"github.com/elementsproject/peerswap/version"
	"verif/harness/ndj"
	_ "verif/harness/quiet"
)

type est struct {
	rate btcutil.Amount
	err  bool
}

func (e *est) EstimateFeePerKW(uint32) (btcutil.Amount, error) {
	if e.err {
		return 0, errors.New("estimator down")
	}
	return e.rate, nil
}
func (e *est) Start() error { return nil }

func main() {
	in := flag.String("cases", "cases.ndjson", "")
	out := flag.String("out", "trace.ndjson", "")
	flag.Parse()
	cases, err := ndj.ReadAll(*in)
	if err != nil {
		log.Fatal(err)
	}
	w, err := ndj.NewWriter(*out)
	if err != nil {
		log.Fatal(err)
	}
	for _, c := range cases {
		switch ndj.Str(c, "kind") {
		case "fee":
			e := &est{rate: btcutil.Amount(ndj.Int(c, "est")), err: ndj.Bool(c, "err")}
			b := onchain.NewBitcoinOnChain(e, btcutil.Amount(ndj.Int(c, "fallback")), btcutil.Amount(ndj.Int(c, "floor")), &chaincfg.RegressionNetParams)
			fee, ferr := b.GetFee(ndj.Int(c, "size"))
			if ferr != nil {
				c["got"] = -1
			} else {
				c["got"] = int64(fee)
			}
		case "floor":
			fl, _ := onchain.DetermineFeeFloor(ndj.Str(c, "s"))
			c["got"] = int64(fl)
		case "cmp":
			ge, cerr := version.CompareVersionStrings(ndj.Str(c, "a"), ndj.Str(c, "b"))
			c["got"] = ge
			c["goterr"] = cerr != nil
		}
		w.Write(c)
	}
	if err := w.Close(); err != nil {
		log.Fatal(err)
	}
}
