// route evaluates the cases exported from spec/TimelockMC.tla (and the seeded
// random cases added by engines/route.py) on the REAL peerswap code and records
// the answers as one NDJSON trace (C24, route/arithmetic clauses of C04, C05).
//
//	kind=route   via=builder: clightning.buildDirectClaimRoute / lnd.buildDirectClaimPaymentRequest
//	             via=client : ClightningClient / lnd.Client PayInvoiceViaChannel (fee) or RebalancePayment (claim)
//	                          over a fake lightningd socket / fake lnrpc clients; what is judged is the
//	                          sendpay request / SendPaymentRequest that reaches the node
//	kind=limit   swap.ValidateTotalCLTVDelta
//	kind=policy  SwapData.getTimelockPolicy
//	kind=window  checkPaymentWindow
//	kind=invoice validateClaimInvoice
//	kind=await   AwaitTxConfirmationAction.Execute with the real client as services.lightning
//	kind=pay     ValidateTxAndPayClaimInvoiceAction.Execute (one attempt) with the real client
//	kind=retry   the same Action while the chain tip moves between attempts: the node fails the first
//	             `fails` attempts, the tip at attempt i is heights[i]; recorded: the tip at which every
//	             payment attempt reached the node
//
// Bounds: the Action's retry loop has a 300 ms wall budget; the node stops failing after 15 attempts
// (`exhausted`); a case that does not return within 5 s is recorded as `hang` and the harness exits 4.
package main

import (
	"context"
	"encoding/json"
	"errors"
	"flag"
	"fmt"
	"log"
	"os"
	"strings"
	"sync"
	"time"

	"github.com/elementsproject/peerswap/clightning"
	"github.com/elementsproject/peerswap/lnd"
	"github.com/elementsproject/peerswap/onchain"
	"github.com/elementsproject/peerswap/swap"
	"verif/harness/ndj"
	_ "verif/harness/quiet"
	"verif/harness/route"
)

const liquidAsset = "6f0279e9ed041c3d710a9f57d0c02928416460c4b722ae3457a11eec381c526d"

// chain: the tip moves with the payment attempts the node has seen, not with
// the calls of the code under test.
type chain struct {
	mu        sync.Mutex
	heights   []uint32
	fails     int
	attempts  int
	tips      []int64
	exhausted bool
}

const maxAttempts = 15

func (c *chain) tip() uint32 {
	i := c.attempts
	if i >= len(c.heights) {
		i = len(c.heights) - 1
	}
	return c.heights[i]
}

// onPay: a payment attempt reaches the node at the current tip.
func (c *chain) onPay() bool {
	c.mu.Lock()
	defer c.mu.Unlock()
	if len(c.heights) == 0 {
		return false
	}
	c.tips = append(c.tips, route.SpecOr(int64(c.tip())))
	c.attempts++
	if c.attempts >= maxAttempts {
		c.exhausted = true
		return false
	}
	return c.attempts <= c.fails
}

type world struct {
	ch   *chain
	inv  *route.Invoices
	fcln *route.FakeCln
	cln  *clightning.ClightningClient
	flnd *route.FakeLnd
	lndc *lnd.Client
	n    int
}

func (w *world) reset() {
	w.ch = &chain{}
	w.inv.Clear()
	w.fcln.Reset()
	w.flnd.Reset()
	w.n++
}

func (w *world) seen(backend string) int {
	if backend == "CLN" {
		return w.fcln.Seen()
	}
	return w.flnd.Seen()
}

func (w *world) client(backend string) swap.LightningClient {
	if backend == "CLN" {
		return w.cln
	}
	return w.lndc
}

func (w *world) wire(backend, payreq string) route.Wire {
	if backend == "CLN" {
		return w.fcln.WireOf(payreq)
	}
	return w.flnd.WireOf(payreq)
}

func chanByName(name string) route.Channel {
	for _, c := range route.Channels {
		if c.Name == name {
			return c
		}
	}
	panic("unknown channel " + name)
}

func errStr(err error) string {
	if err == nil {
		return ""
	}
	return err.Error()
}

// ---------------------------------------------------------------- swap data

func mkSwap(chain string, ver int64, typ string, amountSat uint64, premium int64, payreq, scid string) *swap.SwapData {
	asset, network := "", ""
	switch chain {
	case "btc":
		network = "mainnet"
	case "lbtc":
		asset = liquidAsset
	}
	id := swap.NewSwapId()
	pk := "02" + "33333333333333333333333333333333333333333333333333333333333333ab"
	d := &swap.SwapData{PeerNodeId: route.PeerID, InitiatorNodeId: route.SelfID}
	if typ == "in" {
		d.Role = swap.SWAPROLE_RECEIVER
		d.SwapInRequest = &swap.SwapInRequestMessage{ProtocolVersion: uint8(ver), SwapId: id, Asset: asset, Network: network,
			Scid: scid, Amount: amountSat, Pubkey: pk}
		d.SwapInAgreement = &swap.SwapInAgreementMessage{ProtocolVersion: uint8(ver), SwapId: id, Pubkey: pk, Premium: premium}
	} else {
		d.Role = swap.SWAPROLE_SENDER
		d.SwapOutRequest = &swap.SwapOutRequestMessage{ProtocolVersion: uint8(ver), SwapId: id, Asset: asset, Network: network,
			Scid: scid, Amount: amountSat, Pubkey: pk}
		d.SwapOutAgreement = &swap.SwapOutAgreementMessage{ProtocolVersion: uint8(ver), SwapId: id, Pubkey: pk, Premium: premium}
	}
	d.OpeningTxBroadcasted = &swap.OpeningTxBroadcastedMessage{SwapId: id, Payreq: payreq,
		TxId: "4444444444444444444444444444444444444444444444444444444444444444", ScriptOut: 0}
	return d
}

func setAnchor(d *swap.SwapData, c map[string]any) {
	d.StartingBlockHeight = uint32(route.Real(ndj.Int(c, "start")))
	d.StartingBlockHeightSet = ndj.Bool(c, "startSet")
}

// ------------------------------------------------------- on-chain services

type watcher struct {
	swap.TxWatcher
	ch    *chain
	calls int
	added [][2]uint32
}

// GetBlockHeight: the current tip; one call per height of the case, then the
// chain service fails (which ends the retry loop of the unchanged Action).
func (w *watcher) GetBlockHeight() (uint32, error) {
	w.ch.mu.Lock()
	defer w.ch.mu.Unlock()
	w.calls++
	if w.calls > len(w.ch.heights) {
		return 0, errors.New("verif: no further attempt")
	}
	return w.ch.tip(), nil
}

func (w *watcher) AddWaitForConfirmationTx(swapID, txID string, vout, startingHeight, paymentWindow uint32, scriptpubkey []byte) {
	w.added = append(w.added, [2]uint32{startingHeight, paymentWindow})
}

type wallet struct{ swap.Wallet }

func (wallet) GetOutputScript(*swap.OpeningParams) ([]byte, error) { return []byte{0x00, 0x20}, nil }

// the real chain objects supply GetCSVHeight; the opening transaction itself
// is not the subject here
type btcValidator struct{ *onchain.BitcoinOnChain }

func (btcValidator) ValidateTx(*swap.OpeningParams, string) (bool, error) { return true, nil }

type liqValidator struct{ *onchain.LiquidOnChain }

func (liqValidator) ValidateTx(*swap.OpeningParams, string) (bool, error) { return true, nil }

func services(lc swap.LightningClient, w *watcher) *swap.SwapServices {
	return swap.NewSwapServices(nil, nil, lc, nil, nil, nil,
		true, wallet{}, btcValidator{&onchain.BitcoinOnChain{}}, w,
		true, wallet{}, liqValidator{&onchain.LiquidOnChain{}}, w, nil)
}

// ------------------------------------------------------------------- cases

func (w *world) runRoute(c map[string]any) {
	backend, via := ndj.Str(c, "backend"), ndj.Str(c, "via")
	ch := chanByName(ndj.Str(c, "chan"))
	iv := route.MakeInvoice(w.n, route.NodeID(ndj.Str(c, "payee")), route.AmountOf(ndj.Str(c, "amt")), route.Real(ndj.Int(c, "cltv")), false)
	w.inv.Put(iv)
	limit := uint32(route.Real(ndj.Int(c, "limit")))
	scid := ndj.Str(c, "scid")
	var g route.Wire
	var err error
	switch {
	case via == "builder" && backend == "CLN":
		r, e := clightning.VerifBuildDirectClaimRoute(route.DecodedBolt11(iv), scid, limit)
		err = e
		g = route.NoWire()
		if e == nil {
			g = route.ClnBuilderWire(r, iv)
		}
	case via == "builder" && backend == "LND":
		req, e := lnd.VerifBuildDirectClaimPaymentRequest(iv.Payreq, route.LndPayReq(iv), route.LndChannel(ch), limit)
		err = e
		g = route.NoWire()
		if e == nil {
			g.Calls = 1
			g = route.LndWire(g, req, w.inv, iv.Payreq)
		}
	default:
		lc := w.client(backend)
		var pre string
		if ndj.Str(c, "pay") == "fee" {
			pre, err = lc.PayInvoiceViaChannel(iv.Payreq, scid)
		} else {
			pre, err = lc.RebalancePayment(iv.Payreq, scid, limit)
		}
		g = w.wire(backend, iv.Payreq)
		c["ret_ok"] = err == nil && pre == iv.Preimage
	}
	c["g"] = g
	c["err"] = errStr(err)
}

func amountFor(rel string, claimSat uint64) uint64 {
	switch rel {
	case "plus1":
		return claimSat*1000 + 1
	case "minus1":
		return claimSat*1000 - 1
	case "unit":
		return claimSat
	}
	return claimSat * 1000
}

const swapAmountSat = 100_000 // claim amount of the Action-level cases = class "typ"

func (w *world) runAwait(c map[string]any) {
	backend := ndj.Str(c, "backend")
	iv := route.MakeInvoice(w.n, route.PeerID, amountFor(ndj.Str(c, "amtrel"), swapAmountSat), route.Real(ndj.Int(c, "cltv")), ndj.Bool(c, "found"))
	w.inv.Put(iv)
	d := mkSwap(ndj.Str(c, "chain"), ndj.Int(c, "ver"), "out", swapAmountSat, 0, iv.Payreq, chanByName("swap").ClnStyle())
	setAnchor(d, c)
	if ndj.Bool(c, "hasTx") {
		d.OpeningTxHex = "0200"
	}
	w.ch.heights = []uint32{uint32(route.Real(ndj.Int(c, "height")))}
	wt := &watcher{ch: w.ch}
	ev := (&swap.AwaitTxConfirmationAction{}).Execute(services(w.client(backend), wt), d)
	out := "failed"
	switch {
	case ev == swap.NoOp && len(wt.added) == 1:
		out = "watch"
	case ev == swap.Event_OnTxConfirmed && len(wt.added) == 0 && d.ClaimPreimage == iv.Preimage:
		out = "recovered"
	case ev != swap.Event_ActionFailed || len(wt.added) != 0:
		out = "?" + string(ev)
	}
	c["out"] = out
	ws, ww := int64(-1), int64(-1)
	if len(wt.added) > 0 {
		ws, ww = route.SpecOr(int64(wt.added[0][0])), int64(wt.added[0][1])
	}
	c["w_start"], c["w_window"] = ws, ww
	c["g"] = w.wire(backend, iv.Payreq)
	c["err"] = d.LastErrString
}

func seqOf(v any) []int64 {
	var out []int64
	if l, ok := v.([]any); ok {
		for _, x := range l {
			out = append(out, ndj.Int(map[string]any{"v": x}, "v"))
		}
	}
	return out
}

// runPay: kind=pay (one height, the node never fails) and kind=retry.
func (w *world) runPay(c map[string]any) {
	backend := ndj.Str(c, "backend")
	retry := ndj.Str(c, "kind") == "retry"
	for try := 0; ; try++ {
		iv := route.MakeInvoice(w.n, route.PeerID, swapAmountSat*1000, route.Real(ndj.Int(c, "cltv")), ndj.Bool(c, "found"))
		w.inv.Put(iv)
		d := mkSwap(ndj.Str(c, "chain"), ndj.Int(c, "ver"), "out", swapAmountSat, 0, iv.Payreq, chanByName("swap").ClnStyle())
		setAnchor(d, c)
		d.OpeningTxHex = "0200"
		if retry {
			for _, h := range seqOf(c["heights"]) {
				w.ch.heights = append(w.ch.heights, uint32(route.Real(h)))
			}
			w.ch.fails = int(ndj.Int(c, "fails"))
		} else {
			w.ch.heights = []uint32{uint32(route.Real(ndj.Int(c, "now")))}
		}
		wt := &watcher{ch: w.ch}
		ev := (&swap.ValidateTxAndPayClaimInvoiceAction{}).Execute(services(w.client(backend), wt), d)
		// the loop's wall budget ran out before its first tick was served (scheduler): not an answer, ask again
		if ev == swap.Event_ActionFailed && w.seen(backend) == 0 && strings.Contains(d.LastErrString, "timeout") && try < 5 {
			w.reset()
			continue
		}
		c["ev"] = string(ev)
		c["attempts"] = wt.calls
		c["pre_ok"] = d.ClaimPreimage == iv.Preimage
		c["g"] = w.wire(backend, iv.Payreq)
		c["err"] = d.LastErrString
		if retry {
			tips := w.ch.tips
			if tips == nil {
				tips = []int64{}
			}
			c["tips"] = tips
			c["exhausted"] = w.ch.exhausted
		}
		return
	}
}

func (w *world) runPure(c map[string]any) {
	switch ndj.Str(c, "kind") {
	case "limit":
		err := swap.ValidateTotalCLTVDelta(uint32(route.Real(ndj.Int(c, "required"))), uint32(route.Real(ndj.Int(c, "limit"))))
		c["allowed"] = err == nil
	case "policy":
		d := mkSwap(ndj.Str(c, "chain"), ndj.Int(c, "ver"), "out", swapAmountSat, 0, "x", "1x1x1")
		p, err := swap.VerifTimelockPolicy(d)
		c["got"] = map[string]any{"ok": err == nil, "csv": int64(p.CSV), "window": int64(p.PaymentWindow),
			"invCltv": route.SpecOr(int64(p.InvoiceFinalCLTV)), "maxDelta": int64(p.MaxTotalCLTVDelta), "allowNew": p.AllowNewClaimPayment}
	case "window":
		d := mkSwap(ndj.Str(c, "chain"), ndj.Int(c, "ver"), "out", swapAmountSat, 0, "x", "1x1x1")
		setAnchor(d, c)
		err := swap.VerifCheckPaymentWindow(d, uint32(route.Real(ndj.Int(c, "tip"))))
		c["allowed"] = err == nil
		c["err"] = errStr(err)
	case "invoice":
		prem := ndj.Int(c, "premium")
		d := mkSwap(ndj.Str(c, "chain"), ndj.Int(c, "ver"), ndj.Str(c, "type"), swapAmountSat, prem, "x", "1x1x1")
		claim := d.GetClaimAmount()
		want := uint64(swapAmountSat)
		if ndj.Str(c, "type") == "out" {
			want = uint64(int64(swapAmountSat) + prem)
		}
		c["claim_ok"] = claim == want
		err := swap.VerifValidateClaimInvoice(d, amountFor(ndj.Str(c, "amtrel"), want), route.Real(ndj.Int(c, "cltv")))
		c["allowed"] = err == nil
		c["err"] = errStr(err)
	}
}

func main() {
	in := flag.String("cases", "cases.ndjson", "")
	out := flag.String("out", "trace.ndjson", "")
	dir := flag.String("dir", "", "scratch directory for the fake lightningd socket")
	watchdog := flag.Duration("watchdog", 5*time.Second, "per-case limit; a case beyond it is recorded as hang, exit 4")
	flag.Parse()
	cases, err := ndj.ReadAll(*in)
	if err != nil {
		log.Fatal(err)
	}
	if *dir == "" {
		*dir, err = os.MkdirTemp("", "route")
		if err != nil {
			log.Fatal(err)
		}
		defer os.RemoveAll(*dir)
	}
	// small wall budget for the claim-payment retry loop: a loop that neither pays nor gives up ends after 300 ms
	swap.VerifSetTiming(true, 300*time.Millisecond, 100*time.Microsecond, 0)

	w := &world{inv: route.NewInvoices()}
	if w.fcln, err = route.StartFakeCln(*dir, w.inv); err != nil {
		log.Fatal(err)
	}
	defer w.fcln.Close()
	if w.cln, err = clightning.VerifNewClient(w.fcln.File, w.fcln.Dir, 20); err != nil {
		log.Fatal(err)
	}
	var fr *route.FakeRouter
	w.flnd, fr = route.NewFakeLnd(w.inv)
	onPay := func() bool { return w.ch.onPay() }
	w.fcln.OnPay, w.flnd.OnPay = onPay, onPay
	w.lndc = lnd.VerifNewClient(context.Background(), w.flnd, fr, route.SelfID)

	tw, err := ndj.NewWriter(*out)
	if err != nil {
		log.Fatal(err)
	}
	for i, c := range cases {
		w.reset()
		done := make(chan struct{})
		go func() {
			defer close(done)
			defer func() {
				if r := recover(); r != nil {
					fmt.Fprintf(os.Stderr, "route: panic in case %d %v: %v\n", i, c, r)
					os.Exit(3)
				}
			}()
			switch ndj.Str(c, "kind") {
			case "route":
				w.runRoute(c)
			case "await":
				w.runAwait(c)
			case "pay", "retry":
				w.runPay(c)
			default:
				w.runPure(c)
			}
		}()
		select {
		case <-done:
		case <-time.After(*watchdog):
			// the code under test neither answered nor gave up: machinery error, never a verdict
			b, _ := json.Marshal(c)
			fmt.Fprintf(os.Stderr, "route: hang in case %d: %s\n", i, b)
			tw.Write(map[string]any{"kind": "hang", "case": string(b)})
			_ = tw.Close()
			os.Exit(4)
		}
		tw.Write(c)
	}
	if err := tw.Close(); err != nil {
		log.Fatal(err)
	}
}
