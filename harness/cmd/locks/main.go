// locks executes TLC-exported schedules (deterministic, gate-controlled) and
// seeded stress cases on the real peerswap swap service with the real chain
// watchers, and records NDJSON traces (properties C18, C19).
//
// Exit codes: 0 all cases run; 3 a case ended in a deadlock (the process is
// poisoned by goroutines blocked forever; the caller restarts with -from);
// anything else is a harness error.
package main

import (
	"encoding/json"
	"flag"
	"fmt"
	"os"
	"time"

	"verif/harness/locks"
	"verif/harness/ndj"
	_ "verif/harness/quiet"
)

func fatal(a ...any) {
	fmt.Fprintln(os.Stderr, a...)
	os.Exit(1)
}

func main() {
	sched := flag.String("sched", "", "NDJSON file of deterministic schedules")
	stress := flag.String("stress", "", "NDJSON file of stress cases (or 'gen')")
	out := flag.String("out", "trace.ndjson", "trace file (truncated)")
	from := flag.Int("from", 0, "index of the first case to run")
	work := flag.String("work", os.TempDir(), "scratch directory for the worlds")
	graceMs := flag.Int("grace", 1000, "ms a blocked set must stay unchanged to be reported as deadlock")
	watchdogMs := flag.Int("watchdog", 10000, "stress: ms after which unreturned entry points are examined")
	budget := flag.Int("budget", 0, "stop after this many seconds (0: none)")
	seed := flag.Int64("seed", 1, "")
	rounds := flag.Int("rounds", 1, "")
	gen := flag.String("gen", "", "write generated stress cases to this file and exit")
	flag.Parse()
	t0 := time.Now()

	if *gen != "" {
		w, err := ndj.NewWriter(*gen)
		if err != nil {
			fatal(err)
		}
		for _, c := range locks.GenStress(*seed, *rounds, locks.StressEntries) {
			w.Write(c)
		}
		w.Close()
		return
	}
	w, err := ndj.NewWriter(*out)
	if err != nil {
		fatal(err)
	}
	finish := func(next int, code int) {
		w.Close()
		fmt.Printf("NEXT %d\n", next)
		os.Exit(code)
	}
	path := *sched
	if path == "" {
		path = *stress
	}
	raw, err := ndj.ReadAll(path)
	if err != nil {
		fatal(err)
	}
	for i := *from; i < len(raw); i++ {
		if *budget > 0 && time.Since(t0) > time.Duration(*budget)*time.Second {
			finish(i, 0)
		}
		b, _ := json.Marshal(raw[i])
		var dead bool
		if *sched != "" {
			var sc locks.Schedule
			if err := json.Unmarshal(b, &sc); err != nil {
				fatal(err)
			}
			dead, err = locks.RunSchedule(i+1, &sc, w, *work, time.Duration(*graceMs)*time.Millisecond)
		} else {
			var sc locks.StressCase
			if err := json.Unmarshal(b, &sc); err != nil {
				fatal(err)
			}
			dead, err = locks.RunStress(i+1, &sc, w, *work, time.Duration(*watchdogMs)*time.Millisecond, time.Duration(*graceMs)*time.Millisecond)
		}
		if err != nil {
			w.Close()
			fatal(fmt.Sprintf("case %d: %v", i, err))
		}
		if dead {
			finish(i+1, 3)
		}
	}
	finish(len(raw), 0)
}
