// policy executes operation schedules on the REAL policy.Policy (C25).
//
// Input: schedules exported by TLC from spec/PolicyMC.tla (one JSON object per
// line: pre-existing file as abstract lines, operation sequence) plus
// VERIF_SEED-seeded random longer schedules over the same pre-existing files.
// For every schedule the abstract file is rendered to text in a fresh temp
// file, policy.CreateFromFile loads it, and every operation is executed on that
// object. After every operation the trace records the operation, its argument,
// its result, whether the file bytes changed, the policy in memory (Get(),
// IsPeerAllowed, IsPeerSuspicious, NewSwapsAllowed) and the policy a fresh
// CreateFromFile of the same file yields. spec/PolicyTrace.tla judges the trace.
package main

import (
	"bytes"
	"errors"
	"flag"
	"fmt"
	"math/rand"
	"os"
	"path/filepath"
	"runtime"
	"strconv"
	"strings"
	"sync"
	"sync/atomic"

	"github.com/elementsproject/peerswap/policy"
	"verif/harness/ndj"
	_ "verif/harness/quiet"
)

const (
	pkA = "02a427b2f7284fe185216dc9a60689104ee6f785eb2d636d3786ab46e5cbd9f12d"
	pkB = "03bd1f5a8c2e4f6071829304a5b6c7d8e9f00112233445566778899aabbccddeef"
	pkC = "02000000000000000000000000000000000000000000000000000000000000000c"
)

// abstract argument name -> concrete string handed to the real code
var concrete = map[string]string{
	"A": pkA, "B": pkB, "C": pkC,
	"i_short":   pkA[:65],
	"i_long":    pkA + "0",
	"i_upper":   strings.ToUpper(pkA),
	"i_nonhex":  pkA[:65] + "g",
	"i_empty":   "",
	"i_nl":      pkB + "\n",
	"i_space":   " " + pkA[1:],
	"i_0x":      "0x" + pkA[:64],
	"i_short64": pkB[:64],
}
var invalidNames = []string{"i_short", "i_long", "i_upper", "i_nonhex", "i_empty", "i_nl", "i_space", "i_0x", "i_short64"}
var probes = []string{"A", "B", "C"}

func nameOf(s string) string {
	switch s {
	case pkA:
		return "A"
	case pkB:
		return "B"
	case pkC:
		return "C"
	}
	return "?"
}

var keyText = map[string]string{"allow": "allowlisted_peers", "susp": "suspicious_peers", "swaps": "allow_new_swaps",
	"acc": "accept_all_peers", "minswap": "min_swap_amount_msat"}

func renderLine(l map[string]any) string {
	k, v, form := ndj.Str(l, "k"), ndj.Str(l, "v"), ndj.Str(l, "form")
	switch k {
	case "comment":
		if v == "" {
			return "# peerswap policy, edited by hand"
		}
		return "# " + keyText["allow"] + "=" + concrete[v]
	case "unknown":
		return "some_future_option=1"
	case "blank":
		return ""
	case "section":
		return "[" + v + "]"
	}
	val := v
	if c, ok := concrete[v]; ok && (k == "allow" || k == "susp") {
		val = c
	}
	switch form {
	case "spaced":
		return keyText[k] + " = " + val
	case "quoted":
		return keyText[k] + "=\"" + val + "\""
	}
	return keyText[k] + "=" + val
}

func renderFile(lines []any, nl bool) string {
	if len(lines) == 0 {
		return ""
	}
	var sb strings.Builder
	for i, l := range lines {
		if i > 0 {
			sb.WriteByte('\n')
		}
		sb.WriteString(renderLine(l.(map[string]any)))
	}
	if nl {
		sb.WriteByte('\n')
	}
	return sb.String()
}

var bit = map[string]int{"A": 1, "B": 2, "C": 4, "?": 8}

// mask is a list as a set of abstract names, as a bit mask
func mask(l []string) int {
	m := 0
	for _, s := range l {
		m |= bit[nameOf(s)]
	}
	return m
}

// project writes the policy into the flat trace record under the prefix m (memory) or d (fresh load)
func project(ev map[string]any, pre string, p policy.Policy) {
	ev[pre+"a"] = mask(p.PeerAllowlist)
	ev[pre+"s"] = mask(p.SuspiciousPeerList)
	ev[pre+"w"] = p.AllowNewSwaps
	ev[pre+"c"] = p.AcceptAllPeers
	ev[pre+"r"] = strconv.FormatUint(p.MinSwapAmountMsat, 10) + "/" + strconv.FormatUint(p.ReserveOnchainMsat, 10)
}

func observe(ev map[string]any, p *policy.Policy, path string) {
	project(ev, "m", p.Get())
	qa, qs := 0, 0
	for _, n := range probes {
		if p.IsPeerAllowed(concrete[n]) {
			qa |= bit[n]
		}
		if p.IsPeerSuspicious(concrete[n]) {
			qs |= bit[n]
		}
	}
	ev["qa"], ev["qs"], ev["qw"] = qa, qs, p.NewSwapsAllowed()
	fresh, err := policy.CreateFromFile(path)
	if err != nil {
		ev["dk"] = false
		project(ev, "d", *policy.DefaultPolicy())
	} else {
		ev["dk"] = true
		project(ev, "d", fresh.Get())
	}
}

func errClass(err error) string {
	if err == nil {
		return ""
	}
	var ep policy.ErrNotAValidPublicKey
	var ec policy.ErrCreatePolicy
	var er policy.ErrReloadPolicy
	switch {
	case errors.As(err, &ep):
		return "invalid-pubkey"
	case errors.As(err, &ec), errors.As(err, &er):
		return "reload"
	case strings.Contains(err.Error(), "already"):
		return "duplicate"
	case strings.Contains(err.Error(), "is not in"):
		return "not-listed"
	}
	return "other"
}

func fatalf(f string, a ...any) {
	fmt.Fprintf(os.Stderr, "policy harness: "+f+"\n", a...)
	os.Exit(2)
}

func main() {
	in := flag.String("sched", "", "schedules exported by TLC (ndjson)")
	files := flag.String("files", "", "pre-existing file classes exported by TLC (ndjson), for random schedules")
	out := flag.String("out", "trace.ndjson", "")
	dir := flag.String("dir", "", "scratch directory")
	nrand := flag.Int("rand", 0, "number of random schedules")
	seed := flag.Int64("seed", 1, "")
	maxlen := flag.Int("maxlen", 24, "maximal length of a random schedule")
	meta := flag.String("meta", "meta.ndjson", "per-schedule description (file text, operations), for replays and samples")
	workers := flag.Int("workers", 8, "")
	flag.Parse()
	if *dir == "" {
		fatalf("%v", "-dir required")
	}
	if err := os.MkdirAll(*dir, 0o755); err != nil {
		fatalf("%v", err)
	}
	var scheds []map[string]any
	if *in != "" {
		s, err := ndj.ReadAll(*in)
		if err != nil {
			fatalf("%v", err)
		}
		for _, x := range s {
			x["src"] = "tlc"
		}
		scheds = s
	}
	if *nrand > 0 {
		fl, err := ndj.ReadAll(*files)
		if err != nil || len(fl) == 0 {
			fatalf("files: %v", err)
		}
		rng := rand.New(rand.NewSource(*seed))
		listOps := []string{"add_allow", "rm_allow", "add_susp", "rm_susp"}
		otherOps := []string{"disable", "enable", "reload", "restart"}
		for i := 0; i < *nrand; i++ {
			f := fl[rng.Intn(len(fl))]
			n := 5 + rng.Intn(*maxlen-4)
			ops := make([]any, 0, n)
			for j := 0; j < n; j++ {
				if rng.Intn(10) < 7 {
					arg := probes[rng.Intn(len(probes))]
					if rng.Intn(100) < 15 {
						arg = invalidNames[rng.Intn(len(invalidNames))]
					}
					ops = append(ops, map[string]any{"op": listOps[rng.Intn(4)], "arg": arg})
				} else {
					ops = append(ops, map[string]any{"op": otherOps[rng.Intn(4)], "arg": ""})
				}
			}
			scheds = append(scheds, map[string]any{"src": "rand", "cls": f["cls"], "file": f["file"], "nl": f["nl"], "ops": ops})
		}
	}
	w, err := ndj.NewWriter(*out)
	if err != nil {
		fatalf("%v", err)
	}
	mw, err := ndj.NewWriter(*meta)
	if err != nil {
		fatalf("%v", err)
	}
	// schedules are independent: run them on several goroutines, each with its own file,
	// and write the results in schedule order
	type result struct{ evs, metas []map[string]any }
	results := make([]result, len(scheds))
	var wg sync.WaitGroup
	next := int64(-1)
	for k := 0; k < *workers; k++ {
		wg.Add(1)
		go func(k int) {
			defer wg.Done()
			path := filepath.Join(*dir, fmt.Sprintf("w%d", k), "policy.conf")
			if err := os.MkdirAll(filepath.Dir(path), 0o755); err != nil {
				fatalf("%v", err)
			}
			steps := 0
			for {
				t := int(atomic.AddInt64(&next, 1))
				if t >= len(scheds) {
					return
				}
				evs, m := runSchedule(t, scheds[t], path, &steps)
				results[t] = result{evs, []map[string]any{m}}
			}
		}(k)
	}
	wg.Wait()
	steps := 0
	for _, r := range results {
		for _, e := range r.evs {
			w.Write(e)
		}
		steps += len(r.evs) - 1
		mw.Write(r.metas[0])
	}
	if err := w.Close(); err != nil {
		fatalf("%v", err)
	}
	if err := mw.Close(); err != nil {
		fatalf("%v", err)
	}
	fmt.Printf("schedules=%d steps=%d lines=%d\n", len(scheds), steps, w.N)
}

func runSchedule(t int, s map[string]any, path string, steps *int) ([]map[string]any, map[string]any) {
	var evs []map[string]any
	lines, _ := s["file"].([]any)
	if lines == nil {
		lines = []any{}
	}
	text := renderFile(lines, ndj.Bool(s, "nl"))
	if err := os.WriteFile(path, []byte(text), 0o644); err != nil {
		fatalf("%v", err)
	}
	p, err := policy.CreateFromFile(path)
	if err != nil {
		fatalf("schedule %d: pre-existing file of class %s does not load: %v", t, ndj.Str(s, "cls"), err)
	}
	cls := ndj.Str(s, "cls")
	m := map[string]any{"t": t, "src": s["src"], "cls": cls, "file": lines, "nl": s["nl"], "text": text, "ops": s["ops"]}
	if pv, ok := s["pv"]; ok {
		m["pv"] = pv
	}
	ev := map[string]any{"t": t, "i": 0, "ev": "init", "cls": cls}
	observe(ev, p, path)
	evs = append(evs, ev)
	ops, _ := s["ops"].([]any)
	for i, o := range ops {
		om := o.(map[string]any)
		op, an := ndj.Str(om, "op"), ndj.Str(om, "arg")
		arg, known := concrete[an]
		if !known && an != "" {
			fatalf("unknown abstract argument %q", an)
		}
		before, _ := os.ReadFile(path)
		var oerr error
		switch op {
		case "add_allow":
			oerr = p.AddToAllowlist(arg)
		case "rm_allow":
			oerr = p.RemoveFromAllowlist(arg)
		case "add_susp":
			oerr = p.AddToSuspiciousPeerList(arg)
		case "rm_susp":
			oerr = p.RemoveFromSuspiciousPeerList(arg)
		case "disable":
			oerr = p.DisableSwaps()
		case "enable":
			oerr = p.EnableSwaps()
		case "reload":
			oerr = p.ReloadFile()
		case "restart":
			// a restart that cannot load the file keeps the node down; the harness
			// continues with the old object so that the rest of the schedule is defined
			np, e := policy.CreateFromFile(path)
			if e != nil {
				oerr = e
			} else {
				p = np
			}
		default:
			fatalf("unknown op %q", op)
		}
		after, _ := os.ReadFile(path)
		ev := map[string]any{"t": t, "i": i + 1, "ev": "op", "cls": cls, "op": op, "arg": an,
			"res": "ok", "fchg": !bytes.Equal(before, after)}
		if oerr != nil {
			ev["res"] = "err"
			ev["err"] = errClass(oerr)
		}
		observe(ev, p, path)
		evs = append(evs, ev)
		*steps++
		if *steps%500 == 0 {
			runtime.GC() // CreateFromFile/ReloadFile leave one descriptor to the finalizer
		}
	}
	return evs, m
}
