// script executes the TLC-exported cases of spec/Script.tla on the REAL opening
// script of peerswap (C02).
//
// For every exported line (an abstract witness stack + flag set + which item
// hashes to the payment hash) and every point of the line's grid (chain /
// protocol version, input sequence, tx version) it
//   - obtains the witness script and the P2WSH output script through the same
//     public functions the wallets use (swap.SwapData.GetOpeningParams for the
//     keys, hash and CSV; onchain.BitcoinOnChain.GetOutputScript /
//     CreateOpeningAddress with onchain.BitcoinCsv; onchain.LiquidOnChain.
//     GetOutputScript / CreateOpeningAddress; onchain.ParamsToTxScript),
//   - builds a spending transaction whose witness carries concrete items (real
//     ECDSA signatures over the real BIP143 sighash, the real preimage, ...),
//   - runs btcd's txscript engine and records its verdict.
//
// The trace is validated by spec/ScriptTrace.tla.
package main

import (
	"bytes"
	"crypto/sha256"
	"encoding/hex"
	"errors"
	"flag"
	"fmt"
	"hash/fnv"
	"math/rand"
	"os"
	"runtime"
	"strings"
	"sync"

	"github.com/btcsuite/btcd/btcec/v2"
	"github.com/btcsuite/btcd/btcec/v2/ecdsa"
	"github.com/btcsuite/btcd/btcutil"
	"github.com/btcsuite/btcd/chaincfg"
	"github.com/btcsuite/btcd/chaincfg/chainhash"
	"github.com/btcsuite/btcd/txscript"
	"github.com/btcsuite/btcd/wire"
	"github.com/elementsproject/peerswap/onchain"
	"github.com/elementsproject/peerswap/swap"
	"github.com/vulpemventures/go-elements/address"
	"github.com/vulpemventures/go-elements/network"
	"verif/harness/ndj"
	_ "verif/harness/quiet"
)

func die(f string, a ...any) {
	fmt.Fprintf(os.Stderr, "script harness: "+f+"\n", a...)
	os.Exit(2)
}

const prevAmount = int64(250000)

var flagSets = map[string]txscript.ScriptFlags{
	"min": txscript.ScriptBip16 | txscript.ScriptVerifyWitness |
		txscript.ScriptVerifyCheckSequenceVerify | txscript.ScriptVerifyCheckLockTimeVerify,
	"consensus": txscript.ScriptBip16 | txscript.ScriptVerifyWitness |
		txscript.ScriptVerifyCheckSequenceVerify | txscript.ScriptVerifyCheckLockTimeVerify |
		txscript.ScriptVerifyDERSignatures | txscript.ScriptStrictMultiSig | txscript.ScriptVerifyTaproot,
	"standard": txscript.StandardVerifyFlags,
}

// ---------------------------------------------------------------- grid

type seqT struct {
	Name string
	Dis  bool
	Typ  bool
	Val  uint32
	Rest bool
}

func (s seqT) u32() uint32 {
	v := s.Val & 0xffff
	if s.Dis {
		v |= 1 << 31
	}
	if s.Typ {
		v |= 1 << 22
	}
	if s.Rest {
		v |= 0x7fffffff &^ (1 << 22) &^ 0xffff
	}
	return v
}

type point struct {
	Chain string
	Seq   seqT
	Ver   int32
}

func parseGrid(m map[string]any) (string, []point) {
	var pts []point
	for _, p := range m["points"].([]any) {
		pm := p.(map[string]any)
		sm := pm["seq"].(map[string]any)
		pts = append(pts, point{
			Chain: ndj.Str(pm, "chain"),
			Ver:   int32(ndj.Int(pm, "ver")),
			Seq: seqT{Name: ndj.Str(sm, "name"), Dis: ndj.Bool(sm, "dis"), Typ: ndj.Bool(sm, "typ"),
				Val: uint32(ndj.Int(sm, "val")), Rest: ndj.Bool(sm, "rest")},
		})
	}
	return ndj.Str(m, "name"), pts
}

// ---------------------------------------------------------------- keys and items

type keyset struct {
	id                  int
	taker, maker, other *btcec.PrivateKey
	items               map[string][]byte // abstract item -> bytes (signatures are per context/point)
}

func randBytes(r *rand.Rand, n int) []byte {
	b := make([]byte, n)
	for {
		r.Read(b)
		// never a byte string that could be taken for a DER/BER signature, and a defined last byte
		if n == 0 || b[0] != 0x30 {
			return b
		}
	}
}

func newKey(r *rand.Rand) *btcec.PrivateKey {
	for {
		k, _ := btcec.PrivKeyFromBytes(randBytes(r, 32))
		if !k.Key.IsZero() {
			return k
		}
	}
}

func newKeyset(id int, r *rand.Rand) *keyset {
	ks := &keyset{id: id, taker: newKey(r), maker: newKey(r), other: newKey(r), items: map[string][]byte{}}
	ks.items["preimage"] = randBytes(r, 32)
	ks.items["wrong32"] = randBytes(r, 32)
	ks.items["short31"] = randBytes(r, 31)
	ks.items["long33"] = randBytes(r, 33)
	ks.items["empty"] = []byte{}
	ks.items["one"] = []byte{0x01}
	mal := randBytes(r, 9) // never 31..33 bytes long, never DER
	mal[0] = 0xde
	ks.items["malformedSig"] = append(mal, byte(txscript.SigHashAll))
	return ks
}

// ---------------------------------------------------------------- script context (real code)

type ctxKey struct {
	ks    int
	src   string
	chain string
	hpre  string
}

type scriptCtx struct {
	ws        []byte // witness script from onchain.ParamsToTxScript with the CSV the wallet passes
	pkVerify  []byte // output script the peer expects: <chain>.GetOutputScript(params)
	pkAddress []byte // output script of the address the wallet pays to: <chain>.CreateOpeningAddress
	wsOther   []byte // some other script (for the program-mismatch cases)
	csv       uint32 // CSV value that reached ParamsToTxScript
}

type est struct{}

func (est) EstimateFeePerKW(uint32) (btcutil.Amount, error) { return 253, nil }
func (est) Start() error                                    { return nil }

var (
	btcChain  = onchain.NewBitcoinOnChain(est{}, 253, 253, &chaincfg.RegressionNetParams)
	lbtcChain = onchain.NewLiquidOnChain(nil, &network.Regtest)
)

func pubHex(k *btcec.PrivateKey) string { return hex.EncodeToString(k.PubKey().SerializeCompressed()) }

// openingParams goes through swap.SwapData exactly as the FSM actions do: the
// keys come from the request/agreement messages of the swap type, the CSV from
// the timelock policy of (chain, protocol version).
func openingParams(ks *keyset, src, chain string, h []byte) (*swap.OpeningParams, error) {
	var ver uint8
	var asset, netw string
	switch chain {
	case "btc":
		ver, netw = 7, "regtest"
	case "btc6":
		ver, netw = 6, "regtest"
	case "lbtc7":
		ver, asset = 7, network.Regtest.AssetID
	case "lbtc6":
		ver, asset = 6, network.Regtest.AssetID
	default:
		return nil, fmt.Errorf("unknown chain %q", chain)
	}
	sd := &swap.SwapData{ClaimPaymentHash: hex.EncodeToString(h)}
	id := swap.NewSwapId()
	switch src {
	case "out":
		// swap-out: the requester pays the invoice (taker), the responder funds the output (maker)
		sd.SwapOutRequest = &swap.SwapOutRequestMessage{ProtocolVersion: ver, SwapId: id, Asset: asset, Network: netw,
			Scid: "100x1x1", Amount: uint64(prevAmount), Pubkey: pubHex(ks.taker)}
		sd.SwapOutAgreement = &swap.SwapOutAgreementMessage{ProtocolVersion: ver, SwapId: id, Pubkey: pubHex(ks.maker)}
	case "in":
		// swap-in: the requester funds the output (maker), the responder pays the invoice (taker)
		sd.SwapInRequest = &swap.SwapInRequestMessage{ProtocolVersion: ver, SwapId: id, Asset: asset, Network: netw,
			Scid: "100x1x1", Amount: uint64(prevAmount), Pubkey: pubHex(ks.maker)}
		sd.SwapInAgreement = &swap.SwapInAgreementMessage{ProtocolVersion: ver, SwapId: id, Pubkey: pubHex(ks.taker)}
	default:
		return nil, fmt.Errorf("unknown src %q", src)
	}
	return sd.GetOpeningParams(), nil
}

func buildCtx(ks *keyset, k ctxKey) (*scriptCtx, error) {
	hp, ok := ks.items[k.hpre]
	if !ok {
		return nil, fmt.Errorf("hpre %q", k.hpre)
	}
	h := sha256.Sum256(hp)
	params, err := openingParams(ks, k.src, k.chain, h[:])
	if err != nil {
		return nil, err
	}
	c := &scriptCtx{}
	switch k.chain {
	case "btc", "btc6":
		// clightning_wallet.go / lnd_wallet.go pass onchain.BitcoinCsv; BitcoinOnChain uses the same constant internally
		c.csv = onchain.BitcoinCsv
		if c.ws, err = onchain.ParamsToTxScript(params, onchain.BitcoinCsv); err != nil {
			return nil, err
		}
		if c.pkVerify, err = btcChain.GetOutputScript(params); err != nil {
			return nil, err
		}
		addr, err := btcChain.CreateOpeningAddress(params, onchain.BitcoinCsv)
		if err != nil {
			return nil, err
		}
		a, err := btcutil.DecodeAddress(addr, &chaincfg.RegressionNetParams)
		if err != nil {
			return nil, err
		}
		if c.pkAddress, err = txscript.PayToAddrScript(a); err != nil {
			return nil, err
		}
	default:
		// LiquidOnChain takes the CSV from the opening parameters everywhere
		c.csv = params.CSV
		if c.ws, err = onchain.ParamsToTxScript(params, params.CSV); err != nil {
			return nil, err
		}
		if c.pkVerify, err = lbtcChain.GetOutputScript(params); err != nil {
			return nil, err
		}
		addr, err := lbtcChain.CreateOpeningAddress(c.ws)
		if err != nil {
			return nil, err
		}
		if c.pkAddress, err = address.ToOutputScript(addr); err != nil {
			return nil, err
		}
	}
	// a well-formed script of the same shape for other keys
	c.wsOther, err = onchain.GetOpeningTxScript(ks.other.PubKey().SerializeCompressed(), ks.maker.PubKey().SerializeCompressed(), h[:], c.csv)
	if err != nil {
		return nil, err
	}
	return c, nil
}

// ---------------------------------------------------------------- per point: tx, sighash, signatures

type pointCtx struct {
	tx      *wire.MsgTx
	hashes  map[string]*txscript.TxSigHashes // by prevout script kind
	sig     map[string][]byte                // sigTaker/sigMaker/sigOther incl. hash type
	raw     map[string][]byte                // DER only (what the wallet hands to the witness builders)
	fetcher map[string]txscript.PrevOutputFetcher
}

func derSig(k *btcec.PrivateKey, h []byte) []byte { return ecdsa.Sign(k, h).Serialize() }

func buildPoint(ks *keyset, sc *scriptCtx, p point, r *rand.Rand) (*pointCtx, error) {
	tx := wire.NewMsgTx(p.Ver)
	var prev chainhash.Hash
	r.Read(prev[:])
	in := wire.NewTxIn(wire.NewOutPoint(&prev, uint32(r.Intn(3))), nil, nil)
	in.Sequence = p.Seq.u32()
	tx.AddTxIn(in)
	dest, _ := txscript.NewScriptBuilder().AddOp(txscript.OP_0).AddData(btcutil.Hash160(ks.other.PubKey().SerializeCompressed())).Script()
	tx.AddTxOut(wire.NewTxOut(prevAmount-1000, dest))
	pc := &pointCtx{tx: tx, hashes: map[string]*txscript.TxSigHashes{}, sig: map[string][]byte{}, raw: map[string][]byte{},
		fetcher: map[string]txscript.PrevOutputFetcher{}}
	for name, pk := range map[string][]byte{"verify": sc.pkVerify, "address": sc.pkAddress} {
		f := txscript.NewCannedPrevOutputFetcher(pk, prevAmount)
		pc.fetcher[name] = f
		pc.hashes[name] = txscript.NewTxSigHashes(tx, f)
	}
	// BIP143 sighash commits to the witness script, the amount, the sequence and the version (not to the prevout script)
	sh, err := txscript.CalcWitnessSigHash(sc.ws, pc.hashes["verify"], txscript.SigHashAll, tx, 0, prevAmount)
	if err != nil {
		return nil, err
	}
	for name, k := range map[string]*btcec.PrivateKey{"sigTaker": ks.taker, "sigMaker": ks.maker, "sigOther": ks.other} {
		d := derSig(k, sh)
		pc.raw[name] = d
		pc.sig[name] = append(append([]byte{}, d...), byte(txscript.SigHashAll))
	}
	return pc, nil
}

// ---------------------------------------------------------------- caches

type world struct {
	mu     sync.Mutex
	seed   int64
	ksets  []*keyset
	ctxs   map[ctxKey]*scriptCtx
	points map[string]*pointCtx
	grids  map[string][]point
}

func (w *world) ctx(k ctxKey) (*scriptCtx, error) {
	w.mu.Lock()
	defer w.mu.Unlock()
	if c, ok := w.ctxs[k]; ok {
		return c, nil
	}
	c, err := buildCtx(w.ksets[k.ks], k)
	if err != nil {
		return nil, err
	}
	w.ctxs[k] = c
	return c, nil
}

func (w *world) point(k ctxKey, sc *scriptCtx, grid string, i int) (*pointCtx, error) {
	id := fmt.Sprintf("%d|%s|%s|%s|%s|%d", k.ks, k.src, k.chain, k.hpre, grid, i)
	w.mu.Lock()
	defer w.mu.Unlock()
	if p, ok := w.points[id]; ok {
		return p, nil
	}
	h := fnv.New64a()
	h.Write([]byte(id))
	r := rand.New(rand.NewSource(w.seed ^ int64(h.Sum64())))
	p, err := buildPoint(w.ksets[k.ks], sc, w.grids[grid][i], r)
	if err != nil {
		return nil, err
	}
	w.points[id] = p
	return p, nil
}

// ---------------------------------------------------------------- execution

func errName(err error) string {
	if err == nil {
		return "ok"
	}
	var se txscript.Error
	if errors.As(err, &se) {
		return se.ErrorCode.String()
	}
	return "Err:" + err.Error()
}

func runEngine(pk []byte, pc *pointCtx, which string, witness wire.TxWitness, flags txscript.ScriptFlags) string {
	tx := pc.tx.Copy()
	tx.TxIn[0].Witness = witness
	vm, err := txscript.NewEngine(pk, tx, 0, flags, nil, pc.hashes[which], prevAmount, pc.fetcher[which])
	if err != nil {
		return errName(err)
	}
	return errName(vm.Execute())
}

func abstractOf(ks *keyset, pc *pointCtx, b []byte) string {
	for n, v := range pc.sig {
		if bytes.Equal(v, b) {
			return n
		}
	}
	for n, v := range ks.items {
		if bytes.Equal(v, b) {
			return n
		}
	}
	return "unknown:" + hex.EncodeToString(b)
}

func strs(v any) []string {
	var out []string
	if a, ok := v.([]any); ok {
		for _, x := range a {
			s, _ := x.(string)
			out = append(out, s)
		}
	}
	return out
}

func (w *world) runLine(ln map[string]any) error {
	kind, src, hpre, fl, grid := ndj.Str(ln, "kind"), ndj.Str(ln, "src"), ndj.Str(ln, "hpre"), ndj.Str(ln, "flags"), ndj.Str(ln, "grid")
	wabs := strs(ln["w"])
	flags, ok := flagSets[fl]
	if !ok {
		return fmt.Errorf("flag set %q", fl)
	}
	pts, ok := w.grids[grid]
	if !ok {
		return fmt.Errorf("grid %q", grid)
	}
	// key set chosen by the line's content (stable across orderings of the case file)
	h := fnv.New32a()
	h.Write([]byte(kind + "|" + strings.Join(wabs, ",") + "|" + src + "|" + hpre + "|" + fl + "|" + ndj.Str(ln, "ws")))
	ksi := int(h.Sum32()) % len(w.ksets)
	ks := w.ksets[ksi]
	res := make([]string, len(pts))
	var built []string
	for i, p := range pts {
		k := ctxKey{ksi, src, p.Chain, hpre}
		sc, err := w.ctx(k)
		if err != nil {
			return err
		}
		pc, err := w.point(k, sc, grid, i)
		if err != nil {
			return err
		}
		ws := sc.ws
		if ndj.Str(ln, "ws") != "script" {
			ws = sc.wsOther
		}
		var wit wire.TxWitness
		pk, which := sc.pkVerify, "verify"
		switch kind {
		case "stack":
			for _, a := range wabs {
				if b, ok := pc.sig[a]; ok {
					wit = append(wit, b)
				} else if b, ok := ks.items[a]; ok {
					wit = append(wit, b)
				} else {
					return fmt.Errorf("item %q", a)
				}
			}
			wit = append(wit, ws)
		case "canon":
			// the wallet's builders; the output is the one of the address the wallet pays to
			pk, which = sc.pkAddress, "address"
			cp := func(b []byte) []byte { return append(make([]byte, 0, len(b)+1), b...) }
			switch ndj.Str(ln, "path") {
			case "preimage":
				wit = onchain.GetPreimageWitness(cp(pc.raw["sigTaker"]), cp(ks.items["preimage"]), ws)
			case "coop":
				wit = onchain.GetCooperativeWitness(cp(pc.raw["sigTaker"]), cp(pc.raw["sigMaker"]), ws)
			case "csv":
				wit = onchain.GetCsvWitness(cp(pc.raw["sigMaker"]), ws)
			default:
				return fmt.Errorf("path %q", ndj.Str(ln, "path"))
			}
			if i == 0 {
				for j, b := range wit {
					if j == len(wit)-1 && bytes.Equal(b, ws) {
						break
					}
					built = append(built, abstractOf(ks, pc, b))
				}
			}
		default:
			return fmt.Errorf("kind %q", kind)
		}
		res[i] = runEngine(pk, pc, which, wit, flags)
	}
	ln["r"] = res
	ln["ks"] = ksi
	if kind == "canon" {
		if built == nil {
			built = []string{}
		}
		ln["built"] = built
	}
	return nil
}

func main() {
	in := flag.String("cases", "cases.ndjson", "")
	out := flag.String("out", "trace.ndjson", "")
	seed := flag.Int64("seed", 1, "")
	nks := flag.Int("keysets", 3, "")
	workers := flag.Int("workers", runtime.NumCPU(), "")
	flag.Parse()
	lines, err := ndj.ReadAll(*in)
	if err != nil {
		die("%v", err)
	}
	w := &world{seed: *seed, ctxs: map[ctxKey]*scriptCtx{}, points: map[string]*pointCtx{}, grids: map[string][]point{}}
	r := rand.New(rand.NewSource(*seed))
	for i := 0; i < *nks; i++ {
		w.ksets = append(w.ksets, newKeyset(i, r))
	}
	var work []map[string]any
	var head []map[string]any
	for _, ln := range lines {
		switch ndj.Str(ln, "kind") {
		case "grid":
			name, pts := parseGrid(ln)
			w.grids[name] = pts
			head = append(head, ln)
		default:
			work = append(work, ln)
		}
	}
	var wg sync.WaitGroup
	ch := make(chan int, 1024)
	var firstErr error
	var emu sync.Mutex
	for i := 0; i < *workers; i++ {
		wg.Add(1)
		go func() {
			defer wg.Done()
			for j := range ch {
				if err := w.runLine(work[j]); err != nil {
					emu.Lock()
					if firstErr == nil {
						firstErr = fmt.Errorf("line %d: %v", j, err)
					}
					emu.Unlock()
				}
			}
		}()
	}
	for j := range work {
		ch <- j
	}
	close(ch)
	wg.Wait()
	if firstErr != nil {
		die("%v", firstErr)
	}
	wr, err := ndj.NewWriter(*out)
	if err != nil {
		die("%v", err)
	}
	for _, g := range head {
		wr.Write(g)
	}
	// the scripts under test (information for the evidence; the trace specification skips these lines)
	for _, k := range sortedCtx(w.ctxs) {
		c := w.ctxs[k]
		asm, _ := txscript.DisasmString(c.ws)
		wr.Write(map[string]any{"kind": "script", "chain": k.chain, "src": k.src, "hpre": k.hpre, "ks": k.ks, "csv": int(c.csv),
			"asm": asm, "pk_verify": hex.EncodeToString(c.pkVerify), "pk_address": hex.EncodeToString(c.pkAddress)})
	}
	for _, ln := range work {
		wr.Write(ln)
	}
	if err := wr.Close(); err != nil {
		die("%v", err)
	}
}

func sortedCtx(m map[ctxKey]*scriptCtx) []ctxKey {
	var ks []ctxKey
	for k := range m {
		ks = append(ks, k)
	}
	for i := 1; i < len(ks); i++ {
		for j := i; j > 0 && fmt.Sprint(ks[j]) < fmt.Sprint(ks[j-1]); j-- {
			ks[j], ks[j-1] = ks[j-1], ks[j]
		}
	}
	return ks
}
