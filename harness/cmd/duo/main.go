// duo runs schedules on TWO real swap services wired together inside the simulated world of package duo and
// writes one concatenated NDJSON trace (one line per scheduler step).
package main

import (
	"bufio"
	"encoding/json"
	"flag"
	"fmt"
	"log"
	"os"
	"path/filepath"
	"runtime"
	"sync"
	"sync/atomic"
	"time"

	"github.com/elementsproject/peerswap/swap"
	"verif/harness/duo"
	"verif/harness/ndj"
	_ "verif/harness/quiet"
)

func main() {
	in := flag.String("schedules", "schedules.ndjson", "NDJSON file, one schedule per line")
	out := flag.String("out", "trace.ndjson", "")
	tmp := flag.String("tmp", "", "scratch dir for node files")
	workers := flag.Int("workers", 8, "")
	tables := flag.String("tables", "", "write the FSM tables of the tree under test as JSON and exit")
	flag.Parse()
	if *tables != "" {
		b, _ := json.MarshalIndent(swap.VerifTables(), "", " ")
		if err := os.WriteFile(*tables, b, 0o644); err != nil {
			log.Fatal(err)
		}
		return
	}
	// compressed waits: no retry back-off sleep; the claim-payment retry loop gets an unbounded time budget and is ended by
	// the simulated chain after 12 attempts; the real retransmission tickers never fire (their firing is a scheduler step)
	// (the 3 s wall budget of that loop is only a backstop for changed code that no longer consults the chain inside the loop)
	swap.VerifSetTiming(true, 3*time.Second, 100*time.Microsecond, time.Hour)
	f, err := os.Open(*in)
	if err != nil {
		log.Fatal(err)
	}
	var scheds []*duo.Schedule
	sc := bufio.NewScanner(f)
	sc.Buffer(make([]byte, 1<<20), 1<<26)
	for sc.Scan() {
		if len(sc.Bytes()) == 0 {
			continue
		}
		s := &duo.Schedule{}
		if err := json.Unmarshal(sc.Bytes(), s); err != nil {
			log.Fatalf("bad schedule: %v: %s", err, sc.Text())
		}
		scheds = append(scheds, s)
	}
	f.Close()
	if *tmp == "" {
		*tmp, _ = os.MkdirTemp("", "duo")
		defer os.RemoveAll(*tmp)
	}
	parts := make([]string, len(scheds))
	var wg sync.WaitGroup
	var done atomic.Int64
	jobs := make(chan int)
	for k := 0; k < *workers; k++ {
		wg.Add(1)
		go func() {
			defer wg.Done()
			for i := range jobs {
				s := scheds[i]
				cfg := duo.DefaultConfig()
				if s.Cfg != nil {
					cfg = *s.Cfg
				}
				p := filepath.Join(*tmp, fmt.Sprintf("part-%06d.ndjson", i))
				w, err := ndj.NewWriter(p)
				if err != nil {
					log.Fatal(err)
				}
				world := duo.NewWorld(i+1, filepath.Join(*tmp, fmt.Sprintf("pair-%06d", i)), cfg, w)
				duo.RunSchedule(world, s)
				world.Close()
				w.Close()
				parts[i] = p
				// policy.CreateFromFile leaves one descriptor per start to the finalizer: let the collector run regularly
				if done.Add(1)%256 == 0 {
					runtime.GC()
				}
			}
		}()
	}
	for i := range scheds {
		jobs <- i
	}
	close(jobs)
	wg.Wait()
	o, err := os.Create(*out)
	if err != nil {
		log.Fatal(err)
	}
	bw := bufio.NewWriterSize(o, 1<<20)
	for _, p := range parts {
		b, err := os.ReadFile(p)
		if err != nil {
			log.Fatal(err)
		}
		bw.Write(b)
		os.Remove(p)
	}
	bw.Flush()
	o.Close()
}
