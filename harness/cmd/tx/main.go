// tx executes the TLC-exported cases of spec/TxMC.tla on the real peerswap
// code and records one observation per case as an NDJSON trace line
// (validated by spec/TxTrace.tla):
//
//	kind v (C01 validator clause): the abstract opening transaction is built as
//	  a real Bitcoin wire.MsgTx / real (blinded) Elements transaction and given
//	  to the real onchain.BitcoinOnChain.ValidateTx / LiquidOnChain.ValidateTx.
//	kind s (C03): the real spend builders run behind their real adapters
//	  (clightning wallet adapter over a fake lightningd socket + fake bitcoind
//	  HTTP, lnd wallet adapter over fake gRPC clients, LiquidOnChain over the
//	  real wallet.ElementsRpcWallet over a fake elementsd); the transaction
//	  handed to the broadcast interface is measured independently.
//	kind o (C08): the real opening paths run against simulated wallets whose
//	  funding result (output order, change, inputs) follows the schedule; the
//	  returned txid / vout / blinding key are compared with the broadcast tx.
package main

import (
	"context"
	"encoding/hex"
	"encoding/json"
	"flag"
	"fmt"
	"log"
	"os"
	"runtime"
	"sync"

	"github.com/btcsuite/btcd/btcutil"
	"github.com/elementsproject/peerswap/clightning"
	"github.com/elementsproject/peerswap/lnd"
	"github.com/elementsproject/peerswap/onchain"
	"github.com/elementsproject/peerswap/swap"
	"github.com/elementsproject/peerswap/wallet"
	"github.com/vulpemventures/go-elements/transaction"
	"verif/harness/ndj"
	_ "verif/harness/quiet"
	"verif/harness/tx"
)

var (
	seed    int64
	dump    bool
	npsV    = map[string]int{"btc": 4, "lbtc": 1}
	npsO    = 2
	lqCache = tx.NewLqOutCache()
	params  sync.Map
)

func getParams(chain string, idx int) *tx.Params {
	k := fmt.Sprintf("%s/%d", chain, idx)
	if v, ok := params.Load(k); ok {
		return v.(*tx.Params)
	}
	v, _ := params.LoadOrStore(k, tx.NewParams(seed, chain, idx))
	return v.(*tx.Params)
}

func outsOf(c map[string]any) []tx.Out {
	b, _ := json.Marshal(c["outs"])
	var o []tx.Out
	if err := json.Unmarshal(b, &o); err != nil {
		log.Fatal(err)
	}
	return o
}

func shapeKey(c map[string]any) string {
	b, _ := json.Marshal(c)
	return string(b)
}

func clone(c map[string]any) map[string]any {
	m := make(map[string]any, len(c)+24)
	for k, v := range c {
		m[k] = v
	}
	return m
}

// logWallet wraps the real wallet.ElementsRpcWallet to observe what GetFee
// answers to LiquidOnChain (fee class "zero": a wallet that answers 0).
type logWallet struct {
	wallet.Wallet
	zero    bool
	lastFee uint64
	lastErr bool
	nFee    int
}

func (w *logWallet) GetFee(sz int64) (uint64, error) {
	w.nFee++
	if w.zero {
		w.lastFee, w.lastErr = 0, false
		return 0, nil
	}
	f, err := w.Wallet.GetFee(sz)
	w.lastFee, w.lastErr = f, err != nil
	return f, err
}

type worker struct {
	id   int
	cln  *tx.FakeCln
	work string
}

func (w *worker) getCln(bw *tx.BtcWallet, newPsbt bool) *tx.FakeCln {
	if w.cln == nil {
		f, err := tx.NewFakeCln(bw, w.work, newPsbt)
		if err != nil {
			log.Fatalf("fake lightningd: %v", err)
		}
		w.cln = f
	}
	w.cln.Reset(bw, newPsbt)
	return w.cln
}

func btcChain(class string) *onchain.BitcoinOnChain {
	return onchain.NewBitcoinOnChain(&tx.Estimator{Class: class}, btcutil.Amount(tx.FeeFallback), btcutil.Amount(tx.FeeFloor), tx.BtcNet)
}

// validate runs the real validator on an opening transaction.
func validate(chain string, p *tx.Params, txHex string) (accept, ok, isErr bool) {
	var err error
	if chain == "btc" {
		ok, err = btcChain("normal").ValidateTx(p.Opening(), txHex)
	} else {
		ok, err = onchain.NewLiquidOnChain(nil, tx.LqNet).ValidateTx(p.Opening(), txHex)
	}
	return ok && err == nil, ok, err != nil
}

func buildOpening(chain string, p *tx.Params, outs []tx.Out, label string) (string, any) {
	r := tx.DetRand(seed, "opening", chain, label)
	if chain == "btc" {
		t := tx.BuildBtcOpening(p, outs, r)
		return tx.BtcTxHex(t), t
	}
	t, err := tx.BuildLqOpening(p, seed, outs, lqCache, r)
	if err != nil {
		log.Fatalf("building liquid opening: %v", err)
	}
	h, err := t.ToHex()
	if err != nil {
		log.Fatal(err)
	}
	// work on the parsed form of what goes over the wire
	t2, err := transaction.NewTxFromHex(h)
	if err != nil {
		log.Fatal(err)
	}
	return h, t2
}

func (w *worker) runV(c map[string]any) []map[string]any {
	chain := ndj.Str(c, "chain")
	outs := outsOf(c)
	var res []map[string]any
	for ps := 0; ps < npsV[chain]; ps++ {
		p := getParams(chain, ps)
		h, _ := buildOpening(chain, p, outs, shapeKey(c)+fmt.Sprint(ps))
		m := clone(c)
		m["ps"] = ps
		m["accept"], m["vok"], m["verr"] = validate(chain, p, h)
		if dump {
			m["x_opening"] = h
		}
		res = append(res, m)
	}
	return res
}

func psOf(c map[string]any, n int) int {
	s := shapeKey(c)
	h := 0
	for i := 0; i < len(s); i++ {
		h = (h*31 + int(s[i])) & 0xffffff
	}
	return h % n
}

func (w *worker) runS(c map[string]any) []map[string]any {
	chain, backend, spend, feeClass := ndj.Str(c, "chain"), ndj.Str(c, "backend"), ndj.Str(c, "spend"), ndj.Str(c, "fee")
	outs := outsOf(c)
	ps := psOf(c, 2)
	p := getParams(chain, ps)
	h, otx := buildOpening(chain, p, outs, shapeKey(c))
	m := clone(c)
	m["ps"], m["amount"], m["csv"] = ps, p.Amount, p.CSV
	accept, _, _ := validate(chain, p, h)
	m["vaccept"] = accept
	// defaults for fields the trace specification reads
	facts := tx.SpendFacts{InIdx: -1, Seq: -1, Value: -1, FeeOut: -1, Wit: []string{}}
	m["run"], m["built"], m["berr"], m["bcast"], m["txidok"] = false, false, false, 0, false
	est := &tx.Estimator{Class: feeClass}
	rate, ferr := est.Answer()
	m["ferr"], m["est"], m["fallback"], m["floor"] = ferr, rate, tx.FeeFallback, tx.FeeFloor
	m["wferr"], m["wfee"] = false, 0
	defer func() {
		b, _ := json.Marshal(facts)
		var fm map[string]any
		json.Unmarshal(b, &fm)
		for k, v := range fm {
			m[k] = v
		}
	}()
	if ndj.Str(c, "side") == "taker" && !accept {
		return []map[string]any{m}
	}
	m["run"] = true
	cp := &swap.ClaimParams{Preimage: hex.EncodeToString(p.Preimage[:]), OpeningTxHex: h}
	var takerSigner swap.Signer = &tx.Signer{Key: p.TakerKey}
	if spend == "preimage" {
		cp.Signer = &tx.Signer{Key: p.TakerKey}
	} else {
		cp.Signer = &tx.Signer{Key: p.MakerKey}
	}
	op := p.Opening()
	var txid, txhex string
	var err error
	var bcast, issued []string
	r := tx.DetRand(seed, "wallet", shapeKey(c))
	type spender interface {
		CreatePreimageSpendingTransaction(*swap.OpeningParams, *swap.ClaimParams) (string, string, string, error)
		CreateCsvSpendingTransaction(*swap.OpeningParams, *swap.ClaimParams) (string, string, string, error)
		CreateCoopSpendingTransaction(*swap.OpeningParams, *swap.ClaimParams, swap.Signer) (string, string, string, error)
	}
	var sp spender
	var bw *tx.BtcWallet
	var fe *tx.FakeElementsd
	var lw *logWallet
	switch backend {
	case "cln":
		bw = tx.NewBtcWallet(r)
		f := w.getCln(bw, true)
		sp = clightning.VerifNewWalletClient(f.Gl, f.Gb, btcChain(feeClass), "v24.11")
	case "lnd":
		bw = tx.NewBtcWallet(r)
		calls := []string{}
		sp = lnd.VerifNewWalletClient(context.Background(), &tx.FakeLndLightning{W: bw, Calls: &calls}, &tx.FakeLndWalletKit{W: bw, Calls: &calls}, btcChain(feeClass))
	case "liquid":
		fe = tx.NewFakeElementsd(r)
		fe.FeeClass = feeClass
		lw = &logWallet{Wallet: wallet.NewVerifRpcWallet(fe, "swap"), zero: feeClass == "zero"}
		sp = onchain.NewLiquidOnChain(lw, tx.LqNet)
	default:
		log.Fatalf("unknown backend %q", backend)
	}
	switch spend {
	case "preimage":
		txid, txhex, _, err = sp.CreatePreimageSpendingTransaction(op, cp)
	case "csv":
		txid, txhex, _, err = sp.CreateCsvSpendingTransaction(op, cp)
	case "coop":
		txid, txhex, _, err = sp.CreateCoopSpendingTransaction(op, cp, takerSigner)
	}
	if bw != nil {
		bcast, issued = bw.Broadcast, bw.Issued
	} else {
		bcast, issued = fe.Broadcast, fe.Issued
		m["wferr"], m["wfee"] = lw.lastErr, lw.lastFee
	}
	m["berr"], m["bcast"] = err != nil, len(bcast)
	if err != nil {
		m["x_err"] = err.Error()
	}
	if len(bcast) == 0 {
		return []map[string]any{m}
	}
	m["built"] = true
	addr := ""
	if len(issued) > 0 {
		addr = issued[len(issued)-1]
	}
	m["naddr"] = len(issued)
	if chain == "btc" {
		o, _ := tx.BtcParse(h)
		facts = tx.BtcSpendFacts(p, o, bcast[0], addr)
		if st, e := tx.BtcParse(bcast[0]); e == nil {
			m["txidok"] = err == nil && st.TxHash().String() == txid && txhex == bcast[0]
		}
	} else {
		o := otx.(*transaction.Transaction)
		facts = tx.LqSpendFacts(p, o, bcast[0], addr, fe.Blind[addr])
		if st, e := transaction.NewTxFromHex(bcast[0]); e == nil {
			m["txidok"] = err == nil && st.TxHash().String() == txid && txhex == bcast[0]
		}
	}
	if dump {
		m["x_opening"], m["x_spend"], m["x_addr"] = h, bcast[0], addr
	}
	return []map[string]any{m}
}

func (w *worker) runO(c map[string]any) []map[string]any {
	chain, backend, ver := ndj.Str(c, "chain"), ndj.Str(c, "backend"), ndj.Str(c, "ver")
	outs := outsOf(c)
	nin := int(ndj.Int(c, "nin"))
	inkind := ndj.Str(c, "inkind")
	var res []map[string]any
	for ps := 0; ps < npsO; ps++ {
		p := getParams(chain, ps)
		m := clone(c)
		m["ps"], m["amount"] = ps, p.Amount
		m["built"], m["txidok"], m["hexok"], m["ann"], m["swapidx"], m["blindok"], m["bcast"] = false, false, false, -1, []int{}, false, 0
		r := tx.DetRand(seed, "wallet", shapeKey(c), fmt.Sprint(ps))
		op := p.Opening()
		var txHex, txid string
		var vout uint32
		var err error
		var bcast []string
		switch backend {
		case "cln":
			bw := tx.NewBtcWallet(r)
			bw.Layout, bw.NIn, bw.InKind = outs, nin, inkind
			f := w.getCln(bw, ver >= "v23.05")
			txHex, _, txid, _, vout, err = clightning.VerifNewWalletClient(f.Gl, f.Gb, btcChain("normal"), ver).CreateOpeningTransaction(op)
			bcast = bw.Broadcast
		case "lnd":
			bw := tx.NewBtcWallet(r)
			bw.Layout, bw.NIn, bw.InKind = outs, nin, inkind
			calls := []string{}
			cl := lnd.VerifNewWalletClient(context.Background(), &tx.FakeLndLightning{W: bw, Calls: &calls}, &tx.FakeLndWalletKit{W: bw, Calls: &calls}, btcChain("normal"))
			txHex, _, txid, _, vout, err = cl.CreateOpeningTransaction(op)
			bcast = bw.Broadcast
		case "liquid":
			fe := tx.NewFakeElementsd(r)
			fe.Layout, fe.NIn = outs, nin
			lo := onchain.NewLiquidOnChain(wallet.NewVerifRpcWallet(fe, "swap"), tx.LqNet)
			txHex, _, txid, _, vout, err = lo.CreateOpeningTransaction(op)
			bcast = fe.Broadcast
		}
		m["bcast"] = len(bcast)
		if err != nil {
			m["x_err"] = err.Error()
		}
		if err == nil && len(bcast) >= 1 {
			m["built"] = true
			m["ann"] = int(vout)
			m["hexok"] = txHex == bcast[0]
			if chain == "btc" {
				if t, e := tx.BtcParse(bcast[0]); e == nil {
					m["txidok"] = t.TxHash().String() == txid
					m["scriptsig"] = len(t.TxIn[0].SignatureScript) > 0
					m["swapidx"] = tx.SwapIdxBtc(p, t)
					m["nouts"] = len(t.TxOut)
				}
			} else {
				if t, e := transaction.NewTxFromHex(bcast[0]); e == nil {
					m["txidok"] = t.TxHash().String() == txid
					idx, all := tx.LqSwapScriptIdx(p, t, op.BlindingKey)
					m["swapidx"] = idx
					m["blindok"] = all && len(idx) > 0
					m["nouts"] = len(t.Outputs)
				}
			}
			if dump {
				m["x_opening"] = bcast[0]
			}
		}
		res = append(res, m)
	}
	return res
}

func main() {
	in := flag.String("cases", "cases.ndjson", "")
	out := flag.String("out", "trace.ndjson", "")
	flag.Int64Var(&seed, "seed", 1, "")
	nw := flag.Int("workers", runtime.NumCPU(), "")
	work := flag.String("work", os.TempDir(), "scratch directory (unix sockets)")
	flag.BoolVar(&dump, "dump", false, "include transaction hex in the output (replay)")
	npsL := flag.Int("nps-lbtc", 1, "parameter sets per Liquid validator case")
	npsB := flag.Int("nps-btc", 4, "parameter sets per Bitcoin validator case")
	flag.IntVar(&npsO, "nps-o", 2, "parameter sets per opening-path case")
	flag.Parse()
	npsV["lbtc"], npsV["btc"] = *npsL, *npsB
	cases, err := ndj.ReadAll(*in)
	if err != nil {
		log.Fatal(err)
	}
	results := make([][]map[string]any, len(cases))
	jobs := make(chan int, 1024)
	var wg sync.WaitGroup
	for i := 0; i < *nw; i++ {
		wg.Add(1)
		go func(id int) {
			defer wg.Done()
			w := &worker{id: id, work: *work}
			defer func() {
				if w.cln != nil {
					w.cln.Close()
				}
			}()
			for j := range jobs {
				c := cases[j]
				switch ndj.Str(c, "kind") {
				case "v":
					results[j] = w.runV(c)
				case "s":
					results[j] = w.runS(c)
				case "o":
					results[j] = w.runO(c)
				default:
					log.Fatalf("unknown case kind in %v", c)
				}
			}
		}(i)
	}
	for j := range cases {
		jobs <- j
	}
	close(jobs)
	wg.Wait()
	wr, err := ndj.NewWriter(*out)
	if err != nil {
		log.Fatal(err)
	}
	for _, rs := range results {
		for _, m := range rs {
			wr.Write(m)
		}
	}
	if err := wr.Close(); err != nil {
		log.Fatal(err)
	}
}
