// psim runs schedules on the real swap service inside the simulated world
// (package l1) and writes one concatenated NDJSON trace.
package main

import (
	"bufio"
	"encoding/json"
	"flag"
	"fmt"
	"os"
	"path/filepath"
	"sync"
	"time"

	"github.com/elementsproject/peerswap/swap"
	"verif/harness/l1"
	"verif/harness/ndj"
	_ "verif/harness/quiet"
)

// die reports a machinery failure on stderr (the log package is silenced in harness runs)
func die(err error) {
	fmt.Fprintln(os.Stderr, "psim:", err)
	os.Exit(3)
}

func main() {
	in := flag.String("schedules", "schedules.ndjson", "NDJSON file, one schedule per line")
	out := flag.String("out", "trace.ndjson", "")
	tmp := flag.String("tmp", "", "scratch dir for node files")
	workers := flag.Int("workers", 8, "")
	tables := flag.String("tables", "", "write the FSM tables of the tree under test as JSON and exit")
	fast := flag.Bool("fast", true, "compressed waits")
	retx := flag.Duration("retransmit", time.Hour, "retransmission interval of opening_tx_broadcasted (C22 runs use a few ms)")
	offset := flag.Int("offset", 0, "trace numbers start at offset+1 (the engine runs long schedule lists in batches)")
	flag.Parse()
	if *tables != "" {
		b, _ := json.MarshalIndent(swap.VerifTables(), "", " ")
		if err := os.WriteFile(*tables, b, 0o644); err != nil {
			die(err)
		}
		return
	}
	if *fast {
		// the claim-payment retry loop gets an unbounded time budget; the simulated chain ends it after 12 attempts (chain.go)
		swap.VerifSetTiming(true, 300*time.Millisecond, 100*time.Microsecond, *retx)
	}
	f, err := os.Open(*in)
	if err != nil {
		die(err)
	}
	var scheds []*l1.Schedule
	sc := bufio.NewScanner(f)
	sc.Buffer(make([]byte, 1<<20), 1<<26)
	for sc.Scan() {
		if len(sc.Bytes()) == 0 {
			continue
		}
		s := &l1.Schedule{}
		if err := json.Unmarshal(sc.Bytes(), s); err != nil {
			die(fmt.Errorf("bad schedule: %v: %.300s", err, sc.Text()))
		}
		scheds = append(scheds, s)
	}
	if err := sc.Err(); err != nil {
		die(err)
	}
	f.Close()
	if *tmp == "" {
		*tmp, _ = os.MkdirTemp("", "psim")
		defer os.RemoveAll(*tmp)
	}
	// each worker writes its own part; parts are concatenated in schedule order
	parts := make([]string, len(scheds))
	var wg sync.WaitGroup
	jobs := make(chan int)
	for k := 0; k < *workers; k++ {
		wg.Add(1)
		go func() {
			defer wg.Done()
			for i := range jobs {
				s := scheds[i]
				cfg := l1.DefaultConfig()
				if s.Cfg != nil {
					cfg = *s.Cfg
				}
				p := filepath.Join(*tmp, fmt.Sprintf("part-%06d.ndjson", i))
				w, err := ndj.NewWriter(p)
				if err != nil {
					die(err)
				}
				if cfg.Retransmit {
					// only C22 schedules use real-time retransmission ticks
				}
				world := l1.NewWorld(*offset+i+1, filepath.Join(*tmp, fmt.Sprintf("node-%06d", i)), cfg, w)
				l1.RunSchedule(world, s)
				world.Close()
				w.Close()
				parts[i] = p
			}
		}()
	}
	for i := range scheds {
		jobs <- i
	}
	close(jobs)
	wg.Wait()
	o, err := os.Create(*out)
	if err != nil {
		die(err)
	}
	bw := bufio.NewWriterSize(o, 1<<20)
	for _, p := range parts {
		b, err := os.ReadFile(p)
		if err != nil {
			die(err)
		}
		bw.Write(b)
		os.Remove(p)
	}
	bw.Flush()
	o.Close()
}
