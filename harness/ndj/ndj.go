// Package ndj: newline-delimited JSON helpers shared by the harness commands.
package ndj

import (
	"bufio"
	"encoding/json"
	"os"
	"sync"
)

// ReadAll reads every line of an NDJSON file into generic maps.
func ReadAll(path string) ([]map[string]any, error) {
	f, err := os.Open(path)
	if err != nil {
		return nil, err
	}
	defer f.Close()
	var out []map[string]any
	sc := bufio.NewScanner(f)
	sc.Buffer(make([]byte, 1<<20), 1<<26)
	for sc.Scan() {
		if len(sc.Bytes()) == 0 {
			continue
		}
		m := map[string]any{}
		dec := json.NewDecoder(bytesReader(sc.Bytes()))
		dec.UseNumber()
		if err := dec.Decode(&m); err != nil {
			return nil, err
		}
		out = append(out, m)
	}
	return out, sc.Err()
}

// Writer is a concurrency-safe NDJSON writer.
type Writer struct {
	mu sync.Mutex
	f  *os.File
	w  *bufio.Writer
	N  int
}

func NewWriter(path string) (*Writer, error) {
	f, err := os.Create(path)
	if err != nil {
		return nil, err
	}
	return &Writer{f: f, w: bufio.NewWriterSize(f, 1<<20)}, nil
}

func (w *Writer) Write(v any) {
	b, err := json.Marshal(v)
	if err != nil {
		panic(err)
	}
	w.mu.Lock()
	w.w.Write(b)
	w.w.WriteByte('\n')
	w.N++
	w.mu.Unlock()
}

func (w *Writer) Close() error {
	w.mu.Lock()
	defer w.mu.Unlock()
	if err := w.w.Flush(); err != nil {
		return err
	}
	return w.f.Close()
}

// Int reads a JSON number field as int64.
func Int(m map[string]any, k string) int64 {
	switch v := m[k].(type) {
	case json.Number:
		i, _ := v.Int64()
		return i
	case float64:
		return int64(v)
	}
	return 0
}

func Str(m map[string]any, k string) string { s, _ := m[k].(string); return s }
func Bool(m map[string]any, k string) bool  { b, _ := m[k].(bool); return b }
