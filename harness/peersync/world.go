// Package psh drives the REAL peersync.PeerSync / Store (bbolt) / poller and
// the real policy.Policy with operation schedules and records, after every
// operation, the messages sent and the projected abstract state of
// spec/PeerSync.tla (C28, peer-sync clause of C26).
//
// Time: the code reads time.Now(); nothing here sleeps. The logical clock
// advances by moving every stored timestamp (through the Store API) and the
// poller's request-time map (verif export) into the past. One logical unit is
// Unit = 5 s; a Tick(d) shifts by d*Unit + Eps so that a logical age equal to a
// bound is, for the code's strict comparisons, just beyond it.
package psh

import (
	"bytes"
	"context"
	"crypto/sha256"
	"encoding/hex"
	"encoding/json"
	"errors"
	"fmt"
	"os"
	"path/filepath"
	"sort"
	"sync"
	"time"

	"github.com/elementsproject/peerswap/messages"
	"github.com/elementsproject/peerswap/peersync"
	"github.com/elementsproject/peerswap/policy"
	"github.com/elementsproject/peerswap/premium"
	bolt "go.etcd.io/bbolt"
)

const (
	Unit  = 5 * time.Second
	Eps   = 10 * time.Millisecond
	Never = int64(-999999)
)

// ---- schedule format (shared with PeerSyncMC's export) ----

type Cap struct {
	Ver     int64    `json:"ver"`
	Assets  []string `json:"assets"`
	Allowed bool     `json:"allowed"`
	Rates   []int64  `json:"rates"`
}

type Pay struct {
	Valid bool   `json:"valid"`
	Bad   string `json:"bad"`
	Cap   Cap    `json:"cap"`
}

type Rec struct {
	Cap     Cap    `json:"cap"`
	Status  string `json:"status"`
	ObsAge  int64  `json:"obsAge"`
	PollAge int64  `json:"pollAge"`
	Addr    string `json:"addr"`
}

type Op struct {
	K    string `json:"k"`
	P    string `json:"p"`
	D    int64  `json:"d"`
	Flag bool   `json:"flag"`
	Pay  *Pay   `json:"pay,omitempty"` // RxPoll, RxReq
	Rec  *Rec   `json:"rec,omitempty"` // Inject
}

type Schedule struct {
	Ops  []Op   `json:"ops"`
	Mode string `json:"mode,omitempty"` // "" = direct (synchronous entry points), "live" = Start() and the message channel
	Src  string `json:"src,omitempty"`
}

func ZeroCap() Cap { return Cap{Assets: []string{}, Rates: []int64{0, 0, 0, 0}} }

func (c *Cap) norm() {
	if c.Assets == nil {
		c.Assets = []string{}
	}
	if len(c.Rates) != 4 {
		r := make([]int64, 4)
		copy(r, c.Rates)
		c.Rates = r
	}
	sort.Strings(c.Assets)
}

// Norm keeps the payload / record only where the operation has one (the trace
// specification supplies the defaults elsewhere) and completes them.
func (o *Op) Norm() {
	if o.K == "RxPoll" || o.K == "RxReq" {
		if o.Pay == nil {
			o.Pay = &Pay{}
		}
		o.Pay.Cap.norm()
	} else {
		o.Pay = nil
	}
	if o.K == "Inject" {
		if o.Rec == nil {
			o.Rec = &Rec{ObsAge: -1, PollAge: -1}
		}
		o.Rec.Cap.norm()
		if o.Rec.Status == "" {
			o.Rec.Status = "unknown"
		}
	} else {
		o.Rec = nil
	}
}

// ---- trace format ----

type MsgJ struct {
	To   string `json:"to"`
	Type string `json:"type"`
	Ver  int64  `json:"ver"`
}

type RecJ struct {
	P      string `json:"p"`
	Cap    Cap    `json:"cap"`
	Status string `json:"status"`
	Obs    int64  `json:"obs"`
	Poll   int64  `json:"poll"`
	Addr   string `json:"addr"`
}

type ReqJ struct {
	P string `json:"p"`
	T int64  `json:"t"`
}

type StateJ struct {
	Clock   int64    `json:"clock"`
	Conn    []string `json:"conn"`
	Susp    []string `json:"susp"`
	Stored  []RecJ   `json:"stored"`
	LastReq []ReqJ   `json:"lastReq"`
	Lf      bool     `json:"lf"`
}

type ObJ struct {
	Msgs    []MsgJ   `json:"msgs"`
	Compat  []string `json:"compat"`  // HasCompatiblePeer(p) true
	Compat2 []string `json:"compat2"` // keys of CompatiblePeers()
	Fix     bool     `json:"fix"`
	FixDiff []string `json:"fixdiff,omitempty"`
}

type MetaJ struct {
	Own     int64  `json:"own"`
	PollIv  int64  `json:"pollIv"`
	ReqIv   int64  `json:"reqIv"`
	Timeout int64  `json:"timeout"`
	Mode    string `json:"mode"`
	Src     string `json:"src"`
}

type Line struct {
	T    int    `json:"t"`
	I    int    `json:"i"`
	Op   Op     `json:"op"`
	Ob   ObJ    `json:"ob"`
	St   StateJ `json:"st"`
	Meta *MetaJ `json:"meta,omitempty"` // on the Reset line
}

// ---- simulated Lightning node ----

type sent struct {
	to      peersync.PeerID
	typ     messages.MessageType
	payload []byte
}

type simLN struct {
	mu    sync.Mutex
	conn  map[string]bool // by peer name
	w     *World
	sends []sent
	ch    chan peersync.CustomMessage
	fail  bool // ListPeers fails
}

func (l *simLN) SendCustomMessage(_ context.Context, to peersync.PeerID, t messages.MessageType, payload []byte) error {
	l.mu.Lock()
	defer l.mu.Unlock()
	l.sends = append(l.sends, sent{to, t, append([]byte(nil), payload...)})
	return nil
}

func (l *simLN) SubscribeCustomMessages(context.Context) (<-chan peersync.CustomMessage, error) {
	return l.ch, nil
}

func (l *simLN) Stop() error { return nil }

func (l *simLN) ListPeers(context.Context) ([]peersync.PeerID, error) {
	l.mu.Lock()
	defer l.mu.Unlock()
	if l.fail {
		return nil, errors.New("rpc unavailable")
	}
	out := make([]peersync.PeerID, 0, len(l.conn))
	for _, n := range l.w.names {
		if l.conn[n] {
			out = append(out, l.w.id(n))
		}
	}
	return out, nil
}

func (l *simLN) drain() []sent {
	l.mu.Lock()
	defer l.mu.Unlock()
	s := l.sends
	l.sends = nil
	return s
}

// ---- world ----

type World struct {
	dir    string
	dbPath string
	polPth string
	names  []string // peer universe
	ids    map[string]peersync.PeerID
	byKey  map[string]string
	store  *peersync.Store
	ps     *peersync.PeerSync
	pol    *policy.Policy
	ln     *simLN
	clock  int64
	live   bool
	cancel context.CancelFunc
	ctx    context.Context
}

func pubkey(name string) string {
	h := sha256.Sum256([]byte("peersync-verif-" + name))
	return "02" + hex.EncodeToString(h[:])
}

func (w *World) id(name string) peersync.PeerID { return w.ids[name] }

func (w *World) name(key string) string {
	if n, ok := w.byKey[key]; ok {
		return n
	}
	return "?" + key
}

func must(err error) {
	if err != nil {
		panic(err)
	}
}

func NewWorld(base string, names []string, live bool) *World {
	dir, err := os.MkdirTemp(base, "w")
	must(err)
	w := &World{dir: dir, dbPath: filepath.Join(dir, "peers.db"), polPth: filepath.Join(dir, "policy.conf"),
		names: names, ids: map[string]peersync.PeerID{}, byKey: map[string]string{}, live: live}
	for _, n := range names {
		k := pubkey(n)
		id, err := peersync.NewPeerID(k)
		must(err)
		w.ids[n] = id
		w.byKey[k] = n
	}
	w.ln = &simLN{conn: map[string]bool{}, w: w}
	w.open(false)
	return w
}

// open (re)creates policy, store and PeerSync from what is on disk.
func (w *World) open(initialSync bool) {
	var err error
	w.pol, err = policy.CreateFromFile(w.polPth)
	must(err)
	w.store, err = peersync.NewStore(w.dbPath)
	must(err)
	if nosync {
		w.store.VerifNoSync()
	}
	node, _ := peersync.NewPeerID(pubkey("self"))
	w.ln.ch = make(chan peersync.CustomMessage)
	w.ps = peersync.NewPeerSync(node, w.store, w.ln, w.pol, []string{"btc", "lbtc"}, nil)
	w.ctx, w.cancel = context.WithCancel(context.Background())
	if w.live {
		// the real start-up path: initial sync, poll/cleanup tickers (first tick
		// after 10 s; a schedule lives for milliseconds), handler goroutine
		must(w.ps.Start(w.ctx))
	} else if initialSync {
		if err := w.ps.VerifInitialSync(w.ctx); err != nil && !w.listFail() {
			panic(err)
		}
	}
}

func (w *World) listFail() bool {
	w.ln.mu.Lock()
	defer w.ln.mu.Unlock()
	return w.ln.fail
}

func (w *World) shutdown() {
	w.cancel()
	must(w.store.Close())
}

func (w *World) Close() {
	w.shutdown()
	os.RemoveAll(w.dir)
}

var nosync = os.Getenv("VERIF_PEERSYNC_FSYNC") == ""

func (w *World) Meta(mode, src string) MetaJ {
	p, r, t := w.ps.VerifIntervals()
	return MetaJ{Own: int64(w.ps.VerifVersion()), PollIv: int64(p / Unit), ReqIv: int64(r / Unit), Timeout: int64(t / Unit), Mode: mode, Src: src}
}

// ---- payloads ----

func assetsWire(c Cap, i int) []string {
	out := make([]string, len(c.Assets))
	for k, a := range c.Assets {
		if (i+k)%2 == 1 {
			out[k] = lower(a) // the wire form is case-insensitive
		} else {
			out[k] = a
		}
	}
	return out
}

func lower(s string) string { return string(bytes.ToLower([]byte(s))) }

func payload(p Pay, salt int) []byte {
	if !p.Valid {
		switch p.Bad {
		case "json":
			return []byte(`{"version": 7, "assets": [`)
		case "rate":
			return []byte(`{"version":7,"assets":["BTC"],"peer_allowed":true,"btc_swap_in_premium_rate_ppm":1000001}`)
		default:
			return []byte(`{"version":7,"assets":["FUTURECOIN"],"peer_allowed":true}`)
		}
	}
	dto := peersync.PollMessageDTO{
		Version:                   uint64(p.Cap.Ver),
		Assets:                    assetsWire(p.Cap, salt),
		PeerAllowed:               p.Cap.Allowed,
		BTCSwapInPremiumRatePPM:   p.Cap.Rates[0],
		BTCSwapOutPremiumRatePPM:  p.Cap.Rates[1],
		LBTCSwapInPremiumRatePPM:  p.Cap.Rates[2],
		LBTCSwapOutPremiumRatePPM: p.Cap.Rates[3],
	}
	b, err := json.Marshal(dto)
	must(err)
	return b
}

func capability(c Cap) *peersync.PeerCapability {
	assets := make([]peersync.Asset, 0, len(c.Assets))
	for _, a := range c.Assets {
		as, err := peersync.NewAsset(a)
		must(err)
		assets = append(assets, as)
	}
	return peersync.NewPeerCapability(peersync.NewVersion(uint64(c.Ver)), assets, c.Allowed,
		premium.NewPPM(c.Rates[0]), premium.NewPPM(c.Rates[1]), premium.NewPPM(c.Rates[2]), premium.NewPPM(c.Rates[3]))
}

func isZeroCap(c Cap) bool {
	return c.Ver == 0 && len(c.Assets) == 0 && !c.Allowed && c.Rates[0] == 0 && c.Rates[1] == 0 && c.Rates[2] == 0 && c.Rates[3] == 0
}

// ---- operations ----

func (w *World) deliver(msg peersync.CustomMessage) {
	if !w.live {
		w.ps.VerifProcessMessage(w.ctx, msg)
		return
	}
	// live: through the subscription channel into the handler goroutine. The
	// channel is unbuffered and the handler is sequential, so once a second
	// (unknown-type, ignored) message has been accepted the first one has been
	// processed completely.
	w.ln.ch <- msg
	w.ln.ch <- peersync.CustomMessage{From: msg.From, Type: messages.MessageType(1), Payload: nil}
}

func (w *World) shiftStore(d time.Duration) {
	peers, err := w.store.GetAllPeerStates()
	must(err)
	for _, p := range peers {
		if t := p.LastPollAt(); !t.IsZero() {
			p.SetLastPollAt(t.Add(-d))
		}
		if t := p.LastObservedAt(); !t.IsZero() {
			p.SetLastObservedAt(t.Add(-d))
		}
		must(w.store.SavePeerState(p))
	}
}

func rawDump(path string) map[string]string {
	db, err := bolt.Open(path, 0o600, &bolt.Options{Timeout: time.Second, ReadOnly: true})
	must(err)
	defer db.Close()
	out := map[string]string{}
	must(db.View(func(tx *bolt.Tx) error {
		b := tx.Bucket([]byte("poll-list"))
		if b == nil {
			return nil
		}
		return b.ForEach(func(k, v []byte) error {
			out[string(k)] = string(v)
			return nil
		})
	}))
	return out
}

// restart closes everything, checks that re-saving every loaded record leaves
// the database bytes unchanged (save -> load -> save fixpoint), and reopens.
func (w *World) restart(initialSync bool) (bool, []string) {
	w.shutdown()
	raw1 := rawDump(w.dbPath)
	st, err := peersync.NewStore(w.dbPath)
	must(err)
	peers, err := st.GetAllPeerStates()
	must(err)
	for _, p := range peers {
		must(st.SavePeerState(p))
	}
	must(st.Close())
	raw2 := rawDump(w.dbPath)
	var diff []string
	for k, v := range raw1 {
		if raw2[k] != v {
			diff = append(diff, w.name(k))
		}
	}
	for k := range raw2 {
		if _, ok := raw1[k]; !ok {
			diff = append(diff, w.name(k))
		}
	}
	sort.Strings(diff)
	w.open(initialSync)
	return len(diff) == 0, diff
}

func (w *World) inject(name string, r Rec) {
	now := time.Now()
	p := peersync.NewPeer(w.id(name), r.Addr)
	if !isZeroCap(r.Cap) {
		p.UpdateCapability(capability(r.Cap))
	}
	p.SetStatus(peersync.PeerStatus(r.Status))
	p.SetLastObservedAt(time.Time{})
	if r.ObsAge >= 0 {
		p.SetLastObservedAt(now.Add(-time.Duration(r.ObsAge) * Unit))
	}
	if r.PollAge >= 0 {
		p.SetLastPollAt(now.Add(-time.Duration(r.PollAge) * Unit))
	}
	must(w.store.SavePeerState(p))
}

// Do performs one operation on the real code and returns the observation.
func (w *World) Do(op Op, salt int) ObJ {
	ob := ObJ{Fix: true}
	switch op.K {
	case "Reset":
	case "RxPoll":
		w.deliver(peersync.CustomMessage{From: w.id(op.P), Type: messages.MESSAGETYPE_POLL, Payload: payload(*op.Pay, salt)})
	case "RxReq":
		w.deliver(peersync.CustomMessage{From: w.id(op.P), Type: messages.MESSAGETYPE_REQUEST_POLL, Payload: payload(*op.Pay, salt)})
	case "PollAll":
		if op.Flag {
			w.ps.ForcePollAllPeers(w.ctx)
		} else {
			w.ps.PollAllPeers(w.ctx)
		}
	case "Cleanup":
		if err := w.ps.VerifCleanupExpired(w.ctx); err != nil && !w.listFail() {
			panic(err)
		}
	case "Restart":
		ob.Fix, ob.FixDiff = w.restart(op.Flag)
	case "Connect":
		w.ln.mu.Lock()
		w.ln.conn[op.P] = true
		w.ln.mu.Unlock()
	case "Disconnect":
		w.ln.mu.Lock()
		delete(w.ln.conn, op.P)
		w.ln.mu.Unlock()
	case "ListFail":
		w.ln.mu.Lock()
		w.ln.fail = op.Flag
		w.ln.mu.Unlock()
	case "Tick":
		d := time.Duration(op.D)*Unit + Eps
		w.shiftStore(d)
		w.ps.VerifShiftRequestTimes(d)
		w.clock += op.D
	case "Suspect":
		if !w.pol.IsPeerSuspicious(pubkey(op.P)) {
			must(w.pol.AddToSuspiciousPeerList(pubkey(op.P)))
		}
	case "Inject":
		w.inject(op.P, *op.Rec)
	default:
		panic("unknown op " + op.K)
	}
	ob.Msgs = []MsgJ{}
	for _, s := range w.ln.drain() {
		m := MsgJ{To: w.name(s.to.String()), Type: fmt.Sprintf("type-%d", int(s.typ)), Ver: -1}
		switch s.typ {
		case messages.MESSAGETYPE_POLL:
			m.Type = "poll"
		case messages.MESSAGETYPE_REQUEST_POLL:
			m.Type = "request_poll"
		}
		var dto peersync.PollMessageDTO
		if json.Unmarshal(s.payload, &dto) == nil {
			m.Ver = int64(dto.Version)
		}
		ob.Msgs = append(ob.Msgs, m)
	}
	sort.Slice(ob.Msgs, func(i, j int) bool {
		if ob.Msgs[i].To != ob.Msgs[j].To {
			return ob.Msgs[i].To < ob.Msgs[j].To
		}
		return ob.Msgs[i].Type < ob.Msgs[j].Type
	})
	ob.Compat, ob.Compat2 = []string{}, []string{}
	for _, n := range w.names {
		if w.ps.HasCompatiblePeer(pubkey(n)) {
			ob.Compat = append(ob.Compat, n)
		}
	}
	cp, err := w.ps.CompatiblePeers()
	must(err)
	for k := range cp {
		ob.Compat2 = append(ob.Compat2, w.name(k))
	}
	sort.Strings(ob.Compat2)
	return ob
}

// Project reads the abstract state back from the real objects.
func (w *World) Project() StateJ {
	now := time.Now()
	lt := func(t time.Time) int64 {
		if t.IsZero() {
			return Never
		}
		return w.clock - int64(now.Sub(t)/Unit)
	}
	st := StateJ{Clock: w.clock, Conn: []string{}, Susp: []string{}, Stored: []RecJ{}, LastReq: []ReqJ{}}
	w.ln.mu.Lock()
	for _, n := range w.names {
		if w.ln.conn[n] {
			st.Conn = append(st.Conn, n)
		}
	}
	st.Lf = w.ln.fail
	w.ln.mu.Unlock()
	for _, n := range w.names {
		if w.pol.IsPeerSuspicious(pubkey(n)) {
			st.Susp = append(st.Susp, n)
		}
	}
	peers, err := w.store.GetAllPeerStates()
	must(err)
	for _, p := range peers {
		r := RecJ{P: w.name(p.ID().String()), Cap: ZeroCap(), Status: string(p.Status()),
			Obs: lt(p.LastObservedAt()), Poll: lt(p.LastPollAt()), Addr: p.Address()}
		if c := p.Capability(); c != nil {
			r.Cap = Cap{Ver: int64(c.Version().Value()), Assets: uniq(c.SupportedAssetStrings()), Allowed: c.IsAllowed(),
				Rates: []int64{c.PremiumRateValue(premium.BTC, premium.SwapIn), c.PremiumRateValue(premium.BTC, premium.SwapOut),
					c.PremiumRateValue(premium.LBTC, premium.SwapIn), c.PremiumRateValue(premium.LBTC, premium.SwapOut)}}
		}
		st.Stored = append(st.Stored, r)
	}
	sort.Slice(st.Stored, func(i, j int) bool { return st.Stored[i].P < st.Stored[j].P })
	for k, t := range w.ps.VerifRequestTimes() {
		st.LastReq = append(st.LastReq, ReqJ{P: w.name(k), T: lt(t)})
	}
	sort.Slice(st.LastReq, func(i, j int) bool { return st.LastReq[i].P < st.LastReq[j].P })
	return st
}

func uniq(in []string) []string {
	out := []string{}
	seen := map[string]bool{}
	for _, s := range in {
		if !seen[s] {
			seen[s] = true
			out = append(out, s)
		}
	}
	sort.Strings(out)
	return out
}

// Run executes one schedule on a fresh world and returns its trace lines. A
// schedule that took longer than the drift budget is reported as slow (the
// caller reruns it): logical ages are read back with a tolerance of one Unit.
func Run(base string, t int, sc Schedule, names []string) (lines []Line, slow bool) {
	start := time.Now()
	w := NewWorld(base, names, sc.Mode == "live")
	defer w.Close()
	meta := w.Meta(sc.Mode, sc.Src)
	reset := Op{K: "Reset"}
	lines = append(lines, Line{T: t, I: 0, Op: reset, Ob: w.Do(reset, 0), St: w.Project(), Meta: &meta})
	for i, op := range sc.Ops {
		op.Norm()
		if op.K == "Restart" && w.live {
			op.Flag = true // Start() always runs the start-up request round
		}
		ob := w.Do(op, t+i)
		lines = append(lines, Line{T: t, I: i + 1, Op: op, Ob: ob, St: w.Project()})
	}
	return lines, time.Since(start) > 2*time.Second
}
