package duo

import (
	"crypto/rand"
	"crypto/sha256"
	"encoding/hex"
	"encoding/json"
	"errors"
	"fmt"
	"strings"
	"sync"
	"time"

	"github.com/elementsproject/peerswap/swap"
)

// Invoice is a simulated BOLT11 invoice. The payment request string is "lnsim" + hex(JSON of the public fields);
// the preimage is known to the issuer's Lightning node only and released to a payer when the payee settles.
type Invoice struct {
	Hash     string `json:"hash"`
	Msat     uint64 `json:"msat"`
	Cltv     int64  `json:"cltv"`
	Expiry   uint64 `json:"expiry"`
	Payee    string `json:"payee"` // A | B
	Kind     string `json:"kind"`  // fee | claim
	Swap     string `json:"swap"`
	Nonce    string `json:"nonce"`
	preimage string
	paid     bool
	issued   int64 // logical minute of creation
}

func (i *Invoice) Payreq() string {
	b, _ := json.Marshal(i)
	return "lnsim" + hex.EncodeToString(b)
}

func parsePayreq(p string) (*Invoice, error) {
	if !strings.HasPrefix(p, "lnsim") {
		return nil, errors.New("sim: not a payment request")
	}
	b, err := hex.DecodeString(p[5:])
	if err != nil {
		return nil, err
	}
	inv := &Invoice{}
	if err := json.Unmarshal(b, inv); err != nil {
		return nil, err
	}
	return inv, nil
}

func randHex(n int) string {
	b := make([]byte, n)
	rand.Read(b)
	return hex.EncodeToString(b)
}

func hashOf(preimageHex string) string {
	b, _ := hex.DecodeString(preimageHex)
	h := sha256.Sum256(b)
	return hex.EncodeToString(h[:])
}

type payment struct {
	Status string // none | inflight | succeeded | failed
	HTLCs  int
	Payer  string
}

type notifier struct {
	n    *Node
	swap string
	hash string
	kind swap.InvoiceType
	done bool
}

// SimLN is the Lightning layer shared by both nodes: one channel A<->B. Its state survives restarts of peerswap
// (the Lightning daemons keep running); settlement does not need the payee's peerswap process.
type SimLN struct {
	w        *World
	mu       sync.Mutex
	Invoices map[string]*Invoice // by hash
	Pays     map[string]*payment // by hash (the payer is the node that is not the payee)
	notif    []*notifier
}

func newSimLN(w *World) *SimLN {
	return &SimLN{w: w, Invoices: map[string]*Invoice{}, Pays: map[string]*payment{}}
}

func (l *SimLN) pay(hash string) *payment {
	p, ok := l.Pays[hash]
	if !ok {
		p = &payment{Status: "none"}
		l.Pays[hash] = p
	}
	return p
}

// status of the claim / fee payment of the (only) swap: ground truth for the snapshot.
func (l *SimLN) truth(kind string) (status string, paid bool) {
	l.mu.Lock()
	defer l.mu.Unlock()
	status = "none"
	for _, h := range sortedKeys(l.Invoices) {
		inv := l.Invoices[h]
		if inv.Kind != kind {
			continue
		}
		if inv.paid {
			paid = true
		}
		if p, ok := l.Pays[h]; ok && p.Status != "none" {
			if status == "none" || p.Status == "succeeded" || (p.Status == "inflight" && status != "succeeded") {
				status = p.Status
			}
		}
	}
	return
}

// invoiceTruth: is the invoice with this payment hash settled, and what is the status of its payment.
func (l *SimLN) invoiceTruth(hash string) (bool, string) {
	l.mu.Lock()
	defer l.mu.Unlock()
	paid, st := false, "none"
	if inv := l.Invoices[hash]; inv != nil {
		paid = inv.paid
	}
	if p := l.Pays[hash]; p != nil {
		st = p.Status
	}
	return paid, st
}

// lnFacade is the swap.LightningClient handed to one node process.
type lnFacade struct {
	l   *SimLN
	n   *Node
	cbs []func(swapId string, invoiceType swap.InvoiceType)
}

func (f *lnFacade) w() *World { return f.l.w }

func (f *lnFacade) DecodePayreq(payreq string) (string, uint64, int64, error) {
	if o := f.w().gate(f.n, "ln.decode"); o != "" {
		return "", 0, 0, errors.New("sim: decodepay failed")
	}
	inv, err := parsePayreq(payreq)
	if err != nil {
		return "", 0, 0, err
	}
	return inv.Hash, inv.Msat, inv.Cltv, nil
}

func (f *lnFacade) PayInvoice(payreq string) (string, error) {
	return f.PayInvoiceViaChannel(payreq, "")
}

func (f *lnFacade) GetPayreq(msat uint64, preimage string, swapId string, memo string, it swap.InvoiceType, expiry, cltv uint64) (string, error) {
	if o := f.w().gate(f.n, "ln.invoice"); o != "" {
		return "", errors.New("sim: invoice failed")
	}
	inv := &Invoice{Hash: hashOf(preimage), Msat: msat, Cltv: int64(cltv), Expiry: expiry, Payee: f.n.name, Kind: it.String(), Swap: swapId, Nonce: randHex(4),
		preimage: preimage, issued: f.w().Now}
	f.l.mu.Lock()
	f.l.Invoices[inv.Hash] = inv
	f.l.mu.Unlock()
	f.w().Emit("invoice", Ev{"n": f.n.name, "k": inv.Kind, "msat": inv.Msat, "hash": inv.Hash[:8], "expiry": expiry, "cltv": cltv})
	f.w().after(f.n, "ln.invoice")
	return inv.Payreq(), nil
}

func (l *SimLN) expired(inv *Invoice) bool {
	return inv != nil && l.w.Now*60 >= inv.issued*60+int64(inv.Expiry)
}

// settleLocked: the payee's Lightning node settles the HTLC: the invoice is paid, the payer's payment succeeded.
func (l *SimLN) settleLocked(inv *Invoice, p *payment) []*notifier {
	inv.paid = true
	p.Status = "succeeded"
	var fire []*notifier
	for _, nt := range l.notif {
		if nt.hash == inv.Hash && !nt.done {
			fire = append(fire, nt)
		}
	}
	return fire
}

func (f *lnFacade) PayInvoiceViaChannel(payreq string, channel string) (string, error) {
	o := f.w().gate(f.n, "ln.payfee")
	inv, err := parsePayreq(payreq)
	if err != nil {
		return "", err
	}
	f.l.mu.Lock()
	p := f.l.pay(inv.Hash)
	p.Payer = f.n.name
	known := f.l.Invoices[inv.Hash]
	res := "ok"
	settled := false
	var fire []*notifier
	switch {
	case o != "":
		res = "err"
		if p.Status == "none" {
			p.Status = "failed"
		}
	case known == nil || known.Payee == f.n.name:
		res = "noroute"
		p.Status = "failed"
	case f.l.expired(known) && p.Status != "succeeded":
		res = "expired"
		p.Status = "failed"
	case p.Status != "succeeded":
		p.HTLCs++
		settled = true
		fire = f.l.settleLocked(known, p)
	}
	f.l.mu.Unlock()
	f.w().Emit("payfee", Ev{"n": f.n.name, "res": res, "msat": inv.Msat, "payee": inv.Payee, "scid": channel})
	if settled {
		f.w().Emit("paid", Ev{"n": known.Payee, "k": "fee"})
	}
	for _, nt := range fire {
		f.l.fire(nt)
	}
	f.w().after(f.n, "ln.payfee")
	if res != "ok" {
		return "", errors.New("sim: fee payment failed: " + res)
	}
	return known.preimage, nil
}

func (f *lnFacade) AddPaymentCallback(cb func(swapId string, invoiceType swap.InvoiceType)) {
	f.cbs = append(f.cbs, cb)
}

func (f *lnFacade) AddPaymentNotifier(swapId string, payreq string, it swap.InvoiceType) {
	f.w().gate(f.n, "ln.notifier")
	inv, err := parsePayreq(payreq)
	if err != nil {
		return
	}
	nt := &notifier{n: f.n, swap: swapId, hash: inv.Hash, kind: it}
	f.l.mu.Lock()
	f.l.notif = append(f.l.notif, nt)
	mine := f.l.Invoices[inv.Hash]
	paid := mine != nil && mine.paid
	f.l.mu.Unlock()
	if paid {
		f.l.fire(nt)
	}
	f.w().after(f.n, "ln.notifier")
}

func (l *SimLN) liveNotifiers(n *Node) []string {
	l.mu.Lock()
	defer l.mu.Unlock()
	out := []string{}
	for _, nt := range l.notif {
		if nt.n == n && !nt.done {
			out = append(out, nt.kind.String())
		}
	}
	return out
}

func (l *SimLN) fire(nt *notifier) {
	if nt.done || nt.n.dead() {
		return
	}
	nt.done = true
	l.w.post(nt.n, func() {
		if nt.n.dead() {
			return
		}
		l.w.Emit("cb", Ev{"n": nt.n.name, "k": "paid-" + nt.kind.String(), "ok": true})
		for _, cb := range nt.n.ln.cbs {
			cb(nt.swap, nt.kind)
		}
	})
}

func (f *lnFacade) RebalancePayment(payreq string, channel string, maxTotalCLTVDelta uint32) (string, error) {
	o := f.w().gate(f.n, "ln.payclaim")
	inv, err := parsePayreq(payreq)
	if err != nil {
		return "", err
	}
	// Backstop: the retry loop normally ends after 12 attempts through the height lookup (chain.go). Code that no
	// longer looks the height up inside the loop is ended by the loop's own (compressed) time budget instead.
	if f.w().occOf(f.n, "ln.payclaim") > 14 {
		time.Sleep(400 * time.Millisecond)
		return "", errors.New("sim: payment retry budget exhausted")
	}
	f.l.mu.Lock()
	p := f.l.pay(inv.Hash)
	p.Payer = f.n.name
	known := f.l.Invoices[inv.Hash]
	status := p.Status
	f.l.mu.Unlock()
	ev := Ev{"n": f.n.name, "msat": inv.Msat, "hash": inv.Hash[:8], "payee": inv.Payee, "cltv": inv.Cltv, "maxdelta": maxTotalCLTVDelta, "scid": channel}
	switch status {
	case "succeeded": // CLN returns the completed payment
		ev["res"] = "dup_ok"
		f.w().Emit("htlc", ev)
		return known.preimage, nil
	case "inflight":
		ev["res"] = "inflight_err"
		f.w().Emit("htlc", ev)
		return "", errors.New("sim: payment already in flight")
	}
	delta := inv.Cltv + 1
	if maxTotalCLTVDelta != 0 && (inv.Cltv < 0 || uint64(delta) > uint64(maxTotalCLTVDelta)) {
		ev["res"] = "route_refused"
		f.w().Emit("htlc", ev)
		return "", fmt.Errorf("sim: invoice requires CLTV delta %d, maximum is %d", delta, maxTotalCLTVDelta)
	}
	var fire []*notifier
	f.l.mu.Lock()
	p.HTLCs++
	switch {
	case known == nil || known.Payee == f.n.name || known.preimage == "" || f.l.expired(known):
		p.Status = "failed" // nobody can settle this hash
		o = "fail"
	case o == "":
		fire = f.l.settleLocked(known, p)
	case o == "err_pending": // the call returns an error while the HTLC stays in flight (the scheduler resolves it later)
		p.Status = "inflight"
	default:
		p.Status = "failed"
		o = "fail"
	}
	f.l.mu.Unlock()
	ev["res"] = map[string]string{"": "ok", "fail": "fail", "err_pending": "pending"}[o]
	f.w().Emit("htlc", ev)
	if o == "" {
		f.w().Emit("paid", Ev{"n": known.Payee, "k": "claim"})
	}
	for _, nt := range fire {
		f.l.fire(nt)
	}
	f.w().after(f.n, "ln.payclaim")
	if o == "" {
		return known.preimage, nil
	}
	return "", errors.New("sim: payment failed: " + o)
}

// ResolveHTLC settles or fails the in-flight claim payment (scheduler step).
func (l *SimLN) ResolveHTLC(settle bool) bool {
	l.mu.Lock()
	var hash string
	var fire []*notifier
	var payee string
	for _, h := range sortedKeys(l.Pays) {
		p := l.Pays[h]
		if p.Status != "inflight" {
			continue
		}
		inv := l.Invoices[h]
		hash = h
		if settle && inv != nil && inv.preimage != "" {
			fire = l.settleLocked(inv, p)
			payee = inv.Payee
		} else {
			p.Status = "failed"
			settle = false
		}
	}
	l.mu.Unlock()
	if hash == "" {
		return false
	}
	l.w.Emit("htlcres", Ev{"res": map[bool]string{true: "settled", false: "failed"}[settle]})
	if settle {
		l.w.Emit("paid", Ev{"n": payee, "k": "claim"})
	}
	for _, nt := range fire {
		l.fire(nt)
	}
	return true
}

func (f *lnFacade) RecoverClaimPayment(payreq string) (string, error) {
	o := f.w().gate(f.n, "ln.recover")
	inv, err := parsePayreq(payreq)
	if err != nil {
		return "", err
	}
	if o != "" {
		return "", errors.New("sim: listsendpays failed")
	}
	f.l.mu.Lock()
	p := f.l.pay(inv.Hash)
	known := f.l.Invoices[inv.Hash]
	st := p.Status
	f.l.mu.Unlock()
	f.w().Emit("lnrecover", Ev{"n": f.n.name, "res": st})
	switch st {
	case "succeeded":
		return known.preimage, nil
	case "none":
		return "", errors.New("claim payment was not found")
	case "inflight":
		return "", errors.New("claim payment is still pending")
	}
	return "", errors.New("claim payment already failed")
}

func (f *lnFacade) CanSpend(msat uint64) error {
	if o := f.w().gate(f.n, "ln.canspend"); o != "" {
		return errors.New("sim: payment size exceeds limit")
	}
	return nil
}

func (f *lnFacade) Implementation() string { return "CLN" }

func (f *lnFacade) SpendableMsat(scid string) (uint64, error) {
	if o := f.w().gate(f.n, "ln.spendable"); o != "" {
		return 0, errors.New("sim: listpeerchannels failed")
	}
	return 2000000000, nil
}

func (f *lnFacade) ReceivableMsat(scid string) (uint64, error) {
	if o := f.w().gate(f.n, "ln.receivable"); o != "" {
		return 0, errors.New("sim: listpeerchannels failed")
	}
	return 2000000000, nil
}

func (f *lnFacade) ProbePayment(scid string, msat uint64) (bool, string, error) {
	switch f.w().gate(f.n, "ln.probe") {
	case "":
		return true, "", nil
	case "fail":
		return false, "no route", nil
	}
	return false, "", errors.New("sim: probe rpc failed")
}
