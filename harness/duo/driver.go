package duo

import (
	"math/rand"
	"strings"

	"github.com/elementsproject/peerswap/messages"
)

// Step is one scheduler action (exported from TLC, appended by the closure, or drawn at random).
type Step struct {
	A    string     `json:"a"`              // init deliver drop dup block tick retx restart htlc flush dropall
	N    string     `json:"n,omitempty"`    // node: init / retx / restart
	Typ  string     `json:"typ,omitempty"`  // init: out | in
	D    string     `json:"d,omitempty"`    // deliver / drop / dup: AB | BA
	Nb   uint32     `json:"nb,omitempty"`   // block: number of blocks
	Incl bool       `json:"incl,omitempty"` // block: with the mempool
	K    string     `json:"k,omitempty"`    // htlc: settle | fail
	F    *FaultSpec `json:"f,omitempty"`
	C    *CrashSpec `json:"c,omitempty"`
}

// Schedule is one trace to produce.
type Schedule struct {
	Name   string  `json:"name"`
	Cfg    *Config `json:"cfg"`
	Steps  []Step  `json:"steps"`
	Closed bool    `json:"closed"` // the schedule ends with the fair closure
	Heal   bool    `json:"heal"`   // ... in which the network heals (else it stays dead)
	Random int     `json:"random"` // draw this many further steps at random (seeded) among the enabled ones
	Seed   int64   `json:"seed"`
	After  []Step  `json:"after"` // steps after the random ones (the closure)
}

// RunSchedule executes a schedule on a fresh world and records its trace.
func RunSchedule(w *World, s *Schedule) {
	w.line("reset", Ev{"name": s.Name, "chain": w.Cfg.Chain, "rates": Ev{"btc_out": w.Cfg.RateBtcOut, "btc_in": w.Cfg.RateBtcIn, "lbtc_out": w.Cfg.RateLbtcOut, "lbtc_in": w.Cfg.RateLbtcIn},
		"fee": w.Cfg.OpenFeeSat})
	if err := w.Open(); err != nil {
		w.line("fault", Ev{"what": "open: " + err.Error()})
		return
	}
	for _, name := range []string{"A", "B"} {
		if r := w.StartNode(name, false); r != "" {
			w.line("fault", Ev{"what": "start: " + r})
			return
		}
	}
	w.mu.Lock()
	w.evs = nil
	w.mu.Unlock()
	for i := range s.Steps {
		w.RunStep(&s.Steps[i])
	}
	if s.Random > 0 {
		rng := rand.New(rand.NewSource(s.Seed))
		for i := 0; i < s.Random; i++ {
			st := w.randomStep(rng)
			w.RunStep(&st)
		}
	}
	for i := range s.After {
		w.RunStep(&s.After[i])
	}
	w.line("end", Ev{"steps": w.stepNo, "closed": s.Closed, "heal": s.Heal})
}

// deliver hands the head of a queue to the receiving node's message handler.
func (w *World) deliver(dir string, pop bool) string {
	m := w.Net.head(dir, pop)
	if m == nil {
		return "noop"
	}
	to := dir[1:]
	nt := w.Net
	nd := w.Slot[to].node
	if nd.dead() { // the message is lost
		w.Emit("recv", Ev{"n": to, "k": m.Kind, "dup": false, "lk": w.leaks(m.Payload), "sid": m.Label, "res": "down", "pre": "", "to": "", "sent": []string{}})
		return "down"
	}
	nt.mu.Lock()
	dup := nt.seen[to][m.Digest] // the identical payload was handled before by a live process of the receiver
	nt.seen[to][m.Digest] = true
	nt.mu.Unlock()
	ev := Ev{"n": to, "k": m.Kind, "dup": dup, "lk": w.leaks(m.Payload), "sid": m.Label}
	if m.Kind == "cancel" && strings.Contains(string(m.Payload), "is already in use") {
		ev["why"] = "inuse" // the cancel that refuses a request carrying a known swap id
	}
	pre := ""
	if v, ok := nd.svc.VerifSnapshot()[w.idOf(m.Label)]; ok {
		pre = v.Current
		if pre == "" {
			pre = "-"
		}
	}
	w.Emit("dlv", Ev{"n": to, "k": m.Kind}) // the message reaches the node's inbox (before its handler runs)
	w.mu.Lock()
	mark := len(w.evs)
	w.mu.Unlock()
	var err error
	thex := messages.MessageTypeToHexString(messages.MessageType(m.Type))
	r := w.runIsolated(nd, func() { err = nd.msgr.handler(NodeKey(m.From), thex, m.Payload) })
	res := r
	if r == "" {
		res = classify(err)
	}
	// the receiver's first transition and what it sent while handling the message
	first, sent := "", []string{}
	w.mu.Lock()
	for _, e := range w.evs[mark:] {
		if e["n"] != to {
			continue
		}
		if e["e"] == "p" && first == "" && e["cur"] != pre && !(pre == "-" && e["cur"] == "") {
			first, _ = e["cur"].(string)
		}
		if e["e"] == "send" {
			sent = append(sent, e["k"].(string))
		}
	}
	w.mu.Unlock()
	ev["res"] = strings.SplitN(res, " |", 2)[0]
	ev["pre"] = pre
	ev["to"] = first
	ev["sent"] = sent
	w.Emit("recv", ev)
	if strings.HasPrefix(res, "panic") || res == "hang" {
		w.Emit("fault", Ev{"n": to, "what": ev["res"], "in": "msg-" + m.Kind})
	}
	return ev["res"].(string)
}

// RunStep applies one scheduler action and runs both nodes to quiescence.
func (w *World) RunStep(st *Step) {
	w.mu.Lock()
	w.fault = st.F
	w.crashAt = st.C
	w.gateOcc = map[string]int{}
	w.evs = nil
	w.stepNo++
	w.mu.Unlock()
	res := "ok"
	chain := w.Chain[w.Cfg.Chain]
	switch st.A {
	case "init":
		nd := w.Slot[st.N].node
		if nd.dead() {
			res = "down"
			break
		}
		var err error
		peer, me := NodeKey(Other(st.N)), NodeKey(st.N)
		r := w.runIsolated(nd, func() {
			if st.Typ == "out" {
				_, err = nd.svc.SwapOut(peer, w.Cfg.Chain, Scid, me, Amount, LimitPPM)
			} else {
				_, err = nd.svc.SwapIn(peer, w.Cfg.Chain, Scid, me, Amount, LimitPPM)
			}
		})
		if r != "" {
			res = strings.SplitN(r, " |", 2)[0]
			if res != "crash" {
				w.Emit("fault", Ev{"n": st.N, "what": res, "in": "init"})
			}
		} else if err != nil {
			res = "err:" + classify(err)
		}
	case "deliver":
		res = w.deliver(st.D, true)
	case "dup", "advdup": // dup: the honest network (only the retransmitted opening_tx_broadcasted); advdup: a node sends a message twice
		res = w.deliver(st.D, false)
	case "drop":
		if m := w.Net.head(st.D, true); m == nil {
			res = "noop"
		} else {
			w.Emit("lost", Ev{"n": st.D[1:], "k": m.Kind})
		}
	case "dropall":
		for _, d := range []string{"AB", "BA"} {
			for _, k := range w.Net.kinds(d) {
				w.Emit("lost", Ev{"n": d[1:], "k": k})
			}
		}
		if w.Net.clear() == 0 {
			res = "noop"
		}
	case "flush": // the network heals: everything queued is delivered, alternating directions, until both queues are empty
		for i := 0; i < 12; i++ {
			if len(w.Net.kinds("AB")) > 0 {
				w.deliver("AB", true)
			} else if len(w.Net.kinds("BA")) > 0 {
				w.deliver("BA", true)
			} else {
				break
			}
			w.drain()
		}
	case "block":
		chain.Blocks(st.Nb, st.Incl)
	case "tick":
		w.Now += 10
		for _, name := range []string{"A", "B"} {
			if w.up(name) {
				w.fireDue(name)
			}
		}
	case "retx":
		if !w.up(st.N) {
			res = "down"
		} else {
			nd := w.Slot[st.N].node
			k := 0
			r := w.runIsolated(nd, func() { k = nd.mgr.retxTick() })
			if r != "" {
				res = strings.SplitN(r, " |", 2)[0]
			} else if k == 0 {
				res = "noop"
			}
		}
	case "restart":
		w.StopNode(st.N)
		if r := w.StartNode(st.N, true); r != "" {
			res = "err:" + r
		}
	case "htlc":
		if !w.LN.ResolveHTLC(st.K == "settle") {
			res = "noop"
		}
	default:
		res = "skipped"
	}
	w.drain()
	w.mu.Lock()
	evs := w.evs
	w.evs = nil
	w.mu.Unlock()
	if evs == nil {
		evs = []Ev{}
	}
	w.line("step", Ev{"i": w.stepNo, "st": st, "res": res, "evs": evs, "q": w.Snapshot()})
}

// randomStep draws one enabled scheduler action (seeded): the random walks go deeper than the exhaustive bound.
func (w *World) randomStep(rng *rand.Rand) Step {
	type cand struct {
		st Step
		wt int
	}
	var cs []cand
	for _, dir := range []string{"AB", "BA"} {
		if ks := w.Net.kinds(dir); len(ks) > 0 {
			cs = append(cs, cand{Step{A: "deliver", D: dir}, 12}, cand{Step{A: "drop", D: dir}, 2})
			if ks[0] == "opening_tx_broadcasted" { // the honest network duplicates only what peerswap itself retransmits
				cs = append(cs, cand{Step{A: "dup", D: dir}, 3})
			}
		}
	}
	minc, win, csv := uint32(3), uint32(504), uint32(1008)
	if w.Cfg.Chain == "lbtc" {
		minc, win, csv = 2, 60, 10080
	}
	cs = append(cs, cand{Step{A: "block", Nb: minc, Incl: true}, 6}, cand{Step{A: "block", Nb: 1, Incl: false}, 1}, cand{Step{A: "block", Nb: win, Incl: false}, 1},
		cand{Step{A: "block", Nb: csv, Incl: true}, 1}, cand{Step{A: "tick"}, 2})
	for _, n := range []string{"A", "B"} {
		cs = append(cs, cand{Step{A: "restart", N: n}, 1})
		if w.up(n) { // a retransmission tick (changes nothing unless a retransmitter is alive)
			wt := 1
			if len(w.Slot[n].node.mgr.live()) > 0 {
				wt = 3
			}
			cs = append(cs, cand{Step{A: "retx", N: n}, wt})
		}
	}
	if st, _ := w.LN.truth("claim"); st == "inflight" {
		cs = append(cs, cand{Step{A: "htlc", K: "settle"}, 3}, cand{Step{A: "htlc", K: "fail"}, 2})
	}
	tot := 0
	for _, c := range cs {
		tot += c.wt
	}
	x := rng.Intn(tot)
	for _, c := range cs {
		if x < c.wt {
			return c.st
		}
		x -= c.wt
	}
	return Step{A: "tick"}
}
