package duo

import (
	"bytes"
	"crypto/sha256"
	"encoding/hex"
	"encoding/json"
	"errors"
	"fmt"

	"github.com/btcsuite/btcd/btcec/v2"
	"github.com/btcsuite/btcd/btcutil"
	"github.com/btcsuite/btcd/chaincfg"
	"github.com/btcsuite/btcd/chaincfg/chainhash"
	"github.com/btcsuite/btcd/wire"
	"github.com/elementsproject/peerswap/onchain"
	"github.com/elementsproject/peerswap/swap"
)

type nullEstimator struct{}

func (nullEstimator) EstimateFeePerKW(uint32) (btcutil.Amount, error) { return 1000, nil }
func (nullEstimator) Start() error                                     { return nil }

// RealBitcoin is the REAL Bitcoin validator / script builder of the repository.
var RealBitcoin = onchain.NewBitcoinOnChain(nullEstimator{}, 253, 253, &chaincfg.RegressionNetParams)

func simScript(p *swap.OpeningParams, csv uint32) string {
	return fmt.Sprintf("S|%s|%s|%s|%d", p.TakerPubkey, p.MakerPubkey, p.ClaimPaymentHash, csv)
}

func mustHex(s string) []byte { b, _ := hex.DecodeString(s); return b }

// buildOpening builds the opening transaction a wallet funds for the given swap parameters: a real wire.MsgTx on
// Bitcoin (validated by the REAL BitcoinOnChain on the other node), a structured record on Liquid. The swap output
// is at index 0, a change output follows.
func buildOpening(chain string, p *swap.OpeningParams, blindKeyHex string) (*SimTx, error) {
	tx := &SimTx{Kind: "opening", Chain: chain}
	change := p.Amount/2 + 7
	if chain == "btc" {
		m := wire.NewMsgTx(2)
		var prev chainhash.Hash
		copy(prev[:], mustHex(randHex(32)))
		m.AddTxIn(wire.NewTxIn(wire.NewOutPoint(&prev, 0), nil, nil))
		red, err := onchain.ParamsToTxScript(p, p.CSV)
		if err != nil {
			return nil, err
		}
		wp := sha256.Sum256(red)
		pk := append([]byte{0x00, 0x20}, wp[:]...)
		m.AddTxOut(wire.NewTxOut(int64(p.Amount), pk))
		tx.Outs = append(tx.Outs, SimOut{Amount: p.Amount, Script: hex.EncodeToString(pk)})
		cpk := append([]byte{0x00, 0x14}, mustHex(randHex(20))...)
		m.AddTxOut(wire.NewTxOut(int64(change), cpk))
		tx.Outs = append(tx.Outs, SimOut{Amount: change, Script: hex.EncodeToString(cpk)})
		var buf bytes.Buffer
		if err := m.Serialize(&buf); err != nil {
			return nil, err
		}
		tx.Hex = hex.EncodeToString(buf.Bytes())
		tx.ID = m.TxHash().String()
		return tx, nil
	}
	tx.Outs = append(tx.Outs, SimOut{Amount: p.Amount, Script: simScript(p, p.CSV), Asset: "policy", Blind: blindKeyHex})
	tx.Outs = append(tx.Outs, SimOut{Amount: change, Script: "P|" + randHex(20), Asset: "policy", Blind: blindKeyHex})
	body, _ := json.Marshal(struct {
		Outs  []SimOut `json:"outs"`
		Nonce string   `json:"nonce"`
	}{tx.Outs, randHex(8)})
	tx.Hex = hex.EncodeToString(body)
	h := sha256.Sum256(body)
	tx.ID = hex.EncodeToString(h[:])
	return tx, nil
}

func parseSimLiquidTx(txHex string) ([]SimOut, error) {
	b, err := hex.DecodeString(txHex)
	if err != nil {
		return nil, err
	}
	var body struct {
		Outs []SimOut `json:"outs"`
	}
	if err := json.Unmarshal(b, &body); err != nil {
		return nil, err
	}
	return body.Outs, nil
}

// simValidator: Bitcoin delegates to the REAL onchain.BitcoinOnChain; Liquid is a specification-level validator over
// simulated confidential transactions (the real Liquid validator is exercised by the `tx` engine).
type simValidator struct {
	w     *World
	n     *Node
	chain string
}

func (v *simValidator) TxIdFromHex(txHex string) (string, error) {
	if v.chain == "btc" {
		return RealBitcoin.TxIdFromHex(txHex)
	}
	b, err := hex.DecodeString(txHex)
	if err != nil {
		return "", err
	}
	h := sha256.Sum256(b)
	return hex.EncodeToString(h[:]), nil
}

func (v *simValidator) GetCSVHeight() uint32 {
	if v.chain == "btc" {
		return RealBitcoin.GetCSVHeight()
	}
	return onchain.LiquidCsv
}

func (v *simValidator) ValidateTx(p *swap.OpeningParams, txHex string) (bool, error) {
	if o := v.w.gate(v.n, "validate"); o != "" {
		return false, errors.New("sim: validator error")
	}
	var ok bool
	var err error
	if v.chain == "btc" {
		ok, err = RealBitcoin.ValidateTx(p, txHex)
	} else {
		ok, err = liquidSpecValidate(p, txHex)
	}
	v.w.Emit("validate", Ev{"n": v.n.name, "ok": ok && err == nil})
	return ok, err
}

func liquidSpecValidate(p *swap.OpeningParams, txHex string) (bool, error) {
	outs, err := parseSimLiquidTx(txHex)
	if err != nil {
		return false, err
	}
	want := simScript(p, p.CSV)
	bk := ""
	if p.BlindingKey != nil {
		bk = hex.EncodeToString(p.BlindingKey.Serialize())
	}
	for _, o := range outs {
		if o.Script == want {
			if o.Amount == p.Amount && o.Asset == "policy" && o.Blind != "" && o.Blind == bk {
				return true, nil
			}
			return false, errors.New("sim: opening output does not match")
		}
	}
	return false, errors.New("sim: opening output not found")
}

type simWallet struct {
	w     *World
	n     *Node
	chain string
}

func (s *simWallet) c() *SimChain { return s.w.Chain[s.chain] }

func (s *simWallet) SetLabel(txID, address, label string) error {
	if o := s.w.gate(s.n, "wallet.label"); o != "" {
		return errors.New("sim: label failed")
	}
	return nil
}

func (s *simWallet) outScript(p *swap.OpeningParams) (string, error) {
	if s.chain == "btc" {
		b, err := RealBitcoin.GetOutputScript(p)
		return hex.EncodeToString(b), err
	}
	return simScript(p, p.CSV), nil
}

func (s *simWallet) GetOutputScript(p *swap.OpeningParams) ([]byte, error) {
	sc, err := s.outScript(p)
	return []byte(sc), err
}

// CreateOpeningTransaction funds and BROADCASTS the opening transaction.
func (s *simWallet) CreateOpeningTransaction(p *swap.OpeningParams) (string, string, string, uint64, uint32, error) {
	if o := s.w.gate(s.n, "wallet.open"); o != "" {
		return "", "", "", 0, 0, errors.New("sim: funding failed")
	}
	bk := ""
	if p.BlindingKey != nil {
		bk = hex.EncodeToString(p.BlindingKey.Serialize())
	}
	tx, err := buildOpening(s.chain, p, bk)
	if err != nil {
		return "", "", "", 0, 0, err
	}
	tx.Owner = s.n.name
	tx.Hash = p.ClaimPaymentHash
	s.c().AddTx(tx)
	s.w.Emit("open", Ev{"n": s.n.name, "tx": clip(tx.ID, 12), "seq": tx.Seq, "vout": 0, "amt": p.Amount, "csv": p.CSV, "hash": clip(p.ClaimPaymentHash, 12), "blind": bk != ""})
	s.w.after(s.n, "wallet.open")
	return tx.Hex, "addr-opening", tx.ID, s.w.Cfg.OpenFeeSat, 0, nil
}

func (s *simWallet) findSwapOut(p *swap.OpeningParams, openingHex string) (*SimTx, int, error) {
	v := &simValidator{w: s.w, chain: s.chain}
	id, err := v.TxIdFromHex(openingHex)
	if err != nil {
		return nil, 0, err
	}
	tx := s.c().Get(id)
	if tx == nil {
		return nil, 0, errors.New("sim: opening transaction unknown to the chain")
	}
	want, err := s.outScript(p)
	if err != nil {
		return nil, 0, err
	}
	for i, o := range tx.Outs {
		if o.Script == want && o.Amount == p.Amount {
			return tx, i, nil
		}
	}
	return nil, 0, errors.New("sim: swap output not found in opening transaction")
}

func (s *simWallet) spend(kind string, p *swap.OpeningParams, cp *swap.ClaimParams, check func(tx *SimTx, vout int) error) (string, string, string, error) {
	gate := "wallet.spend." + kind
	if o := s.w.gate(s.n, gate); o != "" {
		s.w.Emit("spend", Ev{"n": s.n.name, "k": kind, "ok": false, "err": "planned"})
		return "", "", "", errors.New("sim: broadcast failed")
	}
	tx, vout, err := s.findSwapOut(p, cp.OpeningTxHex)
	if err == nil {
		err = check(tx, vout)
	}
	if err == nil && tx.Outs[vout].SpentBy != "" {
		err = errors.New("sim: txn-mempool-conflict (output already spent)")
	}
	if err != nil {
		s.w.Emit("spend", Ev{"n": s.n.name, "k": kind, "ok": false, "err": clip(err.Error(), 60)})
		return "", "", "", err
	}
	sp := &SimTx{ID: randHex(32), Hex: "", Kind: kind, Owner: s.n.name, Spends: fmt.Sprintf("%s:%d", tx.ID, vout),
		Outs: []SimOut{{Amount: tx.Outs[vout].Amount - 300, Script: "wallet-" + s.n.name}}}
	s.c().mu.Lock()
	tx.Outs[vout].SpentBy = sp.ID
	s.c().mu.Unlock()
	s.c().AddTx(sp)
	s.w.Emit("spend", Ev{"n": s.n.name, "k": kind, "ok": true, "seq": tx.Seq})
	s.w.after(s.n, gate)
	return sp.ID, "", "addr-" + s.n.name, nil
}

func verifySigner(sg swap.Signer, pubHex string) bool {
	if sg == nil {
		return false
	}
	d := sha256.Sum256([]byte("verif-signer-check"))
	sig, err := sg.Sign(d[:])
	if err != nil || sig == nil {
		return false
	}
	pkb, err := hex.DecodeString(pubHex)
	if err != nil {
		return false
	}
	pk, err := btcec.ParsePubKey(pkb)
	if err != nil {
		return false
	}
	return sig.Verify(d[:], pk)
}

func (s *simWallet) CreatePreimageSpendingTransaction(p *swap.OpeningParams, cp *swap.ClaimParams) (string, string, string, error) {
	return s.spend("preimage", p, cp, func(tx *SimTx, vout int) error {
		if hashOf(cp.Preimage) != p.ClaimPaymentHash {
			return errors.New("sim: preimage does not match the hash in the script")
		}
		if !verifySigner(cp.Signer, p.TakerPubkey) {
			return errors.New("sim: signature does not match the taker key")
		}
		return nil
	})
}

func (s *simWallet) CreateCsvSpendingTransaction(p *swap.OpeningParams, cp *swap.ClaimParams) (string, string, string, error) {
	return s.spend("csv", p, cp, func(tx *SimTx, vout int) error {
		if !verifySigner(cp.Signer, p.MakerPubkey) {
			return errors.New("sim: signature does not match the maker key")
		}
		if d := s.c().depth(tx.ID, uint32(vout), false); d < p.CSV {
			return fmt.Errorf("sim: non-BIP68-final (depth %d < csv %d)", d, p.CSV)
		}
		return nil
	})
}

func (s *simWallet) CreateCoopSpendingTransaction(p *swap.OpeningParams, cp *swap.ClaimParams, taker swap.Signer) (string, string, string, error) {
	return s.spend("coop", p, cp, func(tx *SimTx, vout int) error {
		if !verifySigner(cp.Signer, p.MakerPubkey) {
			return errors.New("sim: signature does not match the maker key")
		}
		if !verifySigner(taker, p.TakerPubkey) {
			return errors.New("sim: taker signature invalid")
		}
		return nil
	})
}

func (s *simWallet) NewAddress() (string, error)   { return "addr-" + s.n.name, nil }
func (s *simWallet) GetRefundFee() (uint64, error) { return 300, nil }
func (s *simWallet) GetFlatOpeningTXFee() (uint64, error) {
	if o := s.w.gate(s.n, "wallet.fee"); o != "" {
		return 0, errors.New("sim: fee estimation failed")
	}
	return s.w.Cfg.OpenFeeSat, nil
}
func (s *simWallet) GetAsset() string {
	if s.chain == "lbtc" {
		return LiquidAsset
	}
	return ""
}
func (s *simWallet) GetNetwork() string {
	if s.chain == "btc" {
		return BtcNetwork
	}
	return ""
}
func (s *simWallet) GetOnchainBalance() (uint64, error) {
	if o := s.w.gate(s.n, "wallet.balance"); o != "" {
		return 0, errors.New("sim: balance failed")
	}
	return 100000000, nil
}
