package duo

import (
	"errors"
	"fmt"
	"sync"
)

// SimOut is one output of a simulated transaction.
type SimOut struct {
	Amount  uint64 `json:"amount"`
	Script  string `json:"script"` // btc: hex of the real pkScript; lbtc: class string of the script parameters
	Asset   string `json:"asset"`
	Blind   string `json:"blind"`
	SpentBy string `json:"spent_by"`
}

// SimTx is a transaction known to the shared simulated chain.
type SimTx struct {
	ID     string   `json:"id"`
	Hex    string   `json:"-"`
	Chain  string   `json:"chain"`
	ConfAt uint32   `json:"conf_at"` // 0 = mempool
	Outs   []SimOut `json:"outs"`
	Kind   string   `json:"kind"`  // opening | preimage | coop | csv
	Owner  string   `json:"owner"` // A | B
	Spends string   `json:"spends"`
	Seq    int      `json:"seq"` // creation order on this chain
	Vout   int      `json:"vout"`
	Hash   string   `json:"hash"` // opening: the payment hash locked in the swap output
}

type confReg struct {
	swapID, txID  string
	vout          uint32
	start, window uint32
	done          bool
}
type csvReg struct {
	swapID, txID string
	vout         uint32
	start, csv   uint32
	done         bool
}

// SimChain is one simulated blockchain shared by both nodes.
type SimChain struct {
	w    *World
	Name string
	mu   sync.Mutex
	Base uint32
	Tip  uint32
	Txs  map[string]*SimTx
	nseq int
}

func newSimChain(w *World, name string, tip uint32) *SimChain {
	return &SimChain{w: w, Name: name, Base: tip, Tip: tip, Txs: map[string]*SimTx{}}
}

func (c *SimChain) MinConf() uint32 {
	if c.Name == "btc" {
		return 3
	}
	return 2
}

func (c *SimChain) AddTx(tx *SimTx) {
	c.mu.Lock()
	tx.Chain = c.Name
	c.nseq++
	tx.Seq = c.nseq
	c.Txs[tx.ID] = tx
	c.mu.Unlock()
}

func (c *SimChain) Get(id string) *SimTx {
	c.mu.Lock()
	defer c.mu.Unlock()
	return c.Txs[id]
}

func (c *SimChain) tip() uint32 {
	c.mu.Lock()
	defer c.mu.Unlock()
	return c.Tip
}

// Blocks mines n blocks; with incl every mempool transaction is confirmed in the first of them. Then the watchers
// of both live node processes look at the chain (A first).
func (c *SimChain) Blocks(n uint32, incl bool) {
	c.mu.Lock()
	first := c.Tip + 1
	c.Tip += n
	tip := c.Tip
	included := []string{}
	if incl {
		ids := sortedKeys(c.Txs)
		for _, id := range ids {
			if tx := c.Txs[id]; tx.ConfAt == 0 {
				tx.ConfAt = first
				included = append(included, fmt.Sprintf("%s%d", tx.Kind[:1], tx.Seq))
			}
		}
	}
	c.mu.Unlock()
	c.w.Emit("block", Ev{"tip": tip, "n": n, "incl": included, "conf_at": first})
	for _, name := range []string{"A", "B"} {
		if nd := c.w.Slot[name].node; nd != nil && !nd.dead() {
			nd.watcher[c.Name].poll()
		}
	}
}

// depth of a tx output as the RPC watcher sees it via gettxout (0 = not visible).
func (c *SimChain) depth(txid string, vout uint32, needUnspent bool) uint32 {
	c.mu.Lock()
	defer c.mu.Unlock()
	tx, ok := c.Txs[txid]
	if !ok || tx.ConfAt == 0 || int(vout) >= len(tx.Outs) {
		return 0
	}
	if needUnspent && tx.Outs[vout].SpentBy != "" {
		return 0
	}
	return c.Tip - tx.ConfAt + 1
}

// simWatcher implements swap.TxWatcher for one node process on one chain.
type simWatcher struct {
	c      *SimChain
	n      *Node
	mu     sync.Mutex
	conf   []*confReg
	csv    []*csvReg
	confCb func(swapId string, txHex string, err error) error
	csvCb  func(swapId string) error
}

func (s *simWatcher) AddWaitForConfirmationTx(swapID, txID string, vout, startingHeight, paymentWindow uint32, _ []byte) {
	s.c.w.gate(s.n, "watch.conf")
	s.mu.Lock()
	for _, r := range s.conf { // registrations are keyed by swap id (as in the real watchers): a new one replaces the old
		if r.swapID == swapID {
			r.done = true
		}
	}
	s.conf = append(s.conf, &confReg{swapID: swapID, txID: txID, vout: vout, start: startingHeight, window: paymentWindow})
	s.mu.Unlock()
	s.c.w.after(s.n, "watch.conf")
	s.poll()
}

func (s *simWatcher) AddWaitForCsvTx(swapID, txID string, vout, startingHeight, csv uint32, _ []byte) {
	s.c.w.gate(s.n, "watch.csv")
	s.mu.Lock()
	for _, r := range s.csv {
		if r.swapID == swapID {
			r.done = true
		}
	}
	s.csv = append(s.csv, &csvReg{swapID: swapID, txID: txID, vout: vout, start: startingHeight, csv: csv})
	s.mu.Unlock()
	s.c.w.after(s.n, "watch.csv")
	s.poll()
}

func (s *simWatcher) AddConfirmationCallback(f func(swapId string, txHex string, err error) error) {
	s.confCb = f
}
func (s *simWatcher) AddCsvCallback(f func(swapId string) error) { s.csvCb = f }
func (s *simWatcher) StartWatchingTxs() error                  { return nil }

func (s *simWatcher) GetBlockHeight() (uint32, error) {
	o := s.c.w.gate(s.n, "chain.height")
	if o != "" {
		return 0, errors.New("sim: blockchain rpc unavailable")
	}
	// The claim-payment retry loop is bounded by wall-clock time in production (120 s, one attempt per 10 s). The
	// harness runs it with an unbounded time budget and ends it deterministically after the same number of attempts.
	if s.c.w.occOf(s.n, "ln.payclaim") >= 12 {
		return 0, errors.New("sim: claim payment retry time is over")
	}
	h := s.c.tip()
	s.c.w.after(s.n, "chain.height")
	return h, nil
}

func (s *simWatcher) live() (conf, csv int) {
	s.mu.Lock()
	defer s.mu.Unlock()
	for _, r := range s.conf {
		if !r.done {
			conf++
		}
	}
	for _, r := range s.csv {
		if !r.done {
			csv++
		}
	}
	return
}

// poll evaluates all registrations truthfully and posts callbacks (never synchronous).
func (s *simWatcher) poll() {
	if s.n.dead() {
		return
	}
	s.mu.Lock()
	defer s.mu.Unlock()
	tip := s.c.tip()
	n := s.n
	for _, r := range s.conf {
		if r.done {
			continue
		}
		r := r
		if uint64(tip) >= uint64(r.start)+uint64(r.window) {
			r.done = true
			s.c.w.post(n, func() {
				s.c.w.Emit("cb", Ev{"n": n.name, "k": "conf", "ok": false})
				if s.confCb != nil {
					s.confCb(r.swapID, "", fmt.Errorf("sim: payment window closed"))
				}
			})
			continue
		}
		if d := s.c.depth(r.txID, r.vout, false); d >= s.c.MinConf() {
			r.done = true
			hexs := s.c.Get(r.txID).Hex
			s.c.w.post(n, func() {
				s.c.w.Emit("cb", Ev{"n": n.name, "k": "conf", "ok": true})
				if s.confCb != nil {
					s.confCb(r.swapID, hexs, nil)
				}
			})
		}
	}
	for _, r := range s.csv {
		if r.done {
			continue
		}
		r := r
		if d := s.c.depth(r.txID, r.vout, true); d >= r.csv {
			r.done = true
			s.c.w.post(n, func() {
				s.c.w.Emit("cb", Ev{"n": n.name, "k": "csv", "ok": true})
				if s.csvCb != nil {
					s.csvCb(r.swapID)
				}
			})
		}
	}
}
