package duo

import (
	"context"
	"encoding/hex"
	"fmt"
	"os"
	"path/filepath"
	"sort"
	"strings"
	"sync"
	"sync/atomic"
	"time"

	"github.com/elementsproject/peerswap/messages"
	"github.com/elementsproject/peerswap/policy"
	"github.com/elementsproject/peerswap/premium"
	"github.com/elementsproject/peerswap/swap"
	"github.com/elementsproject/peerswap/version"
	"go.etcd.io/bbolt"
)

// Slot holds what survives a restart of one node: its files.
type Slot struct {
	name       string
	db         *bbolt.DB
	premiumDB  *bbolt.DB
	policyPath string
	node       *Node // current process (nil before the first start)
	epoch      int
}

// Node is one run of a peerswap process (from start to crash/stop).
type Node struct {
	w       *World
	name    string
	epoch   int
	deadF   atomic.Bool
	svc     *swap.SwapService
	ln      *lnFacade
	msgr    *simMessenger
	mgr     *logManager
	watcher map[string]*simWatcher
	pol     *policy.Policy
	tmu     sync.Mutex
	timers  []*timerEntry
}

type timerEntry struct {
	ctx context.Context
	due int64
	id  string
}

func (n *Node) dead() bool { return n == nil || n.deadF.Load() }

func (n *Node) kill() {
	n.deadF.Store(true)
	n.mgr.stopAll()
}

func (w *World) up(name string) bool {
	nd := w.Slot[name].node
	return nd != nil && !nd.dead()
}

// Open creates the persistent files of both nodes (bbolt stores, policy files, premium rates).
func (w *World) Open() error {
	for _, name := range []string{"A", "B"} {
		dir := filepath.Join(w.Dir, name)
		os.MkdirAll(dir, 0o755)
		db, err := bbolt.Open(filepath.Join(dir, "swaps.db"), 0o644, &bbolt.Options{NoSync: true, NoFreelistSync: true})
		if err != nil {
			return err
		}
		pdb, err := bbolt.Open(filepath.Join(dir, "premium.db"), 0o644, &bbolt.Options{NoSync: true, NoFreelistSync: true})
		if err != nil {
			return err
		}
		s := w.Slot[name]
		s.db, s.premiumDB, s.policyPath = db, pdb, filepath.Join(dir, "policy.conf")
		pl := []string{"allow_new_swaps=true", "accept_all_peers=true", "min_swap_amount_msat=100000000"}
		if err := os.WriteFile(s.policyPath, []byte(strings.Join(pl, "\n")+"\n"), 0o644); err != nil {
			return err
		}
		ps, err := premium.NewSetting(pdb)
		if err != nil {
			return err
		}
		ctx := context.Background()
		for _, x := range []struct {
			a premium.AssetType
			o premium.OperationType
			r int64
		}{{premium.BTC, premium.SwapOut, w.Cfg.RateBtcOut}, {premium.BTC, premium.SwapIn, w.Cfg.RateBtcIn},
			{premium.LBTC, premium.SwapOut, w.Cfg.RateLbtcOut}, {premium.LBTC, premium.SwapIn, w.Cfg.RateLbtcIn}} {
			r, err := premium.NewPremiumRate(x.a, x.o, premium.NewPPM(x.r))
			if err != nil {
				return err
			}
			if err := ps.SetDefaultRate(ctx, r); err != nil {
				return err
			}
		}
		vs, err := version.NewVersionService(db)
		if err != nil {
			return err
		}
		if err := vs.SafeUpgrade(noSwaps{}); err != nil {
			return err
		}
	}
	return nil
}

type noSwaps struct{}

func (noSwaps) HasActiveSwaps() (bool, error) { return false, nil }

func (w *World) Close() {
	for _, name := range []string{"A", "B"} {
		s := w.Slot[name]
		if s.node != nil {
			s.node.kill()
		}
		if s.db != nil {
			s.db.Close()
			s.premiumDB.Close()
		}
	}
	os.RemoveAll(w.Dir)
}

// ---- store wrapper ----------------------------------------------------------

type logStore struct {
	w    *World
	n    *Node
	real swap.Store
}

func (s *logStore) UpdateData(sm *swap.SwapStateMachine) error {
	if o := s.w.gate(s.n, "persist"); o != "" {
		return fmt.Errorf("sim: disk write failed")
	}
	if err := s.real.UpdateData(sm); err != nil {
		return err
	}
	pr := s.w.project(s.n.name, sm)
	s.w.Emit("p", Ev{"n": s.n.name, "r": pr["role"], "prev": pr["prev"], "cur": pr["cur"], "fl": pr["fl"]})
	s.w.after(s.n, "persist")
	return nil
}

func (s *logStore) UnfinishedSwapOnChannel(channelId, exceptId string) (string, error) {
	if cs, ok := s.real.(interface {
		UnfinishedSwapOnChannel(channelId, exceptId string) (string, error)
	}); ok {
		return cs.UnfinishedSwapOnChannel(channelId, exceptId)
	}
	return "", nil
}
func (s *logStore) GetData(id string) (*swap.SwapStateMachine, error) { return s.real.GetData(id) }
func (s *logStore) ListAll() ([]*swap.SwapStateMachine, error)        { return s.real.ListAll() }
func (s *logStore) ListAllByPeer(p string) ([]*swap.SwapStateMachine, error) {
	return s.real.ListAllByPeer(p)
}

func roleName(sm *swap.SwapStateMachine) string {
	t := map[swap.SwapType]string{swap.SWAPTYPE_IN: "in", swap.SWAPTYPE_OUT: "out"}[sm.Type]
	r := map[swap.SwapRole]string{swap.SWAPROLE_SENDER: "sender", swap.SWAPROLE_RECEIVER: "receiver"}[sm.Role]
	return t + "_" + r
}

func sat(v uint64) any {
	if v <= 2000000000 {
		return v
	}
	return uint64(2000000001) // TLC integers are 32-bit
}

func clampI64(v int64) int64 {
	if v > 1000000000 {
		return 1000000000
	}
	if v < -1000000000 {
		return -1000000000
	}
	return v
}

// project: real record -> abstract record of Duo.tla (what both specifications talk about).
func (w *World) project(node string, sm *swap.SwapStateMachine) Ev {
	d := sm.Data
	id := sm.SwapId.String()
	role := roleName(sm)
	label := w.Label(id)
	ev := Ev{"role": role, "prev": string(sm.Previous), "cur": string(sm.Current), "fl": ""}
	if d == nil {
		return ev
	}
	taker := role == "out_sender" || role == "in_receiver"
	if taker {
		w.noteSecret(hex.EncodeToString(d.PrivkeyBytes), "takerkey", label)
	} else {
		w.noteSecret(hex.EncodeToString(d.PrivkeyBytes), "makerkey", label)
		w.noteSecret(d.ClaimPreimage, "preimage", label)
	}
	// flags: r request, a agreement, o opening_tx_broadcasted, x opening tx hex, p claim preimage, c claim tx id, k coop_close, j cancel object, s anchor set
	fl := ""
	for _, x := range []struct {
		c  string
		on bool
	}{{"r", d.SwapInRequest != nil || d.SwapOutRequest != nil}, {"a", d.SwapInAgreement != nil || d.SwapOutAgreement != nil}, {"o", d.OpeningTxBroadcasted != nil},
		{"x", d.OpeningTxHex != ""}, {"p", d.ClaimPreimage != ""}, {"c", d.ClaimTxId != ""}, {"k", d.CoopClose != nil}, {"j", d.Cancel != nil}, {"s", d.StartingBlockHeightSet}} {
		if x.on {
			fl += x.c
		}
	}
	ev["fl"] = fl
	ev["start"] = d.StartingBlockHeight
	ev["nxt"] = kindOfType[d.NextMessageType]
	return ev
}

// agreed: the negotiated parameters as this node's record has them (D3: both records must agree on them).
func (w *World) agreed(sm *swap.SwapStateMachine) Ev {
	d := sm.Data
	ev := Ev{"sid": w.Label(sm.SwapId.String())}
	if d == nil {
		return ev
	}
	ev["peer"] = NodeName(d.PeerNodeId)
	if d.SwapInRequest != nil || d.SwapOutRequest != nil {
		ev["scid"] = d.GetScid()
		ev["chain"] = d.GetChain()
		ev["ver"] = int(d.GetProtocolVersion())
		ev["amt"] = sat(d.GetAmount())
	}
	if d.SwapInAgreement != nil || d.SwapOutAgreement != nil {
		ev["prem"] = clampI64(d.GetPremium())
	}
	if d.OpeningTxBroadcasted != nil {
		ev["tx"] = clip(d.OpeningTxBroadcasted.TxId, 12)
		ev["vout"] = d.OpeningTxBroadcasted.ScriptOut
		if inv, err := parsePayreq(d.OpeningTxBroadcasted.Payreq); err == nil {
			ev["hash"] = clip(inv.Hash, 12)
			ev["msat"] = sat(inv.Msat)
		}
	}
	return ev
}

// ---- retransmission manager wrapper -----------------------------------------

type retxMsg struct {
	peer string
	msg  []byte
	typ  int
}

type logManager struct {
	w    *World
	n    *Node
	real *messages.Manager
	mu   sync.Mutex
	ids  map[string]bool
	last map[string]retxMsg
}

func (m *logManager) AddSender(id string, ms messages.StoppableMessenger) error {
	if o := m.w.gate(m.n, "sender.add"); o != "" {
		return fmt.Errorf("sim: cannot add sender")
	}
	err := m.real.AddSender(id, ms)
	m.mu.Lock()
	if err == nil {
		m.ids[id] = true
	}
	m.mu.Unlock()
	m.w.Emit("sender", Ev{"n": m.n.name, "op": "add", "ok": err == nil})
	return err
}

func (m *logManager) RemoveSender(id string) {
	m.w.gate(m.n, "sender.remove")
	m.real.RemoveSender(id)
	m.mu.Lock()
	had := m.ids[id]
	delete(m.ids, id)
	m.mu.Unlock()
	if had {
		m.w.Emit("sender", Ev{"n": m.n.name, "op": "remove", "ok": true})
	}
}

func (m *logManager) noteRetx(id, peer string, msg []byte, typ int) {
	m.mu.Lock()
	m.last[id] = retxMsg{peer, append([]byte{}, msg...), typ}
	m.mu.Unlock()
}

func (m *logManager) stopAll() {
	m.mu.Lock()
	ids := sortedKeys(m.ids)
	m.ids = map[string]bool{}
	m.mu.Unlock()
	for _, id := range ids {
		m.real.RemoveSender(id)
	}
}

func (m *logManager) live() []string {
	m.mu.Lock()
	defer m.mu.Unlock()
	return sortedKeys(m.ids)
}

// retxTick is what the ticker of every live messages.RedundantMessenger of this node does when its interval
// elapses: it sends the same message once more through the node's messenger. (The real tickers run with a one-hour
// interval in the harness; their firing is a scheduler step.)
func (m *logManager) retxTick() int {
	n := 0
	for _, id := range m.live() {
		m.mu.Lock()
		r, ok := m.last[id]
		m.mu.Unlock()
		if ok {
			m.n.msgr.SendMessage(r.peer, r.msg, r.typ)
			n++
		}
	}
	return n
}

// ---- start / restart ----------------------------------------------------------

// StartNode starts a peerswap process on the node's persistent files: Start(), then (as the daemons do) the
// database version check and RecoverSwaps().
func (w *World) StartNode(name string, recoverSwaps bool) string {
	s := w.Slot[name]
	s.epoch++
	n := &Node{w: w, name: name, epoch: s.epoch, watcher: map[string]*simWatcher{}}
	n.ln = &lnFacade{l: w.LN, n: n}
	n.msgr = &simMessenger{w: w, n: n}
	n.mgr = &logManager{w: w, n: n, real: messages.NewManager(), ids: map[string]bool{}, last: map[string]retxMsg{}}
	pol, err := policy.CreateFromFile(s.policyPath)
	if err != nil {
		return "policy: " + err.Error()
	}
	n.pol = pol
	real, err := swap.NewBboltStore(s.db)
	if err != nil {
		return err.Error()
	}
	rs, err := swap.NewRequestedSwapsStore(s.db)
	if err != nil {
		return err.Error()
	}
	ps, err := premium.NewSetting(s.premiumDB)
	if err != nil {
		return err.Error()
	}
	store := &logStore{w: w, n: n, real: real}
	mk := func(chain string) (*simWallet, *simValidator, *simWatcher) {
		wt := &simWatcher{c: w.Chain[chain], n: n}
		n.watcher[chain] = wt
		return &simWallet{w: w, n: n, chain: chain}, &simValidator{w: w, n: n, chain: chain}, wt
	}
	bw, bv, bt := mk("btc")
	lw, lv, lt := mk("lbtc")
	services := swap.NewSwapServices(store, rs, n.ln, n.msgr, n.mgr, pol, true, bw, bv, bt, true, lw, lv, lt, ps)
	n.svc = swap.NewSwapService(services)
	s.node = n
	w.Emit("start", Ev{"n": name, "epoch": n.epoch})
	if err := n.svc.Start(); err != nil {
		return err.Error()
	}
	n.svc.VerifSetTimeoutService(func(ctx context.Context, dur time.Duration, id string) {
		n.tmu.Lock()
		n.timers = append(n.timers, &timerEntry{ctx: ctx, due: w.Now + int64(dur/time.Minute), id: id})
		n.tmu.Unlock()
	})
	if !recoverSwaps {
		return ""
	}
	vs, err := version.NewVersionService(s.db)
	if err != nil {
		return err.Error()
	}
	if uerr := vs.SafeUpgrade(n.svc); uerr != nil {
		n.kill()
		w.Emit("stop", Ev{"n": name, "why": "upgrade refused"})
		return "upgrade refused"
	}
	r := w.runIsolated(n, func() { n.svc.RecoverSwaps() })
	if strings.HasPrefix(r, "panic") || r == "hang" {
		w.Emit("fault", Ev{"n": name, "what": strings.SplitN(r, " |", 2)[0], "in": "recover"})
	}
	w.Emit("recovered", Ev{"n": name, "res": strings.SplitN(r, " |", 2)[0]})
	return ""
}

// StopNode stops the process without a crash mid-handler (SIGTERM between events).
func (w *World) StopNode(name string) {
	if nd := w.Slot[name].node; nd != nil && !nd.dead() {
		nd.kill()
		w.Emit("stop", Ev{"n": name, "why": "shutdown"})
	}
}

// fireDue runs the callbacks of the node's timers that are due at the current logical time.
func (w *World) fireDue(name string) int {
	n := w.Slot[name].node
	if n.dead() {
		return 0
	}
	fired := 0
	for {
		n.tmu.Lock()
		sort.SliceStable(n.timers, func(i, j int) bool { return n.timers[i].due < n.timers[j].due })
		if len(n.timers) == 0 || n.timers[0].due > w.Now {
			n.tmu.Unlock()
			return fired
		}
		t := n.timers[0]
		n.timers = n.timers[1:]
		n.tmu.Unlock()
		if t.ctx.Err() != nil {
			continue
		}
		w.Emit("cb", Ev{"n": name, "k": "timeout", "ok": true})
		r := w.runIsolated(n, n.svc.VerifTimeoutCallback(t.id))
		if strings.HasPrefix(r, "panic") || r == "hang" {
			w.Emit("fault", Ev{"n": name, "what": strings.SplitN(r, " |", 2)[0], "in": "timer"})
		}
		fired++
		w.drain()
		if n.dead() {
			return fired
		}
	}
}

func (n *Node) liveTimers() int {
	n.tmu.Lock()
	defer n.tmu.Unlock()
	k := 0
	for _, t := range n.timers {
		if t.ctx.Err() == nil {
			k++
		}
	}
	return k
}

// ---- joint snapshot -------------------------------------------------------------

func (w *World) nodeSnap(name string) Ev {
	s := w.Slot[name]
	ev := Ev{"up": w.up(name)}
	act := ""
	nact := 0
	senders, timers, wconf, wcsv := 0, 0, 0, 0
	notif := []string{}
	if w.up(name) {
		snap := s.node.svc.VerifSnapshot()
		for _, id := range sortedKeys(snap) {
			act = snap[id].Current
			if act == "" {
				act = "-"
			}
			nact++
		}
		senders = len(s.node.mgr.live())
		timers = s.node.liveTimers()
		wconf, wcsv = s.node.watcher[w.Cfg.Chain].live()
		notif = w.LN.liveNotifiers(s.node)
		sort.Strings(notif)
	}
	ev["act"] = act
	ev["nact"] = nact
	ev["snd"] = senders
	ev["tm"] = timers
	ev["wconf"] = wconf
	ev["wcsv"] = wcsv
	ev["notif"] = strings.Join(notif, ",")
	disk := Ev{"role": "", "prev": "", "cur": "", "fl": "", "start": 0, "nxt": ""}
	rec := Ev{}
	ndisk := 0
	if st, err := swap.NewBboltStore(s.db); err == nil {
		if all, err := st.ListAll(); err == nil {
			for _, sm := range all {
				ndisk++
				disk = w.project(name, sm)
				rec = w.agreed(sm)
			}
		}
	}
	ev["disk"] = disk
	ev["rec"] = rec
	ev["ndisk"] = ndisk
	return ev
}

// Snapshot is the joint state after a step: both nodes, both queues, the chain and the Lightning layer.
func (w *World) Snapshot() Ev {
	c := w.Chain[w.Cfg.Chain]
	c.mu.Lock()
	txs := []Ev{}
	var open []*SimTx
	for _, tx := range c.Txs {
		if tx.Kind == "opening" {
			open = append(open, tx)
		}
	}
	sort.Slice(open, func(i, j int) bool { return open[i].Seq < open[j].Seq })
	for _, tx := range open {
		spent, by := "", ""
		if sb := tx.Outs[0].SpentBy; sb != "" {
			if sp := c.Txs[sb]; sp != nil {
				spent, by = sp.Kind, sp.Owner
			}
		}
		conf := uint32(0)
		if tx.ConfAt > 0 {
			conf = tx.ConfAt
		}
		paid, st := w.LN.invoiceTruth(tx.Hash)
		txs = append(txs, Ev{"owner": tx.Owner, "conf": conf, "spent": spent, "by": by, "paid": paid, "st": st})
	}
	tip := c.Tip
	c.mu.Unlock()
	fee, _ := w.LN.truth("fee")
	claim, cpaid := w.LN.truth("claim")
	return Ev{"A": w.nodeSnap("A"), "B": w.nodeSnap("B"), "ab": w.Net.kinds("AB"), "ba": w.Net.kinds("BA"), "tip": tip, "txs": txs,
		"fee": fee, "claim": claim, "cpaid": cpaid, "now": w.Now}
}
