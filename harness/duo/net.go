package duo

import (
	"bytes"
	"encoding/base64"
	"encoding/hex"
	"encoding/json"
	"errors"
	"strconv"
	"strings"
	"sync"

	"github.com/elementsproject/peerswap/messages"
	"github.com/elementsproject/peerswap/swap"
)

var kindOfType = map[int]string{
	int(messages.MESSAGETYPE_SWAPINREQUEST):        "swap_in_request",
	int(messages.MESSAGETYPE_SWAPOUTREQUEST):       "swap_out_request",
	int(messages.MESSAGETYPE_SWAPINAGREEMENT):      "swap_in_agreement",
	int(messages.MESSAGETYPE_SWAPOUTAGREEMENT):     "swap_out_agreement",
	int(messages.MESSAGETYPE_OPENINGTXBROADCASTED): "opening_tx_broadcasted",
	int(messages.MESSAGETYPE_CANCELED):             "cancel",
	int(messages.MESSAGETYPE_COOPCLOSE):            "coop_close",
	int(messages.MESSAGETYPE_POLL):                 "poll",
	int(messages.MESSAGETYPE_REQUEST_POLL):         "request_poll",
}

// Msg is one custom message in flight.
type Msg struct {
	From    string
	Type    int
	Kind    string
	Payload []byte
	Digest  string
	Label   string // swap label
}

// Net: one FIFO queue per direction. Deliveries, losses and duplications are scheduler steps.
type Net struct {
	w    *World
	mu   sync.Mutex
	Q    map[string][]*Msg     // "AB": A -> B, "BA": B -> A
	seen map[string]map[string]bool // receiver -> digests already delivered to it
	sent map[string]int         // digest -> number of times handed to the network
}

func newNet(w *World) *Net {
	return &Net{w: w, Q: map[string][]*Msg{"AB": {}, "BA": {}}, seen: map[string]map[string]bool{"A": {}, "B": {}}, sent: map[string]int{}}
}

func (nt *Net) kinds(dir string) []string {
	nt.mu.Lock()
	defer nt.mu.Unlock()
	out := []string{}
	for _, m := range nt.Q[dir] {
		out = append(out, m.Kind)
	}
	return out
}

func (nt *Net) head(dir string, pop bool) *Msg {
	nt.mu.Lock()
	defer nt.mu.Unlock()
	q := nt.Q[dir]
	if len(q) == 0 {
		return nil
	}
	m := q[0]
	if pop {
		nt.Q[dir] = q[1:]
	}
	return m
}

func (nt *Net) clear() int {
	nt.mu.Lock()
	defer nt.mu.Unlock()
	n := len(nt.Q["AB"]) + len(nt.Q["BA"])
	nt.Q["AB"], nt.Q["BA"] = []*Msg{}, []*Msg{}
	return n
}

// leaks: which known secrets (swap keys, claim preimages of both nodes' records) occur in a payload.
func (w *World) leaks(payload []byte) []string {
	w.mu.Lock()
	defer w.mu.Unlock()
	low := bytes.ToLower(payload)
	out := []string{}
	for _, h := range sortedKeys(w.secrets) {
		s := w.secrets[h]
		raw, _ := hex.DecodeString(h)
		if bytes.Contains(low, []byte(h)) || (len(raw) > 0 && (bytes.Contains(payload, raw) ||
			bytes.Contains(payload, []byte(base64.StdEncoding.EncodeToString(raw))) ||
			bytes.Contains(payload, []byte(base64.RawURLEncoding.EncodeToString(raw))))) {
			out = append(out, s.kind)
		}
	}
	return out
}

// simMessenger is the swap.Messenger of one node process.
type simMessenger struct {
	w       *World
	n       *Node
	handler func(peerId string, msgType string, payload []byte) error
}

func (m *simMessenger) AddMessageHandler(f func(peerId string, msgType string, payload []byte) error) {
	m.handler = f
}

func (m *simMessenger) SendMessage(peerId string, msg []byte, msgType int) error {
	if m.n.dead() {
		return errors.New("sim: node is down")
	}
	o := m.w.gate(m.n, "msg.send")
	kind := kindOfType[msgType]
	if kind == "" {
		kind = "type" + strconv.Itoa(msgType)
	}
	var f map[string]any
	json.Unmarshal(msg, &f)
	id, _ := f["swap_id"].(string)
	dg := sha(append([]byte(kind), msg...))
	to := NodeName(peerId)
	nt := m.w.Net
	nt.mu.Lock()
	nt.sent[dg]++
	nth := nt.sent[dg]
	nt.mu.Unlock()
	ev := Ev{"n": m.n.name, "to": to, "k": kind, "sid": m.w.Label(id), "ok": o == "", "nth": nth, "lk": m.w.leaks(msg)}
	if !roundTrips(kind, msg) || msgType%2 == 0 {
		ev["bad"] = true
	}
	decode(kind, f, ev)
	m.w.Emit("send", ev)
	if o != "" {
		return errors.New("sim: peer not connected")
	}
	if to == Other(m.n.name) {
		nt.mu.Lock()
		dir := m.n.name + to
		nt.Q[dir] = append(nt.Q[dir], &Msg{From: m.n.name, Type: msgType, Kind: kind, Payload: append([]byte{}, msg...), Digest: dg, Label: m.w.Label(id)})
		nt.mu.Unlock()
	}
	if kind == "opening_tx_broadcasted" { // what the retransmitter of this swap would send again
		m.n.mgr.noteRetx(id, peerId, msg, msgType)
	}
	m.w.after(m.n, "msg.send")
	return nil
}

func roundTrips(kind string, msg []byte) bool {
	var v any
	switch kind {
	case "swap_in_request":
		v = &swap.SwapInRequestMessage{}
	case "swap_out_request":
		v = &swap.SwapOutRequestMessage{}
	case "swap_in_agreement":
		v = &swap.SwapInAgreementMessage{}
	case "swap_out_agreement":
		v = &swap.SwapOutAgreementMessage{}
	case "opening_tx_broadcasted":
		v = &swap.OpeningTxBroadcastedMessage{}
	case "cancel":
		v = &swap.CancelMessage{}
	case "coop_close":
		v = &swap.CoopCloseMessage{}
	default:
		return false
	}
	if err := json.Unmarshal(msg, v); err != nil {
		return false
	}
	b, err := json.Marshal(v)
	return err == nil && bytes.Equal(b, msg)
}

// decode adds the decoded fields of a payload to a send event.
func decode(kind string, f map[string]any, ev Ev) {
	num := func(k string) int64 {
		if v, ok := f[k].(float64); ok {
			return int64(v)
		}
		return 0
	}
	str := func(k string) string { s, _ := f[k].(string); return s }
	switch kind {
	case "swap_out_request", "swap_in_request":
		ev["amt"] = num("amount")
		ev["lim"] = num("acceptable_premium")
		ev["scid"] = str("scid")
		ev["ver"] = num("protocol_version")
		if str("asset") != "" && str("network") == "" {
			ev["chain"] = "lbtc"
		} else {
			ev["chain"] = "btc"
		}
	case "swap_out_agreement", "swap_in_agreement":
		ev["prem"] = num("premium")
		ev["ver"] = num("protocol_version")
		if pr := str("Payreq"); pr != "" {
			if inv, err := parsePayreq(pr); err == nil {
				ev["fee_msat"] = inv.Msat
			}
		}
	case "opening_tx_broadcasted":
		ev["tx"] = clip(str("tx_id"), 12)
		ev["vout"] = num("script_out")
		ev["blind"] = str("blinding_key") != ""
		if inv, err := parsePayreq(str("payreq")); err == nil {
			ev["msat"] = inv.Msat
			ev["hash"] = clip(inv.Hash, 12)
			ev["cltv"] = inv.Cltv
			ev["expiry"] = inv.Expiry
		}
	case "coop_close":
		ev["pkl"] = len(str("privkey"))
	case "cancel":
		ev["txt"] = clip(str("message"), 48)
	}
}

func classify(err error) string {
	if err == nil {
		return "ok"
	}
	s := err.Error()
	switch {
	case strings.Contains(s, "already has an active swap"):
		return "active_swap"
	case strings.Contains(s, "unexpected peer"):
		return "unexpected_peer"
	case strings.Contains(s, "swap does not exist"):
		return "no_swap"
	case strings.Contains(s, "event rejected"):
		return "rejected"
	case strings.Contains(s, "already exists"):
		return "exists"
	case strings.Contains(s, "is already in use"):
		return "id_in_use"
	}
	return "other"
}
