// Package duo runs TWO real swap.SwapService instances (real FSM engine, state
// tables, actions, bbolt stores, policy files, premium settings, retransmission
// managers, Bitcoin validator) against each other inside one simulated world:
// a shared chain with truthful watchers, a shared Lightning layer (an invoice of
// one node is payable by the other; the preimage is released on settlement; an
// HTLC can be held in flight), wallets that build opening / spending
// transactions on the shared chain, and a network of two FIFO queues whose
// deliveries, losses and duplications are scheduler steps.
// Every scheduler step runs both nodes to quiescence and is recorded as ONE
// NDJSON line: the step, the events of both nodes in linearization order and
// the joint snapshot (both registries, both stores, queues, chain, Lightning).
package duo

import (
	"crypto/sha256"
	"encoding/hex"
	"fmt"
	"runtime"
	"sort"
	"strings"
	"sync"
	"time"

	"verif/harness/ndj"
)

const (
	// valid secp256k1 points (the policy code parses pubkeys): G, 2G
	KeyA = "0279be667ef9dcbbac55a06295ce870b07029bfcdb2dce28d959f2815b16f81798"
	KeyB = "02c6047f9441ed7d6d3045406e95c07cd85c778e4b8cef3ca7abac09b95c709ee5"

	LiquidAsset = "5ac9f65c0efcc4775e0baec4ec03abdde22473cd3cf33c0419ca290e0751b225aa" // 33 bytes hex
	BtcNetwork  = "regtest"
	Scid        = "100x1x1"
	Amount      = 1000000
	LimitPPM    = 20000
)

func NodeName(pk string) string {
	switch pk {
	case KeyA:
		return "A"
	case KeyB:
		return "B"
	}
	return "?"
}

func NodeKey(name string) string {
	if name == "A" {
		return KeyA
	}
	return KeyB
}

func Other(name string) string {
	if name == "A" {
		return "B"
	}
	return "A"
}

// Ev is one event inside a step line.
type Ev map[string]any

// Config is the per-trace configuration.
type Config struct {
	Chain string `json:"chain"` // chain of the swap: btc | lbtc
	// premium rates (ppm) per asset and operation, the same on both nodes; all four differ so that a premium computed
	// from the wrong direction's or the wrong asset's rate is visible
	RateBtcOut  int64 `json:"rate_btc_out"`
	RateBtcIn   int64 `json:"rate_btc_in"`
	RateLbtcOut int64 `json:"rate_lbtc_out"`
	RateLbtcIn  int64 `json:"rate_lbtc_in"`
	OpenFeeSat  uint64 `json:"open_fee_sat"`
}

func DefaultConfig() Config {
	return Config{Chain: "btc", RateBtcOut: 5000, RateBtcIn: 10000, RateLbtcOut: 3000, RateLbtcIn: 7000, OpenFeeSat: 1000}
}

// FaultSpec: one failing service call of one node (first occurrence, or every occurrence).
type FaultSpec struct {
	N   string `json:"n"`
	G   string `json:"g"`
	O   string `json:"o"`
	All bool   `json:"all"`
}

// CrashSpec: the process of node N dies at the Occ-th call of gate G in this step (before / after its effect).
type CrashSpec struct {
	N   string `json:"n"`
	G   string `json:"g"`
	Occ int    `json:"occ"`
	W   string `json:"w"` // before | after
}

// World is two nodes plus their shared environment.
type World struct {
	mu    sync.Mutex
	T     int
	out   *ndj.Writer
	Dir   string
	Cfg   Config
	Chain map[string]*SimChain
	LN    *SimLN
	Net   *Net
	Now   int64 // logical minutes
	Slot  map[string]*Slot

	// context of the current step
	fault   *FaultSpec
	crashAt *CrashSpec
	gateOcc map[string]int
	queue   []posted
	evs     []Ev
	crashCh chan struct{}

	labels  map[string]string // swap id -> label
	nlabel  int
	secrets map[string]secret
	Stats   map[string]int
	stepNo  int
}

type posted struct {
	n *Node
	f func()
}

type secret struct{ kind, label string }

func NewWorld(t int, dir string, cfg Config, out *ndj.Writer) *World {
	w := &World{T: t, Dir: dir, Cfg: cfg, out: out, Stats: map[string]int{}, labels: map[string]string{}, secrets: map[string]secret{}, gateOcc: map[string]int{}}
	w.Chain = map[string]*SimChain{"btc": newSimChain(w, "btc", 1000), "lbtc": newSimChain(w, "lbtc", 5000)}
	w.LN = newSimLN(w)
	w.Net = newNet(w)
	w.Slot = map[string]*Slot{"A": {name: "A"}, "B": {name: "B"}}
	return w
}

// Label gives swap ids short stable names (s1, s2, ...) in order of first appearance.
func (w *World) Label(id string) string {
	w.mu.Lock()
	defer w.mu.Unlock()
	return w.labelLocked(id)
}

func (w *World) labelLocked(id string) string {
	if id == "" {
		return "none"
	}
	if l, ok := w.labels[id]; ok {
		return l
	}
	w.nlabel++
	l := fmt.Sprintf("s%d", w.nlabel)
	w.labels[id] = l
	return l
}

func (w *World) idOf(label string) string {
	w.mu.Lock()
	defer w.mu.Unlock()
	for id, l := range w.labels {
		if l == label {
			return id
		}
	}
	return ""
}

// Emit appends one event to the current step (linearization order = order of the calls, under the world lock).
func (w *World) Emit(e string, f Ev) {
	w.mu.Lock()
	if f == nil {
		f = Ev{}
	}
	f["e"] = e
	w.evs = append(w.evs, f)
	w.Stats[e]++
	w.mu.Unlock()
}

// line writes one NDJSON line of the trace.
func (w *World) line(ev string, f Ev) {
	f["t"] = w.T
	f["ev"] = ev
	w.out.Write(f)
}

func (w *World) noteSecret(hexv, kind, label string) {
	if hexv == "" {
		return
	}
	w.mu.Lock()
	w.secrets[strings.ToLower(hexv)] = secret{kind, label}
	w.mu.Unlock()
}

// gate is called by every simulated service call BEFORE its effect. It returns the planned outcome ("" = succeed)
// and crashes the node if the plan says so.
func (w *World) gate(n *Node, name string) string {
	if n == nil || n.dead() {
		park()
	}
	key := n.name + ":" + name
	w.mu.Lock()
	w.gateOcc[key]++
	occ := w.gateOcc[key]
	outcome := ""
	if f := w.fault; f != nil && f.N == n.name && f.G == name && (occ == 1 || f.All) {
		outcome = f.O
	}
	cr := w.crashAt
	w.mu.Unlock()
	if cr != nil && cr.N == n.name && cr.G == name && cr.Occ == occ && cr.W != "after" {
		w.crash(n, name, "before")
	}
	return outcome
}

// after is called by a simulated service call AFTER its effect took place.
func (w *World) after(n *Node, name string) {
	if n == nil {
		return
	}
	key := n.name + ":" + name
	w.mu.Lock()
	occ := w.gateOcc[key]
	cr := w.crashAt
	w.mu.Unlock()
	if cr != nil && cr.N == n.name && cr.G == name && cr.Occ == occ && cr.W == "after" {
		w.crash(n, name, "after")
	}
}

func (w *World) occOf(n *Node, name string) int {
	w.mu.Lock()
	defer w.mu.Unlock()
	return w.gateOcc[n.name+":"+name]
}

// park: the goroutine of a crashed process never runs again (no deferred function runs, as in a real crash).
func park() { select {} }

func (w *World) crash(n *Node, gate, when string) {
	if n == nil || n.dead() {
		park()
	}
	w.Emit("crash", Ev{"n": n.name, "g": gate, "w": when})
	n.kill()
	w.mu.Lock()
	w.crashAt = nil
	ch := w.crashCh
	w.mu.Unlock()
	if ch != nil {
		select {
		case ch <- struct{}{}:
		default:
		}
	}
	park()
}

// post queues a callback of node n (watcher / payment notification) to run after the current handler returned.
func (w *World) post(n *Node, f func()) {
	w.mu.Lock()
	w.queue = append(w.queue, posted{n, f})
	w.mu.Unlock()
}

// runIsolated runs f (code of node n) in its own goroutine so that a crash or a panic inside the real code ends
// only that goroutine. Returns "", "crash", "panic: ..." or "hang".
func (w *World) runIsolated(n *Node, f func()) (res string) {
	done := make(chan string, 1)
	crashed := make(chan struct{}, 1)
	w.mu.Lock()
	w.crashCh = crashed
	w.mu.Unlock()
	go func() {
		defer func() {
			if r := recover(); r != nil {
				buf := make([]byte, 4096)
				buf = buf[:runtime.Stack(buf, false)]
				done <- fmt.Sprintf("panic: %v | %s", r, firstFrames(string(buf)))
			}
		}()
		f()
		done <- ""
	}()
	select {
	case r := <-done:
		return r
	case <-crashed:
		return "crash"
	case <-time.After(30 * time.Second):
		if n != nil && n.dead() {
			return "crash"
		}
		return "hang"
	}
}

func firstFrames(s string) string {
	lines := strings.Split(s, "\n")
	var keep []string
	for _, l := range lines {
		if strings.Contains(l, "peerswap/") && !strings.HasPrefix(strings.TrimSpace(l), "/") {
			keep = append(keep, strings.TrimSpace(l))
		}
		if len(keep) >= 3 {
			break
		}
	}
	return strings.Join(keep, " < ")
}

// drain runs queued callbacks (of both nodes, in posting order) until none is left.
func (w *World) drain() {
	for i := 0; i < 1000; i++ {
		w.mu.Lock()
		if len(w.queue) == 0 {
			w.mu.Unlock()
			return
		}
		p := w.queue[0]
		w.queue = w.queue[1:]
		w.mu.Unlock()
		if p.n == nil || p.n.dead() {
			continue
		}
		r := w.runIsolated(p.n, p.f)
		if strings.HasPrefix(r, "panic") || r == "hang" {
			w.Emit("fault", Ev{"n": p.n.name, "what": strings.SplitN(r, " |", 2)[0], "in": "callback"})
		}
	}
}

func sha(b []byte) string {
	h := sha256.Sum256(b)
	return hex.EncodeToString(h[:8])
}

func sortedKeys[M ~map[string]V, V any](m M) []string {
	ks := make([]string, 0, len(m))
	for k := range m {
		ks = append(ks, k)
	}
	sort.Strings(ks)
	return ks
}

func clip(s string, n int) string {
	if len(s) > n {
		return s[:n]
	}
	return s
}
