package watcher

import (
	"context"
	"fmt"
	"runtime"
	"time"

	goelectrum "github.com/checksum0/go-electrum/electrum"
	"github.com/elementsproject/peerswap/lwk"
	"github.com/elementsproject/peerswap/txwatcher"
)

type poll struct {
	h, at int
	stale bool
}

// driver abstracts what differs between the two real watchers.
type driver interface {
	setStep(st *Step)
	addC(start int)
	addV()
	deliver(p poll)
	csvtick()
	stop()
}

// Run executes one schedule on the real watcher and returns its trace lines.
func Run(sc Schedule) (out []map[string]any, err error) {
	defer func() {
		if r := recover(); r != nil {
			err = fmt.Errorf("panic in schedule %d: %v", sc.T, r)
		}
	}()
	s := NewSim(sc.T, sc.Base)
	s.Emit(line{"e": "reset", "kind": sc.Kind, "confs": sc.Confs, "window": sc.Window, "csv": sc.Csv, "base": sc.Base, "src": sc.Src})
	s.InitChain(sc.Len0, sc.TxAt0, sc.Bcast0)
	var d driver
	switch sc.Kind {
	case "rpc":
		d = newRpcDriver(s, sc)
	case "electrum":
		d, err = newElDriver(s, sc)
		if err != nil {
			return nil, err
		}
	default:
		return nil, fmt.Errorf("unknown kind %q", sc.Kind)
	}
	polls := map[int]poll{}
	npoll := 0
	done := make(chan struct{})
	go func() {
		defer close(done)
		defer func() {
			if r := recover(); r != nil {
				err = fmt.Errorf("panic in schedule %d: %v", sc.T, r)
			}
		}()
		for i := range sc.Steps {
			st := &sc.Steps[i]
			switch st.Cmd {
			case "env":
				s.Apply(*st.Env)
			case "poll":
				npoll++
				s.mu.Lock()
				h := len(s.chain)
				stale := st.F == "stale" && h >= 2
				if stale {
					h--
				}
				polls[npoll] = poll{h: h, at: s.clock, stale: stale}
				s.mu.Unlock()
			case "addc":
				s.Begin(st)
				d.addC(st.Start)
				s.End()
			case "addv":
				s.Begin(st)
				d.setStep(st)
				d.addV()
				s.End()
			case "deliver":
				p, ok := polls[st.P]
				if !ok {
					continue
				}
				s.Begin(st)
				d.deliver(p)
				s.End()
			case "csvtick":
				s.Begin(st)
				d.setStep(st)
				d.csvtick()
				s.End()
			}
		}
		d.stop()
	}()
	select {
	case <-done:
	case <-time.After(60 * time.Second):
		return nil, fmt.Errorf("schedule %d did not finish (watcher blocked): %s", sc.T, sc.JSON())
	}
	if err != nil {
		return nil, err
	}
	s.mu.Lock()
	defer s.mu.Unlock()
	return s.out, nil
}

// ---------------------------------------------------------------- RPC watcher

type rpcDriver struct {
	s      *Sim
	sc     Schedule
	w      *txwatcher.BlockchainRpcTxWatcher
	addedC bool
	step   *Step
}

func (d *rpcDriver) setStep(st *Step) { d.step = st }

func newRpcDriver(s *Sim, sc Schedule) *rpcDriver {
	w := txwatcher.NewBlockchainRpcTxWatcher(context.Background(), rpcNode{s}, uint32(sc.Confs))
	w.AddConfirmationCallback(s.ConfCb)
	w.AddCsvCallback(s.CsvCb)
	return &rpcDriver{s: s, sc: sc, w: w}
}

func (d *rpcDriver) setEval(reg string, since, h int, stale bool) {
	s := d.s
	s.mu.Lock()
	s.since[reg] = since
	s.hcons[reg] = h
	if stale {
		s.staleUsed = true
	}
	s.mu.Unlock()
}

func (d *rpcDriver) addC(start int) {
	if d.addedC {
		return
	}
	d.addedC = true
	s := d.s
	s.mu.Lock()
	s.since["c"] = s.clock
	s.hcons["c"] = 0
	s.kick = true
	s.emit(line{"e": "add", "reg": "c", "start": start})
	s.mu.Unlock()
	// blocks until the observation loop has taken the kick-off height
	d.w.AddWaitForConfirmationTx(SwapC, TxID, TxVout, uint32(s.Base+start), uint32(d.sc.Window), Script)
	d.w.VerifDeliverHeight(SwapC, 0) // barrier: the kick-off height is processed
	s.mu.Lock()
	s.emit(line{"e": "done", "reg": "c", "h": s.kickH})
	s.mu.Unlock()
}

// gated runs a call of the watcher that may make the csv callback - on the
// caller's goroutine (HandleCsvTx) or on one of its own (AddWaitForCsvTx) - and
// returns when the call has returned and the callback, if one is due, has been
// made: the callback announces itself, the actions the schedule puts between the
// observation and the callback are applied, the callback is released. Waiting
// too long is a machinery error (panic -> exit 2), never a verdict.
func (d *rpcDriver) gated(st *Step, call func(), due func() bool) {
	s := d.s
	g := s.openGate()
	defer s.closeGate()
	ret := make(chan struct{})
	go func() { call(); close(ret) }()
	returned, cbs := false, 0
	pre := st.PreCb
	applyPre := func() {
		for _, e := range pre {
			s.Apply(e)
		}
		pre = nil
	}
	long := time.After(30 * time.Second)
	handle := func() {
		applyPre()
		g.release <- struct{}{}
		select {
		case <-g.finished:
		case <-long:
			panic("csv callback did not return")
		}
		cbs++
	}
	for {
		if returned && (cbs > 0 || !due()) {
			select { // a callback that announced itself meanwhile is not left behind
			case <-g.arrived:
				handle()
				continue
			default:
			}
			break
		}
		select {
		case <-g.arrived:
			handle()
		case <-ret:
			returned = true
			ret = nil
		case <-long:
			panic(fmt.Sprintf("csv callback due but not made (returned=%v)", returned))
		}
	}
	applyPre() // no callback: the actions simply happen after the call
}

func (d *rpcDriver) addV() {
	s := d.s
	s.mu.Lock()
	s.since["v"] = s.clock
	s.hcons["v"] = 0
	s.emit(line{"e": "add", "reg": "v"})
	s.mu.Unlock()
	d.gated(d.step, func() {
		d.w.AddWaitForCsvTx(SwapV, TxID, TxVout, uint32(s.Base+1), uint32(d.sc.Csv), Script)
	}, func() bool {
		// after the return: not on the watch list = the callback was handed to a goroutine
		if !d.w.VerifCsvWatched(SwapV) {
			return true
		}
		// on the list although the node's answer was past the csv (not the unchanged code): give a callback a moment
		s.mu.Lock()
		above := s.lastTxOut >= d.sc.Csv
		s.mu.Unlock()
		if above {
			time.Sleep(50 * time.Millisecond)
		}
		return false
	})
	// a failed callback registers the output afterwards
	for i := 0; !d.w.VerifCsvWatched(SwapV) && d.lastCbFailed(); i++ {
		if i > 3000000 {
			panic("output not registered after a failed csv callback")
		}
		runtime.Gosched()
	}
}

func (d *rpcDriver) lastCbFailed() bool {
	s := d.s
	s.mu.Lock()
	defer s.mu.Unlock()
	for i := len(s.out) - 1; i >= 0; i-- {
		if s.out[i]["e"] == "report" && s.out[i]["reg"] == "v" {
			return s.out[i]["ok"] == false
		}
	}
	return false
}

func (d *rpcDriver) deliver(p poll) {
	if !d.addedC || !d.w.VerifDeliverHeight(SwapC, 0) {
		return // no observation loop (any more)
	}
	d.setEval("c", p.at, p.h, p.stale)
	if d.w.VerifDeliverHeight(SwapC, uint32(d.s.Base+p.h)) {
		d.w.VerifDeliverHeight(SwapC, 0)
	}
	d.s.Emit(line{"e": "done", "reg": "c", "h": p.h})
}

func (d *rpcDriver) csvtick() {
	s := d.s
	s.mu.Lock()
	s.since["v"] = s.clock
	s.hcons["v"] = 0
	tip := len(s.chain)
	s.mu.Unlock()
	d.gated(d.step, func() { _ = d.w.HandleCsvTx(uint64(s.Base + tip)) }, func() bool { return false })
}

func (d *rpcDriver) stop() {}

// ----------------------------------------------------------- Electrum watcher

type elWatcher interface {
	StartWatchingTxs() error
	AddWaitForConfirmationTx(swapIDStr, txIDStr string, vout, startingHeight, paymentWindow uint32, scriptpubkeyByte []byte)
	AddWaitForCsvTx(swapIDStr, txIDStr string, vout, startingHeight, csv uint32, scriptpubkeyByte []byte)
	AddConfirmationCallback(f func(swapId string, txHex string, err error) error)
	AddCsvCallback(f func(swapId string) error)
}

type elDriver struct {
	s       *Sim
	sc      Schedule
	w       elWatcher
	started chan error
	addedC  bool
}

func newElDriver(s *Sim, sc Schedule) (*elDriver, error) {
	if sc.Confs != 2 {
		return nil, fmt.Errorf("the electrum observer uses onchain.LiquidConfs = 2")
	}
	w, err := lwk.NewElectrumTxWatcher(elNode{s})
	if err != nil {
		return nil, err
	}
	w.AddConfirmationCallback(s.ConfCb)
	w.AddCsvCallback(s.CsvCb)
	d := &elDriver{s: s, sc: sc, w: w, started: make(chan error, 1)}
	// blocks in the real code until the first header arrives, evaluates it, then starts its loop
	go func() { d.started <- w.StartWatchingTxs() }()
	return d, nil
}

func (d *elDriver) addC(start int) {
	if d.addedC {
		return
	}
	d.addedC = true
	d.s.Emit(line{"e": "add", "reg": "c", "start": start})
	d.w.AddWaitForConfirmationTx(SwapC, TxID, TxVout, uint32(d.s.Base+start), uint32(d.sc.Window), Script)
}

func (d *elDriver) addV() {
	d.s.Emit(line{"e": "add", "reg": "v"})
	d.w.AddWaitForCsvTx(SwapV, TxID, TxVout, uint32(d.s.Base+1), uint32(d.sc.Csv), Script)
}

func (d *elDriver) deliver(p poll) {
	s := d.s
	s.mu.Lock()
	s.since["c"], s.since["v"] = p.at, p.at
	s.hcons["c"], s.hcons["v"] = p.h, p.h
	if p.stale {
		s.staleUsed = true
	}
	s.emit(line{"e": "deliver", "h": p.h})
	s.mu.Unlock()
	s.hdr <- &goelectrum.SubscribeHeadersResult{Height: int32(s.Base + p.h), Hex: "00"}
	// barrier: a header that acceptBlockHeight ignores is taken only when the previous one is processed
	s.hdr <- &goelectrum.SubscribeHeadersResult{Height: 1, Hex: "00"}
	if d.addedC {
		s.Emit(line{"e": "done", "reg": "c", "h": p.h})
	}
}

func (d *elDriver) csvtick() {}

func (d *elDriver) setStep(st *Step) {}

func (d *elDriver) stop() { close(d.s.hdr) }
