package watcher

import (
	"encoding/json"
	"math/rand"
)

// Step is one driver command with everything that happens inside it.
type Step struct {
	Cmd    string         `json:"cmd"` // env | addc | addv | poll | deliver | csvtick
	Env    *Env           `json:"env,omitempty"`
	Start  int            `json:"start,omitempty"` // addc (model height)
	P      int            `json:"p,omitempty"`     // deliver: poll id
	F      string         `json:"f,omitempty"`     // poll: "stale"
	Faults map[int]string `json:"faults,omitempty"`
	Mids   map[int][]Env  `json:"mids,omitempty"` // environment actions right before call n is answered
	Cbs    []string       `json:"cbs,omitempty"`  // return values of the callbacks made in this step
	PreCb  []Env          `json:"precb,omitempty"` // rpc addv/csvtick: actions between the last answer and the csv callback
}

type Schedule struct {
	T      int    `json:"t"`
	Src    string `json:"src"`
	Kind   string `json:"kind"`
	Confs  int    `json:"confs"`
	Window int    `json:"window"`
	Csv    int    `json:"csv"`
	Base   int    `json:"base"`
	Len0   int    `json:"len0"`
	TxAt0  int    `json:"txat0"`
	Bcast0 bool   `json:"bcast0"`
	Steps  []Step `json:"steps"`
}

// Token is one element of a schedule exported by TLC (Watcher.tla, variable sched).
type Token struct {
	A     string `json:"a"`
	Len   int    `json:"len"`
	TxAt  int    `json:"txat"`
	Bcast bool   `json:"bcast"`
	Tx    bool   `json:"tx"`
	K     int    `json:"k"`
	Mid   bool   `json:"mid"`
	Start int    `json:"start"`
	P     int    `json:"p"`
	F     string `json:"f"`
	Cb    string `json:"cb"`
}

type TLCSchedule struct {
	Kind   string  `json:"kind"`
	Confs  int     `json:"confs"`
	Window int     `json:"window"`
	Csv    int     `json:"csv"`
	S      []Token `json:"s"`
}

// FromTokens turns the flat TLC schedule into driver steps: rpc tokens after a
// command are the calls of that command (fault and callback result per call),
// environment tokens flagged mid happen right before the next call.
func FromTokens(t int, ts TLCSchedule) Schedule {
	sc := Schedule{T: t, Src: "tlc", Kind: ts.Kind, Confs: ts.Confs, Window: ts.Window, Csv: ts.Csv, Base: 100}
	var cur *Step
	ncall := 0
	flush := func() {
		if cur != nil {
			sc.Steps = append(sc.Steps, *cur)
			cur = nil
		}
	}
	for _, k := range ts.S {
		switch k.A {
		case "init":
			sc.Len0, sc.TxAt0, sc.Bcast0 = k.Len, k.TxAt, k.Bcast
		case "bcast", "block", "reorg", "spend":
			e := Env{Op: k.A, Tx: k.Tx, K: k.K, TxAt: k.TxAt}
			if k.Mid && cur != nil {
				if cur.Mids == nil {
					cur.Mids = map[int][]Env{}
				}
				cur.Mids[ncall+1] = append(cur.Mids[ncall+1], e)
			} else {
				flush()
				sc.Steps = append(sc.Steps, Step{Cmd: "env", Env: &e})
			}
		case "rpc":
			ncall++
			if cur == nil {
				continue
			}
			if k.F != "ok" && k.F != "" {
				if cur.Faults == nil {
					cur.Faults = map[int]string{}
				}
				cur.Faults[ncall] = k.F
			}
			if k.Cb != "" {
				cur.Cbs = append(cur.Cbs, k.Cb)
			}
		case "cbv": // the csv callback of the RPC watcher, a step of its own: what came after the last answer precedes it
			if cur != nil {
				cur.PreCb = append(cur.PreCb, cur.Mids[ncall+1]...)
				delete(cur.Mids, ncall+1)
				if k.Cb != "" {
					cur.Cbs = append(cur.Cbs, k.Cb)
				}
			}
		case "cb": // a second callback decided in the same model step
			if cur != nil && k.Cb != "" {
				cur.Cbs = append(cur.Cbs, k.Cb)
			}
		default: // addc addv poll deliver csvtick
			flush()
			cur = &Step{Cmd: k.A, Start: k.Start, P: k.P, F: k.F}
			if k.Cb != "" {
				cur.Cbs = append(cur.Cbs, k.Cb)
			}
			ncall = 0
		}
	}
	flush()
	return sc
}

func (sc Schedule) JSON() string {
	b, _ := json.Marshal(sc)
	return string(b)
}

// Random builds a schedule from the seeded generator: longer histories than the
// model-checked ones, real-size heights, several reorganisations and faults,
// late and reordered notifications, actions inside every evaluation.
func Random(t int, r *rand.Rand, kind string) Schedule {
	sc := Schedule{T: t, Src: "rand", Kind: kind}
	sc.Confs = 2
	if kind == "rpc" && r.Intn(2) == 0 {
		sc.Confs = 3
	}
	sc.Window = 2 + r.Intn(4)
	sc.Csv = 2 + r.Intn(5)
	sc.Base = []int{100, 1000, 812345, 2900000}[r.Intn(4)]
	sc.Len0 = 3 + r.Intn(3)
	sc.TxAt0 = 0
	if r.Intn(4) == 0 {
		sc.TxAt0 = 1 + r.Intn(sc.Len0)
	}
	sc.Bcast0 = r.Intn(2) == 0
	tip := sc.Len0
	npoll := 0
	var pending []int
	addedC, addedV := false, false
	env := func() Env {
		switch x := r.Intn(20); {
		case x < 11:
			return Env{Op: "block", Tx: r.Intn(3) == 0}
		case x < 14:
			k := 1 + r.Intn(2)
			return Env{Op: "reorg", K: k, TxAt: r.Intn(k + 1)}
		case x < 18:
			return Env{Op: "bcast"}
		default:
			if kind == "rpc" {
				return Env{Op: "spend"}
			}
			return Env{Op: "block"}
		}
	}
	decorate := func(st *Step) {
		if r.Intn(4) == 0 {
			st.Faults = map[int]string{1 + r.Intn(6): []string{"stale", "err"}[r.Intn(2)]}
			if r.Intn(4) == 0 {
				st.Faults[1+r.Intn(6)] = "stale"
			}
		}
		if r.Intn(3) == 0 {
			st.Mids = map[int][]Env{}
			for i := 0; i <= r.Intn(3); i++ {
				n := 1 + r.Intn(7)
				e := env()
				if e.Op == "block" {
					tip++
				}
				st.Mids[n] = append(st.Mids[n], e)
			}
		}
		if r.Intn(12) == 0 {
			st.Cbs = []string{"err"}
		}
		if (st.Cmd == "addv" || st.Cmd == "csvtick") && r.Intn(3) == 0 {
			for i := 0; i <= r.Intn(2); i++ {
				e := env()
				if e.Op == "block" {
					tip++
				}
				st.PreCb = append(st.PreCb, e)
			}
		}
	}
	n := 8 + r.Intn(22)
	for i := 0; i < n; i++ {
		var st Step
		switch x := r.Intn(20); {
		case x < 6:
			e := env()
			if e.Op == "block" {
				tip++
			}
			st = Step{Cmd: "env", Env: &e}
		case x < 8 && !addedC:
			addedC = true
			st = Step{Cmd: "addc", Start: tip - 2 + r.Intn(4)}
			if st.Start < 1 {
				st.Start = 1
			}
			decorate(&st)
		case x < 10 && !addedV:
			addedV = true
			st = Step{Cmd: "addv"}
			decorate(&st)
		case x < 14:
			npoll++
			pending = append(pending, npoll)
			st = Step{Cmd: "poll"}
			if r.Intn(8) == 0 {
				st.F = "stale"
			}
		case x < 18 && len(pending) > 0:
			j := 0
			if r.Intn(3) == 0 {
				j = r.Intn(len(pending))
			}
			st = Step{Cmd: "deliver", P: pending[j]}
			pending = append(pending[:j], pending[j+1:]...)
			decorate(&st)
		case kind == "rpc" && addedV:
			st = Step{Cmd: "csvtick"}
			decorate(&st)
		default:
			e := Env{Op: "block", Tx: r.Intn(2) == 0}
			tip++
			st = Step{Cmd: "env", Env: &e}
		}
		sc.Steps = append(sc.Steps, st)
	}
	return sc
}
