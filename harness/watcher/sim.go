// Package watcher drives the REAL peerswap chain watchers
// (txwatcher.BlockchainRpcTxWatcher, lwk electrumTxWatcher with the electrum
// block subscriber and observers) over a simulated chain and records, at the
// watcher's linearization points, what spec/WatcherTrace.tla needs to judge
// every report (property C20).
//
// Heights in schedules and traces are MODEL heights (index into the chain,
// 1-based); the watcher sees base+height.
package watcher

import (
	"context"
	"errors"
	"fmt"
	"sort"
	"strconv"
	"strings"
	"sync"

	goelectrum "github.com/checksum0/go-electrum/electrum"
	"github.com/elementsproject/peerswap/txwatcher"
)

const (
	TxID   = "aa11aa11aa11aa11aa11aa11aa11aa11aa11aa11aa11aa11aa11aa11aa11aa11"
	SwapC  = "c0c0c0c0c0c0c0c0c0c0c0c0c0c0c0c0c0c0c0c0c0c0c0c0c0c0c0c0c0c0c0c0"
	SwapV  = "d1d1d1d1d1d1d1d1d1d1d1d1d1d1d1d1d1d1d1d1d1d1d1d1d1d1d1d1d1d1d1d1"
	RawTx  = "0200000001deadbeef"
	TxVout = 1
)

// Script is a P2WSH script (what electrum.NewScriptPubKey accepts).
var Script = append([]byte{0x00, 0x20}, []byte(strings.Repeat("\xec", 32))...)

type Block struct {
	ID int
	Tx bool
}

// Env is an environment action on the chain. Intent is resolved against the
// chain state when it is applied (an impossible inclusion of the tx becomes a
// block without it), the trace records what was actually applied.
type Env struct {
	Op   string `json:"op"` // bcast | block | reorg | spend
	Tx   bool   `json:"tx,omitempty"`
	K    int    `json:"k,omitempty"`
	TxAt int    `json:"txat,omitempty"`
}

type line = map[string]any

// Sim is the simulated chain plus the fake node (bitcoind/elementsd RPC and
// Electrum server) in front of it. One mutex guards everything: every RPC
// answer, chain event and callback is a point in one total order, and the
// logical clock is the number of chain snapshots so far.
type Sim struct {
	mu    sync.Mutex
	T     int
	Base  int
	chain []Block
	all   map[int]bool
	nid   int
	bcast bool
	spent bool
	clock int

	// current driver step
	calls     int
	faults    map[int]string
	mids      map[int][]Env
	cbs       []string
	staleUsed bool
	since     map[string]int
	hcons     map[string]int
	kick      bool // next GetBlockHeight answer is the kick-off height of AddWaitForConfirmationTx
	kickH     int

	gate *cbGate // RPC watcher: the csv callback of the current step is held until the driver releases it

	lastTxOut int // depth answered by the last GetTxOut of this step (-1: nil or error)

	out []line
	hdr chan *goelectrum.SubscribeHeadersResult
}

// cbGate makes the csv callback of the RPC watcher a deterministic step:
// AddWaitForCsvTx runs it on a goroutine of its own, HandleCsvTx after
// releasing the lock. The callback announces itself, the driver applies what
// the schedule puts between the observation and the callback, then lets it go.
type cbGate struct {
	arrived, release, finished chan struct{}
}

func NewSim(t, base int) *Sim {
	return &Sim{T: t, Base: base, all: map[int]bool{}, nid: 1, since: map[string]int{}, hcons: map[string]int{},
		hdr: make(chan *goelectrum.SubscribeHeadersResult)}
}

func (s *Sim) emit(m line) {
	m["t"] = s.T
	s.out = append(s.out, m)
}

func (s *Sim) Emit(m line) {
	s.mu.Lock()
	s.emit(m)
	s.mu.Unlock()
}

func txh(ch []Block) int {
	for i, b := range ch {
		if b.Tx {
			return i + 1
		}
	}
	return 0
}

func depth(ch []Block) int {
	h := txh(ch)
	if h == 0 {
		return 0
	}
	return len(ch) - h + 1
}

// InitChain creates the initial chain of n blocks, the tx in block txat (0: none).
func (s *Sim) InitChain(n, txat int, bcast bool) {
	s.mu.Lock()
	defer s.mu.Unlock()
	for i := 1; i <= n; i++ {
		s.chain = append(s.chain, Block{ID: s.nid, Tx: i == txat})
		s.all[s.nid] = i == txat
		s.nid++
	}
	s.bcast = bcast || txat != 0
	s.clock = 1
	s.emit(line{"e": "chain", "op": "init", "len": n, "txat": txat, "bcast": s.bcast, "tip": len(s.chain), "txh": txh(s.chain)})
}

// apply applies an environment action (mu held).
func (s *Sim) apply(e Env) {
	switch e.Op {
	case "bcast":
		s.bcast = true
		s.emit(line{"e": "chain", "op": "bcast", "tip": len(s.chain), "txh": txh(s.chain)})
	case "spend":
		if txh(s.chain) == 0 {
			return
		}
		s.spent = true
		s.emit(line{"e": "chain", "op": "spend", "tip": len(s.chain), "txh": txh(s.chain)})
	case "block":
		tx := e.Tx && s.bcast && txh(s.chain) == 0
		s.chain = append(s.chain, Block{ID: s.nid, Tx: tx})
		s.all[s.nid] = tx
		s.clock++
		s.emit(line{"e": "chain", "op": "block", "tx": tx, "id": s.nid, "tip": len(s.chain), "txh": txh(s.chain)})
		s.nid++
	case "reorg":
		k := e.K
		if k >= len(s.chain) {
			k = len(s.chain) - 1
		}
		if k < 1 {
			return
		}
		keep := s.chain[:len(s.chain)-k]
		txat := e.TxAt
		if txat > k || !s.bcast || txh(keep) != 0 {
			txat = 0
		}
		nc := append([]Block{}, keep...)
		first := s.nid
		for j := 1; j <= k; j++ {
			nc = append(nc, Block{ID: s.nid, Tx: j == txat})
			s.all[s.nid] = j == txat
			s.nid++
		}
		s.chain = nc
		s.clock++
		s.emit(line{"e": "chain", "op": "reorg", "k": k, "txat": txat, "id": first, "tip": len(s.chain), "txh": txh(s.chain)})
	}
}

func (s *Sim) Apply(e Env) {
	s.mu.Lock()
	s.apply(e)
	s.mu.Unlock()
}

// Begin starts a driver step: faults by call number, environment actions to
// apply right before call number n is answered, callback return values.
func (s *Sim) Begin(st *Step) {
	s.mu.Lock()
	s.calls = 0
	s.faults = st.Faults
	s.mids = map[int][]Env{}
	for n, es := range st.Mids {
		s.mids[n] = es
	}
	s.cbs = append([]string{}, st.Cbs...)
	s.staleUsed = false
	s.kick = false
	s.kickH = 0
	s.lastTxOut = -1
	s.mu.Unlock()
}

func (s *Sim) openGate() *cbGate {
	g := &cbGate{arrived: make(chan struct{}, 8), release: make(chan struct{}, 8), finished: make(chan struct{}, 8)}
	s.mu.Lock()
	s.gate = g
	s.mu.Unlock()
	return g
}

func (s *Sim) closeGate() {
	s.mu.Lock()
	s.gate = nil
	s.mu.Unlock()
}

// End finishes a driver step: environment actions the watcher did not reach
// (it made fewer calls) happen now, in order.
func (s *Sim) End() {
	s.mu.Lock()
	keys := make([]int, 0, len(s.mids))
	for n := range s.mids {
		keys = append(keys, n)
	}
	sort.Ints(keys)
	for _, n := range keys {
		for _, e := range s.mids[n] {
			s.apply(e)
		}
	}
	s.mids = nil
	s.faults = nil
	s.mu.Unlock()
}

// call is the entry of every answer of the fake node (mu held by caller):
// returns the view the answer is computed on and whether it fails.
func (s *Sim) call() (view []Block, fail bool) {
	s.calls++
	for _, e := range s.mids[s.calls] {
		s.apply(e)
	}
	delete(s.mids, s.calls)
	switch s.faults[s.calls] {
	case "err":
		return nil, true
	case "stale":
		if len(s.chain) >= 2 {
			s.staleUsed = true
			return s.chain[:len(s.chain)-1], false
		}
	}
	return s.chain, false
}

var errTransient = errors.New("verif: transient rpc failure")

func hashOf(id int) string { return "blk-" + strconv.Itoa(id) }

// ---- txwatcher.BlockchainRpc ----

type rpcNode struct{ s *Sim }

func (r rpcNode) GetBlockHeight() (uint64, error) {
	s := r.s
	s.mu.Lock()
	defer s.mu.Unlock()
	v, fail := s.call()
	if fail {
		if s.kick {
			s.kick = false
		}
		return 0, errTransient
	}
	if s.kick {
		s.kick = false
		s.kickH = len(v)
		s.hcons["c"] = len(v)
	}
	return uint64(s.Base + len(v)), nil
}

func (r rpcNode) GetBlockHash(height uint32) (string, error) {
	s := r.s
	s.mu.Lock()
	defer s.mu.Unlock()
	v, fail := s.call()
	if fail {
		return "", errTransient
	}
	i := int(height) - s.Base
	if i < 1 || i > len(v) {
		return "", fmt.Errorf("Block height out of range")
	}
	return hashOf(v[i-1].ID), nil
}

func (r rpcNode) GetTxOut(txid string, vout uint32) (*txwatcher.TxOutResp, error) {
	s := r.s
	s.mu.Lock()
	defer s.mu.Unlock()
	v, fail := s.call()
	if fail {
		return nil, errTransient
	}
	if txid != TxID || vout != TxVout || !s.bcast || s.spent {
		return nil, nil
	}
	s.lastTxOut = depth(v)
	return &txwatcher.TxOutResp{BestBlockHash: hashOf(v[len(v)-1].ID), Confirmations: uint32(depth(v)), Value: 0.01}, nil
}

func (r rpcNode) GetRawtransactionWithBlockHash(txid string, blockHash string) (string, error) {
	s := r.s
	s.mu.Lock()
	defer s.mu.Unlock()
	_, fail := s.call()
	if fail {
		return "", errTransient
	}
	id, err := strconv.Atoi(strings.TrimPrefix(blockHash, "blk-"))
	if err != nil || txid != TxID || !s.all[id] {
		return "", fmt.Errorf("No such transaction found in the provided block")
	}
	return RawTx, nil
}

// ---- electrum.RPC ----

type elNode struct{ s *Sim }

func (e elNode) SubscribeHeaders(ctx context.Context) (<-chan *goelectrum.SubscribeHeadersResult, error) {
	return e.s.hdr, nil
}

func (e elNode) GetHistory(ctx context.Context, scripthash string) ([]*goelectrum.GetMempoolResult, error) {
	s := e.s
	s.mu.Lock()
	defer s.mu.Unlock()
	v, fail := s.call()
	if fail {
		return nil, errTransient
	}
	res := []*goelectrum.GetMempoolResult{{Hash: strings.Repeat("bb", 32), Height: int32(s.Base + 1)}, nil}
	if s.bcast {
		h := txh(v)
		hh := int32(0)
		if h > 0 {
			hh = int32(s.Base + h)
		}
		res = append(res, &goelectrum.GetMempoolResult{Hash: TxID, Height: hh})
	}
	return res, nil
}

func (e elNode) GetRawTransaction(ctx context.Context, txHash string) (string, error) {
	s := e.s
	s.mu.Lock()
	defer s.mu.Unlock()
	_, fail := s.call()
	if fail {
		return "", errTransient
	}
	return RawTx, nil
}

func (e elNode) BroadcastTransaction(ctx context.Context, rawTx string) (string, error) {
	return "", errors.New("not used")
}
func (e elNode) GetFee(ctx context.Context, target uint32) (float32, error) { return 0, errors.New("not used") }
func (e elNode) Ping(ctx context.Context) error                             { return nil }
func (e elNode) Reboot(ctx context.Context) error                           { return nil }

// ---- callbacks: the reports ----

func (s *Sim) report(reg, res string) error {
	s.mu.Lock()
	defer s.mu.Unlock()
	ret := "ok"
	if len(s.cbs) > 0 {
		ret = s.cbs[0]
		s.cbs = s.cbs[1:]
	}
	s.emit(line{"e": "report", "reg": reg, "res": res, "ok": ret != "err", "since": s.since[reg], "stale": s.staleUsed,
		"h": s.hcons[reg], "now": s.clock, "tip": len(s.chain), "txh": txh(s.chain)})
	if ret == "err" {
		return errors.New("verif: callback error")
	}
	return nil
}

func regOf(swapId string) string {
	switch swapId {
	case SwapC:
		return "c"
	case SwapV:
		return "v"
	}
	return "unknown:" + swapId
}

func (s *Sim) ConfCb(swapId, txHex string, err error) error {
	res := "confirmed"
	if err != nil {
		res = "failed"
	}
	return s.report(regOf(swapId), res)
}

func (s *Sim) CsvCb(swapId string) error {
	s.mu.Lock()
	g := s.gate
	s.mu.Unlock()
	if g != nil {
		g.arrived <- struct{}{}
		<-g.release
		defer func() { g.finished <- struct{}{} }()
	}
	return s.report(regOf(swapId), "csv")
}
