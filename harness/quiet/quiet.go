// Package quiet silences peerswap's logger inside harness binaries.
package quiet

import (
	stdlog "log"
	"io"
	"os"

	"github.com/elementsproject/peerswap/log"
)

type nop struct{}

func (nop) Infof(string, ...any)  {}
func (nop) Debugf(string, ...any) {}

func init() {
	if os.Getenv("VERIF_VERBOSE") == "" {
		log.SetLogger(nop{})
		stdlog.SetOutput(io.Discard)
	}
}
